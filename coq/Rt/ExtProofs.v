(* Rt/ExtProofs.v — theorems of the extensibility layer (Rt/Ext.v):
   round trips of the extensible SEQUENCE / CHOICE in unaligned PER, OER and
   DER/BER, composed from the round-trip theorems of the base codecs
   (UperProofs, OerProofs, DerProofs), and forward compatibility: a type that
   knows only the first k additions gets the known part of the value back and
   leaves exactly what followed the encoding.
   The statements hold for the C as it is (std = false hands the C's reading of
   the base codecs down to the components) without side conditions on the number
   of additions or on the sizes of the additions a reader skips: the four
   deviations once witnessed here (uper_put_nslength, uper_put_nsnnwn,
   uper_open_type_skip, oer_open_type_skip) are repaired in the C. *)
From Coq Require Import ZArith List Lia Bool ZifyBool.
From A1 Require Import Base.Bytes Leaf.IntegerConv Leaf.BerTL Rt.Types Rt.TypesInd Rt.Comb Rt.Der Rt.DerProofs
  Rt.Uper Rt.UperBits Rt.UperCounted Rt.UperProofs Rt.Oer Rt.OerLeaf Rt.OerProofs Rt.Ext Rt.ExtFormat.
Import ListNotations.
Local Open Scope Z_scope.

(* ================= the additions loop, for any open-type wrapping ================= *)

(* additions and their values: VNone, or VSome v with [ok t v] *)
Fixpoint adds_ok (ok : ty -> val -> Prop) (ts : list ty) (vs : list val) : Prop :=
  match ts, vs with
  | [], [] => True
  | t :: ts', VNone :: vs' => adds_ok ok ts' vs'
  | t :: ts', VSome v :: vs' => ok t v /\ adds_ok ok ts' vs'
  | _, _ => False
  end.

(* a property of the encodings of the present additions *)
Fixpoint all_enc (enc : ty -> val -> option (list Z)) (P : list Z -> Prop) (ts : list ty) (vs : list val) : Prop :=
  match ts, vs with
  | t :: ts', VSome v :: vs' => (forall c, enc t v = Some c -> P c) /\ all_enc enc P ts' vs'
  | _ :: ts', _ :: vs' => all_enc enc P ts' vs'
  | _, _ => True
  end.

Lemma all_enc_skipn enc P : forall k ts vs, all_enc enc P ts vs -> all_enc enc P (skipn k ts) (skipn k vs).
Proof.
  induction k as [|k IH]; intros ts vs H; [exact H|].
  destruct ts as [|t ts']; [rewrite skipn_nil; exact I|].
  destruct vs as [|v vs'].
  - rewrite skipn_nil. destruct (skipn (S k) (t :: ts')); exact I.
  - cbn [skipn]. apply IH. destruct v; cbn [all_enc] in H; try exact H. exact (proj2 H).
Qed.

Lemma enc_additions_length {B} enc (wrap : list Z -> list B) : forall ts vs ots,
  enc_additions enc wrap ts vs = Some ots -> length vs = length ts.
Proof.
  induction ts as [|t ts' IH]; intros vs ots H; destruct vs as [|v vs']; cbn [enc_additions] in H; try discriminate.
  - reflexivity.
  - cbn [length]. f_equal. destruct v; try discriminate.
    + exact (IH _ _ H).
    + destruct (enc t v) as [c|]; [|discriminate].
      destruct (enc_additions enc wrap ts' vs') as [r|] eqn:E; [|discriminate]. exact (IH _ _ E).
Qed.

Lemma enc_additions_none {B} enc (wrap : list Z -> list B) : forall ts vs ots,
  enc_additions enc wrap ts vs = Some ots -> existsb is_present vs = false ->
  vs = absent_all ts /\ ots = [].
Proof.
  induction ts as [|t ts' IH]; intros vs ots H Hn; destruct vs as [|v vs']; cbn [enc_additions] in H; try discriminate.
  - injection H as <-. split; reflexivity.
  - cbn [existsb] in Hn. apply orb_false_iff in Hn. destruct Hn as [Hv Hr].
    destruct v; cbn [is_present] in Hv; try discriminate.
    destruct (IH _ _ H Hr) as [-> ->]. split; reflexivity.
Qed.

Section Additions.
  Context {B : Type}.
  Variable enc : ty -> val -> option (list Z).
  Variable wrap : list Z -> list B.
  Variable get : ty -> list B -> option (val * list B).
  Variable skip : list B -> option (list B).
  Variable ok : ty -> val -> Prop.
  Variable skippable : list Z -> Prop.
  Hypothesis get_wrap : forall t v c r, ok t v -> enc t v = Some c -> get t (wrap c ++ r) = Some (v, r).
  Hypothesis skip_wrap : forall c r, skippable c -> skip (wrap c ++ r) = Some r.

  (* every addition known: the values come back *)
  Lemma additions_rt : forall ts vs ots r,
    adds_ok ok ts vs -> enc_additions enc wrap ts vs = Some ots ->
    dec_additions get skip ts (map is_present vs) (ots ++ r) = Some (vs, r).
  Proof.
    induction ts as [|t ts' IH]; intros vs ots r Hok He; destruct vs as [|v vs']; cbn [enc_additions] in He; try discriminate.
    - injection He as <-. reflexivity.
    - cbn [adds_ok] in Hok. destruct v; try contradiction.
      + cbn [map is_present dec_additions]. rewrite (IH _ _ r Hok He). reflexivity.
      + destruct Hok as [Hv Hr].
        destruct (enc t v) as [c|] eqn:Ec; [|discriminate].
        destruct (enc_additions enc wrap ts' vs') as [o'|] eqn:Eo; [|discriminate]. injection He as <-.
        cbn [map is_present dec_additions]. rewrite <- app_assoc.
        rewrite (get_wrap t v c _ Hv Ec). rewrite (IH _ _ r Hr Eo). reflexivity.
  Qed.

  (* nothing known: everything present is skipped *)
  Lemma additions_skip_all : forall ts vs ots r,
    adds_ok ok ts vs -> enc_additions enc wrap ts vs = Some ots -> all_enc enc skippable ts vs ->
    skip_rest skip (map is_present vs) (ots ++ r) = Some r.
  Proof.
    induction ts as [|t ts' IH]; intros vs ots r Hok He Hs; destruct vs as [|v vs']; cbn [enc_additions] in He; try discriminate.
    - injection He as <-. reflexivity.
    - cbn [adds_ok] in Hok. destruct v; try contradiction.
      + cbn [map is_present skip_rest]. cbn [all_enc] in Hs. exact (IH _ _ r Hok He Hs).
      + destruct Hok as [Hv Hr]. cbn [all_enc] in Hs. destruct Hs as [Hc Hs].
        destruct (enc t v) as [c|] eqn:Ec; [|discriminate].
        destruct (enc_additions enc wrap ts' vs') as [o'|] eqn:Eo; [|discriminate]. injection He as <-.
        cbn [map is_present skip_rest]. rewrite <- app_assoc.
        rewrite (skip_wrap c _ (Hc c eq_refl)). exact (IH _ _ r Hr Eo Hs).
  Qed.

  (* forward compatibility: the first k additions known, the others skipped *)
  Lemma additions_fwd : forall k ts vs ots r,
    adds_ok ok ts vs -> enc_additions enc wrap ts vs = Some ots ->
    all_enc enc skippable (skipn k ts) (skipn k vs) ->
    dec_additions get skip (firstn k ts) (map is_present vs) (ots ++ r) = Some (firstn k vs, r).
  Proof.
    induction k as [|k IH]; intros ts vs ots r Hok He Hs.
    - cbn [firstn skipn] in *. destruct ts; cbn [dec_additions];
        rewrite (additions_skip_all _ _ _ r Hok He Hs); reflexivity.
    - destruct ts as [|t ts']; destruct vs as [|v vs']; cbn [enc_additions] in He; try discriminate.
      + injection He as <-. reflexivity.
      + cbn [firstn skipn] in *. cbn [adds_ok] in Hok. destruct v; try contradiction.
        * cbn [map is_present dec_additions]. rewrite (IH _ _ _ r Hok He Hs). reflexivity.
        * destruct Hok as [Hv Hr].
          destruct (enc t v) as [c|] eqn:Ec; [|discriminate].
          destruct (enc_additions enc wrap ts' vs') as [o'|] eqn:Eo; [|discriminate]. injection He as <-.
          cbn [map is_present dec_additions]. rewrite <- app_assoc.
          rewrite (get_wrap t v c _ Hv Ec). rewrite (IH _ _ _ r Hr Eo Hs). reflexivity.
  Qed.

  (* backward compatibility: the sender knew only [ts]; the reader knows [more] additions beyond them *)
  Lemma additions_bwd more : forall ts vs ots r,
    adds_ok ok ts vs -> enc_additions enc wrap ts vs = Some ots ->
    dec_additions get skip (ts ++ more) (map is_present vs) (ots ++ r) = Some (vs ++ absent_all more, r).
  Proof.
    induction ts as [|t ts' IH]; intros vs ots r Hok He; destruct vs as [|v vs']; cbn [enc_additions] in He; try discriminate.
    - injection He as <-. cbn [app map]. destruct more; reflexivity.
    - cbn [adds_ok] in Hok. destruct v; try contradiction.
      + cbn [map is_present dec_additions app]. rewrite (IH _ _ r Hok He). reflexivity.
      + destruct Hok as [Hv Hr].
        destruct (enc t v) as [c|] eqn:Ec; [|discriminate].
        destruct (enc_additions enc wrap ts' vs') as [o'|] eqn:Eo; [|discriminate]. injection He as <-.
        cbn [map is_present dec_additions app]. rewrite <- app_assoc.
        rewrite (get_wrap t v c _ Hv Ec). rewrite (IH _ _ r Hr Eo). reflexivity.
  Qed.
End Additions.

(* the bitmap of a value without any addition present *)
Lemma absent_all_length ts : length (absent_all ts) = length ts.
Proof. unfold absent_all. apply map_length. Qed.

Lemma firstn_absent_all k ts : firstn k (absent_all ts) = absent_all (firstn k ts).
Proof. unfold absent_all. apply firstn_map. Qed.

(* ================= alternatives, for any per-alternative decoder ================= *)

Lemma enc_alt_nth {B} (f : ty -> val -> option B) v : forall alts i b,
  enc_alt f v alts i = Some b -> exists a, nth_error alts i = Some a /\ f a v = Some b.
Proof.
  induction alts as [|a r IH]; intros i b H; destruct i; cbn [enc_alt nth_error] in *; try discriminate.
  - exists a. split; [reflexivity|exact H].
  - exact (IH _ _ H).
Qed.

Lemma dec_alt_pick {St} (dec : ty -> St -> option (val * St)) (sel : nat -> ty -> bool) s : forall alts k j a v r,
  nth_error alts j = Some a -> dec a s = Some (v, r) -> sel (k + j)%nat a = true ->
  (forall j' a', (j' < j)%nat -> nth_error alts j' = Some a' -> sel (k + j')%nat a' = false) ->
  dec_alt dec sel s alts k = Some (VChoice (k + j) v, r).
Proof.
  induction alts as [|a0 rest IH]; intros k j a v r Hn Hd Hs Hlt; [destruct j; discriminate|].
  cbn [dec_alt]. destruct j as [|j]; cbn [nth_error] in Hn.
  - injection Hn as ->. replace (k + 0)%nat with k in * by lia. rewrite Hs, Hd. reflexivity.
  - pose proof (Hlt O a0 ltac:(lia) eq_refl) as H0. replace (k + 0)%nat with k in H0 by lia. rewrite H0.
    rewrite (IH (S k) j a v r Hn Hd).
    + replace (S k + j)%nat with (k + S j)%nat by lia. reflexivity.
    + replace (S k + j)%nat with (k + S j)%nat by lia. exact Hs.
    + intros j' a' Hj' Hn'. replace (S k + j')%nat with (k + S j')%nat by lia.
      apply (Hlt (S j') a'); [lia|exact Hn'].
Qed.

Lemma nth_error_lt {A} (l : list A) i a : nth_error l i = Some a -> (i < length l)%nat.
Proof. intros H. apply nth_error_Some. congruence. Qed.

(* the value of alternative i is well typed for that alternative *)
Lemma wt_uper_pick std : forall alts i v a, nth_error alts i = Some a ->
  wt_uper std (TChoice alts) (VChoice i v) = true -> wt_uper std a v = true.
Proof.
  induction alts as [|a0 r IH]; intros i v a Hn Hw; destruct i; cbn [nth_error] in Hn; try discriminate.
  - injection Hn as ->. exact Hw.
  - exact (IH i v a Hn Hw).
Qed.

(* ================= unaligned PER ================= *)

Lemma forallb_negb_repeat n : forallb negb (repeat false n) = true.
Proof. induction n; cbn; auto. Qed.

Lemma pad_len_lt n : (pad_len n < 8)%nat.
Proof. unfold pad_len. apply Nat.mod_upper_bound. lia. Qed.

Lemma uper_encode_ok std t v c : uper_encode std t v = Some c -> bytes_ok c.
Proof.
  unfold uper_encode. destruct (uper std t v) as [bits|]; [|discriminate].
  destruct bits as [|b tl].
  - intros H. injection H as <-. repeat constructor; unfold byte_ok; lia.
  - intros H. injection H as <-. apply bits_to_bytes_ok.
Qed.

(* X.691 11.2.1 NOTE / 11.1.3: the contents of an open type has at least one octet *)
Lemma uper_encode_nonempty std t v c : uper_encode std t v = Some c -> 1 <= zlen c.
Proof.
  unfold uper_encode. destruct (uper std t v) as [bits|]; [|discriminate].
  destruct bits as [|b tl] eqn:E.
  - intros H. injection H as <-. reflexivity.
  - rewrite <- E. intros H. apply some_inj in H. subst c.
    destruct (bits_to_bytes_spec bits) as [_ Hl]. rewrite Hl.
    assert (1 <= zlen bits) by (rewrite E, zlen_cons; pose proof (zlen_nonneg tl); lia).
    apply Z.div_le_lower_bound; lia.
Qed.

(* uper_open_type_get on what uper_open_type_put wrote *)
Lemma uper_open_get_rt std t v c r :
  wf_ty_uper t = true -> wt_uper std t v = true -> uper_encode std t v = Some c ->
  uper_open_get std t (open_type c ++ r) = Some (v, r).
Proof.
  intros Hwf Hwt He. unfold uper_open_get.
  rewrite get_open_bytes_open_type by (eapply uper_encode_ok; eauto).
  unfold uper_encode in He. destruct (uper std t v) as [bits|] eqn:Eu; [|discriminate].
  destruct bits as [|b0 tl] eqn:Ebits.
  - injection He as <-.
    pose proof (uper_roundtrip_in_stream std t v [] (bytes_bits [0]) Hwf Hwt Eu) as Hr.
    cbn [app] in Hr. rewrite Hr. reflexivity.
  - rewrite <- Ebits in *. injection He as <-.
    destruct (bits_to_bytes_spec bits) as [Hb Hl]. rewrite Hb.
    rewrite (uper_roundtrip_in_stream std t v bits _ Hwf Hwt Eu).
    rewrite forallb_negb_repeat. rewrite zlen_repeat.
    pose proof (pad_len_lt (length bits)).
    destruct (Z.of_nat (pad_len (length bits)) <? 8) eqn:E; [reflexivity|lia].
Qed.

Lemma uper_open_skip_rt c r : bytes_ok c -> uper_open_skip (open_type c ++ r) = Some r.
Proof.
  intros Hc. unfold uper_open_skip. rewrite get_open_bytes_open_type by exact Hc. reflexivity.
Qed.

(* ---------------- hypotheses ---------------- *)

Definition wf_ety_uper (t : ety) : bool :=
  match t with
  | ESeq tg root adds => wf_u (TSeq tg root) && forallb wf_ty_uper adds
  | EChoice root exts =>
      (* uper_get_nsnnwn reads an index of at most two octets (a limit of the implementation) *)
      wf_u (TChoice root) && wf_u (TChoice exts) && (zlen exts <=? 65536)
  end.

Definition uper_add_ok (std : bool) (t : ty) (v : val) : Prop :=
  wf_ty_uper t = true /\ wt_uper std t v = true.

Definition wt_ety_uper (std : bool) (t : ety) (v : eval) : Prop :=
  match t, v with
  | ESeq tg root adds, EVSeq rvs avs =>
      wt_uper std (TSeq tg root) (VSeq rvs) = true /\ adds_ok (fun t v => wt_uper std t v = true) adds avs
  | EChoice root exts, EVAlt i v' =>
      if (i <? length root)%nat then wt_uper std (TChoice root) (VChoice i v') = true
      else wt_uper std (TChoice exts) (VChoice (i - length root) v') = true
  | _, _ => False
  end.

Lemma adds_ok_wf std adds avs : forallb wf_ty_uper adds = true ->
  adds_ok (fun t v => wt_uper std t v = true) adds avs -> adds_ok (uper_add_ok std) adds avs.
Proof.
  revert avs. induction adds as [|t ts IH]; intros avs Hwf H; destruct avs as [|v vs]; cbn [adds_ok] in *; auto.
  cbn [forallb] in Hwf. apply andb_true_iff in Hwf. destruct Hwf as [Hw Hr].
  destruct v; auto. destruct H as [Hv Hvs]. split; [split; assumption|apply IH; assumption].
Qed.

Lemma all_RTm std (ms : list ty) : Forall (RTm std) ms.
Proof. apply Forall_forall. intros t _. apply uper_decodes_all. Qed.

Lemma take_bits_app_eq n (x r : list bool) : n = length x -> take_bits n (x ++ r) = Some (x, r).
Proof. intros ->. apply take_bits_app. Qed.

(* the root part of an extensible SEQUENCE, in a stream *)
Lemma uper_root_rt std tg root rvs body rest :
  wf_u (TSeq tg root) = true -> wt_uper std (TSeq tg root) (VSeq rvs) = true ->
  enc_members (uper std) root rvs = Some body ->
  take_bits (length (filter is_opt root)) ((presence_bits root rvs ++ body) ++ rest) = Some (presence_bits root rvs, body ++ rest) /\
  dec_members_pres (uper_dec std) root (presence_bits root rvs) (body ++ rest) = Some (rvs, rest).
Proof.
  intros Hwf Hwt He. cbn [wf_u] in Hwf.
  destruct (members_pres_rt std root (all_RTm std root) rvs body rest Hwf Hwt He) as [H1 H2].
  split; [|exact H1]. rewrite <- app_assoc. apply take_bits_app_eq. symmetry. exact H2.
Qed.

(* the framing of an extensible SEQUENCE, for ANY reader's list of additions [dadds]: whatever the additions loop of
   that reader returns on the sender's bitmap and open types is what the reader returns *)
Lemma ext_uper_seq_gen std tg root adds dadds rvs avs davs bits rest :
  wf_u (TSeq tg root) = true -> wt_uper std (TSeq tg root) (VSeq rvs) = true ->
  ext_uper std (ESeq tg root adds) (EVSeq rvs avs) = Some bits ->
  (forall ots, enc_additions (uper_encode std) open_type adds avs = Some ots ->
     dec_additions (uper_open_get std) uper_open_skip dadds (map is_present avs) (ots ++ rest) = Some (davs, rest)) ->
  (existsb is_present avs = false -> davs = absent_all dadds) ->
  ext_uper_dec std (ESeq tg root dadds) (bits ++ rest) = Some (EVSeq rvs davs, rest).
Proof.
  intros Hwfr Hwr He Hadd Hnone.
  cbn [ext_uper] in He.
  destruct (enc_members (uper std) root rvs) as [body|] eqn:Eb; [|discriminate].
  destruct (enc_additions (uper_encode std) open_type adds avs) as [ots|] eqn:Eo; [|discriminate].
  pose proof (enc_additions_length _ _ _ _ _ Eo) as Hlen.
  destruct (existsb is_present avs) eqn:Eany.
  - destruct (nslength (zlen adds)) as [nl|] eqn:En; [|discriminate]. injection He as <-.
    cbn [ext_uper_dec app].
    replace ((presence_bits root rvs ++ body ++ nl ++ map is_present avs ++ ots) ++ rest)
      with ((presence_bits root rvs ++ body) ++ (nl ++ map is_present avs ++ ots ++ rest))
      by (rewrite <- !app_assoc; reflexivity).
    destruct (uper_root_rt std tg root rvs body (nl ++ map is_present avs ++ ots ++ rest) Hwfr Hwr Eb) as [H1 H2].
    rewrite H1, H2.
    rewrite (nslength_rt (zlen adds) nl _ En).
    rewrite (take_bits_app_eq (Z.to_nat (zlen adds)) (map is_present avs))
      by (rewrite map_length, Hlen; unfold zlen; lia).
    rewrite (Hadd ots eq_refl). reflexivity.
  - injection He as <-. cbn [ext_uper_dec app].
    destruct (uper_root_rt std tg root rvs body rest Hwfr Hwr Eb) as [H1 H2].
    rewrite H1, H2. rewrite (Hnone eq_refl). reflexivity.
Qed.

(* what the reader skips is a string of octets: all uper_open_skip needs *)
Lemma all_enc_uper_ok std : forall ts vs, all_enc (uper_encode std) bytes_ok ts vs.
Proof.
  induction ts as [|t ts IH]; intros vs; destruct vs as [|v vs]; cbn [all_enc]; auto.
  destruct v; auto. split; [|auto].
  intros c Hcc. eapply uper_encode_ok; eauto.
Qed.

Theorem ext_uper_seq_fwd std tg root adds rvs avs bits rest k :
  wf_ety_uper (ESeq tg root adds) = true -> wt_ety_uper std (ESeq tg root adds) (EVSeq rvs avs) ->
  ext_uper std (ESeq tg root adds) (EVSeq rvs avs) = Some bits ->
  ext_uper_dec std (ESeq tg root (firstn k adds)) (bits ++ rest) = Some (EVSeq rvs (firstn k avs), rest).
Proof.
  intros Hwf [Hwr Hwa] He. cbn [wf_ety_uper] in Hwf. apply andb_true_iff in Hwf. destruct Hwf as [Hwfr Hwfa].
  pose proof (adds_ok_wf std adds avs Hwfa Hwa) as Hok.
  apply (ext_uper_seq_gen std tg root adds (firstn k adds) rvs avs (firstn k avs) bits rest Hwfr Hwr He).
  - intros ots Eo.
    apply (additions_fwd (uper_encode std) open_type (uper_open_get std) uper_open_skip
             (uper_add_ok std) bytes_ok).
    + intros t v c r [Hw1 Hw2] Hc. apply uper_open_get_rt; assumption.
    + intros c r Hc. apply uper_open_skip_rt; assumption.
    + exact Hok.
    + exact Eo.
    + apply all_enc_uper_ok.
  - intros Eany. cbn [ext_uper] in He.
    destruct (enc_members (uper std) root rvs); [|discriminate].
    destruct (enc_additions (uper_encode std) open_type adds avs) as [ots|] eqn:Eo; [|discriminate].
    destruct (enc_additions_none _ _ _ _ _ Eo Eany) as [-> _]. apply firstn_absent_all.
Qed.

(* an encoding produced by a sender that knows only the first additions [known], read by a type that knows
   [more] beyond them: the value comes back with the further additions absent *)
Theorem ext_uper_seq_bwd std tg root known more rvs avs bits rest :
  wf_ety_uper (ESeq tg root known) = true -> wt_ety_uper std (ESeq tg root known) (EVSeq rvs avs) ->
  ext_uper std (ESeq tg root known) (EVSeq rvs avs) = Some bits ->
  ext_uper_dec std (ESeq tg root (known ++ more)) (bits ++ rest) = Some (EVSeq rvs (avs ++ absent_all more), rest).
Proof.
  intros Hwf [Hwr Hwa] He. cbn [wf_ety_uper] in Hwf. apply andb_true_iff in Hwf. destruct Hwf as [Hwfr Hwfa].
  pose proof (adds_ok_wf std known avs Hwfa Hwa) as Hok.
  apply (ext_uper_seq_gen std tg root known (known ++ more) rvs avs (avs ++ absent_all more) bits rest Hwfr Hwr He).
  - intros ots Eo.
    apply (additions_bwd (uper_encode std) open_type (uper_open_get std) uper_open_skip (uper_add_ok std)).
    + intros t v c r [Hw1 Hw2] Hc. apply uper_open_get_rt; assumption.
    + exact Hok.
    + exact Eo.
  - intros Eany. cbn [ext_uper] in He.
    destruct (enc_members (uper std) root rvs); [|discriminate].
    destruct (enc_additions (uper_encode std) open_type known avs) as [ots|] eqn:Eo; [|discriminate].
    destruct (enc_additions_none _ _ _ _ _ Eo Eany) as [-> _]. unfold absent_all. rewrite map_app. reflexivity.
Qed.

Lemma firstn_length_all {A} (l : list A) : firstn (length l) l = l.
Proof. apply firstn_all. Qed.

Lemma all_enc_nil enc P vs : all_enc enc P [] vs.
Proof. exact I. Qed.

(* C01 for an extensible SEQUENCE in unaligned PER, in a stream *)
Theorem ext_uper_seq_rt std tg root adds rvs avs bits rest :
  wf_ety_uper (ESeq tg root adds) = true -> wt_ety_uper std (ESeq tg root adds) (EVSeq rvs avs) ->
  ext_uper std (ESeq tg root adds) (EVSeq rvs avs) = Some bits ->
  ext_uper_dec std (ESeq tg root adds) (bits ++ rest) = Some (EVSeq rvs avs, rest).
Proof.
  intros Hwf Hwt He.
  assert (Hlen : length avs = length adds).
  { cbn [ext_uper] in He. destruct (enc_members (uper std) root rvs); [|discriminate].
    destruct (enc_additions (uper_encode std) open_type adds avs) eqn:E; [|discriminate].
    eapply enc_additions_length; eauto. }
  pose proof (ext_uper_seq_fwd std tg root adds rvs avs bits rest (length adds) Hwf Hwt He) as H.
  rewrite firstn_length_all in H. rewrite (firstn_all2 avs) in H by lia.
  exact H.
Qed.

Lemma forallb_nth {A} (p : A -> bool) l i a : forallb p l = true -> nth_error l i = Some a -> p a = true.
Proof. intros H Hn. rewrite forallb_forall in H. apply H. eapply nth_error_In; eauto. Qed.

Theorem ext_uper_choice_rt std root exts i v' bits rest :
  wf_ety_uper (EChoice root exts) = true -> wt_ety_uper std (EChoice root exts) (EVAlt i v') ->
  ext_uper std (EChoice root exts) (EVAlt i v') = Some bits ->
  ext_uper_dec std (EChoice root exts) (bits ++ rest) = Some (EVAlt i v', rest).
Proof.
  intros Hwf Hwt He. cbn [wf_ety_uper] in Hwf. apply andb_true_iff in Hwf. destruct Hwf as [Hwf Hcnt].
  apply andb_true_iff in Hwf. destruct Hwf as [Hwr Hwx].
  cbn [wt_ety_uper] in Hwt. cbn [ext_uper] in He.
  destruct (i <? length root)%nat eqn:Ei.
  - (* root alternative *)
    apply Nat.ltb_lt in Ei.
    destruct (enc_alt (uper std) v' root i) as [body|] eqn:Eb; [|discriminate]. injection He as <-.
    cbn [wf_u] in Hwr. apply andb_true_iff in Hwr. destruct Hwr as [Hwr Hkd].
    apply andb_true_iff in Hwr. destruct Hwr as [Hwa Hno].
    pose proof (choice_index_bound (cstd std) root i Ei) as Hb.
    cbn [ext_uper_dec app]. rewrite <- app_assoc.
    rewrite get_bits_range by exact Hb.
    assert (Hle : (choice_index (cstd std) root i <=? zlen root - 1) = true) by lia.
    unfold cstd, choice_index in Hle |- *. rewrite Hle.
    rewrite (alts_rt std root (all_RTm std root) _ i O v' body rest Hwa Hno Hwt Eb).
    + reflexivity.
    + intros j a Hj. cbn [Nat.add]. apply Z.eqb_neq. intros Heq.
      apply (choice_index_inj (cstd std) root j i Hkd) in Heq; lia.
    + intros a. cbn [Nat.add]. apply Z.eqb_refl.
  - (* extension alternative *)
    apply Nat.ltb_ge in Ei. set (j := (i - length root)%nat) in *.
    destruct (enc_alt (uper_encode std) v' exts j) as [c|] eqn:Ec; [|discriminate].
    destruct (nsnnwn (choice_index (cstd std) exts j)) as [ix|] eqn:Ex; [|discriminate].
    injection He as <-.
    destruct (enc_alt_nth _ _ _ _ _ Ec) as (a & Hn & Ea).
    pose proof (nth_error_lt _ _ _ Hn) as Hj.
    cbn [wf_u] in Hwx. apply andb_true_iff in Hwx. destruct Hwx as [Hwx Hkd].
    apply andb_true_iff in Hwx. destruct Hwx as [Hwa Hno].
    pose proof (choice_index_bound (cstd std) exts j Hj) as Hb.
    cbn [ext_uper_dec app]. rewrite <- app_assoc.
    rewrite (nsnnwn_rt (choice_index (cstd std) exts j) ix (open_type c ++ rest)); [| |exact Ex].
    + rewrite (dec_alt_pick (uper_open_get std) _ _ exts (length root) j a v' rest Hn).
      * replace (length root + j)%nat with i by (subst j; lia). reflexivity.
      * apply uper_open_get_rt; [| |exact Ea].
        -- unfold wf_ty_uper. rewrite (forallb_nth _ _ _ _ Hno Hn), (forallb_nth _ _ _ _ Hwa Hn). reflexivity.
        -- eapply wt_uper_pick; eauto.
      * replace (length root + j - length root)%nat with j by lia. apply Z.eqb_refl.
      * intros j' a' Hj' Hn'. replace (length root + j' - length root)%nat with j' by lia.
        apply Z.eqb_neq. intros Heq.
        apply (choice_index_inj (cstd std) exts j' j Hkd) in Heq; lia.
    + lia.
Qed.

(* C01, unaligned PER, the extensible types of the layer, in a stream *)
Theorem ext_uper_roundtrip_in_stream std t v bits rest :
  wf_ety_uper t = true -> wt_ety_uper std t v ->
  ext_uper std t v = Some bits -> ext_uper_dec std t (bits ++ rest) = Some (v, rest).
Proof.
  destruct t as [tg root adds|root exts]; destruct v as [rvs avs|i v']; intros Hwf Hwt He;
    try (cbn [wt_ety_uper] in Hwt; contradiction).
  - apply ext_uper_seq_rt; assumption.
  - apply ext_uper_choice_rt; assumption.
Qed.

(* complete encodings: the value comes back and exactly the octets produced are consumed *)
Theorem ext_uper_decode_roundtrip std t v bytes :
  wf_ety_uper t = true -> wt_ety_uper std t v ->
  ext_uper_encode std t v = Some bytes ->
  ext_uper_decode std t bytes = Some (v, zlen bytes) /\ 1 <= zlen bytes.
Proof.
  intros Hwf Hwt He. unfold ext_uper_encode in He.
  destruct (ext_uper std t v) as [bits|] eqn:Eu; [|discriminate].
  unfold ext_uper_decode.
  destruct bits as [|b0 tl] eqn:Ebits.
  - injection He as <-.
    pose proof (ext_uper_roundtrip_in_stream std t v [] (bytes_bits [0]) Hwf Hwt Eu) as Hr.
    cbn [app] in Hr. rewrite Hr. rewrite Z.sub_diag. split; reflexivity.
  - rewrite <- Ebits in *. injection He as <-.
    destruct (bits_to_bytes_spec bits) as [Hb Hl]. rewrite Hb, Hl.
    rewrite (ext_uper_roundtrip_in_stream std t v bits _ Hwf Hwt Eu).
    rewrite zlen_app. assert (Hpos : 1 <= zlen bits) by (rewrite Ebits, zlen_cons; pose proof (zlen_nonneg tl); lia).
    split; [|lia]. f_equal. f_equal. lia.
Qed.

(* forward compatibility in unaligned PER: a reader that knows the first k additions gets the known part of
   the value and skips every further addition, whatever its size *)
Theorem ext_uper_forward_compat std tg root adds rvs avs bits rest k :
  wf_ety_uper (ESeq tg root adds) = true -> wt_ety_uper std (ESeq tg root adds) (EVSeq rvs avs) ->
  ext_uper std (ESeq tg root adds) (EVSeq rvs avs) = Some bits ->
  ext_uper_dec std (truncate_ty k (ESeq tg root adds)) (bits ++ rest) = Some (truncate_val k (EVSeq rvs avs), rest).
Proof. exact (ext_uper_seq_fwd std tg root adds rvs avs bits rest k). Qed.

(* ================= OER ================= *)

Lemma min_unsigned_len : forall fuel n acc k,
  0 <= n < 256 ^ Z.of_nat k -> (0 < k)%nat -> (k <= fuel)%nat ->
  zlen (min_unsigned fuel n acc) <= zlen acc + Z.of_nat k.
Proof.
  induction fuel as [|f IH]; intros n acc k Hn Hk Hf; [lia|].
  cbn [min_unsigned]. destruct (n <? 256) eqn:E.
  - rewrite zlen_cons. lia.
  - destruct k as [|k']; [lia|]. destruct k' as [|k''].
    + change (256 ^ Z.of_nat 1) with 256 in Hn. lia.
    + rewrite pow256_S in Hn. pose proof (pow256_pos (S k'')) as HP.
      assert (Hq : 0 <= n / 256 < 256 ^ Z.of_nat (S k'')).
      { split; [apply Z.div_pos; lia|]. apply Z.div_lt_upper_bound; lia. }
      specialize (IH (n / 256) (n mod 256 :: acc) (S k'') Hq ltac:(lia) ltac:(lia)).
      rewrite zlen_cons in IH. lia.
Qed.

Lemma drop_zeros_len bs : zlen (drop_zeros bs) <= zlen bs.
Proof.
  induction bs as [|b tl IH]; cbn [drop_zeros]; [lia|].
  destruct (b =? 0); rewrite ?zlen_cons in *; lia.
Qed.

Lemma rssize_lt_pow : rssize_max < 256 ^ Z.of_nat 8.
Proof. vm_compute. reflexivity. Qed.

(* oer_fetch_length reads what oer_serialize_length wrote *)
Lemma oer_fetch_length_inverse n r : 0 <= n <= rssize_max ->
  oer_fetch_length (oer_length n ++ r) = Some (n, r).
Proof.
  intros Hn. unfold oer_length.
  destruct (n <=? 127) eqn:E.
  - cbn [app oer_fetch_length]. destruct (n <? 128) eqn:E2; [reflexivity|lia].
  - destruct (oer_min_octets_spec n (oer_small_count n Hn)) as (Hne & Hv & _).
    cbn zeta. cbn [app oer_fetch_length].
    pose proof (zlen_nonneg (min_octets n)).
    destruct (128 + zlen (min_octets n) <? 128) eqn:E2; [lia|].
    replace (128 + zlen (min_octets n) - 128) with (zlen (min_octets n)) by lia.
    rewrite oer_take_app. rewrite Hv.
    pose proof (drop_zeros_len (min_octets n)) as Hd.
    pose proof rssize_lt_pow as Hp.
    assert (Hl : zlen (min_octets n) <= 8).
    { unfold min_octets, unsigned_octets.
      pose proof (min_unsigned_len 64 n [] 8 ltac:(lia) ltac:(lia) ltac:(lia)) as Hm.
      unfold zlen in Hm at 2. cbn [length] in Hm. lia. }
    destruct (8 <? zlen (drop_zeros (min_octets n))) eqn:E3; [lia|].
    assert (Hr : n <= rsize_max) by (unfold rsize_max, rssize_max in *; lia).
    destruct (rsize_max <? n) eqn:E4; [lia|]. reflexivity.
Qed.

Definition oer_add_ok (t : ty) (v : val) : Prop :=
  wf_ty_oer t = true /\ not_opt t = true /\ wt_oer t v = true /\
  (forall c, oer t v = Some c -> zlen c <= rssize_max).

Lemma oer_open_get_rt t v c r : oer_add_ok t v -> oer t v = Some c ->
  oer_open_get t (oer_open c ++ r) = Some (v, r).
Proof.
  intros (Hwf & Hno & Hwt & Hsz) He. unfold oer_open_get, oer_open. rewrite <- app_assoc.
  rewrite oer_fetch_length_inverse by (pose proof (zlen_nonneg c); specialize (Hsz c He); lia).
  rewrite oer_take_app.
  pose proof (oer_roundtrip_in_stream t v c [] Hwf Hno Hwt He) as H. rewrite app_nil_r in H.
  rewrite H. reflexivity.
Qed.

(* oer_open_type_skip gets over an open type of any size (that the length determinant can carry) *)
Lemma oer_open_skip_rt c r : zlen c <= rssize_max -> oer_open_skip (oer_open c ++ r) = Some r.
Proof.
  intros Hsz. unfold oer_open_skip, oer_open. rewrite <- app_assoc.
  rewrite oer_fetch_length_inverse by (pose proof (zlen_nonneg c); lia).
  rewrite oer_take_app. reflexivity.
Qed.

Definition wf_ety_oer (t : ety) : bool :=
  match t with
  | ESeq tg root adds => forallb wf_ty_oer root && forallb wf_ty_oer adds && forallb not_opt adds
  | EChoice root exts => wf_ty_oer (TChoice (root ++ exts))
  end.

Definition wt_ety_oer (t : ety) (v : eval) : Prop :=
  match t, v with
  | ESeq tg root adds, EVSeq rvs avs =>
      wt_oer (TSeq tg root) (VSeq rvs) = true /\
      adds_ok (fun t v => wt_oer t v = true /\ forall c, oer t v = Some c -> zlen c <= rssize_max) adds avs
  | EChoice root exts, EVAlt i v' =>
      wt_oer (TChoice (root ++ exts)) (VChoice i v') = true /\
      forall c, enc_alt oer v' (root ++ exts) i = Some c -> zlen c <= rssize_max
  | _, _ => False
  end.

Lemma all_RT_oer (ms : list ty) : Forall OerProofs.RT ms.
Proof. apply Forall_forall. intros t _. apply oer_decodes_all. Qed.

Lemma oer_adds_ok_wf adds avs : forallb wf_ty_oer adds = true -> forallb not_opt adds = true ->
  adds_ok (fun t v => wt_oer t v = true /\ forall c, oer t v = Some c -> zlen c <= rssize_max) adds avs ->
  adds_ok oer_add_ok adds avs.
Proof.
  revert avs. induction adds as [|t ts IH]; intros avs Hwf Hno H; destruct avs as [|v vs]; cbn [adds_ok] in *; auto.
  cbn [forallb] in Hwf, Hno. apply andb_true_iff in Hwf. destruct Hwf as [Hw Hr].
  apply andb_true_iff in Hno. destruct Hno as [Hn Hnr].
  destruct v; auto. destruct H as [[Hv Hs] Hvs]. split; [repeat split; assumption|apply IH; assumption].
Qed.

(* the presence bitmap of the additions, read back *)
Lemma oer_bitmap_rt pres bm r : pres <> [] -> oer_ext_bitmap pres = Some bm ->
  exists u bmo x, oer_fetch_length (bm ++ r) = Some (zlen (u :: bmo), (u :: bmo) ++ r) /\
    ((0 <? u mod 8) && (zlen bmo =? 0)) = false /\
    take_bits (Z.to_nat (8 * zlen bmo - u mod 8)) (bytes_bits bmo) = Some (pres, x).
Proof.
  intros Hne Hb.
  destruct (oer_ext_bitmap_format pres bm Hb) as (body & -> & Hlen & Hbits).
  unfold oer_ext_bitmap in Hb. cbv zeta in Hb.
  destruct (1 + (zlen pres + 7) / 8 <=? 127) eqn:E; [|discriminate].
  pose proof (zlen_nonneg pres) as Hp. pose proof (unused_bits_range (zlen pres)) as Hu.
  assert (Hpos : 1 <= zlen pres) by (destruct pres; [congruence|rewrite zlen_cons; pose proof (zlen_nonneg pres); lia]).
  exists (unused_bits (zlen pres)), body, (repeat false (Z.to_nat (unused_bits (zlen pres)))).
  split; [|split].
  - cbn [app oer_fetch_length]. rewrite zlen_cons, Hlen.
    destruct (1 + (zlen pres + 7) / 8 <? 128) eqn:E2; [|lia].
    f_equal. f_equal. lia.
  - rewrite Hlen. rewrite Z.mod_small by lia.
    lia.
  - rewrite Hbits, Hlen. rewrite Z.mod_small by lia.
    apply take_bits_app_eq.
    pose proof (unused_bits_fill (zlen pres) Hp) as Hf.
    assert (8 * ((zlen pres + 7) / 8) - unused_bits (zlen pres) = zlen pres).
    { unfold unused_bits in *.
      pose proof (Z.div_mod (zlen pres + 7) 8 ltac:(lia)).
      pose proof (Z.mod_pos_bound (zlen pres + 7) 8 ltac:(lia)).
      pose proof (Z.div_mod (zlen pres) 8 ltac:(lia)).
      pose proof (Z.mod_pos_bound (zlen pres) 8 ltac:(lia)).
      pose proof (Z.mod_pos_bound (8 - zlen pres mod 8) 8 ltac:(lia)).
      pose proof (Z.div_mod (8 - zlen pres mod 8) 8 ltac:(lia)).
      lia. }
    rewrite H. unfold zlen. lia.
Qed.

Lemma map_is_present_nonnil avs : existsb is_present avs = true -> map is_present avs <> [].
Proof. destruct avs; cbn; [discriminate|congruence]. Qed.

Lemma ext_oer_seq_gen tg root adds dadds rvs avs davs bs rest :
  forallb wf_ty_oer root = true -> wt_oer (TSeq tg root) (VSeq rvs) = true ->
  ext_oer (ESeq tg root adds) (EVSeq rvs avs) = Some bs ->
  (forall ots, enc_additions oer oer_open adds avs = Some ots ->
     dec_additions oer_open_get oer_open_skip dadds (map is_present avs) (ots ++ rest) = Some (davs, rest)) ->
  (existsb is_present avs = false -> davs = absent_all dadds) ->
  ext_oer_dec (ESeq tg root dadds) (bs ++ rest) = Some (EVSeq rvs davs, rest).
Proof.
  intros Hwfr Hwr He Hadd Hnone.
  cbn [ext_oer] in He.
  destruct (enc_members oer root rvs) as [body|] eqn:Eb; [|discriminate].
  destruct (enc_additions oer oer_open adds avs) as [ots|] eqn:Eo; [|discriminate].
  cbv zeta in He.
  set (any := existsb is_present avs) in *.
  assert (Hroot : forall tail,
    match take (Z.of_nat ((S (length (filter is_opt root)) + 7) / 8)) ((bits_to_bytes (any :: presence_bits root rvs) ++ body ++ tail)) with
    | Some (pb, r0) =>
        match take_bits (S (length (filter is_opt root))) (bytes_bits pb) with
        | Some (e :: pres, _) => e = any /\ dec_members_pres oer_dec root pres r0 = Some (rvs, tail)
        | _ => False
        end
    | None => False
    end).
  { intros tail.
    destruct (oer_members_rt root (all_RT_oer root) rvs body tail Hwfr Hwr Eb) as [Hdm Hlen].
    destruct (oer_preamble_inverse (any :: presence_bits root rvs) (body ++ tail)) as (Ht & x & Hx).
    cbn [length] in Ht, Hx. rewrite Hlen in Ht, Hx. rewrite Ht, Hx. split; [reflexivity|exact Hdm]. }
  cbn [ext_oer_dec]. cbv zeta.
  destruct any eqn:Eany.
  - destruct (oer_ext_bitmap (map is_present avs)) as [bm|] eqn:Ebm; [|discriminate]. apply some_inj in He. subst bs.
    rewrite <- !app_assoc.
    specialize (Hroot (bm ++ ots ++ rest)).
    destruct (take _ _) as [[pb r0]|]; [|contradiction].
    destruct (take_bits _ (bytes_bits pb)) as [[[|e pres] x0]|]; try contradiction.
    destruct Hroot as [-> Hdm]. rewrite Hdm.
    destruct (oer_bitmap_rt (map is_present avs) bm (ots ++ rest) (map_is_present_nonnil avs Eany) Ebm)
      as (u & bmo & x & Hf & Hchk & Htb).
    rewrite Hf. rewrite oer_take_app. rewrite Hchk. rewrite Htb.
    rewrite (Hadd ots eq_refl). reflexivity.
  - apply some_inj in He. subst bs. rewrite <- !app_assoc.
    specialize (Hroot rest).
    destruct (take _ _) as [[pb r0]|]; [|contradiction].
    destruct (take_bits _ (bytes_bits pb)) as [[[|e pres] x0]|]; try contradiction.
    destruct Hroot as [-> Hdm]. rewrite Hdm. rewrite (Hnone eq_refl). reflexivity.
Qed.

Lemma wf_ety_oer_parts tg root adds : wf_ety_oer (ESeq tg root adds) = true ->
  forallb wf_ty_oer root = true /\ forallb wf_ty_oer adds = true /\ forallb not_opt adds = true.
Proof.
  intros Hwf. cbn [wf_ety_oer] in Hwf.
  apply andb_true_iff in Hwf. destruct Hwf as [Hwf Hno].
  apply andb_true_iff in Hwf. destruct Hwf as [Hwfr Hwfa]. auto.
Qed.

Lemma all_enc_weaken enc (P Q : list Z -> Prop) : forall ts vs,
  (forall t v c, enc t v = Some c -> P c -> Q c) -> all_enc enc P ts vs -> all_enc enc Q ts vs.
Proof.
  induction ts as [|t ts IH]; intros vs HPQ H; destruct vs as [|v vs]; cbn [all_enc] in *; auto.
  destruct v; auto. destruct H as [Hc Hr]. split; [|auto]. intros c Hcc. eapply HPQ; eauto.
Qed.

Lemma adds_ok_all_enc_size adds avs :
  adds_ok (fun t v => wt_oer t v = true /\ forall c, oer t v = Some c -> zlen c <= rssize_max) adds avs ->
  all_enc oer (fun c => zlen c <= rssize_max) adds avs.
Proof.
  revert avs. induction adds as [|t ts IH]; intros avs H; destruct avs as [|v vs]; cbn [adds_ok all_enc] in *; auto.
  destruct v; auto; try contradiction. destruct H as [[_ Hs] Hr]. split; auto.
Qed.

Theorem ext_oer_seq_fwd tg root adds rvs avs bs rest k :
  wf_ety_oer (ESeq tg root adds) = true -> wt_ety_oer (ESeq tg root adds) (EVSeq rvs avs) ->
  ext_oer (ESeq tg root adds) (EVSeq rvs avs) = Some bs ->
  ext_oer_dec (ESeq tg root (firstn k adds)) (bs ++ rest) = Some (EVSeq rvs (firstn k avs), rest).
Proof.
  intros Hwf [Hwr Hwa] He. destruct (wf_ety_oer_parts _ _ _ Hwf) as (Hwfr & Hwfa & Hno).
  pose proof (oer_adds_ok_wf adds avs Hwfa Hno Hwa) as Hok.
  apply (ext_oer_seq_gen tg root adds (firstn k adds) rvs avs (firstn k avs) bs rest Hwfr Hwr He).
  - intros ots Eo.
    apply (additions_fwd oer oer_open oer_open_get oer_open_skip oer_add_ok (fun c => zlen c <= rssize_max)).
    + intros t v c r Hv Hc. apply oer_open_get_rt; assumption.
    + intros c r Hc. apply oer_open_skip_rt; assumption.
    + exact Hok.
    + exact Eo.
    + apply all_enc_skipn. apply adds_ok_all_enc_size. exact Hwa.
  - intros Eany. cbn [ext_oer] in He.
    destruct (enc_members oer root rvs); [|discriminate].
    destruct (enc_additions oer oer_open adds avs) as [ots|] eqn:Eo; [|discriminate].
    destruct (enc_additions_none _ _ _ _ _ Eo Eany) as [-> _]. apply firstn_absent_all.
Qed.

(* older sender, newer reader (the bitmap is shorter than the reader's list of additions) *)
Theorem ext_oer_seq_bwd tg root known more rvs avs bs rest :
  wf_ety_oer (ESeq tg root known) = true -> wt_ety_oer (ESeq tg root known) (EVSeq rvs avs) ->
  ext_oer (ESeq tg root known) (EVSeq rvs avs) = Some bs ->
  ext_oer_dec (ESeq tg root (known ++ more)) (bs ++ rest) = Some (EVSeq rvs (avs ++ absent_all more), rest).
Proof.
  intros Hwf [Hwr Hwa] He. destruct (wf_ety_oer_parts _ _ _ Hwf) as (Hwfr & Hwfa & Hno).
  pose proof (oer_adds_ok_wf known avs Hwfa Hno Hwa) as Hok.
  apply (ext_oer_seq_gen tg root known (known ++ more) rvs avs (avs ++ absent_all more) bs rest Hwfr Hwr He).
  - intros ots Eo.
    apply (additions_bwd oer oer_open oer_open_get oer_open_skip oer_add_ok).
    + intros t v c r Hv Hc. apply oer_open_get_rt; assumption.
    + exact Hok.
    + exact Eo.
  - intros Eany. cbn [ext_oer] in He.
    destruct (enc_members oer root rvs); [|discriminate].
    destruct (enc_additions oer oer_open known avs) as [ots|] eqn:Eo; [|discriminate].
    destruct (enc_additions_none _ _ _ _ _ Eo Eany) as [-> _]. unfold absent_all. rewrite map_app. reflexivity.
Qed.

(* C01 for an extensible SEQUENCE in OER, in a stream *)
Theorem ext_oer_seq_rt tg root adds rvs avs bs rest :
  wf_ety_oer (ESeq tg root adds) = true -> wt_ety_oer (ESeq tg root adds) (EVSeq rvs avs) ->
  ext_oer (ESeq tg root adds) (EVSeq rvs avs) = Some bs ->
  ext_oer_dec (ESeq tg root adds) (bs ++ rest) = Some (EVSeq rvs avs, rest).
Proof.
  intros Hwf Hwt He.
  assert (Hlen : length avs = length adds).
  { cbn [ext_oer] in He. destruct (enc_members oer root rvs); [|discriminate].
    destruct (enc_additions oer oer_open adds avs) eqn:E; [|discriminate].
    eapply enc_additions_length; eauto. }
  pose proof (ext_oer_seq_fwd tg root adds rvs avs bs rest (length adds) Hwf Hwt He) as H.
  rewrite firstn_length_all in H. rewrite (firstn_all2 avs) in H by lia.
  exact H.
Qed.

(* ---------------- extensible CHOICE in OER ---------------- *)

Lemma alts_distinct_nth : forall l j' j a' a, alts_distinct l = true -> (j' < j)%nat ->
  nth_error l j' = Some a' -> nth_error l j = Some a -> disjointb (first_tags a') (first_tags a) = true.
Proof.
  induction l as [|x r IH]; intros j' j a' a Hd Hlt Hn' Hn; [destruct j'; discriminate|].
  cbn [alts_distinct] in Hd. apply andb_true_iff in Hd. destruct Hd as [Hx Hr].
  destruct j as [|j]; [lia|]. cbn [nth_error] in Hn.
  destruct j' as [|j']; cbn [nth_error] in Hn'.
  - injection Hn' as ->. rewrite forallb_forall in Hx. apply Hx. eapply nth_error_In; eauto.
  - apply (IH j' j a' a Hr); [lia|assumption|assumption].
Qed.

Lemma outmost_tag_pick : forall alts i v a, nth_error alts i = Some a ->
  outmost_tag (TChoice alts) (VChoice i v) = outmost_tag a v.
Proof.
  induction alts as [|x r IH]; intros i v a Hn; destruct i; cbn [nth_error] in Hn; try discriminate.
  - injection Hn as ->. reflexivity.
  - exact (IH i v a Hn).
Qed.

Lemma wt_oer_pick : forall alts i v a, nth_error alts i = Some a ->
  wt_oer (TChoice alts) (VChoice i v) = true -> wt_oer a v = true.
Proof.
  induction alts as [|a0 r IH]; intros i v a Hn Hw; destruct i; cbn [nth_error] in Hn; try discriminate.
  - injection Hn as ->. exact Hw.
  - exact (IH i v a Hn Hw).
Qed.

Lemma tag_not_in_earlier all j' j a' a tg : alts_distinct all = true -> (j' < j)%nat ->
  nth_error all j' = Some a' -> nth_error all j = Some a -> In tg (first_tags a) ->
  tag_in tg (first_tags a') = false.
Proof.
  intros Hd Hlt Hn' Hn Hin. destruct (tag_in tg (first_tags a')) eqn:E; [|reflexivity].
  exfalso. apply tag_in_In in E.
  eapply disjointb_spec; [eapply alts_distinct_nth; eauto|exact E|exact Hin].
Qed.

Theorem ext_oer_choice_rt root exts i v' bs rest :
  wf_ety_oer (EChoice root exts) = true -> wt_ety_oer (EChoice root exts) (EVAlt i v') ->
  ext_oer (EChoice root exts) (EVAlt i v') = Some bs ->
  ext_oer_dec (EChoice root exts) (bs ++ rest) = Some (EVAlt i v', rest).
Proof.
  intros Hwf [Hwt Hsz] He. cbn [wf_ety_oer wf_ty_oer] in Hwf.
  apply andb_true_iff in Hwf. destruct Hwf as [Hwf Hdis].
  apply andb_true_iff in Hwf. destruct Hwf as [Hwa Hno].
  cbn [ext_oer] in He. cbv zeta in He.
  destruct (enc_alt oer v' (root ++ exts) i) as [body|] eqn:Eb; [|discriminate].
  apply some_inj in He. subst bs.
  destruct (enc_alt_nth _ _ _ _ _ Eb) as (a & Hn & Ea).
  pose proof (forallb_nth _ _ _ _ Hwa Hn) as Hwfa. pose proof (forallb_nth _ _ _ _ Hno Hn) as Hnoa.
  pose proof (wt_oer_pick _ _ _ _ Hn Hwt) as Hwta.
  rewrite (outmost_tag_pick _ _ _ _ Hn).
  pose proof (oer_outmost_in_first a v' body Hwfa Hnoa Ea) as Hin.
  assert (Htok : oer_tag_ok (outmost_tag a v')).
  { pose proof (oer_first_tags_ok a Hwfa) as HF. rewrite Forall_forall in HF. apply HF. exact Hin. }
  cbn [ext_oer_dec]. rewrite <- app_assoc. rewrite oer_tag_inverse by exact Htok. cbv zeta.
  set (tg := outmost_tag a v') in *.
  destruct (i <? length root)%nat eqn:Ei.
  - (* root alternative *)
    apply Nat.ltb_lt in Ei.
    assert (Hnr : nth_error root i = Some a) by (rewrite nth_error_app1 in Hn by exact Ei; exact Hn).
    assert (Hex : existsb (fun a0 => tag_in tg (first_tags a0)) root = true).
    { apply existsb_exists. exists a. split; [eapply nth_error_In; eauto|apply tag_in_In; exact Hin]. }
    rewrite Hex.
    rewrite (dec_alt_pick oer_dec _ _ root O i a v' rest Hnr).
    + reflexivity.
    + apply oer_roundtrip_in_stream; assumption.
    + apply tag_in_In. exact Hin.
    + intros j' a' Hj' Hn'. cbn [Nat.add].
      apply (tag_not_in_earlier (root ++ exts) j' i a' a tg Hdis Hj'); [|exact Hn|exact Hin].
      rewrite nth_error_app1 by lia. exact Hn'.
  - (* extension alternative: the tag belongs to no root alternative *)
    apply Nat.ltb_ge in Ei. set (j := (i - length root)%nat).
    assert (Hnx : nth_error exts j = Some a) by (rewrite nth_error_app2 in Hn by exact Ei; exact Hn).
    assert (Hex : existsb (fun a0 => tag_in tg (first_tags a0)) root = false).
    { apply not_true_is_false. intros Hex. apply existsb_exists in Hex. destruct Hex as (a' & Hina & Ht).
      apply In_nth_error in Hina. destruct Hina as (j' & Hn').
      pose proof (nth_error_lt _ _ _ Hn') as Hj'.
      rewrite (tag_not_in_earlier (root ++ exts) j' i a' a tg Hdis) in Ht; [discriminate|lia| |exact Hn|exact Hin].
      rewrite nth_error_app1 by lia. exact Hn'. }
    rewrite Hex.
    rewrite (dec_alt_pick oer_open_get _ _ exts (length root) j a v' rest Hnx).
    + replace (length root + j)%nat with i by (subst j; lia). reflexivity.
    + apply oer_open_get_rt; [|exact Ea].
      repeat split; try assumption. intros c Hc. apply Hsz. congruence.
    + apply tag_in_In. exact Hin.
    + intros j' a' Hj' Hn'.
      apply (tag_not_in_earlier (root ++ exts) (length root + j') i a' a tg Hdis); [subst j; lia| |exact Hn|exact Hin].
      rewrite nth_error_app2 by lia. replace (length root + j' - length root)%nat with j' by lia. exact Hn'.
Qed.

(* C01, OER, the extensible types of the layer, in a stream *)
Theorem ext_oer_roundtrip_in_stream t v bs rest :
  wf_ety_oer t = true -> wt_ety_oer t v -> ext_oer t v = Some bs ->
  ext_oer_dec t (bs ++ rest) = Some (v, rest).
Proof.
  destruct t as [tg root adds|root exts]; destruct v as [rvs avs|i v']; intros Hwf Hwt He;
    try (cbn [wt_ety_oer] in Hwt; contradiction).
  - apply ext_oer_seq_rt; assumption.
  - apply ext_oer_choice_rt; assumption.
Qed.

Corollary ext_oer_decode_roundtrip t v bs :
  wf_ety_oer t = true -> wt_ety_oer t v -> ext_oer t v = Some bs ->
  ext_oer_decode t bs = Some (v, zlen bs).
Proof.
  intros Hwf Hwt He. unfold ext_oer_decode.
  pose proof (ext_oer_roundtrip_in_stream t v bs [] Hwf Hwt He) as H. rewrite app_nil_r in H.
  rewrite H. f_equal. f_equal. unfold zlen. cbn [length]. lia.
Qed.

(* forward compatibility in OER: every addition the reader does not know is skipped, whatever its size *)
Theorem ext_oer_forward_compat tg root adds rvs avs bs rest k :
  wf_ety_oer (ESeq tg root adds) = true -> wt_ety_oer (ESeq tg root adds) (EVSeq rvs avs) ->
  ext_oer (ESeq tg root adds) (EVSeq rvs avs) = Some bs ->
  ext_oer_dec (truncate_ty k (ESeq tg root adds)) (bs ++ rest) = Some (truncate_val k (EVSeq rvs avs), rest).
Proof. exact (ext_oer_seq_fwd tg root adds rvs avs bs rest k). Qed.

(* ================= DER / BER ================= *)

Lemma enc_members_app {B} (enc : ty -> val -> option (list B)) : forall a b va vb ca cb,
  enc_members enc a va = Some ca -> enc_members enc b vb = Some cb ->
  enc_members enc (a ++ b) (va ++ vb) = Some (ca ++ cb).
Proof.
  induction a as [|m a IH]; intros b va vb ca cb Ha Hb; destruct va as [|v va]; cbn [enc_members] in Ha; try discriminate.
  - injection Ha as <-. exact Hb.
  - destruct (enc m v) as [x|] eqn:Ex; [|discriminate].
    destruct (enc_members enc a va) as [y|] eqn:Ey; [|discriminate]. injection Ha as <-.
    cbn [app enc_members]. rewrite Ex. rewrite (IH b va vb y cb Ey Hb). rewrite app_assoc. reflexivity.
Qed.

Lemma enc_members_split {B} (enc : ty -> val -> option (list B)) : forall a b va vb c,
  length va = length a -> enc_members enc (a ++ b) (va ++ vb) = Some c ->
  exists ca cb, enc_members enc a va = Some ca /\ enc_members enc b vb = Some cb /\ c = ca ++ cb.
Proof.
  induction a as [|m a IH]; intros b va vb c Hl H; destruct va as [|v va]; cbn [length] in Hl; try discriminate.
  - exists [], c. cbn [app] in H. auto.
  - cbn [app enc_members] in H.
    destruct (enc m v) as [x|] eqn:Ex; [|discriminate].
    destruct (enc_members enc (a ++ b) (va ++ vb)) as [y|] eqn:Ey; [|discriminate]. injection H as <-.
    destruct (IH b va vb y ltac:(lia) Ey) as (ca & cb & H1 & H2 & ->).
    exists (x ++ ca), cb. cbn [enc_members]. rewrite Ex, H1. rewrite app_assoc. auto.
Qed.

Lemma dec_members_app {St} (dec : ty -> St -> option (val * St)) : forall a b s,
  dec_members dec (a ++ b) s =
  match dec_members dec a s with
  | Some (va, r) => match dec_members dec b r with Some (vb, r') => Some (va ++ vb, r') | None => None end
  | None => None
  end.
Proof.
  induction a as [|m a IH]; intros b s; cbn [app dec_members].
  - destruct (dec_members dec b s) as [[vb r']|]; reflexivity.
  - destruct (dec m s) as [[v r]|]; [|reflexivity]. rewrite IH.
    destruct (dec_members dec a r) as [[va r1]|]; [|reflexivity].
    destruct (dec_members dec b r1) as [[vb r2]|]; reflexivity.
Qed.

Lemma wt_members_app : forall a b va vb, length va = length a ->
  wt (TSeq 0 (a ++ b)) (VSeq (va ++ vb)) = true -> wt (TSeq 0 a) (VSeq va) = true /\ wt (TSeq 0 b) (VSeq vb) = true.
Proof.
  induction a as [|m a IH]; intros b va vb Hl H; destruct va as [|v va]; cbn [length] in Hl; try discriminate.
  - split; [reflexivity|exact H].
  - cbn [app wt] in H. apply andb_true_iff in H. destruct H as [H1 H2].
    destruct (IH b va vb ltac:(lia) H2) as [Ha Hb]. split; [|exact Hb].
    cbn [wt]. rewrite H1. exact Ha.
Qed.

Lemma run_distinct_app_r a b : run_distinct (a ++ b) = true -> run_distinct b = true.
Proof.
  induction a as [|m a IH]; intros H; [exact H|].
  cbn [app run_distinct] in H. apply andb_true_iff in H. destruct H as [_ H]. auto.
Qed.

Lemma forallb_app_r {A} (p : A -> bool) a b : forallb p (a ++ b) = true -> forallb p b = true.
Proof. rewrite forallb_app. intros H. apply andb_true_iff in H. tauto. Qed.

Lemma all_RT_der (ms : list ty) : Forall DerProofs.RT ms.
Proof. apply Forall_forall. intros t _. apply der_decodes_all. Qed.

(* the first members of a member list, decoded from a stream that continues with the encodings of the others *)
Lemma members_prefix_rt : forall ms1 ms2 vs1 vs2 c1 c2,
  forallb wf_ty (ms1 ++ ms2) = true -> run_distinct (ms1 ++ ms2) = true ->
  wt (TSeq 0 ms1) (VSeq vs1) = true ->
  enc_members der ms1 vs1 = Some c1 -> enc_members der ms2 vs2 = Some c2 ->
  zlen (c1 ++ c2) <= rssize_max ->
  dec_members ber_dec ms1 (c1 ++ c2) = Some (vs1, c2).
Proof.
  induction ms1 as [|m ms1 IH]; intros ms2 vs1 vs2 c1 c2 Hwf Hrd Hwt He1 He2 Hl;
    destruct vs1 as [|v vs1]; cbn [enc_members] in He1; try discriminate.
  - injection He1 as <-. reflexivity.
  - cbn [app forallb] in Hwf. apply andb_true_iff in Hwf. destruct Hwf as [Hw Hwr].
    cbn [app run_distinct] in Hrd. apply andb_true_iff in Hrd. destruct Hrd as [Hd1 Hdr].
    cbn [wt] in Hwt. apply andb_true_iff in Hwt. destruct Hwt as [Hwt1 Hwtr].
    destruct (der m v) as [a|] eqn:Ea; [|discriminate].
    destruct (enc_members der ms1 vs1) as [b|] eqn:Eb; [|discriminate]. injection He1 as <-.
    rewrite !zlen_app in Hl. pose proof (zlen_nonneg a). pose proof (zlen_nonneg b). pose proof (zlen_nonneg c2).
    cbn [dec_members]. rewrite <- app_assoc.
    rewrite (der_decodes_all m v a (b ++ c2) Hw Hwt1 Ea ltac:(lia)).
    + rewrite (IH ms2 vs1 vs2 b c2 Hwr Hdr Hwtr Eb He2 ltac:(rewrite zlen_app; lia)). reflexivity.
    + unfold opt_ok. destruct m; auto. destruct v; auto.
      pose proof (members_head (ms1 ++ ms2) (vs1 ++ vs2) (b ++ c2) [] Hwr (enc_members_app der _ _ _ _ _ _ Eb He2)) as Hh.
      rewrite app_nil_r in Hh.
      destruct (peek_tag (b ++ c2)) as [tg|] eqn:Ep; [|exact I].
      destruct Hh as [Hnil|Hin]; [rewrite Hnil in Ep; rewrite peek_tag_nil in Ep; discriminate|].
      cbn [is_opt first_tags] in Hd1.
      destruct (tag_in tg (first_tags m)) eqn:Et; [|reflexivity].
      apply tag_in_In in Et. exfalso. eapply disjointb_spec; eauto.
Qed.

Lemma tlv_nonempty tg c content : tag_good tg -> (1 <= length (tlv tg c content))%nat.
Proof.
  intros Hg. pose proof (tlv_not_at_end tg c content [] Hg) as H. rewrite app_nil_r in H.
  destruct (tlv tg c content); [discriminate|cbn [length]; lia].
Qed.

Lemma skip_tlv_tlv tg c content rest : tag_good tg -> zlen content <= rssize_max ->
  skip_tlv (tlv tg c content ++ rest) = Some (tt, rest).
Proof.
  intros Hg Hl. unfold skip_tlv. rewrite tlv_open_tlv by assumption.
  pose proof (zlen_nonneg content). pose proof (zlen_nonneg rest). rewrite zlen_app.
  destruct ((0 <=? zlen content) && (zlen content <=? zlen content + zlen rest)) eqn:E; [|lia].
  replace (Z.to_nat (zlen content)) with (length content) by (unfold zlen; lia).
  rewrite skipn_app_length. reflexivity.
Qed.

(* the encodings of additions a reader does not know are definite-length TLVs: skipped one by one *)
Lemma skip_unknown : forall ts vs c, forallb wf_ty ts = true -> forallb not_opt ts = true ->
  enc_members der (map TOpt ts) vs = Some c -> zlen c <= rssize_max ->
  forall fuel, (length c < fuel)%nat -> exists us, dec_until skip_tlv at_end fuel c = Some (us, []).
Proof.
  induction ts as [|t ts IH]; intros vs c Hwf Hno He Hl fuel Hf; destruct vs as [|v vs]; cbn [map enc_members] in He; try discriminate.
  - injection He as <-. destruct fuel; [lia|]. exists []. reflexivity.
  - cbn [forallb] in Hwf, Hno. apply andb_true_iff in Hwf. destruct Hwf as [Hw Hwr].
    apply andb_true_iff in Hno. destruct Hno as [Hn Hnr].
    destruct (der (TOpt t) v) as [a|] eqn:Ea; [|discriminate].
    destruct (enc_members der (map TOpt ts) vs) as [b|] eqn:Eb; [|discriminate]. injection He as <-.
    rewrite zlen_app in Hl. pose proof (zlen_nonneg a). pose proof (zlen_nonneg b).
    cbn [der] in Ea. destruct v; try discriminate.
    + injection Ea as <-. cbn [app]. apply (IH vs b Hwr Hnr Eb ltac:(lia)). exact Hf.
    + destruct (der_head t v a Hw Hn Ea) as (tg & cc & content & -> & Hg & _).
      pose proof (tlv_nonempty tg cc content Hg) as Hne. rewrite app_length in Hf.
      destruct fuel as [|f]; [lia|]. cbn [dec_until].
      rewrite tlv_not_at_end by exact Hg.
      pose proof (tlv_length tg cc content) as Htl.
      rewrite skip_tlv_tlv by (try exact Hg; lia).
      destruct (IH vs b Hwr Hnr Eb ltac:(lia) f ltac:(lia)) as (us & Hus). rewrite Hus. eauto.
Qed.

Lemma dec_members_absent more : dec_members ber_dec (map TOpt more) [] = Some (absent_all more, []).
Proof.
  induction more as [|t ts IH]; [reflexivity|]. cbn [map dec_members ber_dec]. rewrite peek_tag_nil. rewrite IH. reflexivity.
Qed.

Definition wf_ety_der (t : ety) : bool :=
  match t with
  | ESeq tg root adds => wf_ty (ext_seq_ty tg root adds)
  | EChoice root exts => wf_ty (TChoice (root ++ exts))
  end.

Definition wt_ety_der (t : ety) (v : eval) : bool :=
  match t, v with
  | ESeq tg root adds, EVSeq rvs avs => wt (ext_seq_ty tg root adds) (VSeq (rvs ++ avs))
  | EChoice root exts, EVAlt i v' => wt (TChoice (root ++ exts)) (VChoice i v')
  | _, _ => false
  end.

Lemma firstn_app_len {A} (a b : list A) n : n = length a -> firstn n (a ++ b) = a.
Proof. intros ->. apply firstn_app_length. Qed.
Lemma skipn_app_len {A} (a b : list A) n : n = length a -> skipn n (a ++ b) = b.
Proof. intros ->. apply skipn_app_length. Qed.

Lemma wf_opt_list ts : forallb wf_ty (map TOpt ts) = true -> forallb wf_ty ts = true /\ forallb not_opt ts = true.
Proof.
  induction ts as [|t ts IH]; intros H; [split; reflexivity|].
  cbn [map forallb wf_ty] in H. apply andb_true_iff in H. destruct H as [H1 H2].
  apply andb_true_iff in H1. destruct H1 as [Hw Hn]. destruct (IH H2) as [Ha Hb].
  cbn [forallb]. rewrite Hw, Hn, Ha, Hb. split; reflexivity.
Qed.

(* the common part: the sender's type has additions [adds]; the reader's additions [dadds] decode the sender's
   additions part c2 to [davs], leaving r', which is skipped *)
Lemma ext_ber_seq_gen tg root adds dadds rvs avs davs bs rest :
  wf_ety_der (ESeq tg root adds) = true -> wt_ety_der (ESeq tg root adds) (EVSeq rvs avs) = true ->
  ext_der (ESeq tg root adds) (EVSeq rvs avs) = Some bs -> zlen bs <= rssize_max ->
  (forall c2, enc_members der (map TOpt adds) avs = Some c2 -> zlen c2 <= rssize_max ->
     exists r' us, dec_members ber_dec (map TOpt dadds) c2 = Some (davs, r') /\
                   dec_until skip_tlv at_end (S (length r')) r' = Some (us, [])) ->
  ext_ber_dec (ESeq tg root dadds) (bs ++ rest) = Some (EVSeq rvs davs, rest).
Proof.
  intros Hwf Hwt He Hl Hadd. cbn [ext_der] in He.
  destruct (length rvs =? length root)%nat eqn:Elen; [|discriminate]. apply Nat.eqb_eq in Elen.
  unfold ext_seq_ty in *. cbn [wf_ety_der wf_ty] in Hwf. cbn [wt_ety_der] in Hwt.
  apply andb_true_iff in Hwf. destruct Hwf as [Hwf Hrd].
  apply andb_true_iff in Hwf. destruct Hwf as [Htg Hwm].
  cbn [der] in He.
  destruct (enc_members der (root ++ map TOpt adds) (rvs ++ avs)) as [c|] eqn:Ec; [|discriminate].
  injection He as <-.
  destruct (enc_members_split der root (map TOpt adds) rvs avs c Elen Ec) as (c1 & c2 & E1 & E2 & ->).
  pose proof (tlv_length tg true (c1 ++ c2)) as Htl.
  assert (Hwt' : wt (TSeq 0 (root ++ map TOpt adds)) (VSeq (rvs ++ avs)) = true) by exact Hwt.
  destruct (wt_members_app root (map TOpt adds) rvs avs Elen Hwt') as [Hwtr Hwta].
  cbn [ext_ber_dec]. rewrite in_cons_tlv by (try apply wf_tag_good; auto; lia).
  rewrite dec_members_app.
  rewrite (members_prefix_rt root (map TOpt adds) rvs avs c1 c2 Hwm Hrd Hwtr E1 E2 ltac:(lia)).
  rewrite zlen_app in Htl. pose proof (zlen_nonneg c1).
  destruct (Hadd c2 E2 ltac:(lia)) as (r' & us & Hd & Hs). rewrite Hd, Hs.
  rewrite firstn_app_len by (symmetry; exact Elen). rewrite skipn_app_len by (symmetry; exact Elen). reflexivity.
Qed.

(* forward compatibility in BER: a reader that knows the first k additions *)
Theorem ext_ber_seq_fwd tg root adds rvs avs bs rest k :
  wf_ety_der (ESeq tg root adds) = true -> wt_ety_der (ESeq tg root adds) (EVSeq rvs avs) = true ->
  ext_der (ESeq tg root adds) (EVSeq rvs avs) = Some bs -> zlen bs <= rssize_max ->
  ext_ber_dec (ESeq tg root (firstn k adds)) (bs ++ rest) = Some (EVSeq rvs (firstn k avs), rest).
Proof.
  intros Hwf Hwt He Hl.
  apply (ext_ber_seq_gen tg root adds (firstn k adds) rvs avs (firstn k avs) bs rest Hwf Hwt He Hl).
  intros c2 E2 Hl2.
  assert (Hlen : length rvs = length root).
  { cbn [ext_der] in He. destruct (length rvs =? length root)%nat eqn:E; [apply Nat.eqb_eq; exact E|discriminate]. }
  unfold ext_seq_ty in *. cbn [wf_ety_der wf_ty] in Hwf. cbn [wt_ety_der] in Hwt.
  apply andb_true_iff in Hwf. destruct Hwf as [Hwf Hrd].
  apply andb_true_iff in Hwf. destruct Hwf as [_ Hwm].
  pose proof (forallb_app_r _ _ _ Hwm) as Hwa. pose proof (run_distinct_app_r _ _ Hrd) as Hrda.
  assert (Hwt' : wt (TSeq 0 (root ++ map TOpt adds)) (VSeq (rvs ++ avs)) = true) by exact Hwt.
  destruct (wt_members_app root (map TOpt adds) rvs avs Hlen Hwt') as [_ Hwta].
  (* split the additions at k *)
  assert (Hla : length avs = length adds).
  { clear - E2. revert avs c2 E2. induction adds as [|t ts IH]; intros avs c2 E2; destruct avs as [|v vs]; cbn [map enc_members] in E2; try discriminate; [reflexivity|].
    destruct (der (TOpt t) v); [|discriminate]. destruct (enc_members der (map TOpt ts) vs) eqn:E; [|discriminate].
    cbn [length]. f_equal. eapply IH; eauto. }
  rewrite <- (firstn_skipn k adds) in E2, Hwa, Hrda, Hwta. rewrite <- (firstn_skipn k avs) in E2, Hwta.
  rewrite map_app in E2, Hwa, Hrda, Hwta.
  assert (Hlk : length (firstn k avs) = length (map TOpt (firstn k adds))).
  { rewrite map_length, !firstn_length. lia. }
  destruct (enc_members_split der _ _ _ _ c2 Hlk E2) as (ca & cb & Ea & Eb & ->).
  destruct (wt_members_app _ _ _ _ Hlk Hwta) as [Hwt1 _].
  rewrite (members_prefix_rt _ _ _ _ ca cb Hwa Hrda Hwt1 Ea Eb Hl2).
  destruct (wf_opt_list _ (forallb_app_r _ _ _ Hwa)) as [Hw2 Hn2].
  rewrite zlen_app in Hl2. pose proof (zlen_nonneg ca).
  destruct (skip_unknown (skipn k adds) (skipn k avs) cb Hw2 Hn2 Eb ltac:(lia) (S (length cb)) ltac:(lia)) as (us & Hus).
  exists cb, us. split; [reflexivity|exact Hus].
Qed.

(* C01 for an extensible SEQUENCE in DER/BER, in a stream *)
Theorem ext_ber_seq_rt tg root adds rvs avs bs rest :
  wf_ety_der (ESeq tg root adds) = true -> wt_ety_der (ESeq tg root adds) (EVSeq rvs avs) = true ->
  ext_der (ESeq tg root adds) (EVSeq rvs avs) = Some bs -> zlen bs <= rssize_max ->
  ext_ber_dec (ESeq tg root adds) (bs ++ rest) = Some (EVSeq rvs avs, rest).
Proof.
  intros Hwf Hwt He Hl.
  pose proof (ext_ber_seq_fwd tg root adds rvs avs bs rest (length adds + length avs) Hwf Hwt He Hl) as H.
  rewrite firstn_all2 in H by lia. rewrite firstn_all2 in H by lia. exact H.
Qed.

(* an older sender (additions [known]) read by a type that knows [more] beyond them *)
Theorem ext_ber_seq_bwd tg root known more rvs avs bs rest :
  wf_ety_der (ESeq tg root known) = true -> wt_ety_der (ESeq tg root known) (EVSeq rvs avs) = true ->
  ext_der (ESeq tg root known) (EVSeq rvs avs) = Some bs -> zlen bs <= rssize_max ->
  ext_ber_dec (ESeq tg root (known ++ more)) (bs ++ rest) = Some (EVSeq rvs (avs ++ absent_all more), rest).
Proof.
  intros Hwf Hwt He Hl.
  apply (ext_ber_seq_gen tg root known (known ++ more) rvs avs (avs ++ absent_all more) bs rest Hwf Hwt He Hl).
  intros c2 E2 Hl2.
  assert (Hlen : length rvs = length root).
  { cbn [ext_der] in He. destruct (length rvs =? length root)%nat eqn:E; [apply Nat.eqb_eq; exact E|discriminate]. }
  unfold ext_seq_ty in *. cbn [wf_ety_der wf_ty] in Hwf. cbn [wt_ety_der] in Hwt.
  apply andb_true_iff in Hwf. destruct Hwf as [Hwf Hrd].
  apply andb_true_iff in Hwf. destruct Hwf as [_ Hwm].
  pose proof (forallb_app_r _ _ _ Hwm) as Hwa. pose proof (run_distinct_app_r _ _ Hrd) as Hrda.
  assert (Hwt' : wt (TSeq 0 (root ++ map TOpt known)) (VSeq (rvs ++ avs)) = true) by exact Hwt.
  destruct (wt_members_app root (map TOpt known) rvs avs Hlen Hwt') as [_ Hwta].
  rewrite map_app, dec_members_app.
  pose proof (members_prefix_rt (map TOpt known) [] avs [] c2 [] ltac:(rewrite app_nil_r; exact Hwa)
                ltac:(rewrite app_nil_r; exact Hrda) Hwta E2 eq_refl ltac:(rewrite app_nil_r; exact Hl2)) as H.
  rewrite app_nil_r in H. rewrite H. rewrite dec_members_absent.
  exists [], []. split; reflexivity.
Qed.

Theorem ext_ber_choice_rt root exts i v' bs rest :
  wf_ety_der (EChoice root exts) = true -> wt_ety_der (EChoice root exts) (EVAlt i v') = true ->
  ext_der (EChoice root exts) (EVAlt i v') = Some bs -> zlen bs <= rssize_max ->
  ext_ber_dec (EChoice root exts) (bs ++ rest) = Some (EVAlt i v', rest).
Proof.
  intros Hwf Hwt He Hl. cbn [ext_ber_dec].
  rewrite (der_decodes_all (TChoice (root ++ exts)) (VChoice i v') bs rest Hwf Hwt He Hl I). reflexivity.
Qed.

(* C01, DER/BER, the extensible types of the layer *)
Theorem ext_ber_roundtrip_in_stream t v bs rest :
  wf_ety_der t = true -> wt_ety_der t v = true -> ext_der t v = Some bs -> zlen bs <= rssize_max ->
  ext_ber_dec t (bs ++ rest) = Some (v, rest).
Proof.
  destruct t as [tg root adds|root exts]; destruct v as [rvs avs|i v']; intros Hwf Hwt He Hl;
    try (cbn [wt_ety_der] in Hwt; discriminate).
  - apply ext_ber_seq_rt; assumption.
  - apply ext_ber_choice_rt; assumption.
Qed.

Corollary ext_ber_decode_roundtrip t v bs :
  wf_ety_der t = true -> wt_ety_der t v = true -> ext_der t v = Some bs -> zlen bs <= rssize_max ->
  ext_ber_decode t bs = Some (v, zlen bs).
Proof.
  intros Hwf Hwt He Hl. unfold ext_ber_decode.
  pose proof (ext_ber_roundtrip_in_stream t v bs [] Hwf Hwt He Hl) as H. rewrite app_nil_r in H.
  rewrite H. f_equal. f_equal. unfold zlen. cbn [length]. lia.
Qed.

(* ================= the former witnesses, now examples (non-vacuity) ================= *)

(* 65 BOOLEAN additions, the first one present: uper_put_nslength used to leave out the leading 1 bit
   (the C's own reader failed); now the value comes back and the bits are those of X.691 11.9.3.4 *)
Definition wit_adds65 : list ty := map (fun k => TBool (Z.of_nat k * 4 + 6)) (seq 0 65).
Definition wit_seq65 : ety := ESeq 64 [TBool 2] wit_adds65.
Definition wit_val65 : eval := EVSeq [VBool true] (VSome (VBool true) :: repeat VNone 64).

Example ext_uper_seq65_example :
  wf_ety_uper wit_seq65 = true /\ wt_ety_uper false wit_seq65 wit_val65 /\
  exists bits, ext_uper false wit_seq65 wit_val65 = Some bits /\
    ext_uper_dec false wit_seq65 bits = Some (wit_val65, []) /\
    firstn 12 bits = [true; true; true; false; true; false; false; false; false; false; true; true].
Proof.
  split; [vm_compute; reflexivity|]. split; [vm_compute; intuition|].
  eexists. split; [vm_compute; reflexivity|]. split; vm_compute; reflexivity.
Qed.

(* extension alternative with index 64: uper_put_nsnnwn used to leave out the leading 1 bit *)
Definition wit_choice66 : ety := EChoice [TBool 2] (map (fun k => TBool (Z.of_nat k * 4 + 6)) (seq 0 66)).
Definition wit_alt64 : eval := EVAlt 65 (VBool true).

Example ext_uper_choice66_example :
  wf_ety_uper wit_choice66 = true /\ wt_ety_uper false wit_choice66 wit_alt64 /\
  exists bits, ext_uper false wit_choice66 wit_alt64 = Some bits /\
    ext_uper_dec false wit_choice66 bits = Some (wit_alt64, []) /\
    firstn 18 bits = [true; true; false; false; false; false; false; false; false; true;
                      false; true; false; false; false; false; false; false].
Proof.
  split; [vm_compute; reflexivity|]. split; [vm_compute; reflexivity|].
  eexists. split; [vm_compute; reflexivity|]. split; vm_compute; reflexivity.
Qed.

(* forward compatibility: an unknown BOOLEAN addition (one octet: 80 in unaligned PER, ff in OER) used to stop
   uper_open_type_skip (not 3n octets) and to be left in the stream by oer_open_type_skip; now the reader
   that knows one addition gets the known part back and consumes everything *)
Definition wit_seq2 : ety := ESeq 64 [TBool 2] [TBool 6; TBool 10].
Definition wit_val2 : eval := EVSeq [VBool true] [VSome (VBool false); VSome (VBool true)].

Example ext_forward_compat_example :
  (exists bits, ext_uper false wit_seq2 wit_val2 = Some bits /\
     ext_uper_dec false (truncate_ty 1 wit_seq2) bits = Some (truncate_val 1 wit_val2, [])) /\
  (exists bs, ext_oer wit_seq2 wit_val2 = Some bs /\
     ext_oer_dec (truncate_ty 1 wit_seq2) bs = Some (truncate_val 1 wit_val2, [])).
Proof.
  split; eexists; (split; [vm_compute; reflexivity|]); vm_compute; reflexivity.
Qed.

(* nine OPTIONAL root members: the OER preamble (extension bit + 9 presence bits) takes two octets and the
   extension bit is the first bit of the first one.  SEQUENCE_decode_oer used to test the octet its bit reader had
   moved on to (the one holding the 8th presence bit) and so took { z TRUE, e TRUE } for a value without additions:
   consumed 3 of 8 octets *)
Definition wit_seq_p9 : ety :=
  ESeq 64 (map (fun k => TOpt (TBool (Z.of_nat k * 4 + 2))) (seq 0 9) ++ [TBool 82]) [TBool 122].
Definition wit_val_p9 : eval := EVSeq (repeat VNone 9 ++ [VBool true]) [VSome (VBool true)].

Example ext_oer_preamble9_example :
  wf_ety_oer wit_seq_p9 = true /\ wt_ety_oer wit_seq_p9 wit_val_p9 /\
  ext_oer wit_seq_p9 wit_val_p9 = Some [128; 0; 255; 2; 7; 128; 1; 255] /\
  ext_oer_dec wit_seq_p9 [128; 0; 255; 2; 7; 128; 1; 255] = Some (wit_val_p9, []).
Proof.
  split; [vm_compute; reflexivity|]. split.
  { cbn [wt_ety_oer wit_seq_p9 wit_val_p9 adds_ok]. split; [vm_compute; reflexivity|].
    repeat split; intros c H; vm_compute in H; injection H as <-; vm_compute; discriminate. }
  split; vm_compute; reflexivity.
Qed.

(* version brackets: asn1c flattens  ..., [[ g0 BOOLEAN, g1 INTEGER (0..255) OPTIONAL ]], g2 NULL  into three
   additions; X.691 19.9 / X.696 16.5 make the group ONE addition, a SEQUENCE { g0, g1 OPTIONAL }
   (in BER the brackets are transparent: X.690 is not concerned) *)
Definition wit_flat : ety := ESeq 64 [TBool 2] [TBool 6; TInt 10 (ICon (Some 0) (Some 255) false); TNull 14].
Definition wit_grouped : ety :=
  ESeq 64 [TBool 2] [TSeq 64 [TBool 6; TOpt (TInt 10 (ICon (Some 0) (Some 255) false))]; TNull 14].
Definition wit_flat_val : eval := EVSeq [VBool true] [VSome (VBool true); VSome (VInt 5); VNone].
Definition wit_grouped_val : eval := EVSeq [VBool true] [VSome (VSeq [VBool true; VSome (VInt 5)]); VNone].

Theorem ext_version_brackets_refuted :
  ext_uper true wit_flat wit_flat_val <> ext_uper true wit_grouped wit_grouped_val /\
  ext_oer wit_flat wit_flat_val <> ext_oer wit_grouped wit_grouped_val.
Proof. split; vm_compute; discriminate. Qed.
