(* Rt/LayoutExtProofs.v — property C13, round 4: the UPER walk of the C structure (base
   algebra) and the UPER / OER / DER walks of the structures of EXTENSIBLE types, fetching
   every member, addition and extension alternative through the ATF_POINTER flag, produce
   for EVERY layout the bits / octets of the representation-free models (Rt/Uper.v,
   Rt/Ext.v).  The variant whose extension path takes the slot address for the member
   (the seeded mistake) equals the model exactly on the layouts that store the addition /
   the selected extension alternative inline, and is stuck on every pointer layout. *)
From Coq Require Import ZArith List Bool Lia Arith.
From A1 Require Import Base.Bytes Leaf.IntegerConv Rt.Types Rt.TypesInd Rt.Comb Rt.Der Rt.Uper Rt.Oer
  Rt.Layout Rt.LayoutProofs Rt.Ext Rt.LayoutExt.
Import ListNotations.
Local Open Scope Z_scope.

(* ---------------- the member / element loops, any output alphabet ---------------- *)

Section CellsG.
  Context {B : Type}.
  Variable encc : ty -> lay -> sval -> option (list B).
  Variable enc : ty -> val -> option (list B).
  Hypothesis enc_absent : forall t', enc (TOpt t') VNone = Some [].

  Lemma cells_agree_g ms :
    Forall (fun m => forall l s v, abs m l s = Some v -> encc m l s = enc m v) ms ->
    forall ls cs vs, abs_cells abs ms ls cs = Some vs ->
      enc_cells_g encc ms ls cs = enc_members enc ms vs /\ presence_cells ms ls cs = presence_bits ms vs.
  Proof.
    induction 1 as [|m ms Hm _ IH]; intros ls cs vs Ha.
    - destruct ls; destruct cs; simpl in Ha; inversion Ha; subst; split; reflexivity.
    - destruct ls as [|l ls]; destruct cs as [|c cs]; try (simpl in Ha; discriminate).
      simpl in Ha.
      destruct (on_cell abs (Some VNone) m l c) as [a|] eqn:Ec; [|discriminate].
      destruct (abs_cells abs ms ls cs) as [b|] eqn:Eb; [|discriminate].
      inversion Ha; subst vs. destruct (IH _ _ _ Eb) as [IH1 IH2].
      simpl. rewrite IH1, IH2. unfold on_cell in *.
      destruct (fetch (lay_ptr l) c) as [| |s] eqn:Ef.
      + destruct (is_opt m) eqn:Eo; [|discriminate]. inversion Ec; subst a.
        destruct m; try discriminate. rewrite enc_absent. split; reflexivity.
      + discriminate.
      + rewrite (Hm _ _ _ Ec). split; [reflexivity|].
        destruct (is_opt m) eqn:Eo; [|reflexivity].
        pose proof (abs_is_opt_not_none _ _ _ _ Eo Ec) as Hn.
        destruct a; try reflexivity. contradiction.
  Qed.
End CellsG.

Lemma elems_agree_g {R} (encc : ty -> lay -> sval -> option R) (enc : ty -> val -> option R) e le :
  (forall s v, abs e le s = Some v -> encc e le s = enc e v) ->
  forall els vs, option_all (map (abs e le) els) = Some vs ->
    option_all (map (encc e le) els) = option_all (map (enc e) vs).
Proof.
  intros He. induction els as [|s0 els IH]; intros vs H.
  - simpl in H. inversion H. reflexivity.
  - simpl in H. destruct (abs e le s0) as [v|] eqn:Ev; [|discriminate].
    destruct (option_all (map (abs e le) els)) as [r|] eqn:Er; [|discriminate].
    inversion H; subst vs. simpl. rewrite (He _ _ Ev), (IH _ eq_refl). reflexivity.
Qed.

(* ---------------- UPER on the structure, base algebra ---------------- *)

Lemma uper_opt_none std t' : uper std (TOpt t') VNone = Some [].
Proof. reflexivity. Qed.

Theorem uper_c_abs std : forall t l x v, abs t l x = Some v -> uper_c std t l x = uper std t v.
Proof.
  induction t as [tg|tg|tg c0|tg sc|tg ms H|tg sc e IHe|tg sc e IHe|alts H|tg t' IHt|t' IHt] using ty_ind'; intros l x v Ha.
  - destruct x; cbn [abs] in Ha; inversion Ha; reflexivity.
  - destruct x; cbn [abs] in Ha; inversion Ha; reflexivity.
  - destruct x; cbn [abs] in Ha; inversion Ha; reflexivity.
  - destruct x; cbn [abs] in Ha; inversion Ha; reflexivity.
  - (* SEQUENCE *)
    destruct x as [| | | |cs| |]; try (cbn [abs] in Ha; discriminate).
    rewrite abs_seq in Ha.
    destruct (abs_cells abs ms (lay_subs l) cs) as [vs|] eqn:Ec; [|discriminate].
    inversion Ha; subst v.
    destruct (cells_agree_g (uper_c std) (uper std) (uper_opt_none std) ms H _ _ _ Ec) as [E1 E2].
    cbn [uper_c uper]. rewrite E1, E2. reflexivity.
  - (* SEQUENCE OF *)
    destruct x as [| | | | |els|]; try (cbn [abs] in Ha; discriminate).
    cbn [abs] in Ha.
    destruct (option_all (map (abs e (elem_lay l)) els)) as [vs|] eqn:Ee; [|discriminate].
    inversion Ha; subst v.
    cbn [uper_c uper].
    rewrite (elems_agree_g (uper_c std) (uper std) e (elem_lay l) (IHe (elem_lay l)) _ _ Ee). reflexivity.
  - (* SET OF *)
    destruct x as [| | | | |els|]; try (cbn [abs] in Ha; discriminate).
    cbn [abs] in Ha.
    destruct (option_all (map (abs e (elem_lay l)) els)) as [vs|] eqn:Ee; [|discriminate].
    inversion Ha; subst v.
    cbn [uper_c uper].
    rewrite (elems_agree_g (uper_c std) (uper std) e (elem_lay l) (IHe (elem_lay l)) _ _ Ee). reflexivity.
  - (* CHOICE *)
    destruct x as [| | | | |els|[|i] c]; try (cbn [abs] in Ha; discriminate).
    rewrite abs_choice, pick_alt_nth in Ha.
    destruct (nth_error alts i) as [a|] eqn:Ea; [|discriminate].
    destruct (nth_error (lay_subs l) i) as [la|] eqn:El; [|discriminate].
    destruct (fetch (lay_ptr la) c) as [| |x'] eqn:Ef; try discriminate.
    destruct (abs a la x') as [v'|] eqn:Ev; [|discriminate].
    inversion Ha; subst v.
    cbn [uper_c]. rewrite pick_alt_nth, Ea, El, Ef.
    rewrite (Forall_nth _ _ _ _ H Ea _ _ _ Ev).
    cbn [uper]. rewrite enc_alt_nth, Ea. reflexivity.
  - (* EXPLICIT tag *)
    cbn [abs] in Ha. cbn [uper_c uper]. destruct x; apply IHt; exact Ha.
  - (* OPTIONAL *)
    cbn [abs] in Ha. destruct (abs t' l x) as [v'|] eqn:Ev; [|discriminate].
    inversion Ha; subst v. cbn [uper_c uper]. destruct x; apply IHt; exact Ev.
Qed.

Lemma uper_c_encode_abs std t l x v : abs t l x = Some v -> uper_c_encode std t l x = uper_encode std t v.
Proof. intros Ha. unfold uper_c_encode, uper_encode. rewrite (uper_c_abs std _ _ _ _ Ha). reflexivity. Qed.

Theorem uper_layout_invariant std : forall t l1 s1 l2 s2 v,
  abs t l1 s1 = Some v -> abs t l2 s2 = Some v -> uper_c std t l1 s1 = uper_c std t l2 s2.
Proof. intros. rewrite (uper_c_abs std _ _ _ _ H), (uper_c_abs std _ _ _ _ H0). reflexivity. Qed.

Theorem uper_any_layout std : forall t l v s, repr t l v = Some s -> uper_c std t l s = uper std t v.
Proof. intros. apply uper_c_abs. apply repr_abs. exact H. Qed.

(* ---------------- the additions loop ---------------- *)

Lemma existsb_id_map {A} (f : A -> bool) l : existsb (fun b => b) (map f l) = existsb f l.
Proof. induction l as [|a l IH]; simpl; [reflexivity|]. rewrite IH. reflexivity. Qed.

Lemma adds_agree {B} (encc : ty -> lay -> sval -> option (list Z)) (enc : ty -> val -> option (list Z)) (wrapf : list Z -> list B) :
  (forall t l s v, abs t l s = Some v -> encc t l s = enc t v) ->
  forall adds ls cs avs, abs_adds adds ls cs = Some avs ->
    add_cells fetch encc wrapf adds ls cs = enc_additions enc wrapf adds avs /\
    add_presence fetch ls cs = map is_present avs.
Proof.
  intros He. induction adds as [|t adds IH]; intros ls cs avs Ha.
  - destruct ls; destruct cs; simpl in Ha; inversion Ha; subst; split; reflexivity.
  - destruct ls as [|l ls]; destruct cs as [|c cs]; try (simpl in Ha; discriminate).
    simpl in Ha. simpl.
    destruct (fetch (lay_ptr l) c) as [| |s] eqn:Ef.
    + destruct (abs_adds adds ls cs) as [r|] eqn:Er; [|discriminate].
      inversion Ha; subst avs. destruct (IH _ _ _ Er) as [I1 I2].
      simpl. rewrite I1, I2. split; reflexivity.
    + discriminate.
    + destruct (abs t l s) as [v|] eqn:Ev; [|discriminate].
      destruct (abs_adds adds ls cs) as [r|] eqn:Er; [|discriminate].
      inversion Ha; subst avs. destruct (IH _ _ _ Er) as [I1 I2].
      simpl. rewrite (He _ _ _ _ Ev), I1, I2. split; reflexivity.
Qed.

Lemma abs_cells_length : forall ms ls cs vs, abs_cells abs ms ls cs = Some vs -> length vs = length ms.
Proof.
  induction ms as [|m ms IH]; intros ls cs vs Ha.
  - destruct ls; destruct cs; simpl in Ha; inversion Ha; reflexivity.
  - destruct ls as [|l ls]; destruct cs as [|c cs]; try (simpl in Ha; discriminate).
    simpl in Ha.
    destruct (on_cell abs (Some VNone) m l c); [|discriminate].
    destruct (abs_cells abs ms ls cs) as [b|] eqn:Eb; [|discriminate].
    inversion Ha; subst vs. simpl. rewrite (IH _ _ _ Eb). reflexivity.
Qed.

Lemma all_abs_agree {R} (encc : ty -> lay -> sval -> option R) (enc : ty -> val -> option R) (ms : list ty) :
  (forall t l s v, abs t l s = Some v -> encc t l s = enc t v) ->
  Forall (fun m => forall l s v, abs m l s = Some v -> encc m l s = enc m v) ms.
Proof. intros H. apply Forall_forall. intros m _. apply H. Qed.

(* ---------------- the extensible CHOICE: what ext_abs says about the structure ---------------- *)

Lemma ext_abs_choice root exts l i c v :
  ext_abs (EChoice root exts) l (SUnion (S i) c) = Some v ->
  exists a la x' v', nth_error (root ++ exts) i = Some a /\ nth_error (lay_subs l) i = Some la /\
                     fetch (lay_ptr la) c = FOk x' /\ abs a la x' = Some v' /\ v = EVAlt i v'.
Proof.
  unfold ext_abs. rewrite abs_choice, pick_alt_nth.
  destruct (nth_error (root ++ exts) i) as [a|] eqn:Ea; [|discriminate].
  destruct (nth_error (lay_subs l) i) as [la|] eqn:El; [|discriminate].
  destruct (fetch (lay_ptr la) c) as [| |x'] eqn:Ef; try discriminate.
  destruct (abs a la x') as [v'|] eqn:Ev; [|discriminate].
  intros Hv. inversion Hv; subst v. exists a, la, x', v'. repeat split; assumption.
Qed.

Lemma nth_root root exts i (a : ty) : (i < length root)%nat -> nth_error (root ++ exts) i = Some a -> nth_error root i = Some a.
Proof. intros Hi H. rewrite nth_error_app1 in H by exact Hi. exact H. Qed.

Lemma nth_ext root exts i (a : ty) : (length root <= i)%nat -> nth_error (root ++ exts) i = Some a ->
  nth_error exts (i - length root) = Some a.
Proof. intros Hi H. rewrite nth_error_app2 in H by exact Hi. exact H. Qed.

(* ---------------- UPER of the extensible types ---------------- *)

Theorem ext_uper_c_abs std : forall t l x v, ext_abs t l x = Some v -> ext_uper_c std t l x = ext_uper std t v.
Proof.
  intros [tg root adds|root exts] l x v Ha.
  - (* extensible SEQUENCE *)
    destruct x as [| | | |cs| |]; try (simpl in Ha; discriminate).
    unfold ext_abs in Ha.
    destruct (abs_cells abs root (firstn (length root) (lay_subs l)) (firstn (length root) cs)) as [rvs|] eqn:Er; [|discriminate].
    destruct (abs_adds adds (skipn (length root) (lay_subs l)) (skipn (length root) cs)) as [avs|] eqn:Ead; [|discriminate].
    inversion Ha; subst v.
    destruct (cells_agree_g (uper_c std) (uper std) (uper_opt_none std) root
                (all_abs_agree _ _ root (uper_c_abs std)) _ _ _ Er) as [E1 E2].
    destruct (adds_agree (uper_c_encode std) (uper_encode std) open_type (uper_c_encode_abs std) _ _ _ _ Ead) as [E3 E4].
    unfold ext_uper_c, ext_uper_gen, ext_uper.
    rewrite E1, E2, E3, E4, existsb_id_map. reflexivity.
  - (* extensible CHOICE *)
    destruct x as [| | | | |els|[|i] c]; try (simpl in Ha; discriminate).
    destruct (ext_abs_choice _ _ _ _ _ _ Ha) as (a & la & x' & v' & Ea & El & Ef & Ev & ->).
    unfold ext_uper_c, ext_uper_gen, ext_uper. rewrite pick_alt_nth, Ea, El.
    destruct (i <? length root)%nat eqn:Ei.
    + apply Nat.ltb_lt in Ei. rewrite Ef, (uper_c_abs std _ _ _ _ Ev), enc_alt_nth, (nth_root _ _ _ _ Ei Ea). reflexivity.
    + apply Nat.ltb_ge in Ei. rewrite Ef, (uper_c_encode_abs std _ _ _ _ Ev), enc_alt_nth, (nth_ext _ _ _ _ Ei Ea). reflexivity.
Qed.

(* ---------------- OER of the extensible types ---------------- *)

Theorem ext_oer_c_abs : forall t l x v, ext_abs t l x = Some v -> ext_oer_c t l x = ext_oer t v.
Proof.
  intros [tg root adds|root exts] l x v Ha.
  - destruct x as [| | | |cs| |]; try (simpl in Ha; discriminate).
    unfold ext_abs in Ha.
    destruct (abs_cells abs root (firstn (length root) (lay_subs l)) (firstn (length root) cs)) as [rvs|] eqn:Er; [|discriminate].
    destruct (abs_adds adds (skipn (length root) (lay_subs l)) (skipn (length root) cs)) as [avs|] eqn:Ead; [|discriminate].
    inversion Ha; subst v.
    destruct (cells_agree oer_c oer oer_opt_none root (all_abs_agree _ _ root oer_c_abs) _ _ _ Er) as [E1 E2].
    destruct (adds_agree oer_c oer oer_open oer_c_abs _ _ _ _ Ead) as [E3 E4].
    unfold ext_oer_c, ext_oer_gen, ext_oer.
    rewrite E1, E2, E3, E4, existsb_id_map. reflexivity.
  - destruct x as [| | | | |els|[|i] c]; try (simpl in Ha; discriminate).
    destruct (ext_abs_choice _ _ _ _ _ _ Ha) as (a & la & x' & v' & Ea & El & Ef & Ev & ->).
    unfold ext_oer_c, ext_oer_gen, ext_oer. rewrite pick_alt_nth, Ea, El.
    rewrite enc_alt_nth, Ea, outmost_tag_choice, Ea.
    destruct (i <? length root)%nat eqn:Ei;
      rewrite Ef, (oer_c_abs _ _ _ _ Ev), (outmost_tag_c_abs _ _ _ _ Ev); destruct (oer a v'); reflexivity.
Qed.

(* ---------------- DER of the extensible types ---------------- *)

Lemma abs_adds_as_cells : forall adds ls cs avs, abs_adds adds ls cs = Some avs ->
  abs_cells abs (map TOpt adds) ls cs = Some avs.
Proof.
  induction adds as [|t adds IH]; intros ls cs avs Ha.
  - destruct ls; destruct cs; simpl in Ha; inversion Ha; reflexivity.
  - destruct ls as [|l ls]; destruct cs as [|c cs]; try (simpl in Ha; discriminate).
    simpl in Ha. simpl. unfold on_cell.
    destruct (fetch (lay_ptr l) c) as [| |s] eqn:Ef.
    + destruct (abs_adds adds ls cs) as [r|] eqn:Er; [|discriminate].
      inversion Ha; subst avs. simpl. rewrite (IH _ _ _ Er). reflexivity.
    + discriminate.
    + destruct (abs t l s) as [v|] eqn:Ev; [|discriminate].
      destruct (abs_adds adds ls cs) as [r|] eqn:Er; [|discriminate].
      inversion Ha; subst avs. cbn [abs]. rewrite Ev, (IH _ _ _ Er). reflexivity.
Qed.

Lemma abs_cells_app : forall root adds ls cs rvs avs,
  abs_cells abs root (firstn (length root) ls) (firstn (length root) cs) = Some rvs ->
  abs_adds adds (skipn (length root) ls) (skipn (length root) cs) = Some avs ->
  abs_cells abs (root ++ map TOpt adds) ls cs = Some (rvs ++ avs).
Proof.
  induction root as [|m root IH]; intros adds ls cs rvs avs Hr Hadd.
  - simpl in Hr. inversion Hr; subst rvs. simpl in Hadd. simpl. apply abs_adds_as_cells. exact Hadd.
  - destruct ls as [|l ls]; destruct cs as [|c cs]; try (simpl in Hr; discriminate).
    simpl in Hr. simpl in Hadd.
    destruct (on_cell abs (Some VNone) m l c) as [a|] eqn:Ec; [|discriminate].
    destruct (abs_cells abs root (firstn (length root) ls) (firstn (length root) cs)) as [b|] eqn:Eb; [|discriminate].
    inversion Hr; subst rvs. simpl. rewrite Ec, (IH _ _ _ _ _ Eb Hadd). reflexivity.
Qed.

Theorem ext_der_c_abs : forall t l x v, ext_abs t l x = Some v -> ext_der_c t l x = ext_der t v.
Proof.
  intros [tg root adds|root exts] l x v Ha.
  - destruct x as [| | | |cs| |]; try (simpl in Ha; discriminate).
    unfold ext_abs in Ha.
    destruct (abs_cells abs root (firstn (length root) (lay_subs l)) (firstn (length root) cs)) as [rvs|] eqn:Er; [|discriminate].
    destruct (abs_adds adds (skipn (length root) (lay_subs l)) (skipn (length root) cs)) as [avs|] eqn:Ead; [|discriminate].
    inversion Ha; subst v.
    unfold ext_der_c, ext_der. rewrite (abs_cells_length _ _ _ _ Er), Nat.eqb_refl.
    apply der_c_abs. unfold ext_seq_ty. rewrite abs_seq, (abs_cells_app _ _ _ _ _ _ Er Ead). reflexivity.
  - destruct x as [| | | | |els|[|i] c]; try (simpl in Ha; discriminate).
    unfold ext_abs in Ha.
    destruct (abs (TChoice (root ++ exts)) l (SUnion (S i) c)) as [[| | | | | |j w| |]|] eqn:E; try discriminate.
    inversion Ha; subst v. unfold ext_der_c, ext_der. apply der_c_abs. exact E.
Qed.

(* ---------------- the structures exist: ext_repr ---------------- *)

Lemma firstn_app_len {A} (a b : list A) n : n = length a -> firstn n (a ++ b) = a.
Proof. intros ->. rewrite firstn_app, Nat.sub_diag, firstn_all. simpl. apply app_nil_r. Qed.
Lemma skipn_app_len {A} (a b : list A) n : n = length a -> skipn n (a ++ b) = b.
Proof. intros ->. rewrite skipn_app, Nat.sub_diag, skipn_all. reflexivity. Qed.

Lemma repr_cells_length : forall ms ls vs cs, repr_cells repr ms ls vs = Some cs -> length cs = length ms.
Proof.
  induction ms as [|m ms IH]; intros ls vs cs Hr.
  - destruct ls; destruct vs; simpl in Hr; inversion Hr; reflexivity.
  - destruct ls as [|l ls]; destruct vs as [|v vs]; try (simpl in Hr; discriminate).
    simpl in Hr.
    match type of Hr with match ?X with _ => _ end = _ => destruct X as [c|]; [|discriminate] end.
    destruct (repr_cells repr ms ls vs) as [cs'|] eqn:Er; [|discriminate].
    inversion Hr; subst cs. simpl. rewrite (IH _ _ _ Er). reflexivity.
Qed.

Lemma repr_adds_abs : forall adds ls avs ac, repr_adds adds ls avs = Some ac -> abs_adds adds ls ac = Some avs.
Proof.
  induction adds as [|t adds IH]; intros ls avs ac Hr.
  - destruct ls; destruct avs; simpl in Hr; inversion Hr; reflexivity.
  - destruct ls as [|l ls]; destruct avs as [|v avs]; try (simpl in Hr; discriminate).
    simpl in Hr.
    match type of Hr with match ?X with _ => _ end = _ => destruct X as [c|] eqn:Ec; [|discriminate] end.
    destruct (repr_adds adds ls avs) as [ac'|] eqn:Er; [|discriminate].
    inversion Hr; subst ac. simpl. rewrite (IH _ _ _ Er).
    destruct v; try discriminate.
    + destruct (lay_ptr l) eqn:Ep; [|discriminate]. inversion Ec; subst c. simpl. reflexivity.
    + destruct (repr t l v) as [s|] eqn:Es; [|discriminate]. inversion Ec; subst c.
      rewrite fetch_wrap, (repr_abs _ _ _ _ Es). reflexivity.
Qed.

Lemma all_repr_abs (ms : list ty) : Forall (fun m => forall l v s, repr m l v = Some s -> abs m l s = Some v) ms.
Proof. apply Forall_forall. intros m _ l v s. apply repr_abs. Qed.

Theorem ext_repr_abs : forall t l v x, ext_repr t l v = Some x -> ext_abs t l x = Some v.
Proof.
  intros [tg root adds|root exts] l v x Hr.
  - destruct v as [rvs avs|]; [|simpl in Hr; discriminate].
    unfold ext_repr in Hr.
    destruct (repr_cells repr root (firstn (length root) (lay_subs l)) rvs) as [rc|] eqn:Erc; [|discriminate].
    destruct (repr_adds adds (skipn (length root) (lay_subs l)) avs) as [ac|] eqn:Eac; [|discriminate].
    inversion Hr; subst x. unfold ext_abs.
    pose proof (repr_cells_length _ _ _ _ Erc) as Hl.
    rewrite (firstn_app_len rc ac (length root)) by (symmetry; exact Hl).
    rewrite (skipn_app_len rc ac (length root)) by (symmetry; exact Hl).
    rewrite (repr_cells_abs root (all_repr_abs root) _ _ _ Erc), (repr_adds_abs _ _ _ _ Eac). reflexivity.
  - destruct v as [|i v']; [simpl in Hr; discriminate|].
    unfold ext_repr in Hr. pose proof (repr_abs _ _ _ _ Hr) as Ha.
    cbn [repr] in Hr. rewrite pick_alt_nth in Hr.
    destruct (nth_error (root ++ exts) i) as [a|]; [|discriminate].
    destruct (nth_error (lay_subs l) i) as [la|]; [|discriminate].
    destruct (repr a la v') as [x'|]; [|discriminate].
    inversion Hr; subst x. unfold ext_abs. rewrite Ha. reflexivity.
Qed.

(* the statements in terms of builds: the structure a build with layout l holds for v *)
Theorem ext_uper_any_layout std : forall t l v s, ext_repr t l v = Some s -> ext_uper_c std t l s = ext_uper std t v.
Proof. intros. apply ext_uper_c_abs. apply ext_repr_abs. exact H. Qed.

Theorem ext_oer_any_layout : forall t l v s, ext_repr t l v = Some s -> ext_oer_c t l s = ext_oer t v.
Proof. intros. apply ext_oer_c_abs. apply ext_repr_abs. exact H. Qed.

Theorem ext_der_any_layout : forall t l v s, ext_repr t l v = Some s -> ext_der_c t l s = ext_der t v.
Proof. intros. apply ext_der_c_abs. apply ext_repr_abs. exact H. Qed.

Theorem ext_two_builds_same_bytes std : forall t v l1 l2 s1 s2,
  ext_repr t l1 v = Some s1 -> ext_repr t l2 v = Some s2 ->
  ext_uper_c std t l1 s1 = ext_uper_c std t l2 s2 /\ ext_oer_c t l1 s1 = ext_oer_c t l2 s2 /\
  ext_der_c t l1 s1 = ext_der_c t l2 s2.
Proof.
  intros t v l1 l2 s1 s2 H1 H2.
  rewrite (ext_uper_any_layout std _ _ _ _ H1), (ext_uper_any_layout std _ _ _ _ H2),
          (ext_oer_any_layout _ _ _ _ H1), (ext_oer_any_layout _ _ _ _ H2),
          (ext_der_any_layout _ _ _ _ H1), (ext_der_any_layout _ _ _ _ H2).
  repeat split; reflexivity.
Qed.

(* ---------------- the variant that skips the pointer dereference on the extension path ---------------- *)

(* what ext_repr says about the structure of an extensible CHOICE *)
Lemma ext_repr_choice root exts l i v' s :
  ext_repr (EChoice root exts) l (EVAlt i v') = Some s ->
  exists a la x', nth_error (root ++ exts) i = Some a /\ nth_error (lay_subs l) i = Some la /\
                  repr a la v' = Some x' /\ s = SUnion (S i) (wrap (lay_ptr la) x').
Proof.
  unfold ext_repr. cbn [repr]. rewrite pick_alt_nth.
  destruct (nth_error (root ++ exts) i) as [a|]; [|discriminate].
  destruct (nth_error (lay_subs l) i) as [la|]; [|discriminate].
  destruct (repr a la v') as [x'|] eqn:Ex; [|discriminate].
  intros H. inversion H. exists a, la, x'. repeat split; try reflexivity. exact Ex.
Qed.

Lemma fetch_inline_wrap p s : fetch_inline p (wrap p s) = if p then FWild else FOk s.
Proof. destruct p; reflexivity. Qed.

(* the generic statement for the extensible CHOICE, any encoder pair built on [fx]:
   same result as the correct walk unless the selected alternative is an EXTENSION
   alternative stored behind a POINTER, where the walk is stuck *)
Section ChoiceNoderef.
  Variables (root exts : list ty) (l : lay) (i : nat) (v' : val) (s : sval).
  Hypothesis Hr : ext_repr (EChoice root exts) l (EVAlt i v') = Some s.

  Definition ext_alt_by_pointer : Prop :=
    (length root <= i)%nat /\ exists la, nth_error (lay_subs l) i = Some la /\ lay_ptr la = true.

  Lemma uper_choice_noderef_cases std :
    (ext_alt_by_pointer /\ ext_uper_c_noderef std (EChoice root exts) l s = None) \/
    (~ ext_alt_by_pointer /\ ext_uper_c_noderef std (EChoice root exts) l s = ext_uper_c std (EChoice root exts) l s).
  Proof.
    destruct (ext_repr_choice _ _ _ _ _ _ Hr) as (a & la & x' & Ea & El & Ex & ->).
    unfold ext_uper_c_noderef, ext_uper_c, ext_uper_gen. rewrite !pick_alt_nth, Ea, El.
    destruct (i <? length root)%nat eqn:Ei.
    - right. split; [|reflexivity]. apply Nat.ltb_lt in Ei. intros [Hge _]. lia.
    - apply Nat.ltb_ge in Ei. rewrite fetch_inline_wrap, fetch_wrap.
      destruct (lay_ptr la) eqn:Ep.
      + left. split; [|reflexivity]. split; [exact Ei|]. exists la. split; assumption.
      + right. split; [|reflexivity]. intros [_ (la' & El' & Ep')]. rewrite El in El'. inversion El'; subst la'. congruence.
  Qed.

  Lemma oer_choice_noderef_cases :
    (ext_alt_by_pointer /\ ext_oer_c_noderef (EChoice root exts) l s = None) \/
    (~ ext_alt_by_pointer /\ ext_oer_c_noderef (EChoice root exts) l s = ext_oer_c (EChoice root exts) l s).
  Proof.
    destruct (ext_repr_choice _ _ _ _ _ _ Hr) as (a & la & x' & Ea & El & Ex & ->).
    unfold ext_oer_c_noderef, ext_oer_c, ext_oer_gen. rewrite !pick_alt_nth, Ea, El.
    destruct (i <? length root)%nat eqn:Ei.
    - right. split; [|reflexivity]. apply Nat.ltb_lt in Ei. intros [Hge _]. lia.
    - apply Nat.ltb_ge in Ei. rewrite fetch_inline_wrap, fetch_wrap.
      destruct (lay_ptr la) eqn:Ep.
      + left. split; [|reflexivity]. split; [exact Ei|]. exists la. split; assumption.
      + right. split; [|reflexivity]. intros [_ (la' & El' & Ep')]. rewrite El in El'. inversion El'; subst la'. congruence.
  Qed.

  (* for a value the model can encode: the variant differs from the model EXACTLY when the selected
     extension alternative is held by pointer *)
  Theorem uper_choice_noderef_differs_iff std :
    ext_uper std (EChoice root exts) (EVAlt i v') <> None ->
    (ext_uper_c_noderef std (EChoice root exts) l s <> ext_uper std (EChoice root exts) (EVAlt i v') <-> ext_alt_by_pointer).
  Proof.
    intros Henc. rewrite <- (ext_uper_any_layout std _ _ _ _ Hr) in *.
    destruct (uper_choice_noderef_cases std) as [[Hp E]|[Hn E]]; rewrite E; split; intros H; try assumption.
    - intros E'. apply Henc. symmetry. exact E'.
    - exfalso. apply H. reflexivity.
    - contradiction.
  Qed.

  Theorem oer_choice_noderef_differs_iff :
    ext_oer (EChoice root exts) (EVAlt i v') <> None ->
    (ext_oer_c_noderef (EChoice root exts) l s <> ext_oer (EChoice root exts) (EVAlt i v') <-> ext_alt_by_pointer).
  Proof.
    intros Henc. rewrite <- (ext_oer_any_layout _ _ _ _ Hr) in *.
    destruct oer_choice_noderef_cases as [[Hp E]|[Hn E]]; rewrite E; split; intros H; try assumption.
    - intros E'. apply Henc. symmetry. exact E'.
    - exfalso. apply H. reflexivity.
    - contradiction.
  Qed.
End ChoiceNoderef.

(* the additions loop of an extensible SEQUENCE: stuck as soon as ONE addition has a pointer slot
   (present or absent: the address of a NULL slot is taken for a present member), the same walk otherwise *)
Lemma fetch_inline_false p c : p = false -> fetch_inline p c = fetch p c.
Proof. intros ->. reflexivity. Qed.

Lemma add_presence_inline_same : forall ls cs,
  Forall (fun la => lay_ptr la = false) ls -> add_presence fetch_inline ls cs = add_presence fetch ls cs.
Proof.
  induction ls as [|l ls IH]; intros cs Hf; destruct cs as [|c cs]; try reflexivity.
  inversion Hf; subst. cbn [add_presence]. rewrite (fetch_inline_false _ c H1), (IH _ H2). reflexivity.
Qed.

Lemma add_cells_inline_same {B} enc (wrapf : list Z -> list B) : forall ts ls cs,
  Forall (fun la => lay_ptr la = false) ls ->
  add_cells fetch_inline enc wrapf ts ls cs = add_cells fetch enc wrapf ts ls cs.
Proof.
  induction ts as [|t ts IH]; intros ls cs Hf; destruct ls as [|l ls]; destruct cs as [|c cs]; try reflexivity.
  inversion Hf; subst. cbn [add_cells]. rewrite (fetch_inline_false _ c H1), (IH _ _ H2). reflexivity.
Qed.

Lemma add_cells_inline_stuck {B} enc (wrapf : list Z -> list B) : forall ts ls avs ac,
  repr_adds ts ls avs = Some ac ->
  Exists (fun la => lay_ptr la = true) ls ->
  add_cells fetch_inline enc wrapf ts ls ac = None.
Proof.
  induction ts as [|t ts IH]; intros ls avs ac Hr Hex.
  - destruct ls; destruct avs; simpl in Hr; inversion Hr; subst. inversion Hex.
  - destruct ls as [|l ls]; destruct avs as [|v avs]; try (simpl in Hr; discriminate).
    simpl in Hr.
    match type of Hr with match ?X with _ => _ end = _ => destruct X as [c|] eqn:Ec; [|discriminate] end.
    destruct (repr_adds ts ls avs) as [ac'|] eqn:Er; [|discriminate].
    inversion Hr; subst ac. simpl.
    destruct (lay_ptr l) eqn:Ep.
    + (* this slot is a pointer: its address is not the member *)
      assert (Hc : exists p, c = CPtr p).
      { destruct v; try discriminate.
        - inversion Ec. eauto.
        - destruct (repr t l v); [|discriminate]. inversion Ec. unfold wrap. eauto. }
      destruct Hc as [p ->]. reflexivity.
    + inversion Hex as [? ? Hh|? ? Ht]; subst; [congruence|].
      rewrite (IH _ _ _ Er Ht).
      destruct (fetch_inline false c) as [| |s0]; try reflexivity.
      destruct (enc t l s0); reflexivity.
Qed.

Theorem uper_seq_noderef_stuck std tg root adds l rvs avs s :
  ext_repr (ESeq tg root adds) l (EVSeq rvs avs) = Some s ->
  Exists (fun la => lay_ptr la = true) (skipn (length root) (lay_subs l)) ->
  ext_uper_c_noderef std (ESeq tg root adds) l s = None.
Proof.
  intros Hr Hex. unfold ext_repr in Hr.
  destruct (repr_cells repr root (firstn (length root) (lay_subs l)) rvs) as [rc|] eqn:Erc; [|discriminate].
  destruct (repr_adds adds (skipn (length root) (lay_subs l)) avs) as [ac|] eqn:Eac; [|discriminate].
  inversion Hr; subst s.
  pose proof (repr_cells_length _ _ _ _ Erc) as Hl.
  unfold ext_uper_c_noderef, ext_uper_gen.
  rewrite (skipn_app_len rc ac (length root)) by (symmetry; exact Hl).
  rewrite (add_cells_inline_stuck _ _ _ _ _ _ Eac Hex).
  destruct (enc_cells_g (uper_c std) root (firstn (length root) (lay_subs l)) (firstn (length root) (rc ++ ac))); reflexivity.
Qed.

Theorem oer_seq_noderef_stuck tg root adds l rvs avs s :
  ext_repr (ESeq tg root adds) l (EVSeq rvs avs) = Some s ->
  Exists (fun la => lay_ptr la = true) (skipn (length root) (lay_subs l)) ->
  ext_oer_c_noderef (ESeq tg root adds) l s = None.
Proof.
  intros Hr Hex. unfold ext_repr in Hr.
  destruct (repr_cells repr root (firstn (length root) (lay_subs l)) rvs) as [rc|] eqn:Erc; [|discriminate].
  destruct (repr_adds adds (skipn (length root) (lay_subs l)) avs) as [ac|] eqn:Eac; [|discriminate].
  inversion Hr; subst s.
  pose proof (repr_cells_length _ _ _ _ Erc) as Hl.
  unfold ext_oer_c_noderef, ext_oer_gen.
  rewrite (skipn_app_len rc ac (length root)) by (symmetry; exact Hl).
  rewrite (add_cells_inline_stuck _ _ _ _ _ _ Eac Hex).
  destruct (enc_cells oer_c root (firstn (length root) (lay_subs l)) (firstn (length root) (rc ++ ac))); reflexivity.
Qed.

Theorem seq_noderef_stuck std tg root adds l rvs avs s :
  ext_repr (ESeq tg root adds) l (EVSeq rvs avs) = Some s ->
  Exists (fun la => lay_ptr la = true) (skipn (length root) (lay_subs l)) ->
  ext_uper_c_noderef std (ESeq tg root adds) l s = None /\ ext_oer_c_noderef (ESeq tg root adds) l s = None.
Proof. intros. split; [eapply uper_seq_noderef_stuck|eapply oer_seq_noderef_stuck]; eassumption. Qed.

Theorem seq_noderef_inline_same std tg root adds l s :
  Forall (fun la => lay_ptr la = false) (skipn (length root) (lay_subs l)) ->
  ext_uper_c_noderef std (ESeq tg root adds) l s = ext_uper_c std (ESeq tg root adds) l s /\
  ext_oer_c_noderef (ESeq tg root adds) l s = ext_oer_c (ESeq tg root adds) l s.
Proof.
  intros Hf. destruct s as [| | | |cs| |]; try (split; reflexivity).
  unfold ext_uper_c_noderef, ext_uper_c, ext_uper_gen, ext_oer_c_noderef, ext_oer_c, ext_oer_gen.
  rewrite (add_cells_inline_same (uper_c_encode std) open_type adds _ (skipn (length root) cs) Hf),
          (add_cells_inline_same oer_c oer_open adds _ (skipn (length root) cs) Hf),
          (add_presence_inline_same _ (skipn (length root) cs) Hf).
  split; reflexivity.
Qed.

(* ---------------- non-vacuity and the seeded change (seeded/C13-5) ----------------
   T ::= CHOICE { n INTEGER (0..255), p SEQUENCE { x INTEGER (0..255), y BOOLEAN }, ...,
                  q SEQUENCE { x INTEGER (0..255), y BOOLEAN }, l SEQUENCE OF INTEGER (0..255), m INTEGER (0..255) }
   (AUTOMATIC TAGS), value q : { x 5, y TRUE }. *)
Definition i255 (tg : Z) : ty := TInt tg (ICon (Some 0) (Some 255) false).
Definition xy (tg : Z) : ty := TSeq tg [i255 2; TBool 6].
Definition sx_t : ety := EChoice [i255 2; xy 6] [xy 10; TSeqOf 14 (SCon 0 None false) (i255 8); i255 18].
Definition sx_v : eval := EVAlt 2 (VSeq [VInt 5; VBool true]).
Definition sx_xy_lay (p : bool) : lay := L p [L false []; L false []].
Definition sx_inline : lay := L false [L false []; sx_xy_lay false; sx_xy_lay false; L false [L false []]; L false []].
Definition sx_indirect : lay := L false [L false []; sx_xy_lay true; sx_xy_lay true; L true [L false []]; L false []].   (* -findirect-choice *)

Example sx_model : ext_uper_encode false sx_t sx_v = Some [128; 2; 5; 128] /\ ext_oer sx_t sx_v = Some [130; 2; 5; 255].
Proof. split; vm_compute; reflexivity. Qed.

Example sx_walk_inline :
  on_ext_repr sx_t sx_inline sx_v (ext_uper_c_encode fetch false sx_t sx_inline) = Some [128; 2; 5; 128] /\
  on_ext_repr sx_t sx_inline sx_v (ext_oer_c sx_t sx_inline) = Some [130; 2; 5; 255].
Proof. split; vm_compute; reflexivity. Qed.

Example sx_walk_indirect :
  on_ext_repr sx_t sx_indirect sx_v (ext_uper_c_encode fetch false sx_t sx_indirect) = Some [128; 2; 5; 128] /\
  on_ext_repr sx_t sx_indirect sx_v (ext_oer_c sx_t sx_indirect) = Some [130; 2; 5; 255].
Proof. split; vm_compute; reflexivity. Qed.

Example sx_layouts_differ : on_ext_repr sx_t sx_inline sx_v Some <> on_ext_repr sx_t sx_indirect sx_v Some.
Proof. vm_compute. discriminate. Qed.

(* the seeded helper: right on the inline build, stuck on the -findirect-choice build; the root alternative p
   (a pointer too) and the primitive extension alternative m (inline in both builds) are not affected *)
Example sx_noderef_refuted :
  on_ext_repr sx_t sx_inline sx_v (ext_uper_c_encode fetch_inline false sx_t sx_inline) = ext_uper_encode false sx_t sx_v /\
  on_ext_repr sx_t sx_indirect sx_v Some <> None /\
  on_ext_repr sx_t sx_indirect sx_v (ext_uper_c_encode fetch_inline false sx_t sx_indirect) <> ext_uper_encode false sx_t sx_v /\
  on_ext_repr sx_t sx_indirect (EVAlt 1 (VSeq [VInt 5; VBool true])) (ext_uper_c_encode fetch_inline false sx_t sx_indirect)
    = ext_uper_encode false sx_t (EVAlt 1 (VSeq [VInt 5; VBool true])) /\
  on_ext_repr sx_t sx_indirect (EVAlt 4 (VInt 9)) (ext_uper_c_encode fetch_inline false sx_t sx_indirect)
    = ext_uper_encode false sx_t (EVAlt 4 (VInt 9)).
Proof. repeat split; vm_compute; try reflexivity; discriminate. Qed.

(* an extensible SEQUENCE: S ::= SEQUENCE { a BOOLEAN, ..., e SEQUENCE { x INTEGER (0..255), y BOOLEAN } }; every
   addition is a pointer in every build (EM_OMITABLE|EM_INDIRECT) *)
Definition sq_t : ety := ESeq 64 [TBool 2] [xy 6].
Definition sq_v : eval := EVSeq [VBool true] [VSome (VSeq [VInt 5; VBool true])].
Definition sq_lay : lay := L false [L false []; sx_xy_lay true].

Example sq_walk :
  on_ext_repr sq_t sq_lay sq_v (ext_uper_c_encode fetch false sq_t sq_lay) = ext_uper_encode false sq_t sq_v /\
  ext_uper_encode false sq_t sq_v <> None /\
  on_ext_repr sq_t sq_lay sq_v (ext_oer_c sq_t sq_lay) = ext_oer sq_t sq_v /\ ext_oer sq_t sq_v <> None /\
  on_ext_repr sq_t sq_lay sq_v (ext_uper_c_encode fetch_inline false sq_t sq_lay) = None /\
  on_ext_repr sq_t sq_lay sq_v (ext_oer_c_noderef sq_t sq_lay) = None.
Proof. repeat split; vm_compute; try reflexivity; discriminate. Qed.
