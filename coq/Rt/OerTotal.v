(* Rt/OerTotal.v — the OER encoder of the model succeeds on every well-typed
   value that satisfies the OER-visible constraints of its type (so the
   hypothesis [oer t v = Some bs] of the round-trip theorems of Rt/OerProofs.v
   is met by all such values, not only by the examples). *)
From Coq Require Import ZArith List Lia Bool ZifyBool.
From A1 Require Import Base.Bytes Leaf.IntegerConv Leaf.IntegerConvProofs
  Leaf.BerTL Rt.Types Rt.TypesInd Rt.Comb Rt.Der Rt.DerProofs Rt.Uper Rt.Oer Rt.OerLeaf Rt.OerProofs.
Import ListNotations.
Local Open Scope Z_scope.

(* ---------------- INTEGER ---------------- *)

(* the value is in the root of the constraint, or the constraint is extensible
   (then OER does not see it) *)
Definition oer_int_in (c : icon) (z : Z) : bool := icon_ext c || in_icon c z.

Lemma oer_int_ct_spec c z : oer_int_in c z = true ->
  forall w p, oer_int_ct c = (w, p) ->
  (p = true -> 0 <= z) /\
  (w = 0 \/
   (p = true /\ ((w = 1 /\ z < 256) \/ (w = 2 /\ z < 65536) \/ (w = 4 /\ z < 4294967296)
                 \/ (w = 8 /\ z < 18446744073709551616))) \/
   (p = false /\ ((w = 1 /\ -128 <= z < 128) \/ (w = 2 /\ -32768 <= z < 32768)
                  \/ (w = 4 /\ -2147483648 <= z < 2147483648)
                  \/ (w = 8 /\ - two63 <= z < two63)))).
Proof.
  unfold oer_int_in. destruct c as [lo hi ext]. cbn [icon_ext in_icon].
  destruct ext.
  - intros _ w p E. assert (E' : (w, p) = (0, false)) by (rewrite <- E; destruct lo, hi; reflexivity).
    injection E' as -> ->. split; [discriminate|left; reflexivity].
  - cbn [orb]. intros Hin w p E. cbn [oer_int_ct] in E.
    destruct lo as [l|]; [|injection E as <- <-; split; [discriminate|left; reflexivity]].
    destruct hi as [h|].
    + destruct (0 <=? l) eqn:El.
      * destruct (h <=? 255) eqn:E1; [injection E as <- <-; split; [lia|right; left; split; [reflexivity|lia]]|].
        destruct (h <=? 65535) eqn:E2; [injection E as <- <-; split; [lia|right; left; split; [reflexivity|lia]]|].
        destruct (h <=? 4294967295) eqn:E3; [injection E as <- <-; split; [lia|right; left; split; [reflexivity|lia]]|].
        destruct (h <=? 18446744073709551615) eqn:E4;
          [injection E as <- <-; split; [lia|right; left; split; [reflexivity|lia]]|].
        injection E as <- <-. split; [lia|left; reflexivity].
      * destruct ((-128 <=? l) && (h <=? 127)) eqn:E1;
          [injection E as <- <-; split; [discriminate|right; right; split; [reflexivity|lia]]|].
        destruct ((-32768 <=? l) && (h <=? 32767)) eqn:E2;
          [injection E as <- <-; split; [discriminate|right; right; split; [reflexivity|lia]]|].
        destruct ((-2147483648 <=? l) && (h <=? 2147483647)) eqn:E3;
          [injection E as <- <-; split; [discriminate|right; right; split; [reflexivity|lia]]|].
        destruct ((- two63 <=? l) && (h <=? two63 - 1)) eqn:E4;
          [injection E as <- <-; split; [discriminate|right; right; split; [reflexivity|lia]]|].
        injection E as <- <-. split; [discriminate|left; reflexivity].
    + destruct (0 <=? l) eqn:El; injection E as <- <-.
      * split; [lia|left; reflexivity].
      * split; [discriminate|left; reflexivity].
Qed.

(* a non-negative two's-complement value has a clear sign bit *)
Lemma oer_nonneg_head hd tl : bytes_ok (hd :: tl) -> 0 <= twos_value (hd :: tl) -> (128 <=? hd) = false.
Proof.
  intros Hok Hnn. unfold twos_value in Hnn. destruct (128 <=? hd) eqn:E; [|reflexivity].
  pose proof (be_val_bound _ Hok). lia.
Qed.

(* octets needed by an unsigned value after dropping leading zero octets *)
Lemma oer_strip_zeros_len bs : forall w, bytes_ok bs -> bs <> [] -> 1 <= w ->
  be_val bs < 256 ^ w -> zlen (strip_zeros bs) <= w.
Proof.
  induction bs as [|b tl IH]; intros w Hok Hne Hw Hv; [congruence|].
  destruct tl as [|b1 tl'].
  - cbn [strip_zeros]. unfold zlen. cbn [length Z.of_nat]. lia.
  - apply bytes_ok_inv in Hok. destruct Hok as [Hb Htl].
    rewrite oer_strip_zeros_cons2. destruct (b =? 0) eqn:E.
    + apply IH; auto; [congruence|].
      replace b with 0 in Hv by lia.
      change (be_val (0 :: b1 :: tl')) with (0 * 256 ^ zlen (b1 :: tl') + be_val (b1 :: tl')) in Hv. lia.
    + change (be_val (b :: b1 :: tl')) with (b * 256 ^ zlen (b1 :: tl') + be_val (b1 :: tl')) in Hv.
      pose proof (be_val_bound _ Htl) as Hbv.
      pose proof (zlen_pos_pow (b1 :: tl')) as HP.
      assert (Hlt : 256 ^ zlen (b1 :: tl') < 256 ^ w) by nia.
      apply Z.pow_lt_mono_r_iff in Hlt; [|lia|lia].
      rewrite (zlen_cons b). lia.
Qed.

(* octets needed by a minimal two's-complement form *)
Lemma oer_twos_len bs w : bytes_ok bs -> minimal_twos bs = true -> 1 <= w ->
  - (128 * 256 ^ (w - 1)) <= twos_value bs < 128 * 256 ^ (w - 1) -> zlen bs <= w.
Proof.
  intros Hok Hmin Hw Hv. destruct bs as [|b [|b1 tl]]; [discriminate| |].
  - unfold zlen. cbn [length Z.of_nat]. lia.
  - destruct (Z_le_gt_dec (zlen (b :: b1 :: tl)) w) as [Hle|Hgt]; [exact Hle|exfalso].
    rewrite !zlen_cons in Hgt. pose proof (zlen_nonneg tl) as Hn.
    assert (Hp : 256 ^ (w - 1) <= 256 ^ zlen tl) by (apply Z.pow_le_mono_r; lia).
    destruct (minimal_big b b1 tl Hok Hmin) as [Hbig|Hbig]; lia.
Qed.

Lemma oer_int_total c z : fits_long z = true -> oer_int_in c z = true ->
  exists body, oer_int c z = Some body.
Proof.
  intros Hz Hin. pose proof Hz as Hz'. unfold fits_long in Hz'.
  destruct (imax2INTEGER_canonical z ltac:(lia)) as (Hv & Hmin & Hok & Hne).
  unfold oer_int. destruct (oer_int_ct c) as [w p] eqn:Ect.
  destruct (oer_int_ct_spec c z Hin w p Ect) as [Hpos Hw].
  destruct (imax2INTEGER z) as [|hd tl] eqn:Eb; [congruence|].
  set (negative := 128 <=? hd).
  assert (Hpn : p && negative = false).
  { destruct p; [|reflexivity]. cbn [andb]. subst negative.
    apply (oer_nonneg_head hd tl Hok). rewrite Hv. auto. }
  rewrite Hpn.
  destruct (w =? 0) eqn:Ew; [eauto|].
  destruct Hw as [Hw|[(-> & Hw)|(-> & Hw)]]; [lia| |].
  - (* unsigned fixed width *)
    assert (Hbe : be_val (hd :: tl) = z).
    { rewrite <- Hv. apply nonneg_be_val; auto. rewrite Hv. auto. }
    assert (Hlen : zlen (strip_zeros (hd :: tl)) <= w).
    { destruct Hw as [(-> & Hh)|[(-> & Hh)|[(-> & Hh)|(-> & Hh)]]];
        apply oer_strip_zeros_len; auto; try lia; try congruence. }
    destruct (w <? zlen (strip_zeros (hd :: tl))) eqn:El; [lia|]. eauto.
  - (* signed fixed width *)
    assert (Hlen : zlen (hd :: tl) <= w).
    { destruct Hw as [(-> & Hh)|[(-> & Hh)|[(-> & Hh)|(-> & Hh)]]];
        apply oer_twos_len; auto; try lia; rewrite Hv; unfold two63 in *; lia. }
    cbn [andb]. destruct (w <? zlen (hd :: tl)) eqn:El; [lia|]. eauto.
Qed.

(* ---------------- the OER-visible constraints of a type ---------------- *)

Fixpoint oer_in (t : ty) (v : val) {struct t} : bool :=
  match t, v with
  | TInt _ c, VInt z => oer_int_in c z
  | TOct _ s, VOct bs => match oer_fixed_size s with Some n => zlen bs =? n | None => true end
  | TSeq _ ms, VSeq vs =>
      (fix go (ms : list ty) (vs : list val) : bool :=
         match ms, vs with
         | m :: ms', v :: vs' => oer_in m v && go ms' vs'
         | _, _ => true
         end) ms vs
  | TSeqOf _ _ e, VList vs | TSetOf _ _ e, VList vs => forallb (oer_in e) vs
  | TChoice alts, VChoice i v' =>
      (fix pick (alts : list ty) (i : nat) : bool :=
         match alts, i with
         | a :: _, O => oer_in a v'
         | _ :: r, S j => pick r j
         | [], _ => true
         end) alts i
  | TTag _ t', _ => oer_in t' v
  | TOpt t', VSome v' => oer_in t' v'
  | _, _ => true
  end.

Definition ENC (t : ty) : Prop := forall v,
  wt_oer t v = true -> oer_in t v = true -> exists bs, oer t v = Some bs.

Lemma oer_members_total ms : Forall ENC ms -> forall vs,
  wt_oer (TSeq 0 ms) (VSeq vs) = true -> oer_in (TSeq 0 ms) (VSeq vs) = true ->
  exists body, enc_members oer ms vs = Some body.
Proof.
  induction 1 as [|m ms' Hm Hms IH]; intros vs Hwt Hin; destruct vs as [|v vs'];
    cbn [wt_oer] in Hwt; try discriminate.
  - exists []. reflexivity.
  - apply andb_true_iff in Hwt. destruct Hwt as [Hwt1 Hwtr].
    cbn [oer_in] in Hin. apply andb_true_iff in Hin. destruct Hin as [Hin1 Hinr].
    destruct (Hm v Hwt1 Hin1) as [a Ea]. destruct (IH vs' Hwtr Hinr) as [b Eb].
    exists (a ++ b). cbn [enc_members]. rewrite Ea, Eb. reflexivity.
Qed.

Lemma oer_items_total e : ENC e -> forall vs,
  forallb (wt_oer e) vs = true -> forallb (oer_in e) vs = true ->
  exists es, option_all (map (oer e) vs) = Some es.
Proof.
  intros He. induction vs as [|v vs' IH]; intros Hwt Hin.
  - exists []. reflexivity.
  - cbn [forallb] in Hwt, Hin.
    apply andb_true_iff in Hwt. destruct Hwt as [Hwt1 Hwtr].
    apply andb_true_iff in Hin. destruct Hin as [Hin1 Hinr].
    destruct (He v Hwt1 Hin1) as [a Ea]. destruct (IH Hwtr Hinr) as [es Ees].
    exists (a :: es). cbn [map option_all]. rewrite Ea, Ees. reflexivity.
Qed.

Lemma oer_alts_total alts : Forall ENC alts -> forall i v,
  wt_oer (TChoice alts) (VChoice i v) = true -> oer_in (TChoice alts) (VChoice i v) = true ->
  exists body, enc_alt oer v alts i = Some body.
Proof.
  induction 1 as [|a r Ha Hr IH]; intros i v Hwt Hin; [destruct i; discriminate|].
  destruct i as [|j]; cbn [wt_oer] in Hwt; cbn [oer_in] in Hin; cbn [enc_alt].
  - exact (Ha v Hwt Hin).
  - exact (IH j v Hwt Hin).
Qed.

Theorem oer_encodes_all t : ENC t.
Proof.
  induction t using ty_ind'; intros v Hwt Hin.
  - destruct v; try discriminate. eexists; reflexivity.
  - destruct v; try discriminate. eexists; reflexivity.
  - destruct v; try discriminate. cbn [wt_oer] in Hwt. cbn [oer_in] in Hin. cbn [oer].
    exact (oer_int_total c z Hwt Hin).
  - destruct v; try discriminate. cbn [oer_in] in Hin. cbn [oer].
    destruct (oer_fixed_size s) as [n|]; [rewrite Hin|]; eexists; reflexivity.
  - destruct v; try discriminate. cbn [oer].
    destruct (oer_members_total ms H vs Hwt Hin) as [body Eb]. rewrite Eb. eexists; reflexivity.
  - destruct v; try discriminate. cbn [wt_oer] in Hwt. cbn [oer_in] in Hin. cbn [oer].
    apply andb_true_iff in Hwt. destruct Hwt as [_ Hwt].
    destruct (oer_items_total t IHt vs Hwt Hin) as [es Ees]. rewrite Ees. eexists; reflexivity.
  - destruct v; try discriminate. cbn [wt_oer] in Hwt. cbn [oer_in] in Hin. cbn [oer].
    apply andb_true_iff in Hwt. destruct Hwt as [_ Hwt].
    destruct (oer_items_total t IHt vs Hwt Hin) as [es Ees]. rewrite Ees. eexists; reflexivity.
  - destruct v; try discriminate. cbn [oer].
    destruct (oer_alts_total alts H i v Hwt Hin) as [body Eb]. rewrite Eb. eexists; reflexivity.
  - cbn [wt_oer] in Hwt. cbn [oer_in] in Hin. cbn [oer]. exact (IHt v Hwt Hin).
  - destruct v; try discriminate; cbn [oer].
    + eexists; reflexivity.
    + cbn [wt_oer] in Hwt. cbn [oer_in] in Hin. exact (IHt v Hwt Hin).
Qed.

(* encode, then decode: every well-typed value within the OER-visible
   constraints of a well-formed type survives the round trip *)
Theorem oer_encode_decode : forall t v,
  wf_ty_oer t = true -> not_opt t = true -> wt_oer t v = true -> oer_in t v = true ->
  exists bs, oer t v = Some bs /\ oer_decode t bs = Some (v, zlen bs) /\
             forall rest, oer_dec t (bs ++ rest) = Some (v, rest).
Proof.
  intros t v Hwf Hno Hwt Hin. destruct (oer_encodes_all t v Hwt Hin) as [bs Hd].
  exists bs. split; [exact Hd|]. split.
  - exact (oer_decode_roundtrip t v bs Hwf Hno Hwt Hd).
  - intros rest. exact (oer_roundtrip_in_stream t v bs rest Hwf Hno Hwt Hd).
Qed.

Example oer_ex_in : oer_in oer_ex_ty oer_ex_val = true.
Proof. vm_compute. reflexivity. Qed.

(* the constraint hypothesis is needed for success (not for the round trip) *)
Theorem oer_encodes_out_of_range_refuted :
  exists t v, wf_ty_oer t = true /\ not_opt t = true /\ wt_oer t v = true /\ oer t v = None.
Proof.
  exists (TInt (utag 2) (ICon (Some 0) (Some 255) false)), (VInt 256). vm_compute. auto.
Qed.
