(* Rt/Safety.v -- C04 on the model: whatever the input bytes are, a successful
   decode returns as "rest" a SUFFIX of its input (so the consumed count is
   between 0 and the size, and no fetcher ever looked past the end of the
   buffer).  No hypothesis on the input octets / bits (byte lists are plain
   [list Z], no range assumed) and none on the type.
   Contents:
     1. the suffix relation;
     2. one lemma per combinator of Rt/Comb.v;
     3. the leaf fetchers of the three codecs stay inside the buffer;
     4. ber_dec / uper_dec / oer_dec return a suffix (nested induction);
     5. the consumed count of the top-level wrappers. *)
From Coq Require Import ZArith List Lia Bool ZifyBool.
From A1 Require Import Base.Bytes Leaf.IntegerConv Leaf.BerTL Leaf.BerTLProofs
  Rt.Types Rt.TypesInd Rt.Comb Rt.Der Rt.Uper Rt.Oer.
Import ListNotations.
Local Open Scope Z_scope.

(* ---------------- 1. suffix ---------------- *)

Definition suffix {A} (r s : list A) : Prop := exists pre, s = pre ++ r.

Lemma suffix_refl {A} (s : list A) : suffix s s.
Proof. exists []. reflexivity. Qed.

Lemma suffix_trans {A} (a b c : list A) : suffix a b -> suffix b c -> suffix a c.
Proof.
  intros [p Hp] [q Hq]. exists (q ++ p). subst. apply app_assoc.
Qed.

Lemma suffix_app {A} (p r : list A) : suffix r (p ++ r).
Proof. exists p. reflexivity. Qed.

Lemma suffix_cons {A} (x : A) r s : suffix r s -> suffix r (x :: s).
Proof. intros [p ->]. exists (x :: p). reflexivity. Qed.

Lemma suffix_skipn {A} n (s : list A) : suffix (skipn n s) s.
Proof. exists (firstn n s). symmetry. apply firstn_skipn. Qed.

Lemma suffix_length {A} (r s : list A) : suffix r s -> (length r <= length s)%nat.
Proof. intros [p ->]. rewrite app_length. lia. Qed.

Lemma suffix_zlen {A} (r s : list A) : suffix r s -> 0 <= zlen s - zlen r <= zlen s.
Proof.
  intros [p ->]. rewrite zlen_app.
  pose proof (zlen_nonneg p). pose proof (zlen_nonneg r). lia.
Qed.

(* "the decoder d returns a suffix of what it was given" *)
Definition dec_suffix {B V} (d : list B -> option (V * list B)) : Prop :=
  forall s v r, d s = Some (v, r) -> suffix r s.

(* ---------------- 2. combinators ---------------- *)

Lemma dec_members_suffix {B} (dec : ty -> list B -> option (val * list B)) ms :
  Forall (fun t => dec_suffix (dec t)) ms -> dec_suffix (dec_members dec ms).
Proof.
  induction 1 as [|m ms' Hm Hms IH]; intros s vs r H; cbn [dec_members] in H.
  - injection H as _ <-. apply suffix_refl.
  - destruct (dec m s) as [[v1 r1]|] eqn:E1; [|discriminate].
    destruct (dec_members dec ms' r1) as [[vs' r']|] eqn:E2; [|discriminate].
    injection H as _ <-. eapply suffix_trans; [eapply IH; eauto | eapply Hm; eauto].
Qed.

(* dec_members_pres calls [dec t'] for a member [TOpt t'] *)
Definition unopt (t : ty) : ty := match t with TOpt t' => t' | _ => t end.

Lemma dec_members_pres_suffix {B} (dec : ty -> list B -> option (val * list B)) ms :
  Forall (fun t => dec_suffix (dec (unopt t))) ms ->
  forall pres, dec_suffix (dec_members_pres dec ms pres).
Proof.
  induction 1 as [|m ms' Hm Hms IH]; intros pres s vs r H.
  - cbn [dec_members_pres] in H. injection H as _ <-. apply suffix_refl.
  - destruct m as [tg|tg|tg c|tg sc|tg ms0|tg sc e|tg sc e|alts|tg t0|t'];
      cbn [dec_members_pres unopt] in H, Hm.
    10: {
      destruct pres as [|[] pres']; [discriminate| |].
      - destruct (dec t' s) as [[v1 r1]|] eqn:E1; [|discriminate].
        destruct (dec_members_pres dec ms' pres' r1) as [[vs' r']|] eqn:E2; [|discriminate].
        injection H as _ <-. eapply suffix_trans; [eapply IH; eauto | eapply Hm; eauto].
      - destruct (dec_members_pres dec ms' pres' s) as [[vs' r']|] eqn:E2; [|discriminate].
        injection H as _ <-. eapply IH; eauto. }
    all: match type of H with match ?x with _ => _ end = _ =>
           destruct x as [[v1 r1]|] eqn:E1; [|discriminate] end;
         destruct (dec_members_pres dec ms' pres r1) as [[vs' r']|] eqn:E2; [|discriminate];
         injection H as _ <-; (eapply suffix_trans; [eapply IH; eauto | eapply Hm; eauto]).
Qed.

(* what a successful dec_alt did: alternative number i, at position k + i *)
Lemma dec_alt_inv {St} (dec : ty -> St -> option (val * St)) sel s alts : forall k v r,
  dec_alt dec sel s alts k = Some (v, r) ->
  exists i a v', nth_error alts i = Some a /\ v = VChoice (k + i) v' /\ dec a s = Some (v', r).
Proof.
  induction alts as [|a alts' IH]; intros k v r H; cbn [dec_alt] in H; [discriminate|].
  destruct (sel k a).
  - destruct (dec a s) as [[v1 r1]|] eqn:E; [|discriminate]. injection H as <- <-.
    exists O, a, v1. rewrite Nat.add_0_r. auto.
  - apply IH in H. destruct H as (i & b & v' & Hn & -> & Hd). exists (S i), b, v'.
    replace (k + S i)%nat with (S k + i)%nat by lia. auto.
Qed.

Lemma dec_alt_suffix {B} (dec : ty -> list B -> option (val * list B)) alts :
  Forall (fun t => dec_suffix (dec t)) alts ->
  forall sel k s v r, dec_alt dec sel s alts k = Some (v, r) -> suffix r s.
Proof.
  intros HF sel k s v r H. apply dec_alt_inv in H. destruct H as (i & a & v' & Hn & _ & Hd).
  apply nth_error_In in Hn. rewrite Forall_forall in HF. eapply HF; eauto.
Qed.

Lemma dec_items_suffix {A B} (item : list B -> option (A * list B)) :
  dec_suffix item -> forall n, dec_suffix (dec_items item n).
Proof.
  intros Hi. induction n as [|n IH]; intros s l r H; cbn [dec_items] in H.
  - injection H as _ <-. apply suffix_refl.
  - destruct (item s) as [[a r1]|] eqn:E1; [|discriminate].
    destruct (dec_items item n r1) as [[x r']|] eqn:E2; [|discriminate].
    injection H as _ <-. eapply suffix_trans; [eapply IH; eauto | eapply Hi; eauto].
Qed.

Lemma dec_until_suffix {A B} (item : list B -> option (A * list B)) (stop : list B -> bool) :
  dec_suffix item -> forall f, dec_suffix (dec_until item stop f).
Proof.
  intros Hi. induction f as [|f IH]; intros s l r H; cbn [dec_until] in H; [discriminate|].
  destruct (stop s).
  - injection H as _ <-. apply suffix_refl.
  - destruct (item s) as [[a r1]|] eqn:E1; [|discriminate].
    destruct (dec_until item stop f r1) as [[x r']|] eqn:E2; [|discriminate].
    injection H as _ <-. eapply suffix_trans; [eapply IH; eauto | eapply Hi; eauto].
Qed.

(* ---------------- 3. leaf fetchers ---------------- *)

(* --- OER / generic octets --- *)

Lemma take_spec {A} n (bs a r : list A) :
  take n bs = Some (a, r) -> bs = a ++ r /\ zlen a = n.
Proof.
  unfold take. destruct ((0 <=? n) && (n <=? zlen bs)) eqn:E; [|discriminate].
  intros H. injection H as <- <-. split; [symmetry; apply firstn_skipn|].
  unfold zlen in *. rewrite firstn_length. lia.
Qed.

Lemma take_suffix {A} n : dec_suffix (@take A n).
Proof. intros s a r H. apply take_spec in H. destruct H as [-> _]. apply suffix_app. Qed.

(* --- PER bits --- *)

Lemma take_bits_spec w : forall bs a r,
  take_bits w bs = Some (a, r) -> bs = a ++ r /\ length a = w.
Proof.
  induction w as [|w IH]; intros bs a r H; cbn [take_bits] in H.
  - injection H as <- <-. auto.
  - destruct bs as [|b tl]; [discriminate|].
    destruct (take_bits w tl) as [[x r1]|] eqn:E; [|discriminate].
    injection H as <- <-. apply IH in E. destruct E as [-> <-]. auto.
Qed.

Lemma bits_val_bound a : 0 <= bits_val a < 2 ^ zlen a.
Proof.
  induction a as [|b tl IH]; cbn [bits_val].
  - unfold zlen; cbn. lia.
  - rewrite zlen_cons. rewrite Z.pow_add_r by (try apply zlen_nonneg; lia).
    change (2 ^ 1) with 2. set (P := 2 ^ zlen tl) in *. destruct b; lia.
Qed.

Lemma get_bits_spec w bs v r :
  get_bits w bs = Some (v, r) -> exists a, bs = a ++ r /\ length a = w /\ v = bits_val a.
Proof.
  unfold get_bits. destruct (take_bits w bs) as [[x r1]|] eqn:E; [|discriminate].
  intros H. injection H as <- <-. apply take_bits_spec in E. destruct E as [-> <-].
  exists x. auto.
Qed.

Lemma get_bits_suffix w : dec_suffix (get_bits w).
Proof. intros s v r H. apply get_bits_spec in H. destruct H as (a & -> & _). apply suffix_app. Qed.

Lemma get_bits_bound w bs v r : get_bits w bs = Some (v, r) -> 0 <= v < 2 ^ Z.of_nat w.
Proof.
  intros H. apply get_bits_spec in H. destruct H as (a & _ & <- & ->). apply bits_val_bound.
Qed.

(* n octets = 8 n bits *)
Lemma get_bytes_spec n : forall bs x r,
  get_bytes n bs = Some (x, r) ->
  exists a, bs = a ++ r /\ (length a = 8 * n)%nat /\ length x = n.
Proof.
  induction n as [|n IH]; intros bs x r H; cbn [get_bytes] in H.
  - injection H as <- <-. exists []. auto.
  - destruct (get_bits 8 bs) as [[b r1]|] eqn:E1; [|discriminate].
    destruct (get_bytes n r1) as [[x' r']|] eqn:E2; [|discriminate].
    injection H as <- <-. apply get_bits_spec in E1. destruct E1 as (a1 & -> & Hl1 & _).
    apply IH in E2. destruct E2 as (a2 & -> & Hl2 & Hx).
    exists (a1 ++ a2). rewrite app_assoc. split; [reflexivity|].
    rewrite app_length. cbn [length]. lia.
Qed.

(* the three forms of the length determinant consume 8, 16, 8 bits *)
Lemma get_length_spec bs n more r :
  get_length bs = Some (n, more, r) ->
  exists a, bs = a ++ r /\ (length a = 8 \/ length a = 16)%nat /\ 0 <= n <= 65536.
Proof.
  unfold get_length. destruct bs as [|[] tl]; [discriminate| |].
  - destruct tl as [|[] tl']; [discriminate| |].
    + destruct (get_bits 6 tl') as [[m r1]|] eqn:E; [|discriminate].
      destruct ((1 <=? m) && (m <=? 4)) eqn:Em; [|discriminate].
      intros H. injection H as <- _ <-.
      apply get_bits_spec in E. destruct E as (a & -> & Hl & _).
      exists (true :: true :: a). split; [reflexivity|]. cbn [length]. lia.
    + destruct (get_bits 14 tl') as [[m r1]|] eqn:E; [|discriminate].
      intros H. injection H as <- _ <-.
      pose proof (get_bits_bound _ _ _ _ E) as Hb. change (2 ^ Z.of_nat 14) with 16384 in Hb.
      apply get_bits_spec in E. destruct E as (a & -> & Hl & _).
      exists (true :: false :: a). split; [reflexivity|]. cbn [length]. lia.
  - destruct (get_bits 7 tl) as [[m r1]|] eqn:E; [|discriminate].
    intros H. injection H as <- _ <-.
    pose proof (get_bits_bound _ _ _ _ E) as Hb. change (2 ^ Z.of_nat 7) with 128 in Hb.
    apply get_bits_spec in E. destruct E as (a & -> & Hl & _).
    exists (false :: a). split; [reflexivity|]. cbn [length]. lia.
Qed.

Lemma get_length_progress bs n more r :
  get_length bs = Some (n, more, r) -> (length r + 8 <= length bs)%nat.
Proof.
  intros H. apply get_length_spec in H. destruct H as (a & -> & Hl & _).
  rewrite app_length. lia.
Qed.

(* --- OER length, quantity, tag --- *)

Lemma oer_get_length_spec bs n r :
  oer_get_length bs = Some (n, r) -> exists a, bs = a ++ r /\ (1 <= length a)%nat.
Proof.
  unfold oer_get_length. destruct bs as [|b tl]; [discriminate|].
  destruct (b <? 128).
  - intros H. injection H as _ <-. exists [b]. cbn [length app]. split; [reflexivity|lia].
  - destruct (take (b - 128) tl) as [[os r1]|] eqn:E; [|discriminate].
    destruct os as [|o os']; [discriminate|].
    intros H. injection H as _ <-. apply take_spec in E. destruct E as [-> _].
    exists (b :: o :: os'). cbn [length app]. split; [reflexivity|lia].
Qed.

Lemma oer_get_quantity_spec bs n r :
  oer_get_quantity bs = Some (n, r) -> exists a, bs = a ++ r /\ (2 <= length a)%nat.
Proof.
  unfold oer_get_quantity. destruct bs as [|b tl]; [discriminate|].
  destruct (take b tl) as [[os r1]|] eqn:E; [|discriminate].
  destruct os as [|o os']; [discriminate|].
  intros H. injection H as _ <-. apply take_spec in E. destruct E as [-> _].
  exists (b :: o :: os'). cbn [length app]. split; [reflexivity|lia].
Qed.

Lemma oer_tag_loop_spec bs : forall acc v r,
  oer_tag_loop bs acc = Some (v, r) -> exists a, bs = a ++ r /\ (1 <= length a)%nat.
Proof.
  induction bs as [|b tl IH]; intros acc v r H; cbn [oer_tag_loop] in H; [discriminate|].
  destruct (128 <=? b).
  - apply IH in H. destruct H as (a & -> & Hl). exists (b :: a). cbn [length app].
    split; [reflexivity|lia].
  - injection H as _ <-. exists [b]. cbn [length app]. split; [reflexivity|lia].
Qed.

Lemma oer_get_tag_spec bs tg r :
  oer_get_tag bs = Some (tg, r) -> exists a, bs = a ++ r /\ (1 <= length a)%nat.
Proof.
  unfold oer_get_tag. destruct bs as [|b tl]; [discriminate|].
  destruct (b mod 64 =? 63).
  - destruct (oer_tag_loop tl 0) as [[n r1]|] eqn:E; [|discriminate].
    intros H. injection H as _ <-. apply oer_tag_loop_spec in E. destruct E as (a & -> & Hl).
    exists (b :: a). cbn [length app]. split; [reflexivity|lia].
  - intros H. injection H as _ <-. exists [b]. cbn [length app]. split; [reflexivity|lia].
Qed.

Lemma oer_get_length_suffix : dec_suffix oer_get_length.
Proof. intros s v r H. apply oer_get_length_spec in H. destruct H as (a & -> & _). apply suffix_app. Qed.

Lemma oer_get_quantity_suffix : dec_suffix oer_get_quantity.
Proof. intros s v r H. apply oer_get_quantity_spec in H. destruct H as (a & -> & _). apply suffix_app. Qed.

Lemma oer_get_tag_suffix : dec_suffix oer_get_tag.
Proof. intros s v r H. apply oer_get_tag_spec in H. destruct H as (a & -> & _). apply suffix_app. Qed.

(* --- BER tag and length --- *)

Lemma ber_fetch_tag_in_bounds buf v n :
  fetch_tag buf = FOk v n -> (1 <= n <= length buf)%nat.
Proof. exact (fetch_tag_consumed buf v n). Qed.

Lemma ber_fetch_length_in_bounds constructed buf v n : bytes_ok buf ->
  fetch_length constructed buf = FOk v n -> (1 <= n <= length buf)%nat /\ -1 <= v <= rssize_max.
Proof. exact (fetch_length_consumed constructed buf v n). Qed.

(* the count part needs no hypothesis on the octets *)
Lemma fetch_length_count c buf v n :
  fetch_length c buf = FOk v n -> (1 <= n <= length buf)%nat.
Proof.
  destruct buf as [|b tl]; cbn [fetch_length]; [discriminate|].
  destruct (b <? 128).
  { intros H. injection H as _ <-. cbn [length]. lia. }
  destruct (c && (b =? 128)).
  { intros H. injection H as _ <-. cbn [length]. lia. }
  destruct (b =? 255); [discriminate|].
  intros H. apply fetch_len_loop_consumed in H. cbn [length]. lia.
Qed.

(* header = tag octets (>= 1) followed by length octets (>= 1) *)
Lemma tlv_open_spec bs tg c len rest :
  tlv_open bs = Some (tg, c, len, rest) ->
  exists hdr, bs = hdr ++ rest /\ (2 <= length hdr)%nat.
Proof.
  unfold tlv_open. destruct bs as [|b0 tl]; [discriminate|].
  set (bs := b0 :: tl).
  destruct (fetch_tag bs) as [tg' n1| |] eqn:Et; try discriminate.
  destruct (fetch_length ((b0 / 32) mod 2 =? 1) (skipn n1 bs)) as [len' n2| |] eqn:El; try discriminate.
  intros H. injection H as _ _ _ <-.
  apply fetch_tag_consumed in Et. apply fetch_length_count in El.
  exists (firstn n1 bs ++ firstn n2 (skipn n1 bs)). split.
  - rewrite <- app_assoc. rewrite firstn_skipn. rewrite firstn_skipn. reflexivity.
  - rewrite app_length. rewrite !firstn_length. lia.
Qed.

Lemma tlv_open_suffix bs tg c len rest :
  tlv_open bs = Some (tg, c, len, rest) -> suffix rest bs /\ (length rest + 2 <= length bs)%nat.
Proof.
  intros H. apply tlv_open_spec in H. destruct H as (hdr & -> & Hl).
  split; [apply suffix_app|]. rewrite app_length. lia.
Qed.

(* --- BER primitive / constructed TLV --- *)

Lemma in_prim_inv {A} tg bs (k : list Z -> option A) a r :
  in_prim tg bs k = Some (a, r) ->
  exists tg' len rest, tlv_open bs = Some (tg', false, len, rest) /\ 0 <= len <= zlen rest /\
    k (firstn (Z.to_nat len) rest) = Some a /\ r = skipn (Z.to_nat len) rest.
Proof.
  unfold in_prim. destruct (tlv_open bs) as [[[[tg' c] len] rest]|] eqn:E; [|discriminate].
  destruct c; [discriminate|].
  destruct ((tg' =? tg) && (0 <=? len) && (len <=? zlen rest)) eqn:Ec; [|discriminate].
  destruct (k (firstn (Z.to_nat len) rest)) as [a0|] eqn:Ek; [|discriminate].
  intros H. injection H as <- <-. exists tg', len, rest. repeat split; auto; lia.
Qed.

Lemma in_prim_suffix {A} tg bs (k : list Z -> option A) a r :
  in_prim tg bs k = Some (a, r) -> suffix r bs.
Proof.
  intros H. apply in_prim_inv in H. destruct H as (tg' & len & rest & Ho & _ & _ & ->).
  apply tlv_open_suffix in Ho. destruct Ho as [Hs _].
  eapply suffix_trans; [apply suffix_skipn|exact Hs].
Qed.

(* strict: at least the two header octets are consumed *)
Lemma in_prim_strict {A} tg bs (k : list Z -> option A) a r :
  in_prim tg bs k = Some (a, r) -> (length r + 2 <= length bs)%nat.
Proof.
  intros H. apply in_prim_inv in H. destruct H as (tg' & len & rest & Ho & _ & _ & ->).
  apply tlv_open_suffix in Ho. destruct Ho as [_ Hl].
  pose proof (suffix_length _ _ (suffix_skipn (Z.to_nat len) rest)). lia.
Qed.

Lemma in_cons_inv {A} tg bs (k : list Z -> option (A * list Z)) a r :
  in_cons tg bs k = Some (a, r) ->
  exists tg' len rest, tlv_open bs = Some (tg', true, len, rest) /\
    ((len = -1 /\ exists b1 b2, k rest = Some (a, b1 :: b2 :: r)) \/
     (len <> -1 /\ len <= zlen rest /\ k (firstn (Z.to_nat len) rest) = Some (a, []) /\
      r = skipn (Z.to_nat len) rest)).
Proof.
  unfold in_cons. destruct (tlv_open bs) as [[[[tg' c] len] rest]|] eqn:E; [|discriminate].
  destruct c; [|discriminate].
  destruct (tg' =? tg); [|discriminate].
  destruct (len =? -1) eqn:E1.
  - destruct (k rest) as [[a0 [|b1 [|b2 r0]]]|] eqn:Ek; try discriminate.
    destruct ((b1 =? 0) && (b2 =? 0)); [|discriminate].
    intros H. injection H as <- <-. exists tg', len, rest. split; [reflexivity|].
    left. split; [lia|]. eauto.
  - destruct (len <=? zlen rest) eqn:E2; [|discriminate].
    destruct (k (firstn (Z.to_nat len) rest)) as [[a0 [|b1 r0]]|] eqn:Ek; try discriminate.
    intros H. injection H as <- <-. exists tg', len, rest. split; [reflexivity|].
    right. repeat split; auto; lia.
Qed.

(* the continuation must return a suffix only in the indefinite-length branch *)
Lemma in_cons_suffix {A} tg bs (k : list Z -> option (A * list Z)) a r :
  (forall c a' r', k c = Some (a', r') -> suffix r' c) ->
  in_cons tg bs k = Some (a, r) -> suffix r bs.
Proof.
  intros Hk H. apply in_cons_inv in H. destruct H as (tg' & len & rest & Ho & Hc).
  apply tlv_open_suffix in Ho. destruct Ho as [Hs _].
  destruct Hc as [(_ & b1 & b2 & Ek)|(_ & _ & _ & ->)].
  - apply Hk in Ek. destruct Ek as [p ->]. eapply suffix_trans; [|exact Hs].
    exists (p ++ [b1; b2]). rewrite <- app_assoc. reflexivity.
  - eapply suffix_trans; [apply suffix_skipn|exact Hs].
Qed.

Lemma in_cons_strict {A} tg bs (k : list Z -> option (A * list Z)) a r :
  (forall c a' r', k c = Some (a', r') -> suffix r' c) ->
  in_cons tg bs k = Some (a, r) -> (length r + 2 <= length bs)%nat.
Proof.
  intros Hk H. apply in_cons_inv in H. destruct H as (tg' & len & rest & Ho & Hc).
  apply tlv_open_suffix in Ho. destruct Ho as [_ Hl].
  destruct Hc as [(_ & b1 & b2 & Ek)|(_ & _ & _ & ->)].
  - apply Hk in Ek. apply suffix_length in Ek. cbn [length] in Ek. lia.
  - pose proof (suffix_length _ _ (suffix_skipn (Z.to_nat len) rest)). lia.
Qed.

(* ---------------- 4. the decoders return a suffix ---------------- *)

(* --- BER --- *)

Theorem ber_dec_suffix : forall t bs v r, ber_dec t bs = Some (v, r) -> suffix r bs.
Proof.
  induction t as [tg|tg|tg c|tg s|tg ms IHms|tg s t IHt|tg s t IHt|alts IHalts|tg t IHt|t IHt] using ty_ind'; intros bs v r H; cbn [ber_dec] in H.
  - eapply in_prim_suffix; eauto.
  - eapply in_prim_suffix; eauto.
  - eapply in_prim_suffix; eauto.
  - eapply in_prim_suffix; eauto.
  - destruct (in_cons tg bs (dec_members ber_dec ms)) as [[vs r1]|] eqn:E; [|discriminate].
    injection H as _ <-. eapply in_cons_suffix; [|exact E].
    intros c a' r' Hc. eapply (dec_members_suffix ber_dec ms); eauto.
  - destruct (in_cons tg bs (fun c => dec_until (ber_dec t) at_end (S (length c)) c))
      as [[vs r1]|] eqn:E; [|discriminate].
    injection H as _ <-. eapply in_cons_suffix; [|exact E].
    intros c a' r' Hc. cbv beta in Hc. eapply (dec_until_suffix (ber_dec t) at_end); eauto.
  - destruct (in_cons tg bs (fun c => dec_until (ber_dec t) at_end (S (length c)) c))
      as [[vs r1]|] eqn:E; [|discriminate].
    injection H as _ <-. eapply in_cons_suffix; [|exact E].
    intros c a' r' Hc. cbv beta in Hc. eapply (dec_until_suffix (ber_dec t) at_end); eauto.
  - destruct (peek_tag bs) as [tg|]; [|discriminate].
    eapply (dec_alt_suffix ber_dec alts); eauto.
  - eapply in_cons_suffix; [|exact H]. intros c a' r' Hc. eapply IHt; eauto.
  - destruct (peek_tag bs) as [tg|].
    + destruct (tag_in tg (first_tags t)).
      * destruct (ber_dec t bs) as [[v1 r1]|] eqn:E; [|discriminate].
        injection H as _ <-. eapply IHt; eauto.
      * injection H as _ <-. apply suffix_refl.
    + injection H as _ <-. apply suffix_refl.
Qed.

(* --- UPER --- *)

Lemma get_counted_suffix {A} (item : list bool -> option (A * list bool)) :
  dec_suffix item -> forall f, dec_suffix (get_counted item f).
Proof.
  intros Hi. induction f as [|f IH]; intros s l r H; cbn [get_counted] in H; [discriminate|].
  destruct (get_length s) as [[[n more] r0]|] eqn:El; [|discriminate].
  unfold get_items in H.
  destruct (dec_items item (Z.to_nat n) r0) as [[x r1]|] eqn:Ei; [|discriminate].
  apply get_length_spec in El. destruct El as (a & -> & _).
  apply (dec_items_suffix item Hi) in Ei.
  assert (Hs1 : suffix r1 (a ++ r0)) by (eapply suffix_trans; [exact Ei|apply suffix_app]).
  destruct more.
  - destruct (get_counted item f r1) as [[y r2]|] eqn:Ec; [|discriminate].
    injection H as _ <-. apply IH in Ec. eapply suffix_trans; eauto.
  - injection H as _ <-. exact Hs1.
Qed.

Lemma get_sized_suffix {A} (item : list bool -> option (A * list bool)) :
  dec_suffix item -> forall sc, dec_suffix (get_sized item sc).
Proof.
  intros Hi [lo hi ext] s l r H. unfold get_sized in H.
  assert (Hgen : forall bs l r, get_counted item (S (length bs)) bs = Some (l, r) -> suffix r bs).
  { intros bs l0 r0 Hc. eapply (get_counted_suffix item Hi); eauto. }
  assert (Hroot : forall bs l r,
    (if match hi with Some h => h <? 65536 | None => false end
     then match hi with
          | Some h => match get_bits (range_bits (h - lo + 1)) bs with
                      | Some (n, r) => if n <=? h - lo then get_items item (Z.to_nat (n + lo)) r else None
                      | None => None
                      end
          | None => None
          end
     else get_counted item (S (length bs)) bs) = Some (l, r) -> suffix r bs).
  { intros bs l0 r0 Hc.
    destruct (match hi with Some h => h <? 65536 | None => false end); [|eauto].
    destruct hi as [h|]; [|discriminate].
    destruct (get_bits (range_bits (h - lo + 1)) bs) as [[n r1]|] eqn:Eb; [|discriminate].
    destruct (n <=? h - lo); [|discriminate].
    unfold get_items in Hc. apply (dec_items_suffix item Hi) in Hc.
    apply get_bits_suffix in Eb. eapply suffix_trans; eauto. }
  cbv zeta in H. destruct ext.
  - destruct s as [|[] tl]; [discriminate| |].
    + apply suffix_cons. eauto.
    + apply suffix_cons. eauto.
  - eauto.
Qed.

Lemma get_octet_suffix : dec_suffix get_octet.
Proof. exact (get_bits_suffix 8). Qed.

Lemma uper_dec_int_suffix c : dec_suffix (uper_dec_int c).
Proof.
  destruct c as [lo hi ext]. intros s z r H. unfold uper_dec_int in H.
  assert (Hoct : forall bs os r, get_counted get_octet (S (length bs)) bs = Some (os, r) -> suffix r bs).
  { intros bs os r0 Hc. eapply (get_counted_suffix get_octet get_octet_suffix); eauto. }
  assert (Hsigned : forall bs z r,
    match get_counted get_octet (S (length bs)) bs with
    | Some (os, r) => match os with [] => None | _ => Some (twos_value os, r) end
    | None => None
    end = Some (z, r) -> suffix r bs).
  { intros bs z0 r0 Hc.
    destruct (get_counted get_octet (S (length bs)) bs) as [[os r1]|] eqn:E; [|discriminate].
    destruct os; [discriminate|]. injection Hc as _ <-. eauto. }
  assert (Hroot : forall bs z r,
    match lo, hi with
    | Some l, Some h =>
        match get_bits (range_bits (h - l + 1)) bs with
        | Some (n, r) => if n <=? h - l then Some (l + n, r) else None
        | None => None
        end
    | Some l, None =>
        match get_counted get_octet (S (length bs)) bs with
        | Some (os, r) => match os with [] => None | _ => Some (l + be_val os, r) end
        | None => None
        end
    | None, _ =>
        match get_counted get_octet (S (length bs)) bs with
        | Some (os, r) => match os with [] => None | _ => Some (twos_value os, r) end
        | None => None
        end
    end = Some (z, r) -> suffix r bs).
  { intros bs z0 r0 Hc. destruct lo as [l|]; [|eauto]. destruct hi as [h|].
    - destruct (get_bits (range_bits (h - l + 1)) bs) as [[n r1]|] eqn:Eb; [|discriminate].
      destruct (n <=? h - l); [|discriminate]. injection Hc as _ <-.
      eapply get_bits_suffix; eauto.
    - destruct (get_counted get_octet (S (length bs)) bs) as [[os r1]|] eqn:E; [|discriminate].
      destruct os; [discriminate|]. injection Hc as _ <-. eauto. }
  cbv zeta in H. destruct ext.
  - destruct s as [|[] tl]; [discriminate| |].
    + apply suffix_cons. eauto.
    + apply suffix_cons. eauto.
  - eauto.
Qed.

(* a TOpt member succeeds exactly when its type does, with the same rest *)
Lemma uper_dec_opt std t bs v r :
  uper_dec std t bs = Some (v, r) -> uper_dec std (TOpt t) bs = Some (VSome v, r).
Proof. intros H. cbn [uper_dec]. rewrite H. reflexivity. Qed.

Lemma oer_dec_opt t bs v r :
  oer_dec t bs = Some (v, r) -> oer_dec (TOpt t) bs = Some (VSome v, r).
Proof. intros H. cbn [oer_dec]. rewrite H. reflexivity. Qed.

Theorem uper_dec_suffix : forall std t bs v r, uper_dec std t bs = Some (v, r) -> suffix r bs.
Proof.
  intros std. induction t as [tg|tg|tg c|tg s|tg ms IHms|tg s t IHt|tg s t IHt|alts IHalts|tg t IHt|t IHt] using ty_ind'; intros bs v r H; cbn [uper_dec] in H.
  - destruct bs as [|b tl]; [discriminate|]. injection H as _ <-. apply suffix_cons, suffix_refl.
  - injection H as _ <-. apply suffix_refl.
  - destruct (uper_dec_int c bs) as [[z r1]|] eqn:E; [|discriminate].
    destruct (fits_long z); [|discriminate]. injection H as _ <-.
    eapply uper_dec_int_suffix; eauto.
  - destruct (get_sized get_octet s bs) as [[os r1]|] eqn:E; [|discriminate].
    injection H as _ <-. eapply (get_sized_suffix get_octet get_octet_suffix); eauto.
  - destruct (take_bits (length (filter is_opt ms)) bs) as [[pres r0]|] eqn:Et; [|discriminate].
    destruct (dec_members_pres (uper_dec std) ms pres r0) as [[vs r1]|] eqn:Em; [|discriminate].
    injection H as _ <-. apply take_bits_spec in Et. destruct Et as [-> _].
    eapply suffix_trans; [|apply suffix_app].
    eapply (dec_members_pres_suffix (uper_dec std) ms); [|exact Em].
    eapply Forall_impl; [|exact IHms]. intros m Hm s v0 r' Hd.
    destruct m; try (eapply Hm; exact Hd). cbn [unopt] in Hd.
    eapply Hm. apply uper_dec_opt. exact Hd.
  - destruct (get_sized (uper_dec std t) s bs) as [[vs r1]|] eqn:E; [|discriminate].
    injection H as _ <-. eapply (get_sized_suffix (uper_dec std t)); [|exact E].
    intros s0 v0 r0 Hd. eapply IHt; eauto.
  - destruct (get_sized (uper_dec std t) s bs) as [[vs r1]|] eqn:E; [|discriminate].
    injection H as _ <-. eapply (get_sized_suffix (uper_dec std t)); [|exact E].
    intros s0 v0 r0 Hd. eapply IHt; eauto.
  - destruct (get_bits (range_bits (zlen alts)) bs) as [[idx r0]|] eqn:Eb; [|discriminate].
    apply get_bits_suffix in Eb. eapply suffix_trans; [|exact Eb].
    eapply (dec_alt_suffix (uper_dec std) alts); eauto.
  - eapply IHt; eauto.
  - destruct (uper_dec std t bs) as [[v1 r1]|] eqn:E; [|discriminate].
    injection H as _ <-. eapply IHt; eauto.
Qed.

(* --- OER --- *)

Lemma oer_dec_int_suffix c : dec_suffix (oer_dec_int c).
Proof.
  intros s z r H. unfold oer_dec_int in H.
  destruct (oer_int_ct c) as [width positive].
  destruct (width =? 0).
  - destruct (oer_get_length s) as [[n r0]|] eqn:El; [|discriminate].
    destruct (take n r0) as [[os r1]|] eqn:Et; [|discriminate].
    destruct os; [discriminate|]. injection H as _ <-.
    apply oer_get_length_suffix in El. apply take_suffix in Et.
    eapply suffix_trans; eauto.
  - destruct (take width s) as [[os r1]|] eqn:Et; [|discriminate].
    injection H as _ <-. eapply take_suffix; eauto.
Qed.

Theorem oer_dec_suffix : forall t bs v r, oer_dec t bs = Some (v, r) -> suffix r bs.
Proof.
  induction t as [tg|tg|tg c|tg s|tg ms IHms|tg s t IHt|tg s t IHt|alts IHalts|tg t IHt|t IHt] using ty_ind'; intros bs v r H; cbn [oer_dec] in H.
  - destruct bs as [|b tl]; [discriminate|]. injection H as _ <-. apply suffix_cons, suffix_refl.
  - injection H as _ <-. apply suffix_refl.
  - destruct (oer_dec_int c bs) as [[z r1]|] eqn:E; [|discriminate].
    destruct (fits_long z); [|discriminate]. injection H as _ <-.
    eapply oer_dec_int_suffix; eauto.
  - destruct (oer_fixed_size s) as [n|].
    + destruct (take n bs) as [[os r1]|] eqn:Et; [|discriminate].
      injection H as _ <-. eapply take_suffix; eauto.
    + destruct (oer_get_length bs) as [[n r0]|] eqn:El; [|discriminate].
      destruct (take n r0) as [[os r1]|] eqn:Et; [|discriminate].
      injection H as _ <-. apply oer_get_length_suffix in El. apply take_suffix in Et.
      eapply suffix_trans; eauto.
  - cbv zeta in H.
    destruct (take (Z.of_nat ((length (filter is_opt ms) + 7) / 8)) bs) as [[pb r0]|] eqn:Et; [|discriminate].
    destruct (take_bits (length (filter is_opt ms)) (bytes_bits pb)) as [[pres x]|] eqn:Ep; [|discriminate].
    destruct (dec_members_pres oer_dec ms pres r0) as [[vs r1]|] eqn:Em; [|discriminate].
    injection H as _ <-. apply take_suffix in Et.
    eapply suffix_trans; [|exact Et].
    eapply (dec_members_pres_suffix oer_dec ms); [|exact Em].
    eapply Forall_impl; [|exact IHms]. intros m Hm s v0 r' Hd.
    destruct m; try (eapply Hm; exact Hd). cbn [unopt] in Hd.
    eapply Hm. apply oer_dec_opt. exact Hd.
  - destruct (oer_get_quantity bs) as [[n r0]|] eqn:Eq; [|discriminate].
    destruct (dec_items (oer_dec t) (Z.to_nat n) r0) as [[vs r1]|] eqn:Ei; [|discriminate].
    injection H as _ <-. apply oer_get_quantity_suffix in Eq.
    eapply suffix_trans; [|exact Eq].
    eapply (dec_items_suffix (oer_dec t)); [|exact Ei]. intros s0 v0 r2 Hd. eapply IHt; eauto.
  - destruct (oer_get_quantity bs) as [[n r0]|] eqn:Eq; [|discriminate].
    destruct (dec_items (oer_dec t) (Z.to_nat n) r0) as [[vs r1]|] eqn:Ei; [|discriminate].
    injection H as _ <-. apply oer_get_quantity_suffix in Eq.
    eapply suffix_trans; [|exact Eq].
    eapply (dec_items_suffix (oer_dec t)); [|exact Ei]. intros s0 v0 r2 Hd. eapply IHt; eauto.
  - destruct (oer_get_tag bs) as [[tg r0]|] eqn:Eg; [|discriminate].
    apply oer_get_tag_suffix in Eg. eapply suffix_trans; [|exact Eg].
    eapply (dec_alt_suffix oer_dec alts); eauto.
  - eapply IHt; eauto.
  - destruct (oer_dec t bs) as [[v1 r1]|] eqn:E; [|discriminate].
    injection H as _ <-. eapply IHt; eauto.
Qed.

(* ---------------- 5. consumed count of the top-level wrappers ---------------- *)

Theorem ber_decode_consumed t bs v n :
  ber_decode t bs = Some (v, n) -> 0 <= n <= zlen bs.
Proof.
  unfold ber_decode. destruct (ber_dec t bs) as [[v1 r]|] eqn:E; [|discriminate].
  intros H. injection H as _ <-. apply ber_dec_suffix in E. apply suffix_zlen. exact E.
Qed.

Theorem oer_decode_consumed t bs v n :
  oer_decode t bs = Some (v, n) -> 0 <= n <= zlen bs.
Proof.
  unfold oer_decode. destruct (oer_dec t bs) as [[v1 r]|] eqn:E; [|discriminate].
  intros H. injection H as _ <-. apply oer_dec_suffix in E. apply suffix_zlen. exact E.
Qed.

Lemma nbits_length w n : length (nbits w n) = w.
Proof. induction w as [|w IH]; cbn [nbits length]; congruence. Qed.

Lemma zlen_bytes_bits bs : zlen (bytes_bits bs) = 8 * zlen bs.
Proof.
  induction bs as [|b tl IH]; [reflexivity|].
  unfold bytes_bits in *. cbn [flat_map]. rewrite zlen_app, IH, zlen_cons.
  unfold byte_bits, zlen. rewrite nbits_length. lia.
Qed.

(* PER reports whole octets, at least one: consumed = max 1 (ceil (used bits / 8)) *)
Theorem uper_decode_consumed std t bs v n :
  uper_decode std t bs = Some (v, n) -> 1 <= n /\ (bs <> [] -> n <= zlen bs).
Proof.
  unfold uper_decode. destruct (uper_dec std t (bytes_bits bs)) as [[v1 r]|] eqn:E; [|discriminate].
  intros H. injection H as _ <-. apply uper_dec_suffix in E. apply suffix_zlen in E.
  rewrite zlen_bytes_bits in E. rewrite zlen_bytes_bits.
  set (used := 8 * zlen bs - zlen r) in *.
  split; [lia|]. intros Hne.
  assert (Hpos : 1 <= zlen bs).
  { destruct bs; [congruence|]. rewrite zlen_cons. pose proof (zlen_nonneg bs). lia. }
  assert (Hdiv : (used + 7) / 8 <= zlen bs).
  { apply Z.lt_succ_r. apply Z.div_lt_upper_bound; lia. }
  lia.
Qed.

(* the corner: a zero-bit type on the empty buffer; the model reports one octet
   (the C answers RC_WMORE there; the tie checks that) *)
Example uper_decode_empty_corner : uper_decode false (TNull 20) [] = Some (VNull, 1).
Proof. vm_compute. reflexivity. Qed.
