(* Rt/SetDefProofs.v — theorems about the SET / DEFAULT layer (Rt/SetDef.v).
   Round trips in a stream (arbitrary data may follow) for unaligned PER and OER (the value
   comes back with every absent DEFAULT member FILLED IN, [fill_dflt]) and for DER read by the
   BER reader (every stored default comes back ABSENT, [strip_dflt]); format: the model of
   the C's DER / PER / OER encoders (raw = false) equals the reading of X.690 / X.691 / X.696
   for SEQUENCE-shaped types; the BOOLEAN DEFAULT TRUE deviation (raw = true) as a refuted
   witness; structural facts about the SET order. *)
From Coq Require Import ZArith List Lia Bool ZifyBool Permutation Sorted.
From A1 Require Import Base.Bytes Leaf.IntegerConv Leaf.BerTL Rt.Types Rt.TypesInd Rt.Comb Rt.Der Rt.DerProofs
  Rt.Uper Rt.UperBits Rt.UperProofs Rt.Oer Rt.OerLeaf Rt.OerProofs Rt.SetDef.
Import ListNotations.
Local Open Scope Z_scope.

(* ---------------- induction principle ---------------- *)

Section CtyInd.
  Variable P : cty -> Prop.
  Hypothesis HBase : forall t, P (CBase t).
  Hypothesis HSeq : forall tg ms, Forall P ms -> P (CSeq tg ms).
  Hypothesis HSet : forall tg ms, Forall P ms -> P (CSet tg ms).
  Hypothesis HTag : forall tg t, P t -> P (CTag tg t).
  Hypothesis HOpt : forall t, P t -> P (COpt t).
  Hypothesis HDef : forall d t, P t -> P (CDef d t).

  Fixpoint cty_ind' (t : cty) : P t :=
    match t with
    | CBase b => HBase b
    | CSeq tg ms =>
        HSeq tg ms ((fix go (l : list cty) : Forall P l :=
                       match l with
                       | [] => Forall_nil P
                       | x :: r => Forall_cons x (cty_ind' x) (go r)
                       end) ms)
    | CSet tg ms =>
        HSet tg ms ((fix go (l : list cty) : Forall P l :=
                       match l with
                       | [] => Forall_nil P
                       | x :: r => Forall_cons x (cty_ind' x) (go r)
                       end) ms)
    | CTag tg t' => HTag tg t' (cty_ind' t')
    | COpt t' => HOpt t' (cty_ind' t')
    | CDef d t' => HDef d t' (cty_ind' t')
    end.
End CtyInd.

(* ---------------- well-typed values ---------------- *)

(* parametrised by the base layer's typing judgement (wt / wt_uper std / wt_oer) *)
Section Wt.
  Variable bwt : ty -> val -> bool.
  Fixpoint cwt (t : cty) (v : val) {struct t} : bool :=
    match t, v with
    | CBase b, _ => bwt b v
    | CSeq _ ms, VSeq vs | CSet _ ms, VSeq vs =>
        (fix go (ms : list cty) (vs : list val) : bool :=
           match ms, vs with
           | [], [] => true
           | m :: ms', v :: vs' => cwt m v && go ms' vs'
           | _, _ => false
           end) ms vs
    | CTag _ t', _ => cwt t' v
    | COpt _, VNone => true
    | COpt t', VSome v' => cwt t' v'
    | CDef _ _, VNone => true
    | CDef _ t', VSome v' => cwt t' v'
    | _, _ => false
    end.
End Wt.

Definition not_marker (t : cty) : bool := negb (is_marker t).

(* shape: markers only as direct members, around non-markers; parametrised by the base wf *)
Section Wf.
  Variable bwf : ty -> bool.
  Fixpoint cshape (t : cty) : bool :=
    match t with
    | CBase b => bwf b
    | CSeq _ ms | CSet _ ms => forallb cshape ms
    | CTag _ t' => cshape t' && not_marker t'
    | COpt t' | CDef _ t' => cshape t' && not_marker t'
    end.
End Wf.

(* ---------------- small facts ---------------- *)

Lemma dflt_eqb_false_spec v d : dflt_eqb false v d = is_default_value v d.
Proof. destruct v, d; try reflexivity. cbn. rewrite andb_false_r. reflexivity. Qed.

Lemma some_inj {A} (a b : A) : Some a = Some b -> a = b.
Proof. congruence. Qed.

Lemma fill_base b v : fill_dflt (CBase b) v = v.
Proof. destruct v; reflexivity. Qed.

Lemma strip_base b v : strip_dflt (CBase b) v = v.
Proof. destruct v; reflexivity. Qed.

Lemma fill_bool t b : fill_dflt t (VBool b) = VBool b.
Proof. induction t; cbn [fill_dflt]; auto. Qed.
Lemma fill_int t z : fill_dflt t (VInt z) = VInt z.
Proof. induction t; cbn [fill_dflt]; auto. Qed.
Lemma strip_bool t b : strip_dflt t (VBool b) = VBool b.
Proof. induction t; cbn [strip_dflt]; auto. Qed.
Lemma strip_int t z : strip_dflt t (VInt z) = VInt z.
Proof. induction t; cbn [strip_dflt]; auto. Qed.

(* ---------------- unaligned PER: round trip ---------------- *)

Section Uper.
  Variable std : bool.

  Definition cwf_u : cty -> bool := cshape wf_ty_uper.
  Definition cwt_u : cty -> val -> bool := cwt (wt_uper std).

  Definition URT (t : cty) : Prop := forall v bits rest,
    cwf_u t = true -> cwt_u t v = true -> absent false t v = false ->
    cuper false std t v = Some bits ->
    cuper_dec std t (bits ++ rest) = Some (fill_dflt t v, rest).

  Lemma umembers_rt ms : Forall URT ms -> forall vs es rest,
    forallb cwf_u ms = true -> cwt_u (CSeq 0 ms) (VSeq vs) = true ->
    enc_cms (cuper false std) ms vs = Some es ->
    dec_cms_pres (cuper_dec std) ms (cpresence false ms vs) (concat es ++ rest)
      = Some (map2_members fill_dflt ms vs, rest) /\
    length (cpresence false ms vs) = length (filter is_marker ms).
  Proof.
    induction 1 as [|m ms' Hm Hms IH]; intros vs es rest Hwf Hwt He;
      destruct vs as [|v vs']; cbn [enc_cms] in He; try discriminate.
    - apply some_inj in He. subst es. split; reflexivity.
    - cbn [forallb] in Hwf. apply andb_true_iff in Hwf. destruct Hwf as [Hw Hwr].
      unfold cwt_u in Hwt. cbn [cwt] in Hwt. apply andb_true_iff in Hwt. destruct Hwt as [Hwt1 Hwtr].
      destruct (cuper false std m v) as [a|] eqn:Ea; [|discriminate].
      destruct (enc_cms (cuper false std) ms' vs') as [b|] eqn:Eb; [|discriminate].
      apply some_inj in He. subst es.
      destruct (IH vs' b rest Hwr Hwtr Eb) as [IH1 IH2].
      cbn [concat]. rewrite <- app_assoc. cbn [cpresence filter map2_members].
      destruct m as [bt|tg ms0|tg ms0|tg t0|t0|d t0].
      + (* base member *)
        cbn [is_marker app dec_cms_pres].
        rewrite (Hm v a (concat b ++ rest) Hw Hwt1 eq_refl Ea). rewrite IH1.
        split; [reflexivity|exact IH2].
      + cbn [is_marker app dec_cms_pres].
        rewrite (Hm v a (concat b ++ rest) Hw Hwt1 eq_refl Ea). rewrite IH1.
        split; [reflexivity|exact IH2].
      + cbn [is_marker app dec_cms_pres].
        rewrite (Hm v a (concat b ++ rest) Hw Hwt1 eq_refl Ea). rewrite IH1.
        split; [reflexivity|exact IH2].
      + cbn [is_marker app dec_cms_pres].
        rewrite (Hm v a (concat b ++ rest) Hw Hwt1 eq_refl Ea). rewrite IH1.
        split; [reflexivity|exact IH2].
      + (* OPTIONAL *)
        cbn [is_marker]. destruct v as [| | | | | | |  |v0]; cbn [cuper] in Ea; try discriminate.
        * apply some_inj in Ea. subst a. cbn [absent negb app dec_cms_pres fill_dflt]. rewrite IH1.
          split; [reflexivity|cbn [length]; lia].
        * cbn [absent negb app dec_cms_pres].
          pose proof (Hm (VSome v0) a (concat b ++ rest) Hw Hwt1 eq_refl Ea) as Hd.
          cbn [cuper_dec fill_dflt] in Hd.
          destruct (cuper_dec std t0 (a ++ concat b ++ rest)) as [[v1 r1]|]; [|discriminate].
          apply some_inj in Hd. injection Hd as -> ->. rewrite IH1.
          split; [reflexivity|cbn [length]; lia].
      + (* DEFAULT *)
        cbn [is_marker]. destruct v as [| | | | | | |  |v0]; cbn [cuper] in Ea; try discriminate.
        * apply some_inj in Ea. subst a. cbn [absent negb app dec_cms_pres fill_dflt]. rewrite IH1.
          split; [reflexivity|cbn [length]; lia].
        * cbn [absent]. destruct (dflt_eqb false v0 d) eqn:Ed.
          -- apply some_inj in Ea. subst a. cbn [negb app dec_cms_pres fill_dflt]. rewrite IH1.
             (* the stored value IS the default: what comes back is the default *)
             split; [|cbn [length]; lia].
             destruct v0, d; try discriminate; cbn [dflt_eqb andb] in Ed.
             ++ rewrite andb_false_r in Ed. apply eqb_prop in Ed. subst. rewrite fill_bool. reflexivity.
             ++ apply Z.eqb_eq in Ed. subst. rewrite fill_int. reflexivity.
          -- cbn [negb app dec_cms_pres].
             assert (Habs : absent false (CDef d t0) (VSome v0) = false) by (cbn [absent]; exact Ed).
             assert (Ea' : cuper false std (CDef d t0) (VSome v0) = Some a) by (cbn [cuper]; rewrite Ed; exact Ea).
             pose proof (Hm (VSome v0) a (concat b ++ rest) Hw Hwt1 Habs Ea') as Hd.
             cbn [cuper_dec fill_dflt] in Hd.
             destruct (cuper_dec std t0 (a ++ concat b ++ rest)) as [[v1 r1]|]; [|discriminate].
             apply some_inj in Hd. injection Hd as -> ->. rewrite IH1.
             split; [reflexivity|cbn [length]; lia].
  Qed.

  Theorem cuper_decodes_all t : URT t.
  Proof.
    induction t using cty_ind'; intros v bits rest Hwf Hwt Habs Hd.
    - (* base *)
      cbn [cuper] in Hd. cbn [cuper_dec]. rewrite fill_base.
      apply uper_roundtrip_in_stream; assumption.
    - (* SEQUENCE *)
      destruct v; try discriminate. cbn [cuper] in Hd.
      destruct (enc_cms (cuper false std) ms vs) as [es|] eqn:Ee; [|discriminate].
      apply some_inj in Hd. subst bits.
      destruct (umembers_rt ms H vs es rest Hwf Hwt Ee) as [H1 H2].
      cbn [cuper_dec fill_dflt]. rewrite <- app_assoc. rewrite <- H2. rewrite take_bits_app.
      rewrite H1. reflexivity.
    - (* SET: no codec *)
      discriminate.
    - (* EXPLICIT tag: invisible *)
      cbn [cuper] in Hd. cbn [cuper_dec fill_dflt].
      unfold cwf_u in Hwf. cbn [cshape] in Hwf. apply andb_true_iff in Hwf. destruct Hwf as [Hwf Hnm].
      apply IHt; try assumption.
      unfold not_marker in Hnm. apply negb_true_iff in Hnm. destruct t; try discriminate; reflexivity.
    - (* OPTIONAL, present *)
      destruct v; try discriminate. cbn [cuper] in Hd. cbn [cuper_dec fill_dflt].
      unfold cwf_u in Hwf. cbn [cshape] in Hwf. apply andb_true_iff in Hwf. destruct Hwf as [Hwf Hnm].
      rewrite (IHt v bits rest Hwf Hwt); [reflexivity| |exact Hd].
      unfold not_marker in Hnm. apply negb_true_iff in Hnm. destruct t; try discriminate; reflexivity.
    - (* DEFAULT, stored and different from the default *)
      destruct v; try discriminate. cbn [absent] in Habs. cbn [cuper] in Hd. rewrite Habs in Hd.
      cbn [cuper_dec fill_dflt].
      unfold cwf_u in Hwf. cbn [cshape] in Hwf. apply andb_true_iff in Hwf. destruct Hwf as [Hwf Hnm].
      rewrite (IHt v bits rest Hwf Hwt); [reflexivity| |exact Hd].
      unfold not_marker in Hnm. apply negb_true_iff in Hnm. destruct t; try discriminate; reflexivity.
  Qed.
End Uper.

(* a PDU: SEQUENCE at the top (or a base type) — never absent *)
Theorem cuper_roundtrip_in_stream std t v bits rest :
  cwf_u t = true -> is_marker t = false -> cwt_u std t v = true ->
  cuper false std t v = Some bits ->
  cuper_dec std t (bits ++ rest) = Some (fill_dflt t v, rest).
Proof.
  intros Hwf Hm Hwt Hd. apply cuper_decodes_all; try assumption.
  destruct t; try discriminate; reflexivity.
Qed.

(* ---------------- OER: round trip ---------------- *)

Definition cwf_o : cty -> bool := cshape (fun b => wf_ty_oer b && not_opt b).
Definition cwt_o : cty -> val -> bool := cwt wt_oer.

Definition ORT (t : cty) : Prop := forall v bs rest,
  cwf_o t = true -> cwt_o t v = true -> absent false t v = false ->
  coer false t v = Some bs ->
  coer_dec t (bs ++ rest) = Some (fill_dflt t v, rest).

Lemma omembers_rt ms : Forall ORT ms -> forall vs es rest,
  forallb cwf_o ms = true -> cwt_o (CSeq 0 ms) (VSeq vs) = true ->
  enc_cms (coer false) ms vs = Some es ->
  dec_cms_pres coer_dec ms (cpresence false ms vs) (concat es ++ rest)
    = Some (map2_members fill_dflt ms vs, rest) /\
  length (cpresence false ms vs) = length (filter is_marker ms).
Proof.
  induction 1 as [|m ms' Hm Hms IH]; intros vs es rest Hwf Hwt He;
    destruct vs as [|v vs']; cbn [enc_cms] in He; try discriminate.
  - apply some_inj in He. subst es. split; reflexivity.
  - cbn [forallb] in Hwf. apply andb_true_iff in Hwf. destruct Hwf as [Hw Hwr].
    unfold cwt_o in Hwt. cbn [cwt] in Hwt. apply andb_true_iff in Hwt. destruct Hwt as [Hwt1 Hwtr].
    destruct (coer false m v) as [a|] eqn:Ea; [|discriminate].
    destruct (enc_cms (coer false) ms' vs') as [b|] eqn:Eb; [|discriminate].
    apply some_inj in He. subst es.
    destruct (IH vs' b rest Hwr Hwtr Eb) as [IH1 IH2].
    cbn [concat]. rewrite <- app_assoc. cbn [cpresence filter map2_members].
    destruct m as [bt|tg ms0|tg ms0|tg t0|t0|d t0].
    + cbn [is_marker app dec_cms_pres].
      rewrite (Hm v a (concat b ++ rest) Hw Hwt1 eq_refl Ea). rewrite IH1.
      split; [reflexivity|exact IH2].
    + cbn [is_marker app dec_cms_pres].
      rewrite (Hm v a (concat b ++ rest) Hw Hwt1 eq_refl Ea). rewrite IH1.
      split; [reflexivity|exact IH2].
    + cbn [is_marker app dec_cms_pres].
      rewrite (Hm v a (concat b ++ rest) Hw Hwt1 eq_refl Ea). rewrite IH1.
      split; [reflexivity|exact IH2].
    + cbn [is_marker app dec_cms_pres].
      rewrite (Hm v a (concat b ++ rest) Hw Hwt1 eq_refl Ea). rewrite IH1.
      split; [reflexivity|exact IH2].
    + cbn [is_marker]. destruct v as [| | | | | | |  |v0]; cbn [coer] in Ea; try discriminate.
      * apply some_inj in Ea. subst a. cbn [absent negb app dec_cms_pres fill_dflt]. rewrite IH1.
        split; [reflexivity|cbn [length]; lia].
      * cbn [absent negb app dec_cms_pres].
        pose proof (Hm (VSome v0) a (concat b ++ rest) Hw Hwt1 eq_refl Ea) as Hd.
        cbn [coer_dec fill_dflt] in Hd.
        destruct (coer_dec t0 (a ++ concat b ++ rest)) as [[v1 r1]|]; [|discriminate].
        apply some_inj in Hd. injection Hd as -> ->. rewrite IH1.
        split; [reflexivity|cbn [length]; lia].
    + cbn [is_marker]. destruct v as [| | | | | | |  |v0]; cbn [coer] in Ea; try discriminate.
      * apply some_inj in Ea. subst a. cbn [absent negb app dec_cms_pres fill_dflt]. rewrite IH1.
        split; [reflexivity|cbn [length]; lia].
      * cbn [absent]. destruct (dflt_eqb false v0 d) eqn:Ed.
        -- apply some_inj in Ea. subst a. cbn [negb app dec_cms_pres fill_dflt]. rewrite IH1.
           split; [|cbn [length]; lia].
           destruct v0, d; try discriminate; cbn [dflt_eqb andb] in Ed.
           ++ rewrite andb_false_r in Ed. apply eqb_prop in Ed. subst. rewrite fill_bool. reflexivity.
           ++ apply Z.eqb_eq in Ed. subst. rewrite fill_int. reflexivity.
        -- cbn [negb app dec_cms_pres].
           assert (Habs : absent false (CDef d t0) (VSome v0) = false) by (cbn [absent]; exact Ed).
           assert (Ea' : coer false (CDef d t0) (VSome v0) = Some a) by (cbn [coer]; rewrite Ed; exact Ea).
           pose proof (Hm (VSome v0) a (concat b ++ rest) Hw Hwt1 Habs Ea') as Hd.
           cbn [coer_dec fill_dflt] in Hd.
           destruct (coer_dec t0 (a ++ concat b ++ rest)) as [[v1 r1]|]; [|discriminate].
           apply some_inj in Hd. injection Hd as -> ->. rewrite IH1.
           split; [reflexivity|cbn [length]; lia].
Qed.

Theorem coer_decodes_all t : ORT t.
Proof.
  induction t using cty_ind'; intros v bs rest Hwf Hwt Habs Hd.
  - cbn [coer] in Hd. cbn [coer_dec]. rewrite fill_base.
    unfold cwf_o in Hwf. cbn [cshape] in Hwf. apply andb_true_iff in Hwf. destruct Hwf as [Hwf Hno].
    apply oer_roundtrip_in_stream; assumption.
  - destruct v; try discriminate. cbn [coer] in Hd.
    destruct (enc_cms (coer false) ms vs) as [es|] eqn:Ee; [|discriminate].
    apply some_inj in Hd. subst bs.
    destruct (omembers_rt ms H vs es rest Hwf Hwt Ee) as [H1 H2].
    cbn [coer_dec fill_dflt]. rewrite <- app_assoc. rewrite <- H2.
    destruct (oer_preamble_inverse (cpresence false ms vs) (concat es ++ rest)) as (Ht & x & Hx).
    rewrite Ht, Hx, H1. reflexivity.
  - discriminate.
  - cbn [coer] in Hd. cbn [coer_dec fill_dflt].
    unfold cwf_o in Hwf. cbn [cshape] in Hwf. apply andb_true_iff in Hwf. destruct Hwf as [Hwf Hnm].
    apply IHt; try assumption.
    unfold not_marker in Hnm. apply negb_true_iff in Hnm. destruct t; try discriminate; reflexivity.
  - destruct v; try discriminate. cbn [coer] in Hd. cbn [coer_dec fill_dflt].
    unfold cwf_o in Hwf. cbn [cshape] in Hwf. apply andb_true_iff in Hwf. destruct Hwf as [Hwf Hnm].
    rewrite (IHt v bs rest Hwf Hwt); [reflexivity| |exact Hd].
    unfold not_marker in Hnm. apply negb_true_iff in Hnm. destruct t; try discriminate; reflexivity.
  - destruct v; try discriminate. cbn [absent] in Habs. cbn [coer] in Hd. rewrite Habs in Hd.
    cbn [coer_dec fill_dflt].
    unfold cwf_o in Hwf. cbn [cshape] in Hwf. apply andb_true_iff in Hwf. destruct Hwf as [Hwf Hnm].
    rewrite (IHt v bs rest Hwf Hwt); [reflexivity| |exact Hd].
    unfold not_marker in Hnm. apply negb_true_iff in Hnm. destruct t; try discriminate; reflexivity.
Qed.

Theorem coer_roundtrip_in_stream t v bs rest :
  cwf_o t = true -> is_marker t = false -> cwt_o t v = true ->
  coer false t v = Some bs ->
  coer_dec t (bs ++ rest) = Some (fill_dflt t v, rest).
Proof.
  intros Hwf Hm Hwt Hd. apply coer_decodes_all; try assumption.
  destruct t; try discriminate; reflexivity.
Qed.

(* ---------------- DER written, BER read ---------------- *)

Definition tag_okb (tg : Z) : bool := (0 <? tg) && (tg / 4 <? two30).

Fixpoint cset_distinct (ms : list cty) : bool :=
  match ms with
  | [] => true
  | m :: r => forallb (fun b => disjointb (cfirst_tags m) (cfirst_tags b)) r && cset_distinct r
  end.

Fixpoint crun_tags (ms : list cty) : list Z :=
  match ms with
  | [] => []
  | x :: r => cfirst_tags x ++ (if is_marker x then crun_tags r else [])
  end.

Fixpoint crun_distinct (ms : list cty) : bool :=
  match ms with
  | [] => true
  | m :: ms' => (if is_marker m then disjointb (cfirst_tags m) (crun_tags ms') else true) && crun_distinct ms'
  end.

Definition has_tag (m : cty) : bool := match cfirst_tags m with [] => false | _ => true end.

(* X.680 distinctness: SEQUENCE as in the base layer; SET: the tags of all members are distinct *)
Fixpoint cwf_d (t : cty) : bool :=
  match t with
  | CBase b => wf_ty b && not_opt b
  | CSeq tg ms => tag_okb tg && forallb cwf_d ms && crun_distinct ms
  | CSet tg ms => tag_okb tg && forallb cwf_d ms && cset_distinct ms && forallb has_tag ms
  | CTag tg t' => tag_okb tg && cwf_d t' && not_marker t'
  | COpt t' | CDef _ t' => cwf_d t' && not_marker t'
  end.

Definition cwt_d : cty -> val -> bool := cwt wt.

Lemma tag_okb_good tg : tag_okb tg = true -> tag_good tg.
Proof. unfold tag_okb. apply wf_tag_good. Qed.

Lemma not_marker_absent t v : is_marker t = false -> absent false t v = false.
Proof. destruct t; try discriminate; reflexivity. Qed.

(* a non-marker type's encoding is a TLV whose tag is one of its first tags *)
Lemma cder_head t v bs : cwf_d t = true -> is_marker t = false -> cder false t v = Some bs ->
  exists tg c content, bs = tlv tg c content /\ tag_good tg /\ In tg (cfirst_tags t).
Proof.
  intros Hwf Hm Hd. destruct t as [b|tg ms|tg ms|tg t'|t'|d t']; try discriminate; cbn [cwf_d] in Hwf; cbn [cfirst_tags].
  - apply andb_true_iff in Hwf. destruct Hwf as [Hw Hno]. cbn [cder] in Hd.
    exact (der_head b v bs Hw Hno Hd).
  - destruct v; try discriminate. cbn [cder] in Hd.
    destruct (enc_cms (cder false) ms vs); [|discriminate]. apply some_inj in Hd. subst bs.
    apply andb_true_iff in Hwf. destruct Hwf as [Hwf _]. apply andb_true_iff in Hwf. destruct Hwf as [Hwf _].
    eauto 7 using tag_okb_good, in_eq.
  - destruct v; try discriminate. cbn [cder] in Hd.
    destruct (enc_cms (cder false) ms vs); [|discriminate]. apply some_inj in Hd. subst bs.
    apply andb_true_iff in Hwf. destruct Hwf as [Hwf _]. apply andb_true_iff in Hwf. destruct Hwf as [Hwf _].
    apply andb_true_iff in Hwf. destruct Hwf as [Hwf _].
    eauto 7 using tag_okb_good, in_eq.
  - cbn [cder] in Hd. destruct (cder false t' v); [|discriminate]. apply some_inj in Hd. subst bs.
    apply andb_true_iff in Hwf. destruct Hwf as [Hwf _]. apply andb_true_iff in Hwf. destruct Hwf as [Hwf _].
    eauto 7 using tag_okb_good, in_eq.
Qed.

(* a member: nothing (absent, or equal to its DEFAULT), or a TLV with one of its tags *)
Lemma cmember_head m v e : cwf_d m = true -> cder false m v = Some e ->
  (e = [] /\ absent false m v = true) \/
  (absent false m v = false /\ exists tg c content, e = tlv tg c content /\ tag_good tg /\ In tg (cfirst_tags m)).
Proof.
  intros Hwf Hd. destruct (is_marker m) eqn:Em.
  - destruct m as [b|tg ms|tg ms|tg t'|t'|d t']; try discriminate; cbn [cwf_d] in Hwf;
      apply andb_true_iff in Hwf; destruct Hwf as [Hwf Hnm]; unfold not_marker in Hnm; apply negb_true_iff in Hnm.
    + destruct v; cbn [cder] in Hd; try discriminate.
      * apply some_inj in Hd. subst e. left. split; reflexivity.
      * right. split; [reflexivity|]. cbn [cfirst_tags]. exact (cder_head t' v e Hwf Hnm Hd).
    + destruct v; cbn [cder] in Hd; try discriminate.
      * apply some_inj in Hd. subst e. left. split; reflexivity.
      * cbn [absent]. destruct (dflt_eqb false v d) eqn:Ed.
        -- apply some_inj in Hd. subst e. left. split; reflexivity.
        -- right. split; [reflexivity|]. cbn [cfirst_tags]. exact (cder_head t' v e Hwf Hnm Hd).
  - right. split; [apply not_marker_absent; exact Em|]. exact (cder_head m v e Hwf Em Hd).
Qed.

Definition copt_ok (t : cty) (v : val) (rest : list Z) : Prop :=
  absent false t v = true ->
  match peek_tag rest with
  | Some tg => tag_in tg (cfirst_tags t) = false
  | None => True
  end.

Definition CRT (t : cty) : Prop := forall v bs rest,
  cwf_d t = true -> cwt_d t v = true -> cder false t v = Some bs -> zlen bs <= rssize_max ->
  copt_ok t v rest -> cber_dec t (bs ++ rest) = Some (strip_dflt t v, rest).

(* ---- SEQUENCE members ---- *)

Lemma cmembers_head ms : forall vs es rest,
  forallb cwf_d ms = true -> enc_cms (cder false) ms vs = Some es ->
  match peek_tag (concat es ++ rest) with
  | Some tg => concat es = [] \/ In tg (crun_tags ms)
  | None => True
  end.
Proof.
  induction ms as [|m ms' IH]; intros vs es rest Hwf He; destruct vs as [|v vs']; cbn [enc_cms] in He; try discriminate.
  - apply some_inj in He. subst es. cbn [concat app]. destruct (peek_tag rest); auto.
  - cbn [forallb] in Hwf. apply andb_true_iff in Hwf. destruct Hwf as [Hw Hwr].
    destruct (cder false m v) as [a|] eqn:Ea; [|discriminate].
    destruct (enc_cms (cder false) ms' vs') as [b|] eqn:Eb; [|discriminate]. apply some_inj in He. subst es.
    cbn [concat crun_tags].
    destruct (cmember_head m v a Hw Ea) as [[-> Habs]|[Habs (tg & c & content & -> & Hg & Hin)]].
    + cbn [app]. specialize (IH vs' b rest Hwr Eb).
      destruct (peek_tag (concat b ++ rest)); auto. destruct IH as [->|Hin]; [left; reflexivity|].
      right. apply in_or_app. right.
      destruct m; try discriminate; exact Hin.
    + rewrite <- app_assoc. rewrite peek_tag_tlv by exact Hg.
      right. apply in_or_app. left. exact Hin.
Qed.

Lemma cmembers_rt ms : Forall CRT ms -> forall vs es,
  forallb cwf_d ms = true -> crun_distinct ms = true ->
  cwt_d (CSeq 0 ms) (VSeq vs) = true -> enc_cms (cder false) ms vs = Some es -> zlen (concat es) <= rssize_max ->
  dec_cms cber_dec ms (concat es) = Some (map2_members strip_dflt ms vs, []).
Proof.
  induction 1 as [|m ms' Hm Hms IH]; intros vs es Hwf Hrd Hwt He Hl;
    destruct vs as [|v vs']; cbn [enc_cms] in He; try discriminate.
  - apply some_inj in He. subst es. reflexivity.
  - cbn [forallb] in Hwf. apply andb_true_iff in Hwf. destruct Hwf as [Hw Hwr].
    cbn [crun_distinct] in Hrd. apply andb_true_iff in Hrd. destruct Hrd as [Hd1 Hdr].
    unfold cwt_d in Hwt. cbn [cwt] in Hwt. apply andb_true_iff in Hwt. destruct Hwt as [Hwt1 Hwtr].
    destruct (cder false m v) as [a|] eqn:Ea; [|discriminate].
    destruct (enc_cms (cder false) ms' vs') as [b|] eqn:Eb; [|discriminate]. apply some_inj in He. subst es.
    cbn [concat] in *. rewrite zlen_app in Hl. pose proof (zlen_nonneg a). pose proof (zlen_nonneg (concat b)).
    cbn [dec_cms map2_members].
    rewrite (Hm v a (concat b) Hw Hwt1 Ea ltac:(lia)).
    + rewrite (IH vs' b Hwr Hdr Hwtr Eb ltac:(lia)). reflexivity.
    + intros Habs.
      pose proof (cmembers_head ms' vs' b [] Hwr Eb) as Hh. rewrite app_nil_r in Hh.
      destruct (peek_tag (concat b)) as [tg|] eqn:Ep; [|exact I].
      destruct Hh as [E0|Hin]; [rewrite E0 in Ep; rewrite peek_tag_nil in Ep; discriminate|].
      assert (Hmk : is_marker m = true).
      { destruct (is_marker m) eqn:Em; [reflexivity|]. rewrite (not_marker_absent m v Em) in Habs. discriminate. }
      rewrite Hmk in Hd1.
      destruct (tag_in tg (cfirst_tags m)) eqn:Et; [|reflexivity].
      apply tag_in_In in Et. exfalso. eapply disjointb_spec; eauto.
Qed.

(* ---- SET: the loop of SET_decode_ber over member encodings in ANY order ---- *)

Definition dm : cty := CBase (TNull 0).

Lemma enc_cms_nth {B} (enc : cty -> val -> option (list B)) ms : forall vs es,
  enc_cms enc ms vs = Some es ->
  length vs = length ms /\ length es = length ms /\
  forall i, (i < length ms)%nat -> enc (nth i ms dm) (nth i vs VNone) = Some (nth i es []).
Proof.
  induction ms as [|m ms' IH]; intros vs es He; destruct vs as [|v vs']; cbn [enc_cms] in He; try discriminate.
  - apply some_inj in He. subst es. repeat split; auto. intros i Hi. cbn in Hi. lia.
  - destruct (enc m v) as [a|] eqn:Ea; [|discriminate].
    destruct (enc_cms enc ms' vs') as [b|] eqn:Eb; [|discriminate]. apply some_inj in He. subst es.
    destruct (IH vs' b Eb) as (H1 & H2 & H3). cbn [length]. repeat split; try lia.
    intros i Hi. destruct i; cbn [nth]; [exact Ea|]. apply H3. lia.
Qed.

Lemma cwt_nth bwt ms : forall vs tg, cwt bwt (CSet tg ms) (VSeq vs) = true ->
  forall i, (i < length ms)%nat -> cwt bwt (nth i ms dm) (nth i vs VNone) = true.
Proof.
  induction ms as [|m ms' IH]; intros vs tg H i Hi; [cbn in Hi; lia|].
  destruct vs as [|v vs']; cbn [cwt] in H; [discriminate|].
  apply andb_true_iff in H. destruct H as [H1 H2].
  destruct i; cbn [nth]; [exact H1|]. apply (IH vs' tg); [exact H2|cbn in Hi; lia].
Qed.

Lemma forallb_nth {A} (f : A -> bool) l d i : forallb f l = true -> (i < length l)%nat -> f (nth i l d) = true.
Proof. intros H Hi. rewrite forallb_forall in H. apply H. apply nth_In. exact Hi. Qed.

Lemma dec_by_tag_find {St} (dec : cty -> St -> option (val * St)) tg s : forall ms k i,
  cset_distinct ms = true -> (i < length ms)%nat -> In tg (cfirst_tags (nth i ms dm)) ->
  dec_by_tag dec tg s ms k = Some ((k + i)%nat, dec (nth i ms dm) s).
Proof.
  induction ms as [|m0 r IH]; intros k i Hd Hi Hin; [cbn in Hi; lia|].
  cbn [cset_distinct] in Hd. apply andb_true_iff in Hd. destruct Hd as [Hd0 Hdr].
  cbn [dec_by_tag]. destruct i as [|j]; cbn [nth] in *.
  - apply tag_in_In in Hin. rewrite Hin. replace (k + 0)%nat with k by lia. reflexivity.
  - destruct (tag_in tg (cfirst_tags m0)) eqn:Et.
    + exfalso. apply tag_in_In in Et.
      assert (Hd' : disjointb (cfirst_tags m0) (cfirst_tags (nth j r dm)) = true).
      { rewrite forallb_forall in Hd0. apply Hd0. apply nth_In. cbn in Hi. lia. }
      eapply disjointb_spec; eauto.
    + rewrite (IH (S k) j Hdr ltac:(cbn in Hi; lia) Hin). replace (S k + j)%nat with (k + S j)%nat by lia. reflexivity.
Qed.

Lemma set_nth_length {A} (x : A) : forall l i, length (set_nth i x l) = length l.
Proof. induction l as [|y tl IH]; intros i; destruct i; cbn [set_nth length]; auto. Qed.

Lemma set_nth_eq {A} (x d : A) : forall l i, (i < length l)%nat -> nth i (set_nth i x l) d = x.
Proof. induction l as [|y tl IH]; intros i Hi; [cbn in Hi; lia|]. destruct i; cbn [set_nth nth]; [reflexivity|]. apply IH. cbn in Hi. lia. Qed.

Lemma set_nth_neq {A} (x d : A) : forall l i j, i <> j -> nth j (set_nth i x l) d = nth j l d.
Proof.
  induction l as [|y tl IH]; intros i j Hij; [destruct i; reflexivity|].
  destruct i, j; cbn [set_nth nth]; try reflexivity; try lia. apply IH. lia.
Qed.

Lemma tlv_nonempty tg c content : tag_good tg -> tlv tg c content <> [].
Proof.
  intros Hg E. pose proof (tlv_not_at_end tg c content [] Hg) as H. rewrite E in H. discriminate.
Qed.

Lemma absent_strip m v : absent false m v = true -> is_marker m = true /\ strip_dflt m v = VNone.
Proof.
  destruct m; cbn [absent]; try discriminate; destruct v; try discriminate; intros H; split; try reflexivity.
  cbn [strip_dflt]. rewrite H. reflexivity.
Qed.

Section SetLoop.
  Variable ms : list cty.
  Variable vs : list val.
  Variable es : list (list Z).
  Hypothesis Hcrt : Forall CRT ms.
  Hypothesis Hwf : forallb cwf_d ms = true.
  Hypothesis Hdis : cset_distinct ms = true.
  Hypothesis Hwt : cwt_d (CSet 0 ms) (VSeq vs) = true.
  Hypothesis Hes : enc_cms (cder false) ms vs = Some es.

  Let mi (i : nat) := nth i ms dm.
  Let vi (i : nat) := nth i vs VNone.
  Let ei (i : nat) : list Z := nth i es [].

  Definition stepf (s : list (option val)) (i : nat) : list (option val) :=
    match ei i with
    | [] => s
    | _ => set_nth i (Some (strip_dflt (mi i) (vi i))) s
    end.
  Definition upd (idx : list nat) (s : list (option val)) := fold_left stepf idx s.

  Lemma stepf_length s i : length (stepf s i) = length s.
  Proof. unfold stepf. destruct (ei i); [reflexivity|apply set_nth_length]. Qed.

  Lemma upd_length idx : forall s, length (upd idx s) = length s.
  Proof. induction idx as [|i idx IH]; intros s; cbn; [reflexivity|]. unfold upd in IH. rewrite IH. apply stepf_length. Qed.

  Lemma set_loop_ok : forall idx fuel slots,
    NoDup idx -> (forall i, In i idx -> (i < length ms)%nat /\ nth i slots None = None) ->
    length slots = length ms ->
    zlen (concat (map ei idx)) <= rssize_max -> (length (concat (map ei idx)) < fuel)%nat ->
    set_loop cber_dec ms fuel slots (concat (map ei idx)) = Some (upd idx slots, []).
  Proof.
    induction idx as [|i idx IH]; intros fuel slots Hnd Hin Hlen Hz Hf.
    - destruct fuel; [cbn in Hf; lia|]. reflexivity.
    - inversion Hnd as [|i' idx' Hni Hnd']; subst.
      destruct (Hin i (or_introl eq_refl)) as [Hi Hsl].
      destruct (enc_cms_nth (cder false) ms vs es Hes) as (_ & _ & Henc).
      pose proof (Henc i Hi) as Hei. fold (mi i) (vi i) (ei i) in Hei.
      pose proof (forallb_nth cwf_d ms dm i Hwf Hi) as Hwfi. fold (mi i) in Hwfi.
      cbn [map concat] in *. cbn [upd fold_left]. fold (upd idx (stepf slots i)).
      assert (Hin' : forall j, In j idx -> (j < length ms)%nat /\ nth j (stepf slots i) None = None).
      { intros j Hj. destruct (Hin j (or_intror Hj)) as [Hj1 Hj2]. split; [exact Hj1|].
        unfold stepf. destruct (ei i); [exact Hj2|]. rewrite set_nth_neq; [exact Hj2|]. intros ->. contradiction. }
      destruct (ei i) as [|b0 e0] eqn:Eei.
      + cbn [app] in *.
        assert (Hst : stepf slots i = slots) by (unfold stepf; rewrite Eei; reflexivity).
        rewrite Hst. apply IH; auto. intros j Hj. apply Hin. right. exact Hj.
      + destruct (cmember_head (mi i) (vi i) (b0 :: e0) Hwfi Hei) as [[E0 _]|[Habs (tg & c & content & He & Hg & Hint)]];
          [discriminate|].
        rewrite zlen_app in Hz. pose proof (zlen_nonneg (concat (map ei idx))). pose proof (zlen_nonneg (b0 :: e0)).
        destruct fuel as [|f]; [cbn in Hf; lia|].
        cbn [set_loop]. rewrite He.
        rewrite tlv_not_at_end by exact Hg. rewrite peek_tag_tlv by exact Hg.
        rewrite (dec_by_tag_find cber_dec tg _ ms O i Hdis Hi Hint). cbn [Nat.add].
        rewrite Hsl. fold (mi i). rewrite <- He.
        assert (Hc : CRT (mi i)) by (apply Forall_nth; [exact Hcrt|exact Hi]).
        rewrite (Hc (vi i) (b0 :: e0) (concat (map ei idx)) Hwfi (cwt_nth wt ms vs 0 Hwt i Hi) Hei ltac:(lia)).
        * assert (Hst : stepf slots i = set_nth i (Some (strip_dflt (mi i) (vi i))) slots).
          { unfold stepf. rewrite Eei. reflexivity. }
          rewrite <- Hst. apply IH; auto.
          -- rewrite stepf_length. exact Hlen.
          -- lia.
          -- rewrite app_length in Hf. cbn [length] in Hf. lia.
        * intros Ha. rewrite Habs in Ha. discriminate.
  Qed.

  (* the slots when every member has been looked at *)
  Fixpoint expected (ms : list cty) (vs : list val) (es : list (list Z)) : list (option val) :=
    match ms, vs, es with
    | m :: ms', v :: vs', e :: es' =>
        (match e with [] => None | _ => Some (strip_dflt m v) end) :: expected ms' vs' es'
    | _, _, _ => []
    end.

  Lemma upd_nth idx : forall s j, NoDup idx -> (forall i, In i idx -> (i < length s)%nat) ->
    nth j (upd idx s) None =
    if in_dec Nat.eq_dec j idx
    then match ei j with [] => nth j s None | _ => Some (strip_dflt (mi j) (vi j)) end
    else nth j s None.
  Proof.
    induction idx as [|i idx IH]; intros s j Hnd Hlt; [reflexivity|].
    inversion Hnd as [|i' idx' Hni Hnd']; subst.
    cbn [upd fold_left]. fold (upd idx (stepf s i)).
    rewrite IH; [|exact Hnd'|intros k Hk; rewrite stepf_length; apply Hlt; right; exact Hk].
    destruct (Nat.eq_dec i j) as [->|Hne].
    - destruct (in_dec Nat.eq_dec j idx) as [Hj|_]; [contradiction|].
      destruct (in_dec Nat.eq_dec j (j :: idx)) as [_|Hn]; [|exfalso; apply Hn; left; reflexivity].
      unfold stepf. destruct (ei j) eqn:E; [reflexivity|]. apply set_nth_eq. apply Hlt. left. reflexivity.
    - assert (Hs : nth j (stepf s i) None = nth j s None).
      { unfold stepf. destruct (ei i); [reflexivity|]. apply set_nth_neq. exact Hne. }
      rewrite Hs.
      destruct (in_dec Nat.eq_dec j idx) as [Hj|Hj]; destruct (in_dec Nat.eq_dec j (i :: idx)) as [Hj'|Hj']; try reflexivity.
      + exfalso. apply Hj'. right. exact Hj.
      + exfalso. destruct Hj' as [E|Hj']; [exact (Hne E)|exact (Hj Hj')].
  Qed.
End SetLoop.

Lemma expected_nth : forall ms vs es j, length vs = length ms -> length es = length ms -> (j < length ms)%nat ->
  nth j (expected ms vs es) None =
  match nth j es [] with [] => None | _ => Some (strip_dflt (nth j ms dm) (nth j vs VNone)) end.
Proof.
  induction ms as [|m ms' IH]; intros vs es j Hv He Hj; [cbn in Hj; lia|].
  destruct vs as [|v vs']; [discriminate|]. destruct es as [|e es']; [discriminate|].
  cbn [expected]. destruct j; cbn [nth]; [reflexivity|]. apply IH; cbn in *; lia.
Qed.

Lemma expected_length : forall ms vs es, length vs = length ms -> length es = length ms ->
  length (expected ms vs es) = length ms.
Proof.
  induction ms as [|m ms' IH]; intros vs es Hv He; [reflexivity|].
  destruct vs as [|v vs']; [discriminate|]. destruct es as [|e es']; [discriminate|].
  cbn [expected length]. rewrite IH; cbn in *; lia.
Qed.

Lemma expected_finish : forall ms vs es, forallb cwf_d ms = true -> enc_cms (cder false) ms vs = Some es ->
  set_finish ms (expected ms vs es) = Some (map2_members strip_dflt ms vs).
Proof.
  induction ms as [|m ms' IH]; intros vs es Hwf He; destruct vs as [|v vs']; cbn [enc_cms] in He; try discriminate.
  - apply some_inj in He. subst es. reflexivity.
  - cbn [forallb] in Hwf. apply andb_true_iff in Hwf. destruct Hwf as [Hw Hwr].
    destruct (cder false m v) as [a|] eqn:Ea; [|discriminate].
    destruct (enc_cms (cder false) ms' vs') as [b|] eqn:Eb; [|discriminate]. apply some_inj in He. subst es.
    cbn [expected set_finish map2_members]. rewrite (IH vs' b Hwr Eb).
    destruct (cmember_head m v a Hw Ea) as [[-> Habs]|[Habs (tg & c & content & -> & Hg & Hin)]].
    + destruct (absent_strip m v Habs) as [Hmk Hst]. rewrite Hmk, Hst. reflexivity.
    + destruct (tlv tg c content) eqn:E; [exfalso; exact (tlv_nonempty tg c content Hg E)|]. reflexivity.
Qed.

Lemma nth_map_none {A} (l : list A) j : nth j (map (fun _ => @None val) l) None = None.
Proof. revert j. induction l as [|a tl IH]; intros j; destruct j; cbn; auto. Qed.

(* any order of the members that mentions every member once is read back *)
Lemma cset_any_order ms vs es idx :
  Forall CRT ms -> forallb cwf_d ms = true -> cset_distinct ms = true ->
  cwt_d (CSet 0 ms) (VSeq vs) = true -> enc_cms (cder false) ms vs = Some es ->
  NoDup idx -> (forall i, In i idx <-> (i < length ms)%nat) ->
  zlen (concat (map (fun i => nth i es []) idx)) <= rssize_max ->
  let c := concat (map (fun i => nth i es []) idx) in
  match set_loop cber_dec ms (S (length c)) (map (fun _ => None) ms) c with
  | Some (slots, r) => match set_finish ms slots with Some vs' => Some (vs', r) | None => None end
  | None => None
  end = Some (map2_members strip_dflt ms vs, []).
Proof.
  intros Hcrt Hwf Hdis Hwt Hes Hnd Hcov Hz c.
  destruct (enc_cms_nth (cder false) ms vs es Hes) as (Hlv & Hle & _).
  unfold c. rewrite (set_loop_ok ms vs es Hcrt Hwf Hdis Hwt Hes idx); auto.
  - assert (E : upd ms vs es idx (map (fun _ => None) ms) = expected ms vs es).
    { apply nth_ext with (d := None) (d' := None).
      - rewrite upd_length, map_length, expected_length; auto.
      - intros j Hj. rewrite upd_length, map_length in Hj.
        rewrite upd_nth; [|exact Hnd|intros i Hi; rewrite map_length; apply Hcov; exact Hi].
        rewrite expected_nth by auto. rewrite nth_map_none.
        destruct (in_dec Nat.eq_dec j idx) as [_|Hn]; [reflexivity|]. exfalso. apply Hn. apply Hcov. exact Hj. }
    rewrite E. rewrite (expected_finish ms vs es Hwf Hes). reflexivity.
  - intros i Hi. split; [apply Hcov; exact Hi|apply nth_map_none].
  - apply map_length.
Qed.

(* ---- the order SET_encode_der writes: a list of member indices, each once ---- *)

Lemma insert_keyed_perm {A} (x : Z * A) l : Permutation (insert_keyed x l) (x :: l).
Proof.
  induction l as [|y tl IH]; cbn [insert_keyed]; [reflexivity|].
  destruct (tag_key (fst x) <=? tag_key (fst y)); [reflexivity|].
  rewrite IH. apply perm_swap.
Qed.

Lemma sort_keyed_perm {A} (l : list (Z * A)) : Permutation (sort_keyed l) l.
Proof.
  induction l as [|x tl IH]; cbn; [reflexivity|].
  unfold sort_keyed in IH. rewrite insert_keyed_perm. constructor. exact IH.
Qed.

Lemma insert_keyed_map {A B} (f : A -> B) (x : Z * A) l :
  insert_keyed (fst x, f (snd x)) (map (fun p => (fst p, f (snd p))) l) =
  map (fun p => (fst p, f (snd p))) (insert_keyed x l).
Proof.
  induction l as [|y tl IH]; cbn [insert_keyed map fst]; [reflexivity|].
  destruct (tag_key (fst x) <=? tag_key (fst y)); cbn [map]; [reflexivity|]. rewrite IH. reflexivity.
Qed.

Lemma sort_keyed_map {A B} (f : A -> B) (l : list (Z * A)) :
  sort_keyed (map (fun p => (fst p, f (snd p))) l) = map (fun p => (fst p, f (snd p))) (sort_keyed l).
Proof.
  induction l as [|x tl IH]; [reflexivity|].
  cbn [map]. unfold sort_keyed in *. cbn [fold_right]. rewrite IH. apply insert_keyed_map.
Qed.

Lemma combine_map_r {A B C} (f : B -> C) (ks : list A) : forall l,
  combine ks (map f l) = map (fun p => (fst p, f (snd p))) (combine ks l).
Proof. induction ks as [|k ks IH]; intros l; [reflexivity|]. destruct l; cbn; [reflexivity|]. rewrite IH. reflexivity. Qed.

Lemma map_nth_seq {A} (l : list A) d : map (fun i => nth i l d) (seq 0 (length l)) = l.
Proof.
  induction l as [|a tl IH]; [reflexivity|].
  cbn [length seq map nth]. f_equal. rewrite <- seq_shift, map_map. exact IH.
Qed.

Lemma map_snd_combine {A B} (ks : list A) : forall (l : list B), length ks = length l -> map snd (combine ks l) = l.
Proof. induction ks as [|k ks IH]; intros l H; destruct l; try discriminate; cbn; [reflexivity|]. rewrite IH; auto. Qed.

Lemma dyn_tags_length raw ms : forall vs, length vs = length ms -> length (dyn_tags raw ms vs) = length ms.
Proof. induction ms as [|m r IH]; intros vs H; destruct vs; try discriminate; cbn; auto. Qed.

Lemma tag2el_raw_ge ms : forall k, forallb has_tag ms = true -> (length ms <= length (tag2el_raw ms k))%nat.
Proof.
  induction ms as [|m r IH]; intros k H; [cbn; lia|].
  cbn [forallb] in H. apply andb_true_iff in H. destruct H as [Hm Hr].
  cbn [tag2el_raw length]. rewrite app_length, map_length. specialize (IH (S k) Hr).
  unfold has_tag in Hm. destruct (cfirst_tags m); [discriminate|]. cbn [length]. lia.
Qed.

Lemma tag2el_raw_one ms : forall k, forallb has_tag ms = true ->
  length (tag2el_raw ms k) = length ms -> map snd (tag2el_raw ms k) = seq k (length ms).
Proof.
  induction ms as [|m r IH]; intros k H Hl; [reflexivity|].
  cbn [forallb] in H. apply andb_true_iff in H. destruct H as [Hm Hr].
  cbn [tag2el_raw length] in *. rewrite app_length, map_length in Hl.
  pose proof (tag2el_raw_ge r (S k) Hr) as Hge.
  unfold has_tag in Hm. destruct (cfirst_tags m) as [|t1 [|t2 tl]]; [discriminate| |cbn [length] in Hl; lia].
  cbn [length] in Hl. cbn [map app seq snd]. f_equal. apply IH; [exact Hr|lia].
Qed.

Lemma sort_combine_pick {B} (ks : list Z) (es : list (list B)) n : length es = n ->
  map snd (sort_keyed (combine ks es)) =
  map (fun i => nth i es []) (map snd (sort_keyed (combine ks (seq 0 n)))).
Proof.
  intros <-. set (f := fun i => nth i es []).
  assert (E : es = map f (seq 0 (length es))) by (symmetry; apply map_nth_seq).
  rewrite E at 1. rewrite (combine_map_r f), (sort_keyed_map f), !map_map. reflexivity.
Qed.

Lemma set_order_pick {B} raw ms vs (es : list (list B)) :
  length vs = length ms -> length es = length ms -> forallb has_tag ms = true ->
  exists idx, set_order raw ms vs es = map (fun i => nth i es []) idx /\
              NoDup idx /\ (forall i, In i idx <-> (i < length ms)%nat).
Proof.
  intros Hv He Ht. unfold set_order.
  assert (Hcov : forall idx, Permutation idx (seq 0 (length ms)) ->
            NoDup idx /\ (forall i, In i idx <-> (i < length ms)%nat)).
  { intros idx Hp. split.
    - eapply Permutation_NoDup; [symmetry; exact Hp|apply seq_NoDup].
    - intros i. split; intros Hi.
      + apply (Permutation_in _ Hp) in Hi. apply in_seq in Hi. lia.
      + apply (Permutation_in _ (Permutation_sym Hp)). apply in_seq. lia. }
  destruct (Nat.eqb (length (tag2el_raw ms 0)) (length ms)) eqn:E.
  - apply Nat.eqb_eq in E. exists (map snd (tag2el ms)). split; [rewrite map_map; reflexivity|].
    apply Hcov. unfold tag2el. rewrite (Permutation_map snd (sort_keyed_perm (tag2el_raw ms 0))).
    rewrite (tag2el_raw_one ms 0 Ht E). reflexivity.
  - exists (map snd (sort_keyed (combine (dyn_tags raw ms vs) (seq 0 (length ms))))). split.
    + apply sort_combine_pick. exact He.
    + apply Hcov. rewrite (Permutation_map snd (sort_keyed_perm _)).
      rewrite map_snd_combine; [reflexivity|]. rewrite dyn_tags_length, seq_length; auto.
Qed.

(* ---- the main induction ---- *)

Lemma base_opt_ok b v rest : not_opt b = true -> opt_ok b v rest.
Proof. destruct b; try discriminate; intros _; exact I. Qed.

Theorem cder_decodes_all t : CRT t.
Proof.
  induction t using cty_ind'; intros v bs rest Hwf Hwt Hd Hl Hok; cbn [cwf_d] in Hwf.
  - (* base type *)
    apply andb_true_iff in Hwf. destruct Hwf as [Hw Hno]. cbn [cder] in Hd. cbn [cber_dec]. rewrite strip_base.
    exact (der_decodes_all t v bs rest Hw Hwt Hd Hl (base_opt_ok t v rest Hno)).
  - (* SEQUENCE *)
    destruct v; try discriminate. cbn [cder] in Hd.
    destruct (enc_cms (cder false) ms vs) as [es|] eqn:Ee; [|discriminate]. apply some_inj in Hd. subst bs.
    apply andb_true_iff in Hwf. destruct Hwf as [Hwf Hrd]. apply andb_true_iff in Hwf. destruct Hwf as [Htg Hwm].
    pose proof (tlv_length tg true (concat es)).
    cbn [cber_dec strip_dflt]. rewrite in_cons_tlv by (try apply tag_okb_good; auto; lia).
    rewrite (cmembers_rt ms H vs es Hwm Hrd Hwt Ee ltac:(lia)). reflexivity.
  - (* SET *)
    destruct v; try discriminate. cbn [cder] in Hd.
    destruct (enc_cms (cder false) ms vs) as [es|] eqn:Ee; [|discriminate]. apply some_inj in Hd. subst bs.
    apply andb_true_iff in Hwf. destruct Hwf as [Hwf Hht]. apply andb_true_iff in Hwf. destruct Hwf as [Hwf Hds].
    apply andb_true_iff in Hwf. destruct Hwf as [Htg Hwm].
    destruct (enc_cms_nth (cder false) ms vs es Ee) as (Hlv & Hle & _).
    destruct (set_order_pick false ms vs es Hlv Hle Hht) as (idx & Eo & Hnd & Hcov).
    rewrite Eo in *.
    pose proof (tlv_length tg true (concat (map (fun i => nth i es []) idx))).
    cbn [cber_dec strip_dflt]. rewrite in_cons_tlv by (try apply tag_okb_good; auto; lia).
    pose proof (cset_any_order ms vs es idx H Hwm Hds Hwt Ee Hnd Hcov ltac:(lia)) as Hs. cbn zeta in Hs.
    destruct (set_loop cber_dec ms _ _ _) as [[slots r]|]; [|discriminate].
    destruct (set_finish ms slots) as [vs'|]; [|discriminate].
    apply some_inj in Hs. injection Hs as -> ->. reflexivity.
  - (* EXPLICIT tag *)
    cbn [cder] in Hd. destruct (cder false t v) as [c|] eqn:Ec; [|discriminate]. apply some_inj in Hd. subst bs.
    apply andb_true_iff in Hwf. destruct Hwf as [Hwf Hnm]. apply andb_true_iff in Hwf. destruct Hwf as [Htg Hw].
    unfold not_marker in Hnm. apply negb_true_iff in Hnm.
    pose proof (tlv_length tg true c).
    cbn [cber_dec strip_dflt]. rewrite in_cons_tlv by (try apply tag_okb_good; auto; lia).
    pose proof (IHt v c [] Hw Hwt Ec ltac:(lia)) as Hi. rewrite app_nil_r in Hi. rewrite Hi; [reflexivity|].
    intros Ha. rewrite (not_marker_absent t v Hnm) in Ha. discriminate.
  - (* OPTIONAL *)
    apply andb_true_iff in Hwf. destruct Hwf as [Hw Hnm]. unfold not_marker in Hnm. apply negb_true_iff in Hnm.
    destruct v; try discriminate; cbn [cder] in Hd.
    + apply some_inj in Hd. subst bs. cbn [app cber_dec strip_dflt].
      specialize (Hok eq_refl). cbn [cfirst_tags] in Hok.
      destruct (peek_tag rest) as [tg|]; [|reflexivity]. rewrite Hok. reflexivity.
    + destruct (cder_head t v bs Hw Hnm Hd) as (tg & c & content & -> & Hg & Hin).
      cbn [cber_dec strip_dflt]. rewrite peek_tag_tlv by exact Hg.
      apply tag_in_In in Hin. rewrite Hin.
      rewrite (IHt v _ rest Hw Hwt Hd Hl); [reflexivity|].
      intros Ha. rewrite (not_marker_absent t v Hnm) in Ha. discriminate.
  - (* DEFAULT *)
    apply andb_true_iff in Hwf. destruct Hwf as [Hw Hnm]. unfold not_marker in Hnm. apply negb_true_iff in Hnm.
    destruct v; try discriminate; cbn [cder] in Hd.
    + apply some_inj in Hd. subst bs. cbn [app cber_dec strip_dflt].
      specialize (Hok eq_refl). cbn [cfirst_tags] in Hok.
      destruct (peek_tag rest) as [tg|]; [|reflexivity]. rewrite Hok. reflexivity.
    + cbn [strip_dflt]. destruct (dflt_eqb false v d) eqn:Ed.
      * apply some_inj in Hd. subst bs. cbn [app cber_dec].
        assert (Ha : absent false (CDef d t) (VSome v) = true) by (cbn [absent]; exact Ed).
        specialize (Hok Ha). cbn [cfirst_tags] in Hok.
        destruct (peek_tag rest) as [tg|]; [|reflexivity]. rewrite Hok. reflexivity.
      * destruct (cder_head t v bs Hw Hnm Hd) as (tg & c & content & -> & Hg & Hin).
        cbn [cber_dec]. rewrite peek_tag_tlv by exact Hg.
        apply tag_in_In in Hin. rewrite Hin.
        rewrite (IHt v _ rest Hw Hwt Hd Hl); [reflexivity|].
        intros Ha. rewrite (not_marker_absent t v Hnm) in Ha. discriminate.
Qed.

Theorem cder_roundtrip_in_stream t v bs rest :
  cwf_d t = true -> is_marker t = false -> cwt_d t v = true -> cder false t v = Some bs -> zlen bs <= rssize_max ->
  cber_dec t (bs ++ rest) = Some (strip_dflt t v, rest).
Proof.
  intros Hwf Hm Hwt Hd Hl. apply cder_decodes_all; try assumption.
  intros Ha. rewrite (not_marker_absent t v Hm) in Ha. discriminate.
Qed.

Theorem cder_roundtrip t v bs :
  cwf_d t = true -> is_marker t = false -> cwt_d t v = true -> cder false t v = Some bs -> zlen bs <= rssize_max ->
  cber_decode t bs = Some (strip_dflt t v, zlen bs).
Proof.
  intros Hwf Hm Hwt Hd Hl. unfold cber_decode.
  pose proof (cder_roundtrip_in_stream t v bs [] Hwf Hm Hwt Hd Hl) as H. rewrite app_nil_r in H. rewrite H.
  cbn [zlen length]. f_equal. f_equal. unfold zlen. cbn. lia.
Qed.

(* C03: the BER reader takes the members of a SET in ANY order (every member at most once) *)
Theorem cber_set_any_order tg ms vs es idx rest :
  cwf_d (CSet tg ms) = true -> cwt_d (CSet tg ms) (VSeq vs) = true ->
  enc_cms (cder false) ms vs = Some es ->
  NoDup idx -> (forall i, In i idx <-> (i < length ms)%nat) ->
  let c := concat (map (fun i => nth i es []) idx) in
  zlen (tlv tg true c) <= rssize_max ->
  cber_dec (CSet tg ms) (tlv tg true c ++ rest) = Some (strip_dflt (CSet tg ms) (VSeq vs), rest).
Proof.
  intros Hwf Hwt Ee Hnd Hcov c Hl. cbn [cwf_d] in Hwf.
  apply andb_true_iff in Hwf. destruct Hwf as [Hwf Hht]. apply andb_true_iff in Hwf. destruct Hwf as [Hwf Hds].
  apply andb_true_iff in Hwf. destruct Hwf as [Htg Hwm].
  pose proof (tlv_length tg true c).
  cbn [cber_dec strip_dflt]. rewrite in_cons_tlv by (try apply tag_okb_good; auto; lia).
  assert (Hall : Forall CRT ms) by (apply Forall_forall; intros m _; apply cder_decodes_all).
  pose proof (cset_any_order ms vs es idx Hall Hwm Hds Hwt Ee Hnd Hcov ltac:(unfold c in *; lia)) as Hs. cbn zeta in Hs.
  fold c in Hs.
  destruct (set_loop cber_dec ms _ _ _) as [[slots r]|]; [|discriminate].
  destruct (set_finish ms slots) as [vs'|]; [|discriminate].
  apply some_inj in Hs. injection Hs as -> ->. reflexivity.
Qed.

(* ---------------- format ---------------- *)

(* X.691 19.2-19.5 (canonical) / X.696 16.2: the preamble bit of an OPTIONAL / DEFAULT component is 0
   exactly when the component is absent or equal to its DEFAULT — at every place the C asks *)
Theorem cpresence_is_spec ms : forall vs, cpresence false ms vs = spec_preamble ms vs.
Proof.
  induction ms as [|m r IH]; intros vs; destruct vs as [|v vs']; try reflexivity.
  cbn [cpresence spec_preamble]. rewrite IH. f_equal.
  destruct m; try reflexivity; destruct v; try reflexivity.
  cbn [is_marker absent]. rewrite dflt_eqb_false_spec. reflexivity.
Qed.

(* X.690 11.5 / X.691 19.5 / X.696 16: a value equal to the DEFAULT is not encoded, in either
   representation (member absent, member stored) and in every syntax *)
Theorem default_not_encoded d t v std :
  is_default_value v d = true ->
  cder false (CDef d t) (VSome v) = Some [] /\ cder false (CDef d t) VNone = Some [] /\
  cuper false std (CDef d t) (VSome v) = Some [] /\ cuper false std (CDef d t) VNone = Some [] /\
  coer false (CDef d t) (VSome v) = Some [] /\ coer false (CDef d t) VNone = Some [].
Proof.
  intros H. rewrite <- dflt_eqb_false_spec in H. cbn [cder cuper coer]. rewrite H. repeat split; reflexivity.
Qed.

(* ... and a value different from the DEFAULT is encoded as the component's type says *)
Theorem non_default_encoded d t v std :
  is_default_value v d = false ->
  cder false (CDef d t) (VSome v) = cder false t v /\
  cuper false std (CDef d t) (VSome v) = cuper false std t v /\
  coer false (CDef d t) (VSome v) = coer false t v.
Proof.
  intros H. rewrite <- dflt_eqb_false_spec in H. cbn [cder cuper coer]. rewrite H. repeat split; reflexivity.
Qed.

(* the generated comparison against what the standard calls equal: the only deviation is a TRUE
   stored as 0xff against DEFAULT TRUE *)
Theorem dflt_cmp_partial raw v d :
  (raw = false \/ v <> VBool true \/ d <> VBool true) -> dflt_eqb raw v d = is_default_value v d.
Proof.
  intros H. destruct v, d; try reflexivity. cbn [dflt_eqb is_default_value].
  destruct b, b0, raw; try reflexivity. exfalso. destruct H as [H|[H|H]]; congruence.
Qed.

Theorem der_default_true_refuted :
  exists t v, cwf_d t = true /\ cwt_d t v = true /\ cder true t v <> spec_der t v /\
              cder true t v = Some [48; 3; 1; 1; 255] /\ spec_der t v = Some [48; 0].
Proof.
  exists (CSeq 64 [CDef (VBool true) (CBase (TBool 4))]), (VSeq [VSome (VBool true)]).
  vm_compute. repeat split; try reflexivity. discriminate.
Qed.

(* X.690 10.3: what SET_encode_der writes is the members' encodings, every member once ... *)
Theorem cder_set_content raw tg ms vs bs :
  forallb has_tag ms = true -> cder raw (CSet tg ms) (VSeq vs) = Some bs ->
  exists es idx, enc_cms (cder raw) ms vs = Some es /\
                 bs = tlv tg true (concat (map (fun i => nth i es []) idx)) /\
                 NoDup idx /\ (forall i, In i idx <-> (i < length ms)%nat).
Proof.
  intros Ht Hd. cbn [cder] in Hd.
  destruct (enc_cms (cder raw) ms vs) as [es|] eqn:Ee; [|discriminate]. apply some_inj in Hd. subst bs.
  destruct (enc_cms_nth (cder raw) ms vs es Ee) as (Hlv & Hle & _).
  destruct (set_order_pick raw ms vs es Hlv Hle Ht) as (idx & Eo & Hnd & Hcov).
  exists es, idx. rewrite Eo. auto.
Qed.

(* ... in ascending order of the key (class, then number) of the tag table used *)
Definition key_le {A} (a b : Z * A) : Prop := tag_key (fst a) <= tag_key (fst b).

Lemma insert_keyed_sorted {A} (x : Z * A) l : StronglySorted key_le l -> StronglySorted key_le (insert_keyed x l).
Proof.
  induction 1 as [|y tl Hs IH Hall]; cbn [insert_keyed]; [repeat constructor|].
  destruct (tag_key (fst x) <=? tag_key (fst y)) eqn:E.
  - constructor; [constructor; assumption|]. constructor; [unfold key_le; lia|].
    eapply Forall_impl; [|exact Hall]. unfold key_le. intros; lia.
  - constructor; [exact IH|].
    eapply Permutation_Forall; [symmetry; apply insert_keyed_perm|].
    constructor; [unfold key_le; lia|exact Hall].
Qed.

Theorem sort_keyed_sorted {A} (l : list (Z * A)) : StronglySorted key_le (sort_keyed l).
Proof. induction l as [|x tl IH]; cbn; [constructor|]. apply insert_keyed_sorted. exact IH. Qed.

Theorem tag2el_sorted ms : StronglySorted key_le (tag2el ms).
Proof. apply sort_keyed_sorted. Qed.
