(* Rt/SetDefProofs.v — theorems about the SET / DEFAULT layer (Rt/SetDef.v).
   Round trips in a stream (arbitrary data may follow) for unaligned PER and OER (the value
   comes back with every absent DEFAULT member FILLED IN, [fill_dflt]) and for DER read by the
   BER reader (every stored default comes back ABSENT, [strip_dflt]); format: the model of
   the C's DER / PER / OER encoders (raw = false) equals the reading of X.690 / X.691 / X.696
   for SEQUENCE-shaped types; the BOOLEAN DEFAULT TRUE deviation (raw = true) as a refuted
   witness; structural facts about the SET order. *)
From Coq Require Import ZArith List Lia Bool ZifyBool Permutation Sorted.
From A1 Require Import Base.Bytes Leaf.IntegerConv Leaf.BerTL Rt.Types Rt.TypesInd Rt.Comb Rt.Der Rt.DerProofs
  Rt.Uper Rt.UperBits Rt.UperProofs Rt.Oer Rt.OerLeaf Rt.OerProofs Rt.SetDef.
Import ListNotations.
Local Open Scope Z_scope.

(* ---------------- induction principle ---------------- *)

Section CtyInd.
  Variable P : cty -> Prop.
  Hypothesis HBase : forall t, P (CBase t).
  Hypothesis HSeq : forall tg ms, Forall P ms -> P (CSeq tg ms).
  Hypothesis HSet : forall tg ms, Forall P ms -> P (CSet tg ms).
  Hypothesis HTag : forall tg t, P t -> P (CTag tg t).
  Hypothesis HOpt : forall t, P t -> P (COpt t).
  Hypothesis HDef : forall d t, P t -> P (CDef d t).

  Fixpoint cty_ind' (t : cty) : P t :=
    match t with
    | CBase b => HBase b
    | CSeq tg ms =>
        HSeq tg ms ((fix go (l : list cty) : Forall P l :=
                       match l with
                       | [] => Forall_nil P
                       | x :: r => Forall_cons x (cty_ind' x) (go r)
                       end) ms)
    | CSet tg ms =>
        HSet tg ms ((fix go (l : list cty) : Forall P l :=
                       match l with
                       | [] => Forall_nil P
                       | x :: r => Forall_cons x (cty_ind' x) (go r)
                       end) ms)
    | CTag tg t' => HTag tg t' (cty_ind' t')
    | COpt t' => HOpt t' (cty_ind' t')
    | CDef d t' => HDef d t' (cty_ind' t')
    end.
End CtyInd.

(* ---------------- well-typed values ---------------- *)

(* parametrised by the base layer's typing judgement (wt / wt_uper std / wt_oer) *)
Section Wt.
  Variable bwt : ty -> val -> bool.
  Fixpoint cwt (t : cty) (v : val) {struct t} : bool :=
    match t, v with
    | CBase b, _ => bwt b v
    | CSeq _ ms, VSeq vs | CSet _ ms, VSeq vs =>
        (fix go (ms : list cty) (vs : list val) : bool :=
           match ms, vs with
           | [], [] => true
           | m :: ms', v :: vs' => cwt m v && go ms' vs'
           | _, _ => false
           end) ms vs
    | CTag _ t', _ => cwt t' v
    | COpt _, VNone => true
    | COpt t', VSome v' => cwt t' v'
    | CDef _ _, VNone => true
    | CDef _ t', VSome v' => cwt t' v'
    | _, _ => false
    end.
End Wt.

Definition not_marker (t : cty) : bool := negb (is_marker t).

(* shape: markers only as direct members, around non-markers; parametrised by the base wf *)
Section Wf.
  Variable bwf : ty -> bool.
  Fixpoint cshape (t : cty) : bool :=
    match t with
    | CBase b => bwf b
    | CSeq _ ms | CSet _ ms => forallb cshape ms
    | CTag _ t' => cshape t' && not_marker t'
    | COpt t' | CDef _ t' => cshape t' && not_marker t'
    end.
End Wf.

(* ---------------- small facts ---------------- *)

Lemma dflt_eqb_false_spec v d : dflt_eqb false v d = is_default_value v d.
Proof. destruct v, d; try reflexivity. cbn. rewrite andb_false_r. reflexivity. Qed.

Lemma some_inj {A} (a b : A) : Some a = Some b -> a = b.
Proof. congruence. Qed.

Lemma fill_base b v : fill_dflt (CBase b) v = v.
Proof. destruct v; reflexivity. Qed.

Lemma strip_base b v : strip_dflt (CBase b) v = v.
Proof. destruct v; reflexivity. Qed.

Lemma fill_bool t b : fill_dflt t (VBool b) = VBool b.
Proof. induction t; cbn [fill_dflt]; auto. Qed.
Lemma fill_int t z : fill_dflt t (VInt z) = VInt z.
Proof. induction t; cbn [fill_dflt]; auto. Qed.
Lemma strip_bool t b : strip_dflt t (VBool b) = VBool b.
Proof. induction t; cbn [strip_dflt]; auto. Qed.
Lemma strip_int t z : strip_dflt t (VInt z) = VInt z.
Proof. induction t; cbn [strip_dflt]; auto. Qed.

(* ---------------- unaligned PER: round trip ---------------- *)

Section Uper.
  Variable std : bool.

  Definition cwf_u : cty -> bool := cshape wf_ty_uper.
  Definition cwt_u : cty -> val -> bool := cwt (wt_uper std).

  Definition URT (t : cty) : Prop := forall v bits rest,
    cwf_u t = true -> cwt_u t v = true -> absent false t v = false ->
    cuper false std t v = Some bits ->
    cuper_dec std t (bits ++ rest) = Some (fill_dflt t v, rest).

  Lemma umembers_rt ms : Forall URT ms -> forall vs es rest,
    forallb cwf_u ms = true -> cwt_u (CSeq 0 ms) (VSeq vs) = true ->
    enc_cms (cuper false std) ms vs = Some es ->
    dec_cms_pres (cuper_dec std) ms (cpresence false ms vs) (concat es ++ rest)
      = Some (map2_members fill_dflt ms vs, rest) /\
    length (cpresence false ms vs) = length (filter is_marker ms).
  Proof.
    induction 1 as [|m ms' Hm Hms IH]; intros vs es rest Hwf Hwt He;
      destruct vs as [|v vs']; cbn [enc_cms] in He; try discriminate.
    - apply some_inj in He. subst es. split; reflexivity.
    - cbn [forallb] in Hwf. apply andb_true_iff in Hwf. destruct Hwf as [Hw Hwr].
      unfold cwt_u in Hwt. cbn [cwt] in Hwt. apply andb_true_iff in Hwt. destruct Hwt as [Hwt1 Hwtr].
      destruct (cuper false std m v) as [a|] eqn:Ea; [|discriminate].
      destruct (enc_cms (cuper false std) ms' vs') as [b|] eqn:Eb; [|discriminate].
      apply some_inj in He. subst es.
      destruct (IH vs' b rest Hwr Hwtr Eb) as [IH1 IH2].
      cbn [concat]. rewrite <- app_assoc. cbn [cpresence filter map2_members].
      destruct m as [bt|tg ms0|tg ms0|tg t0|t0|d t0].
      + (* base member *)
        cbn [is_marker app dec_cms_pres].
        rewrite (Hm v a (concat b ++ rest) Hw Hwt1 eq_refl Ea). rewrite IH1.
        split; [reflexivity|exact IH2].
      + cbn [is_marker app dec_cms_pres].
        rewrite (Hm v a (concat b ++ rest) Hw Hwt1 eq_refl Ea). rewrite IH1.
        split; [reflexivity|exact IH2].
      + cbn [is_marker app dec_cms_pres].
        rewrite (Hm v a (concat b ++ rest) Hw Hwt1 eq_refl Ea). rewrite IH1.
        split; [reflexivity|exact IH2].
      + cbn [is_marker app dec_cms_pres].
        rewrite (Hm v a (concat b ++ rest) Hw Hwt1 eq_refl Ea). rewrite IH1.
        split; [reflexivity|exact IH2].
      + (* OPTIONAL *)
        cbn [is_marker]. destruct v as [| | | | | | |  |v0]; cbn [cuper] in Ea; try discriminate.
        * apply some_inj in Ea. subst a. cbn [absent negb app dec_cms_pres fill_dflt]. rewrite IH1.
          split; [reflexivity|cbn [length]; lia].
        * cbn [absent negb app dec_cms_pres].
          pose proof (Hm (VSome v0) a (concat b ++ rest) Hw Hwt1 eq_refl Ea) as Hd.
          cbn [cuper_dec fill_dflt] in Hd.
          destruct (cuper_dec std t0 (a ++ concat b ++ rest)) as [[v1 r1]|]; [|discriminate].
          apply some_inj in Hd. injection Hd as -> ->. rewrite IH1.
          split; [reflexivity|cbn [length]; lia].
      + (* DEFAULT *)
        cbn [is_marker]. destruct v as [| | | | | | |  |v0]; cbn [cuper] in Ea; try discriminate.
        * apply some_inj in Ea. subst a. cbn [absent negb app dec_cms_pres fill_dflt]. rewrite IH1.
          split; [reflexivity|cbn [length]; lia].
        * cbn [absent]. destruct (dflt_eqb false v0 d) eqn:Ed.
          -- apply some_inj in Ea. subst a. cbn [negb app dec_cms_pres fill_dflt]. rewrite IH1.
             (* the stored value IS the default: what comes back is the default *)
             split; [|cbn [length]; lia].
             destruct v0, d; try discriminate; cbn [dflt_eqb andb] in Ed.
             ++ rewrite andb_false_r in Ed. apply eqb_prop in Ed. subst. rewrite fill_bool. reflexivity.
             ++ apply Z.eqb_eq in Ed. subst. rewrite fill_int. reflexivity.
          -- cbn [negb app dec_cms_pres].
             assert (Habs : absent false (CDef d t0) (VSome v0) = false) by (cbn [absent]; exact Ed).
             assert (Ea' : cuper false std (CDef d t0) (VSome v0) = Some a) by (cbn [cuper]; rewrite Ed; exact Ea).
             pose proof (Hm (VSome v0) a (concat b ++ rest) Hw Hwt1 Habs Ea') as Hd.
             cbn [cuper_dec fill_dflt] in Hd.
             destruct (cuper_dec std t0 (a ++ concat b ++ rest)) as [[v1 r1]|]; [|discriminate].
             apply some_inj in Hd. injection Hd as -> ->. rewrite IH1.
             split; [reflexivity|cbn [length]; lia].
  Qed.

  Theorem cuper_decodes_all t : URT t.
  Proof.
    induction t using cty_ind'; intros v bits rest Hwf Hwt Habs Hd.
    - (* base *)
      cbn [cuper] in Hd. cbn [cuper_dec]. rewrite fill_base.
      apply uper_roundtrip_in_stream; assumption.
    - (* SEQUENCE *)
      destruct v; try discriminate. cbn [cuper] in Hd.
      destruct (enc_cms (cuper false std) ms vs) as [es|] eqn:Ee; [|discriminate].
      apply some_inj in Hd. subst bits.
      destruct (umembers_rt ms H vs es rest Hwf Hwt Ee) as [H1 H2].
      cbn [cuper_dec fill_dflt]. rewrite <- app_assoc. rewrite <- H2. rewrite take_bits_app.
      rewrite H1. reflexivity.
    - (* SET: no codec *)
      discriminate.
    - (* EXPLICIT tag: invisible *)
      cbn [cuper] in Hd. cbn [cuper_dec fill_dflt].
      unfold cwf_u in Hwf. cbn [cshape] in Hwf. apply andb_true_iff in Hwf. destruct Hwf as [Hwf Hnm].
      apply IHt; try assumption.
      unfold not_marker in Hnm. apply negb_true_iff in Hnm. destruct t; try discriminate; reflexivity.
    - (* OPTIONAL, present *)
      destruct v; try discriminate. cbn [cuper] in Hd. cbn [cuper_dec fill_dflt].
      unfold cwf_u in Hwf. cbn [cshape] in Hwf. apply andb_true_iff in Hwf. destruct Hwf as [Hwf Hnm].
      rewrite (IHt v bits rest Hwf Hwt); [reflexivity| |exact Hd].
      unfold not_marker in Hnm. apply negb_true_iff in Hnm. destruct t; try discriminate; reflexivity.
    - (* DEFAULT, stored and different from the default *)
      destruct v; try discriminate. cbn [absent] in Habs. cbn [cuper] in Hd. rewrite Habs in Hd.
      cbn [cuper_dec fill_dflt].
      unfold cwf_u in Hwf. cbn [cshape] in Hwf. apply andb_true_iff in Hwf. destruct Hwf as [Hwf Hnm].
      rewrite (IHt v bits rest Hwf Hwt); [reflexivity| |exact Hd].
      unfold not_marker in Hnm. apply negb_true_iff in Hnm. destruct t; try discriminate; reflexivity.
  Qed.
End Uper.

(* a PDU: SEQUENCE at the top (or a base type) — never absent *)
Theorem cuper_roundtrip_in_stream std t v bits rest :
  cwf_u t = true -> is_marker t = false -> cwt_u std t v = true ->
  cuper false std t v = Some bits ->
  cuper_dec std t (bits ++ rest) = Some (fill_dflt t v, rest).
Proof.
  intros Hwf Hm Hwt Hd. apply cuper_decodes_all; try assumption.
  destruct t; try discriminate; reflexivity.
Qed.

(* ---------------- OER: round trip ---------------- *)

Definition cwf_o : cty -> bool := cshape (fun b => wf_ty_oer b && not_opt b).
Definition cwt_o : cty -> val -> bool := cwt wt_oer.

Definition ORT (t : cty) : Prop := forall v bs rest,
  cwf_o t = true -> cwt_o t v = true -> absent false t v = false ->
  coer false t v = Some bs ->
  coer_dec t (bs ++ rest) = Some (fill_dflt t v, rest).

Lemma omembers_rt ms : Forall ORT ms -> forall vs es rest,
  forallb cwf_o ms = true -> cwt_o (CSeq 0 ms) (VSeq vs) = true ->
  enc_cms (coer false) ms vs = Some es ->
  dec_cms_pres coer_dec ms (cpresence false ms vs) (concat es ++ rest)
    = Some (map2_members fill_dflt ms vs, rest) /\
  length (cpresence false ms vs) = length (filter is_marker ms).
Proof.
  induction 1 as [|m ms' Hm Hms IH]; intros vs es rest Hwf Hwt He;
    destruct vs as [|v vs']; cbn [enc_cms] in He; try discriminate.
  - apply some_inj in He. subst es. split; reflexivity.
  - cbn [forallb] in Hwf. apply andb_true_iff in Hwf. destruct Hwf as [Hw Hwr].
    unfold cwt_o in Hwt. cbn [cwt] in Hwt. apply andb_true_iff in Hwt. destruct Hwt as [Hwt1 Hwtr].
    destruct (coer false m v) as [a|] eqn:Ea; [|discriminate].
    destruct (enc_cms (coer false) ms' vs') as [b|] eqn:Eb; [|discriminate].
    apply some_inj in He. subst es.
    destruct (IH vs' b rest Hwr Hwtr Eb) as [IH1 IH2].
    cbn [concat]. rewrite <- app_assoc. cbn [cpresence filter map2_members].
    destruct m as [bt|tg ms0|tg ms0|tg t0|t0|d t0].
    + cbn [is_marker app dec_cms_pres].
      rewrite (Hm v a (concat b ++ rest) Hw Hwt1 eq_refl Ea). rewrite IH1.
      split; [reflexivity|exact IH2].
    + cbn [is_marker app dec_cms_pres].
      rewrite (Hm v a (concat b ++ rest) Hw Hwt1 eq_refl Ea). rewrite IH1.
      split; [reflexivity|exact IH2].
    + cbn [is_marker app dec_cms_pres].
      rewrite (Hm v a (concat b ++ rest) Hw Hwt1 eq_refl Ea). rewrite IH1.
      split; [reflexivity|exact IH2].
    + cbn [is_marker app dec_cms_pres].
      rewrite (Hm v a (concat b ++ rest) Hw Hwt1 eq_refl Ea). rewrite IH1.
      split; [reflexivity|exact IH2].
    + cbn [is_marker]. destruct v as [| | | | | | |  |v0]; cbn [coer] in Ea; try discriminate.
      * apply some_inj in Ea. subst a. cbn [absent negb app dec_cms_pres fill_dflt]. rewrite IH1.
        split; [reflexivity|cbn [length]; lia].
      * cbn [absent negb app dec_cms_pres].
        pose proof (Hm (VSome v0) a (concat b ++ rest) Hw Hwt1 eq_refl Ea) as Hd.
        cbn [coer_dec fill_dflt] in Hd.
        destruct (coer_dec t0 (a ++ concat b ++ rest)) as [[v1 r1]|]; [|discriminate].
        apply some_inj in Hd. injection Hd as -> ->. rewrite IH1.
        split; [reflexivity|cbn [length]; lia].
    + cbn [is_marker]. destruct v as [| | | | | | |  |v0]; cbn [coer] in Ea; try discriminate.
      * apply some_inj in Ea. subst a. cbn [absent negb app dec_cms_pres fill_dflt]. rewrite IH1.
        split; [reflexivity|cbn [length]; lia].
      * cbn [absent]. destruct (dflt_eqb false v0 d) eqn:Ed.
        -- apply some_inj in Ea. subst a. cbn [negb app dec_cms_pres fill_dflt]. rewrite IH1.
           split; [|cbn [length]; lia].
           destruct v0, d; try discriminate; cbn [dflt_eqb andb] in Ed.
           ++ rewrite andb_false_r in Ed. apply eqb_prop in Ed. subst. rewrite fill_bool. reflexivity.
           ++ apply Z.eqb_eq in Ed. subst. rewrite fill_int. reflexivity.
        -- cbn [negb app dec_cms_pres].
           assert (Habs : absent false (CDef d t0) (VSome v0) = false) by (cbn [absent]; exact Ed).
           assert (Ea' : coer false (CDef d t0) (VSome v0) = Some a) by (cbn [coer]; rewrite Ed; exact Ea).
           pose proof (Hm (VSome v0) a (concat b ++ rest) Hw Hwt1 Habs Ea') as Hd.
           cbn [coer_dec fill_dflt] in Hd.
           destruct (coer_dec t0 (a ++ concat b ++ rest)) as [[v1 r1]|]; [|discriminate].
           apply some_inj in Hd. injection Hd as -> ->. rewrite IH1.
           split; [reflexivity|cbn [length]; lia].
Qed.

Theorem coer_decodes_all t : ORT t.
Proof.
  induction t using cty_ind'; intros v bs rest Hwf Hwt Habs Hd.
  - cbn [coer] in Hd. cbn [coer_dec]. rewrite fill_base.
    unfold cwf_o in Hwf. cbn [cshape] in Hwf. apply andb_true_iff in Hwf. destruct Hwf as [Hwf Hno].
    apply oer_roundtrip_in_stream; assumption.
  - destruct v; try discriminate. cbn [coer] in Hd.
    destruct (enc_cms (coer false) ms vs) as [es|] eqn:Ee; [|discriminate].
    apply some_inj in Hd. subst bs.
    destruct (omembers_rt ms H vs es rest Hwf Hwt Ee) as [H1 H2].
    cbn [coer_dec fill_dflt]. rewrite <- app_assoc. rewrite <- H2.
    destruct (oer_preamble_inverse (cpresence false ms vs) (concat es ++ rest)) as (Ht & x & Hx).
    rewrite Ht, Hx, H1. reflexivity.
  - discriminate.
  - cbn [coer] in Hd. cbn [coer_dec fill_dflt].
    unfold cwf_o in Hwf. cbn [cshape] in Hwf. apply andb_true_iff in Hwf. destruct Hwf as [Hwf Hnm].
    apply IHt; try assumption.
    unfold not_marker in Hnm. apply negb_true_iff in Hnm. destruct t; try discriminate; reflexivity.
  - destruct v; try discriminate. cbn [coer] in Hd. cbn [coer_dec fill_dflt].
    unfold cwf_o in Hwf. cbn [cshape] in Hwf. apply andb_true_iff in Hwf. destruct Hwf as [Hwf Hnm].
    rewrite (IHt v bs rest Hwf Hwt); [reflexivity| |exact Hd].
    unfold not_marker in Hnm. apply negb_true_iff in Hnm. destruct t; try discriminate; reflexivity.
  - destruct v; try discriminate. cbn [absent] in Habs. cbn [coer] in Hd. rewrite Habs in Hd.
    cbn [coer_dec fill_dflt].
    unfold cwf_o in Hwf. cbn [cshape] in Hwf. apply andb_true_iff in Hwf. destruct Hwf as [Hwf Hnm].
    rewrite (IHt v bs rest Hwf Hwt); [reflexivity| |exact Hd].
    unfold not_marker in Hnm. apply negb_true_iff in Hnm. destruct t; try discriminate; reflexivity.
Qed.

Theorem coer_roundtrip_in_stream t v bs rest :
  cwf_o t = true -> is_marker t = false -> cwt_o t v = true ->
  coer false t v = Some bs ->
  coer_dec t (bs ++ rest) = Some (fill_dflt t v, rest).
Proof.
  intros Hwf Hm Hwt Hd. apply coer_decodes_all; try assumption.
  destruct t; try discriminate; reflexivity.
Qed.
