(* Rt/HeapX.v — C14, second layer (round c14x).  Executable definitions only; proofs in Rt/HeapXProofs.v.

   Rt/Heap.v abstracts a leaf structure to "scalar" / "buffer pointer" and RESET to [memset0] on that
   abstraction, so a RESET that forgets a field of the real struct (BIT_STRING_t.bits_unused) is invisible
   to it; and it has no step for the clean-up an open type reader performs when the value INSIDE the
   container fails (oer_open_type_get).  This file adds both:

   Part 1  LEAF STRUCTURES ON THE BYTE LEVEL.  A leaf structure is the list of its bytes; its C type is a
           list of named fields with sizes (LP64, the layout the harness reads back with offsetof/sizeof:
           `layout <T>` of harness/moddrv_c14.inc, compared with [fields] by checks/c14.py).  [leaf_free]
           is the free_struct method of the kind (BOOLEAN_free, NULL_free, NativeInteger_free,
           NativeReal_free, ASN__PRIMITIVE_TYPE_free, OCTET_STRING_free) on those bytes: FREEMEM events and
           the bytes left behind; ASFM_FREE_UNDERLYING_AND_RESET is memset(ptr, 0, [wiped k]) where
           [wiped k] is the length the C passes (sizeof of the base type resp. the specifics' struct_size).
   Part 2  the BIT STRING decoder that reads the field RESET must have cleared: BIT_STRING_decode_uper
           writes bits_unused only when the bit length is not a multiple of 8.
   Part 3  OPEN TYPE READER CLEAN-UP: [open_get] = oer_open_type_get around an inner decoder result; the
           dispose method is chosen from the slot BEFORE the inner decoder runs.
   Part 4  EXTENSION HOLDERS: an extensible SEQUENCE is [TSeq tg (root ++ map TOpt adds)] (asn1c makes every
           extension addition a pointer member); an open type holder is a [TChoice] of inline alternatives.
           [fail_in_addition] is the structure SEQUENCE_decode_oer leaves when the value inside the
           container of addition j fails: members before it as decoded, the rest NULL. *)
From Coq Require Import ZArith List Bool.
From A1 Require Import Rt.Types Rt.Heap.
Import ListNotations.
Local Open Scope Z_scope.

(* ------------------------------------------------------------------ Part 1: leaf structures *)
Inductive lkind := LBool | LNull | LNInt | LNReal | LNFloat | LPrim | LOct | LBits.

Inductive fname :=
| FValue                       (* BOOLEAN_t / NULL_t (int), long, double, float *)
| FBuf | FSize                 (* uint8_t *buf; size_t size *)
| FBitsUnused | FPad           (* int bits_unused; alignment padding before _asn_ctx *)
| FCtxPhaseStep | FCtxContext | FCtxPtr | FCtxLeft.   (* asn_struct_ctx_t: short phase, step; int context; void *ptr; ssize_t left *)

Definition fname_eqb (a b : fname) : bool :=
  match a, b with
  | FValue, FValue | FBuf, FBuf | FSize, FSize | FBitsUnused, FBitsUnused | FPad, FPad
  | FCtxPhaseStep, FCtxPhaseStep | FCtxContext, FCtxContext | FCtxPtr, FCtxPtr | FCtxLeft, FCtxLeft => true
  | _, _ => false
  end.

Definition ctx_fields : list (fname * nat) :=
  [(FCtxPhaseStep, 4%nat); (FCtxContext, 4%nat); (FCtxPtr, 8%nat); (FCtxLeft, 8%nat)].

(* the C types, field by field (LP64) *)
Definition fields (k : lkind) : list (fname * nat) :=
  match k with
  | LBool | LNull | LNFloat => [(FValue, 4%nat)]
  | LNInt | LNReal => [(FValue, 8%nat)]
  | LPrim => [(FBuf, 8%nat); (FSize, 8%nat)]                                    (* ASN__PRIMITIVE_TYPE_t: INTEGER_t, REAL_t, OID, RELATIVE-OID, ENUMERATED_t *)
  | LOct => [(FBuf, 8%nat); (FSize, 8%nat)] ++ ctx_fields                        (* OCTET_STRING_t: strings, times, ANY_t *)
  | LBits => [(FBuf, 8%nat); (FSize, 8%nat); (FBitsUnused, 4%nat); (FPad, 4%nat)] ++ ctx_fields   (* BIT_STRING_t *)
  end.

Definition sizeof (k : lkind) : nat := fold_right (fun f n => (snd f + n)%nat) 0%nat (fields k).

Fixpoint offset_in (fs : list (fname * nat)) (f : fname) (acc : nat) : option (nat * nat) :=
  match fs with
  | [] => None
  | (g, n) :: r => if fname_eqb g f then Some (acc, n) else offset_in r f (acc + n)%nat
  end.
Definition field_at (k : lkind) (f : fname) : option (nat * nat) := offset_in (fields k) f 0%nat.

(* the length each free function passes to memset under ASFM_FREE_UNDERLYING_AND_RESET:
   BOOLEAN.c sizeof(BOOLEAN_t); NULL.c sizeof(NULL_t); NativeInteger.c sizeof(long); NativeReal.c float_size
   (sizeof(double) without specifics); asn_codecs_prim.c sizeof(ASN__PRIMITIVE_TYPE_t); OCTET_STRING.c the
   specifics' struct_size: asn_SPC_OCTET_STRING_specs = sizeof(OCTET_STRING_t), asn_SPC_BIT_STRING_specs =
   sizeof(BIT_STRING_t) *)
Definition wiped (k : lkind) : nat :=
  match k with
  | LBool | LNull | LNFloat => 4%nat
  | LNInt | LNReal => 8%nat
  | LPrim => 16%nat
  | LOct => 40%nat
  | LBits => 48%nat
  end.

Definition slice (off len : nat) (bs : list Z) : list Z := firstn len (skipn off bs).
Definition nonzero (bs : list Z) : bool := existsb (fun b => negb (b =? 0)) bs.
Definition memset_zero (n : nat) (bs : list Z) : list Z := repeat 0 (Nat.min n (length bs)) ++ skipn n bs.
Definition clear_range (off len : nat) (bs : list Z) : list Z :=
  firstn off bs ++ memset_zero len (skipn off bs).

Definition field_nonzero (k : lkind) (f : fname) (bs : list Z) : bool :=
  match field_at k f with Some (o, l) => nonzero (slice o l bs) | None => false end.
Definition clear_field (k : lkind) (f : fname) (bs : list Z) : list Z :=
  match field_at k f with Some (o, l) => clear_range o l bs | None => bs end.

(* OCTET_STRING_free sets st->buf = 0 after FREEMEM; ASN__PRIMITIVE_TYPE_free leaves the stale pointer
   (harmless under the three methods: the block goes, or the caller knows, or memset follows) *)
Definition clears_buf (k : lkind) : bool := match k with LOct | LBits => true | _ => false end.

(* events: KBuf = the contents buffer, KScratch = the BER decode stack hanging off _asn_ctx.ptr
   (its elements are folded into the one event), KStruct = the structure itself *)
Definition leaf_free (k : lkind) (m : meth) (bs : list Z) : list bkind * list Z :=
  let ev_buf := if field_nonzero k FBuf bs then [KBuf] else [] in
  let bs1 := if clears_buf k && field_nonzero k FBuf bs then clear_field k FBuf bs else bs in
  let ev_stk := if field_nonzero k FCtxPtr bs then [KScratch] else [] in
  let ev_top := if is_everything m then [KStruct] else [] in
  let bs2 := match m with FreeUnderlyingAndReset => memset_zero (wiped k) bs1 | _ => bs1 end in
  (ev_buf ++ ev_stk ++ ev_top, bs2).

Definition calloc (k : lkind) : list Z := repeat 0 (sizeof k).

(* ------------------------------------------------------------------ Part 2: a decoder that reads the old state *)
Fixpoint le_val (bs : list Z) : Z := match bs with [] => 0 | b :: r => b + 256 * le_val r end.
Definition bits_unused_of (bs : list Z) : Z :=
  match field_at LBits FBitsUnused with Some (o, l) => le_val (slice o l bs) | None => 0 end.

(* BIT_STRING_decode_uper (BIT_STRING.c): `if(len_bits & 0x7) st->bits_unused = 8 - (len_bits & 0x7);` —
   for a whole number of octets the field keeps what the structure held before the call *)
Definition uper_bits_unused (prior : list Z) (len_bits : Z) : Z :=
  if len_bits mod 8 =? 0 then bits_unused_of prior else 8 - len_bits mod 8.
(* what the value decoded is worth: X.691 has no unused-bits field, the length alone decides *)
Definition spec_bits_unused (len_bits : Z) : Z := (8 - len_bits mod 8) mod 8.

(* ------------------------------------------------------------------ Part 3: open type reader clean-up *)
(* the slot handed to oer_open_type_get: None = *struct_ptr is NULL (a pointer member: every extension addition;
   the inner decoder allocates the structure), Some s0 = storage provided by the caller (an inline member:
   open type holders, inline CHOICE alternatives) *)
Definition dispose_method (slot : option sv) : meth :=
  match slot with Some _ => FreeUnderlyingAndReset | None => FreeEverything end.

Inductive inner_result :=
| InnerOk (s : sv)           (* RC_OK: the member's structure *)
| InnerFail (s : sv).        (* RC_FAIL / RC_WMORE inside the closed container: what the inner decoder left in *struct_ptr *)

(* the blocks the inner decoder put on the ledger: the structure itself only when it had to allocate it *)
Definition slot_is_null (slot : option sv) : bool := match slot with None => true | Some _ => false end.
Definition inner_owned (t : ty) (p : path) (slot : option sv) (s : sv) : list block := owned t (slot_is_null slot) p s.

(* FREEMEM events, the slot afterwards, success *)
Definition open_get (t : ty) (p : path) (slot : option sv) (r : inner_result) : list block * option sv * bool :=
  match r with
  | InnerOk s => ([], Some s, true)
  | InnerFail s => (free_model t (dispose_method slot) p s,
                    match slot with None => None | Some _ => Some (memset0 s) end, false)
  end.

(* the mistake of choosing the method AFTER the inner decoder ran (then *struct_ptr is never NULL) *)
Definition open_get_late (t : ty) (p : path) (r : inner_result) : list block :=
  match r with InnerOk _ => [] | InnerFail s => free_model t FreeUnderlyingAndReset p s end.

(* ------------------------------------------------------------------ Part 4: extension / open type holders *)
Definition ext_holder (tg : Z) (root adds : list ty) : ty := TSeq tg (root ++ map TOpt adds).
Definition open_holder (rows : list ty) : ty := TChoice rows.

Definition absent_from (n : nat) (vs : list val) : list val := firstn n vs ++ map (fun _ => VNone) (skipn n vs).

(* the structure after RC_FAIL inside the open type container of addition j of an extensible SEQUENCE with
   [nroot] root members: members before it as decoded, its own slot NULL again (open_get), the later ones
   never touched (CALLOC) *)
Definition fail_in_addition (oerd : bool) (nroot j : nat) (t : ty) (v : val) : sv :=
  match v with
  | VSeq vs => of_val oerd t (VSeq (absent_from (nroot + j) vs))
  | _ => of_val oerd t v
  end.
