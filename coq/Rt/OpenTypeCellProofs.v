(* Rt/OpenTypeCellProofs.v — theorems about Rt/OpenTypeCell.v (C18: the encoding of
   identifier cells).
   - [cell_octets z] denotes z, is minimal, for EVERY integer z; it is injective;
   - the compiler's emitter [emit_wide_cell] yields exactly [cell_octets] wherever it
     yields anything, and it yields something exactly on 0..32767;
   - the selector on the table of octet cells, called with the octets of the decoded
     identifier, is the selector on the abstract table ([select_encoded]); hence the
     emitted INTEGER_t table resolves like the object set as written
     ([emit_table_wide_partial]) and a frame decoder over it is the abstract one
     ([wide_frame_equiv], [wide_uper_frame_equiv]);
   - a cell that is one octet short (the high octet of a 128..255 identifier dropped)
     loses its row and answers to another identifier ([short_cell_refuted]: what a
     wrong boundary in the emitter does). *)
From Coq Require Import ZArith List Lia Bool ZifyBool.
From A1 Require Import Base.Bytes Leaf.IntegerConv Leaf.IntegerConvProofs Leaf.NativeWideProofs
  Leaf.BerTL Rt.Types Rt.Comb Rt.Der Rt.Uper Rt.OpenType Rt.OpenTypeProofs Rt.OpenTypeCell.
Import ListNotations.
Local Open Scope Z_scope.

(* ---------------- n octets of two's complement ---------------- *)

Lemma twos_be_bytes k z :
  - (128 * 256 ^ Z.of_nat k) <= z < 128 * 256 ^ Z.of_nat k ->
  twos_value (be_bytes (S k) (z mod 256 ^ Z.of_nat (S k))) = z.
Proof.
  intros Hz.
  pose proof (pow256_pos k) as HP.
  rewrite pow256_S. set (P := 256 ^ Z.of_nat k) in *.
  set (u := z mod (256 * P)).
  assert (Hu : 0 <= u < 256 * P) by (apply Z.mod_pos_bound; lia).
  assert (Hbe : be_val (be_bytes (S k) u) = u).
  { rewrite be_val_be_bytes, pow256_S. fold P. apply Z.mod_small; lia. }
  assert (Hlen : zlen (be_bytes (S k) u) = Z.of_nat (S k)).
  { unfold zlen. rewrite be_bytes_length. reflexivity. }
  remember (be_bytes (S k) u) as bs eqn:Ebs.
  cbn [be_bytes] in Ebs. fold P in Ebs.
  destruct bs as [|b tl]; [discriminate|].
  injection Ebs as Eb Etl.
  unfold twos_value. rewrite Hbe, Hlen, pow256_S. fold P.
  assert (Hb : b = u / P).
  { rewrite Eb. apply Z.mod_small. split; [apply Z.div_pos; lia|].
    apply Z.div_lt_upper_bound; lia. }
  destruct (Z_lt_le_dec z 0) as [Hneg|Hpos].
  - assert (Eu : u = z + 256 * P).
    { subst u. symmetry. apply Z.mod_unique_pos with (q := -1); lia. }
    assert (128 <= b).
    { rewrite Hb. apply Z.div_le_lower_bound; lia. }
    destruct (128 <=? b) eqn:E; lia.
  - assert (Eu : u = z) by (subst u; apply Z.mod_small; lia).
    assert (b < 128).
    { rewrite Hb. apply Z.div_lt_upper_bound; lia. }
    destruct (128 <=? b) eqn:E; lia.
Qed.

Lemma octets_enough_bound z :
  - (128 * 256 ^ Z.of_nat (S (Z.to_nat (Z.log2 (Z.abs z))))) <= z
    < 128 * 256 ^ Z.of_nat (S (Z.to_nat (Z.log2 (Z.abs z)))).
Proof.
  set (a := Z.abs z). set (L := Z.log2 a).
  assert (HL : 0 <= L) by apply Z.log2_nonneg.
  assert (Ha : a < 2 ^ (L + 1)).
  { destruct (Z.eq_dec a 0) as [E|E].
    - rewrite E. apply Z.pow_pos_nonneg; lia.
    - assert (0 < a) by (unfold a in *; lia).
      replace (L + 1) with (Z.succ L) by lia. apply Z.log2_spec. assumption. }
  replace (Z.of_nat (S (Z.to_nat L))) with (L + 1) by (rewrite Nat2Z.inj_succ, Z2Nat.id; lia).
  assert (Hle : 2 ^ (L + 1) <= 256 ^ (L + 1)) by (apply Z.pow_le_mono_l; lia).
  unfold a in *. lia.
Qed.

(* ---------------- the reference cell ---------------- *)

Theorem cell_octets_denotes z :
  twos_value (cell_octets z) = z /\ minimal_twos (cell_octets z) = true /\
  bytes_ok (cell_octets z) /\ cell_octets z <> [].
Proof.
  unfold cell_octets, octets_enough.
  set (k := S (Z.to_nat (Z.log2 (Z.abs z)))).
  set (bs := be_bytes (S k) (z mod 256 ^ Z.of_nat (S k))).
  assert (Hne : bs <> []) by (unfold bs; cbn [be_bytes]; congruence).
  destruct (strip_spec bs (be_bytes_ok _ _) Hne) as (H1 & H2 & H3 & _ & H5).
  rewrite H1. unfold bs. rewrite twos_be_bytes by (apply octets_enough_bound).
  auto.
Qed.

Theorem cell_octets_inj a b : cell_octets a = cell_octets b -> a = b.
Proof.
  intros H. destruct (cell_octets_denotes a) as (Ha & _). destruct (cell_octets_denotes b) as (Hb & _).
  rewrite <- Ha, <- Hb, H. reflexivity.
Qed.

(* any minimal octet string that denotes z IS the cell of z *)
Theorem cell_octets_unique z bs :
  bytes_ok bs -> minimal_twos bs = true -> twos_value bs = z -> bs = cell_octets z.
Proof.
  intros Hok Hmin Hv. destruct (cell_octets_denotes z) as (Hz & Hm & Ho & _).
  apply minimal_twos_unique_nw; auto. congruence.
Qed.

(* INTEGER_compare == 0 compares the VALUES of two non-empty INTEGER_t *)
Theorem octets_eqb_value a b : bytes_ok a -> bytes_ok b -> a <> [] -> b <> [] ->
  (octets_eqb a b = true <-> twos_value a = twos_value b).
Proof.
  intros Ha Hb Na Nb.
  destruct (strip_spec a Ha Na) as (Va & Ma & Oa & _ & _).
  destruct (strip_spec b Hb Nb) as (Vb & Mb & Ob & _ & _).
  assert (E : octets_eqb a b = bytes_eqb (strip a) (strip b)).
  { destruct a; [congruence|]. destruct b; [congruence|]. reflexivity. }
  rewrite E. split; intros H.
  - apply bytes_eqb_eq in H. rewrite <- Va, <- Vb, H. reflexivity.
  - apply bytes_eqb_eq. apply minimal_twos_unique_nw; auto. congruence.
Qed.

Lemma octets_eqb_empty b : octets_eqb [] b = true <-> b = [].
Proof. destruct b; cbn; split; intros H; congruence. Qed.

Lemma cell_octets_eqb z bs : bytes_ok bs -> bs <> [] ->
  octets_eqb (cell_octets z) bs = (z =? twos_value bs).
Proof.
  intros Hb Nb. destruct (cell_octets_denotes z) as (Hz & _ & Ho & Hn).
  pose proof (octets_eqb_value (cell_octets z) bs Ho Hb Hn Nb) as H. rewrite Hz in H.
  destruct (z =? twos_value bs) eqn:E.
  - apply H. lia.
  - destruct (octets_eqb (cell_octets z) bs) eqn:B; [|reflexivity].
    assert (z = twos_value bs) by (apply H; reflexivity). lia.
Qed.

Lemma cells_eqb z y : octets_eqb (cell_octets z) (cell_octets y) = (z =? y).
Proof.
  destruct (cell_octets_denotes y) as (Hy & _ & Ho & Hn).
  rewrite cell_octets_eqb by assumption. rewrite Hy. reflexivity.
Qed.

(* ---------------- the compiler's emitter ---------------- *)

Lemma twos_value_1 b : 0 <= b < 128 -> twos_value [b] = b.
Proof.
  intros H. rewrite twos_value_cons. unfold sbyte, zlen. cbn [length be_val].
  change (Z.of_nat 0) with 0. rewrite Z.pow_0_r. destruct (128 <=? b) eqn:E; lia.
Qed.

Lemma twos_value_2 q r : 0 <= q < 128 -> twos_value [q; r] = q * 256 + r.
Proof.
  intros H. rewrite twos_value_cons. unfold sbyte, zlen. cbn [length be_val].
  change (Z.of_nat 1) with 1. change (Z.of_nat 0) with 0. rewrite Z.pow_0_r, Z.pow_1_r.
  destruct (128 <=? q) eqn:E; lia.
Qed.

Theorem emit_wide_cell_sound z bs : emit_wide_cell z = Some bs ->
  twos_value bs = z /\ minimal_twos bs = true /\ bytes_ok bs.
Proof.
  unfold emit_wide_cell. intros H.
  destruct (0 <=? z) eqn:E0; [|discriminate].
  destruct (z <=? 127) eqn:E1.
  - injection H as <-. repeat split.
    + apply twos_value_1. lia.
    + repeat constructor; unfold byte_ok; lia.
  - destruct (z <=? 32767) eqn:E2; [|discriminate].
    injection H as <-.
    assert (Hq : 0 <= z / 256 < 128).
    { split; [apply Z.div_pos; lia|apply Z.div_lt_upper_bound; lia]. }
    assert (Hr : 0 <= z mod 256 < 256) by (apply Z.mod_pos_bound; lia).
    pose proof (Z.div_mod z 256 ltac:(lia)) as Hdm.
    repeat split.
    + rewrite twos_value_2 by lia. lia.
    + cbn [minimal_twos].
      destruct (z / 256 =? 0) eqn:Eq; destruct (z mod 256 <? 128) eqn:Er;
        destruct (z / 256 =? 255) eqn:Ef; cbn; try reflexivity; lia.
    + repeat constructor; unfold byte_ok; lia.
Qed.

Theorem emit_wide_cell_exact z bs : emit_wide_cell z = Some bs -> bs = cell_octets z.
Proof.
  intros H. destruct (emit_wide_cell_sound z bs H) as (Hv & Hm & Ho).
  apply cell_octets_unique; assumption.
Qed.

Theorem emit_wide_cell_domain z : emit_wide_cell z = None <-> (z < 0 \/ 32767 < z).
Proof.
  unfold emit_wide_cell.
  destruct (0 <=? z) eqn:E0; destruct (z <=? 127) eqn:E1; destruct (z <=? 32767) eqn:E2;
    split; intros H; try discriminate; try reflexivity; lia.
Qed.

(* ---------------- tables ---------------- *)

Definition int_cells (tbl : table) : Prop := Forall (fun r => exists z, fst r = VInt z) tbl.

Lemma emit_rows_wide_exact tbl : int_cells tbl -> forall etbl,
  emit_rows RWide tbl = Some etbl -> etbl = encode_table tbl.
Proof.
  induction 1 as [|r tl [z Hz] _ IH]; intros etbl H.
  - cbn in H. injection H as <-. reflexivity.
  - cbn [emit_rows] in H. rewrite Hz in H. cbn [emit_cell] in H.
    destruct (emit_wide_cell z) as [bs|] eqn:Ec; [|discriminate].
    destruct (emit_rows RWide tl) as [t|] eqn:Et; [|discriminate].
    injection H as <-. cbn [encode_table map]. rewrite Hz. cbn [encode_cell].
    rewrite (emit_wide_cell_exact z bs Ec), (IH t eq_refl). reflexivity.
Qed.

Lemma emit_rows_native tbl : int_cells tbl -> emit_rows RNative tbl = Some tbl.
Proof.
  induction 1 as [|r tl [z Hz] _ IH]; [reflexivity|].
  cbn [emit_rows]. rewrite Hz, IH. cbn [emit_cell]. destruct r as [c tys]. cbn in *. subst c. reflexivity.
Qed.

Lemma select_from_encoded tbl z : int_cells tbl -> forall k,
  select_by (cell_eqb RWide) (VOct (cell_octets z)) (encode_table tbl) k = select_from (VInt z) tbl k.
Proof.
  induction 1 as [|r tl [y Hy] _ IH]; intros k; [reflexivity|].
  cbn [encode_table map select_by select_from fst snd]. rewrite Hy. cbn [encode_cell id_eqb cell_eqb].
  rewrite cells_eqb. destruct (z =? y); [reflexivity|]. apply IH.
Qed.

(* more: ANY table of non-empty octet cells that DENOTE the identifiers (minimal or not) resolves
   like the abstract table, for any octets denoting the identifier (a non-minimal BER identifier too) *)
Definition cells_denote (etbl tbl : table) : Prop :=
  Forall2 (fun er r => snd er = snd r /\ exists bs z, fst er = VOct bs /\ fst r = VInt z /\
                       bytes_ok bs /\ bs <> [] /\ twos_value bs = z) etbl tbl.

Theorem select_denoting etbl tbl key : cells_denote etbl tbl -> bytes_ok key -> key <> [] ->
  select_octets etbl key = select tbl (VInt (twos_value key)).
Proof.
  intros H Hk Nk. unfold select_octets, select. generalize 0%nat as k.
  induction H as [|er r etl tl (Hs & bs & z & He & Hr & Hb & Nb & Hv) _ IH]; intros k; [reflexivity|].
  cbn [select_by select_from]. rewrite He, Hr, Hs. cbn [cell_eqb id_eqb].
  assert (E : octets_eqb key bs = (twos_value key =? z)).
  { pose proof (octets_eqb_value key bs Hk Hb Nk Nb) as HH. rewrite Hv in HH.
    destruct (twos_value key =? z) eqn:E.
    - apply HH. lia.
    - destruct (octets_eqb key bs) eqn:B; [|reflexivity].
      assert (twos_value key = z) by (apply HH; reflexivity). lia. }
  rewrite E. destruct (twos_value key =? z); [reflexivity|]. apply IH.
Qed.

(* the selector over octet cells, given the octets of the identifier, is the
   selector over the abstract cells *)
Theorem select_encoded tbl z : int_cells tbl ->
  select_rep RWide (encode_table tbl) (VInt z) = select tbl (VInt z).
Proof. intros H. unfold select_rep, select, key_of. cbn [encode_cell]. apply select_from_encoded. exact H. Qed.

Lemma encode_table_denotes tbl : int_cells tbl -> cells_denote (encode_table tbl) tbl.
Proof.
  induction 1 as [|r tl [z Hz] _ IH]; [constructor|].
  cbn [encode_table map]. constructor; [|exact IH]. cbn [fst snd]. split; [reflexivity|].
  destruct (cell_octets_denotes z) as (Hv & _ & Ho & Hn).
  exists (cell_octets z), z. rewrite Hz. cbn [encode_cell]. auto.
Qed.

Theorem emit_table_wide_partial s t :
  Forall (fun g => length g <> 1%nat) s -> int_cells (concat s) ->
  emit_table RWide s = Some t ->
  t = encode_table (spec_table s) /\
  forall z, select_rep RWide t (VInt z) = select (spec_table s) (VInt z).
Proof.
  intros Hl Hc H. unfold emit_table in H. rewrite compile_groups_id in H by exact Hl.
  apply emit_rows_wide_exact in H; [|exact Hc]. split; [exact H|].
  intros z. rewrite H. apply select_encoded. exact Hc.
Qed.

(* the compiler accepts a set under -fwide-types exactly when every identifier is in 0..32767 *)
Theorem emit_rows_wide_domain tbl : int_cells tbl ->
  (emit_rows RWide tbl <> None <-> Forall (fun r => exists z, fst r = VInt z /\ 0 <= z <= 32767) tbl).
Proof.
  induction 1 as [|r tl [z Hz] _ IH].
  - split; intros _; [constructor|discriminate].
  - cbn [emit_rows]. rewrite Hz. cbn [emit_cell]. split.
    + intros H. destruct (emit_wide_cell z) as [bs|] eqn:Ec; [|congruence].
      destruct (emit_rows RWide tl) eqn:Et; [|congruence].
      constructor.
      * exists z. split; [exact Hz|].
        destruct (Z_lt_le_dec z 0); [|destruct (Z_lt_le_dec 32767 z); [|lia]];
          (assert (emit_wide_cell z = None) by (apply emit_wide_cell_domain; lia); congruence).
      * apply IH. congruence.
    + intros H. inversion H as [|? ? (y & Hy & Hr) Htl]; subst.
      rewrite Hz in Hy. injection Hy as <-.
      destruct (emit_wide_cell z) eqn:Ec.
      * apply IH in Htl. destruct (emit_rows RWide tl); congruence.
      * apply emit_wide_cell_domain in Ec. lia.
Qed.

(* ---------------- frames ---------------- *)

Lemma dec_frame_body_native f c : dec_frame_body_rep RNative f c = dec_frame_body f c.
Proof. reflexivity. Qed.

(* a frame decoder over the emitted INTEGER_t table = the abstract decoder, whenever the
   identifier member decodes to INTEGER values (it is an INTEGER member) *)
Theorem wide_frame_equiv idt opens tbl c : int_cells tbl ->
  (forall idv r, ber_dec idt c = Some (idv, r) -> exists z, idv = VInt z) ->
  dec_frame_body_rep RWide (Frame idt opens (encode_table tbl)) c = dec_frame_body (Frame idt opens tbl) c.
Proof.
  intros Hc Hint. unfold dec_frame_body_rep, dec_frame_body. cbn [f_idt f_opens f_tbl].
  destruct (ber_dec idt c) as [[idv r]|] eqn:E; [|reflexivity].
  destruct (Hint idv r eq_refl) as [z ->].
  rewrite select_encoded by exact Hc. reflexivity.
Qed.

(* an INTEGER member (under any number of EXPLICIT tags) decodes to INTEGER values *)
Fixpoint int_ty (t : ty) : bool :=
  match t with
  | TInt _ _ => true
  | TTag _ t' => int_ty t'
  | _ => false
  end.

Lemma in_prim_inv {A} tg bs (k : list Z -> option A) a rest :
  in_prim tg bs k = Some (a, rest) -> exists c, k c = Some a.
Proof.
  unfold in_prim. destruct (tlv_open bs) as [[[[tg' cons] len] rem]|]; [|discriminate].
  destruct cons; [discriminate|].
  destruct ((tg' =? tg) && (0 <=? len) && (len <=? zlen rem)); [|discriminate].
  destruct (k (firstn (Z.to_nat len) rem)) eqn:E; [|discriminate].
  intros H. injection H as <- <-. eauto.
Qed.

Lemma int_ty_ber_dec t : int_ty t = true -> forall bs v r,
  ber_dec t bs = Some (v, r) -> exists z, v = VInt z.
Proof.
  induction t; cbn [int_ty]; try discriminate; intros Hi bs v r H.
  - cbn [ber_dec] in H. apply in_prim_inv in H. destruct H as [cs H].
    destruct cs; [discriminate|]. destruct (fits_long _); [|discriminate]. injection H as <-. eauto.
  - cbn [ber_dec] in H. apply in_cons_inv in H. destruct H as (cs & r' & H). eapply IHt; eauto.
Qed.

Lemma int_ty_uper_dec std c tg bs v r :
  uper_dec std (TInt tg c) bs = Some (v, r) -> exists z, v = VInt z.
Proof.
  cbn [uper_dec]. destruct (uper_dec_int c bs) as [[z r']|]; [|discriminate].
  destruct (fits_long z); [|discriminate]. intros H. injection H as <- _. eauto.
Qed.

Theorem wide_frame_equiv_int idt opens tbl c : int_cells tbl -> int_ty idt = true ->
  dec_frame_body_rep RWide (Frame idt opens (encode_table tbl)) c = dec_frame_body (Frame idt opens tbl) c.
Proof.
  intros Hc Hi. apply wide_frame_equiv; [exact Hc|]. intros idv r H. eapply int_ty_ber_dec; eauto.
Qed.

Theorem wide_ber_frame_equiv idt opens tbl bs : int_cells tbl -> int_ty idt = true ->
  ber_dec_frame_rep RWide (Frame idt opens (encode_table tbl)) bs = ber_dec_frame (Frame idt opens tbl) bs.
Proof.
  intros Hc Hi. unfold ber_dec_frame_rep, ber_dec_frame, in_cons.
  destruct (tlv_open bs) as [[[[tg' cons] len] rem]|]; [|reflexivity].
  destruct cons; [|reflexivity]. destruct (tg' =? seq_tag); [|reflexivity].
  rewrite !wide_frame_equiv_int by assumption. reflexivity.
Qed.

Theorem wide_uper_frame_equiv idt opens tbl bs : int_cells tbl ->
  (forall idv r, uper_dec false idt bs = Some (idv, r) -> exists z, idv = VInt z) ->
  uper_dec_frame_rep RWide (Frame idt opens (encode_table tbl)) bs = uper_dec_frame (Frame idt opens tbl) bs.
Proof.
  intros Hc Hint. unfold uper_dec_frame_rep, uper_dec_frame. cbn [f_idt f_opens f_tbl].
  destruct (uper_dec false idt bs) as [[idv r]|] eqn:E; [|reflexivity].
  destruct (Hint idv r eq_refl) as [z ->].
  rewrite select_encoded by exact Hc. reflexivity.
Qed.

Theorem wide_uper_frame_equiv_int tg c opens tbl bs : int_cells tbl ->
  uper_dec_frame_rep RWide (Frame (TInt tg c) opens (encode_table tbl)) bs =
  uper_dec_frame (Frame (TInt tg c) opens tbl) bs.
Proof.
  intros Hc. apply wide_uper_frame_equiv; [exact Hc|]. intros idv r H. eapply int_ty_uper_dec; eauto.
Qed.

(* the encoders never look at identifier cells *)
Lemma row_types_encoded tbl p : row_types (encode_table tbl) p = row_types tbl p.
Proof.
  unfold row_types, encode_table. revert p.
  induction tbl as [|r tl IH]; intros [|p]; cbn [map nth_error snd]; try reflexivity. apply IH.
Qed.

Lemma der_opens_encoded tbl tags : forall j ovs,
  der_opens (encode_table tbl) tags j ovs = der_opens tbl tags j ovs.
Proof.
  induction tags as [|tag tags IH]; intros j ovs; destruct ovs as [|ov ovs']; try reflexivity.
  cbn [der_opens]. rewrite row_types_encoded, IH. reflexivity.
Qed.

Lemma uper_opens_encoded tbl : forall ovs j,
  uper_opens (encode_table tbl) j ovs = uper_opens tbl j ovs.
Proof.
  induction ovs as [|ov ovs' IH]; intros j; [reflexivity|].
  cbn [uper_opens]. rewrite row_types_encoded, IH. reflexivity.
Qed.

Theorem der_frame_encoded idt opens tbl fv :
  der_frame (Frame idt opens (encode_table tbl)) fv = der_frame (Frame idt opens tbl) fv.
Proof. unfold der_frame. cbn [f_idt f_opens f_tbl]. rewrite der_opens_encoded. reflexivity. Qed.

Theorem uper_frame_encoded idt opens tbl fv :
  uper_frame (Frame idt opens (encode_table tbl)) fv = uper_frame (Frame idt opens tbl) fv.
Proof. unfold uper_frame. cbn [f_idt f_opens f_tbl]. rewrite uper_opens_encoded. reflexivity. Qed.

(* ---------------- a cell one octet short ---------------- *)

(* the emitter with the one-octet case taken up to 255: identifier 200 loses its row,
   and -56 (not in the set) selects it *)
Definition emit_wide_cell_short (v : Z) : option (list Z) :=
  if 0 <=? v then
    if v <=? 255 then Some [v]
    else if v <=? 32767 then Some [v / 256; v mod 256]
    else None
  else None.

Theorem short_cell_refuted :
  exists z bs t, emit_wide_cell_short z = Some bs /\
    select_rep RWide [(VOct bs, [t])] (VInt z) = None /\
    select_rep RWide [(VOct bs, [t])] (VInt (z - 256)) <> None /\
    select_rep RWide (encode_table [(VInt z, [t])]) (VInt z) <> None /\
    select_rep RWide (encode_table [(VInt z, [t])]) (VInt (z - 256)) = None.
Proof.
  exists 200, [200], (TBool 1). vm_compute. repeat split; congruence.
Qed.

Example cell_examples :
  map cell_octets [0; 1; 127; 128; 255; 256; 32767; 32768; 65535; 65536; -1; -128; -129; -32768; -32769; 4294967295] =
  [[0]; [1]; [127]; [0;128]; [0;255]; [1;0]; [127;255]; [0;128;0]; [0;255;255]; [1;0;0]; [255]; [128]; [255;127];
   [128;0]; [255;127;255]; [0;255;255;255;255]].
Proof. vm_compute. reflexivity. Qed.
