(* Rt/Depth.v — C15: the decoder call graph with stack guards, and value sizes.
   Executable definitions only (proofs: DepthProofs.v).

   Recursion in a generated decoder follows the type graph of the module: the
   decoder of a constructed type calls the decoders of its members.  Rt/Types.v
   inlines references (no recursive types), so recursion is modelled directly as
   a CALL GRAPH: nodes are decoder instances (one per constructed type and
   transfer syntax), an edge u -> v says "u's decoder may call v's decoder", and
   [cg_guarded] lists the nodes whose decoder evaluates
   ASN__STACK_OVERFLOW_CHECK on entry (directly, or through ber_check_tags /
   ber_skip_length) and fails when it reports an overflow.

   A CHAIN is a call stack (outermost first).  Every frame costs [fr v] > 0 bytes
   of stack; the check at a guarded node compares the stack used so far
   (including the node's own frame) with max_stack.  A chain is ADMISSIBLE when
   no guard on it fires: that is a call stack the input can drive the decoder
   into.  The property is a bound on the length (and stack use) of admissible
   chains. *)
From Coq Require Import ZArith List Bool Arith.
From A1 Require Import Rt.Types.
Import ListNotations.
Local Open Scope Z_scope.

Notation node := nat (only parsing).

Record cgraph := mkCg {
  cg_edges : list (node * node);
  cg_guarded : list node
}.

Definition nmem (x : node) (l : list node) : bool := existsb (Nat.eqb x) l.

Definition is_edge (g : cgraph) (u v : node) : bool :=
  existsb (fun e => Nat.eqb (fst e) u && Nat.eqb (snd e) v) (cg_edges g).

Definition guardedb (g : cgraph) (v : node) : bool := nmem v (cg_guarded g).
Definition unguardedb (g : cgraph) (v : node) : bool := negb (guardedb g v).

Fixpoint is_chain (g : cgraph) (c : list node) : bool :=
  match c with
  | u :: r => match r with
              | v :: _ => is_edge g u v && is_chain g r
              | [] => true
              end
  | [] => true
  end.

Fixpoint usage (fr : node -> Z) (c : list node) : Z :=
  match c with
  | [] => 0
  | v :: r => fr v + usage fr r
  end.

(* no guard fires along the chain; [used] = stack bytes in use before its first frame *)
Fixpoint admissible (g : cgraph) (fr : node -> Z) (max : Z) (used : Z) (c : list node) : bool :=
  match c with
  | [] => true
  | v :: r =>
      let u := used + fr v in
      if guardedb g v && (max <? u) then false else admissible g fr max u r
  end.

(* the depth-indexed run: the input asks for the call path [path]; the result is
   the depth at which a guard fired, or the whole path *)
Inductive outcome := GuardFired (depth : nat) | Completed (depth : nat).

Fixpoint run_path (g : cgraph) (fr : node -> Z) (max : Z) (used : Z) (depth : nat) (path : list node) : outcome :=
  match path with
  | [] => Completed depth
  | v :: r =>
      let u := used + fr v in
      if guardedb g v && (max <? u) then GuardFired (S depth) else run_path g fr max u (S depth) r
  end.

(* ---------------- "every cycle passes a guard", decidable by a rank certificate ----------------
   rank: one natural number per node (by position; missing = 0).  The certificate
   is valid when the rank strictly decreases along every edge between two
   unguarded nodes: the unguarded part of the graph is then acyclic, i.e. every
   cycle contains a guarded node. *)
Definition rank_of (rk : list nat) (v : node) : nat := nth v rk O.

Definition rank_ok (g : cgraph) (rk : list nat) : bool :=
  forallb (fun e =>
             guardedb g (fst e) || guardedb g (snd e) ||
             Nat.ltb (rank_of rk (snd e)) (rank_of rk (fst e))) (cg_edges g).

(* ranks computed by relaxation: after k rounds, rank v >= length of the longest
   unguarded path of at most k edges leaving v.  Not proved correct: its result
   is only ever used as a certificate for [rank_ok]. *)
Definition relax (g : cgraph) (n : nat) (rk : list nat) : list nat :=
  map (fun u =>
         fold_left (fun acc e =>
                      if Nat.eqb (fst e) u && negb (guardedb g u) && negb (guardedb g (snd e))
                      then Nat.max acc (S (rank_of rk (snd e))) else acc)
                   (cg_edges g) O)
      (seq 0 n).

Fixpoint iter_relax (g : cgraph) (n : nat) (k : nat) (rk : list nat) : list nat :=
  match k with
  | O => rk
  | S k' => iter_relax g n k' (relax g n rk)
  end.

Definition ranks (g : cgraph) (n : nat) : list nat := iter_relax g n n (repeat O n).

Definition max_rank (rk : list nat) : nat := fold_right Nat.max O rk.

(* the decision the check uses: Some R = every cycle passes a guard, unguarded runs have at most R+1 frames *)
Definition all_cycles_guarded (g : cgraph) (n : nat) : option nat :=
  let rk := ranks g n in
  if rank_ok g rk then Some (max_rank rk) else None.

(* a witness of the opposite: an unguarded lead-in and an unguarded cycle *)
Definition unguarded_cycle (g : cgraph) (pre cyc : list node) : bool :=
  match cyc with
  | [] => false
  | h :: _ =>
      forallb (unguardedb g) (pre ++ cyc) && is_chain g (pre ++ cyc ++ [h])
  end.

Fixpoint rep_cycle (cyc : list node) (k : nat) : list node :=
  match k with
  | O => []
  | S k' => cyc ++ rep_cycle cyc k'
  end.

(* ---------------- the call graphs of the modules of checks/c15.py ----------------
   Node numbering (one graph per transfer syntax, same nodes):
     0 T   SEQUENCE { next T OPTIONAL }            edges 0->0
     1 L   SEQUENCE OF L                           1->1
     2 S   SET OF S                                2->2
     3 C   CHOICE { c [0] C, n [1] NULL }          3->3
     4 X   SEQUENCE { x [0] EXPLICIT X OPTIONAL }  4->4
     5 M   CHOICE { s [0] SEQUENCE {..}, n }       5->6
     6 M.s SEQUENCE { m M OPTIONAL }               6->5
     7 E   SEQUENCE { a BOOLEAN, ..., e E OPT }    7->8 (open type in PER/OER; direct in BER/XER: 7->7)
     8 the open-type reader (uper_open_type_get_simple / oer_open_type_get): 8->7
   Guard table (reviewed input harness/c15_guards.json, re-extracted from the
   skeleton sources by the check):
     BER : SEQUENCE, SET OF (ber_check_tags on entry), CHOICE when it has tags or is
           entered through a tagged member (C: yes; M: no, untagged member m)
     UPER: SEQUENCE, SET OF, CHOICE and the open-type reader
     OER : SEQUENCE, SET OF, CHOICE; the open-type reader (oer_open_type_get) has
           no check of its own: it sits between two guarded SEQUENCE nodes
     XER : SEQUENCE, SET OF, CHOICE (node 8 is not part of the XER graph) *)
Definition c15_edges : list (node * node) :=
  [(0,0); (1,1); (2,2); (3,3); (4,4); (5,6); (6,5); (7,7); (7,8); (8,7)]%nat.
Definition c15_nodes : nat := 9.
Definition cg_ber  : cgraph := mkCg c15_edges [0; 1; 2; 3; 4; 6; 7]%nat.
Definition cg_uper : cgraph := mkCg c15_edges [0; 1; 2; 3; 4; 5; 6; 7; 8]%nat.
Definition cg_oer  : cgraph := mkCg c15_edges [0; 1; 2; 3; 4; 5; 6; 7]%nat.
Definition cg_xer  : cgraph := mkCg c15_edges [0; 1; 2; 3; 4; 5; 6; 7]%nat.

(* ---------------- heap: the dynamic size of a decoded value ----------------
   One unit per value node that has a TLV of its own, one per content octet of
   a string, one per list element; an absent OPTIONAL costs nothing and a CHOICE /
   present OPTIONAL costs what the chosen value costs (their storage is part of
   the enclosing structure: the constant K of the property). *)
Definition sum_sizes (f : val -> Z) : list val -> Z :=
  fix go vs := match vs with [] => 0 | v :: r => f v + go r end.

Fixpoint vsize (v : val) : Z :=
  match v with
  | VBool _ | VNull | VInt _ => 1
  | VOct bs => 1 + Z.of_nat (length bs)
  | VSeq vs => 1 + sum_sizes vsize vs
  | VList vs => 1 + sum_sizes vsize vs
  | VChoice _ v' => vsize v'
  | VNone => 0
  | VSome v' => vsize v'
  end.

(* PER / OER zero-width elements: a SEQUENCE OF NULL of N elements is encoded by
   its count alone (DepthProofs.v, theorems zero_width_oer and heap_linear_oer_refuted). *)
Definition null_list (n : nat) : val := VList (repeat VNull n).
