(* Rt/PrimAProofs.v — theorems about the ENUMERATED / BIT STRING layer (Rt/PrimA.v).
   All statements are unbounded (induction, arithmetic); vm_compute only in the
   _refuted witnesses.  The base model's lemmas are reused: counted_rt / get_items_rt
   (UperCounted), get_bits_range / bits_to_bytes_spec (UperBits), nsnnwn_rt (ExtFormat),
   oer_fetch_length_inverse (ExtProofs), oer_take_app, oer_preamble_inverse,
   oer_quantity_inverse (OerLeaf), imax2INTEGER_canonical (IntegerConvProofs),
   uper_roundtrip_in_stream, oer_roundtrip_in_stream, der_decodes_all. *)
From Coq Require Import ZArith List Lia Bool ZifyBool.
From A1 Require Import Base.Bytes Leaf.IntegerConv Leaf.IntegerConvProofs Leaf.BerTL
  Rt.Types Rt.Comb Rt.Der Rt.DerProofs Rt.Uper Rt.UperBits Rt.UperCounted Rt.UperProofs
  Rt.Oer Rt.OerLeaf Rt.OerProofs Rt.Ext Rt.ExtFormat Rt.ExtProofs Rt.PrimA.
Import ListNotations.
Local Open Scope Z_scope.

Local Ltac Zify.zify_post_hook ::= Z.to_euclidean_division_equations.

(* ================= tables ================= *)

Lemma index_of_bound z l : forall i, index_of z l = Some i -> 0 <= i < zlen l.
Proof.
  induction l as [|y tl IH]; intros i H; cbn [index_of] in H; [discriminate|].
  rewrite zlen_cons. destruct (y =? z).
  - apply some_inj in H. subst i. pose proof (zlen_nonneg tl). lia.
  - destruct (index_of z tl) as [j|]; [|discriminate]. apply some_inj in H. subst i.
    specialize (IH j eq_refl). lia.
Qed.

Lemma index_of_nth z l : forall i, index_of z l = Some i -> nth_z l i = Some z.
Proof.
  induction l as [|y tl IH]; intros i H; cbn [index_of] in H; [discriminate|].
  destruct (y =? z) eqn:E.
  - apply some_inj in H. subst i. unfold nth_z. cbn. f_equal. lia.
  - destruct (index_of z tl) as [j|] eqn:Ej; [|discriminate]. apply some_inj in H. subst i.
    pose proof (index_of_bound z tl j Ej) as Hb. unfold nth_z in *.
    replace (Z.to_nat (j + 1)) with (S (Z.to_nat j)) by lia. cbn [nth_error]. apply IH. reflexivity.
Qed.

Lemma index_of_app z a b :
  index_of z (a ++ b) =
  match index_of z a with
  | Some i => Some i
  | None => match index_of z b with Some j => Some (zlen a + j) | None => None end
  end.
Proof.
  induction a as [|y tl IH]; cbn [app index_of].
  - destruct (index_of z b); [f_equal; unfold zlen; cbn; lia|reflexivity].
  - destruct (y =? z); [reflexivity|]. rewrite IH.
    destruct (index_of z tl); [reflexivity|].
    destruct (index_of z b); [|reflexivity]. f_equal. rewrite zlen_cons. lia.
Qed.

Lemma insert_z_length x l : length (insert_z x l) = S (length l).
Proof.
  induction l as [|y tl IH]; cbn [insert_z]; [reflexivity|].
  destruct (x <=? y); cbn [length]; [reflexivity|]. rewrite IH. reflexivity.
Qed.

Lemma sort_z_length l : length (sort_z l) = length l.
Proof.
  induction l as [|x tl IH]; cbn [sort_z fold_right]; [reflexivity|].
  fold (sort_z tl). rewrite insert_z_length, IH. reflexivity.
Qed.

Lemma zlen_sort_z l : zlen (sort_z l) = zlen l.
Proof. unfold zlen. rewrite sort_z_length. reflexivity. Qed.

(* ================= ENUMERATED, unaligned PER ================= *)

(* well-formed enumeration type for the C's reader: uper_get_nsnnwn reads an
   additional index of at most two octets *)
Definition enum_ok (root : list Z) (ext : bool) (adds : list Z) : Prop :=
  1 <= zlen root /\ zlen adds <= 65536 /\ (ext = false -> adds = []).

(* round trip, also when followed by arbitrary further data; no assumption on the
   order of the values: encoder and decoder use the same table *)
Theorem enum_uper_rt root ext adds z enc rest :
  enum_ok root ext adds -> enum_uper root ext adds z = Some enc ->
  enum_uper_dec root ext adds (enc ++ rest) = Some (z, rest).
Proof.
  intros (Hr & Ha & Hx) H. unfold enum_uper in H. unfold enum_uper_dec.
  set (tbl := enum_table root adds) in *.
  destruct (index_of z tbl) as [i|] eqn:Ei; [|discriminate].
  pose proof (index_of_bound z tbl i Ei) as Hb. pose proof (index_of_nth z tbl i Ei) as Hn.
  assert (Htl : zlen tbl = zlen root + zlen adds).
  { unfold tbl, enum_table. rewrite zlen_sort_z, zlen_app. reflexivity. }
  cbv zeta in *. destruct ext.
  - destruct (zlen root <=? i) eqn:Ec.
    + destruct (nsnnwn (i - zlen root)) as [b|] eqn:En; [|discriminate].
      apply some_inj in H. subst enc. cbn [app].
      rewrite (nsnnwn_rt (i - zlen root) b rest) by (try exact En; lia).
      replace (i - zlen root + zlen root) with i by lia.
      destruct (zlen tbl <=? i) eqn:E2; [lia|]. rewrite Hn. reflexivity.
    + apply some_inj in H. subst enc. cbn [app].
      rewrite get_bits_range by lia. rewrite Ec, Hn. reflexivity.
  - destruct (zlen tbl <=? i) eqn:Ec; [discriminate|].
    apply some_inj in H. subst enc.
    rewrite (Hx eq_refl) in Htl. unfold zlen at 3 in Htl. cbn [length] in Htl.
    rewrite get_bits_range by lia. rewrite Ec, Hn. reflexivity.
Qed.

(* C02: when the emitted table is the root values in ascending order followed by the
   additional values as written — true whenever every additional value lies above the
   root values (and they ascend, as X.680 demands) — the C writes what X.691 14 says *)
Theorem enum_uper_is_spec root ext adds z :
  enum_ok root ext adds -> enum_table root adds = sort_z root ++ adds ->
  enum_uper root ext adds z = spec_enum_uper root ext adds z.
Proof.
  intros (Hr & Ha & Hx) Ht. unfold enum_uper, spec_enum_uper. rewrite Ht.
  rewrite index_of_app. rewrite zlen_app, !zlen_sort_z. cbv zeta.
  destruct (index_of z (sort_z root)) as [i|] eqn:Ei.
  - pose proof (index_of_bound _ _ _ Ei) as Hb. rewrite zlen_sort_z in Hb.
    destruct ext.
    + destruct (zlen root <=? i) eqn:E; [lia|]. reflexivity.
    + destruct (zlen root + zlen adds <=? i) eqn:E; [pose proof (zlen_nonneg adds); lia|]. reflexivity.
  - destruct ext.
    + destruct (index_of z adds) as [j|] eqn:Ej; [|reflexivity].
      pose proof (index_of_bound _ _ _ Ej) as Hb.
      destruct (zlen root <=? zlen root + j) eqn:E; [|lia].
      replace (zlen root + j - zlen root) with j by lia. reflexivity.
    + rewrite (Hx eq_refl). reflexivity.
Qed.

(* ... and it does not in general: ENUMERATED { a(5), b(10), ..., c(7) } — valid X.680:
   an additional value only has to differ from the others and to ascend among the
   additional ones — the item c is sent as ROOT index 1 (which is b's), b as the
   first additional item *)
Theorem enum_uper_is_spec_refuted :
  exists root ext adds z, enum_ok root ext adds /\
    enum_uper root ext adds z <> spec_enum_uper root ext adds z.
Proof.
  exists [5; 10], true, [7], 7. split.
  - unfold enum_ok, zlen. cbn. split; [lia|]. split; [lia|]. discriminate.
  - vm_compute. discriminate.
Qed.

(* the C never fails on an item of the type (encoder totality) *)
Theorem enum_uper_total root ext adds z :
  enum_ok root ext adds -> In z (root ++ adds) -> exists enc, enum_uper root ext adds z = Some enc.
Proof.
  intros (Hr & Ha & Hx) Hin. unfold enum_uper. cbv zeta.
  assert (Hex : exists i, index_of z (enum_table root adds) = Some i).
  { unfold enum_table.
    assert (Hs : forall l x, In x l -> In x (sort_z l)).
    { induction l as [|y tl IH]; intros x Hx'; [destruct Hx'|].
      cbn [sort_z fold_right]. fold (sort_z tl).
      assert (Hi : forall a l', In x (a :: l') -> In x (insert_z a l')).
      { intros a l'. induction l' as [|b tl' IH']; intros H0; cbn [insert_z]; [exact H0|].
        destruct (a <=? b); [exact H0|]. destruct H0 as [->|[->|H0]].
        - right. apply IH'. left. reflexivity.
        - left. reflexivity.
        - right. apply IH'. right. exact H0. }
      apply Hi. destruct Hx' as [->|Hx']; [left; reflexivity|right; apply IH; exact Hx']. }
    specialize (Hs _ _ Hin). revert Hs. generalize (sort_z (root ++ adds)). intros l.
    induction l as [|y tl IH]; intros Hs; [destruct Hs|]. cbn [index_of].
    destruct (y =? z) eqn:E; [eexists; reflexivity|].
    destruct Hs as [->|Hs]; [lia|]. destruct (IH Hs) as [i Hi]. rewrite Hi. eexists; reflexivity. }
  destruct Hex as [i Hi]. rewrite Hi. pose proof (index_of_bound _ _ _ Hi) as Hb.
  assert (Htl : zlen (enum_table root adds) = zlen root + zlen adds).
  { unfold enum_table. rewrite zlen_sort_z, zlen_app. reflexivity. }
  destruct ext.
  - destruct (zlen root <=? i) eqn:E; [|eexists; reflexivity].
    unfold nsnnwn. destruct (i - zlen root <? 0) eqn:E0; [lia|].
    destruct (i - zlen root <=? 63); [eexists; reflexivity|]. cbv zeta.
    destruct (i - zlen root <? 256); [eexists; reflexivity|].
    destruct (i - zlen root <? 65536) eqn:E3; [eexists; reflexivity|lia].
  - destruct (zlen (enum_table root adds) <=? i) eqn:E; [lia|]. eexists; reflexivity.
Qed.

(* ================= ENUMERATED, OER ================= *)

Lemma imax_length z : fits_long z = true -> 1 <= zlen (imax2INTEGER z) <= 8.
Proof.
  intros Hz. unfold fits_long in Hz. unfold imax2INTEGER.
  assert (Hne : be_bytes 8 (to_unsigned64 z) <> []) by (cbn [be_bytes]; congruence).
  destruct (strip_spec _ (be_bytes_ok 8 (to_unsigned64 z)) Hne) as (_ & _ & _ & H4 & H5).
  rewrite be_bytes_length in H4. unfold zlen.
  destruct (strip (be_bytes 8 (to_unsigned64 z))); [congruence|]. cbn [length] in *. lia.
Qed.

Theorem enum_oer_rt z rest : fits_long z = true ->
  enum_oer_dec (enum_oer z ++ rest) = Some (z, rest).
Proof.
  intros Hz. unfold enum_oer.
  destruct ((0 <=? z) && (z <=? 127)) eqn:E.
  - cbn [app enum_oer_dec]. destruct (z <? 128) eqn:E1; [reflexivity|lia].
  - pose proof (imax_length z Hz) as Hl. cbv zeta. cbn [app enum_oer_dec].
    destruct (128 + zlen (imax2INTEGER z) <? 128) eqn:E1; [lia|].
    replace (128 + zlen (imax2INTEGER z) - 128) with (zlen (imax2INTEGER z)) by lia.
    destruct ((zlen (imax2INTEGER z) <? 1) || (8 <? zlen (imax2INTEGER z))) eqn:E2; [lia|].
    rewrite oer_take_app. unfold fits_long in Hz.
    destruct (imax2INTEGER_canonical z ltac:(lia)) as (H1 & _). rewrite H1. reflexivity.
Qed.

(* X.696 11.2 / 11.4: one octet below 128; otherwise the length octet with bit 8 set and
   the value in the FEWEST octets that hold it as a two's complement number *)
Theorem enum_oer_format z : fits_long z = true ->
  (0 <= z <= 127 -> enum_oer z = [z]) /\
  (~ 0 <= z <= 127 ->
   exists body, enum_oer z = (128 + zlen body) :: body /\ 1 <= zlen body <= 8 /\
                twos_value body = z /\ minimal_twos body = true /\ bytes_ok body).
Proof.
  intros Hz. unfold enum_oer. split; intros H.
  - destruct ((0 <=? z) && (z <=? 127)) eqn:E; [reflexivity|lia].
  - destruct ((0 <=? z) && (z <=? 127)) eqn:E; [lia|].
    exists (imax2INTEGER z). pose proof (imax_length z Hz). unfold fits_long in Hz.
    destruct (imax2INTEGER_canonical z ltac:(lia)) as (H1 & H2 & H3 & _). auto.
Qed.

(* ================= BIT STRING: trailing zero bits ================= *)

Lemma strip_tz_decomp bs : exists k, bs = strip_tz bs ++ repeat false k.
Proof.
  induction bs as [|b tl [k IH]]; [exists 0%nat; reflexivity|].
  cbn [strip_tz]. destruct (strip_tz tl) as [|c r] eqn:E.
  - destruct b.
    + exists k. cbn [app]. rewrite IH at 1. reflexivity.
    + exists (S k). cbn [app repeat]. rewrite IH at 1. reflexivity.
  - exists k. cbn [app]. rewrite IH at 1. reflexivity.
Qed.

(* canonical: nothing left to remove (X.690 11.2.2: ALL trailing 0 bits are removed) *)
Lemma strip_tz_last bs : strip_tz bs = [] \/ last (strip_tz bs) false = true.
Proof.
  induction bs as [|b tl IH]; [left; reflexivity|].
  cbn [strip_tz]. destruct (strip_tz tl) as [|c r] eqn:E.
  - destruct b; [right; reflexivity|left; reflexivity].
  - right. destruct IH as [IH|IH]; [discriminate|]. cbn [last] in *. exact IH.
Qed.

Lemma strip_tz_idem bs : strip_tz (strip_tz bs) = strip_tz bs.
Proof.
  induction bs as [|b tl IH]; [reflexivity|].
  cbn [strip_tz]. destruct (strip_tz tl) as [|c r] eqn:E.
  - destruct b; reflexivity.
  - cbn [strip_tz]. cbn [strip_tz] in IH. rewrite IH. reflexivity.
Qed.

Lemma strip_tz_length bs : zlen (strip_tz bs) <= zlen bs.
Proof.
  destruct (strip_tz_decomp bs) as [k H]. rewrite H at 2. rewrite zlen_app. pose proof (zlen_nonneg (repeat false k)). lia.
Qed.

(* ================= BIT STRING: DER contents ================= *)

Lemma unused_fill n : 0 <= n -> 8 * ((n + 7) / 8) - unused_bits n = n.
Proof. intros H. unfold unused_bits. lia. Qed.

Theorem bits_contents_rt bs : bits_of_contents (bits_contents bs) = Some bs.
Proof.
  unfold bits_contents, bits_of_contents.
  destruct (bits_to_bytes_spec bs) as [Hb Hl].
  pose proof (zlen_nonneg bs) as Hn. pose proof (unused_bits_range (zlen bs)) as Hu.
  destruct (bits_to_bytes bs) as [|o os] eqn:E.
  - unfold zlen in Hl at 1. cbn [length] in Hl.
    assert (Hz : zlen bs = 0) by lia. destruct bs; [|rewrite zlen_cons in Hz; pose proof (zlen_nonneg bs); lia].
    reflexivity.
  - destruct ((unused_bits (zlen bs) <? 0) || (7 <? unused_bits (zlen bs))) eqn:Er; [lia|].
    rewrite Hb, Hl. rewrite unused_fill by exact Hn. unfold zlen. rewrite Nat2Z.id.
    rewrite firstn_app_length. reflexivity.
Qed.

(* the format: initial octet = number of unused bits 0..7, then ceil(n/8) octets, pad bits zero *)
Theorem bits_contents_format bs :
  exists body, bits_contents bs = unused_bits (zlen bs) :: body /\
    0 <= unused_bits (zlen bs) <= 7 /\ zlen body = (zlen bs + 7) / 8 /\
    bytes_bits body = bs ++ repeat false (Z.to_nat (unused_bits (zlen bs))) /\ bytes_ok body.
Proof.
  exists (bits_to_bytes bs). destruct (bits_to_bytes_spec bs) as [Hb Hl].
  repeat split; try apply unused_bits_range; try exact Hl; [|apply bits_to_bytes_ok].
  rewrite Hb. f_equal. f_equal. unfold zlen. rewrite unused_bits_pad_len, Nat2Z.id. reflexivity.
Qed.

(* C02: X.690 11.2.2 is NOT implemented: the C keeps the trailing zero bits of a type with
   a NamedBitList ... *)
Theorem bits_der_named_refuted :
  exists bs, bits_contents bs <> spec_bits_contents true bs.
Proof. exists [true; false]. vm_compute. discriminate. Qed.

(* ... and is X.690 wherever there is nothing to remove *)
Theorem bits_der_partial named bs :
  (named = true -> strip_tz bs = bs) -> bits_contents bs = spec_bits_contents named bs.
Proof. intros H. unfold spec_bits_contents. destruct named; [rewrite H by reflexivity|]; reflexivity. Qed.

(* ================= BIT STRING: unaligned PER ================= *)

Lemma bit_items_inv bs : Forall2 (inv get_bit) bs (bit_items bs).
Proof. induction bs as [|b tl IH]; cbn [bit_items map]; constructor; [intros r; reflexivity|exact IH]. Qed.

Lemma concat_bit_items bs : concat (bit_items bs) = bs.
Proof. induction bs as [|b tl IH]; [reflexivity|]. cbn [bit_items map concat app]. f_equal. exact IH. Qed.

Definition scon_ok (s : scon) : Prop :=
  match s with SCon lo hi _ => 0 <= lo /\ match hi with Some h => lo <= h | None => True end end.

(* what the C transmits: the string without its trailing zero bits, filled up with zero
   bits to the lower bound when the upper bound is below 64K *)
Definition bits_sent (s : scon) (bs0 : list bool) : list bool :=
  match s with
  | SCon lo hi _ =>
      let bs := strip_tz bs0 in
      if size_constrained hi && (zlen bs <? lo) then bs ++ repeat false (Z.to_nat (lo - zlen bs)) else bs
  end.

Theorem bits_uper_rt s bs enc rest : scon_ok s ->
  bits_uper s bs = Some enc -> bits_uper_dec s (enc ++ rest) = Some (bits_sent s bs, rest).
Proof.
  destruct s as [lo hi ext]. intros [Hlo Hhi] H. unfold bits_uper in H. unfold bits_uper_dec, bits_sent.
  cbv zeta in *. set (b := strip_tz bs) in *. pose proof (zlen_nonneg b) as Hn.
  destruct (size_constrained hi) eqn:Ec.
  - destruct hi as [h|]; [|discriminate]. cbn [size_constrained] in Ec.
    destruct (h <? zlen b) eqn:Eh.
    + destruct ext; [|discriminate]. apply some_inj in H. subst enc. cbn [app].
      destruct (zlen b <? lo) eqn:El; [lia|]. cbn [andb].
      apply counted_rt. apply bit_items_inv.
    + set (len := if zlen b <? lo then 0 else zlen b - lo) in *.
      set (full := b ++ repeat false (Z.to_nat (lo - zlen b))).
      assert (Hfull : Z.to_nat (len + lo) = length full).
      { unfold full, len. rewrite app_length, repeat_length. unfold zlen in *.
        destruct (Z.of_nat (length b) <? lo) eqn:El; lia. }
      assert (Hsent : (if true && (zlen b <? lo) then full else b) = full).
      { cbn [andb]. destruct (zlen b <? lo) eqn:El; [reflexivity|]. unfold full.
        replace (Z.to_nat (lo - zlen b)) with 0%nat by lia. cbn [repeat]. rewrite app_nil_r. reflexivity. }
      rewrite Hsent.
      assert (Hget : forall r, get_bits (range_bits (h - lo + 1)) (nbits (range_bits (h - lo + 1)) len ++ r) = Some (len, r)).
      { intros r. apply get_bits_range. unfold len. destruct (zlen b <? lo) eqn:El; lia. }
      assert (Hitems : forall r, get_items get_bit (Z.to_nat (len + lo)) (full ++ r) = Some (full, r)).
      { intros r. rewrite Hfull. rewrite <- (concat_bit_items full) at 2. apply get_items_rt. apply bit_items_inv. }
      destruct ext; apply some_inj in H; subst enc; cbn [app]; rewrite <- !app_assoc; rewrite Hget;
        rewrite (app_assoc b); fold full; apply Hitems.
  - cbn [andb]. apply some_inj in H. subst enc.
    destruct ext; cbn [app]; apply counted_rt; apply bit_items_inv.
Qed.

(* C01: the value itself comes back when it has no trailing zero bit and is not shorter
   than a lower bound the C pads up to ... *)
Theorem bits_uper_roundtrip_partial s bs enc rest : scon_ok s ->
  strip_tz bs = bs ->
  (match s with SCon lo hi _ => size_constrained hi = true -> lo <= zlen bs end) ->
  bits_uper s bs = Some enc -> bits_uper_dec s (enc ++ rest) = Some (bs, rest).
Proof.
  intros Hs Hst Hlb H. rewrite (bits_uper_rt s bs enc rest Hs H). f_equal. f_equal.
  destruct s as [lo hi ext]. unfold bits_sent. cbv zeta. rewrite Hst.
  destruct (size_constrained hi); [|reflexivity]. specialize (Hlb eq_refl).
  destruct (zlen bs <? lo) eqn:E; [lia|]. reflexivity.
Qed.

(* ... and not in general: the one-bit string '0'B of an unconstrained BIT STRING comes
   back empty (known finding C01-uper-bitstring-trailing-zero) *)
Theorem bits_uper_roundtrip_refuted :
  exists s bs enc, scon_ok s /\ bits_uper s bs = Some enc /\
    bits_uper_dec s enc <> Some (bs, []).
Proof.
  exists (SCon 0 None false), [false], (nbits 8 0). split; [cbn; lia|]. split; [reflexivity|].
  vm_compute. discriminate.
Qed.

(* C02, NamedBitList types (X.691 16.2/16.3): the C's bits are the standard's whenever
   the transmitted size lies in the root (always so when the upper bound is below 64K
   and the string fits) *)
Theorem bits_uper_named_is_spec s bs : scon_ok s ->
  in_scon s (zlen (bits_sent s bs)) = true ->
  (match s with SCon lo hi _ => size_constrained hi = false -> lo <= zlen (strip_tz bs) end) ->
  bits_uper s bs = spec_bits_uper s true bs.
Proof.
  destruct s as [lo hi ext]. intros [Hlo Hhi] Hin Hsemi. unfold bits_uper, spec_bits_uper, bits_sent in *.
  cbv zeta in *. set (b := strip_tz bs) in *. pose proof (zlen_nonneg b) as Hn.
  destruct (size_constrained hi) eqn:Ec.
  - destruct hi as [h|]; [|discriminate]. cbn [size_constrained] in Ec. cbn [andb] in Hin.
    destruct (zlen b <? lo) eqn:El.
    + rewrite Hin. destruct (h <? zlen b) eqn:Eh; [lia|]. cbn [in_scon] in Hin.
      rewrite zlen_app, zlen_repeat in *. replace (zlen b + Z.of_nat (Z.to_nat (lo - zlen b)) - lo) with 0 by lia.
      reflexivity.
    + rewrite Hin. cbn [in_scon] in Hin. destruct (h <? zlen b) eqn:Eh; [lia|].
      replace (Z.to_nat (lo - zlen b)) with 0%nat by lia. cbn [repeat]. rewrite !app_nil_r. reflexivity.
  - cbn [andb] in Hin. specialize (Hsemi eq_refl). destruct (zlen b <? lo) eqn:El; [lia|].
    rewrite Hin. destruct hi; reflexivity.
Qed.

(* SIZE (4..MAX) with a NamedBitList, value '1'B: X.691 16.3 sends four bits, the C one *)
Theorem bits_uper_named_is_spec_refuted :
  exists s bs, scon_ok s /\ bits_uper s bs <> spec_bits_uper s true bs.
Proof. exists (SCon 4 None false), [true]. split; [cbn; lia|]. vm_compute. discriminate. Qed.

(* C02, no NamedBitList: the standard's bits for a string without trailing zero bit whose
   size is in the root *)
Theorem bits_uper_plain_is_spec s bs : scon_ok s ->
  strip_tz bs = bs -> in_scon s (zlen bs) = true ->
  bits_uper s bs = spec_bits_uper s false bs.
Proof.
  destruct s as [lo hi ext]. intros [Hlo Hhi] Hst Hin. unfold bits_uper, spec_bits_uper.
  cbv zeta. rewrite Hst, Hin. cbn [in_scon] in Hin.
  destruct (size_constrained hi) eqn:Ec; [|destruct hi; reflexivity].
  destruct hi as [h|]; [|discriminate].
  destruct (h <? zlen bs) eqn:Eh; [lia|]. destruct (zlen bs <? lo) eqn:El; [lia|].
  replace (Z.to_nat (lo - zlen bs)) with 0%nat by lia. cbn [repeat]. rewrite !app_nil_r. reflexivity.
Qed.

Theorem bits_uper_plain_is_spec_refuted :
  exists s bs, scon_ok s /\ in_scon s (zlen bs) = true /\ bits_uper s bs <> spec_bits_uper s false bs.
Proof. exists (SCon 0 None false), [false]. split; [cbn; lia|]. split; [reflexivity|]. vm_compute. discriminate. Qed.

(* an extensible SIZE (3..20, ...) and the two-bit string '11'B: X.691 16.6 sends it as an
   extension (bit 1, general length), the C pads it to '110'B inside the root *)
Theorem bits_uper_ext_below_lb_refuted :
  exists s bs, scon_ok s /\ strip_tz bs = bs /\ bits_uper s bs <> spec_bits_uper s false bs.
Proof. exists (SCon 3 (Some 20) true), [true; true]. split; [cbn; lia|]. split; [reflexivity|]. vm_compute. discriminate. Qed.

(* ================= BIT STRING: OER ================= *)

Theorem bits_oer_rt s bs enc rest :
  (match oer_fixed_size s with Some n => zlen bs = n | None => zlen bs + 8 <= rssize_max end) ->
  bits_oer s bs = Some enc -> bits_oer_dec s (enc ++ rest) = Some (bs, rest).
Proof.
  intros Hs H. unfold bits_oer in H. unfold bits_oer_dec. cbv zeta in *.
  destruct (bits_to_bytes_spec bs) as [Hb Hl]. pose proof (zlen_nonneg bs) as Hn.
  destruct (oer_fixed_size s) as [n|].
  - subst n. rewrite Hl in H. destruct ((zlen bs + 7) / 8 <? (zlen bs + 7) / 8) eqn:E; [lia|].
    apply some_inj in H. subst enc. rewrite Z.sub_diag. cbn [Z.to_nat repeat]. rewrite app_nil_r.
    rewrite (oer_take_app_eq ((zlen bs + 7) / 8)) by (symmetry; exact Hl).
    rewrite Hb. unfold zlen. rewrite Nat2Z.id, firstn_app_length. reflexivity.
  - apply some_inj in H. subst enc. rewrite <- !app_assoc.
    rewrite oer_fetch_length_inverse by (unfold rssize_max in *; lia).
    destruct (1 + zlen (bits_to_bytes bs) <? 1) eqn:E; [pose proof (zlen_nonneg (bits_to_bytes bs)); lia|].
    change ([unused_bits (zlen bs)] ++ bits_to_bytes bs ++ rest)
      with ((unused_bits (zlen bs) :: bits_to_bytes bs) ++ rest).
    rewrite (oer_take_app_eq (1 + zlen (bits_to_bytes bs))) by (rewrite zlen_cons; lia).
    pose proof (unused_bits_range (zlen bs)) as Hu.
    destruct ((unused_bits (zlen bs) <? 0) || (7 <? unused_bits (zlen bs))) eqn:Er; [lia|].
    rewrite Hb, Hl. rewrite unused_fill by exact Hn. unfold zlen. rewrite Nat2Z.id, firstn_app_length. reflexivity.
Qed.

(* C02: X.696 13: the C's octets are the standard's for every value of the type *)
Theorem bits_oer_is_spec s bs :
  (match oer_fixed_size s with Some n => zlen bs = n | None => True end) ->
  bits_oer s bs = spec_bits_oer s bs.
Proof.
  intros Hs. unfold bits_oer, spec_bits_oer. cbv zeta.
  destruct (bits_to_bytes_spec bs) as [_ Hl].
  destruct (oer_fixed_size s) as [n|].
  - subst n. rewrite Hl, Z.eqb_refl. destruct ((zlen bs + 7) / 8 <? (zlen bs + 7) / 8) eqn:E; [lia|].
    rewrite Z.sub_diag. cbn [Z.to_nat repeat]. rewrite app_nil_r. reflexivity.
  - rewrite Hl. reflexivity.
Qed.

(* ================= the algebra: unaligned PER round trip ================= *)

Definition leaf_ok (l : leaf) : Prop :=
  match l with
  | LEnum _ root ext adds => enum_ok root ext adds
  | LBits _ s _ => scon_ok s
  end.

Fixpoint elem_ok (e : pelem) : Prop :=
  match e with
  | ELeaf l => leaf_ok l
  | ETag _ e' => elem_ok e'
  | EBase t => wf_ty_uper t = true
  end.

(* the values UPER carries exactly: a BIT STRING without trailing zero bit and not shorter
   than a lower bound the C pads up to (see bits_uper_roundtrip_refuted for the others) *)
Definition leaf_val_ok (l : leaf) (x : pev) : Prop :=
  match l, x with
  | LEnum _ _ _ _, XEnum _ => True
  | LBits _ s _, XBits bs =>
      strip_tz bs = bs /\ match s with SCon lo hi _ => size_constrained hi = true -> lo <= zlen bs end
  | _, _ => False
  end.

Fixpoint elem_val_ok (std : bool) (e : pelem) (x : pev) : Prop :=
  match e with
  | ELeaf l => leaf_val_ok l x
  | ETag _ e' => elem_val_ok std e' x
  | EBase t => match x with XBase v => wt_uper std t v = true | _ => False end
  end.

Definition member_val_ok (std : bool) (m : bool * pelem) (x : option pev) : Prop :=
  match x with Some x' => elem_val_ok std (snd m) x' | None => True end.

Theorem e_uper_rt e : forall x enc rest,
  elem_ok e -> elem_val_ok false e x -> e_uper false e x = Some enc ->
  e_uper_dec false e (enc ++ rest) = Some (x, rest).
Proof.
  induction e as [l|tg e' IH|t]; intros x enc rest Hok Hv H; cbn [e_uper e_uper_dec elem_ok elem_val_ok] in *.
  - destruct l as [tg root ext adds|tg s named]; destruct x as [z|bs|v]; cbn [leaf_uper leaf_val_ok] in *;
      try discriminate; try contradiction.
    + unfold leaf_uper_dec. rewrite (enum_uper_rt root ext adds z enc rest Hok H). reflexivity.
    + destruct Hv as [Hst Hlb]. unfold leaf_uper_dec.
      rewrite (bits_uper_roundtrip_partial s bs enc rest Hok Hst Hlb H). reflexivity.
  - apply IH; assumption.
  - destruct x as [z|bs|v]; try contradiction.
    rewrite (uper_roundtrip_in_stream false t v enc rest Hok Hv H). reflexivity.
Qed.

Lemma ms_uper_rt ms : Forall (fun m : bool * pelem => elem_ok (snd m)) ms -> forall xs body rest,
  Forall2 (member_val_ok false) ms xs -> ms_uper false ms xs = Some body ->
  ms_uper_dec false ms (p_presence ms xs) (body ++ rest) = Some (xs, rest) /\
  length (p_presence ms xs) = length (filter (fun m : bool * pelem => fst m) ms).
Proof.
  induction 1 as [|m ms' Hm Hms IH]; intros xs body rest HF H; inversion HF as [|m0 x ms0 xs' Hx HF' E1 E2]; subst;
    cbn [ms_uper] in H.
  - apply some_inj in H. subst body. split; reflexivity.
  - destruct (m_uper false m x) as [a|] eqn:Ea; [|discriminate].
    destruct (ms_uper false ms' xs') as [b|] eqn:Eb; [|discriminate]. apply some_inj in H. subst body.
    destruct (IH xs' b rest HF' Eb) as [IH1 IH2]. rewrite <- app_assoc.
    cbn [p_presence ms_uper_dec filter]. destruct m as [o e]. cbn [fst snd] in *.
    unfold m_uper in Ea. cbn [fst snd] in Ea. unfold member_val_ok in Hx. cbn [snd] in Hx.
    destruct o.
    + destruct x as [x'|].
      * cbn [app]. rewrite (e_uper_rt e x' a (b ++ rest) Hm Hx Ea). rewrite IH1.
        split; [reflexivity|cbn [length]; lia].
      * apply some_inj in Ea. subst a. cbn [app]. rewrite IH1. split; [reflexivity|cbn [length]; lia].
    + destruct x as [x'|]; [|discriminate]. cbn [app].
      rewrite (e_uper_rt e x' a (b ++ rest) Hm Hx Ea). rewrite IH1. split; [reflexivity|exact IH2].
Qed.

Definition pty_ok (t : pty) : Prop :=
  match t with
  | PElem e => elem_ok e
  | PSeq _ ms => Forall (fun m : bool * pelem => elem_ok (snd m)) ms
  | PSeqOf _ _ e => elem_ok e
  end.

Definition pval_ok (std : bool) (t : pty) (v : pval) : Prop :=
  match t, v with
  | PElem e, PVElem x => elem_val_ok std e x
  | PSeq _ ms, PVSeq xs => Forall2 (member_val_ok std) ms xs
  | PSeqOf _ _ e, PVList xs => Forall (elem_val_ok std e) xs
  | _, _ => False
  end.

Lemma elems_uper_inv e : elem_ok e -> forall xs es,
  Forall (elem_val_ok false e) xs -> option_all (map (e_uper false e) xs) = Some es ->
  Forall2 (inv (e_uper_dec false e)) xs es.
Proof.
  intros Hok. induction xs as [|x xs' IH]; intros es Hv Ho.
  - cbn in Ho. apply some_inj in Ho. subst es. constructor.
  - cbn [map option_all] in Ho.
    destruct (e_uper false e x) as [a|] eqn:Ea; [|discriminate].
    destruct (option_all (map (e_uper false e) xs')) as [es'|] eqn:Eo; [|discriminate].
    apply some_inj in Ho. subst es. inversion Hv; subst.
    constructor; [|apply IH; auto]. intros r. apply e_uper_rt; assumption.
Qed.

(* C01, UPER, in a stream: the reader returns the value and leaves what followed *)
Theorem p_uper_roundtrip_in_stream t v bits rest :
  pty_ok t -> pval_ok false t v -> p_uper false t v = Some bits ->
  p_uper_dec false t (bits ++ rest) = Some (v, rest).
Proof.
  intros Hok Hv H. destruct t as [e|tg ms|tg s e]; destruct v as [x|xs|xs]; cbn [p_uper pval_ok pty_ok] in *;
    try discriminate; try contradiction; cbn [p_uper_dec].
  - rewrite (e_uper_rt e x bits rest Hok Hv H). reflexivity.
  - destruct (ms_uper false ms xs) as [body|] eqn:Eb; [|discriminate]. apply some_inj in H. subst bits.
    destruct (ms_uper_rt ms Hok xs body rest Hv Eb) as [H1 H2].
    rewrite <- app_assoc. rewrite <- H2. rewrite take_bits_app. rewrite H1. reflexivity.
  - destruct (option_all (map (e_uper false e) xs)) as [es|] eqn:Eo; [|discriminate].
    rewrite (sized_rt (e_uper_dec false e) s xs es bits rest (elems_uper_inv e Hok xs es Hv Eo) H). reflexivity.
Qed.

(* complete encodings: the octets asn_encode produces (at least one) decode to the value and are all consumed *)
Theorem p_uper_decode_roundtrip t v bytes :
  pty_ok t -> pval_ok false t v -> p_uper_encode false t v = Some bytes ->
  p_uper_decode false t bytes = Some (v, zlen bytes) /\ 1 <= zlen bytes.
Proof.
  intros Hok Hv He. unfold p_uper_encode in He.
  destruct (p_uper false t v) as [bits|] eqn:Eu; [|discriminate].
  unfold p_uper_decode.
  destruct bits as [|b0 tl] eqn:Ebits.
  - apply some_inj in He. subst bytes.
    pose proof (p_uper_roundtrip_in_stream t v [] (bytes_bits [0]) Hok Hv Eu) as Hr.
    cbn [app] in Hr. rewrite Hr. rewrite Z.sub_diag. split; reflexivity.
  - rewrite <- Ebits in *. apply some_inj in He. subst bytes.
    destruct (bits_to_bytes_spec bits) as [Hb Hl]. rewrite Hb, Hl.
    rewrite (p_uper_roundtrip_in_stream t v bits _ Hok Hv Eu).
    rewrite zlen_app. assert (Hpos : 1 <= zlen bits) by (rewrite Ebits, zlen_cons; pose proof (zlen_nonneg tl); lia).
    split; [|lia]. f_equal. f_equal. rewrite zlen_repeat. unfold pad_len. lia.
Qed.

(* ================= the algebra: OER round trip ================= *)

Fixpoint elem_ok_oer (e : pelem) : Prop :=
  match e with
  | ELeaf _ => True
  | ETag _ e' => elem_ok_oer e'
  | EBase t => wf_ty_oer t = true /\ not_opt t = true
  end.

Definition leaf_val_ok_oer (l : leaf) (x : pev) : Prop :=
  match l, x with
  | LEnum _ _ _ _, XEnum z => fits_long z = true
  | LBits _ s _, XBits bs =>
      match oer_fixed_size s with Some n => zlen bs = n | None => zlen bs + 8 <= rssize_max end
  | _, _ => False
  end.

Fixpoint elem_val_ok_oer (e : pelem) (x : pev) : Prop :=
  match e with
  | ELeaf l => leaf_val_ok_oer l x
  | ETag _ e' => elem_val_ok_oer e' x
  | EBase t => match x with XBase v => wt_oer t v = true | _ => False end
  end.

Theorem e_oer_rt e : forall x enc rest,
  elem_ok_oer e -> elem_val_ok_oer e x -> e_oer false e x = Some enc ->
  e_oer_dec e (enc ++ rest) = Some (x, rest).
Proof.
  induction e as [l|tg e' IH|t]; intros x enc rest Hok Hv H; cbn [e_oer e_oer_dec elem_ok_oer elem_val_ok_oer] in *.
  - destruct l as [tg root ext adds|tg s named]; destruct x as [z|bs|v]; cbn [leaf_oer leaf_val_ok_oer] in *;
      try discriminate; try contradiction.
    + apply some_inj in H. subst enc. unfold leaf_oer_dec. rewrite (enum_oer_rt z rest Hv). reflexivity.
    + unfold leaf_oer_dec. rewrite (bits_oer_rt s bs enc rest Hv H). reflexivity.
  - apply IH; assumption.
  - destruct x as [z|bs|v]; try contradiction. destruct Hok as [Hw Hno].
    rewrite (oer_roundtrip_in_stream t v enc rest Hw Hno Hv H). reflexivity.
Qed.

Definition member_val_ok_oer (m : bool * pelem) (x : option pev) : Prop :=
  match x with Some x' => elem_val_ok_oer (snd m) x' | None => True end.

Lemma ms_oer_rt ms : Forall (fun m : bool * pelem => elem_ok_oer (snd m)) ms -> forall xs body rest,
  Forall2 member_val_ok_oer ms xs -> ms_oer false ms xs = Some body ->
  ms_oer_dec ms (p_presence ms xs) (body ++ rest) = Some (xs, rest) /\
  length (p_presence ms xs) = length (filter (fun m : bool * pelem => fst m) ms).
Proof.
  induction 1 as [|m ms' Hm Hms IH]; intros xs body rest HF H; inversion HF as [|m0 x ms0 xs' Hx HF' E1 E2]; subst;
    cbn [ms_oer] in H.
  - apply some_inj in H. subst body. split; reflexivity.
  - destruct (m_oer false m x) as [a|] eqn:Ea; [|discriminate].
    destruct (ms_oer false ms' xs') as [b|] eqn:Eb; [|discriminate]. apply some_inj in H. subst body.
    destruct (IH xs' b rest HF' Eb) as [IH1 IH2]. rewrite <- app_assoc.
    cbn [p_presence ms_oer_dec filter]. destruct m as [o e]. cbn [fst snd] in *.
    unfold m_oer in Ea. cbn [fst snd] in Ea. unfold member_val_ok_oer in Hx. cbn [snd] in Hx.
    destruct o.
    + destruct x as [x'|].
      * cbn [app]. rewrite (e_oer_rt e x' a (b ++ rest) Hm Hx Ea). rewrite IH1.
        split; [reflexivity|cbn [length]; lia].
      * apply some_inj in Ea. subst a. cbn [app]. rewrite IH1. split; [reflexivity|cbn [length]; lia].
    + destruct x as [x'|]; [|discriminate]. cbn [app].
      rewrite (e_oer_rt e x' a (b ++ rest) Hm Hx Ea). rewrite IH1. split; [reflexivity|exact IH2].
Qed.

Definition pty_ok_oer (t : pty) : Prop :=
  match t with
  | PElem e => elem_ok_oer e
  | PSeq _ ms => Forall (fun m : bool * pelem => elem_ok_oer (snd m)) ms
  | PSeqOf _ _ e => elem_ok_oer e
  end.

Definition pval_ok_oer (t : pty) (v : pval) : Prop :=
  match t, v with
  | PElem e, PVElem x => elem_val_ok_oer e x
  | PSeq _ ms, PVSeq xs => Forall2 member_val_ok_oer ms xs
  | PSeqOf _ _ e, PVList xs => Forall (elem_val_ok_oer e) xs /\ zlen xs <= rssize_max
  | _, _ => False
  end.

Lemma elems_oer_rt e : elem_ok_oer e -> forall xs es rest,
  Forall (elem_val_ok_oer e) xs -> option_all (map (e_oer false e) xs) = Some es ->
  dec_items (e_oer_dec e) (length xs) (concat es ++ rest) = Some (xs, rest).
Proof.
  intros Hok. induction xs as [|x xs' IH]; intros es rest Hv Ho.
  - cbn in Ho. apply some_inj in Ho. subst es. reflexivity.
  - cbn [map option_all] in Ho.
    destruct (e_oer false e x) as [a|] eqn:Ea; [|discriminate].
    destruct (option_all (map (e_oer false e) xs')) as [es'|] eqn:Eo; [|discriminate].
    apply some_inj in Ho. subst es. inversion Hv; subst.
    cbn [length dec_items concat]. rewrite <- app_assoc.
    rewrite (e_oer_rt e x a (concat es' ++ rest)) by assumption.
    rewrite (IH es' rest H2 eq_refl). reflexivity.
Qed.

(* C01, OER, in a stream *)
Theorem p_oer_roundtrip_in_stream t v bs rest :
  pty_ok_oer t -> pval_ok_oer t v -> p_oer false t v = Some bs ->
  p_oer_dec t (bs ++ rest) = Some (v, rest).
Proof.
  intros Hok Hv H. destruct t as [e|tg ms|tg s e]; destruct v as [x|xs|xs]; cbn [p_oer pval_ok_oer pty_ok_oer] in *;
    try discriminate; try contradiction; cbn [p_oer_dec].
  - rewrite (e_oer_rt e x bs rest Hok Hv H). reflexivity.
  - destruct (ms_oer false ms xs) as [body|] eqn:Eb; [|discriminate]. apply some_inj in H. subst bs.
    destruct (ms_oer_rt ms Hok xs body rest Hv Eb) as [H1 H2].
    rewrite <- app_assoc. rewrite <- H2.
    destruct (oer_preamble_inverse (p_presence ms xs) (body ++ rest)) as (Ht & y & Hy).
    rewrite Ht, Hy, H1. reflexivity.
  - destruct Hv as [Hv Hlen].
    destruct (option_all (map (e_oer false e) xs)) as [es|] eqn:Eo; [|discriminate].
    apply some_inj in H. subst bs. rewrite <- app_assoc.
    rewrite oer_quantity_inverse by (apply oer_small_count; pose proof (zlen_nonneg xs); lia).
    unfold zlen. rewrite Nat2Z.id. rewrite (elems_oer_rt e Hok xs es rest Hv Eo). reflexivity.
Qed.

(* ================= DER / BER of the leaves through the base model ================= *)

(* a top-level (possibly IMPLICITly tagged) leaf: the base model's BER reader on the C's DER
   returns the value, whatever follows *)
Theorem leaf_ber_roundtrip_in_stream l x bs rest :
  tag_good (leaf_tag l) ->
  match l, x with
  | LEnum _ _ _ _, XEnum z => fits_long z = true
  | LBits _ _ _, XBits b => True
  | _, _ => False
  end ->
  p_der false (PElem (ELeaf l)) (PVElem x) = Some bs -> zlen bs <= rssize_max ->
  p_ber_dec (PElem (ELeaf l)) (bs ++ rest) = Some (PVElem x, rest).
Proof.
  intros Hg Hv H Hl. unfold p_der in H. cbn [val_base to_base] in H. unfold p_ber_dec. cbn [to_base].
  destruct l as [tg root ext adds|tg s named]; destruct x as [z|b|v]; try contradiction; cbn [leaf_tag] in Hg;
    cbn [elem_base pev_base] in *.
  - assert (Hwf : wf_ty (TInt tg any_int) = true).
    { cbn [wf_ty]. destruct Hg. apply andb_true_iff. split; lia. }
    rewrite (der_decodes_all (TInt tg any_int) (VInt z) bs rest Hwf Hv H Hl I). reflexivity.
  - assert (Hwf : wf_ty (TOct tg any_size) = true).
    { cbn [wf_ty]. destruct Hg. apply andb_true_iff. split; lia. }
    assert (Hwt : wt (TOct tg any_size) (VOct (bits_contents b)) = true).
    { cbn [wt]. apply bytes_okb_spec. unfold bits_contents. constructor; [|apply bits_to_bytes_ok].
      pose proof (unused_bits_range (zlen b)). unfold byte_ok. lia. }
    rewrite (der_decodes_all (TOct tg any_size) (VOct (bits_contents b)) bs rest Hwf Hwt H Hl I).
    cbn [val_back pev_back]. rewrite bits_contents_rt. reflexivity.
Qed.

(* ================= C03: the readers accept the standard encodings ================= *)

Theorem enum_uper_dec_accepts_spec root ext adds z enc rest :
  enum_ok root ext adds -> enum_table root adds = sort_z root ++ adds ->
  spec_enum_uper root ext adds z = Some enc ->
  enum_uper_dec root ext adds (enc ++ rest) = Some (z, rest).
Proof.
  intros Hok Ht H. rewrite <- (enum_uper_is_spec root ext adds z Hok Ht) in H.
  exact (enum_uper_rt root ext adds z enc rest Hok H).
Qed.

Theorem bits_uper_dec_accepts_spec s bs enc rest : scon_ok s ->
  strip_tz bs = bs -> in_scon s (zlen bs) = true ->
  spec_bits_uper s false bs = Some enc -> bits_uper_dec s (enc ++ rest) = Some (bs, rest).
Proof.
  intros Hs Hst Hin H. rewrite <- (bits_uper_plain_is_spec s bs Hs Hst Hin) in H.
  apply bits_uper_roundtrip_partial; try assumption.
  destruct s as [lo hi ext]. intros _. cbn [in_scon] in Hin. lia.
Qed.

Theorem bits_oer_dec_accepts_spec s bs enc rest :
  (match oer_fixed_size s with Some n => zlen bs = n | None => zlen bs + 8 <= rssize_max end) ->
  spec_bits_oer s bs = Some enc -> bits_oer_dec s (enc ++ rest) = Some (bs, rest).
Proof.
  intros Hs H. rewrite <- bits_oer_is_spec in H by (destruct (oer_fixed_size s); [exact Hs|exact I]).
  exact (bits_oer_rt s bs enc rest Hs H).
Qed.

(* the BER reader takes any contents the standard allows for a primitive BIT STRING and, as
   X.690 11.2.1 does not bind a BER sender, whatever the pad bits hold *)
Theorem bits_of_contents_accepts body u (bs : list bool) :
  body <> [] -> 0 <= u <= 7 -> bits_of_contents (u :: body) =
    Some (firstn (Z.to_nat (8 * zlen body - u)) (bytes_bits body)).
Proof.
  intros Hb Hu. unfold bits_of_contents. destruct body; [congruence|].
  destruct ((u <? 0) || (7 <? u)) eqn:E; [lia|]. reflexivity.
Qed.
