(* Rt/ConstraintsSet.v — C08: SET_constraint (skeletons/constr_SET.c) and the PRODUCER of the structure.

   A SET structure carries, besides the member slots, the `_presence_map` its BER and XER decoders
   maintain.  Nothing else maintains it: SET_encode_der, SET_encode_xer, SET_print, SET_compare, SET_free
   and an application that fills the structure in go by the member pointer.  The same abstract value
   therefore exists in several C representations that differ in the map only:
       decoded by ber_decode / xer_decode      bit set <-> member present
       built by assignment (calloc + fields)   every bit clear
   The model of the structure [set_struct] keeps the bit next to each slot; [set_walk] is the loop of
   SET_constraint: it tests the POINTER (VNone = NULL) and never reads the bit.  Theorems: the verdict is
   the SEQUENCE walker's on the slots; it is the same for every map ([set_walk_ignores_presence_map]);
   acceptance <-> every member whose slot is filled passed its checker and every empty slot is OPTIONAL
   ([set_walk_ok_iff]); inside the safe region of check_exact, acceptance <-> the Spec, whatever the map.
   [set_walk_pm] is the variant that skips an OPTIONAL member whose bit is clear (seeded change C08-9):
   it differs from the model on a hand-built structure and, there, from the Spec. *)
From Coq Require Import ZArith List Bool Lia.
From A1 Require Import Rt.Types Fix.Crange Rt.Constraints Rt.ConstraintsProofs.
Import ListNotations.
Local Open Scope Z_scope.

(* per member: what the slot holds (VNone: NULL pointer), and the member's bit in _presence_map *)
Definition set_struct := list (val * bool).
Definition slots (s : set_struct) : list val := map fst s.
Definition pmap (s : set_struct) : list bool := map snd s.

(* the representations of one abstract value *)
Definition decoded (vs : list val) : set_struct :=
  map (fun v => (v, match v with VNone => false | _ => true end)) vs.
Definition hand_built (vs : list val) : set_struct := map (fun v => (v, false)) vs.
Definition with_map (vs : list val) (bits : list bool) : set_struct := combine vs bits.

(* SET_constraint: for(edx = 0; edx < td->elements_count; edx++) *)
Definition set_walk (f : cty -> val -> res) : list cty -> set_struct -> res :=
  fix go ms s :=
    match ms, s with
    | [], [] => ROk
    | m :: ms', (v, _bit) :: s' =>
        match v with
        | VNone => if is_copt m then go ms' s'                 (* if(!memb_ptr) { if(elm->optional) continue; *)
                   else RFail WAbsent                          (*   "mandatory element %s absent" *)
        | _ => match f m v with ROk => go ms' s' | e => e end   (* if(ret) return ret; *)
        end
    | _, _ => RFail WShape
    end.

(* asn_check_constraints on a SET type whose members are ms *)
Definition set_constraint (w : bool) (ms : list cty) (s : set_struct) : res :=
  set_walk (fun m x => chk w m true x) ms s.

(* the variant: `if(elm->optional && !ASN_SET_ISPRESENT2(map, edx)) continue;` after the pointer test *)
Definition set_walk_pm (f : cty -> val -> res) : list cty -> set_struct -> res :=
  fix go ms s :=
    match ms, s with
    | [], [] => ROk
    | m :: ms', (v, bit) :: s' =>
        match v with
        | VNone => if is_copt m then go ms' s' else RFail WAbsent
        | _ => if is_copt m && negb bit then go ms' s'
               else match f m v with ROk => go ms' s' | e => e end
        end
    | _, _ => RFail WShape
    end.

Definition res_ok (r : res) : bool := match r with ROk => true | _ => false end.
Definition is_vnone (v : val) : bool := match v with VNone => true | _ => false end.

(* every filled slot passes its checker, every empty slot is OPTIONAL *)
Definition members_ok (f : cty -> val -> res) : list cty -> set_struct -> bool :=
  fix go ms s :=
    match ms, s with
    | [], [] => true
    | m :: ms', (v, _) :: s' => (if is_vnone v then is_copt m else res_ok (f m v)) && go ms' s'
    | _, _ => false
    end.

(* ------------------------------------------------------------------ theorems *)
Lemma set_walk_is_walk_members : forall f ms s, set_walk f ms s = walk_members f ms (slots s).
Proof.
  intros f ms. induction ms as [|m ms IH]; intros [|[v b] s]; cbn [set_walk walk_members slots map fst]; try reflexivity.
  fold (slots s). destruct v; try (destruct (f m _); [apply IH|reflexivity]).
  destruct (is_copt m); [apply IH|reflexivity].
Qed.

(* the verdict does not depend on the presence map: two structures with the same slots get the same verdict *)
Theorem set_walk_ignores_presence_map : forall f ms s s', slots s = slots s' -> set_walk f ms s = set_walk f ms s'.
Proof. intros f ms s s' H. rewrite !set_walk_is_walk_members, H. reflexivity. Qed.

Lemma slots_decoded : forall vs, slots (decoded vs) = vs.
Proof. intro vs. unfold slots, decoded. rewrite map_map. simpl. apply map_id. Qed.
Lemma slots_hand_built : forall vs, slots (hand_built vs) = vs.
Proof. intro vs. unfold slots, hand_built. rewrite map_map. simpl. apply map_id. Qed.
Lemma slots_with_map : forall vs bits, length bits = length vs -> slots (with_map vs bits) = vs.
Proof.
  induction vs as [|v vs IH]; intros [|b bits] H; simpl in *; try reflexivity; try discriminate.
  f_equal. apply IH. lia.
Qed.

(* the producers agree: decoded by BER / XER, built by assignment, or carrying ANY map of the right length *)
Theorem set_constraint_producer_independent : forall w ms vs bits, length bits = length vs ->
  set_constraint w ms (with_map vs bits) = set_constraint w ms (decoded vs) /\
  set_constraint w ms (hand_built vs) = set_constraint w ms (decoded vs).
Proof.
  intros w ms vs bits H. unfold set_constraint. split; apply set_walk_ignores_presence_map.
  - rewrite slots_with_map, slots_decoded by exact H. reflexivity.
  - rewrite slots_hand_built, slots_decoded. reflexivity.
Qed.

(* accepted <-> every filled slot was checked and passed (whatever its bit), empty slots are OPTIONAL *)
Theorem set_walk_ok_iff : forall f ms s, set_walk f ms s = ROk <-> members_ok f ms s = true.
Proof.
  intros f ms. induction ms as [|m ms IH]; intros [|[v b] s]; cbn [set_walk members_ok].
  - tauto.
  - split; discriminate.
  - split; discriminate.
  - destruct v; cbn [is_vnone];
      try (destruct (f m _) eqn:E; cbn [res_ok andb]; [apply IH|split; discriminate]).
    destruct (is_copt m); cbn [andb]; [apply IH|split; discriminate].
Qed.

(* a filled slot that fails its checker rejects the SET, flagged in the map or not *)
Theorem set_walk_rejects_bad_member : forall f ms1 m ms2 s1 v b s2 why,
  length ms1 = length s1 -> members_ok f ms1 s1 = true -> is_vnone v = false -> f m v = RFail why ->
  set_walk f (ms1 ++ m :: ms2) (s1 ++ (v, b) :: s2) = RFail why.
Proof.
  intros f ms1. induction ms1 as [|m1 ms1 IH]; intros m ms2 [|[v1 b1] s1] v b s2 why Hl Hok Hv Hf; simpl in Hl; try discriminate.
  - cbn [app set_walk]. destruct v; try discriminate Hv; rewrite Hf; reflexivity.
  - cbn [app set_walk]. cbn [members_ok] in Hok. apply andb_true_iff in Hok. destruct Hok as [H1 Hok].
    assert (IH' : set_walk f (ms1 ++ m :: ms2) (s1 ++ (v, b) :: s2) = RFail why) by (apply IH; auto).
    destruct v1; cbn [is_vnone] in H1;
      try (destruct (f m1 _); [exact IH'|discriminate H1]).
    rewrite H1. exact IH'.
Qed.

(* inside the region of check_exact: SET_constraint accepts exactly the values the Spec allows,
   whoever produced the structure *)
Theorem set_constraint_exact_partial : forall w ms s,
  safe w (CSeq ms) false = true -> repr w (CSeq ms) (VSeq (slots s)) = true ->
  (set_constraint w ms s = ROk <-> satisfies (CSeq ms) (VSeq (slots s)) = true).
Proof.
  intros w ms s S R. unfold set_constraint. rewrite set_walk_is_walk_members.
  exact (check_exact_partial w (CSeq ms) (VSeq (slots s)) S R).
Qed.

(* the presence-map variant is NOT SET_constraint: on the hand-built structure of
   SET { a INTEGER (0..7), b INTEGER (0..7) OPTIONAL } with b = 9 it accepts; the model and the Spec reject *)
Theorem set_walk_pm_refuted : exists ms vs,
  set_walk_pm (fun m x => chk false m true x) ms (hand_built vs) = ROk /\
  set_constraint false ms (hand_built vs) = RFail WConstraint /\
  set_constraint false ms (decoded vs) = RFail WConstraint /\
  set_walk_pm (fun m x => chk false m true x) ms (decoded vs) = RFail WConstraint /\
  satisfies (CSeq ms) (VSeq vs) = false.
Proof.
  exists [CInt [(EV 0, EV 7)] []; COpt (CInt [(EV 0, EV 7)] [])], [VInt 3; VSome (VInt 9)].
  vm_compute. repeat split.
Qed.

(* on structures a decoder produced (bit set <-> slot filled) the variant cannot be told from the model:
   that is why values obtained from ber_decode alone never see it *)
Theorem set_walk_pm_same_on_decoded : forall f ms vs, set_walk_pm f ms (decoded vs) = set_walk f ms (decoded vs).
Proof.
  intros f ms. induction ms as [|m ms IH]; intros [|v vs]; cbn [decoded map set_walk_pm set_walk]; try reflexivity.
  fold (decoded vs). destruct v; cbn [negb]; rewrite ?andb_false_r; try (destruct (f m _); [apply IH|reflexivity]).
  destruct (is_copt m); [apply IH|reflexivity].
Qed.
