(* Rt/AppApiProofs.v — the encoder API contract (C07) over Rt/AppApi.v. *)
From Coq Require Import ZArith List Bool Lia ZifyBool.
From A1 Require Import Base.Bytes Rt.Types Rt.Der Rt.Uper Rt.Oer Rt.AppApi.
Import ListNotations.
Local Open Scope Z_scope.

(* ---------------- emit ---------------- *)

Lemma emit_app {S} (cb : cbT S) : forall a b s,
  emit cb s (a ++ b) = let (s', ok) := emit cb s a in if ok then emit cb s' b else (s', false).
Proof.
  induction a as [|c a IH]; intros b s; cbn [emit app].
  - reflexivity.
  - destruct (cb s c) as [s' ok]. destruct ok; [apply IH | reflexivity].
Qed.

Lemma total_nil : total [] = 0.
Proof. reflexivity. Qed.

Lemma total_cons c cs : total (c :: cs) = zlen c + total cs.
Proof. unfold total. cbn [concat]. apply zlen_app. Qed.

Lemma total_app a b : total (a ++ b) = total a + total b.
Proof. unfold total. rewrite concat_app. apply zlen_app. Qed.

Lemma total_nonneg cs : 0 <= total cs.
Proof. apply zlen_nonneg. Qed.

(* ---------------- asn_encode_internal over a script ---------------- *)

Definition api_chunks (bits : bool) (sc : script) : list bytes :=
  chunks sc ++ match ending sc with
               | IOk n => if bits && (n =? 0) then [[0]] else []
               | IFail _ => []
               end.

Definition api_final (bits : bool) (sc : script) : api_res :=
  match ending sc with
  | IOk n => if bits then (if n =? 0 then {| encoded := 1; err := E0 |} else {| encoded := (n + 7) / 8; err := E0 |})
             else {| encoded := n; err := E0 |}
  | IFail true => {| encoded := -1; err := EBADF |}
  | IFail false => {| encoded := -1; err := ENOENT |}
  end.

Lemma internal_script {S} (bits : bool) (sc : script) (cb : cbT S) (s : S) :
  on_cb_fail sc = IFail true ->
  encode_internal true (Op bits (run_script sc)) cb s =
  let (s', ok) := emit cb s (api_chunks bits sc) in
  if ok then (s', api_final bits sc) else (s', {| encoded := -1; err := EBADF |}).
Proof.
  intros Hf. unfold encode_internal, run_script, api_chunks, api_final. cbn [negb].
  rewrite emit_app. destruct (emit cb s (chunks sc)) as [s1 ok1]. destruct ok1.
  - destruct (ending sc) as [n|h].
    + destruct bits; cbn [andb].
      * destruct (n =? 0); cbn [emit].
        -- destruct (cb s1 [0]) as [s2 ok2]. destruct ok2; reflexivity.
        -- reflexivity.
      * reflexivity.
    + cbn [emit]. destruct h; reflexivity.
  - rewrite Hf. reflexivity.
Qed.

Lemma api_final_total bits sc n :
  script_ok bits sc -> ending sc = IOk n ->
  encoded (api_final bits sc) = total (api_chunks bits sc) /\ err (api_final bits sc) = E0.
Proof.
  intros [_ Hs] He. unfold api_final, api_chunks. rewrite He in *.
  destruct bits; cbn [andb].
  - destruct Hs as [Hn Ht]. destruct (n =? 0) eqn:E0; cbn [encoded err].
    + assert (n = 0) by lia. subst n. change ((0 + 7) / 8) with 0 in Ht.
      rewrite total_app, <- Ht. split; reflexivity.
    + rewrite app_nil_r. split; [exact Ht | reflexivity].
  - cbn [encoded err]. rewrite app_nil_r. split; [exact Hs | reflexivity].
Qed.

Lemma api_final_fail bits sc h :
  ending sc = IFail h -> encoded (api_final bits sc) = -1 /\
  (err (api_final bits sc) = EBADF \/ err (api_final bits sc) = ENOENT) /\ api_chunks bits sc = chunks sc.
Proof.
  intros He. unfold api_final, api_chunks. rewrite He. rewrite app_nil_r.
  destruct h; cbn; auto.
Qed.

(* ---------------- asn_encode with the fault-injecting callback ---------------- *)

Lemma emit_user_none : forall cs i acc f,
  emit (catch_cb (user_cb None)) ((i, acc), f) cs = ((((i + length cs)%nat, acc ++ cs), f), true).
Proof.
  induction cs as [|c cs IH]; intros i acc f; cbn [emit].
  - rewrite Nat.add_0_r, app_nil_r. reflexivity.
  - cbn [catch_cb user_cb]. rewrite IH. cbn [length]. rewrite <- app_assoc. cbn [app].
    replace (S i + length cs)%nat with (i + S (length cs))%nat by lia. reflexivity.
Qed.

Lemma emit_user_some k : forall cs i acc f, (i <= k)%nat ->
  emit (catch_cb (user_cb (Some k))) ((i, acc), f) cs =
  if (k - i <? length cs)%nat then (((S k, acc ++ firstn (k - i) cs), true), false)
  else ((((i + length cs)%nat, acc ++ cs), f), true).
Proof.
  induction cs as [|c cs IH]; intros i acc f Hik; cbn [emit].
  - cbn [length]. destruct (k - i <? 0)%nat eqn:E; [apply Nat.ltb_lt in E; lia|].
    rewrite Nat.add_0_r, app_nil_r. reflexivity.
  - cbn [catch_cb user_cb]. destruct (Nat.eqb i k) eqn:E.
    + apply Nat.eqb_eq in E. subst i. rewrite Nat.sub_diag. cbn [length].
      destruct (0 <? S (length cs))%nat eqn:E2; [|apply Nat.ltb_ge in E2; lia].
      cbn [firstn]. rewrite app_nil_r. reflexivity.
    + apply Nat.eqb_neq in E. rewrite IH by lia. cbn [length].
      replace (k - i)%nat with (S (k - S i)) by lia.
      change (S (k - S i) <? S (length cs))%nat with (k - S i <? length cs)%nat.
      destruct (k - S i <? length cs)%nat.
      * cbn [firstn]. rewrite <- app_assoc. reflexivity.
      * rewrite <- app_assoc. cbn [app].
        replace (S i + length cs)%nat with (i + S (length cs))%nat by lia. reflexivity.
Qed.

Definition fault_free_run (bits : bool) (enc : inner) (calls : nat) (delivered : list bytes) (r : api_res) : Prop :=
  asn_encode (Some (user_cb None)) true (Op bits enc) (0%nat, []) = Done ((calls, delivered), r).

Lemma asn_encode_scripted {S} bits enc sc (cb : option (cbT S)) s :
  scripted enc sc -> asn_encode cb true (Op bits enc) s = asn_encode cb true (Op bits (run_script sc)) s.
Proof.
  intros H. unfold asn_encode. destruct cb as [cb|]; [|reflexivity].
  unfold encode_internal. cbn [negb]. rewrite H. reflexivity.
Qed.

Lemma fault_free_script bits sc :
  script_ok bits sc ->
  asn_encode (Some (user_cb None)) true (Op bits (run_script sc)) (0%nat, []) =
  Done ((length (api_chunks bits sc), api_chunks bits sc), api_final bits sc).
Proof.
  intros [Hf Hs]. unfold asn_encode. rewrite internal_script by exact Hf.
  rewrite emit_user_none. cbn [app Nat.add]. reflexivity.
Qed.

Theorem size_accounting : forall bits enc, well_behaved bits enc ->
  exists calls delivered r, fault_free_run bits enc calls delivered r /\
    calls = length delivered /\
    (0 <= encoded r -> encoded r = total delivered /\ err r = E0) /\
    (encoded r < 0 -> encoded r = -1 /\ (err r = EBADF \/ err r = ENOENT)).
Proof.
  intros bits enc [sc [Hsc Hok]].
  exists (length (api_chunks bits sc)), (api_chunks bits sc), (api_final bits sc).
  unfold fault_free_run. rewrite (asn_encode_scripted bits enc sc _ _ Hsc), fault_free_script by exact Hok.
  split; [reflexivity|]. split; [reflexivity|].
  destruct (ending sc) as [n|h] eqn:He.
  - destruct (api_final_total bits sc n Hok He) as [H1 H2]. split; intros H.
    + split; assumption.
    + pose proof (total_nonneg (api_chunks bits sc)). lia.
  - destruct (api_final_fail bits sc h He) as [H1 [H2 _]]. split; intros H.
    + lia.
    + split; assumption.
Qed.

Theorem cb_failure_eio : forall bits enc, well_behaved bits enc ->
  forall calls delivered r, fault_free_run bits enc calls delivered r ->
  forall k, (k < calls)%nat ->
  asn_encode (Some (user_cb (Some k))) true (Op bits enc) (0%nat, []) =
  Done ((S k, firstn k delivered), {| encoded := -1; err := EIO |}).
Proof.
  intros bits enc [sc [Hsc Hok]] calls delivered r Hrun k Hk.
  unfold fault_free_run in Hrun.
  rewrite (asn_encode_scripted bits enc sc _ _ Hsc), fault_free_script in Hrun by exact Hok.
  injection Hrun as Hc Hd Hr. subst calls delivered.
  rewrite (asn_encode_scripted bits enc sc _ _ Hsc).
  destruct Hok as [Hf Hs]. unfold asn_encode. rewrite internal_script by exact Hf.
  rewrite emit_user_some by lia. rewrite Nat.sub_0_r.
  destruct (k <? length (api_chunks bits sc))%nat eqn:E; [|apply Nat.ltb_ge in E; lia].
  cbn. reflexivity.
Qed.

(* the fault index beyond the trace: nothing fails *)
Theorem cb_failure_beyond : forall bits enc, well_behaved bits enc ->
  forall calls delivered r, fault_free_run bits enc calls delivered r ->
  forall k, (calls <= k)%nat ->
  asn_encode (Some (user_cb (Some k))) true (Op bits enc) (0%nat, []) = Done ((calls, delivered), r).
Proof.
  intros bits enc [sc [Hsc Hok]] calls delivered r Hrun k Hk.
  unfold fault_free_run in Hrun.
  rewrite (asn_encode_scripted bits enc sc _ _ Hsc), fault_free_script in Hrun by exact Hok.
  injection Hrun as Hc Hd Hr. subst calls delivered r.
  rewrite (asn_encode_scripted bits enc sc _ _ Hsc).
  destruct Hok as [Hf Hs]. unfold asn_encode. rewrite internal_script by exact Hf.
  rewrite emit_user_some by lia. rewrite Nat.sub_0_r.
  destruct (k <? length (api_chunks bits sc))%nat eqn:E; [apply Nat.ltb_lt in E; lia|].
  cbn. reflexivity.
Qed.

(* parameter errors *)
Theorem asn_encode_einval : forall S (cb : option (cbT S)) args_ok op s,
  cb = None \/ args_ok = false ->
  exists s', asn_encode cb args_ok op s = Done (s', {| encoded := -1; err := EINVAL |}).
Proof.
  intros S cb args_ok op s [H|H]; subst.
  - exists s. reflexivity.
  - destruct cb as [cb|]; [|exists s; reflexivity]. exists s. reflexivity.
Qed.

Theorem asn_encode_enoent : forall S (cb : cbT S) s,
  asn_encode (Some cb) true NoOp s = Done (s, {| encoded := -1; err := ENOENT |}).
Proof. reflexivity. Qed.

(* ---------------- asn_encode_to_buffer ---------------- *)

(* the leading chunks that fit entirely into [room] octets *)
Fixpoint fit_prefix (room : Z) (cs : list bytes) : list bytes :=
  match cs with
  | [] => []
  | c :: tl => if zlen c <=? room then c :: fit_prefix (room - zlen c) tl else []
  end.

Lemma fit_prefix_le : forall cs room, 0 <= room -> total (fit_prefix room cs) <= room.
Proof.
  induction cs as [|c cs IH]; intros room Hr; cbn [fit_prefix].
  - rewrite total_nil. lia.
  - destruct (zlen c <=? room) eqn:E.
    + rewrite total_cons. specialize (IH (room - zlen c)). lia.
    + rewrite total_nil. lia.
Qed.

Lemma fit_prefix_all : forall cs room, total cs <= room -> fit_prefix room cs = cs.
Proof.
  induction cs as [|c cs IH]; intros room Hr; cbn [fit_prefix]; [reflexivity|].
  rewrite total_cons in Hr. pose proof (total_nonneg cs).
  destruct (zlen c <=? room) eqn:E; [|lia].
  rewrite IH by lia. reflexivity.
Qed.

Lemma fit_prefix_is_prefix : forall cs room, exists rest, cs = fit_prefix room cs ++ rest.
Proof.
  induction cs as [|c cs IH]; intros room; cbn [fit_prefix].
  - exists []. reflexivity.
  - destruct (zlen c <=? room).
    + destruct (IH (room - zlen c)) as [rest Hr]. exists rest. cbn [app]. rewrite <- Hr. reflexivity.
    + exists (c :: cs). reflexivity.
Qed.

Lemma skipn_skipn {A} : forall (m n : nat) (l : list A), skipn n (skipn m l) = skipn (m + n) l.
Proof.
  induction m as [|m IH]; intros n l; [reflexivity|].
  destruct l as [|x l]; cbn [skipn Nat.add]; [apply skipn_nil | apply IH].
Qed.

Lemma zlen_firstn_le {A} (l : list A) n : 0 <= n <= zlen l -> zlen (firstn (Z.to_nat n) l) = n.
Proof. intros H. unfold zlen in *. rewrite firstn_length. lia. Qed.

Lemma write_at_split : forall pre rest c,
  zlen c <= zlen rest ->
  write_at (pre ++ rest) (zlen pre) c = Some ((pre ++ c) ++ skipn (length c) rest).
Proof.
  intros pre rest c Hc. unfold write_at.
  pose proof (zlen_nonneg pre). rewrite zlen_app.
  destruct ((0 <=? zlen pre) && (zlen pre + zlen c <=? zlen pre + zlen rest)) eqn:E; [|lia].
  assert (Hn : Z.to_nat (zlen pre) = length pre) by (unfold zlen; apply Nat2Z.id).
  rewrite !Hn.
  rewrite firstn_app, Nat.sub_diag, firstn_all. cbn [firstn]. rewrite app_nil_r.
  rewrite skipn_app. replace (length pre + length c - length pre)%nat with (length c) by lia.
  rewrite (skipn_all2 pre) by lia. cbn [app]. rewrite <- app_assoc. reflexivity.
Qed.

(* phase B: after the first overrun nothing is copied any more *)
Lemma emit_overrun_stopped : forall cs mem comp,
  0 < comp ->
  emit overrun_cb {| o_mem := mem; o_size := 0; o_comp := comp; o_oob := false |} cs =
  ({| o_mem := mem; o_size := 0; o_comp := comp + total cs; o_oob := false |}, true).
Proof.
  induction cs as [|c cs IH]; intros mem comp Hc; cbn [emit].
  - rewrite total_nil, Z.add_0_r. reflexivity.
  - unfold overrun_cb at 1. cbn [o_mem o_size o_comp o_oob].
    pose proof (zlen_nonneg c).
    destruct (0 <? comp + zlen c) eqn:E; [|lia].
    rewrite IH by lia. rewrite total_cons, Z.add_assoc. reflexivity.
Qed.

(* phase A: [pre] is what has been copied (zlen pre = computed_size), [rest] the array behind it *)
Lemma emit_overrun : forall cs pre rest size,
  zlen pre <= size <= zlen pre + zlen rest ->
  exists sz', emit overrun_cb {| o_mem := pre ++ rest; o_size := size; o_comp := zlen pre; o_oob := false |} cs =
  ({| o_mem := (pre ++ concat (fit_prefix (size - zlen pre) cs))
               ++ skipn (length (concat (fit_prefix (size - zlen pre) cs))) rest;
      o_size := sz'; o_comp := zlen pre + total cs; o_oob := false |}, true).
Proof.
  induction cs as [|c cs IH]; intros pre rest size Hs; cbn [emit fit_prefix].
  - exists size. cbn [concat length skipn]. rewrite app_nil_r, total_nil, Z.add_0_r. reflexivity.
  - unfold overrun_cb at 1. cbn [o_mem o_size o_comp o_oob].
    pose proof (zlen_nonneg c) as Hc0. pose proof (zlen_nonneg pre) as Hp0.
    destruct (size <? zlen pre + zlen c) eqn:E.
    + (* first overrun *)
      destruct (zlen c <=? size - zlen pre) eqn:E2; [lia|].
      cbn [concat length skipn]. rewrite app_nil_r.
      exists 0. rewrite emit_overrun_stopped by lia.
      rewrite total_cons, Z.add_assoc. reflexivity.
    + destruct (zlen c <=? size - zlen pre) eqn:E2; [|lia].
      rewrite write_at_split by lia.
      assert (Hz : zlen (pre ++ c) = zlen pre + zlen c) by apply zlen_app.
      rewrite <- Hz.
      assert (Hr : zlen (skipn (length c) rest) = zlen rest - zlen c).
      { unfold zlen in *. rewrite skipn_length. lia. }
      destruct (IH (pre ++ c) (skipn (length c) rest) size ltac:(lia)) as [sz' Hemit].
      exists sz'. rewrite Hemit. rewrite Hz.
      replace (size - (zlen pre + zlen c)) with (size - zlen pre - zlen c) by lia.
      cbn [concat]. rewrite total_cons.
      rewrite skipn_skipn. rewrite app_length.
      rewrite <- !app_assoc. rewrite Z.add_assoc.
      replace (length (concat (fit_prefix (size - zlen pre - zlen c) cs)) + length c)%nat
        with (length c + length (concat (fit_prefix (size - zlen pre - zlen c) cs)))%nat by lia.
      reflexivity.
Qed.

Lemma to_buffer_script bits sc mem size :
  script_ok bits sc -> 0 <= size <= zlen mem ->
  exists sz',
  asn_encode_to_buffer true (Op bits (run_script sc)) (Some mem) size =
  Done ({| o_mem := concat (fit_prefix size (api_chunks bits sc))
                    ++ skipn (length (concat (fit_prefix size (api_chunks bits sc)))) mem;
           o_size := sz'; o_comp := total (api_chunks bits sc); o_oob := false |}, api_final bits sc).
Proof.
  intros Hok Hs. pose proof Hok as [Hf Hend]. unfold asn_encode_to_buffer.
  rewrite internal_script by exact Hf.
  destruct (emit_overrun (api_chunks bits sc) [] mem size) as [sz' He].
  { change (zlen (@nil Z)) with 0. lia. }
  change (zlen (@nil Z)) with 0 in He. cbn [app] in He. rewrite Z.sub_0_r, Z.add_0_l in He.
  rewrite He. exists sz'. cbn [o_comp].
  destruct (ending sc) as [n|h] eqn:Hen.
  - destruct (api_final_total bits sc n Hok Hen) as [H1 H2]. rewrite H1.
    pose proof (total_nonneg (api_chunks bits sc)).
    destruct ((0 <=? total (api_chunks bits sc)) && negb (total (api_chunks bits sc) =? total (api_chunks bits sc))) eqn:E; [lia|].
    reflexivity.
  - destruct (api_final_fail bits sc h Hen) as [H1 _]. rewrite H1. cbn [Z.leb andb]. reflexivity.
Qed.

Lemma to_buffer_scripted bits enc sc buffer size :
  scripted enc sc ->
  asn_encode_to_buffer true (Op bits enc) buffer size = asn_encode_to_buffer true (Op bits (run_script sc)) buffer size.
Proof.
  intros H. unfold asn_encode_to_buffer, encode_internal. cbn [negb].
  destruct buffer; [rewrite H; reflexivity|]. destruct (0 <? size); [reflexivity|]. rewrite H. reflexivity.
Qed.

(* the main statement about asn_encode_to_buffer: for every size 0..|array| *)
Theorem to_buffer_contract : forall bits enc, well_behaved bits enc ->
  forall calls delivered r, fault_free_run bits enc calls delivered r ->
  forall mem size, 0 <= size <= zlen mem ->
  exists st, asn_encode_to_buffer true (Op bits enc) (Some mem) size = Done (st, r) /\
    o_oob st = false /\
    o_mem st = concat (fit_prefix size delivered) ++ skipn (length (concat (fit_prefix size delivered))) mem /\
    o_comp st = total delivered.
Proof.
  intros bits enc [sc [Hsc Hok]] calls delivered r Hrun mem size Hs.
  unfold fault_free_run in Hrun.
  rewrite (asn_encode_scripted bits enc sc _ _ Hsc), fault_free_script in Hrun by exact Hok.
  injection Hrun as Hc Hd Hr. subst calls delivered r.
  rewrite (to_buffer_scripted bits enc sc _ _ Hsc).
  destruct (to_buffer_script bits sc mem size Hok Hs) as [sz' H]. rewrite H.
  eexists. split; [reflexivity|]. cbn [o_oob o_mem o_comp]. auto.
Qed.

(* nothing at an index >= size is written, the array keeps its length *)
Theorem to_buffer_bounded : forall bits enc, well_behaved bits enc ->
  forall mem size, 0 <= size <= zlen mem ->
  exists st r, asn_encode_to_buffer true (Op bits enc) (Some mem) size = Done (st, r) /\
    o_oob st = false /\ zlen (o_mem st) = zlen mem /\
    skipn (Z.to_nat size) (o_mem st) = skipn (Z.to_nat size) mem.
Proof.
  intros bits enc Hwb mem size Hs.
  destruct (size_accounting bits enc Hwb) as [calls [delivered [r [Hrun _]]]].
  destruct (to_buffer_contract bits enc Hwb calls delivered r Hrun mem size Hs) as [st [H1 [H2 [H3 _]]]].
  exists st, r. split; [exact H1|]. split; [exact H2|].
  pose proof (fit_prefix_le delivered size ltac:(lia)) as Hle. unfold total in Hle.
  set (w := concat (fit_prefix size delivered)) in *.
  assert (Hw : (length w <= Z.to_nat size)%nat) by (unfold zlen in Hle; lia).
  assert (Hm : (Z.to_nat size <= length mem)%nat) by (unfold zlen in Hs; lia).
  rewrite H3. split.
  - unfold zlen. rewrite app_length, skipn_length. lia.
  - rewrite skipn_app. rewrite (skipn_all2 w) by lia. cbn [app].
    rewrite skipn_skipn. f_equal. lia.
Qed.

(* the reported size does not depend on the buffer size, and is the one asn_encode reports *)
Theorem to_buffer_size_invariant : forall bits enc, well_behaved bits enc ->
  forall calls delivered r, fault_free_run bits enc calls delivered r ->
  forall mem1 size1 mem2 size2, 0 <= size1 <= zlen mem1 -> 0 <= size2 <= zlen mem2 ->
  exists st1 st2,
    asn_encode_to_buffer true (Op bits enc) (Some mem1) size1 = Done (st1, r) /\
    asn_encode_to_buffer true (Op bits enc) (Some mem2) size2 = Done (st2, r).
Proof.
  intros bits enc Hwb calls delivered r Hrun mem1 size1 mem2 size2 H1 H2.
  destruct (to_buffer_contract bits enc Hwb calls delivered r Hrun mem1 size1 H1) as [st1 [E1 _]].
  destruct (to_buffer_contract bits enc Hwb calls delivered r Hrun mem2 size2 H2) as [st2 [E2 _]].
  exists st1, st2. split; assumption.
Qed.

(* when the output fits, the buffer starts with the complete output *)
Theorem to_buffer_complete_when_fits : forall bits enc, well_behaved bits enc ->
  forall calls delivered r, fault_free_run bits enc calls delivered r ->
  forall mem size, 0 <= size <= zlen mem -> total delivered <= size ->
  exists st, asn_encode_to_buffer true (Op bits enc) (Some mem) size = Done (st, r) /\
    o_mem st = concat delivered ++ skipn (length (concat delivered)) mem.
Proof.
  intros bits enc Hwb calls delivered r Hrun mem size Hs Hfit.
  destruct (to_buffer_contract bits enc Hwb calls delivered r Hrun mem size Hs) as [st [E1 [_ [E3 _]]]].
  exists st. split; [exact E1|]. rewrite E3, fit_prefix_all by exact Hfit. reflexivity.
Qed.

(* NULL buffer: EINVAL with a positive size; with size 0 the size is still computed *)
Theorem to_buffer_null : forall bits enc, well_behaved bits enc ->
  forall calls delivered r, fault_free_run bits enc calls delivered r ->
  (forall size, 0 < size -> exists st, asn_encode_to_buffer true (Op bits enc) None size = Done (st, {| encoded := -1; err := EINVAL |})) /\
  (exists st, asn_encode_to_buffer true (Op bits enc) None 0 = Done (st, r) /\ o_oob st = false /\ o_mem st = []).
Proof.
  intros bits enc Hwb calls delivered r Hrun. split.
  - intros size Hs. unfold asn_encode_to_buffer. destruct (0 <? size) eqn:E; [|lia]. eexists. reflexivity.
  - destruct (to_buffer_contract bits enc Hwb calls delivered r Hrun [] 0) as [st [E1 [E2 [E3 _]]]].
    { change (zlen (@nil Z)) with 0. lia. }
    exists st. unfold asn_encode_to_buffer in *. cbn [Z.ltb] in *. split; [exact E1|]. split; [exact E2|].
    rewrite E3. pose proof (fit_prefix_le delivered 0 ltac:(lia)) as Hle.
    pose proof (total_nonneg (fit_prefix 0 delivered)) as Hge. unfold total in *.
    destruct (concat (fit_prefix 0 delivered)); [rewrite skipn_nil; reflexivity|].
    rewrite zlen_cons in Hle. pose proof (zlen_nonneg l). lia.
Qed.

(* ---------------- asn_encode_to_new_buffer ---------------- *)

Lemma grow_some : forall fuel ns need,
  1 <= ns -> need - ns < Z.of_nat fuel -> (1 <= fuel)%nat -> exists r, grow fuel ns need = Some r /\ need < r.
Proof.
  induction fuel as [|f IH]; intros ns need H1 H2 H3; [lia|].
  cbn [grow]. destruct (ns * 2 <=? need) eqn:E.
  - apply IH; lia.
  - exists (ns * 2). split; [reflexivity | lia].
Qed.

Definition dyn_good (st : dstate) (content : list Z) : Prop :=
  d_bad st = false /\ d_comp st = zlen content /\
  (d_buf st = None \/ (d_buf st = Some content /\ d_comp st < d_cap st /\ 1 <= d_cap st)).

Lemma dynamic_step afail st content c :
  dyn_good st content ->
  exists st', dynamic_cb afail st c = (st', true) /\ dyn_good st' (content ++ c) /\
    (d_buf st = None -> d_buf st' = None) /\
    ((forall i, afail i = false) -> d_buf st <> None -> d_buf st' <> None).
Proof.
  intros [Hb [Hc Hbuf]]. unfold dynamic_cb. pose proof (zlen_nonneg c) as Hc0. pose proof (zlen_nonneg content) as Hn0.
  destruct Hbuf as [Hn | [Hs [Hlt Hcap]]].
  - rewrite Hn. eexists. split; [reflexivity|]. unfold dyn_good. cbn. rewrite zlen_app.
    repeat split; auto; try lia.
  - rewrite Hs. destruct (d_cap st <=? d_comp st + zlen c) eqn:E.
    + destruct (grow_some (S (Z.to_nat (d_comp st + zlen c))) (d_cap st) (d_comp st + zlen c)) as [ns [Hg Hns]]; [lia | lia | lia |].
      rewrite Hg. destruct (afail (d_allocs st)) eqn:Ea.
      * eexists. split; [reflexivity|]. unfold dyn_good. cbn. rewrite zlen_app.
        repeat split; auto; try lia. intros H. rewrite H in Ea. discriminate.
      * eexists. split; [reflexivity|]. unfold dyn_good. cbn [d_bad d_comp d_buf d_cap]. rewrite zlen_app.
        split.
        { split. { rewrite Hb. cbn [orb]. destruct (zlen content =? d_comp st) eqn:E1; [|lia]. cbn [negb orb]. lia. }
          split; [lia|]. right. split; [reflexivity|]. lia. }
        split; [intros H; congruence | intros _ _ H; discriminate].
    + eexists. split; [reflexivity|]. unfold dyn_good. cbn [d_bad d_comp d_buf d_cap]. rewrite zlen_app.
      split.
      { split. { rewrite Hb. cbn [orb]. destruct (zlen content =? d_comp st) eqn:E1; [|lia]. cbn [negb orb]. lia. }
        split; [lia|]. right. split; [reflexivity|]. lia. }
      split; [intros H; congruence | intros _ _ H; discriminate].
Qed.

Lemma emit_dynamic afail : forall cs st content,
  dyn_good st content ->
  exists st', emit (dynamic_cb afail) st cs = (st', true) /\ dyn_good st' (content ++ concat cs) /\
    (d_buf st = None -> d_buf st' = None) /\
    ((forall i, afail i = false) -> d_buf st <> None -> d_buf st' <> None).
Proof.
  induction cs as [|c cs IH]; intros st content Hg; cbn [emit concat].
  - exists st. rewrite app_nil_r. auto.
  - destruct (dynamic_step afail st content c Hg) as [st1 [E1 [G1 [N1 A1]]]]. rewrite E1.
    destruct (IH st1 (content ++ c) G1) as [st2 [E2 [G2 [N2 A2]]]].
    exists st2. rewrite app_assoc. split; [exact E2|]. split; [exact G2|]. split; auto.
Qed.

Lemma new_buffer_scripted bits enc sc m af :
  scripted enc sc ->
  asn_encode_to_new_buffer true (Op bits enc) m af = asn_encode_to_new_buffer true (Op bits (run_script sc)) m af.
Proof.
  intros H. unfold asn_encode_to_new_buffer, encode_internal. cbn [negb]. rewrite H. reflexivity.
Qed.

(* every allocation oracle: no abort, no stray write, the size of asn_encode, and either NULL or the exact content *)
Theorem new_buffer_exact : forall bits enc, well_behaved bits enc ->
  forall calls delivered r, fault_free_run bits enc calls delivered r ->
  forall malloc_ok afail,
  exists buf, asn_encode_to_new_buffer true (Op bits enc) malloc_ok afail =
              Done {| nb_buffer := buf; nb_result := r; nb_bad := false |} /\
    (buf = None \/ buf = Some (concat delivered)) /\
    (malloc_ok = false -> buf = None) /\
    (encoded r < 0 -> buf = None) /\
    (malloc_ok = true -> (forall i, afail i = false) -> 0 <= encoded r -> buf = Some (concat delivered)).
Proof.
  intros bits enc [sc [Hsc Hok]] calls delivered r Hrun malloc_ok afail.
  unfold fault_free_run in Hrun.
  rewrite (asn_encode_scripted bits enc sc _ _ Hsc), fault_free_script in Hrun by exact Hok.
  injection Hrun as Hc Hd Hr. subst calls delivered r.
  rewrite (new_buffer_scripted bits enc sc _ _ Hsc).
  pose proof Hok as [Hf Hend]. unfold asn_encode_to_new_buffer.
  rewrite internal_script by exact Hf.
  set (st0 := {| d_buf := if malloc_ok then Some [] else None; d_cap := 16; d_comp := 0; d_allocs := 0; d_bad := false |}).
  assert (G0 : dyn_good st0 []).
  { unfold dyn_good, st0. cbn. split; [reflexivity|]. split; [reflexivity|].
    destruct malloc_ok; [right; split; [reflexivity|lia] | left; reflexivity]. }
  destruct (emit_dynamic afail (api_chunks bits sc) st0 [] G0) as [st [E [[Gb [Gc Gbuf]] [N A]]]].
  rewrite E. cbn [app] in *.
  assert (Hcmp : (0 <=? encoded (api_final bits sc)) && negb (encoded (api_final bits sc) =? d_comp st) = false).
  { destruct (ending sc) as [n|h] eqn:Hen.
    - destruct (api_final_total bits sc n Hok Hen) as [H1 _]. rewrite H1, Gc. unfold total.
      rewrite Z.eqb_refl. cbn [negb]. apply andb_false_r.
    - destruct (api_final_fail bits sc h Hen) as [H1 _]. rewrite H1. reflexivity. }
  rewrite Hcmp.
  destruct (encoded (api_final bits sc) <? 0) eqn:Eneg.
  { exists None. rewrite Gb. split; [reflexivity|]. split; [left; reflexivity|]. split; [reflexivity|].
    split; [reflexivity|]. intros _ _ Hpos. lia. }
  destruct Gbuf as [Hn | [Hs [Hlt Hcap]]].
  - rewrite Hn. exists None. rewrite Gb. split; [reflexivity|]. split; [left; reflexivity|]. split; [reflexivity|].
    split; [reflexivity|].
    intros Hm Ha _. exfalso. apply (A Ha); [|exact Hn]. unfold st0. rewrite Hm. cbn. discriminate.
  - rewrite Hs. destruct (negb (d_comp st <? d_cap st)) eqn:E2; [lia|].
    exists (Some (concat (api_chunks bits sc))). rewrite Gb. split; [reflexivity|]. split; [right; reflexivity|].
    split; [|split; [intros Hlt0; lia | reflexivity]].
    intros Hm. exfalso. assert (Hx : d_buf st = None). { apply N. unfold st0. rewrite Hm. reflexivity. } congruence.
Qed.

(* asn_application.h: "On failure: (.buffer) is NULL" *)
Theorem new_buffer_null_on_failure : forall bits enc, well_behaved bits enc ->
  forall calls delivered r, fault_free_run bits enc calls delivered r -> encoded r < 0 ->
  forall malloc_ok afail,
  asn_encode_to_new_buffer true (Op bits enc) malloc_ok afail =
  Done {| nb_buffer := None; nb_result := r; nb_bad := false |}.
Proof.
  intros bits enc W calls delivered r F Hneg malloc_ok afail.
  destruct (new_buffer_exact bits enc W calls delivered r F malloc_ok afail) as [b [E [_ [_ [Nf _]]]]].
  rewrite E, (Nf Hneg). reflexivity.
Qed.

(* an encoder that fails after having delivered a chunk: the collected bytes are released *)
Definition failing_after_one_chunk : script :=
  {| chunks := [[1; 2; 3]]; ending := IFail true; on_cb_fail := IFail true |}.

Example ex_new_buffer_null_on_failure :
  asn_encode_to_new_buffer true (Op false (run_script failing_after_one_chunk)) true (fun _ => false) =
  Done {| nb_buffer := None; nb_result := {| encoded := -1; err := EBADF |}; nb_bad := false |}.
Proof. vm_compute. reflexivity. Qed.

(* the asserts are real: an encoder that breaks the contract aborts *)
Definition miscounting : script := {| chunks := [[1; 2]]; ending := IOk 3; on_cb_fail := IFail true |}.
Definition swallowing : script := {| chunks := [[1]; [2]]; ending := IOk 2; on_cb_fail := IOk 1 |}.
Definition null_failed_type : script := {| chunks := [[5; 0]]; ending := IOk 2; on_cb_fail := IFail false |}.

Lemma asserts_fire_outside_contract :
  asn_encode_to_buffer true (Op false (run_script miscounting)) (Some [0; 0; 0; 0]) 4 = Aborted 3 /\
  asn_encode_to_new_buffer true (Op false (run_script miscounting)) true (fun _ => false) = Aborted 4 /\
  asn_encode (Some (user_cb (Some 0%nat))) true (Op false (run_script swallowing)) (0%nat, []) = Aborted 1 /\
  asn_encode (Some (user_cb (Some 0%nat))) true (Op false (run_script null_failed_type)) (0%nat, []) = Aborted 2.
Proof. repeat split; vm_compute; reflexivity. Qed.

(* ---------------- the model encoders are well-behaved ---------------- *)

Lemma chunk_by_concat : forall fuel n bs, (1 <= n)%nat -> (length bs <= fuel)%nat ->
  concat (chunk_by fuel n bs) = bs.
Proof.
  induction fuel as [|f IH]; intros n bs Hn Hl.
  - destruct bs; [reflexivity | cbn [length] in Hl; lia].
  - cbn [chunk_by]. destruct bs as [|b bs]; [reflexivity|].
    cbn [concat]. rewrite IH; [apply firstn_skipn | exact Hn |].
    rewrite skipn_length. cbn [length] in *. lia.
Qed.

Lemma chunks32_concat bs : concat (chunks32 bs) = bs.
Proof. apply chunk_by_concat; lia. Qed.

Lemma one_chunk_concat bs : concat (one_chunk bs) = bs.
Proof. destruct bs; [reflexivity|]. cbn [one_chunk concat]. apply app_nil_r. Qed.

Lemma pack_bits_len : forall fuel bs, (length bs < fuel)%nat -> zlen (pack_bits fuel bs) = (zlen bs + 7) / 8.
Proof.
  induction fuel as [|f IH]; intros bs Hl; [lia|].
  cbn [pack_bits]. destruct bs as [|b bs]; [reflexivity|].
  rewrite zlen_cons. rewrite IH by (rewrite skipn_length; cbn [length] in *; lia).
  unfold zlen. rewrite skipn_length. set (L := length (b :: bs)) in *.
  assert (HL : (1 <= L)%nat) by (unfold L; cbn [length]; lia).
  destruct (Nat.le_gt_cases 8 L) as [H8|H8].
  - replace (Z.of_nat (L - 8)) with (Z.of_nat L - 8) by lia.
    replace (Z.of_nat L + 7) with ((Z.of_nat L - 8 + 7) + 1 * 8) by lia.
    rewrite Z.div_add by lia. lia.
  - replace (Z.of_nat (L - 8)) with 0 by lia. change ((0 + 7) / 8) with 0.
    assert (H : (Z.of_nat L + 7) / 8 = 1); [|lia].
    symmetry. apply Z.div_unique with (r := Z.of_nat L + 7 - 8); lia.
Qed.

Lemma bits_to_bytes_len bits : zlen (bits_to_bytes bits) = (zlen bits + 7) / 8.
Proof. unfold bits_to_bytes. apply pack_bits_len. lia. Qed.

Lemma bytes_script_ok chunking o :
  (forall bs, concat (chunking bs) = bs) -> script_ok false (bytes_script chunking o).
Proof.
  intros Hc. destruct o as [bs|]; unfold script_ok; cbn [bytes_script on_cb_fail ending chunks]; (split; [reflexivity|]); [|exact I].
  unfold total. rewrite Hc. reflexivity.
Qed.

Lemma bits_script_ok chunking o :
  (forall bs, concat (chunking bs) = bs) -> script_ok true (bits_script chunking bits_to_bytes o).
Proof.
  intros Hc. destruct o as [bits|]; unfold script_ok; cbn [bits_script on_cb_fail ending chunks]; (split; [reflexivity|]); [|exact I].
  split; [apply zlen_nonneg|]. unfold total. rewrite Hc. symmetry. apply bits_to_bytes_len.
Qed.

Theorem der_encoder_well_behaved : forall t v, well_behaved false (der_encoder t v).
Proof.
  intros t v. exists (bytes_script one_chunk (der t v)). split; [intros S cb s; reflexivity|].
  apply bytes_script_ok, one_chunk_concat.
Qed.

Theorem oer_encoder_well_behaved : forall t v, well_behaved false (oer_encoder t v).
Proof.
  intros t v. exists (bytes_script one_chunk (oer t v)). split; [intros S cb s; reflexivity|].
  apply bytes_script_ok, one_chunk_concat.
Qed.

Theorem uper_encoder_well_behaved : forall t v, well_behaved true (uper_encoder t v).
Proof.
  intros t v. exists (bits_script chunks32 bits_to_bytes (uper false t v)). split; [intros S cb s; reflexivity|].
  apply bits_script_ok, chunks32_concat.
Qed.

(* what the application sees of a model encoder through asn_encode: the complete output
   of the codec model, or -1/EBADF when the value cannot be encoded *)
Definition api_view (o : option bytes) : list Z * api_res :=
  match o with
  | Some bs => (bs, {| encoded := zlen bs; err := E0 |})
  | None => ([], {| encoded := -1; err := EBADF |})
  end.

Lemma bytes_script_view chunking o :
  (forall bs, concat (chunking bs) = bs) ->
  (concat (api_chunks false (bytes_script chunking o)), api_final false (bytes_script chunking o)) = api_view o.
Proof.
  intros Hc. destruct o as [bs|]; cbn; [|reflexivity].
  rewrite app_nil_r, Hc. reflexivity.
Qed.

Theorem der_api : forall t v, exists calls delivered r,
  fault_free_run false (der_encoder t v) calls delivered r /\ (concat delivered, r) = api_view (der t v).
Proof.
  intros t v. eexists _, _, _. split.
  - unfold fault_free_run, der_encoder. apply fault_free_script, bytes_script_ok, one_chunk_concat.
  - apply bytes_script_view, one_chunk_concat.
Qed.

Theorem oer_api : forall t v, exists calls delivered r,
  fault_free_run false (oer_encoder t v) calls delivered r /\ (concat delivered, r) = api_view (oer t v).
Proof.
  intros t v. eexists _, _, _. split.
  - unfold fault_free_run, oer_encoder. apply fault_free_script, bytes_script_ok, one_chunk_concat.
  - apply bytes_script_view, one_chunk_concat.
Qed.

(* UPER through asn_encode is the complete encoding [uper_encode] (zero bits -> one zero octet) *)
Theorem uper_api : forall t v, exists calls delivered r,
  fault_free_run true (uper_encoder t v) calls delivered r /\
  (concat delivered, r) = api_view (uper_encode false t v).
Proof.
  intros t v. eexists _, _, _. split.
  - unfold fault_free_run, uper_encoder. apply fault_free_script, bits_script_ok, chunks32_concat.
  - unfold uper_encode. destruct (uper false t v) as [bits|]; [|reflexivity].
    unfold api_chunks, api_final. cbn [bits_script chunks ending andb].
    destruct bits as [|b bits].
    + vm_compute. reflexivity.
    + assert (Hz : (zlen (b :: bits) =? 0) = false) by (rewrite zlen_cons; pose proof (zlen_nonneg bits); lia).
      rewrite Hz. rewrite app_nil_r, chunks32_concat. cbn [api_view]. rewrite bits_to_bytes_len. reflexivity.
Qed.

(* un-encodable values: -1 with EBADF from every entry point, whatever the callback does *)
Theorem unencodable_fails : forall bits (o : option bytes) chunking,
  o = None ->
  let enc := run_script (bytes_script chunking o) in
  (forall S (cb : cbT S) s, asn_encode (Some cb) true (Op bits enc) s = Done (s, {| encoded := -1; err := EBADF |})) /\
  (forall mem size, exists st, asn_encode_to_buffer true (Op bits enc) (Some mem) size = Done (st, {| encoded := -1; err := EBADF |}) /\ o_mem st = mem) /\
  (forall m af, exists b, asn_encode_to_new_buffer true (Op bits enc) m af =
                Done {| nb_buffer := b; nb_result := {| encoded := -1; err := EBADF |}; nb_bad := false |}).
Proof.
  intros bits o chunking Ho enc. subst o. unfold enc. cbn [bytes_script].
  split; [|split].
  - intros S cb s. reflexivity.
  - intros mem size. eexists. split; reflexivity.
  - intros m af. destruct m; eexists; reflexivity.
Qed.

(* the results that do not depend on where an encoder cuts its output *)
Lemma new_buffer_of_view ch o m :
  (forall bs, concat (ch bs) = bs) ->
  asn_encode_to_new_buffer true (Op false (run_script (bytes_script ch o))) m (fun _ => false) =
  Done {| nb_buffer := if m then o else None; nb_result := snd (api_view o); nb_bad := false |}.
Proof.
  intros H.
  assert (W : well_behaved false (run_script (bytes_script ch o))).
  { exists (bytes_script ch o). split; [intros S cb s; reflexivity | apply bytes_script_ok, H]. }
  pose proof (fault_free_script false _ (bytes_script_ok ch o H)) as F.
  destruct (new_buffer_exact false _ W _ _ _ F m (fun _ => false)) as [b [E [_ [N [Nf Sm]]]]].
  pose proof (bytes_script_view ch o H) as V. rewrite E.
  pose proof (f_equal fst V) as V1. pose proof (f_equal snd V) as V2. cbn [fst snd] in V1, V2.
  rewrite V2 in *. rewrite V1 in *. clear V V1 V2.
  destruct o as [bs|]; cbn [api_view fst snd encoded] in *.
  - destruct m.
    + rewrite (Sm eq_refl (fun _ => eq_refl) (zlen_nonneg bs)). reflexivity.
    + rewrite (N eq_refl). reflexivity.
  - assert (Hb : b = None) by (apply Nf; lia). rewrite Hb. destruct m; reflexivity.
Qed.

Theorem chunking_irrelevant : forall ch1 ch2 o m,
  (forall bs, concat (ch1 bs) = bs) -> (forall bs, concat (ch2 bs) = bs) ->
  asn_encode_to_new_buffer true (Op false (run_script (bytes_script ch1 o))) m (fun _ => false) =
  asn_encode_to_new_buffer true (Op false (run_script (bytes_script ch2 o))) m (fun _ => false).
Proof.
  intros ch1 ch2 o m H1 H2. rewrite (new_buffer_of_view ch1 o m H1), (new_buffer_of_view ch2 o m H2). reflexivity.
Qed.

(* ---------------- non-vacuity ---------------- *)

Example ex_der_encoder :
  asn_encode (Some (user_cb None)) true (Op false (der_encoder (TInt 8 (ICon None None false)) (VInt 5))) (0%nat, [])
  = Done ((1%nat, [[2; 1; 5]]), {| encoded := 3; err := E0 |}).
Proof. vm_compute. reflexivity. Qed.

Example ex_uper_zero_bits :
  asn_encode (Some (user_cb None)) true (Op true (uper_encoder (TNull 20) VNull)) (0%nat, [])
  = Done ((1%nat, [[0]]), {| encoded := 1; err := E0 |}).
Proof. vm_compute. reflexivity. Qed.

Example ex_uper_zero_bits_cb_fails :
  asn_encode (Some (user_cb (Some 0%nat))) true (Op true (uper_encoder (TNull 20) VNull)) (0%nat, [])
  = Done ((1%nat, []), {| encoded := -1; err := EIO |}).
Proof. vm_compute. reflexivity. Qed.

Example ex_uper_unencodable :
  asn_encode (Some (user_cb None)) true (Op true (uper_encoder (TInt 8 (ICon (Some 0) (Some 7) false)) (VInt 9))) (0%nat, [])
  = Done ((0%nat, []), {| encoded := -1; err := EBADF |}).
Proof. vm_compute. reflexivity. Qed.

Definition three_chunks : script :=
  {| chunks := [[48; 6]; [2; 1; 5]; [1; 1; 255]]; ending := IOk 8; on_cb_fail := IFail true |}.

Example ex_script_ok : script_ok false three_chunks.
Proof. split; reflexivity. Qed.

Example ex_cb_fail_at_1 :
  asn_encode (Some (user_cb (Some 1%nat))) true (Op false (run_script three_chunks)) (0%nat, [])
  = Done ((2%nat, [[48; 6]]), {| encoded := -1; err := EIO |}).
Proof. vm_compute. reflexivity. Qed.

Example ex_to_buffer_small :
  asn_encode_to_buffer true (Op false (run_script three_chunks)) (Some [165; 165; 165; 165; 165; 165]) 6
  = Done ({| o_mem := [48; 6; 2; 1; 5; 165]; o_size := 0; o_comp := 8; o_oob := false |}, {| encoded := 8; err := E0 |}).
Proof. vm_compute. reflexivity. Qed.

Example ex_new_buffer_grows :
  asn_encode_to_new_buffer true (Op false (run_script
     {| chunks := [[1;2;3;4;5;6;7;8]; [9;10;11;12;13;14;15;16]; [17]]; ending := IOk 17; on_cb_fail := IFail true |})) true (fun _ => false)
  = Done {| nb_buffer := Some [1;2;3;4;5;6;7;8;9;10;11;12;13;14;15;16;17]; nb_result := {| encoded := 17; err := E0 |}; nb_bad := false |}.
Proof. vm_compute. reflexivity. Qed.

Example ex_new_buffer_alloc_fails :
  asn_encode_to_new_buffer true (Op false (run_script
     {| chunks := [[1;2;3;4;5;6;7;8]; [9;10;11;12;13;14;15;16]; [17]]; ending := IOk 17; on_cb_fail := IFail true |})) true (fun _ => true)
  = Done {| nb_buffer := None; nb_result := {| encoded := 17; err := E0 |}; nb_bad := false |}.
Proof. vm_compute. reflexivity. Qed.
