(* Rt/HeapOerFuel.v — C15: the fuel of the element loops of Rt/HeapOer.v suffices.

   [oll_run] gives every element loop |input| + 202 units of fuel.  With the per-element
   guard a loop over zero-width elements stops after at most 202 turns, a loop over
   elements of positive width after at most |rest of the input| + 1 turns, and every
   nested decoder sees a suffix of the input: [RFuel] is never the outcome, i.e. the
   model's outcome is always one the C can produce (RC_OK, RC_WMORE, RC_FAIL). *)
From Coq Require Import ZArith List Bool Arith Lia ZifyBool.
From A1 Require Import Base.Bytes Rt.HeapBound Rt.HeapOer Rt.HeapOerProofs.
Import ListNotations.
Local Open Scope Z_scope.

Definition nofuel (N : Z) (dec : list Z -> meter -> res) : Prop :=
  forall bs m, mok m -> zlen bs <= N -> r_rc (dec bs m) <> RFuel.

Section Loops.
  Variable dec : list Z -> meter -> res.
  Variables A B N : Z.
  Hypothesis Hnf : nofuel N dec.

  Lemma nofuel_pos g : dec_ok A B false dec ->
    forall fuel left done fresh u bs m l r l',
    mok m -> lok m l -> zlen bs <= N -> zlen bs + 1 <= Z.of_nat fuel ->
    oll_items g dec fuel left done fresh u bs m l = (r, l') -> r_rc r <> RFuel.
  Proof.
    intros Hd. induction fuel as [|f IH]; intros left done fresh u bs m l r l' Hm Hl HN Hf H; cbn [oll_items] in H.
    - pose proof (zlen_nonneg bs). lia.
    - destruct (left <=? 0); [inv H; simp; discriminate|].
      destruct (Hd bs m Hm) as (D1 & D2 & D3 & D4 & D5 & D6).
      pose proof (Hnf bs m Hm HN) as Hn0.
      set (r0 := dec bs m) in *.
      assert (Hl0 : lok (r_m r0) l) by (unfold lok in *; lia).
      pose proof (zlen_nonneg (r_rest r0)) as Hr0.
      destruct (r_rc r0) eqn:Erc.
      + specialize (D6 eq_refl). cbn beta iota in D6.
        destruct (set_add (r_m r0) l) as [m2 l2] eqn:Es.
        destruct (set_add_ok _ _ _ _ Es D1 Hl0) as (S1 & S2 & S3 & S4 & S5).
        destruct (is_per g && (fresh && (r_used r0 =? 0)) && (200 <? done)).
        * inv H; simp; discriminate.
        * apply IH in H; [exact H|assumption|assumption|lia|lia].
      + inv H; simp; discriminate.
      + inv H; simp; discriminate.
      + exfalso. apply Hn0. reflexivity.
  Qed.

  Lemma nofuel_zero : dec_ok A B true dec ->
    forall fuel left done u bs m l r l',
    mok m -> lok m l -> zlen bs <= N -> 0 <= done <= 201 -> 202 - done <= Z.of_nat fuel ->
    oll_items PerElement dec fuel left done true u bs m l = (r, l') -> r_rc r <> RFuel.
  Proof.
    intros Hd. induction fuel as [|f IH]; intros left done u bs m l r l' Hm Hl HN Hdn Hf H; cbn [oll_items] in H.
    - lia.
    - destruct (left <=? 0); [inv H; simp; discriminate|].
      destruct (Hd bs m Hm) as (D1 & D2 & D3 & D4 & D5 & D6).
      pose proof (Hnf bs m Hm HN) as Hn0.
      set (r0 := dec bs m) in *.
      assert (Hl0 : lok (r_m r0) l) by (unfold lok in *; lia).
      pose proof (zlen_nonneg (r_rest r0)) as Hr0.
      destruct (r_rc r0) eqn:Erc.
      + specialize (D6 eq_refl). cbn beta iota in D6.
        destruct (set_add (r_m r0) l) as [m2 l2] eqn:Es.
        destruct (set_add_ok _ _ _ _ Es D1 Hl0) as (S1 & S2 & S3 & S4 & S5).
        rewrite D6 in H. cbn [is_per andb Z.eqb] in H.
        destruct (200 <? done) eqn:E200.
        * inv H; simp; discriminate.
        * apply IH in H; [exact H|assumption|assumption|lia|lia|lia].
      + inv H; simp; discriminate.
      + inv H; simp; discriminate.
      + exfalso. apply Hn0. reflexivity.
  Qed.
End Loops.

Theorem oll_dec_nofuel : forall t, wf t -> forall F : nat,
  nofuel (Z.of_nat F - 202) (oll_dec PerElement F t).
Proof.
  induction t as [w esz|e IH]; intros Hwf F bs m Hm HN.
  - cbn [oll_dec]. destruct (has w bs); simp; discriminate.
  - cbn [wf] in Hwf. specialize (IH Hwf F).
    pose proof (oll_dec_ok e Hwf F) as Hok.
    rewrite oll_dec_list.
    destruct (mok_malloc m lhd Hm ltac:(unfold lhd; lia)) as [M1 M2].
    destruct (fetch_qty bs) as [| |q r u] eqn:Eq; try (simp; discriminate).
    cbn [is_upfront andb].
    apply fetch_qty_spec in Eq. destruct Eq as [Q1 Q2].
    destruct (oll_items PerElement (oll_dec PerElement F e) F q 0 true u r (m_malloc m lhd) l0) as [r1 l1] eqn:Ei.
    cbn [fst]. pose proof (zlen_nonneg r) as Hr.
    destruct (zw e) eqn:Ez.
    + assert (Hd0 : 0 <= 0 <= 201) by lia.
      eapply (nofuel_zero _ (ca e) (cb e) _ IH Hok); [exact M1|exact (lok_l0 _ M1)| |exact Hd0| |exact Ei]; lia.
    + eapply (nofuel_pos _ (ca e) (cb e) _ IH PerElement Hok); [exact M1|exact (lok_l0 _ M1)| | |exact Ei]; lia.
Qed.

(* the fuel [oll_run] provides is enough: the outcome is RC_OK, RC_WMORE or RC_FAIL *)
Theorem oll_run_nofuel : forall t bs, wf t -> r_rc (oll_run PerElement t bs) <> RFuel.
Proof.
  intros t bs Hwf. unfold oll_run.
  apply (oll_dec_nofuel t Hwf (length bs + 202)%nat bs m0 mok_m0).
  unfold zlen. lia.
Qed.
