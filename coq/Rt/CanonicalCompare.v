(* Rt/CanonicalCompare.v — C06, compare_struct on INTEGER_t: the model of
   INTEGER_compare (skeletons/INTEGER.c) on the contents octets of two non-empty
   integers.  No proofs here (CanonicalCompareProofs.v). *)
From Coq Require Import ZArith List Bool.
From A1 Require Import Base.Bytes Leaf.IntegerConv.
Import ListNotations.
Local Open Scope Z_scope.

(* sign_a = (a->buf[0] & 0x80) ? -1 : 1 *)
Definition is_neg (bs : list Z) : bool :=
  match bs with b :: _ => 128 <=? b | [] => false end.

(* memcmp() of two buffers of the same size, as a comparison *)
Fixpoint memcmp (a b : list Z) : comparison :=
  match a, b with
  | x :: a', y :: b' => match x ?= y with Eq => memcmp a' b' | c => c end
  | _, _ => Eq
  end.

(* both sizes non-zero:
     if(sign_a < sign_b) return -1;  if(sign_a > sign_b) return 1;
     skip the leading superfluous octets of both (the loop of INTEGER_encode_der = strip);
     if(a_size < b_size) return -1 * sign_a;  else if(a_size > b_size) return 1 * sign_b;
     return memcmp(a_buf, b_buf, a_size); *)
Definition int_compare (a b : list Z) : comparison :=
  if is_neg a && negb (is_neg b) then Lt
  else if negb (is_neg a) && is_neg b then Gt
  else
    let a' := strip a in
    let b' := strip b in
    if (length a' <? length b')%nat then (if is_neg a then Gt else Lt)
    else if (length b' <? length a')%nat then (if is_neg b then Lt else Gt)
    else memcmp a' b'.
