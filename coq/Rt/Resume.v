(* Rt/Resume.v — restartable decoders (C05), executable definitions only.

   1. The generic notion: a restartable decoder is a step function
        step : ctx -> window -> code * consumed * ctx
      (in the C the context lives inside the structure being filled, so the
      decoded value is part of ctx); the feeding discipline of the manual
      (asn1c-usage, "Restartability") as the function [feed]; [coherent].
   2. A toy machine (length-prefixed record, header consumed eagerly).
   3. [ber_dec3]: the reference BER decoder of Rt/Der.v with the RC_WMORE /
      RC_FAIL distinction: More = the input ran out, Fail = a real error.
   4. Machines modelled on the C:
      [prim_step]   ber_decode_primitive (asn_codecs_prim.c): nothing is consumed
                    until the whole TLV is present;
      [chain_step]  ber_check_tags (ber_decoder.c) called with a restart context:
                    ctx->step, limit_len and expect_00_terminators are saved
                    on every return that is not RC_OK and restored on entry. *)
From Coq Require Import ZArith List Bool.
From A1 Require Import Base.Bytes Leaf.IntegerConv Leaf.BerTL Rt.Types Rt.Comb Rt.Der.
Import ListNotations.
Local Open Scope Z_scope.

Inductive code := OK | MORE | FAIL.

Definition code_eqb (a b : code) : bool :=
  match a, b with OK, OK | MORE, MORE | FAIL, FAIL => true | _, _ => false end.

(* ------------------------------------------------------------------ *)
(* 1. generic                                                          *)

Section Generic.
  Variable ctx : Type.
  Variable step : ctx -> list Z -> code * nat * ctx.

  Definition shift (k : nat) (r : code * nat * ctx) : code * nat * ctx :=
    match r with (c, n, x) => (c, (k + n)%nat, x) end.

  (* The application receives the chunks one after the other.  It calls the
     decoder on (bytes not yet consumed ++ new chunk); RC_OK and RC_FAIL end
     the session; on RC_WMORE the unconsumed tail of the window is kept for
     the next call.  When no chunk is left the last answer stands.
     Result: final code, total number of bytes consumed, final context. *)
  Fixpoint feed (c : ctx) (pending : list Z) (total : nat) (chunks : list (list Z))
    : code * nat * ctx :=
    match chunks with
    | [] => (MORE, total, c)
    | ch :: rest =>
        let w := pending ++ ch in
        match step c w with
        | (MORE, k, c') =>
            match rest with
            | [] => (MORE, (total + k)%nat, c')
            | _ :: _ => feed c' (skipn k w) (total + k)%nat rest
            end
        | (r, k, c') => (r, (total + k)%nat, c')
        end
    end.

  Definition feed0 (c0 : ctx) (chunks : list (list Z)) := feed c0 [] O chunks.

  (* RC_WMORE is resumable: continuing from the saved context on the
     unconsumed tail extended by more input is the same as running from the
     original context on the extended window (shifted by what was consumed);
     RC_OK / RC_FAIL are final: more input does not change the answer. *)
  Definition resumable : Prop :=
    forall c p k c', step c p = (MORE, k, c') ->
      (k <= length p)%nat /\
      forall more, step c (p ++ more) = shift k (step c' (skipn k p ++ more)).

  Definition final : Prop :=
    forall c p r k c', step c p = (r, k, c') -> r <> MORE ->
      forall more, step c (p ++ more) = (r, k, c').

  Definition coherent : Prop := resumable /\ final.

  (* the chunkings of an input *)
  Definition chunking_of (input : list Z) (chunks : list (list Z)) : Prop :=
    chunks <> [] /\ concat chunks = input.

  Definition bytewise (input : list Z) : list (list Z) := map (fun b => [b]) input.
End Generic.

Arguments shift {ctx}.
Arguments feed {ctx}.
Arguments feed0 {ctx}.
Arguments resumable {ctx}.
Arguments final {ctx}.
Arguments coherent {ctx}.

(* ------------------------------------------------------------------ *)
(* 2. toy machine: one octet n, then n octets of payload; the header and
      every payload octet are consumed as soon as they are seen.
      Context: None = header not yet read; Some (need, acc). *)

Definition toy_ctx := option (nat * list Z).

Definition toy_body (need : nat) (acc w : list Z) : code * nat * toy_ctx :=
  if (need <=? length w)%nat then (OK, need, Some (O, acc ++ firstn need w))
  else (MORE, length w, Some ((need - length w)%nat, acc ++ w)).

Definition toy_step (c : toy_ctx) (w : list Z) : code * nat * toy_ctx :=
  match c with
  | Some (need, acc) => toy_body need acc w
  | None =>
      match w with
      | [] => (MORE, O, None)
      | n :: tl =>
          if (n <? 0) || (255 <? n) then (FAIL, O, None)
          else shift 1 (toy_body (Z.to_nat n) [] tl)
      end
  end.

(* ------------------------------------------------------------------ *)
(* 3. the reference decoder with More / Fail                           *)

Inductive dres (A : Type) :=
| ROk (a : A) (rest : list Z)
| RMore
| RFail.
Arguments ROk {A}.
Arguments RMore {A}.
Arguments RFail {A}.

Inductive hres := HOk (tg : Z) (cons : bool) (len : Z) (rest : list Z) | HMore | HFail.

Definition tlv_open3 (bs : list Z) : hres :=
  match bs with
  | [] => HMore
  | b0 :: _ =>
      let cons := (b0 / 32) mod 2 =? 1 in
      match fetch_tag bs with
      | FOk tg n1 =>
          let bs1 := skipn n1 bs in
          match fetch_length cons bs1 with
          | FOk len n2 => HOk tg cons len (skipn n2 bs1)
          | FMore => HMore
          | FErr => HFail
          end
      | FMore => HMore
      | FErr => HFail
      end
  end.

(* More: the tag octets are not all there; Fail: they can never become a tag *)
Inductive pres := POk (tg : Z) | PMore | PFail.
Definition peek_tag3 (bs : list Z) : pres :=
  match fetch_tag bs with FOk tg _ => POk tg | FMore => PMore | FErr => PFail end.

Definition in_prim3 {A} (tg : Z) (bs : list Z) (k : list Z -> option A) : dres A :=
  match tlv_open3 bs with
  | HOk tg' false len rest =>
      if (tg' =? tg) && (0 <=? len) then
        if len <=? zlen rest then
          match k (firstn (Z.to_nat len) rest) with
          | Some a => ROk a (skipn (Z.to_nat len) rest)
          | None => RFail
          end
        else RMore
      else RFail
  | HOk _ true _ _ => RFail
  | HMore => RMore
  | HFail => RFail
  end.

(* a constructed TLV.  Definite length: once all the contents are there they
   are a closed window and are decoded by the two-valued continuation k2
   (running out of a closed window is an error, an OPTIONAL at its end is
   absent); until then More.  Indefinite length: the contents are an open
   stream decoded by k3, followed by the end-of-contents octets. *)
Definition in_cons3 {A} (tg : Z) (bs : list Z)
           (k3 : list Z -> dres A) (k2 : list Z -> option (A * list Z)) : dres A :=
  match tlv_open3 bs with
  | HOk tg' true len rest =>
      if tg' =? tg then
        if len =? -1 then
          match k3 rest with
          | ROk a (b1 :: b2 :: r) => if (b1 =? 0) && (b2 =? 0) then ROk a r else RFail
          | ROk a [b1] => if b1 =? 0 then RMore else RFail
          | ROk a [] => RMore
          | RMore => RMore
          | RFail => RFail
          end
        else if len <=? zlen rest then
          match k2 (firstn (Z.to_nat len) rest) with
          | Some (a, []) => ROk a (skipn (Z.to_nat len) rest)
          | _ => RFail
          end
        else RMore
      else RFail
  | HOk _ false _ _ => RFail
  | HMore => RMore
  | HFail => RFail
  end.

(* Comb-style combinators over dres (function parameter outside the fix) *)
Definition dec_members3 (dec : ty -> list Z -> dres val) : list ty -> list Z -> dres (list val) :=
  fix go ms s :=
    match ms with
    | [] => ROk [] s
    | m :: ms' =>
        match dec m s with
        | ROk v r =>
            match go ms' r with
            | ROk vs r' => ROk (v :: vs) r'
            | RMore => RMore
            | RFail => RFail
            end
        | RMore => RMore
        | RFail => RFail
        end
    end.

Definition dec_alt3 (dec : ty -> list Z -> dres val) (sel : nat -> ty -> bool) (s : list Z)
  : list ty -> nat -> dres val :=
  fix pick alts i :=
    match alts with
    | [] => RFail
    | a :: r =>
        if sel i a then
          match dec a s with
          | ROk v rest => ROk (VChoice i v) rest
          | RMore => RMore
          | RFail => RFail
          end
        else pick r (S i)
    end.

(* end of an open stream of elements: end-of-contents octets seen (true),
   something else seen (false), or cannot tell yet *)
Inductive eres := EEnd | EItem | EMore.
Definition at_end3 (bs : list Z) : eres :=
  match bs with
  | [] => EMore
  | [b1] => if b1 =? 0 then EMore else EItem
  | b1 :: b2 :: _ => if (b1 =? 0) && (b2 =? 0) then EEnd else EItem
  end.

Definition dec_until3 {A} (item : list Z -> dres A) : nat -> list Z -> dres (list A) :=
  fix loop fuel s :=
    match fuel with
    | O => RMore            (* fuel = S (length s): never reached, see ResumeProofs *)
    | S f =>
        match at_end3 s with
        | EEnd => ROk [] s
        | EMore => RMore
        | EItem =>
            match item s with
            | ROk a r =>
                match loop f r with
                | ROk x r' => ROk (a :: x) r'
                | RMore => RMore
                | RFail => RFail
                end
            | RMore => RMore
            | RFail => RFail
            end
        end
    end.

Definition prim_bool (c : list Z) : option val :=
  match c with [b] => Some (VBool (negb (b =? 0))) | _ => None end.
Definition prim_null (c : list Z) : option val :=
  match c with [] => Some VNull | _ => None end.
Definition prim_int (c : list Z) : option val :=
  match c with
  | [] => None
  | _ => if fits_long (twos_value c) then Some (VInt (twos_value c)) else None
  end.
Definition prim_oct (c : list Z) : option val := Some (VOct c).

Definition lift_list {A} (f : list A -> val) (r : option (list A * list Z)) : option (val * list Z) :=
  match r with Some (vs, rest) => Some (f vs, rest) | None => None end.

(* the input is an open stream: it may be continued *)
Fixpoint ber_dec3 (t : ty) (bs : list Z) {struct t} : dres val :=
  match t with
  | TBool tg => in_prim3 tg bs prim_bool
  | TNull tg => in_prim3 tg bs prim_null
  | TInt tg _ => in_prim3 tg bs prim_int
  | TOct tg _ => in_prim3 tg bs prim_oct
  | TSeq tg ms =>
      in_cons3 tg bs
        (fun c => match dec_members3 ber_dec3 ms c with
                  | ROk vs r => ROk (VSeq vs) r | RMore => RMore | RFail => RFail end)
        (fun c => lift_list VSeq (dec_members ber_dec ms c))
  | TSeqOf tg _ e | TSetOf tg _ e =>
      in_cons3 tg bs
        (fun c => match dec_until3 (ber_dec3 e) (S (length c)) c with
                  | ROk vs r => ROk (VList vs) r | RMore => RMore | RFail => RFail end)
        (fun c => lift_list VList (dec_until (ber_dec e) at_end (S (length c)) c))
  | TChoice alts =>
      match peek_tag3 bs with
      | POk tg => dec_alt3 ber_dec3 (fun _ a => tag_in tg (first_tags a)) bs alts O
      | PMore => RMore
      | PFail => RFail
      end
  | TTag tg t' => in_cons3 tg bs (ber_dec3 t') (ber_dec t')
  | TOpt t' =>
      match peek_tag3 bs with
      | POk tg =>
          if tag_in tg (first_tags t') then
            match ber_dec3 t' bs with
            | ROk v r => ROk (VSome v) r
            | RMore => RMore
            | RFail => RFail
            end
          else ROk VNone bs
      | PMore => RMore          (* open stream: presence cannot be decided yet *)
      | PFail => RFail
      end
  end.

(* what asn_decode reports: code, consumed, value *)
Definition ber_decode3 (t : ty) (bs : list Z) : code * Z * option val :=
  match ber_dec3 t bs with
  | ROk v rest => (OK, zlen bs - zlen rest, Some v)
  | RMore => (MORE, 0, None)
  | RFail => (FAIL, 0, None)
  end.

(* ------------------------------------------------------------------ *)
(* 4a. ber_decode_primitive as a machine.  The context is the structure:
       None before the contents are stored, Some contents afterwards.
       [tg]: the single tag of the type (tags_count = 1, tag_mode = 0). *)

Definition prim_ctx := option (list Z).

Definition prim_step (tg : Z) (c : prim_ctx) (w : list Z) : code * nat * prim_ctx :=
  match w with
  | [] => (MORE, O, c)
  | b0 :: _ =>
      let cons := (b0 / 32) mod 2 =? 1 in
      match fetch_tag w with
      | FMore => (MORE, O, c)
      | FErr => (FAIL, O, c)
      | FOk tg' n1 =>
          if negb (tg' =? tg) then (FAIL, O, c)
          else if cons then (FAIL, O, c)          (* last_tag_form = 0 *)
          else
            match fetch_length false (skipn n1 w) with
            | FMore => (MORE, O, c)
            | FErr => (FAIL, O, c)
            | FOk len n2 =>
                let rest := skipn n2 (skipn n1 w) in
                if len <=? zlen rest then
                  (OK, (n1 + n2 + Z.to_nat len)%nat, Some (firstn (Z.to_nat len) rest))
                else (MORE, O, c)
            end
      end
  end.

(* 4b. ber_check_tags with a restart context, as the constructed decoders call it
       (SEQUENCE, SET, SET OF, CHOICE: last_length = &ctx->left).
       tags: td->tags (tag_mode = 0, every tag is checked; all but the last must
       be constructed, the last must be constructed too: last_tag_form = 1).
       Context: ctx->step = number of tags already passed; ctx->left and
       ctx->context.  On RC_OK ctx->left holds *last_length and ctx->context is 0;
       on every other return the locals limit_len and expect_00_terminators are
       saved there, and a call entered with step > 0 restores them (and cuts the
       window to limit_len, as the loop does).
       Contexts with cstep >= length tags are never produced for a caller that
       leaves its tag phase on RC_OK; the model answers OK on them. *)

Record chain_ctx := { cstep : nat; cleft : Z; cctx : Z }.

(* one iteration of the for loop; returns the new locals or a verdict *)
Inductive iter_res :=
| INext (limit : Z) (exp00 : Z) (tlvlen : Z) (adv : nat)      (* ADVANCE(adv); tagno++, step++ *)
| IMore
| IFail.

Definition chain_iter (tag : Z) (w : list Z) (limit exp00 : Z) : iter_res :=
  match w with
  | [] => IMore
  | b0 :: _ =>
      let cons := (b0 / 32) mod 2 =? 1 in
      match fetch_tag w with
      | FMore => IMore
      | FErr => IFail
      | FOk tg n1 =>
          if negb (tg =? tag) then IFail
          else if negb cons then IFail
          else
            match fetch_length cons (skipn n1 w) with
            | FMore => IMore
            | FErr => IFail
            | FOk len n2 =>
                if len =? -1 then
                  if limit =? -1 then INext limit (exp00 + 1) len (n1 + n2)
                  else IFail                     (* indefinite inside a definite chain *)
                else if negb (exp00 =? 0) then IFail   (* definite inside an indefinite chain *)
                else
                  let whole := len + Z.of_nat (n1 + n2) in
                  if limit =? -1 then INext (whole - Z.of_nat (n1 + n2)) exp00 len (n1 + n2)
                  else if limit =? whole then INext (limit - Z.of_nat (n1 + n2)) exp00 len (n1 + n2)
                  else IFail
            end
      end
  end.

(* if(limit_len >= 0 && (ssize_t)size > limit_len) size = limit_len; *)
Definition trunc (limit : Z) (w : list Z) : list Z :=
  if (0 <=? limit) && (limit <? zlen w) then firstn (Z.to_nat limit) w else w.

(* the loop over the remaining tags; [w] is the rest of the window, already
   cut to limit_len when that is known *)
Fixpoint chain_loop (tags : list Z) (w : list Z) (limit exp00 lastlen : Z) (step consumed : nat)
  : code * nat * chain_ctx :=
  match tags with
  | [] => (OK, consumed, {| cstep := step; cleft := (if exp00 =? 0 then lastlen else - exp00); cctx := 0 |})
  | tag :: tags' =>
      match chain_iter tag w limit exp00 with
      | IMore => (MORE, consumed, {| cstep := step; cleft := limit; cctx := exp00 |})
      | IFail => (FAIL, consumed, {| cstep := step; cleft := limit; cctx := exp00 |})
      | INext limit' exp00' len adv =>
          chain_loop tags' (trunc limit' (skipn adv w)) limit' exp00' len (S step) (consumed + adv)%nat
      end
  end.

Definition chain_step (tags : list Z) (c : chain_ctx) (w : list Z) : code * nat * chain_ctx :=
  match cstep c with
  | O =>       (* limit_len = -1; expect_00_terminators = 0 *)
      chain_loop tags w (-1) 0 0 O O
  | S _ =>     (* restarted inside the chain: the saved locals *)
      chain_loop (skipn (cstep c) tags) (trunc (cleft c) w) (cleft c) (cctx c) 0 (cstep c) O
  end.

(* a structure fresh from calloc *)
Definition chain_ctx0 : chain_ctx := {| cstep := O; cleft := 0; cctx := 0 |}.
