(* Rt/CanonicalFrag.v — C06, canonical ordering against length fragmentation.

   X.691 11.9: a list of 16384 items or more whose length is not a constrained
   whole number is written as fragments of m * 16K items (1 <= m <= 4), each
   under its own length determinant; X.691 22.1 orders the members of the WHOLE
   set-of value.  The base model (Uper.put_counted / Uper.uper, TSetOf case) writes
   [counted (sort_bit_encodings es)]: this file makes the decision explicit.

   [chunks K] is the split that the loop of uper_put_length makes, with the
   fragment unit as a parameter (K = 16384 is X.691 and the C); [render_chunk K]
   one fragment with its length determinant; [put_counted_g K] the loop itself.
   [frag_whole K] = fragments of sort(l) (SET_OF_encode_uper: SET_OF__encode_sorted
   over list->count members, then the fragment loop); [frag_each K] = each fragment
   sorted on its own (what an encoder does that sorts inside the fragment loop).
   Proofs: CanonicalFragProofs.v. *)
From Coq Require Import ZArith List Bool.
From A1 Require Import Base.Bytes Rt.Types Rt.Comb Rt.Uper.
Import ListNotations.
Local Open Scope Z_scope.

(* length determinant of a list that is not fragmented (n < 16K) *)
Definition short_len (n : Z) : list bool :=
  if n <=? 127 then nbits 8 n else nbits 16 (n + 32768).

Section Frag.
  Variable K : Z.      (* number of items per fragment unit *)

  (* Uper.put_counted with 16384 replaced by K *)
  Fixpoint put_counted_g (fuel : nat) (items : list (list bool)) : list bool :=
    match fuel with
    | O => []
    | S f =>
        let n := zlen items in
        if n <? K then short_len n ++ concat items
        else
          let m := Z.min (n / K) 4 in
          let k := Z.to_nat (m * K) in
          nbits 8 (192 + m) ++ concat (firstn k items) ++
          (match skipn k items with
           | [] => nbits 8 0
           | rest => put_counted_g f rest
           end)
    end.

  (* the fragments: consecutive slices of the list; after an exact multiple of K
     an empty last fragment (the end-of-message length) *)
  Fixpoint chunks {A} (fuel : nat) (items : list A) : list (list A) :=
    match fuel with
    | O => []
    | S f =>
        let n := zlen items in
        if n <? K then [items]
        else
          let m := Z.min (n / K) 4 in
          let k := Z.to_nat (m * K) in
          firstn k items ::
          (match skipn k items with
           | [] => [[]]
           | rest => chunks f rest
           end)
    end.

  (* one fragment: its length determinant (decided by its own size), then its items *)
  Definition render_chunk (c : list (list bool)) : list bool :=
    let n := zlen c in
    (if n <? K then short_len n else nbits 8 (192 + n / K)) ++ concat c.

  Definition render (cs : list (list (list bool))) : list bool := concat (map render_chunk cs).

  (* canonical: sort the whole list, then fragment *)
  Definition frag_whole (l : list (list bool)) : list bool :=
    render (chunks (S (length l)) (sort_bit_encodings l)).

  (* not canonical: fragment the list as it is in memory, sort every fragment *)
  Definition frag_each (l : list (list bool)) : list bool :=
    render (map sort_bit_encodings (chunks (S (length l)) l)).
End Frag.
