(* Rt/Comb.v — the member / alternative / element loops shared by the codecs,
   as combinators taking the per-type codec as a parameter (function parameter
   outside the fix, so that the recursive codecs pass themselves and stay
   structurally recursive on the type).  Lemmas about a combinator are stated
   once, for any codec satisfying the lemma's hypothesis on the sub-types. *)
From Coq Require Import ZArith List Bool.
From A1 Require Import Rt.Types.
Import ListNotations.

Fixpoint option_all {A} (l : list (option A)) : option (list A) :=
  match l with
  | [] => Some []
  | None :: _ => None
  | Some a :: tl => match option_all tl with Some r => Some (a :: r) | None => None end
  end.

(* encode the members of a SEQUENCE in order and concatenate *)
Definition enc_members {B} (enc : ty -> val -> option (list B))
  : list ty -> list val -> option (list B) :=
  fix go ms vs :=
    match ms, vs with
    | [], [] => Some []
    | m :: ms', v :: vs' =>
        match enc m v, go ms' vs' with
        | Some a, Some b => Some (a ++ b)
        | _, _ => None
        end
    | _, _ => None
    end.

(* encode the chosen alternative of a CHOICE *)
Definition enc_alt {B} (enc : ty -> val -> option B) (v : val) : list ty -> nat -> option B :=
  fix pick alts i :=
    match alts, i with
    | a :: _, O => enc a v
    | _ :: r, S j => pick r j
    | [], _ => None
    end.

(* one presence bit per OPTIONAL member (PER and OER preambles) *)
Fixpoint presence_bits (ms : list ty) (vs : list val) : list bool :=
  match ms, vs with
  | m :: ms', v :: vs' =>
      (if is_opt m then [match v with VNone => false | _ => true end] else []) ++ presence_bits ms' vs'
  | _, _ => []
  end.

(* decode members in order from a stream (BER: optional members decide by themselves) *)
Definition dec_members {St} (dec : ty -> St -> option (val * St))
  : list ty -> St -> option (list val * St) :=
  fix go ms s :=
    match ms with
    | [] => Some ([], s)
    | m :: ms' =>
        match dec m s with
        | Some (v, r) =>
            match go ms' r with
            | Some (vs, r') => Some (v :: vs, r')
            | None => None
            end
        | None => None
        end
    end.

(* decode members with a presence bitmap (PER, OER) *)
Definition dec_members_pres {St} (dec : ty -> St -> option (val * St))
  : list ty -> list bool -> St -> option (list val * St) :=
  fix go ms pres s :=
    match ms with
    | [] => Some ([], s)
    | m :: ms' =>
        match m with
        | TOpt t' =>
            match pres with
            | true :: pres' =>
                match dec t' s with
                | Some (v, r) =>
                    match go ms' pres' r with
                    | Some (vs, r') => Some (VSome v :: vs, r')
                    | None => None
                    end
                | None => None
                end
            | false :: pres' =>
                match go ms' pres' s with
                | Some (vs, r') => Some (VNone :: vs, r')
                | None => None
                end
            | [] => None
            end
        | _ =>
            match dec m s with
            | Some (v, r) =>
                match go ms' pres r with
                | Some (vs, r') => Some (v :: vs, r')
                | None => None
                end
            | None => None
            end
        end
    end.

(* decode the first alternative selected by [sel] (tag match, or index match) *)
Definition dec_alt {St} (dec : ty -> St -> option (val * St)) (sel : nat -> ty -> bool) (s : St)
  : list ty -> nat -> option (val * St) :=
  fix pick alts i :=
    match alts with
    | [] => None
    | a :: r =>
        if sel i a then
          match dec a s with
          | Some (v, rest) => Some (VChoice i v, rest)
          | None => None
          end
        else pick r (S i)
    end.

(* decode exactly n items *)
Definition dec_items {A St} (item : St -> option (A * St)) : nat -> St -> option (list A * St) :=
  fix items n s :=
    match n with
    | O => Some ([], s)
    | S k =>
        match item s with
        | Some (a, r) =>
            match items k r with
            | Some (x, r') => Some (a :: x, r')
            | None => None
            end
        | None => None
        end
    end.

(* decode items until [stop] holds (BER SEQUENCE OF / SET OF contents); fuel bounds
   the number of items *)
Definition dec_until {A St} (item : St -> option (A * St)) (stop : St -> bool) : nat -> St -> option (list A * St) :=
  fix loop fuel s :=
    match fuel with
    | O => None
    | S f =>
        if stop s then Some ([], s)
        else match item s with
             | Some (a, r) =>
                 match loop f r with
                 | Some (x, r') => Some (a :: x, r')
                 | None => None
                 end
             | None => None
             end
    end.
