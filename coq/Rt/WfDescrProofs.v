(* WfDescrProofs.v — what acceptance by the checker of WfDescr.v means for the runtime's lookups:
   - bsearch with _t2e_cmp over an accepted tag2el map finds an entry iff a linear scan does;
   - the i-th optional root member's preamble bit position is its index in oms;
   - the CHOICE canonical-order tables are mutually inverse permutations;
   - every referenced type index exists. *)
From Coq Require Import ZArith List Bool Lia ZifyBool Arith.
From A1 Require Import Rt.WfDescr.
Import ListNotations.
Open Scope Z_scope.

(* ------------------------------------------------------------------ generic binary search *)

Lemma mid_bounds : forall l u : nat, (l < u)%nat -> (l <= (l + u) / 2 < u)%nat.
Proof.
  intros l u H. split.
  - apply Nat.div_le_lower_bound; lia.
  - apply Nat.div_lt_upper_bound; lia.
Qed.

Section BsearchProofs.
  Context {A : Type}.
  Variable c : A -> comparison.
  Variable tbl : list A.

  (* the comparator splits the table: entries below the key (Gt), then matches (Eq), then entries above (Lt) *)
  Definition partitioned : Prop :=
    forall i j a b, (i <= j)%nat -> nth_error tbl i = Some a -> nth_error tbl j = Some b ->
      (c a = Lt -> c b = Lt) /\ (c b = Gt -> c a = Gt).

  Lemma bsearch_go_S : forall f l u, bsearch_go (S f) c tbl l u =
    if (l <? u)%nat then
      match nth_error tbl ((l + u) / 2) with
      | None => None
      | Some p => match c p with
                  | Lt => bsearch_go f c tbl l ((l + u) / 2)
                  | Gt => bsearch_go f c tbl (S ((l + u) / 2)) u
                  | Eq => Some ((l + u) / 2)%nat
                  end
      end
    else None.
  Proof. reflexivity. Qed.

  Lemma bsearch_go_sound : forall fuel l u j, bsearch_go fuel c tbl l u = Some j ->
    (l <= j < u)%nat /\ exists a, nth_error tbl j = Some a /\ c a = Eq.
  Proof.
    induction fuel as [|f IH]; intros l u j H; [discriminate|].
    rewrite bsearch_go_S in H.
    destruct (l <? u)%nat eqn:E; [|discriminate]. apply Nat.ltb_lt in E.
    pose proof (mid_bounds l u E) as M.
    set (mid := ((l + u) / 2)%nat) in *. clearbody mid.
    destruct (nth_error tbl mid) as [p|] eqn:N; [|discriminate].
    destruct (c p) eqn:C.
    - inversion H; subst. split; [lia|]. exists p; auto.
    - apply IH in H. destruct H as [H1 H2]. split; [lia|auto].
    - apply IH in H. destruct H as [H1 H2]. split; [lia|auto].
  Qed.

  Hypothesis Hpart : partitioned.

  Lemma bsearch_go_complete : forall fuel l u, (u - l < fuel)%nat -> (u <= length tbl)%nat ->
    (exists k a, (l <= k < u)%nat /\ nth_error tbl k = Some a /\ c a = Eq) ->
    exists j, bsearch_go fuel c tbl l u = Some j.
  Proof.
    induction fuel as [|f IH]; intros l u Hf Hu (k & a & Hk & Hn & Hc); [lia|].
    rewrite bsearch_go_S. assert (E : (l < u)%nat) by lia.
    destruct (l <? u)%nat eqn:E'; [|apply Nat.ltb_ge in E'; lia].
    pose proof (mid_bounds l u E) as M.
    set (mid := ((l + u) / 2)%nat) in *. clearbody mid.
    destruct (nth_error tbl mid) as [p|] eqn:N.
    2: { apply nth_error_None in N. lia. }
    destruct (c p) eqn:C.
    - eauto.
    - (* key below the middle entry: the match is on the left *)
      assert (K : (k < mid)%nat).
      { destruct (Nat.lt_ge_cases k mid) as [|G]; auto.
        destruct (Hpart _ _ _ _ G N Hn) as [P _]. rewrite (P C) in Hc. discriminate. }
      apply IH; [lia|lia|]. exists k, a. repeat split; auto; lia.
    - assert (K : (mid < k)%nat).
      { destruct (Nat.lt_ge_cases mid k) as [|G]; auto.
        assert (G' : (k <= mid)%nat) by lia. clear G. rename G' into G.
        destruct (Hpart _ _ _ _ G Hn N) as [_ P]. rewrite (P C) in Hc. discriminate. }
      apply IH; [lia|lia|]. exists k, a. repeat split; auto; lia.
  Qed.

  Theorem bsearch_correct : linear c tbl = true <-> exists j, bsearch c tbl = Some j.
  Proof.
    unfold linear, bsearch. split.
    - intros H. apply existsb_exists in H. destruct H as (x & Hin & Hx).
      apply In_nth_error in Hin. destruct Hin as [k Hk].
      apply bsearch_go_complete; [lia|lia|].
      exists k, x. assert (k < length tbl)%nat by (apply nth_error_Some; congruence).
      repeat split; auto; try lia. destruct (c x); auto; discriminate.
    - intros [j H]. apply bsearch_go_sound in H. destruct H as (_ & a & Ha & Hc).
      apply existsb_exists. exists a. split; [eapply nth_error_In; eauto|]. rewrite Hc. reflexivity.
  Qed.

  Theorem bsearch_finds_match : forall j, bsearch c tbl = Some j -> exists a, nth_error tbl j = Some a /\ c a = Eq.
  Proof. intros j H. apply bsearch_go_sound in H. tauto. Qed.
End BsearchProofs.

(* ------------------------------------------------------------------ the tag order *)

Lemma tag_split : forall t, t = 4 * tag_value t + tag_class t.
Proof. intros t. unfold tag_value, tag_class. apply Z.div_mod. lia. Qed.

Lemma tag_cmp_Lt : forall a b, tag_cmp a b = Lt <->
  (tag_class a < tag_class b \/ (tag_class a = tag_class b /\ tag_value a < tag_value b)).
Proof.
  intros a b. unfold tag_cmp.
  destruct (tag_class a =? tag_class b) eqn:E1.
  - destruct (tag_value a =? tag_value b) eqn:E2.
    + split; [discriminate|lia].
    + destruct (tag_value a <? tag_value b) eqn:E3; split; try discriminate; try lia; auto.
  - destruct (tag_class a <? tag_class b) eqn:E3; split; try discriminate; try lia; auto.
Qed.

Lemma tag_cmp_Gt : forall a b, tag_cmp a b = Gt <->
  (tag_class b < tag_class a \/ (tag_class a = tag_class b /\ tag_value b < tag_value a)).
Proof.
  intros a b. unfold tag_cmp.
  destruct (tag_class a =? tag_class b) eqn:E1.
  - destruct (tag_value a =? tag_value b) eqn:E2.
    + split; [discriminate|lia].
    + destruct (tag_value a <? tag_value b) eqn:E3; split; try discriminate; try lia; auto.
  - destruct (tag_class a <? tag_class b) eqn:E3; split; try discriminate; try lia; auto.
Qed.

Lemma tag_cmp_Eq : forall a b, tag_cmp a b = Eq <-> a = b.
Proof.
  intros a b. unfold tag_cmp. split.
  - destruct (tag_class a =? tag_class b) eqn:E1.
    + destruct (tag_value a =? tag_value b) eqn:E2.
      * intros _. rewrite (tag_split a), (tag_split b). lia.
      * destruct (tag_value a <? tag_value b); discriminate.
    + destruct (tag_class a <? tag_class b); discriminate.
  - intros ->. rewrite !Z.eqb_refl. reflexivity.
Qed.

(* a <= b in the runtime's order *)
Definition tag_le (a b : Z) : Prop := tag_cmp a b = Lt \/ a = b.

Lemma key_lt_mono : forall k a b, tag_le a b -> tag_cmp k a = Lt -> tag_cmp k b = Lt.
Proof.
  intros k a b [H | ->] K; auto. apply tag_cmp_Lt in H. apply tag_cmp_Lt in K. apply tag_cmp_Lt. lia.
Qed.

Lemma key_gt_mono : forall k a b, tag_le a b -> tag_cmp k b = Gt -> tag_cmp k a = Gt.
Proof.
  intros k a b [H | ->] K; auto. apply tag_cmp_Lt in H. apply tag_cmp_Gt in K. apply tag_cmp_Gt. lia.
Qed.

(* ------------------------------------------------------------------ sorted tables are partitioned *)

Lemma ssorted_pairs : forall A (lt : A -> A -> bool) l, ssorted lt l = true ->
  forall i j a b, (i < j)%nat -> nth_error l i = Some a -> nth_error l j = Some b -> lt a b = true.
Proof.
  induction l as [|x r IH]; intros S i j a b Hij Ha Hb.
  - destruct i; discriminate.
  - simpl in S. apply andb_true_iff in S. destruct S as [S1 S2].
    destruct j as [|j']; [lia|]. simpl in Hb.
    destruct i as [|i'].
    + simpl in Ha. inversion Ha; subst. rewrite forallb_forall in S1. apply S1. eapply nth_error_In; eauto.
    + simpl in Ha. apply (IH S2 i' j' a b); [lia|auto|auto].
Qed.

Lemma strict_tag_le : forall t, ssorted t2e_lt_strict t = true ->
  forall i j a b, (i <= j)%nat -> nth_error t i = Some a -> nth_error t j = Some b -> tag_le (te_tag a) (te_tag b).
Proof.
  intros t S i j a b Hij Ha Hb. destruct (Nat.eq_dec i j) as [-> | N].
  - right. congruence.
  - left. assert (L : t2e_lt_strict a b = true) by (apply (ssorted_pairs _ _ t S i j a b); [lia|auto|auto]).
    unfold t2e_lt_strict, tag_ltb in L. destruct (tag_cmp (te_tag a) (te_tag b)); auto; discriminate.
Qed.

Lemma seq_order : forall t, ssorted t2e_lt_seq t = true ->
  forall i j a b, (i <= j)%nat -> nth_error t i = Some a -> nth_error t j = Some b ->
    tag_cmp (te_tag a) (te_tag b) = Lt \/ (te_tag a = te_tag b /\ te_el a <= te_el b).
Proof.
  intros t S i j a b Hij Ha Hb. destruct (Nat.eq_dec i j) as [-> | N].
  - right. assert (a = b) by congruence. subst. lia.
  - assert (L : t2e_lt_seq a b = true) by (apply (ssorted_pairs _ _ t S i j a b); [lia|auto|auto]).
    unfold t2e_lt_seq, tag_ltb in L. apply orb_true_iff in L. destruct L as [L|L].
    + left. destruct (tag_cmp (te_tag a) (te_tag b)); auto; discriminate.
    + right. lia.
Qed.

Lemma strict_partitioned : forall t key, ssorted t2e_lt_strict t = true -> partitioned (tag_key_cmp key) t.
Proof.
  intros t key S i j a b Hij Ha Hb. pose proof (strict_tag_le t S i j a b Hij Ha Hb) as L.
  unfold tag_key_cmp. split; [apply key_lt_mono|apply key_gt_mono]; auto.
Qed.

Lemma seq_partitioned_tag : forall t key, ssorted t2e_lt_seq t = true -> partitioned (tag_key_cmp key) t.
Proof.
  intros t key S i j a b Hij Ha Hb.
  assert (L : tag_le (te_tag a) (te_tag b)).
  { destruct (seq_order t S i j a b Hij Ha Hb) as [H|[H _]]; [left|right]; auto. }
  unfold tag_key_cmp. split; [apply key_lt_mono|apply key_gt_mono]; auto.
Qed.

Lemma seq_partitioned : forall t key edx, ssorted t2e_lt_seq t = true -> partitioned (seq_cmp key edx) t.
Proof.
  intros t key edx S i j a b Hij Ha Hb.
  pose proof (seq_order t S i j a b Hij Ha Hb) as O.
  assert (L : tag_le (te_tag a) (te_tag b)) by (destruct O as [H|[H _]]; [left|right]; auto).
  unfold seq_cmp. split.
  - intros H. destruct (tag_cmp key (te_tag a)) eqn:Ca.
    + destruct (te_el a <? edx); discriminate.
    + rewrite (key_lt_mono key _ _ L Ca). reflexivity.
    + discriminate.
  - intros H. destruct (tag_cmp key (te_tag b)) eqn:Cb.
    + destruct (te_el b <? edx) eqn:Eb; [|discriminate].
      apply tag_cmp_Eq in Cb. subst key.
      destruct O as [O|[O1 O2]].
      * assert (G : tag_cmp (te_tag b) (te_tag a) = Gt).
        { rewrite tag_cmp_Gt. rewrite tag_cmp_Lt in O. lia. }
        rewrite G. reflexivity.
      * rewrite <- O1. assert (R : tag_cmp (te_tag a) (te_tag a) = Eq) by (apply tag_cmp_Eq; reflexivity).
        rewrite R. destruct (te_el a <? edx) eqn:Ea; auto. lia.
    + discriminate.
    + rewrite (key_gt_mono key _ _ L Cb). reflexivity.
Qed.

(* CHOICE / SET: bsearch with the tag finds an entry iff some entry carries the tag *)
Theorem bsearch_tag_correct : forall t key, ssorted t2e_lt_strict t = true ->
  ((exists e, In e t /\ te_tag e = key) <-> exists j e, bsearch (tag_key_cmp key) t = Some j /\ nth_error t j = Some e /\ te_tag e = key).
Proof.
  intros t key S. pose proof (strict_partitioned t key S) as P. split.
  - intros (e & Hin & Ht).
    assert (L : linear (tag_key_cmp key) t = true).
    { apply existsb_exists. exists e. split; auto. unfold tag_key_cmp.
      assert (R : tag_cmp key (te_tag e) = Eq) by (apply tag_cmp_Eq; auto). rewrite R. reflexivity. }
    apply (bsearch_correct _ _ P) in L. destruct L as [j Hj]. exists j.
    destruct (bsearch_finds_match _ _ j Hj) as (a & Ha & Hc). exists a. repeat split; auto.
    unfold tag_key_cmp in Hc. apply tag_cmp_Eq in Hc. auto.
  - intros (j & e & _ & Hn & Ht). exists e. split; auto. eapply nth_error_In; eauto.
Qed.

(* SEQUENCE: the key carries the current member index edx; bsearch finds an entry with the tag and
   el_no >= edx iff there is one *)
Theorem bsearch_seq_correct : forall t key edx, ssorted t2e_lt_seq t = true ->
  ((exists e, In e t /\ te_tag e = key /\ edx <= te_el e) <->
   exists j e, bsearch (seq_cmp key edx) t = Some j /\ nth_error t j = Some e /\ te_tag e = key /\ edx <= te_el e).
Proof.
  intros t key edx S. pose proof (seq_partitioned t key edx S) as P.
  assert (M : forall e, seq_cmp key edx e = Eq <-> te_tag e = key /\ edx <= te_el e).
  { intros e. unfold seq_cmp. destruct (tag_cmp key (te_tag e)) eqn:C.
    - apply tag_cmp_Eq in C. destruct (te_el e <? edx) eqn:E; split; intros H; try discriminate; try lia; auto;
        try (split; auto; lia).
    - split; [discriminate|]. intros [H _]. subst key.
      assert (R : tag_cmp (te_tag e) (te_tag e) = Eq) by (apply tag_cmp_Eq; reflexivity). congruence.
    - split; [discriminate|]. intros [H _]. subst key.
      assert (R : tag_cmp (te_tag e) (te_tag e) = Eq) by (apply tag_cmp_Eq; reflexivity). congruence. }
  split.
  - intros (e & Hin & Ht & He).
    assert (L : linear (seq_cmp key edx) t = true).
    { apply existsb_exists. exists e. split; auto. rewrite (proj2 (M e)); auto. }
    apply (bsearch_correct _ _ P) in L. destruct L as [j Hj]. exists j.
    destruct (bsearch_finds_match _ _ j Hj) as (a & Ha & Hc). exists a. apply M in Hc. tauto.
  - intros (j & e & _ & Hn & Ht & He). exists e. repeat split; auto. eapply nth_error_In; eauto.
Qed.

(* ------------------------------------------------------------------ positions / oms *)

Lemma count_nonneg : forall A (f : A -> bool) l, 0 <= count f l.
Proof. intros. unfold count, lenZ. lia. Qed.

Lemma count_cons : forall A (f : A -> bool) x l, count f (x :: l) = (if f x then 1 else 0) + count f l.
Proof.
  intros. unfold count, lenZ. simpl. destruct (f x); simpl length; lia.
Qed.

Lemma positions_nth : forall A (f : A -> bool) l start k p,
  nth_error (positions f l start) k = Some p <->
  exists i a, p = start + Z.of_nat i /\ nth_error l i = Some a /\ f a = true /\ count f (firstn i l) = Z.of_nat k.
Proof.
  induction l as [|x r IH]; intros start k p.
  - simpl. split.
    + destruct k; discriminate.
    + intros (i & a & _ & H & _). destruct i; discriminate.
  - simpl positions. destruct (f x) eqn:Fx.
    + destruct k as [|k'].
      * simpl. split.
        -- intros H. inversion H; subst. exists O, x. simpl. repeat split; auto. lia.
        -- intros (i & a & Hp & Hn & Hf & Hc). destruct i as [|i'].
           ++ subst. f_equal. lia.
           ++ simpl firstn in Hc. rewrite count_cons, Fx in Hc.
              pose proof (count_nonneg A f (firstn i' r)). lia.
      * simpl nth_error. rewrite IH. split.
        -- intros (i & a & Hp & Hn & Hf & Hc). exists (S i), a. simpl. rewrite count_cons, Fx.
           repeat split; auto; lia.
        -- intros (i & a & Hp & Hn & Hf & Hc). destruct i as [|i'].
           ++ simpl in Hc. unfold count, lenZ in Hc. simpl in Hc. lia.
           ++ simpl in Hn. simpl firstn in Hc. rewrite count_cons, Fx in Hc.
              exists i', a. repeat split; auto; lia.
    + rewrite IH. split.
      * intros (i & a & Hp & Hn & Hf & Hc). exists (S i), a. simpl. rewrite count_cons, Fx.
        repeat split; auto; lia.
      * intros (i & a & Hp & Hn & Hf & Hc). destruct i as [|i'].
        -- simpl in Hn. inversion Hn; subst. congruence.
        -- simpl in Hn. simpl firstn in Hc. rewrite count_cons, Fx in Hc.
           exists i', a. repeat split; auto; lia.
Qed.

Lemma list_eqb_eq : forall a b, list_eqb a b = true -> a = b.
Proof.
  induction a as [|x a IH]; destruct b as [|y b]; simpl; intros H; try discriminate; auto.
  apply andb_true_iff in H. destruct H as [H1 H2]. f_equal; [lia|auto].
Qed.

Lemma nth_error_firstn_some : forall A (l : list A) n i a,
  nth_error (firstn n l) i = Some a <-> ((i < n)%nat /\ nth_error l i = Some a).
Proof.
  induction l as [|x r IH]; intros n i a.
  - rewrite firstn_nil. split; [destruct i; discriminate|intros [_ H]; destruct i; discriminate].
  - destruct n as [|n'].
    + simpl. split; [destruct i; discriminate|lia].
    + destruct i as [|i']; simpl.
      * split; [intros H; split; [lia|auto]|tauto].
      * rewrite IH. split; intros [H1 H2]; split; auto; lia.
Qed.

Lemma firstn_firstn_le : forall A (l : list A) i n, (i <= n)%nat -> firstn i (firstn n l) = firstn i l.
Proof. intros. rewrite firstn_firstn. f_equal. lia. Qed.

(* the optional-member map of an accepted SEQUENCE descriptor *)
Definition seq_oms (d : descr) : list Z := match d_spec d with SSeq _ oms _ _ _ => oms | _ => [] end.
Definition seq_roms (d : descr) : Z := match d_spec d with SSeq _ _ roms _ _ => roms | _ => 0 end.
Definition seq_root_end (d : descr) : nat :=
  match d_spec d with SSeq _ _ _ _ fe => Z.to_nat (root_end (lenZ (d_elems d)) fe) | _ => O end.

Lemma seq_ok_oms : forall T d, (t_per T || t_oer T) = true -> seq_ok T d = true ->
  exists rest, seq_oms d = positions is_opt (firstn (seq_root_end d) (d_elems d)) 0 ++ rest
            /\ seq_roms d = lenZ (positions is_opt (firstn (seq_root_end d) (d_elems d)) 0).
Proof.
  intros T d G H. unfold seq_ok in H. unfold seq_oms, seq_roms, seq_root_end.
  destruct (d_spec d) as [|t oms roms aoms fe| | | | |]; try discriminate.
  rewrite G in H.
  repeat (apply andb_true_iff in H; destruct H as [H ?]).
  repeat match goal with X : (_ && _) = true |- _ => apply andb_true_iff in X; destruct X end.
  match goal with E : list_eqb oms _ = true |- _ => apply list_eqb_eq in E; rewrite E end.
  eexists. split; [reflexivity|lia].
Qed.

(* encoder side: preamble bit k belongs to member oms[k]; decoder side: member i's bit is the number of
   optional members before it.  On an accepted descriptor the two agree, both ways. *)
Theorem oms_index_correct : forall T d, (t_per T || t_oer T) = true -> seq_ok T d = true ->
  (forall k, Z.of_nat k < seq_roms d ->
     exists i m, nth_error (seq_oms d) k = Some (Z.of_nat i) /\ (i < seq_root_end d)%nat /\
                 nth_error (d_elems d) i = Some m /\ is_opt m = true /\ decoder_bit_position (d_elems d) i = Z.of_nat k)
  /\
  (forall i m, (i < seq_root_end d)%nat -> nth_error (d_elems d) i = Some m -> is_opt m = true ->
     0 <= decoder_bit_position (d_elems d) i < seq_roms d /\
     nth_error (seq_oms d) (Z.to_nat (decoder_bit_position (d_elems d) i)) = Some (Z.of_nat i)).
Proof.
  intros T d G H. destruct (seq_ok_oms T d G H) as (rest & Ho & Hr).
  set (ms := d_elems d) in *. set (re := seq_root_end d) in *.
  set (P := positions is_opt (firstn re ms) 0) in *.
  split.
  - intros k Hk. assert (Kl : (k < length P)%nat) by (unfold lenZ in Hr; lia).
    destruct (nth_error P k) as [p|] eqn:N; [|apply nth_error_None in N; lia].
    pose proof N as N'. apply positions_nth in N'. destruct N' as (i & a & Hp & Hn & Hf & Hc).
    apply nth_error_firstn_some in Hn. destruct Hn as [Hi Hn].
    exists i, a. rewrite Ho, nth_error_app1 by auto. rewrite N.
    repeat split; auto.
    + f_equal. lia.
    + unfold decoder_bit_position. rewrite firstn_firstn_le in Hc by lia. exact Hc.
  - intros i m Hi Hn Hf.
    assert (Hn' : nth_error (firstn re ms) i = Some m) by (apply nth_error_firstn_some; auto).
    set (k := Z.to_nat (decoder_bit_position ms i)).
    assert (Kk : Z.of_nat k = decoder_bit_position ms i).
    { unfold k. rewrite Z2Nat.id; auto. apply count_nonneg. }
    assert (N : nth_error P k = Some (Z.of_nat i)).
    { apply positions_nth. exists i, m. repeat split; auto.
      rewrite firstn_firstn_le by lia. unfold decoder_bit_position in Kk. lia. }
    assert (Kl : (k < length P)%nat) by (apply nth_error_Some; congruence).
    split.
    + split; [apply count_nonneg|]. unfold lenZ in Hr. lia.
    + fold k. rewrite Ho, nth_error_app1 by auto. exact N.
Qed.

(* ------------------------------------------------------------------ canonical order tables *)

Lemma combine_zseq_nth : forall (l : list Z) start i x, nth_error l i = Some x ->
  In (start + Z.of_nat i, x) (combine (zseq start (length l)) l).
Proof.
  induction l as [|y r IH]; intros start i x H.
  - destruct i; discriminate.
  - destruct i as [|i']; simpl in *.
    + inversion H; subst. left. f_equal. lia.
    + right. replace (start + Z.pos (Pos.of_succ_nat i')) with ((start + 1) + Z.of_nat i') by lia. apply IH; auto.
Qed.

Lemma nthZ_nat : forall A (l : list A) i, nthZ l (Z.of_nat i) = nth_error l i.
Proof. intros. unfold nthZ. destruct (Z.of_nat i <? 0) eqn:E; [lia|]. rewrite Nat2Z.id. reflexivity. Qed.

(* accepted tables: from[to[i]] = i, to[from[i]] = i, everything in 0..n-1 *)
Theorem canonical_inverse : forall n a b, inverse_perms n a b = true ->
  forall i, 0 <= i < n ->
    exists x y, nthZ a i = Some x /\ 0 <= x < n /\ nthZ b x = Some i
             /\ nthZ b i = Some y /\ 0 <= y < n /\ nthZ a y = Some i.
Proof.
  intros n a b H i Hi. unfold inverse_perms in H.
  repeat (apply andb_true_iff in H; destruct H as [H ?]).
  rename H into La, H4 into Lb, H3 into Ra, H2 into Rb, H1 into Iab, H0 into Iba.
  rewrite forallb_forall in Ra, Rb, Iab, Iba.
  assert (Ea : exists x, nth_error a (Z.to_nat i) = Some x).
  { destruct (nth_error a (Z.to_nat i)) eqn:N; eauto. apply nth_error_None in N. unfold lenZ in La. lia. }
  assert (Eb : exists y, nth_error b (Z.to_nat i) = Some y).
  { destruct (nth_error b (Z.to_nat i)) eqn:N; eauto. apply nth_error_None in N. unfold lenZ in Lb. lia. }
  destruct Ea as [x Hx], Eb as [y Hy]. exists x, y.
  replace i with (Z.of_nat (Z.to_nat i)) at 1 3 by lia. rewrite !nthZ_nat.
  pose proof (Ra x (nth_error_In _ _ Hx)) as Rx. pose proof (Rb y (nth_error_In _ _ Hy)) as Ry.
  pose proof (Iab _ (combine_zseq_nth a 0 _ _ Hx)) as I1. simpl in I1.
  pose proof (Iba _ (combine_zseq_nth b 0 _ _ Hy)) as I2. simpl in I2.
  destruct (nthZ b x) as [v|] eqn:Nb; [|discriminate].
  destruct (nthZ a y) as [w|] eqn:Na; [|discriminate].
  repeat split; auto; try lia; f_equal; lia.
Qed.

(* ------------------------------------------------------------------ checker-level facts *)

Lemma wf_clause : forall T d c, wf_descr T d = true -> In c (wf_clauses T d) -> snd c = true.
Proof. intros T d c H; unfold wf_descr in H; rewrite forallb_forall in H; auto. Qed.

Lemma wf_all_in : forall T d, wf_descr_all T = true -> In d (t_descrs T) -> wf_descr T d = true.
Proof.
  intros T d H Hin. unfold wf_descr_all in H. apply andb_true_iff in H. destruct H as [H _].
  rewrite forallb_forall in H. auto.
Qed.

Lemma nthZ_some : forall A (l : list A) i, 0 <= i < lenZ l -> exists a, nthZ l i = Some a.
Proof.
  intros A l i [H0 H1]. unfold nthZ, lenZ in *. destruct (i <? 0) eqn:E; [lia|].
  destruct (nth_error l (Z.to_nat i)) eqn:N; eauto.
  apply nth_error_None in N. lia.
Qed.

(* every type a member refers to is in the table *)
Theorem member_types_exist : forall T d m, wf_descr_all T = true -> In d (t_descrs T) -> In m (d_elems d) ->
  exists d', nthZ (t_descrs T) (m_type m) = Some d'.
Proof.
  intros T d m HT Hd Hm. pose proof (wf_all_in _ _ HT Hd) as W.
  assert (C : snd (2, types_in_range (lenZ (t_descrs T)) d) = true).
  { apply (wf_clause T d); auto. unfold wf_clauses. simpl. auto. }
  simpl in C. unfold types_in_range in C. rewrite forallb_forall in C. specialize (C m Hm).
  apply nthZ_some. lia.
Qed.

Lemma wf_kind_clause : forall T d, wf_descr T d = true ->
  match d_kind d with
  | KSeq => seq_ok T d = true
  | KSet => set_ok T d = true
  | KChoice => choice_ok T d = true
  | _ => True
  end.
Proof.
  intros T d W.
  pose proof (wf_clause T d _ W (or_intror (or_intror (or_intror (or_intror (or_intror (or_intror (or_introl eq_refl)))))))) as C.
  simpl in C. destruct (d_kind d); auto.
Qed.

Lemma combine_zseq_in : forall A (l : list A) start i x, nth_error l i = Some x ->
  In (start + Z.of_nat i, x) (combine (zseq start (length l)) l).
Proof.
  induction l as [|y r IH]; intros start i x H.
  - destruct i; discriminate.
  - destruct i as [|i']; simpl in *.
    + inversion H; subst. left. f_equal. lia.
    + right. replace (start + Z.pos (Pos.of_succ_nat i')) with ((start + 1) + Z.of_nat i') by lia. apply IH; auto.
Qed.

(* end to end for CHOICE: on an accepted table, the decoder's bsearch for the tag of any alternative with a
   known tag succeeds and lands on an entry for that tag *)
Theorem choice_member_found : forall T d i m, wf_descr_all T = true -> In d (t_descrs T) -> d_kind d = KChoice ->
  nth_error (d_elems d) i = Some m -> m_tag m <> -1 ->
  exists t canon es j e, d_spec d = SChoice t canon es /\ bsearch (tag_key_cmp (m_tag m)) t = Some j
                     /\ nth_error t j = Some e /\ te_tag e = m_tag m.
Proof.
  intros T d i m HT Hd Hk Hn Ht. pose proof (wf_kind_clause T d (wf_all_in _ _ HT Hd)) as C.
  rewrite Hk in C. unfold choice_ok in C.
  destruct (d_spec d) as [| | |t canon es| | |] eqn:Sp; try discriminate.
  repeat (apply andb_true_iff in C; destruct C as [C ?]).
  match goal with E : t2e_complete _ _ _ = true |- _ => rename E into Cm end.
  exists t, canon, es.
  assert (S : ssorted t2e_lt_strict t = true) by assumption.
  assert (X : exists e, In e t /\ te_tag e = m_tag m).
  { unfold t2e_complete in Cm. rewrite forallb_forall in Cm.
    specialize (Cm _ (combine_zseq_in _ (d_elems d) 0 i m Hn)). simpl in Cm.
    destruct (m_tag m =? -1) eqn:E; [lia|].
    unfold has_entry in Cm. apply existsb_exists in Cm. destruct Cm as (e & He & Hq). exists e. split; auto. lia. }
  apply (bsearch_tag_correct t (m_tag m) S) in X. destruct X as (j & e & Hb & He & Hq).
  exists j, e. auto.
Qed.

(* the same for SEQUENCE: looking for member i's tag from any position edx <= i finds an entry with that tag
   and an element number >= edx *)
Theorem sequence_member_found : forall T d i m edx, wf_descr_all T = true -> In d (t_descrs T) -> d_kind d = KSeq ->
  nth_error (d_elems d) i = Some m -> m_tag m <> -1 -> edx <= Z.of_nat i ->
  exists t oms roms aoms fe j e, d_spec d = SSeq t oms roms aoms fe /\ bsearch (seq_cmp (m_tag m) edx) t = Some j
                     /\ nth_error t j = Some e /\ te_tag e = m_tag m /\ edx <= te_el e.
Proof.
  intros T d i m edx HT Hd Hk Hn Ht Hedx. pose proof (wf_kind_clause T d (wf_all_in _ _ HT Hd)) as C.
  rewrite Hk in C. unfold seq_ok in C.
  destruct (d_spec d) as [|t oms roms aoms fe| | | | |] eqn:Sp; try discriminate.
  repeat (apply andb_true_iff in C; destruct C as [C ?]).
  match goal with E : t2e_complete _ _ _ = true |- _ => rename E into Cm end.
  exists t, oms, roms, aoms, fe.
  assert (S : ssorted t2e_lt_seq t = true) by assumption.
  assert (X : exists e, In e t /\ te_tag e = m_tag m /\ edx <= te_el e).
  { unfold t2e_complete in Cm. rewrite forallb_forall in Cm.
    specialize (Cm _ (combine_zseq_in _ (d_elems d) 0 i m Hn)). simpl in Cm.
    destruct (m_tag m =? -1) eqn:E; [lia|].
    unfold has_entry in Cm. apply existsb_exists in Cm. destruct Cm as (e & He & Hq). exists e. repeat split; auto; lia. }
  apply (bsearch_seq_correct t (m_tag m) edx S) in X. destruct X as (j & e & Hb & He & Hq & Hr).
  exists j, e. auto.
Qed.

(* non-vacuity: a concrete accepted table (SEQUENCE with two optional members and an untagged CHOICE member) *)
Example sample_table : table :=
  mkTab true true [
    mkD 0 KSeq [64] [64]
      [ mkM 1 1 2 (-1) 2 None None false false;
        mkM 0 0 6 (-1) 3 None None false false;
        mkM 1 1 (-1) 0 1 None None false false;
        mkM 0 0 14 (-1) 3 None None false false ] None None
      (SSeq [mkT 2 0 0 0; mkT 6 1 0 0; mkT 10 2 0 0; mkT 14 3 0 0; mkT 18 2 0 0] [0; 2] 2 0 (-1)) 0;
    mkD 1 KChoice [] []
      [ mkM 0 0 18 (-1) 3 None None false false;
        mkM 0 0 10 (-1) 2 None None false false ]
      (Some (mkPC (mkP 2 1 1 0 1) (mkP 0 (-1) (-1) 0 0) false false)) None
      (SChoice [mkT 10 1 0 0; mkT 18 0 0 0] (Some ([1; 0], [1; 0])) (-1)) 0;
    mkD 2 KNativeInt [8] [8] [] None None SNone 0;
    mkD 3 KBool [4] [4] [] None None SNone 0 ].

Example sample_table_ok : wf_descr_all sample_table = true.
Proof. vm_compute. reflexivity. Qed.

(* and the checker refuses the table when roms_count is off by one or the map is unsorted *)
Example sample_bad_roms : wf_descr_all (mkTab true true [
    mkD 0 KSeq [64] [64] [ mkM 1 1 2 (-1) 1 None None false false; mkM 0 0 6 (-1) 1 None None false false ] None None
      (SSeq [mkT 2 0 0 0; mkT 6 1 0 0] [0] 2 0 (-1)) 0;
    mkD 1 KBool [4] [4] [] None None SNone 0 ]) = false.
Proof. vm_compute. reflexivity. Qed.

Example sample_bad_unsorted : wf_descr_all (mkTab true true [
    mkD 0 KSeq [64] [64] [ mkM 0 0 2 (-1) 1 None None false false; mkM 0 0 6 (-1) 1 None None false false ] None None
      (SSeq [mkT 6 1 0 0; mkT 2 0 0 0] [] 0 0 (-1)) 0;
    mkD 1 KBool [4] [4] [] None None SNone 0 ]) = false.
Proof. vm_compute. reflexivity. Qed.
