(* WfDescrProofs.v — what acceptance by the checker of WfDescr.v means for the runtime's lookups. *)
From Coq Require Import ZArith List Bool Lia ZifyBool.
From A1 Require Import Rt.WfDescr.
Import ListNotations.
Open Scope Z_scope.

Lemma wf_clause : forall T d c, wf_descr T d = true -> In c (wf_clauses T d) -> snd c = true.
Proof. intros T d c H; unfold wf_descr in H; rewrite forallb_forall in H; auto. Qed.

Lemma wf_all_in : forall T d, wf_descr_all T = true -> In d (t_descrs T) -> wf_descr T d = true.
Proof.
  intros T d H Hin. unfold wf_descr_all in H. apply andb_true_iff in H. destruct H as [H _].
  rewrite forallb_forall in H. auto.
Qed.

Lemma nthZ_some : forall A (l : list A) i, 0 <= i < lenZ l -> exists a, nthZ l i = Some a.
Proof.
  intros A l i [H0 H1]. unfold nthZ, lenZ in *. destruct (i <? 0) eqn:E; [lia|].
  destruct (nth_error l (Z.to_nat i)) eqn:N; eauto.
  apply nth_error_None in N. lia.
Qed.

(* every type a member refers to is in the table *)
Theorem member_types_exist : forall T d m, wf_descr_all T = true -> In d (t_descrs T) -> In m (d_elems d) ->
  exists d', nthZ (t_descrs T) (m_type m) = Some d'.
Proof.
  intros T d m HT Hd Hm. pose proof (wf_all_in _ _ HT Hd) as W.
  assert (C : snd (2, types_in_range (lenZ (t_descrs T)) d) = true).
  { apply (wf_clause T d); auto. unfold wf_clauses. simpl. auto. }
  simpl in C. unfold types_in_range in C. rewrite forallb_forall in C. specialize (C m Hm).
  apply nthZ_some. lia.
Qed.
