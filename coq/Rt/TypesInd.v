(* Rt/TypesInd.v — nested induction principle for [ty] (members, alternatives and
   elements are reached through lists) and for [val]. *)
From Coq Require Import ZArith List Bool.
From A1 Require Import Rt.Types.
Import ListNotations.

Section TyInd.
  Variable P : ty -> Prop.
  Hypothesis HBool : forall tg, P (TBool tg).
  Hypothesis HNull : forall tg, P (TNull tg).
  Hypothesis HInt : forall tg c, P (TInt tg c).
  Hypothesis HOct : forall tg s, P (TOct tg s).
  Hypothesis HSeq : forall tg ms, Forall P ms -> P (TSeq tg ms).
  Hypothesis HSeqOf : forall tg s e, P e -> P (TSeqOf tg s e).
  Hypothesis HSetOf : forall tg s e, P e -> P (TSetOf tg s e).
  Hypothesis HChoice : forall alts, Forall P alts -> P (TChoice alts).
  Hypothesis HTag : forall tg t, P t -> P (TTag tg t).
  Hypothesis HOpt : forall t, P t -> P (TOpt t).

  Fixpoint ty_ind' (t : ty) : P t :=
    match t with
    | TBool tg => HBool tg
    | TNull tg => HNull tg
    | TInt tg c => HInt tg c
    | TOct tg s => HOct tg s
    | TSeq tg ms =>
        HSeq tg ms ((fix go (l : list ty) : Forall P l :=
                       match l with
                       | [] => Forall_nil P
                       | x :: r => Forall_cons x (ty_ind' x) (go r)
                       end) ms)
    | TSeqOf tg s e => HSeqOf tg s e (ty_ind' e)
    | TSetOf tg s e => HSetOf tg s e (ty_ind' e)
    | TChoice alts =>
        HChoice alts ((fix go (l : list ty) : Forall P l :=
                         match l with
                         | [] => Forall_nil P
                         | x :: r => Forall_cons x (ty_ind' x) (go r)
                         end) alts)
    | TTag tg t' => HTag tg t' (ty_ind' t')
    | TOpt t' => HOpt t' (ty_ind' t')
    end.
End TyInd.

Section ValInd.
  Variable P : val -> Prop.
  Hypothesis HBool : forall b, P (VBool b).
  Hypothesis HNull : P VNull.
  Hypothesis HInt : forall z, P (VInt z).
  Hypothesis HOct : forall bs, P (VOct bs).
  Hypothesis HSeq : forall vs, Forall P vs -> P (VSeq vs).
  Hypothesis HList : forall vs, Forall P vs -> P (VList vs).
  Hypothesis HChoice : forall i v, P v -> P (VChoice i v).
  Hypothesis HNone : P VNone.
  Hypothesis HSome : forall v, P v -> P (VSome v).

  Fixpoint val_ind' (v : val) : P v :=
    match v with
    | VBool b => HBool b
    | VNull => HNull
    | VInt z => HInt z
    | VOct bs => HOct bs
    | VSeq vs =>
        HSeq vs ((fix go (l : list val) : Forall P l :=
                    match l with
                    | [] => Forall_nil P
                    | x :: r => Forall_cons x (val_ind' x) (go r)
                    end) vs)
    | VList vs =>
        HList vs ((fix go (l : list val) : Forall P l :=
                     match l with
                     | [] => Forall_nil P
                     | x :: r => Forall_cons x (val_ind' x) (go r)
                     end) vs)
    | VChoice i v' => HChoice i v' (val_ind' v')
    | VNone => HNone
    | VSome v' => HSome v' (val_ind' v')
    end.
End ValInd.
