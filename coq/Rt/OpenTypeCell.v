(* Rt/OpenTypeCell.v — the REPRESENTATION of the identifier cells of an object-set
   table and of the identifier member the generated selector compares them with
   (C18).  Executable model, no proofs (they are in OpenTypeCellProofs.v).

   Rt/OpenType.v keeps identifier cells abstract ([VInt z]).  What the compiler
   emits depends on the representation of the identifier type
   (libasn1compiler/asn1c_ioc.c:emit_ioc_value):
   - `long` cells (the default: asn1c_type_fits_long says FL_PRESUMED or FL_FITS_SIGNED):
       static const long asn_VAL_<n>_<name> = <decimal>;
     compared by NativeInteger_compare (ENUMERATED identifiers: NativeEnumerated,
     the same compare) — the abstract cell;
   - INTEGER_t cells (-fwide-types: FL_NOTFIT):
       static const INTEGER_t asn_VAL_<n>_<name> = { "\x00\x80", 2 };
     the contents octets of the value, written by two hand-made cases (one octet up
     to 127, two octets up to 32767, anything else is refused with a diagnostic);
     compared by INTEGER_compare, which (since the fix "INTEGER_compare takes the
     buffer length for the magnitude") strips the superfluous leading octets of both
     operands and is 0 exactly when what remains is the same octets, i.e. when the two
     octet strings denote the same integer ([octets_eqb]); an empty INTEGER_t equals
     only another empty one.  A cell whose octets denote another integer than its
     identifier (one octet short: c8 for 200 denotes -56) loses its row and answers
     to that other identifier.
   [cell_octets] is the reference (minimal two's-complement octets of any integer);
   [emit_wide_cell] is the compiler's emitter; [key_of] is the identifier member as
   the selector sees it; [emit_table] is the whole emitted table. *)
From Coq Require Import ZArith List Bool.
From A1 Require Import Base.Bytes Leaf.IntegerConv Leaf.BerTL Rt.Types Rt.Comb Rt.Der Rt.Uper Rt.OpenType.
Import ListNotations.
Local Open Scope Z_scope.

Inductive idrep := RNative | RWide.

(* ---------------- contents octets of an INTEGER_t ---------------- *)

(* a number of octets that certainly holds z in two's complement (generous: the
   strip loop removes what is not needed) *)
Definition octets_enough (z : Z) : nat := S (S (Z.to_nat (Z.log2 (Z.abs z)))).

(* the minimal two's-complement contents octets of z, any z (X.690 8.3) *)
Definition cell_octets (z : Z) : list Z :=
  let n := octets_enough z in strip (be_bytes n (z mod 256 ^ Z.of_nat n)).

(* asn1c_ioc.c:emit_ioc_value, the INTEGER_t branch:
     if(v >= 0) { if(v <= 127) one octet; else if(v <= 32767) (v >> 8), (v & 0xff); }
     FATAL("Unsupported value %s range for type %s") *)
Definition emit_wide_cell (v : Z) : option (list Z) :=
  if 0 <=? v then
    if v <=? 127 then Some [v]
    else if v <=? 32767 then Some [v / 256; v mod 256]
    else None
  else None.

(* one identifier cell as emitted; None = the compiler refuses the module *)
Definition emit_cell (rep : idrep) (v : val) : option val :=
  match v with
  | VInt z =>
      match rep with
      | RNative => Some (VInt z)
      | RWide => match emit_wide_cell z with Some bs => Some (VOct bs) | None => None end
      end
  | VOct _ => Some (VOct [])          (* OBJECT IDENTIFIER: { "not supported", 0 } *)
  | _ => None
  end.

Fixpoint emit_rows (rep : idrep) (rows : list row) : option table :=
  match rows with
  | [] => Some []
  | r :: tl =>
      match emit_cell rep (fst r), emit_rows rep tl with
      | Some c, Some t => Some ((c, snd r) :: t)
      | _, _ => None
      end
  end.

(* the table the compiler emits for an object set under a representation *)
Definition emit_table (rep : idrep) (s : objset) : option table :=
  emit_rows rep (concat (map compile_group s)).

(* the reference: every cell holds the minimal octets of its identifier *)
Definition encode_cell (v : val) : val :=
  match v with
  | VInt z => VOct (cell_octets z)
  | _ => v
  end.

Definition encode_table (tbl : table) : table := map (fun r => (encode_cell (fst r), snd r)) tbl.

(* INTEGER_compare(a, b) == 0 on two INTEGER_t (non-NULL operands):
     both empty -> equal; one empty -> not; else the signs, then the two strip loops
     (the loop of asn_INTEGER2imax, [strip]), then the lengths, then memcmp *)
Definition octets_eqb (a b : list Z) : bool :=
  match a, b with
  | [], [] => true
  | [], _ => false
  | _, [] => false
  | _, _ => bytes_eqb (strip a) (strip b)
  end.

(* compare_struct == 0 between the identifier member and a cell *)
Definition cell_eqb (rep : idrep) (key cell : val) : bool :=
  match rep, key, cell with
  | RWide, VOct a, VOct b => octets_eqb a b
  | _, _, _ => id_eqb key cell
  end.

Definition select_by (eqb : val -> val -> bool) (v : val) : table -> nat -> option (nat * list ty) :=
  fix go tbl i :=
    match tbl with
    | [] => None
    | r :: tl => if eqb v (fst r) then Some (i, snd r) else go tl (S i)
    end.

(* the identifier member as the selector sees it: a long, or the INTEGER_t the
   decoder filled (minimal octets for every DER/PER/XER input) *)
Definition key_of (rep : idrep) (v : val) : val :=
  match rep with
  | RNative => v
  | RWide => encode_cell v
  end.

(* the selector of a frame whose identifier has representation [rep] *)
Definition select_rep (rep : idrep) (tbl : table) (v : val) : option (nat * list ty) :=
  select_by (cell_eqb rep) (key_of rep v) tbl O.

(* the selector called on raw INTEGER_t contents (what a BER decoder stores for a
   non-minimal identifier, too) *)
Definition select_octets (tbl : table) (bs : list Z) : option (nat * list ty) :=
  select_by (cell_eqb RWide) (VOct bs) tbl O.

(* ---------------- frames under a representation ---------------- *)

Definition dec_frame_body_rep (rep : idrep) (f : frame) (c : list Z) : option (fval * list Z) :=
  match ber_dec (f_idt f) c with
  | Some (idv, r) =>
      match f_opens f with
      | [] => Some ((idv, []), r)
      | _ =>
          match select_rep rep (f_tbl f) idv with
          | Some (i, tys) =>
              match dec_opens (f_opens f) tys i r with
              | Some (ovs, r') => Some ((idv, ovs), r')
              | None => None
              end
          | None => None
          end
      end
  | None => None
  end.

Definition ber_dec_frame_rep (rep : idrep) (f : frame) (bs : list Z) : option (fval * list Z) :=
  in_cons seq_tag bs (dec_frame_body_rep rep f).

Definition ber_decode_frame_rep (rep : idrep) (f : frame) (bs : list Z) : option (fval * Z) :=
  match ber_dec_frame_rep rep f bs with
  | Some (v, rest) => Some (v, zlen bs - zlen rest)
  | None => None
  end.

Definition uper_dec_frame_rep (rep : idrep) (f : frame) (bs : list bool) : option (fval * list bool) :=
  match uper_dec false (f_idt f) bs with
  | Some (idv, r) =>
      match f_opens f with
      | [] => Some ((idv, []), r)
      | _ =>
          match select_rep rep (f_tbl f) idv with
          | Some (i, tys) =>
              match uper_dec_opens (length (f_opens f)) tys i r with
              | Some (ovs, r') => Some ((idv, ovs), r')
              | None => None
              end
          | None => None
          end
      end
  | None => None
  end.

Definition uper_decode_frame_rep (rep : idrep) (f : frame) (bytes : list Z) : option (fval * Z) :=
  match uper_dec_frame_rep rep f (bytes_bits bytes) with
  | Some (v, rest) =>
      let used := zlen (bytes_bits bytes) - zlen rest in
      Some (v, Z.max 1 ((used + 7) / 8))
  | None => None
  end.
