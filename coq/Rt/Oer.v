(* Rt/Oer.v — canonical OER over Rt/Types.v (first milestone: no extension
   additions).  [oer] is the encoder (what X.696 prescribes and what
   INTEGER_oer.c, OCTET_STRING_oer.c, constr_*_oer.c write); [oer_dec] is the
   reference decoder (accepts long-form length determinants with leading zeros). *)
From Coq Require Import ZArith List Bool.
From A1 Require Import Base.Bytes Base.Digits Leaf.IntegerConv Leaf.BerTL Rt.Types Rt.Comb Rt.Der Rt.Uper.
Import ListNotations.
Local Open Scope Z_scope.

(* ---------------- support ---------------- *)

(* minimal big-endian octets of n >= 0, at least one octet *)
Definition min_octets (n : Z) : list Z := unsigned_octets n.

(* X.696 8.6 length determinant (oer_serialize_length) *)
Definition oer_length (n : Z) : list Z :=
  if n <=? 127 then [n]
  else let os := min_octets n in (128 + zlen os) :: os.

(* quantity of SEQUENCE OF / SET OF (oer_put_quantity): length octet + minimal octets *)
Definition oer_quantity (n : Z) : list Z :=
  let os := min_octets n in zlen os :: os.

(* X.696 8.7 tag (oer_put_tag) *)
Definition oer_tag (tg : Z) : list Z :=
  let tclass := tg mod 4 in
  let tval := tg / 4 in
  if tval <? 63 then [tclass * 64 + tval]
  else (tclass * 64 + 63) :: mark_cont (digits 128 (tag_required_size tval) tval).

(* OER-visible INTEGER constraint: (width in octets or 0, positive) *)
Definition oer_int_ct (c : icon) : Z * bool :=
  match c with
  | ICon _ _ true => (0, false)
  | ICon (Some l) None false => if 0 <=? l then (0, true) else (0, false)
  | ICon (Some l) (Some h) false =>
      if 0 <=? l then
        ((if h <=? 255 then 1 else if h <=? 65535 then 2
          else if h <=? 4294967295 then 4 else if h <=? 18446744073709551615 then 8 else 0), true)
      else
        ((if (-128 <=? l) && (h <=? 127) then 1
          else if (-32768 <=? l) && (h <=? 32767) then 2
          else if (-2147483648 <=? l) && (h <=? 2147483647) then 4
          else if (- two63 <=? l) && (h <=? two63 - 1) then 8 else 0), false)
  | _ => (0, false)
  end.

Fixpoint strip_zeros (bs : list Z) : list Z :=
  match bs with
  | b :: ((_ :: _) as tl) => if b =? 0 then strip_zeros tl else bs
  | _ => bs
  end.

Definition oer_int (c : icon) (z : Z) : option (list Z) :=
  let '(width, positive) := oer_int_ct c in
  let body := imax2INTEGER z in
  let negative := match body with b :: _ => 128 <=? b | [] => false end in
  if positive && negative then None
  else
    let useful := if positive then strip_zeros body else body in
    if width =? 0 then Some (oer_length (zlen useful) ++ useful)
    else if width <? zlen useful then None
    else Some (repeat (if negative then 255 else 0) (Z.to_nat (width - zlen useful)) ++ useful).

(* SIZE constraint visible to OER only when it fixes the size *)
Definition oer_fixed_size (s : scon) : option Z :=
  match s with
  | SCon lo (Some hi) false => if lo =? hi then Some lo else None
  | _ => None
  end.

(* the outermost tag of a value (asn_TYPE_outmost_tag) *)
Fixpoint outmost_tag (t : ty) (v : val) {struct t} : Z :=
  match t with
  | TBool tg | TNull tg | TInt tg _ | TOct tg _ | TSeq tg _ | TSeqOf tg _ _ | TSetOf tg _ _ => tg
  | TTag tg _ => tg
  | TOpt t' => match v with VSome v' => outmost_tag t' v' | _ => 0 end
  | TChoice alts =>
      match v with
      | VChoice i v' =>
          (fix pick (alts : list ty) (i : nat) : Z :=
             match alts, i with
             | a :: _, O => outmost_tag a v'
             | _ :: r, S j => pick r j
             | [], _ => 0
             end) alts i
      | _ => 0
      end
  end.

(* ---------------- encoder ---------------- *)

Fixpoint oer (t : ty) (v : val) {struct t} : option (list Z) :=
  match t, v with
  | TBool _, VBool b => Some [if b then 255 else 0]
  | TNull _, VNull => Some []
  | TInt _ c, VInt z => oer_int c z
  | TOct _ s, VOct bs =>
      match oer_fixed_size s with
      | Some n => if zlen bs =? n then Some bs else None
      | None => Some (oer_length (zlen bs) ++ bs)
      end
  | TSeq _ ms, VSeq vs =>
      match enc_members oer ms vs with
      | Some body => Some (bits_to_bytes (presence_bits ms vs) ++ body)
      | None => None
      end
  | TSeqOf _ _ e, VList vs | TSetOf _ _ e, VList vs =>
      match option_all (map (oer e) vs) with
      | Some es => Some (oer_quantity (zlen vs) ++ concat es)
      | None => None
      end
  | TChoice alts, VChoice i v' =>
      match enc_alt oer v' alts i with
      | Some body => Some (oer_tag (outmost_tag t v) ++ body)
      | None => None
      end
  | TTag _ t', _ => oer t' v
  | TOpt _, VNone => Some []
  | TOpt t', VSome v' => oer t' v'
  | _, _ => None
  end.

(* ---------------- reference decoder ---------------- *)

Definition take {A} (n : Z) (bs : list A) : option (list A * list A) :=
  if (0 <=? n) && (n <=? zlen bs) then Some (firstn (Z.to_nat n) bs, skipn (Z.to_nat n) bs) else None.

Definition oer_get_length (bs : list Z) : option (Z * list Z) :=
  match bs with
  | [] => None
  | b :: r =>
      if b <? 128 then Some (b, r)
      else match take (b - 128) r with
           | Some (os, r') => match os with [] => None | _ => Some (be_val os, r') end
           | None => None
           end
  end.

Definition oer_get_quantity (bs : list Z) : option (Z * list Z) :=
  match bs with
  | [] => None
  | b :: r =>
      match take b r with
      | Some (os, r') => match os with [] => None | _ => Some (be_val os, r') end
      | None => None
      end
  end.

Fixpoint oer_tag_loop (bs : list Z) (acc : Z) : option (Z * list Z) :=
  match bs with
  | [] => None
  | b :: r => if 128 <=? b then oer_tag_loop r (acc * 128 + (b - 128)) else Some (acc * 128 + b, r)
  end.

Definition oer_get_tag (bs : list Z) : option (Z * list Z) :=
  match bs with
  | [] => None
  | b :: r =>
      let tclass := b / 64 in
      let v := b mod 64 in
      if v =? 63 then
        match oer_tag_loop r 0 with
        | Some (n, r') => Some (n * 4 + tclass, r')
        | None => None
        end
      else Some (v * 4 + tclass, r)
  end.

Definition oer_dec_int (c : icon) (bs : list Z) : option (Z * list Z) :=
  let '(width, positive) := oer_int_ct c in
  let value (os : list Z) := if positive then be_val os else twos_value os in
  if width =? 0 then
    match oer_get_length bs with
    | Some (n, r) =>
        match take n r with
        | Some (os, r') => match os with [] => None | _ => Some (value os, r') end
        | None => None
        end
    | None => None
    end
  else
    match take width bs with
    | Some (os, r) => Some (value os, r)
    | None => None
    end.

Fixpoint oer_dec (t : ty) (bs : list Z) {struct t} : option (val * list Z) :=
  match t with
  | TBool _ => match bs with b :: r => Some (VBool (negb (b =? 0)), r) | [] => None end
  | TNull _ => Some (VNull, bs)
  | TInt _ c =>
      match oer_dec_int c bs with
      | Some (z, r) => if fits_long z then Some (VInt z, r) else None
      | None => None
      end
  | TOct _ s =>
      match oer_fixed_size s with
      | Some n => match take n bs with Some (os, r) => Some (VOct os, r) | None => None end
      | None =>
          match oer_get_length bs with
          | Some (n, r) => match take n r with Some (os, r') => Some (VOct os, r') | None => None end
          | None => None
          end
      end
  | TSeq _ ms =>
      let nopt := length (filter is_opt ms) in
      match take (Z.of_nat ((nopt + 7) / 8)) bs with
      | Some (pb, r0) =>
          match take_bits nopt (bytes_bits pb) with
          | Some (pres, _) =>
              match dec_members_pres oer_dec ms pres r0 with
              | Some (vs, r) => Some (VSeq vs, r)
              | None => None
              end
          | None => None
          end
      | None => None
      end
  | TSeqOf _ _ e | TSetOf _ _ e =>
      match oer_get_quantity bs with
      | Some (n, r) =>
          match dec_items (oer_dec e) (Z.to_nat n) r with
          | Some (vs, r') => Some (VList vs, r')
          | None => None
          end
      | None => None
      end
  | TChoice alts =>
      match oer_get_tag bs with
      | Some (tg, r) => dec_alt oer_dec (fun _ a => tag_in tg (first_tags a)) r alts O
      | None => None
      end
  | TTag _ t' => oer_dec t' bs
  | TOpt t' =>
      match oer_dec t' bs with
      | Some (v, r) => Some (VSome v, r)
      | None => None
      end
  end.

Definition oer_decode (t : ty) (bs : list Z) : option (val * Z) :=
  match oer_dec t bs with
  | Some (v, rest) => Some (v, zlen bs - zlen rest)
  | None => None
  end.
