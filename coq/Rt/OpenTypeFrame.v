(* Rt/OpenTypeFrame.v — the governing SEQUENCE of an open type, of ANY shape (C18, round 4).
   Executable model, no proofs (they are in OpenTypeFrameProofs.v).

   OpenType.v fixes the frame to { identifier member, open-type members }.  What it abstracts away is the
   decision libasn1compiler/asn1c_C.c:emit_member_type_selector() takes for `{Set}{@ref}`:
     - the spelling of the reference: "@m" and "@.m" name the sibling m ([ref_name]; anything else is refused);
     - WHICH member of the SEQUENCE that is: TQ_FOR over the members, strcmp on the whole name ([find_name]:
       first member whose name EQUALS the reference);
     - the generated selector then reads that member (offsetof(struct T, m); through a pointer and "no row"
       when an OPTIONAL member is absent) and walks the column of the class field the member refers to
       ([select_named] on a table of value cells).
   [find_prefix] is the broken look-up of the seeded change C18-8 (strncmp over the part of the reference before
   the first dot): kept to state what goes wrong.  Names are lists of character codes. *)
From Coq Require Import ZArith List Bool.
Import ListNotations.
Local Open Scope Z_scope.

Definition name := list Z.

Fixpoint name_eqb (a b : name) : bool :=
  match a, b with
  | [], [] => true
  | x :: a', y :: b' => (x =? y) && name_eqb a' b'
  | _, _ => false
  end.

(* TQ_FOR(memb, members) { if(strcmp(memb->Identifier, cname) == 0) break; } : index of the first equal name *)
Fixpoint find_name (ms : list name) (r : name) : option nat :=
  match ms with
  | [] => None
  | m :: tl => if name_eqb m r then Some O
               else match find_name tl r with Some i => Some (S i) | None => None end
  end.

Definition ch_at : Z := 64.   (* '@' *)
Definition ch_dot : Z := 46.  (* '.' *)

(* cname[0]=='@' && cname[1]!='.' -> cname+1;  cname[0]=='@' && cname[1]=='.' && cname[2]!='.' -> cname+2;  else FATAL *)
Definition ref_name (s : name) : option name :=
  match s with
  | a :: tl =>
      if a =? ch_at then
        match tl with
        | d :: tl2 =>
            if d =? ch_dot then
              match tl2 with
              | d2 :: _ => if d2 =? ch_dot then None else Some tl2
              | [] => Some tl2
              end
            else Some tl
        | [] => Some tl
        end
      else None
  | [] => None
  end.

(* the member the reference resolves to (None: FATAL "Can not find ..." / "Complex IoS reference", exit 70) *)
Definition resolve_ref (ms : list name) (s : name) : option nat :=
  match ref_name s with
  | Some r => find_name ms r
  | None => None
  end.

(* ---- the seeded look-up: strncmp(memb->Identifier, cname, strcspn(cname, ".")) == 0 ---- *)

Fixpoint upto_dot (r : name) : name :=
  match r with
  | [] => []
  | c :: tl => if c =? ch_dot then [] else c :: upto_dot tl
  end.

(* strncmp(m, p, length p) == 0 for a p without NUL: p is a prefix of m *)
Fixpoint prefix_eqb (p m : name) : bool :=
  match p, m with
  | [], _ => true
  | x :: p', y :: m' => (x =? y) && prefix_eqb p' m'
  | _ :: _, [] => false
  end.

Fixpoint find_prefix (ms : list name) (r : name) : option nat :=
  match ms with
  | [] => None
  | m :: tl => if prefix_eqb (upto_dot r) m then Some O
               else match find_prefix tl r with Some i => Some (S i) | None => None end
  end.

Definition resolve_prefix (ms : list name) (s : name) : option nat :=
  match ref_name s with
  | Some r => find_prefix ms r
  | None => None
  end.

(* ---- the selector on a frame of any shape ---- *)

(* a member of the governing SEQUENCE: its name; for a class value-field member (T.&id({Set})) the column of
   that field in the table; its decoded value (None: absent OPTIONAL member, or a member that is no class field) *)
Record member := { m_name : name; m_col : option nat; m_val : option Z }.

(* rows of value cells (by column; the type cells do not take part in the walk) *)
Fixpoint find_row (col : nat) (v : Z) (rows : list (list Z)) : option nat :=
  match rows with
  | [] => None
  | r :: tl =>
      match nth_error r col with
      | Some c => if c =? v then Some O
                  else match find_row col v tl with Some i => Some (S i) | None => None end
      | None => match find_row col v tl with Some i => Some (S i) | None => None end
      end
  end.

Definition select_member (m : member) (rows : list (list Z)) : option nat :=
  match m_col m, m_val m with
  | Some c, Some v => find_row c v rows
  | _, _ => None
  end.

(* select_<T>_<open member>_type: the row (presence_index - 1) *)
Definition select_named (ms : list member) (rows : list (list Z)) (s : name) : option nat :=
  match resolve_ref (map m_name ms) s with
  | Some i => match nth_error ms i with
              | Some m => select_member m rows
              | None => None
              end
  | None => None
  end.

Definition select_named_prefix (ms : list member) (rows : list (list Z)) (s : name) : option nat :=
  match resolve_prefix (map m_name ms) s with
  | Some i => match nth_error ms i with
              | Some m => select_member m rows
              | None => None
              end
  | None => None
  end.
