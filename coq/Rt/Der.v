(* Rt/Der.v — DER encoder and reference BER decoder over Rt/Types.v.
   Encoder: the bytes X.690 prescribes (and the C must produce: C02).
   Decoder: accepts every BER form of the first-milestone algebra — definite and
   indefinite lengths on constructed TLVs, long-form lengths, SET OF in any
   order — and is what the C decoder is compared with on valid encodings (C03). *)
From Coq Require Import ZArith List Bool.
From A1 Require Import Base.Bytes Leaf.IntegerConv Leaf.BerTL Rt.Types Rt.Comb.
Import ListNotations.
Local Open Scope Z_scope.

(* ---------------- encoder ---------------- *)

Definition tag_bytes (tg : Z) (constructed : bool) : list Z :=
  match tag_serialize tg with
  | b :: tl => (if constructed then b + 32 else b) :: tl
  | [] => []
  end.

Definition tlv (tg : Z) (constructed : bool) (content : list Z) : list Z :=
  tag_bytes tg constructed ++ len_serialize (zlen content) ++ content.

(* lexicographic order on octet strings, a proper prefix first (_el_buf_cmp) *)
Fixpoint lex_leb (a b : list Z) : bool :=
  match a, b with
  | [], _ => true
  | _ :: _, [] => false
  | x :: a', y :: b' => if x <? y then true else if y <? x then false else lex_leb a' b'
  end.

Fixpoint insert_sorted (x : list Z) (l : list (list Z)) : list (list Z) :=
  match l with
  | [] => [x]
  | y :: tl => if lex_leb x y then x :: l else y :: insert_sorted x tl
  end.

Definition sort_encodings (l : list (list Z)) : list (list Z) :=
  fold_right insert_sorted [] l.

Fixpoint der (t : ty) (v : val) {struct t} : option (list Z) :=
  match t, v with
  | TBool tg, VBool b => Some (tlv tg false [if b then 255 else 0])
  | TNull tg, VNull => Some (tlv tg false [])
  | TInt tg _, VInt z => Some (tlv tg false (imax2INTEGER z))
  | TOct tg _, VOct bs => Some (tlv tg false bs)
  | TSeq tg ms, VSeq vs =>
      match enc_members der ms vs with
      | Some c => Some (tlv tg true c)
      | None => None
      end
  | TSeqOf tg _ e, VList vs =>
      match option_all (map (der e) vs) with
      | Some cs => Some (tlv tg true (concat cs))
      | None => None
      end
  | TSetOf tg _ e, VList vs =>
      match option_all (map (der e) vs) with
      | Some cs => Some (tlv tg true (concat (sort_encodings cs)))
      | None => None
      end
  | TChoice alts, VChoice i v' => enc_alt der v' alts i
  | TTag tg t', _ =>
      match der t' v with
      | Some c => Some (tlv tg true c)
      | None => None
      end
  | TOpt _, VNone => Some []
  | TOpt t', VSome v' => der t' v'
  | _, _ => None
  end.

(* ---------------- reference decoder ---------------- *)

(* tag, constructed bit, length (-1 = indefinite), what follows the header *)
Definition tlv_open (bs : list Z) : option (Z * bool * Z * list Z) :=
  match bs with
  | [] => None
  | b0 :: _ =>
      let cons := (b0 / 32) mod 2 =? 1 in
      match fetch_tag bs with
      | FOk tg n1 =>
          let bs1 := skipn n1 bs in
          match fetch_length cons bs1 with
          | FOk len n2 => Some (tg, cons, len, skipn n2 bs1)
          | _ => None
          end
      | _ => None
      end
  end.

Definition peek_tag (bs : list Z) : option Z :=
  match fetch_tag bs with FOk tg _ => Some tg | _ => None end.

Definition tag_in (tg : Z) (tags : list Z) : bool := existsb (Z.eqb tg) tags.

(* a primitive, definite-length TLV with tag tg; k interprets the contents *)
Definition in_prim {A} (tg : Z) (bs : list Z) (k : list Z -> option A) : option (A * list Z) :=
  match tlv_open bs with
  | Some (tg', false, len, rest) =>
      if (tg' =? tg) && (0 <=? len) && (len <=? zlen rest) then
        match k (firstn (Z.to_nat len) rest) with
        | Some a => Some (a, skipn (Z.to_nat len) rest)
        | None => None
        end
      else None
  | _ => None
  end.

(* a constructed TLV with tag tg, definite or indefinite; k decodes the
   contents from a stream and returns what it left *)
Definition in_cons {A} (tg : Z) (bs : list Z) (k : list Z -> option (A * list Z)) : option (A * list Z) :=
  match tlv_open bs with
  | Some (tg', true, len, rest) =>
      if tg' =? tg then
        if len =? -1 then
          match k rest with
          | Some (a, b1 :: b2 :: r) => if (b1 =? 0) && (b2 =? 0) then Some (a, r) else None
          | _ => None
          end
        else if len <=? zlen rest then
          match k (firstn (Z.to_nat len) rest) with
          | Some (a, []) => Some (a, skipn (Z.to_nat len) rest)
          | _ => None
          end
        else None
      else None
  | _ => None
  end.

(* end of a constructed value's contents: nothing left, or end-of-contents octets *)
Definition at_end (bs : list Z) : bool :=
  match bs with
  | [] => true
  | b1 :: b2 :: _ => (b1 =? 0) && (b2 =? 0)
  | _ => false
  end.

Definition fits_long (z : Z) : bool := (- two63 <=? z) && (z <? two63).

Fixpoint ber_dec (t : ty) (bs : list Z) {struct t} : option (val * list Z) :=
  match t with
  | TBool tg =>
      in_prim tg bs (fun c => match c with [b] => Some (VBool (negb (b =? 0))) | _ => None end)
  | TNull tg =>
      in_prim tg bs (fun c => match c with [] => Some VNull | _ => None end)
  | TInt tg _ =>
      in_prim tg bs (fun c => match c with
                              | [] => None
                              | _ => if fits_long (twos_value c) then Some (VInt (twos_value c)) else None
                              end)
  | TOct tg _ =>
      in_prim tg bs (fun c => Some (VOct c))
  | TSeq tg ms =>
      match in_cons tg bs (dec_members ber_dec ms) with
      | Some (vs, r) => Some (VSeq vs, r)
      | None => None
      end
  | TSeqOf tg _ e | TSetOf tg _ e =>
      match in_cons tg bs (fun c => dec_until (ber_dec e) at_end (S (length c)) c) with
      | Some (vs, r) => Some (VList vs, r)
      | None => None
      end
  | TChoice alts =>
      match peek_tag bs with
      | Some tg => dec_alt ber_dec (fun _ a => tag_in tg (first_tags a)) bs alts O
      | None => None
      end
  | TTag tg t' => in_cons tg bs (ber_dec t')
  | TOpt t' =>
      match peek_tag bs with
      | Some tg =>
          if tag_in tg (first_tags t') then
            match ber_dec t' bs with
            | Some (v, r) => Some (VSome v, r)
            | None => None
            end
          else Some (VNone, bs)
      | None => Some (VNone, bs)
      end
  end.

(* what asn_decode reports for a complete buffer: value and consumed count *)
Definition ber_decode (t : ty) (bs : list Z) : option (val * Z) :=
  match ber_dec t bs with
  | Some (v, rest) => Some (v, zlen bs - zlen rest)
  | None => None
  end.
