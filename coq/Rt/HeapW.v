(* Rt/HeapW.v — C14, round c14w: two steps of the lifecycle that Rt/Heap.v does not have.
   (Executable definitions only; proofs are in Rt/HeapWProofs.v.)

   1. THE ELEMENT LOOP OF A LIST DECODER (SET_OF_decode_uper / SET_OF_decode_oer, also serving SEQUENCE OF):
        per element:  ptr = the element decoder's structure (one allocation);
                      ASN_SET_ADD(list, ptr)  -- asn_set_add: grows the array when count == size
                                                 (REALLOC to 4, 8, 16 ... slots; the ledger's realloc always moves)
                                                 and from then on THE LIST OWNS ptr;
                      a policy check placed AFTER the append may still refuse the input
                      (the "zero-width element bomb" guard: the element consumed nothing and more than 200 are announced).
      Error exits:   XDecFail  the element decoder failed (it may leave a half-built element in ptr): the exit frees ptr;
                     XAddFail  asn_set_add failed: the element is not in the list: the exit frees ptr;
                     XBomb     refused after the append: the exit must NOT free ptr - the list owns it and
                               SET_OF_free (the caller's ASN_STRUCT_FREE / RESET) releases it.
      [SharedExit] is the seeded variant: one exit for all three, `if(ptr) ASN_STRUCT_FREE(ptr)`.
      Blocks are allocation ordinals (0 = the list structure itself); the ledger is that of harness/allocwrap.c:
      a free of a block that is not live is a violation (double / foreign free).

   2. THE DYNAMIC-BUFFER ENCODER WRAPPER (uper_encode_to_new_buffer over encode_dyn_cb, per_encoder.c):
      the encoder hands its output to the accumulating callback in chunks; the callback REALLOCs
      (8 << 2, << 2 ... until length + size < allocated) and, when REALLOC fails, releases the buffer itself and
      clears the key; the wrapper owns key.buffer until it returns it: on the failure exit it must FREEMEM it
      (exactly once: NULL after the callback's own clean-up).  [NoFree] is the seeded variant. *)
From Coq Require Import List Arith Bool PeanoNat.
Import ListNotations.

(* ---- the ledger over allocation ordinals ---- *)
Definition lfree (live : list nat) (b : nat) : option (list nat) :=
  if in_dec Nat.eq_dec b live then Some (remove Nat.eq_dec b live) else None.

Fixpoint lfrees (live : list nat) (evs : list nat) : option (list nat) :=
  match evs with
  | [] => Some live
  | e :: r => match lfree live e with Some l => lfrees l r | None => None end
  end.

(* realloc that always moves: the new block [n], the old one released *)
Definition lrealloc (live : list nat) (old : option nat) (n : nat) : option (list nat) :=
  match old with
  | None => Some (n :: live)
  | Some o => match lfree live o with Some l => Some (n :: l) | None => None end
  end.

Definition opt_l (a : option nat) : list nat := match a with Some x => [x] | None => [] end.

(* ================================================================ 1. the element loop *)
Inductive exit_kind := XBomb | XAddFail | XDecFail (partial : bool).
Inductive lvariant := Correct | SharedExit.

Record lst := Lst { live : list nat; next : nat; arr : option nat; cap : nat; els : list nat }.

Definition top : nat := 0.
Definition linit : lst := Lst [top] 1 None 0 [].

(* what the list structure owns: itself, the array, the appended elements *)
Definition owners (s : lst) : list nat := top :: opt_l (arr s) ++ els s.

Definition alloc_elem (s : lst) : nat * lst :=
  (next s, Lst (next s :: live s) (S (next s)) (arr s) (cap s) (els s)).

(* asn_set_add: if(count == size) REALLOC(array, size ? 2 * size : 4) *)
Definition grow (s : lst) : lst :=
  if length (els s) <? cap s then s
  else let n := next s in
       Lst (n :: match arr s with Some a => remove Nat.eq_dec a (live s) | None => live s end)
           (S n) (Some n) (if cap s =? 0 then 4 else 2 * cap s) (els s).

Definition append (b : nat) (s : lst) : lst :=
  let s' := grow s in Lst (live s') (next s') (arr s') (cap s') (els s' ++ [b]).

Definition step_ok (s : lst) : lst := let (b, s1) := alloc_elem s in append b s1.

Fixpoint steps (k : nat) (s : lst) : lst :=
  match k with O => s | S k' => steps k' (step_ok s) end.

Definition free_blk (b : nat) (s : lst) : option lst :=
  match lfree (live s) b with
  | Some l => Some (Lst l (next s) (arr s) (cap s) (els s))
  | None => None
  end.

(* the failing iteration; None = ledger violation *)
Definition exit_step (v : lvariant) (x : exit_kind) (s : lst) : option lst :=
  match x with
  | XBomb => let (b, s1) := alloc_elem s in
             let s2 := append b s1 in
             match v with Correct => Some s2 | SharedExit => free_blk b s2 end
  | XAddFail => let (b, s1) := alloc_elem s in free_blk b s1
  | XDecFail true => let (b, s1) := alloc_elem s in free_blk b s1
  | XDecFail false => Some s
  end.

(* k successful iterations, then the failing one *)
Definition list_run (v : lvariant) (k : nat) (x : exit_kind) : option lst := exit_step v x (steps k linit).

(* SET_OF_free under ASN_STRUCT_FREE: every element, asn_set_empty (the array), the structure *)
Definition struct_free (s : lst) : list nat := els s ++ opt_l (arr s) ++ [top].

(* the caller's ASN_STRUCT_FREE after the failed decode: the ledger at the end (None = violation) *)
Definition list_lifecycle (v : lvariant) (k : nat) (x : exit_kind) : option (list nat) :=
  match list_run v k x with
  | Some s => lfrees (live s) (struct_free s)
  | None => None
  end.

(* ================================================================ 2. the dynamic-buffer wrapper *)
Inductive dvariant := DCorrect | NoFree.

Record dst := Dst { dlive : list nat; dnext : nat; buf : option nat; len : nat; allocated : nat; nreq : nat }.

Definition dinit : dst := Dst [] 0 None 0 0 0.

(* do { new_size <<= 2; } while(length + size >= new_size);   fuel: S need iterations always suffice *)
Fixpoint grow_to (fuel ns need : nat) : nat :=
  match fuel with
  | O => 4 * ns
  | S f => let ns' := 4 * ns in if need <? ns' then ns' else grow_to f ns' need
  end.

Definition new_size (alloc need : nat) : nat := grow_to need (if alloc =? 0 then 8 else alloc) need.

(* encode_dyn_cb; [ok]: the REALLOC (if one is needed) succeeds.  Result: the key afterwards and the callback's verdict;
   None = ledger violation *)
Definition dyn_cb (ok : bool) (size : nat) (d : dst) : option (dst * bool) :=
  if allocated d <=? len d + size then
    if ok then
      match lrealloc (dlive d) (buf d) (dnext d) with
      | Some l => Some (Dst l (S (dnext d)) (Some (dnext d)) (len d + size) (new_size (allocated d) (len d + size)) (S (nreq d)), true)
      | None => None
      end
    else
      (* FREEMEM(arg->buffer); the key is cleared; return -1 *)
      match buf d with
      | Some b => match lfree (dlive d) b with
                  | Some l => Some (Dst l (dnext d) None 0 0 (S (nreq d)), false)
                  | None => None
                  end
      | None => Some (Dst (dlive d) (dnext d) None 0 0 (S (nreq d)), false)
      end
  else Some (Dst (dlive d) (dnext d) (buf d) (len d + size) (allocated d) (nreq d), true).

(* uper_encode over the chunks: stops at the first chunk the callback refuses *)
Fixpoint feed (script : list (nat * bool)) (d : dst) : option (dst * bool) :=
  match script with
  | [] => Some (d, true)
  | (size, ok) :: r =>
      match dyn_cb ok size d with
      | Some (d', true) => feed r d'
      | Some (d', false) => Some (d', false)
      | None => None
      end
  end.

(* uper_encode_to_new_buffer: the chunks, then the type encoder's verdict [enc_ok]; result: the key at return and the
   buffer handed to the caller *)
Definition dyn_run (v : dvariant) (script : list (nat * bool)) (enc_ok : bool) : option (dst * option nat) :=
  match feed script dinit with
  | Some (d, cb_ok) =>
      if cb_ok && enc_ok then Some (d, buf d)
      else match v with
           | NoFree => Some (d, None)
           | DCorrect =>
               match buf d with
               | Some b => match lfree (dlive d) b with
                           | Some l => Some (Dst l (dnext d) None (len d) (allocated d) (nreq d), None)
                           | None => None
                           end
               | None => Some (d, None)
               end
           end
  | None => None
  end.
