(* OpenTypeFrag.v — C18, round 5: the loop of uper_open_type_put (skeletons/per_opentype.c) with the decision
   it takes after every fragment made explicit.
     do {
         int need_eom = 0;
         ssize_t may_save = uper_put_length(po, size, &need_eom);
         put may_save octets;  size -= may_save;
         if(need_eom && uper_put_length(po, 0, 0)) fail;      <- the empty last fragment, X.691 11.9.3.8.3
     } while(size);
   uper_put_length answers need_eom = 1 exactly when the count it wrote is a fragment header (11xxxxxx) that
   exhausts the contents: 16K, 32K, 48K as well as 64K.  OpenType.uper_open uses Uper.counted, where this
   decision is the `skipn k items = []` branch; here it is a parameter of the loop, so that a loop deciding
   differently (seeded change C18-10: only after a full 64K fragment) is a different function of the model.
   No proofs here (OpenTypeFragProofs.v). *)
From Coq Require Import ZArith List Bool.
From A1 Require Import Base.Bytes Rt.Types Rt.Uper Rt.UperBits.
Import ListNotations.
Open Scope Z_scope.

(* uper_put_length(po, n, &need_eom): (the determinant written, may_save, need_eom) *)
Definition put_length (n : Z) : list bool * Z * bool :=
  if n <=? 127 then (nbits 8 n, n, false)
  else if n <? 16384 then (nbits 16 (n + 32768), n, false)
  else let m := Z.min (n / 16384) 4 in (nbits 8 (192 + m), m * 16384, (m * 16384 =? n)).

(* the decision after a fragment: (octets left, octets just saved, need_eom as answered) -> write the empty fragment? *)
Definition eom_rule := Z -> Z -> bool -> bool.

Fixpoint open_put (eom : eom_rule) (fuel : nat) (c : list Z) : list bool :=
  match fuel with
  | O => []
  | S f =>
      let '(h, save, need) := put_length (zlen c) in
      let k := Z.to_nat save in
      let rest := skipn k c in
      h ++ bytes_bits (firstn k c) ++
      (if eom (zlen rest) save need then nbits 8 0 else []) ++
      (match rest with [] => [] | _ :: _ => open_put eom f rest end)
  end.

(* the code that exists: need_eom as uper_put_length answered it *)
Definition eom_c : eom_rule := fun _ _ need => need.
(* seeded change C18-10: `size == 0 && may_save == 65536` *)
Definition eom_64k : eom_rule := fun size save _ => (size =? 0) && (save =? 65536).

Definition open_put_c (c : list Z) : list bool := open_put eom_c (S (length c)) c.
Definition open_put_64k (c : list Z) : list bool := open_put eom_64k (S (length c)) c.
