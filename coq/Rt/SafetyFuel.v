(* Rt/SafetyFuel.v -- the fuel of the internal loops (dec_until for the BER
   SEQUENCE OF / SET OF contents, get_counted for the PER fragments) is never the
   reason of a failure when each item consumes something: any fuel above the
   input length gives the answer of the fuel the decoders use.  The
   zero-progress case, which the fuel exists for, is identified:
     - BER: an OPTIONAL-like element that matches nothing returns its input
       unchanged, and the loop fails whatever the fuel;
     - PER / OER: a zero-bit element is repeated "count" times, count being
       decoded from the input (at most 65536 per PER fragment): bounded by the
       count, not by the input length. *)
From Coq Require Import ZArith List Lia Bool ZifyBool.
From A1 Require Import Base.Bytes Leaf.IntegerConv Leaf.BerTL Leaf.BerTLProofs
  Rt.Types Rt.TypesInd Rt.Comb Rt.Der Rt.Uper Rt.Oer Rt.Safety.
Import ListNotations.
Local Open Scope Z_scope.

(* ---------------- 1-2. dec_until ---------------- *)

Section Until.
  Context {A B : Type}.
  Variable item : list B -> option (A * list B).
  Variable stop : list B -> bool.
  Hypothesis item_progress : forall s a r, item s = Some (a, r) -> (length r < length s)%nat.

  Lemma dec_until_fuel_irrelevant : forall f1 f2 s,
    (length s < f1)%nat -> (length s < f2)%nat ->
    dec_until item stop f1 s = dec_until item stop f2 s.
  Proof.
    induction f1 as [|f1 IH]; intros f2 s H1 H2; [lia|].
    destruct f2 as [|f2]; [lia|]. cbn [dec_until].
    destruct (stop s); [reflexivity|].
    destruct (item s) as [[a r]|] eqn:E; [|reflexivity].
    apply item_progress in E. rewrite (IH f2 r) by lia. reflexivity.
  Qed.

  Lemma dec_until_fuel_suffices : forall s f, (length s < f)%nat ->
    dec_until item stop f s = dec_until item stop (S (length s)) s.
  Proof. intros s f Hf. apply dec_until_fuel_irrelevant; lia. Qed.
End Until.

(* a zero-progress item exhausts any fuel: the case the fuel guards *)
Lemma dec_until_no_progress {A B} (item : list B -> option (A * list B)) (stop : list B -> bool) s a :
  item s = Some (a, s) -> stop s = false -> forall f, dec_until item stop f s = None.
Proof.
  intros Hi Hs. induction f as [|f IH]; cbn [dec_until]; [reflexivity|].
  rewrite Hs, Hi, IH. reflexivity.
Qed.

(* ---------------- 3. BER: every TLV consumes its header ---------------- *)

(* types whose BER decoding always consumes something *)
Fixpoint strict (t : ty) : bool :=
  match t with
  | TOpt _ => false
  | TChoice alts => forallb strict alts
  | _ => true
  end.

Theorem ber_dec_progress : forall t bs v r, strict t = true ->
  ber_dec t bs = Some (v, r) -> (length r < length bs)%nat.
Proof.
  induction t as [tg|tg|tg c|tg s|tg ms IHms|tg s t IHt|tg s t IHt|alts IHalts|tg t IHt|t IHt]
    using ty_ind'; intros bs v r Hs H; cbn [ber_dec] in H.
  - apply in_prim_strict in H. lia.
  - apply in_prim_strict in H. lia.
  - apply in_prim_strict in H. lia.
  - apply in_prim_strict in H. lia.
  - destruct (in_cons tg bs (dec_members ber_dec ms)) as [[vs r1]|] eqn:E; [|discriminate].
    injection H as _ <-. apply in_cons_strict in E; [lia|].
    intros c a' r' Hc. eapply (dec_members_suffix ber_dec ms); [|exact Hc].
    apply Forall_forall. intros m _ s0 v0 r0. apply ber_dec_suffix.
  - destruct (in_cons tg bs (fun c => dec_until (ber_dec t) at_end (S (length c)) c))
      as [[vs r1]|] eqn:E; [|discriminate].
    injection H as _ <-. apply in_cons_strict in E; [lia|].
    intros c a' r' Hc. cbv beta in Hc. eapply (dec_until_suffix (ber_dec t) at_end); [|exact Hc].
    intros s0 v0 r0. apply ber_dec_suffix.
  - destruct (in_cons tg bs (fun c => dec_until (ber_dec t) at_end (S (length c)) c))
      as [[vs r1]|] eqn:E; [|discriminate].
    injection H as _ <-. apply in_cons_strict in E; [lia|].
    intros c a' r' Hc. cbv beta in Hc. eapply (dec_until_suffix (ber_dec t) at_end); [|exact Hc].
    intros s0 v0 r0. apply ber_dec_suffix.
  - destruct (peek_tag bs) as [tg|]; [|discriminate].
    apply dec_alt_inv in H. destruct H as (i & a & v' & Hn & _ & Hd).
    apply nth_error_In in Hn. cbn [strict] in Hs.
    rewrite forallb_forall in Hs. rewrite Forall_forall in IHalts.
    eapply IHalts; eauto.
  - apply in_cons_strict in H; [lia|]. intros c a' r'. apply ber_dec_suffix.
  - discriminate.
Qed.

Corollary ber_seqof_fuel_suffices e : strict e = true -> forall c f, (length c < f)%nat ->
  dec_until (ber_dec e) at_end f c = dec_until (ber_dec e) at_end (S (length c)) c.
Proof.
  intros Hs c f Hf. apply dec_until_fuel_suffices; [|exact Hf].
  intros s a r. apply ber_dec_progress. exact Hs.
Qed.

(* the zero-progress case: an OPTIONAL element whose tag does not match returns
   its input unchanged; the element loop fails whatever the fuel *)
Example ber_seqof_opt_zero_progress :
  forall f, dec_until (ber_dec (TOpt (TBool 4))) at_end f [8; 1; 0] = None.
Proof. apply dec_until_no_progress with (a := VNone); vm_compute; reflexivity. Qed.

Example ber_seqof_opt_rejected :
  ber_dec (TSeqOf 64 (SCon 0 None false) (TOpt (TBool 4))) [48; 3; 8; 1; 0] = None.
Proof. vm_compute. reflexivity. Qed.

(* ---------------- 4. PER fragments ---------------- *)

Section Counted.
  Context {A : Type}.
  Variable item : list bool -> option (A * list bool).
  Hypothesis item_suffix : dec_suffix item.

  Lemma get_counted_fuel_irrelevant : forall f1 f2 bs,
    (length bs < f1)%nat -> (length bs < f2)%nat ->
    get_counted item f1 bs = get_counted item f2 bs.
  Proof.
    induction f1 as [|f1 IH]; intros f2 bs H1 H2; [lia|].
    destruct f2 as [|f2]; [lia|]. cbn [get_counted].
    destruct (get_length bs) as [[[n more] r]|] eqn:El; [|reflexivity].
    unfold get_items.
    destruct (dec_items item (Z.to_nat n) r) as [[x r']|] eqn:Ei; [|reflexivity].
    destruct more; [|reflexivity].
    apply get_length_progress in El.
    apply (dec_items_suffix item item_suffix) in Ei. apply suffix_length in Ei.
    rewrite (IH f2 r') by lia. reflexivity.
  Qed.

  (* the length determinant itself consumes >= 8 bits per fragment *)
  Lemma get_counted_fuel_suffices : forall bs f, (length bs < f)%nat ->
    get_counted item f bs = get_counted item (S (length bs)) bs.
  Proof. intros bs f Hf. apply get_counted_fuel_irrelevant; lia. Qed.
End Counted.

(* ---------------- 5. zero progress in PER / OER is count-bounded ---------------- *)

Lemma dec_items_length {A St} (item : St -> option (A * St)) : forall n s l r,
  dec_items item n s = Some (l, r) -> length l = n.
Proof.
  induction n as [|n IH]; intros s l r H; cbn [dec_items] in H.
  - injection H as <- _. reflexivity.
  - destruct (item s) as [[a r1]|]; [|discriminate].
    destruct (dec_items item n r1) as [[x r']|] eqn:E; [|discriminate].
    injection H as <- _. cbn [length]. f_equal. eapply IH; eauto.
Qed.

Lemma dec_items_zero_progress {A St} (item : St -> option (A * St)) (a : A) :
  (forall s, item s = Some (a, s)) -> forall n s, dec_items item n s = Some (repeat a n, s).
Proof.
  intros Hi. induction n as [|n IH]; intros s; cbn [dec_items repeat]; [reflexivity|].
  rewrite Hi, IH. reflexivity.
Qed.

(* the count of one PER fragment is at most 64K (get_length_spec), whatever the bits *)
Lemma get_length_count_bounded bs n more r :
  get_length bs = Some (n, more, r) -> 0 <= n <= 65536.
Proof. intros H. apply get_length_spec in H. destruct H as (a & _ & _ & Hn). exact Hn. Qed.

(* one octet, 127 elements *)
Example uper_seqof_null_127 :
  uper_dec false (TSeqOf 64 (SCon 0 None false) (TNull 20)) (bytes_bits [127])
  = Some (VList (repeat VNull 127), []).
Proof. vm_compute. reflexivity. Qed.

(* three octets, 256 elements *)
Example oer_seqof_null_256 :
  oer_dec (TSeqOf 64 (SCon 0 None false) (TNull 20)) [2; 1; 0]
  = Some (VList (repeat VNull 256), []).
Proof. vm_compute. reflexivity. Qed.
