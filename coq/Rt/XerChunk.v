(* Rt/XerChunk.v — the CHUNKED BODY WRITERS of the text encoders: a primitive body that does not
   fit one local scratch buffer is handed to the output callback in several pieces, and the
   function keeps the books BY HAND (no ASN__CALLBACK macro):

     INTEGER__dump (skeletons/INTEGER.c), the long xx:yy:zz form of a value beyond intmax_t:

        char scratch[32]; ssize_t wrote = 0;
        for(p = scratch; buf < buf_end; buf++) {
            if((p - scratch) >= (ssize_t)(sizeof(scratch) - 4)) {
                if(cb(scratch, p - scratch, app_key) < 0) return -1;     (* Flush buffer *)
                wrote += p - scratch;                                     (* <- [count_flush] *)
                p = scratch;
            }
            *p++ = h2c[*buf >> 4]; *p++ = h2c[*buf & 0x0F]; *p++ = 0x3a;
        }
        if(p != scratch) p--;                                             (* <- [trim] *)
        wrote += p - scratch;
        return (cb(scratch, p - scratch, app_key) < 0) ? -1 : wrote;

   [writer_loop] is that loop with the scratch contents [p] and the counter [wrote] as explicit
   state, parametrised by the text of one contents octet ([item]), the flush threshold ([thr] =
   sizeof(scratch) - 4 = 28) and the two decisions marked above.  [count_flush = true] is the
   code; [count_flush = false] is the variant that "adds the total once at the end" and thereby
   counts the last portion only (kept for the refuted witness in Rt/XerChunkProofs.v).
   Rt/XerEnc.v models the macros; this file models what the macros do not cover.
   No proofs here (extraction reads this file). *)
From Coq Require Import ZArith List Bool.
From A1 Require Import Base.Bytes Leaf.Decimal Rt.AppApi Rt.XerEnc.
Import ListNotations.
Local Open Scope Z_scope.

(* if(p != scratch) p--;   (removelast [] = []) *)
Definition finish (trim : bool) (t : bytes) : bytes := if trim then removelast t else t.

Section Writer.
Variable item : Z -> bytes.        (* the characters one contents octet contributes *)
Variable thr : Z.                  (* flush when p - scratch >= thr *)
Variable count_flush : bool.       (* wrote += p - scratch in the flush branch *)
Variable trim : bool.              (* the separator after the last item is removed *)

Fixpoint writer_loop (buf p : bytes) (wrote : Z) (S : Type) (cb : cbT S) (s : S) {struct buf} : S * option Z :=
  match buf with
  | [] =>
      let (s1, ok) := cb s (finish trim p) in
      (s1, if ok then Some (wrote + zlen (finish trim p)) else None)
  | b :: tl =>
      if thr <=? zlen p then
        let (s1, ok) := cb s p in
        if ok then writer_loop tl (item b) (if count_flush then wrote + zlen p else wrote) S cb s1
        else (s1, None)
      else writer_loop tl (p ++ item b) wrote S cb s
  end.

Definition writer (buf : bytes) : step := writer_loop buf [] 0.

(* the whole text, as one string *)
Definition body_text (buf : bytes) : bytes := finish trim (flat_map item buf).

End Writer.

(* ---------------- INTEGER ---------------- *)

Definition hex3c (b : Z) : bytes := hex2 b ++ [58].          (* "XX:" *)

(* "The text does not depend on the leading superfluous octets" (the same loop is at the head of
   asn_INTEGER2imax) *)
Fixpoint strip_leading (bs : bytes) : bytes :=
  match bs with
  | b0 :: ((b1 :: _) as tl) =>
      if ((b0 =? 0) && (b1 <? 128)) || ((b0 =? 255) && (128 <=? b1)) then strip_leading tl else bs
  | _ => bs
  end.

Definition int_scratch : Z := 32.
Definition int_thr : Z := int_scratch - 4.

(* INTEGER__dump(td, st, cb, app_key, plainOrXER = 1) of a signed INTEGER without named numbers:
   within intmax_t one asn__format_to_callback("%jd") invocation, otherwise the chunked dump *)
Definition int_dump_gen (count_flush : bool) (content : bytes) : step :=
  let b := strip_leading content in
  if zlen b <=? 8 then cb1 (int_text (twos_value b))
  else writer hex3c int_thr count_flush true b.

Definition int_dump : bytes -> step := int_dump_gen true.

(* what the text is, independently of any chunking *)
Definition int_dump_text (content : bytes) : bytes :=
  let b := strip_leading content in
  if zlen b <=? 8 then int_text (twos_value b) else body_text hex3c true b.

(* xer_encode around a primitive body: <tag> body </tag>, and "\n" in BASIC-XER *)
Definition xer_encode_body (can : bool) (tag : bytes) (body : step) : step :=
  seqs (cb3 lt tag gt) (seqs body (cb3 ltsl tag (if can then gt else gtnl))).

Definition int_xer_encoder_gen (count_flush can : bool) (tag content : bytes) : inner :=
  step_inner (xer_encode_body can tag (int_dump_gen count_flush content)).

Definition int_xer_encoder : bool -> bytes -> bytes -> inner := int_xer_encoder_gen true.

(* entry points of the extracted driver *)
Definition model_int_xer (can : bool) (tag content : bytes) (k : option nat)
  : outcome ((nat * list bytes) * api_res) :=
  asn_encode (Some (user_cb k)) true (Op false (int_xer_encoder can tag content)) (0%nat, []).

Definition model_int_xer_tobuf (can : bool) (tag content : bytes) (mem : list Z) (size : Z) : outcome (ostate * api_res) :=
  asn_encode_to_buffer true (Op false (int_xer_encoder can tag content)) (Some mem) size.

Definition model_int_xer_newbuf (can : bool) (tag content : bytes) : outcome newbuf_res :=
  asn_encode_to_new_buffer true (Op false (int_xer_encoder can tag content)) true (fun _ => false).

(* the variant that counts the last portion only, through the same asn_encode (for the witness) *)
Definition model_int_xer_lastonly (can : bool) (tag content : bytes)
  : outcome ((nat * list bytes) * api_res) :=
  asn_encode (Some (user_cb None)) true (Op false (int_xer_encoder_gen false can tag content)) (0%nat, []).
