(* Rt/DepthProofs.v — C15 theorems over Rt/Depth.v.
   guarded_recursion      every cycle passes a guard  ->  admissible call stacks are short
   guarded_stack_bound    ... and use at most max_stack + (R+1) * biggest frame bytes
   deep_nesting_fails     ... and a deeper input makes a guard fire, within the bound
   unguarded_cycle_unbounded   an unguarded cycle admits call stacks of every length
   heap_linear            reference BER decoder: size of the value <= octets consumed
   zero_width_oer etc.    OER/UPER reference decoders: SEQUENCE OF NULL, size N from O(log N) octets *)
From Coq Require Import ZArith List Bool Arith Lia ZifyBool.
From A1 Require Import Base.Bytes Leaf.BerTL Leaf.BerTLProofs Rt.Types Rt.Comb Rt.Der Rt.Oer Rt.Uper
  Rt.TypesInd Rt.Depth.
Import ListNotations.
Local Open Scope Z_scope.

(* ------------------------------------------------------------------ chains *)

Lemma is_chain_cons2 g u v r : is_chain g (u :: v :: r) = is_edge g u v && is_chain g (v :: r).
Proof. reflexivity. Qed.

Lemma is_chain_app_r g p : forall s, is_chain g (p ++ s) = true -> is_chain g s = true.
Proof.
  induction p as [|x p IH]; intros s H; [exact H|].
  destruct p as [|y p'].
  - cbn [app] in H. destruct s as [|z s']; [reflexivity|].
    rewrite is_chain_cons2 in H. apply andb_true_iff in H. apply H.
  - change ((x :: y :: p') ++ s) with (x :: y :: (p' ++ s)) in H.
    rewrite is_chain_cons2 in H. apply andb_true_iff in H. apply IH. apply H.
Qed.

Lemma is_chain_app_l g p : forall s, is_chain g (p ++ s) = true -> is_chain g p = true.
Proof.
  induction p as [|x p IH]; intros s H; [reflexivity|].
  destruct p as [|y p']; [reflexivity|].
  change ((x :: y :: p') ++ s) with (x :: y :: (p' ++ s)) in H.
  rewrite is_chain_cons2 in H. apply andb_true_iff in H. destruct H as [He Hc].
  rewrite is_chain_cons2, He. cbn [andb]. apply (IH s). exact Hc.
Qed.

Lemma chain_glue g a : forall x b,
  is_chain g (a ++ [x]) = true -> is_chain g (x :: b) = true -> is_chain g (a ++ x :: b) = true.
Proof.
  induction a as [|y a IH]; intros x b Ha Hb; [exact Hb|].
  destruct a as [|z a'].
  - cbn [app] in *. rewrite is_chain_cons2 in *. apply andb_true_iff in Ha.
    destruct Ha as [He _]. rewrite He. exact Hb.
  - change ((y :: z :: a') ++ [x]) with (y :: z :: (a' ++ [x])) in Ha.
    change ((y :: z :: a') ++ x :: b) with (y :: z :: (a' ++ x :: b)).
    rewrite is_chain_cons2 in *. apply andb_true_iff in Ha. destruct Ha as [He Hc].
    rewrite He. cbn [andb]. apply (IH x b); assumption.
Qed.

Lemma usage_app fr a b : usage fr (a ++ b) = usage fr a + usage fr b.
Proof. induction a as [|x a IH]; cbn [app usage]; lia. Qed.

Lemma usage_lb fr f : (forall v, f <= fr v) -> forall c, f * Z.of_nat (length c) <= usage fr c.
Proof.
  intros Hf c. induction c as [|x c IH]; cbn [usage length]; [lia|].
  specialize (Hf x). lia.
Qed.

Lemma usage_ub fr F : (forall v, fr v <= F) -> forall c, usage fr c <= F * Z.of_nat (length c).
Proof.
  intros Hf c. induction c as [|x c IH]; cbn [usage length]; [lia|].
  specialize (Hf x). lia.
Qed.

Lemma split_last_guarded g c :
  forallb (unguardedb g) c = true \/
  exists p v s, c = p ++ v :: s /\ guardedb g v = true /\ forallb (unguardedb g) s = true.
Proof.
  induction c as [|x c IH]; [left; reflexivity|].
  destruct IH as [Hall | (p & v & s & Hc & Hv & Hs)].
  - destruct (guardedb g x) eqn:Hx.
    + right. exists [], x, c. repeat split; assumption.
    + left. cbn [forallb]. unfold unguardedb at 1. rewrite Hx. exact Hall.
  - right. exists (x :: p), v, s. subst c. repeat split; assumption.
Qed.

Lemma adm_guard g fr max p : forall used v s,
  admissible g fr max used (p ++ v :: s) = true -> guardedb g v = true ->
  used + usage fr (p ++ [v]) <= max.
Proof.
  induction p as [|x p IH]; intros used v s H Hv.
  - cbn [app admissible usage] in *. rewrite Hv in H. cbn [andb] in H.
    destruct (max <? used + fr v) eqn:E; [discriminate|]. lia.
  - cbn [app admissible usage] in *.
    destruct (guardedb g x && (max <? used + fr x)); [discriminate|].
    specialize (IH _ _ _ H Hv). lia.
Qed.

Lemma adm_unguarded g fr max c : forall used,
  forallb (unguardedb g) c = true -> admissible g fr max used c = true.
Proof.
  induction c as [|x c IH]; intros used H; [reflexivity|].
  cbn [forallb] in H. apply andb_true_iff in H. destruct H as [Hx Hc].
  unfold unguardedb in Hx. apply negb_true_iff in Hx.
  cbn [admissible]. rewrite Hx. cbn [andb]. apply IH. exact Hc.
Qed.

Lemma adm_app_l g fr max p : forall used s,
  admissible g fr max used (p ++ s) = true -> admissible g fr max used p = true.
Proof.
  induction p as [|x p IH]; intros used s H; [reflexivity|].
  cbn [app admissible] in *.
  destruct (guardedb g x && (max <? used + fr x)); [discriminate|]. apply (IH _ s). exact H.
Qed.

(* ------------------------------------------------------------------ ranks *)

Lemma rank_le_max rk : forall v, (rank_of rk v <= max_rank rk)%nat.
Proof.
  unfold rank_of. induction rk as [|r rk IH]; intros v.
  - destruct v; cbn; lia.
  - destruct v as [|v']; cbn [nth max_rank fold_right].
    + lia.
    + specialize (IH v'). unfold max_rank in IH. lia.
Qed.

Section Guarded.
  Variable g : cgraph.
  Variable rk : list nat.
  Hypothesis Hrk : rank_ok g rk = true.

  Lemma rank_edge u v : is_edge g u v = true -> guardedb g u = false -> guardedb g v = false ->
    (rank_of rk v < rank_of rk u)%nat.
  Proof.
    intros He Hu Hv. unfold is_edge in He. apply existsb_exists in He.
    destruct He as ([a b] & Hin & He). cbn [fst snd] in He. apply andb_true_iff in He. destruct He as [H1 H2].
    apply Nat.eqb_eq in H1. apply Nat.eqb_eq in H2.
    pose proof Hrk as Hr. unfold rank_ok in Hr. rewrite forallb_forall in Hr.
    specialize (Hr (a, b) Hin). cbn [fst snd] in Hr. subst a b.
    rewrite Hu, Hv in Hr. cbn [orb] in Hr. apply Nat.ltb_lt in Hr. exact Hr.
  Qed.

  (* a run of unguarded frames is at most rank(first)+1 long *)
  Lemma unguarded_run c : forallb (unguardedb g) c = true -> is_chain g c = true ->
    match c with [] => True | h :: _ => (length c <= S (rank_of rk h))%nat end.
  Proof.
    induction c as [|h c IH]; intros Hu Hc; [exact I|].
    destruct c as [|v r]; [cbn; lia|].
    rewrite is_chain_cons2 in Hc. apply andb_true_iff in Hc. destruct Hc as [He Hc].
    cbn [forallb] in Hu. apply andb_true_iff in Hu. destruct Hu as [Hh Hu].
    pose proof Hu as Hu'. cbn [forallb] in Hu'. apply andb_true_iff in Hu'. destruct Hu' as [Hv _].
    unfold unguardedb in Hh, Hv. apply negb_true_iff in Hh. apply negb_true_iff in Hv.
    pose proof (rank_edge h v He Hh Hv) as Hlt.
    specialize (IH Hu Hc). cbn [length] in *. lia.
  Qed.

  Lemma unguarded_run_max c : forallb (unguardedb g) c = true -> is_chain g c = true ->
    (length c <= S (max_rank rk))%nat.
  Proof.
    intros Hu Hc. pose proof (unguarded_run c Hu Hc) as H.
    destruct c as [|h r]; [cbn; lia|]. pose proof (rank_le_max rk h). lia.
  Qed.

  Theorem guarded_recursion_rk (fr : node -> Z) (f max : Z) :
    0 < f -> (forall v, f <= fr v) -> 0 <= max ->
    forall c, is_chain g c = true -> admissible g fr max 0 c = true ->
    Z.of_nat (length c) <= max / f + Z.of_nat (S (max_rank rk)).
  Proof.
    intros Hf Hfr Hmax c Hc Ha.
    assert (Hq : 0 <= max / f) by (apply Z.div_pos; lia).
    destruct (split_last_guarded g c) as [Hall | (p & v & s & Heq & Hv & Hs)].
    - pose proof (unguarded_run_max c Hall Hc). lia.
    - subst c.
      pose proof (adm_guard g fr max p 0 v s Ha Hv) as Hu.
      pose proof (usage_lb fr f Hfr (p ++ [v])) as Hl.
      assert (Hlen : Z.of_nat (length (p ++ [v])) <= max / f).
      { apply Z.div_le_lower_bound; lia. }
      assert (Hs' : is_chain g s = true).
      { apply (is_chain_app_r g (p ++ [v])). rewrite <- app_assoc. exact Hc. }
      pose proof (unguarded_run_max s Hs Hs').
      rewrite app_length in *. cbn [length] in *. lia.
  Qed.

  Theorem guarded_stack_bound_rk (fr : node -> Z) (F max : Z) :
    (forall v, 0 <= fr v <= F) -> 0 <= max ->
    forall c, is_chain g c = true -> admissible g fr max 0 c = true ->
    usage fr c <= max + F * Z.of_nat (S (max_rank rk)).
  Proof.
    intros Hfr Hmax c Hc Ha.
    assert (HF : 0 <= F) by (specialize (Hfr O); lia).
    assert (Hub : forall l, usage fr l <= F * Z.of_nat (length l)).
    { apply usage_ub. intro v. apply Hfr. }
    destruct (split_last_guarded g c) as [Hall | (p & v & s & Heq & Hv & Hs)].
    - pose proof (unguarded_run_max c Hall Hc). specialize (Hub c). nia.
    - subst c.
      pose proof (adm_guard g fr max p 0 v s Ha Hv) as Hu.
      assert (Hs' : is_chain g s = true).
      { apply (is_chain_app_r g (p ++ [v])). rewrite <- app_assoc. exact Hc. }
      pose proof (unguarded_run_max s Hs Hs').
      replace (p ++ v :: s) with ((p ++ [v]) ++ s) by (rewrite <- app_assoc; reflexivity).
      rewrite usage_app. specialize (Hub s). nia.
  Qed.
End Guarded.

(* ------------------------------------------------------------------ the run *)

Lemma run_completed g fr max path : forall used depth d,
  run_path g fr max used depth path = Completed d -> admissible g fr max used path = true.
Proof.
  induction path as [|v r IH]; intros used depth d H; [reflexivity|].
  cbn [run_path admissible] in *.
  destruct (guardedb g v && (max <? used + fr v)); [discriminate|]. exact (IH _ _ _ H).
Qed.

Lemma run_fired g fr max path : forall used depth k,
  run_path g fr max used depth path = GuardFired k ->
  exists p s, path = p ++ s /\ admissible g fr max used p = true /\ k = (depth + length p + 1)%nat.
Proof.
  induction path as [|v r IH]; intros used depth k H; [discriminate|].
  cbn [run_path] in H.
  destruct (guardedb g v && (max <? used + fr v)) eqn:E.
  - injection H as Hk. exists [], (v :: r). repeat split. cbn [length]. lia.
  - destruct (IH _ _ _ H) as (p & s & Hp & Ha & Hk).
    exists (v :: p), s. split; [rewrite Hp; reflexivity|]. split.
    + cbn [admissible]. rewrite E. exact Ha.
    + cbn [length]. lia.
Qed.

Theorem guarded_recursion (g : cgraph) (n R : nat) (fr : node -> Z) (f max : Z) :
  all_cycles_guarded g n = Some R ->
  0 < f -> (forall v, f <= fr v) -> 0 <= max ->
  forall c, is_chain g c = true -> admissible g fr max 0 c = true ->
  Z.of_nat (length c) <= max / f + Z.of_nat (S R).
Proof.
  unfold all_cycles_guarded. destruct (rank_ok g (ranks g n)) eqn:E; [|discriminate].
  intros HR. injection HR as HR. subst R. apply guarded_recursion_rk. exact E.
Qed.

Theorem guarded_stack_bound (g : cgraph) (n R : nat) (fr : node -> Z) (F max : Z) :
  all_cycles_guarded g n = Some R ->
  (forall v, 0 <= fr v <= F) -> 0 <= max ->
  forall c, is_chain g c = true -> admissible g fr max 0 c = true ->
  usage fr c <= max + F * Z.of_nat (S R).
Proof.
  unfold all_cycles_guarded. destruct (rank_ok g (ranks g n)) eqn:E; [|discriminate].
  intros HR. injection HR as HR. subst R. apply guarded_stack_bound_rk. exact E.
Qed.

(* an input that asks for a deeper call path than the bound makes a guard fire,
   and the depth reached when it fires is within the bound (+1: the frame whose
   guard fired) *)
Theorem deep_nesting_fails (g : cgraph) (n R : nat) (fr : node -> Z) (f max : Z) :
  all_cycles_guarded g n = Some R ->
  0 < f -> (forall v, f <= fr v) -> 0 <= max ->
  forall path, is_chain g path = true ->
  max / f + Z.of_nat (S R) < Z.of_nat (length path) ->
  exists k, run_path g fr max 0 0 path = GuardFired k /\
            Z.of_nat k <= max / f + Z.of_nat (S R) + 1.
Proof.
  intros HG Hf Hfr Hmax path Hc Hlen.
  destruct (run_path g fr max 0 0 path) as [k|d] eqn:E.
  - exists k. split; [reflexivity|].
    destruct (run_fired _ _ _ _ _ _ _ E) as (p & s & Hp & Ha & Hk).
    subst path. pose proof (is_chain_app_l g p s Hc) as Hcp.
    pose proof (guarded_recursion g n R fr f max HG Hf Hfr Hmax p Hcp Ha). lia.
  - exfalso. pose proof (run_completed _ _ _ _ _ _ _ E) as Ha.
    pose proof (guarded_recursion g n R fr f max HG Hf Hfr Hmax path Hc Ha). lia.
Qed.

(* ------------------------------------------------------------------ unguarded cycles *)

Lemma rep_cycle_head h t k : exists b, rep_cycle (h :: t) k ++ [h] = h :: b.
Proof.
  destruct k as [|k]; cbn [rep_cycle app].
  - exists []. reflexivity.
  - eexists. reflexivity.
Qed.

Lemma rep_cycle_chain g h t : is_chain g ((h :: t) ++ [h]) = true ->
  forall k, is_chain g (rep_cycle (h :: t) k ++ [h]) = true.
Proof.
  intros Hc k. induction k as [|k IH]; [reflexivity|].
  cbn [rep_cycle]. rewrite <- app_assoc.
  destruct (rep_cycle_head h t k) as (b & Hb). rewrite Hb in IH. rewrite Hb.
  apply chain_glue; assumption.
Qed.

Lemma rep_cycle_length cyc k : length (rep_cycle cyc k) = (k * length cyc)%nat.
Proof. induction k as [|k IH]; cbn [rep_cycle]; [reflexivity|]. rewrite app_length, IH. lia. Qed.

Lemma rep_cycle_forallb (P : node -> bool) cyc k :
  forallb P cyc = true -> forallb P (rep_cycle cyc k) = true.
Proof.
  intros H. induction k as [|k IH]; cbn [rep_cycle]; [reflexivity|].
  rewrite forallb_app, H, IH. reflexivity.
Qed.

Theorem unguarded_cycle_unbounded (g : cgraph) (pre cyc : list node) :
  unguarded_cycle g pre cyc = true ->
  forall (fr : node -> Z) (max : Z) (k : nat),
    let c := pre ++ rep_cycle cyc k ++ [hd O cyc] in
    is_chain g c = true /\ admissible g fr max 0 c = true /\ (k <= length c)%nat.
Proof.
  unfold unguarded_cycle. destruct cyc as [|h t]; [discriminate|].
  intros H fr max k. apply andb_true_iff in H. destruct H as [Hu Hc].
  cbn [hd]. rewrite forallb_app in Hu. apply andb_true_iff in Hu. destruct Hu as [Hpre Hcyc].
  assert (Hcyc_chain : is_chain g ((h :: t) ++ [h]) = true) by exact (is_chain_app_r g pre _ Hc).
  assert (Hh : unguardedb g h = true).
  { cbn [forallb] in Hcyc. apply andb_true_iff in Hcyc. apply Hcyc. }
  repeat split.
  - pose proof (rep_cycle_chain g h t Hcyc_chain k) as Hk.
    destruct (rep_cycle_head h t k) as (b & Hb). rewrite Hb in Hk. rewrite Hb.
    apply chain_glue; [|exact Hk].
    apply (is_chain_app_l g (pre ++ [h]) (t ++ [h])).
    rewrite <- app_assoc. exact Hc.
  - apply adm_unguarded. rewrite !forallb_app, Hpre.
    rewrite (rep_cycle_forallb (unguardedb g) (h :: t) k Hcyc).
    cbn [forallb]. rewrite Hh. reflexivity.
  - rewrite !app_length, rep_cycle_length. cbn [length]. nia.
Qed.

(* ------------------------------------------------------------------ the modules of the check *)

Example c15_ber_guarded : all_cycles_guarded cg_ber c15_nodes = Some 0%nat.
Proof. vm_compute. reflexivity. Qed.
Example c15_uper_guarded : all_cycles_guarded cg_uper c15_nodes = Some 0%nat.
Proof. vm_compute. reflexivity. Qed.

Example c15_oer_guarded : all_cycles_guarded cg_oer c15_nodes = Some 0%nat.
Proof. vm_compute. reflexivity. Qed.
Example c15_xer_guarded : all_cycles_guarded cg_xer c15_nodes = Some 0%nat.
Proof. vm_compute. reflexivity. Qed.

(* the full statement for the modules of the check: in every transfer syntax the
   call stack of every recursive type's decoder is bounded by the stack limit
   (R = 0: no two unguarded decoders follow each other on a cycle), and an input
   asking for deeper nesting makes a guard fire *)
Definition c15_graphs : list cgraph := [cg_ber; cg_uper; cg_oer; cg_xer].

Lemma c15_graphs_guarded g : In g c15_graphs -> all_cycles_guarded g c15_nodes = Some 0%nat.
Proof.
  unfold c15_graphs. cbn [In].
  intros [H|[H|[H|[H|[]]]]]; subst g;
    [exact c15_ber_guarded|exact c15_uper_guarded|exact c15_oer_guarded|exact c15_xer_guarded].
Qed.

Theorem guarded_recursion_all_syntaxes (g : cgraph) (fr : node -> Z) (f max : Z) :
  In g c15_graphs ->
  0 < f -> (forall v, f <= fr v) -> 0 <= max ->
  forall c, is_chain g c = true -> admissible g fr max 0 c = true ->
  Z.of_nat (length c) <= max / f + 1.
Proof.
  intros Hg Hf Hfr Hmax c Hc Ha.
  exact (guarded_recursion g c15_nodes 0%nat fr f max (c15_graphs_guarded g Hg) Hf Hfr Hmax c Hc Ha).
Qed.

Theorem deep_nesting_fails_all_syntaxes (g : cgraph) (fr : node -> Z) (f max : Z) :
  In g c15_graphs ->
  0 < f -> (forall v, f <= fr v) -> 0 <= max ->
  forall path, is_chain g path = true ->
  max / f + 1 < Z.of_nat (length path) ->
  exists k, run_path g fr max 0 0 path = GuardFired k /\ Z.of_nat k <= max / f + 2.
Proof.
  intros Hg Hf Hfr Hmax path Hc Hlen.
  destruct (deep_nesting_fails g c15_nodes 0%nat fr f max (c15_graphs_guarded g Hg) Hf Hfr Hmax path Hc Hlen)
    as (k & Hk & Hle).
  exists k. split; [exact Hk|]. change (Z.of_nat 1) with 1 in Hle. lia.
Qed.

(* ------------------------------------------------------------------ heap: BER *)

Lemma fetch_length_n constructed buf v n :
  fetch_length constructed buf = FOk v n -> (1 <= n <= length buf)%nat.
Proof.
  destruct buf as [|b tl]; cbn [fetch_length]; [discriminate|].
  destruct (b <? 128).
  - intros H. injection H as _ Hn. subst. cbn [length]. lia.
  - destruct (constructed && (b =? 128)).
    + intros H. injection H as _ Hn. subst. cbn [length]. lia.
    + destruct (b =? 255); [discriminate|]. intros H.
      apply fetch_len_loop_consumed in H. cbn [length]. lia.
Qed.

Lemma tlv_open_shorter bs tg c len rest :
  tlv_open bs = Some (tg, c, len, rest) -> zlen rest + 2 <= zlen bs.
Proof.
  unfold tlv_open. destruct bs as [|b0 tl]; [discriminate|].
  destruct (fetch_tag (b0 :: tl)) as [t n1| |] eqn:Et; try discriminate.
  destruct (fetch_length _ (skipn n1 (b0 :: tl))) as [l n2| |] eqn:El; try discriminate.
  intros H. injection H as _ _ _ Hr. subst rest.
  apply fetch_tag_consumed in Et. apply fetch_length_n in El.
  unfold zlen. rewrite !skipn_length in *. lia.
Qed.

Lemma in_prim_size {A} tg bs (k : list Z -> option A) a r (sz : A -> Z) :
  (forall c x, k c = Some x -> sz x <= 1 + zlen c) ->
  in_prim tg bs k = Some (a, r) -> sz a + zlen r <= zlen bs.
Proof.
  intros Hk. unfold in_prim.
  destruct (tlv_open bs) as [[[[tg' c] len] rest]|] eqn:Eo; [|discriminate].
  destruct c; [discriminate|].
  destruct ((tg' =? tg) && (0 <=? len) && (len <=? zlen rest)) eqn:Ec; [|discriminate].
  destruct (k (firstn (Z.to_nat len) rest)) as [x|] eqn:Ek; [|discriminate].
  intros H. injection H as Ha Hr. subst a r.
  apply tlv_open_shorter in Eo. apply Hk in Ek.
  unfold zlen in *. rewrite firstn_length in Ek. rewrite skipn_length. lia.
Qed.

Lemma in_cons_size {A} tg bs (k : list Z -> option (A * list Z)) a r (sz : A -> Z) :
  (forall c x r', k c = Some (x, r') -> sz x + zlen r' <= zlen c) ->
  in_cons tg bs k = Some (a, r) -> sz a + 1 + zlen r <= zlen bs.
Proof.
  intros Hk. unfold in_cons.
  destruct (tlv_open bs) as [[[[tg' c] len] rest]|] eqn:Eo; [|discriminate].
  destruct c; [|discriminate].
  destruct (tg' =? tg); [|discriminate].
  apply tlv_open_shorter in Eo.
  destruct (len =? -1) eqn:El.
  - destruct (k rest) as [[x r']|] eqn:Ek; [|discriminate].
    destruct r' as [|b1 [|b2 r'']]; try discriminate.
    destruct ((b1 =? 0) && (b2 =? 0)); [|discriminate].
    intros H. injection H as Ha Hr. subst a r.
    apply Hk in Ek. rewrite !zlen_cons in Ek. lia.
  - destruct (len <=? zlen rest) eqn:El2; [|discriminate].
    destruct (k (firstn (Z.to_nat len) rest)) as [[x r']|] eqn:Ek; [|discriminate].
    destruct r'; [|discriminate].
    intros H. injection H as Ha Hr. subst a r.
    apply Hk in Ek. unfold zlen in *. rewrite firstn_length in Ek. rewrite skipn_length.
    cbn [length] in Ek. lia.
Qed.

Definition sized (t : ty) : Prop :=
  forall bs v rest, ber_dec t bs = Some (v, rest) -> vsize v + zlen rest <= zlen bs.

Lemma dec_members_size ms : Forall sized ms ->
  forall s vs r, dec_members ber_dec ms s = Some (vs, r) -> sum_sizes vsize vs + zlen r <= zlen s.
Proof.
  induction 1 as [|m ms Hm _ IH]; intros s vs r H; cbn [dec_members] in H.
  - injection H as Hv Hr. subst. cbn [sum_sizes]. lia.
  - destruct (ber_dec m s) as [[v r1]|] eqn:E1; [|discriminate].
    destruct (dec_members ber_dec ms r1) as [[vs' r2]|] eqn:E2; [|discriminate].
    injection H as Hv Hr. subst. apply Hm in E1. apply IH in E2. cbn [sum_sizes]. lia.
Qed.

Lemma dec_until_size e : sized e ->
  forall fuel s vs r, dec_until (ber_dec e) at_end fuel s = Some (vs, r) ->
    sum_sizes vsize vs + zlen r <= zlen s.
Proof.
  intros He fuel. induction fuel as [|f IH]; intros s vs r H; cbn [dec_until] in H; [discriminate|].
  destruct (at_end s).
  - injection H as Hv Hr. subst. cbn [sum_sizes]. lia.
  - destruct (ber_dec e s) as [[v r1]|] eqn:E1; [|discriminate].
    destruct (dec_until (ber_dec e) at_end f r1) as [[vs' r2]|] eqn:E2; [|discriminate].
    injection H as Hv Hr. subst. apply He in E1. apply IH in E2. cbn [sum_sizes]. lia.
Qed.

Lemma dec_alt_size sel bs alts : Forall sized alts ->
  forall i v r, dec_alt ber_dec sel bs alts i = Some (v, r) -> vsize v + zlen r <= zlen bs.
Proof.
  induction 1 as [|a alts Ha _ IH]; intros i v r H; cbn [dec_alt] in H; [discriminate|].
  destruct (sel i a).
  - destruct (ber_dec a bs) as [[v' r']|] eqn:E; [|discriminate].
    injection H as Hv Hr. subst. apply Ha in E. cbn [vsize]. exact E.
  - exact (IH _ _ _ H).
Qed.

(* the size of the value the reference BER decoder returns is at most the
   number of octets it consumed — for every type of the algebra and every input *)
Theorem heap_linear : forall t bs v rest,
  ber_dec t bs = Some (v, rest) -> vsize v + zlen rest <= zlen bs.
Proof.
  intros t. change (sized t). induction t as [tg|tg|tg c|tg s|tg ms IHms|tg s e IHe|tg s e IHe|alts IHalts|tg t IHt|t IHt] using ty_ind'; unfold sized; intros bs v rest H; cbn [ber_dec] in H.
  - eapply (in_prim_size _ _ _ _ _ vsize) in H; [exact H|].
    intros c x Hx. destruct c as [|b [|? ?]]; try discriminate. injection Hx as Hx. subst. cbn [vsize]. pose proof (zlen_nonneg [b]). lia.
  - eapply (in_prim_size _ _ _ _ _ vsize) in H; [exact H|].
    intros c x Hx. destruct c; try discriminate. injection Hx as Hx. subst. cbn [vsize]. unfold zlen. cbn. lia.
  - eapply (in_prim_size _ _ _ _ _ vsize) in H; [exact H|].
    intros c0 x Hx. destruct c0 as [|b tl]; [discriminate|].
    destruct (fits_long (twos_value (b :: tl))); [|discriminate]. injection Hx as Hx. subst. cbn [vsize].
    pose proof (zlen_nonneg (b :: tl)). lia.
  - eapply (in_prim_size _ _ _ _ _ vsize) in H; [exact H|].
    intros c x Hx. injection Hx as Hx. subst. cbn [vsize]. unfold zlen. lia.
  - destruct (in_cons tg bs (dec_members ber_dec ms)) as [[vs r]|] eqn:E; [|discriminate].
    injection H as Hv Hr. subst.
    eapply (in_cons_size _ _ _ _ _ (sum_sizes vsize)) in E.
    + cbn [vsize]. lia.
    + intros c x r' Hx. exact (dec_members_size ms IHms _ _ _ Hx).
  - destruct (in_cons tg bs _) as [[vs r]|] eqn:E; [|discriminate].
    injection H as Hv Hr. subst.
    eapply (in_cons_size _ _ _ _ _ (sum_sizes vsize)) in E.
    + cbn [vsize]. lia.
    + intros c x r' Hx. exact (dec_until_size e IHe _ _ _ _ Hx).
  - destruct (in_cons tg bs _) as [[vs r]|] eqn:E; [|discriminate].
    injection H as Hv Hr. subst.
    eapply (in_cons_size _ _ _ _ _ (sum_sizes vsize)) in E.
    + cbn [vsize]. lia.
    + intros c x r' Hx. exact (dec_until_size e IHe _ _ _ _ Hx).
  - destruct (peek_tag bs); [|discriminate].
    exact (dec_alt_size _ _ _ IHalts _ _ _ H).
  - eapply (in_cons_size _ _ _ _ _ vsize) in H.
    + lia.
    + intros c x r' Hx. exact (IHt _ _ _ Hx).
  - destruct (peek_tag bs) as [tg0|].
    + destruct (tag_in tg0 (first_tags t)).
      * destruct (ber_dec t bs) as [[v' r']|] eqn:E; [|discriminate].
        injection H as Hv Hr. subst. cbn [vsize]. exact (IHt _ _ _ E).
      * injection H as Hv Hr. subst. cbn [vsize]. lia.
    + injection H as Hv Hr. subst. cbn [vsize]. lia.
Qed.

Corollary heap_linear_decode t bs v n : ber_decode t bs = Some (v, n) -> vsize v <= n.
Proof.
  unfold ber_decode. destruct (ber_dec t bs) as [[v' r]|] eqn:E; [|discriminate].
  intros H. injection H as Hv Hn. subst. apply heap_linear in E. lia.
Qed.

(* ------------------------------------------------------------------ heap: zero-width elements *)

Lemma sum_sizes_nulls n : sum_sizes vsize (repeat VNull n) = Z.of_nat n.
Proof. induction n as [|n IH]; cbn [repeat sum_sizes vsize]; lia. Qed.

Lemma vsize_null_list n : vsize (null_list n) = 1 + Z.of_nat n.
Proof. unfold null_list. cbn [vsize]. rewrite sum_sizes_nulls. reflexivity. Qed.

Lemma oer_null_items tg n : forall bs,
  dec_items (oer_dec (TNull tg)) n bs = Some (repeat VNull n, bs).
Proof.
  induction n as [|n IH]; intros bs; cbn [dec_items repeat]; [reflexivity|].
  cbn [oer_dec]. rewrite IH. reflexivity.
Qed.

(* OER: whatever count N the quantity field announces, SEQUENCE OF NULL decodes to
   N elements and consumes the quantity field only *)
Theorem zero_width_oer tg s tg' bs N r :
  oer_get_quantity bs = Some (N, r) ->
  oer_dec (TSeqOf tg s (TNull tg')) bs = Some (null_list (Z.to_nat N), r).
Proof.
  intros H.
  change (oer_dec (TSeqOf tg s (TNull tg')) bs) with
    (match oer_get_quantity bs with
     | Some (n, r) =>
         match dec_items (oer_dec (TNull tg')) (Z.to_nat n) r with
         | Some (vs, r') => Some (VList vs, r')
         | None => None
         end
     | None => None
     end).
  rewrite H, oer_null_items. reflexivity.
Qed.

(* the linear bound is FALSE of the OER and UPER reference decoders: 3 (2) octets
   yield a value of size 65536 (16384).  This is the decompression bomb the C
   has to defuse with an explicit count guard. *)
Theorem heap_linear_oer_refuted :
  exists t bs v n, oer_decode t bs = Some (v, n) /\ n = 3 /\ vsize v = 65536.
Proof.
  exists (TSeqOf 64 (SCon 0 None false) (TNull 20)), [2; 255; 255], (null_list (Z.to_nat 65535)), 3.
  split; [|split; [reflexivity|]].
  - unfold oer_decode. rewrite (zero_width_oer _ _ _ _ 65535 []) by reflexivity. reflexivity.
  - rewrite vsize_null_list. reflexivity.
Qed.

Lemma uper_null_items std tg n : forall bs,
  dec_items (uper_dec std (TNull tg)) n bs = Some (repeat VNull n, bs).
Proof.
  induction n as [|n IH]; intros bs; cbn [dec_items repeat]; [reflexivity|].
  cbn [uper_dec]. rewrite IH. reflexivity.
Qed.

Theorem heap_linear_uper_refuted :
  exists t bs v n, uper_decode false t bs = Some (v, n) /\ n = 2 /\ vsize v = 16384.
Proof.
  exists (TSeqOf 64 (SCon 0 None false) (TNull 20)), [191; 255], (null_list (Z.to_nat 16383)), 2.
  split; [|split; [reflexivity|]].
  - vm_compute. reflexivity.
  - rewrite vsize_null_list. reflexivity.
Qed.
