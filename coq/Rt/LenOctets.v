(* Rt/LenOctets.v — the NUMBER of length octets of a long-form BER length
   (X.690 8.1.3.5): 1..126 subsequent octets, the minimum number is not
   required, so the octets may start with any count of zero octets; the first
   octet 0xFF is reserved.

   Leaf/BerTL.v bounds the VALUE while it accumulates (len < 2^55 before each
   shift), never the COUNT of octets: fetch_length reads
       0x80+k, z zero octets, the m octets of the true length        (k = z + m <= 126)
   back as the true length, for every k, also beyond the 8 octets of the C's
   ber_tlv_len_t.  ber_skip_length (Rt/SafetySkip.v) therefore skips a TLV
   with such a length.  A fetcher that bounds the count by the width of the
   length type (seeded/C03-10) is refuted.  Tie: lib/c03_lenk.py. *)
From Coq Require Import ZArith List Lia Bool.
From A1 Require Import Base.Bytes Leaf.BerTL Leaf.BerTLProofs Rt.BerVariants Rt.BerVariantsProofs Rt.SafetySkip.
Import ListNotations.
Local Open Scope Z_scope.

(* more octets than the value needs = leading zero octets *)
Lemma be_bytes_pad (z : nat) : forall (m : nat) (v : Z), 0 <= v < 256 ^ Z.of_nat m ->
  be_bytes (z + m) v = repeat 0 z ++ be_bytes m v.
Proof.
  induction z as [|z IH]; intros m v Hv.
  - reflexivity.
  - cbn [Nat.add be_bytes repeat app]. rewrite IH by exact Hv. f_equal.
    assert (256 ^ Z.of_nat m <= 256 ^ Z.of_nat (z + m)) by (apply Z.pow_le_mono_r; lia).
    rewrite Z.div_small by lia. reflexivity.
Qed.

(* the octets after the first one *)
Definition padded_len (z m : nat) (len : Z) : list Z := repeat 0 z ++ be_bytes m len.

Lemma padded_len_length z m len : length (padded_len z m len) = (z + m)%nat.
Proof. unfold padded_len. rewrite app_length, repeat_length, be_bytes_length. reflexivity. Qed.

Theorem fetch_length_padded (z m : nat) (len : Z) (rest : list Z) (c : bool) :
  (1 <= z + m <= 126)%nat -> 0 <= len < 256 ^ Z.of_nat m -> len <= rssize_max ->
  fetch_length c ((128 + Z.of_nat (z + m)) :: padded_len z m len ++ rest) = FOk len (S (z + m)).
Proof.
  intros Hk Hl Hr. unfold padded_len. rewrite <- be_bytes_pad by exact Hl.
  assert (256 ^ Z.of_nat m <= 256 ^ Z.of_nat (z + m)) by (apply Z.pow_le_mono_r; lia).
  apply fetch_length_long; [|lia].
  unfold long_ok.
  apply andb_true_iff; split; [apply andb_true_iff; split|].
  - apply Z.leb_le. lia.
  - apply Z.leb_le. lia.
  - apply Z.ltb_lt. lia.
Qed.

(* in the words of the task: 0x80+k, zeros, then the (minimal or not) octets of n *)
Corollary fetch_length_any_count (k m : nat) (len : Z) (rest : list Z) (c : bool) :
  (1 <= k <= 126)%nat -> (m <= k)%nat -> 0 <= len < 256 ^ Z.of_nat m -> len <= rssize_max ->
  fetch_length c ((128 + Z.of_nat k) :: repeat 0 (k - m) ++ be_bytes m len ++ rest) = FOk len (S k).
Proof.
  intros Hk Hm Hl Hr.
  pose proof (fetch_length_padded (k - m) m len rest c) as H.
  replace (k - m + m)%nat with k in H by lia. unfold padded_len in H. rewrite <- app_assoc in H.
  apply H; [lia|exact Hl|exact Hr].
Qed.

(* 127 "length octets": the reserved first octet *)
Theorem fetch_length_reserved (c : bool) (rest : list Z) : fetch_length c (255 :: rest) = FErr.
Proof. destruct c; reflexivity. Qed.

(* the skipper of unknown extension additions: a definite TLV body after a padded length *)
Theorem skip_length_padded (z m : nat) (content rest : list Z) (c : bool) :
  (1 <= z + m <= 126)%nat -> zlen content < 256 ^ Z.of_nat m -> zlen content <= rssize_max ->
  ber_skip_length c ((128 + Z.of_nat (z + m)) :: padded_len z m (zlen content) ++ content ++ rest)
  = SOk (S (z + m) + length content).
Proof.
  intros Hk Hl Hr. unfold ber_skip_length. cbn [skip_length].
  pose proof (zlen_nonneg content) as Hn.
  rewrite fetch_length_padded by (try assumption; lia).
  destruct (0 <=? zlen content) eqn:E0; [|apply Z.leb_gt in E0; lia].
  assert (Hz : zlen ((128 + Z.of_nat (z + m)) :: padded_len z m (zlen content) ++ content ++ rest)
               = 1 + Z.of_nat (z + m) + zlen content + zlen rest).
  { rewrite zlen_cons, !zlen_app. unfold zlen at 1. rewrite padded_len_length. lia. }
  rewrite Hz. pose proof (zlen_nonneg rest) as Hn2.
  destruct (Z.of_nat (S (z + m)) + zlen content <=? 1 + Z.of_nat (z + m) + zlen content + zlen rest) eqn:E1;
    [|apply Z.leb_gt in E1; lia].
  f_equal. unfold zlen. rewrite Nat2Z.id. reflexivity.
Qed.

(* ---- the mistake of seeded/C03-10 as a model: the count of octets is bounded by the width w of the
        length type (sizeof(ber_tlv_len_t) = 8), not the value ---- *)
Definition fetch_length_counted (w : Z) (c : bool) (buf : list Z) : fres :=
  match buf with
  | oct :: _ => if (128 <? oct) && (oct <? 255) && (w <? oct - 128) then FErr else fetch_length c buf
  | [] => FMore
  end.

Theorem counted_fetcher_refuted :
  exists (z m : nat) (len : Z), (1 <= z + m <= 126)%nat /\ 0 <= len < 256 ^ Z.of_nat m /\ len <= rssize_max /\
    fetch_length_counted 8 false ((128 + Z.of_nat (z + m)) :: padded_len z m len) <> FOk len (S (z + m)).
Proof.
  exists 8%nat, 1%nat, 6. split; [lia|]. split; [lia|]. split; [unfold rssize_max; lia|].
  vm_compute. discriminate.
Qed.
