(* Rt/HeapBound.v — C15: WHEN the UPER string and list decoders allocate.
   Executable definitions only (proofs: HeapBoundProofs.v).

   Rt/Uper.v gives the values the reference decoder returns ([get_sized]: a size
   determinant per SIZE constraint, then the items, with 16K fragmentation).
   It says nothing about the memory the C holds WHILE it decodes, and that is
   where a decoder can break the heap clause of C15 without changing a single
   decoded value: by sizing a buffer from what the TYPE declares (the upper
   bound of a SIZE range) instead of from what the INPUT has delivered.

   This file instruments [get_sized] with an allocation meter, following
   OCTET_STRING_decode_uper / BIT_STRING_decode_uper (strings) and
   SET_OF_decode_uper + asn_set_add (lists) statement by statement:

   strings   if(csiz->effective_bits >= 0) {            <- ub < 64K only
                 st->buf = MALLOC(mem(ub) + 1); }
             if(effective_bits == 0) { read ub units; return; }
             do { raw_len = uper_get_length(pd, effective_bits, lb, &repeat);
                  if(raw_len == 0 && st->buf) break;
                  p = REALLOC(st->buf, st->size + mem(raw_len) + 1);
                  read raw_len units;  st->size += mem(raw_len);
             } while(repeat);
   lists     do { nelems = count field | uper_get_length();
                  for(i < nelems) { element decoder allocates the element;
                                    asn_set_add (array doubles, first 4 slots);
                                    if(no bit consumed && nelems > 200) FAIL; }
             } while(repeat);

   [policy] selects the decision the check ties to the C: [PerFragment] = the code
   above, [PreallocUb] = "whenever the SIZE constraint has an upper bound, size the
   buffer (reserve the array) from it up front".  The decoded values are the same
   under both (HeapBoundProofs: erasure to [get_sized]); the heap is not.

   The meter follows harness/moddrv_c15.inc: realloc counts the old and the new
   block as live at the same time, [m_maxreq] is the largest single request
   (whether or not the allocator grants it). *)
From Coq Require Import ZArith List Bool.
From A1 Require Import Base.Bytes Rt.Types Rt.Comb Rt.Uper.
Import ListNotations.
Local Open Scope Z_scope.

Record meter := mkM { m_live : Z; m_peak : Z; m_maxreq : Z; m_allocs : Z }.

Definition m0 : meter := mkM 0 0 0 0.

Definition m_malloc (m : meter) (n : Z) : meter :=
  mkM (m_live m + n) (Z.max (m_peak m) (m_live m + n)) (Z.max (m_maxreq m) n) (m_allocs m + 1).

(* realloc of a block of [old] bytes (0 = NULL) to [n] bytes *)
Definition m_realloc (m : meter) (old n : Z) : meter :=
  mkM (m_live m - old + n) (Z.max (m_peak m) (m_live m + n)) (Z.max (m_maxreq m) n) (m_allocs m + 1).

Definition m_free (m : meter) (n : Z) : meter :=
  mkM (m_live m - n) (m_peak m) (m_maxreq m) (m_allocs m).

Inductive policy := PerFragment | PreallocUb.

(* bytes of [n] units: bpc = bytes per character (1, 2, 4); 0 = BIT STRING (n bits) *)
Definition mem_of (bpc : Z) (n : Z) : Z := if bpc =? 0 then (n + 7) / 8 else n * bpc.

Definition bsz (buf : option Z) : Z := match buf with Some b => b | None => 0 end.

(* ================================================================ strings *)
Section Str.
  Context {A : Type}.
  Variable item : list bool -> option (A * list bool).
  Variable mem : Z -> Z.
  (* the reference decoder refuses a constrained count above ub - lb; the C has no
     such test (it reads lb + n units): chk = true is [get_sized], chk = false the C *)
  Variable chk : bool.

  (* the fragment loop; [buf] = size of the block st->buf points to (None = NULL),
     [size] = st->size *)
  Fixpoint str_frags (fuel : nat) (m : meter) (buf : option Z) (size : Z) (bs : list bool)
    : option (list A * list bool) * meter :=
    match fuel with
    | O => (None, m)
    | S f =>
        match get_length bs with
        | None => (None, m)
        | Some (n, more, r) =>
            if (n =? 0) && (match buf with Some _ => true | None => false end) then (Some ([], r), m)
            else
              let nb := size + mem n + 1 in
              let m1 := m_realloc m (bsz buf) nb in
              match get_items item (Z.to_nat n) r with
              | None => (None, m1)
              | Some (x, r') =>
                  if more then
                    match str_frags f m1 (Some nb) (size + mem n) r' with
                    | (Some (y, r''), m2) => (Some (x ++ y, r''), m2)
                    | (None, m2) => (None, m2)
                    end
                  else (Some (x, r'), m1)
              end
        end
    end.

  Definition constrained (hi : option Z) : bool :=
    match hi with Some h => h <? 65536 | None => false end.

  Definition str_root (pol : policy) (lo : Z) (hi : option Z) (m : meter) (bs : list bool)
    : option (list A * list bool) * meter :=
    if constrained hi then
      match hi with
      | Some h =>
          let m1 := m_malloc m (mem h + 1) in
          let w := range_bits (h - lo + 1) in
          match get_bits w bs with
          | Some (n, r) =>
              if chk && negb (n <=? h - lo) then (None, m1)
              else
                let cnt := n + lo in
                (* effective_bits = 0: the fixed-size path fills the preallocated block;
                   otherwise one turn of the loop: break on 0, else REALLOC to the real size *)
                let m2 := if Nat.eqb w 0 || (cnt =? 0) then m1
                          else m_realloc m1 (mem h + 1) (mem cnt + 1) in
                match get_items item (Z.to_nat cnt) r with
                | Some (x, r') => (Some (x, r'), m2)
                | None => (None, m2)
                end
          | None => (None, m1)
          end
      | None => (None, m)
      end
    else
      match pol, hi with
      | PreallocUb, Some h =>
          str_frags (S (length bs)) (m_malloc m (mem h + 1)) (Some (mem h + 1)) 0 bs
      | _, _ => str_frags (S (length bs)) m None 0 bs
      end.

End Str.

(* [item_x] reads a unit in the extension branch of an extensible SIZE: the C then takes the
   type's DEFAULT constraints, `csiz = &asn_DEF_OCTET_STRING_constraints.size; unit_bits =
   canonical_unit_bits` (8 * bytes per character, whatever the permitted alphabet), and never
   pre-sizes.  For OCTET STRING (Rt/Uper.v) item_x = item. *)
Definition str_dec {A : Type} (item item_x : list bool -> option (A * list bool)) (mem : Z -> Z) (chk : bool)
    (pol : policy) (s : scon) (bs : list bool) : option (list A * list bool) * meter :=
  match s with
  | SCon lo hi ext =>
      if ext then
        match bs with
        | false :: r => str_root item mem chk pol lo hi m0 r
        | true :: r => str_frags item_x mem (S (length r)) m0 None 0 r
        | [] => (None, m0)
        end
      else str_root item mem chk pol lo hi m0 bs
  end.

(* ================================================================ lists *)
(* asn_anonymous_set_: count, allocated slots *)
Record lst := mkL { l_count : Z; l_cap : Z }.
Definition l0 : lst := mkL 0 0.

(* asn_set_add: _newsize = size ? size << 1 : 4; REALLOC(array, _newsize * sizeof(void * )) *)
Definition set_add (m : meter) (l : lst) : meter * lst :=
  if l_count l =? l_cap l then
    let nc := if l_cap l =? 0 then 4 else 2 * l_cap l in
    (m_realloc m (8 * l_cap l) (8 * nc), mkL (l_count l + 1) nc)
  else (m, mkL (l_count l + 1) (l_cap l)).

Section Lst.
  Context {A : Type}.
  Variable item : list bool -> option (A * list bool).
  Variable esz : Z.             (* bytes the element decoder allocates for one element *)
  Variable guard : bool.        (* the `no bit consumed && nelems > 200` test *)
  (* pd->moved == moved_before: "the element decoder consumed no bit".  A parameter so that
     a front end with fixed-width elements need not measure the rest of the input at every
     element; the theorems ask for [nobit bs r = (length r =? length bs)] on what [item] returns *)
  Variable nobit : list bool -> list bool -> bool.
  Variable chk : bool.

  (* for(i = 0; i < nelems; i++): [k] elements still to come of a batch of [nel] *)
  Fixpoint lst_items (nel : Z) (k : nat) (m : meter) (l : lst) (bs : list bool)
    : option (list A * list bool) * (meter * lst) :=
    match k with
    | O => (Some ([], bs), (m, l))
    | S k' =>
        match item bs with
        | None => (None, (m, l))
        | Some (a, r) =>
            let m1 := m_malloc m esz in
            let '(m2, l2) := set_add m1 l in
            if guard && nobit bs r && (200 <? nel) then (None, (m2, l2))
            else
              match lst_items nel k' m2 l2 r with
              | (Some (x, r'), ml) => (Some (a :: x, r'), ml)
              | (None, ml) => (None, ml)
              end
        end
    end.

  Fixpoint lst_frags (fuel : nat) (m : meter) (l : lst) (bs : list bool)
    : option (list A * list bool) * (meter * lst) :=
    match fuel with
    | O => (None, (m, l))
    | S f =>
        match get_length bs with
        | None => (None, (m, l))
        | Some (n, more, r) =>
            match lst_items n (Z.to_nat n) m l r with
            | (None, ml) => (None, ml)
            | (Some (x, r'), (m1, l1)) =>
                if more then
                  match lst_frags f m1 l1 r' with
                  | (Some (y, r''), ml) => (Some (x ++ y, r''), ml)
                  | (None, ml) => (None, ml)
                  end
                else (Some (x, r'), (m1, l1))
            end
        end
    end.

  Definition lst_root (pol : policy) (lo : Z) (hi : option Z) (m : meter) (bs : list bool)
    : option (list A * list bool) * (meter * lst) :=
    if constrained hi then
      match hi with
      | Some h =>
          match get_bits (range_bits (h - lo + 1)) bs with
          | Some (n, r) =>
              if chk && negb (n <=? h - lo) then (None, (m, l0))
              else lst_items (n + lo) (Z.to_nat (n + lo)) m l0 r
          | None => (None, (m, l0))
          end
      | None => (None, (m, l0))
      end
    else
      match pol, hi with
      | PreallocUb, Some h =>       (* reserve the array for the declared maximum *)
          lst_frags (S (length bs)) (m_malloc m (8 * h)) (mkL 0 h) bs
      | _, _ => lst_frags (S (length bs)) m l0 bs
      end.

  Definition lst_dec (pol : policy) (s : scon) (bs : list bool)
    : option (list A * list bool) * (meter * lst) :=
    match s with
    | SCon lo hi ext =>
        if ext then
          match bs with
          | false :: r => lst_root pol lo hi m0 r
          | true :: r => lst_frags (S (length r)) m0 l0 r
          | [] => (None, (m0, l0))
          end
        else lst_root pol lo hi m0 bs
    end.
End Lst.

(* ---------------- front ends for the check (ocaml/drv_c15x.ml) ---------------- *)
(* a character of [ub] bits: any value is accepted (the check feeds valid codes only) *)
Definition get_unit (ub : nat) (bs : list bool) : option (Z * list bool) := get_bits ub bs.

(* strings: outcome, bits left, meter.  ub = bits per unit in the encoding, bpc as [mem_of] *)
Definition c15_str (pol : policy) (ub : nat) (bpc : Z) (s : scon) (bs : list bool)
  : option (Z * Z) * meter :=
  let ubx := if bpc =? 0 then ub else Z.to_nat (8 * bpc) in
  match str_dec (get_unit ub) (get_unit ubx) (mem_of bpc) false pol s bs with
  | (Some (x, r), m) => (Some (zlen x, zlen r), m)
  | (None, m) => (None, m)
  end.

(* lists of fixed-width scalar elements ([ub] bits each, [esz] bytes in memory) *)
Definition nobit_len (bs r : list bool) : bool := (length r =? length bs)%nat.

Definition c15_lst (pol : policy) (ub : nat) (esz : Z) (s : scon) (bs : list bool)
  : option (Z * Z) * (meter * lst) :=
  match lst_dec (get_unit ub) esz true (fun _ _ => Nat.eqb ub 0) false pol s bs with
  | (Some (x, r), ml) => (Some (zlen x, zlen r), ml)
  | (None, ml) => (None, ml)
  end.
