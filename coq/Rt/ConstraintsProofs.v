(* Rt/ConstraintsProofs.v — C08: lemmas and theorems about Rt/Constraints.v. *)
From Coq Require Import ZArith List Lia Bool ZifyBool.
From A1 Require Import Rt.Types Fix.Crange Fix.CrangeProofs Rt.Constraints.
Import ListNotations.
Local Open Scope Z_scope.

(* ------------------------------------------------------------------ _asn_i_ctfailcb *)
Theorem errmsg_bounded : forall maxlen vlen : Z, 1 <= maxlen ->
  exists errlen nul, ctfail_clamp maxlen vlen = Some (errlen, nul) /\
    0 <= errlen <= maxlen - 1 /\ nul = errlen /\ 0 <= nul < maxlen /\
    (0 <= vlen < maxlen -> errlen = vlen) /\ (maxlen <= vlen -> errlen = maxlen - 1).
Proof.
  intros maxlen vlen H. unfold ctfail_clamp, broken_len.
  destruct (maxlen <=? 0) eqn:E0; [lia|].
  destruct (maxlen <=? vlen) eqn:E1.
  - exists (maxlen - 1), (maxlen - 1). repeat split; lia.
  - destruct (0 <=? vlen) eqn:E2.
    + exists vlen, vlen. repeat split; lia.
    + destruct (18 <? maxlen - 1) eqn:E3.
      * exists 18, 18. repeat split; lia.
      * exists (maxlen - 1), (maxlen - 1). repeat split; lia.
Qed.

Theorem errmsg_untouched : forall maxlen vlen : Z, maxlen <= 0 -> ctfail_clamp maxlen vlen = None.
Proof. intros. unfold ctfail_clamp. destruct (maxlen <=? 0) eqn:E; [reflexivity | lia]. Qed.
