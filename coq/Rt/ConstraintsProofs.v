(* Rt/ConstraintsProofs.v — C08: lemmas and theorems about Rt/Constraints.v.
   The interval algebra facts come from Fix/CrangeProofs.v (union_denotes:
   _range_union keeps the denotation). *)
From Coq Require Import ZArith List Lia Bool ZifyBool.
From A1 Require Import Rt.Types Fix.Crange Fix.CrangeProofs Rt.Constraints.
Import ListNotations.
Local Open Scope Z_scope.

(* ------------------------------------------------------------------ nested induction on cty *)
Section CtyInd.
  Variable P : cty -> Prop.
  Hypothesis HBool : P CBool.
  Hypothesis HNull : P CNull.
  Hypothesis HInt : forall ps exc, P (CInt ps exc).
  Hypothesis HOct : forall sz, P (COct sz).
  Hypothesis HSeq : forall ms, Forall P ms -> P (CSeq ms).
  Hypothesis HSeqOf : forall sz e, P e -> P (CSeqOf sz e).
  Hypothesis HChoice : forall alts, Forall P alts -> P (CChoice alts).
  Hypothesis HRef : forall g t, P t -> P (CRef g t).
  Hypothesis HOpt : forall t, P t -> P (COpt t).

  Fixpoint cty_ind' (t : cty) : P t :=
    match t with
    | CBool => HBool
    | CNull => HNull
    | CInt ps exc => HInt ps exc
    | COct sz => HOct sz
    | CSeq ms =>
        HSeq ms ((fix go (l : list cty) : Forall P l :=
                    match l with
                    | [] => Forall_nil P
                    | x :: r => Forall_cons x (cty_ind' x) (go r)
                    end) ms)
    | CSeqOf sz e => HSeqOf sz e (cty_ind' e)
    | CChoice alts =>
        HChoice alts ((fix go (l : list cty) : Forall P l :=
                         match l with
                         | [] => Forall_nil P
                         | x :: r => Forall_cons x (cty_ind' x) (go r)
                         end) alts)
    | CRef g t' => HRef g t' (cty_ind' t')
    | COpt t' => HOpt t' (cty_ind' t')
    end.
End CtyInd.

(* ------------------------------------------------------------------ reflection of the denotation *)
Lemma le_edge_iff : forall e z, le_edge e z = true <-> le_e e z.
Proof. destruct e; simpl; intros; [tauto | split; [discriminate | tauto] | lia]. Qed.
Lemma ge_edge_iff : forall e z, ge_edge e z = true <-> ge_e e z.
Proof. destruct e; simpl; intros; [split; [discriminate | tauto] | tauto | lia]. Qed.
Lemma in_pair_iff : forall p z, in_pair z p = true <-> inp p z.
Proof. intros. unfold in_pair, inp. rewrite andb_true_iff, le_edge_iff, ge_edge_iff. tauto. Qed.
Lemma in_parts_iff : forall ps z, in_parts ps z = true <-> inl ps z.
Proof.
  intros. unfold in_parts, inl. rewrite existsb_exists.
  split; intros [p [Hi Hp]]; exists p; split; auto; apply in_pair_iff; auto.
Qed.

Lemma wfpb_wfp : forall p, wfpb p = true -> wfp p.
Proof.
  intros [a b]. unfold wfpb, wfp. simpl. rewrite !andb_true_iff, !negb_true_iff. intros [[H1 H2] H3].
  repeat split.
  - intro E; rewrite E in H1; discriminate.
  - intro E; rewrite E in H2; discriminate.
  - lia.
Qed.
Lemma forallb_wfp : forall ps, forallb wfpb ps = true -> Forall wfp ps.
Proof. intros ps H. apply Forall_forall. intros p Hp. apply wfpb_wfp. rewrite forallb_forall in H. auto. Qed.

(* ------------------------------------------------------------------ emit_range_comparison_code *)
Definition nscond (ns : option Z) (z : Z) : Prop := forall s, ns = Some s -> s <= z.

Lemma emit1_spec : forall ns p z, wfp p -> nscond ns z ->
  match emit1 ns None p with
  | Some c => eval_cmp z c = true <-> inp p z
  | None => inp p z
  end.
Proof.
  intros ns [l r] z W N. destruct W as [W1 [W2 W3]]. simpl in *.
  apply ec_le in W3.
  unfold emit1, inp. simpl.
  destruct l as [| |a]; [| congruence |]; destruct r as [| |b]; try congruence; simpl in *.
  - (* MIN..MAX *) tauto.
  - (* MIN..b *) lia.
  - (* a..MAX *)
    destruct ns as [s|]; simpl.
    + pose proof (N s eq_refl). destruct (a <=? s) eqn:E; simpl; lia.
    + lia.
  - (* a..b *)
    destruct ns as [s|]; simpl.
    + pose proof (N s eq_refl). destruct (a <=? s) eqn:E; simpl.
      * lia.
      * destruct (a =? b) eqn:E2; simpl; lia.
    + destruct (a =? b) eqn:E2; simpl; lia.
Qed.

Definition parts_of (c : crange) : list ipair :=
  let '(l, r, els) := c in match els with [] => [(l, r)] | _ => els end.

Lemma eval_app : forall z a b, eval z (a ++ b) = eval z a || eval z b.
Proof. intros. unfold eval. apply existsb_app. Qed.

Lemma eval_flat : forall ns z els, Forall wfp els -> nscond ns z ->
  forallb (has_text ns) els = true ->
  (eval z (flat_map (fun p => opt_list (emit1 ns None p)) els) = true <-> inl els z).
Proof.
  intros ns z els W N. induction els as [|p tl IH]; intros H.
  - simpl. split; [discriminate | intro X; destruct (inl_nil _ X)].
  - inversion W as [|? ? Wp Wtl]; subst. simpl in H. apply andb_true_iff in H. destruct H as [Hp Ht].
    simpl. rewrite eval_app, orb_true_iff, inl_cons, (IH Wtl Ht).
    pose proof (emit1_spec ns p z Wp N) as E. unfold has_text in Hp.
    destruct (emit1 ns None p) as [c|]; [|discriminate]. simpl. unfold eval. simpl. rewrite orb_false_r. tauto.
Qed.

Lemma flat_nonnil : forall ns els, els <> [] -> forallb (has_text ns) els = true ->
  flat_map (fun p => opt_list (emit1 ns None p)) els <> [].
Proof.
  intros ns [|p tl] H F; [congruence|]. simpl in *. apply andb_true_iff in F. destruct F as [Hp _].
  unfold has_text in Hp. destruct (emit1 ns None p); [simpl; congruence | discriminate].
Qed.

Lemma emit_exact : forall ns c z, Forall wfp (parts_of c) -> nscond ns z ->
  (let '(l, r, els) := c in forallb (has_text ns) els = true) ->
  (emit ns None c = [] -> inl (parts_of c) z) /\
  (emit ns None c <> [] -> (eval z (emit ns None c) = true <-> inl (parts_of c) z)).
Proof.
  intros ns [[l r] els] z W N H. unfold emit, parts_of in *. destruct els as [|e tl].
  - inversion W as [|? ? Wp Wtl]; subst. pose proof (emit1_spec ns (l, r) z Wp N) as E.
    destruct (emit1 ns None (l, r)) as [c|]; simpl.
    + split; [discriminate|]. intros _. unfold eval. simpl. rewrite orb_false_r, inl_one. exact E.
    + split; [intros _; apply inl_one; exact E | congruence].
  - split.
    + intro X. exfalso. revert X. apply flat_nonnil; [congruence | exact H].
    + intros _. apply eval_flat; auto.
Qed.

Lemma emit_decide : forall ns c z, Forall wfp (parts_of c) -> nscond ns z ->
  (let '(l, r, els) := c in forallb (has_text ns) els = true) ->
  ((match emit ns None c with
    | [] => ROk
    | txt => if eval z txt then ROk else RFail WConstraint
    end) = ROk <-> inl (parts_of c) z).
Proof.
  intros ns c z W N H. destruct (emit_exact ns c z W N H) as [EE1 EE2].
  destruct (emit ns None c) as [|c0 txt] eqn:Et.
  - split; [intros _; apply EE1; reflexivity | reflexivity].
  - assert (NE : c0 :: txt <> []) by congruence. specialize (EE2 NE).
    destruct (eval z (c0 :: txt)); split; intro X; try reflexivity; try discriminate.
    + apply EE2; reflexivity.
    + apply EE2 in X. discriminate.
Qed.

(* ------------------------------------------------------------------ the range handed to the emitter *)
Lemma crange_of_spec : forall ps c, Forall wfp ps -> crange_of ps = Some c ->
  Forall wfp (parts_of c) /\ (forall z, inl (parts_of c) z <-> inl ps z) /\
  (let '(l, r, els) := c in els = [] \/ (exists a b t, els = a :: b :: t)).
Proof.
  intros ps c W H. destruct (union_denotes ps W) as [U1 U2]. unfold crange_of in H.
  destruct ps as [|p0 ps0]; [discriminate|].
  destruct (range_union (p0 :: ps0)) as [|q [|q2 tl]] eqn:E; [discriminate | |].
  - inversion H; subst. simpl. destruct q as [a b]. simpl. split; [exact U2|]. split; [exact U1 | left; reflexivity].
  - inversion H; subst. simpl. split; [exact U2|]. split; [exact U1 | right; eauto].
Qed.

Lemma crange_of_some : forall ps, ps <> [] -> crange_of ps <> None.
Proof.
  intros ps H. unfold crange_of. destruct ps as [|p0 ps0]; [congruence|].
  pose proof (range_union_nonnil (p0 :: ps0) H) as N.
  destruct (range_union (p0 :: ps0)) as [|q [|q2 tl]]; congruence.
Qed.

(* ------------------------------------------------------------------ C type selection facts *)
Lemma wide_sign : forall w l r els, fits_long w l r = KWide -> long_sign w (l, r, els) = -1.
Proof.
  intros w l r els. unfold fits_long, long_sign.
  destruct (is_val l && (0 <=? edge_val l) && (edge_val l <=? two31m1) && is_max r && negb w); [discriminate|].
  destruct (is_val l && (0 <=? edge_val l) && is_val r && (two31m1 <? edge_val r) && (edge_val r <=? two32m1)); [discriminate|].
  reflexivity.
Qed.
Lemma pos_sign_ulong : forall w l r els, 0 < long_sign w (l, r, els) -> fits_long w l r = KULong.
Proof.
  intros w l r els. unfold fits_long, long_sign.
  destruct (is_val l && (0 <=? edge_val l) && (edge_val l <=? two31m1) && is_max r && negb w); [reflexivity|].
  destruct (is_val l && (0 <=? edge_val l) && is_val r && (two31m1 <? edge_val r) && (edge_val r <=? two32m1)); [reflexivity|].
  lia.
Qed.

Lemma fin64_out : forall ps z, forallb fin64 ps = true -> int64 z = false -> in_parts ps z = false.
Proof.
  intros ps z F I. unfold in_parts. apply not_true_is_false. intro X. apply existsb_exists in X.
  destruct X as [[l r] [Hi Hp]]. rewrite forallb_forall in F. specialize (F _ Hi).
  unfold fin64, in_pair, int64, two63 in *. simpl in *.
  destruct l, r; simpl in *; try discriminate; lia.
Qed.

(* the sign shortcut: comparing the sign of the number decides (0..MAX) and (MIN..-1) *)
Lemma shortcut_exact : forall l r els z, sign_shortcut (l, r, els) = true ->
  ((match emit None None (l, r, els) with
    | [] => ROk
    | txt => if eval (sign_of z) txt then ROk else RFail WConstraint
    end) = ROk <-> inl (parts_of (l, r, els)) z).
Proof.
  intros l r els z H. unfold sign_shortcut in H. destruct els; [|discriminate].
  unfold parts_of. rewrite inl_one. unfold inp. simpl fst. simpl snd.
  apply orb_true_iff in H. destruct H as [H|H].
  - apply andb_true_iff in H. destruct H as [H Hr]. apply andb_true_iff in H. destruct H as [Hl H0].
    destruct l as [| |a]; try discriminate. destruct r; try discriminate. simpl in H0.
    assert (a = 0) by lia. subst a. unfold emit, emit1, sign_of. simpl.
    unfold eval. simpl. destruct (z <? 0) eqn:E; simpl; split; intro X; try reflexivity; try discriminate; lia.
  - apply andb_true_iff in H. destruct H as [H Hm1]. apply andb_true_iff in H. destruct H as [Hl Hr].
    destruct l; try discriminate. destruct r as [| |b]; try discriminate. simpl in Hm1.
    assert (b = -1) by lia. subst b. unfold emit, emit1, sign_of. simpl.
    unfold eval. simpl. destruct (z <? 0) eqn:E; simpl; split; intro X; try reflexivity; try discriminate; lia.
Qed.

(* ------------------------------------------------------------------ the generated INTEGER checker *)
(* exact when the value can be read out of its INTEGER_t, or when a value that cannot be read is
   outside the range anyway *)
Lemma int_check_exact_gen : forall w ps exc z, int_safe_core w ps exc = true -> int_repr w ps z = true ->
  (int_wide_ok w ps = true \/ int_readable w ps z = true) ->
  (int_check w ps z = ROk <-> sat_int ps exc z = true).
Proof.
  intros w ps exc z S R WR. unfold int_safe_core in S. apply andb_true_iff in S. destruct S as [S Sc].
  apply andb_true_iff in S. destruct S as [Sx Sw].
  assert (exc = []) as -> by (destruct exc; [reflexivity | discriminate]).
  pose proof (forallb_wfp _ Sw) as W.
  unfold sat_int. simpl. rewrite andb_true_r.
  unfold int_check, int_repr, int_wide_ok, int_readable in *.
  destruct (crange_of ps) as [c|] eqn:Ec.
  2:{ destruct ps as [|p0 ps0]; [tauto|]. exfalso. revert Ec. apply crange_of_some. congruence. }
  destruct (crange_of_spec ps c W Ec) as [Wc [Den Shape]].
  assert (SAT : (match ps with [] => true | _ :: _ => in_parts ps z end) = true <-> inl (parts_of c) z).
  { destruct ps as [|p0 ps0]; [discriminate|]. rewrite in_parts_iff. symmetry. apply Den. }
  rewrite SAT. clear SAT.
  destruct c as [[l r] els].
  rename Sc into Stext.
  destruct (is_min l && is_max r && negb (nonnil els)) eqn:Emm.
  - (* the single interval MIN..MAX: nothing generated *)
    apply andb_true_iff in Emm. destruct Emm as [Emm E3]. apply negb_true_iff in E3.
    destruct els; [|discriminate].
    apply andb_true_iff in Emm. destruct Emm as [E1 E2].
    destruct l; try discriminate. destruct r; try discriminate.
    simpl. split; [intros _|reflexivity]. apply inl_one. unfold inp. simpl. tauto.
  - set (sg := long_sign w (l, r, els)) in *.
    assert (N : nscond (if 0 <? sg then Some 0 else None) z).
    { intros s Hs. destruct (0 <? sg) eqn:Ep; [|discriminate]. inversion Hs; subst.
      assert (0 < sg) by lia. rewrite (pos_sign_ulong w l r els H) in R. unfold uint64 in R. lia. }
    pose proof (emit_decide (if 0 <? sg then Some 0 else None) (l, r, els) z Wc N Stext) as ED.
    unfold needs_read in *.
    destruct (fits_long w l r) eqn:Ek; simpl is_kwide in *; cbn [andb] in *.
    + (* long *) cbn [negb]. exact ED.
    + (* unsigned long *) cbn [negb]. exact ED.
    + (* INTEGER_t *)
      assert (Esg : sg = -1) by (apply wide_sign; exact Ek).
      destruct (sign_shortcut (l, r, els)) eqn:Esc; cbn [negb] in *.
      * (* the sign is compared *)
        replace (0 <? sg) with false by lia. apply shortcut_exact. exact Esc.
      * replace (0 <=? sg) with false in * by lia.
        destruct (int64 z) eqn:E64; cbn [negb].
        -- exact ED.
        -- destruct WR as [Swide|Rd]; [|discriminate].
           split; [discriminate|]. intro X. exfalso.
           apply Den in X. apply in_parts_iff in X. rewrite (fin64_out ps z Swide E64) in X. discriminate.
Qed.

Lemma int_check_exact : forall w ps exc z, int_safe w ps exc = true -> int_repr w ps z = true ->
  (int_check w ps z = ROk <-> sat_int ps exc z = true).
Proof.
  intros w ps exc z S R. unfold int_safe in S. apply andb_true_iff in S. destruct S as [S1 S2].
  apply int_check_exact_gen; auto.
Qed.

(* ------------------------------------------------------------------ half-open ranges, any finite bound *)
(* (MIN..b) and (a..MAX): the decision order of emit_range_comparison_code matters here, because
   the MIN / MAX edge carries value 0 (a range whose finite bound is 0 must not be taken for the
   single value 0). *)
Definition half_open (p : ipair) : bool :=
  (is_min (fst p) && is_val (snd p)) || (is_val (fst p) && is_max (snd p)).

Lemma crange_of_one : forall p, crange_of [p] = Some (fst p, snd p, []).
Proof. intros [l r]. reflexivity. Qed.

Lemma half_open_core : forall w p, half_open p = true -> int_safe_core w [p] [] = true.
Proof.
  intros w [l r] H. unfold half_open in H. simpl in H.
  unfold int_safe_core. rewrite crange_of_one. simpl fst. simpl snd.
  destruct l as [| |a]; destruct r as [| |b]; simpl in H; try discriminate.
  - (* MIN..b *) destruct w; reflexivity.
  - (* a..MAX *) reflexivity.
Qed.

Theorem half_open_exact : forall w p z, half_open p = true ->
  int_repr w [p] z = true -> int_readable w [p] z = true ->
  (int_check w [p] z = ROk <-> in_pair z p = true).
Proof.
  intros w p z H R Rd.
  pose proof (int_check_exact_gen w [p] [] z (half_open_core w p H) R (or_intror Rd)) as X.
  unfold sat_int in X. simpl in X. rewrite andb_true_r, orb_false_r in X. exact X.
Qed.

(* the text emitted for a half-open range: never the single-value test *)
Lemma half_open_text : forall ns p, half_open p = true ->
  match emit1 ns None p with
  | Some (CEq _) | Some (CBetween _ _) => False
  | Some (CLe v) => is_min (fst p) = true /\ v = edge_val (snd p)
  | Some (CGe v) => is_max (snd p) = true /\ v = edge_val (fst p)
  | None => is_max (snd p) = true /\ exists s, ns = Some s /\ edge_val (fst p) <= s
  end.
Proof.
  intros ns [l r] H. unfold half_open in H. simpl in H. unfold emit1. simpl fst. simpl snd.
  destruct l as [| |a]; destruct r as [| |b]; simpl in H; try discriminate; simpl.
  - auto.
  - destruct ns as [s|]; simpl.
    + destruct (a <=? s) eqn:E; simpl; [split; [reflexivity | exists s; split; [reflexivity | lia]] | auto].
    + auto.
Qed.

(* ------------------------------------------------------------------ the generated SIZE test *)
Lemma size_check_exact : forall sz n, size_safe sz = true -> 0 <= n ->
  (size_check sz n = ROk <-> sat_size sz n = true).
Proof.
  intros sz n S Hn. unfold size_safe in S. apply andb_true_iff in S. destruct S as [S Sc].
  apply andb_true_iff in S. destruct S as [Sw _].
  pose proof (forallb_wfp _ Sw) as W.
  unfold sat_size, size_check.
  destruct (crange_of sz) as [c|] eqn:Ec.
  2:{ destruct sz as [|p0 ps0]; [tauto|]. exfalso. revert Ec. apply crange_of_some. congruence. }
  destruct (crange_of_spec sz c W Ec) as [Wc [Den Shape]].
  assert (SAT : (match sz with [] => true | _ :: _ => in_parts sz n end) = true <-> inl (parts_of c) n).
  { destruct sz as [|p0 ps0]; [discriminate|]. rewrite in_parts_iff. symmetry. apply Den. }
  rewrite SAT. clear SAT.
  destruct c as [[l r] els].
  rename Sc into Stext.
  assert (N : nscond (Some 0) n) by (intros s Hs; inversion Hs; subst; exact Hn).
  destruct ((edge_val l =? 0) && is_max r && negb (nonnil els)) eqn:Ed.
  - apply andb_true_iff in Ed. destruct Ed as [Ed E3]. apply negb_true_iff in E3.
    destruct els; [|discriminate].
    apply andb_true_iff in Ed. destruct Ed as [E1 E2]. destruct r; try discriminate.
    simpl in Wc. inversion Wc as [|? ? Wp Wtl]; subst. destruct Wp as [W1 _]. simpl in W1.
    split; [intros _|reflexivity]. apply inl_one. unfold inp. simpl.
    destruct l; simpl in *; [tauto | congruence | lia].
  - exact (emit_decide (Some 0) (l, r, els) n Wc N Stext).
Qed.

(* ------------------------------------------------------------------ _asn_i_ctfailcb *)
Theorem errmsg_bounded : forall maxlen vlen : Z, 1 <= maxlen ->
  exists errlen nul, ctfail_clamp maxlen vlen = Some (errlen, nul) /\
    0 <= errlen <= maxlen - 1 /\ nul = errlen /\ 0 <= nul < maxlen /\
    (0 <= vlen < maxlen -> errlen = vlen) /\ (maxlen <= vlen -> errlen = maxlen - 1).
Proof.
  intros maxlen vlen H. unfold ctfail_clamp, broken_len.
  destruct (maxlen <=? 0) eqn:E0; [lia|].
  destruct (maxlen <=? vlen) eqn:E1.
  - exists (maxlen - 1), (maxlen - 1). repeat split; lia.
  - destruct (0 <=? vlen) eqn:E2.
    + exists vlen, vlen. repeat split; lia.
    + destruct (18 <? maxlen - 1) eqn:E3.
      * exists 18, 18. repeat split; lia.
      * exists (maxlen - 1), (maxlen - 1). repeat split; lia.
Qed.

Theorem errmsg_untouched : forall maxlen vlen : Z, maxlen <= 0 -> ctfail_clamp maxlen vlen = None.
Proof. intros. unfold ctfail_clamp. destruct (maxlen <=? 0) eqn:E; [reflexivity | lia]. Qed.

Lemma zlength_nonneg_l : forall A (l : list A), 0 <= zlength l.
Proof. intros. unfold zlength. lia. Qed.

(* what is in the caller's buffer afterwards, for EVERY buffer size (the message has no NUL inside) *)
Lemma msg_at_nonzero : forall msg j, Forall (fun c => c <> 0) msg -> 0 <= j < zlength msg -> msg_at msg j <> 0.
Proof.
  intros msg j F H. unfold msg_at, zlength in *. rewrite Forall_forall in F. apply F. apply nth_In. lia.
Qed.

Theorem errmsg_buffer_exact : forall (f : buffer) (maxlen : Z) (msg : list Z),
  1 <= maxlen -> Forall (fun c => c <> 0) msg ->
  exists errlen, snd (ctfail f maxlen msg) = Some errlen /\
    0 <= errlen < maxlen /\ errlen = Z.min (zlength msg) (maxlen - 1) /\
    fst (ctfail f maxlen msg) errlen = 0 /\                                      (* terminated at errbuf[*errlen] *)
    (forall j, 0 <= j < errlen -> fst (ctfail f maxlen msg) j = msg_at msg j /\
                                  fst (ctfail f maxlen msg) j <> 0) /\            (* a prefix of the message; strlen = *errlen *)
    (forall j, j < 0 \/ errlen < j -> fst (ctfail f maxlen msg) j = f j).         (* nothing else is written, inside or beyond *)
Proof.
  intros f maxlen msg H F. pose proof (zlength_nonneg_l _ msg) as L.
  unfold ctfail, ctfail_clamp. destruct (maxlen <=? 0) eqn:E0; [lia|].
  destruct (maxlen <=? zlength msg) eqn:E1.
  - exists (maxlen - 1). simpl. unfold write, vsnprintf_into.
    replace (Z.min (zlength msg) (maxlen - 1)) with (maxlen - 1) by lia.
    split; [reflexivity|]. split; [lia|]. split; [reflexivity|]. split; [rewrite Z.eqb_refl; reflexivity|]. split.
    + intros j Hj. replace (j =? maxlen - 1) with false by lia.
      replace ((0 <=? j) && (j <? maxlen - 1)) with true by lia.
      split; [reflexivity | apply msg_at_nonzero; [exact F | lia]].
    + intros j Hj. replace (j =? maxlen - 1) with false by lia.
      replace ((0 <=? j) && (j <? maxlen - 1)) with false by lia. reflexivity.
  - replace (0 <=? zlength msg) with true by lia.
    exists (zlength msg). simpl. unfold write, vsnprintf_into.
    replace (Z.min (zlength msg) (maxlen - 1)) with (zlength msg) by lia.
    split; [reflexivity|]. split; [lia|]. split; [reflexivity|]. split; [rewrite Z.eqb_refl; reflexivity|]. split.
    + intros j Hj. replace (j =? zlength msg) with false by lia.
      replace ((0 <=? j) && (j <? zlength msg)) with true by lia.
      split; [reflexivity | apply msg_at_nonzero; [exact F | lia]].
    + intros j Hj. replace (j =? zlength msg) with false by lia.
      replace ((0 <=? j) && (j <? zlength msg)) with false by lia. reflexivity.
Qed.

Theorem errmsg_buffer_untouched : forall (f : buffer) (maxlen : Z) (msg : list Z),
  maxlen <= 0 -> ctfail f maxlen msg = (f, None).
Proof. intros. unfold ctfail. rewrite errmsg_untouched; auto. Qed.

(* ------------------------------------------------------------------ walkers *)
Definition exact_at (w : bool) (t : cty) : Prop :=
  forall slot v, safe w t slot = true -> repr w t v = true ->
    (chk w t slot v = ROk <-> satisfies t v = true).

Lemma res_false : forall w, RFail w = ROk <-> false = true.
Proof. intros; split; discriminate. Qed.

Lemma opt_free_none : forall t, opt_free_head t = true -> satisfies t VNone = false.
Proof. induction t; simpl; intros; try reflexivity; try discriminate; auto. Qed.

Lemma not_opt_none : forall w m, is_copt m = false -> safe w m true = true -> satisfies m VNone = false.
Proof.
  intros w m E S. destruct m; simpl in *; try reflexivity; try discriminate.
  apply andb_true_iff in S. destruct S as [S _]. apply opt_free_none. exact S.
Qed.

Lemma members_exact : forall w ms, Forall (exact_at w) ms -> forall vs,
  forallb (fun m => safe w m true) ms = true -> all2 (repr w) ms vs = true ->
  (walk_members (fun m x => chk w m true x) ms vs = ROk <-> all2 satisfies ms vs = true).
Proof.
  intros w. induction ms as [|m ms' IH]; intros F vs S R.
  - destruct vs; simpl; [tauto | apply res_false].
  - destruct vs as [|v vs']; [simpl; apply res_false|].
    inversion F as [|? ? Pm Fms]; subst.
    simpl in S. apply andb_true_iff in S. destruct S as [Sm Sms].
    simpl in R. apply andb_true_iff in R. destruct R as [Rm Rms].
    specialize (IH Fms vs' Sms Rms).
    assert (PRES : v <> VNone ->
      ((match chk w m true v with ROk => walk_members (fun m x => chk w m true x) ms' vs' | e => e end) = ROk
       <-> satisfies m v && all2 satisfies ms' vs' = true)).
    { intros _. specialize (Pm true v Sm Rm).
      destruct (chk w m true v) eqn:Ec.
      - destruct Pm as [P1 _]. rewrite (P1 eq_refl). simpl. exact IH.
      - destruct (satisfies m v) eqn:Es; [destruct Pm as [_ P2]; specialize (P2 eq_refl); discriminate|].
        simpl. apply res_false. }
    destruct v; try (simpl; apply PRES; discriminate).
    (* VNone *)
    simpl. destruct (is_copt m) eqn:Ec.
    + destruct m; try discriminate. simpl. exact IH.
    + rewrite (not_opt_none w m Ec Sm). simpl. apply res_false.
Qed.

Lemma elems_exact : forall w e, exact_at w e -> safe w e true = true -> forall vs,
  forallb (repr w e) vs = true ->
  (walk_elems (chk w e true) vs = ROk <-> forallb (satisfies e) vs = true).
Proof.
  intros w e P S. induction vs as [|v r IH]; intros R; simpl; [tauto|].
  simpl in R. apply andb_true_iff in R. destruct R as [Rv Rr].
  specialize (P true v S Rv). specialize (IH Rr).
  destruct (chk w e true v) eqn:Ec.
  - destruct P as [P1 _]. rewrite (P1 eq_refl). simpl. exact IH.
  - destruct (satisfies e v) eqn:Es; [destruct P as [_ P2]; specialize (P2 eq_refl); discriminate|].
    simpl. apply res_false.
Qed.

Lemma alt_exact : forall w alts, Forall (exact_at w) alts -> forall i v,
  forallb (fun a => safe w a true) alts = true -> pick (repr w) true v alts i = true ->
  (pick (fun a x => chk w a true x) (RFail WNoAlt) v alts i = ROk <-> pick satisfies false v alts i = true).
Proof.
  intros w. induction alts as [|a r IH]; intros F i v S R.
  - destruct i; simpl; apply res_false.
  - inversion F as [|? ? Pa Fr]; subst. simpl in S. apply andb_true_iff in S. destruct S as [Sa Sr].
    destruct i as [|j]; simpl in *.
    + apply Pa; auto.
    + apply IH; auto.
Qed.

Lemma zlength_nonneg : forall A (l : list A), 0 <= zlength l.
Proof. intros. unfold zlength. lia. Qed.

(* ------------------------------------------------------------------ check_exact *)
Theorem chk_exact : forall w t, exact_at w t.
Proof.
  intros w. induction t using cty_ind'; unfold exact_at; intros slot v S R.
  - destruct v; simpl; try apply res_false; tauto.
  - destruct v; simpl; try apply res_false; tauto.
  - destruct v; simpl; try apply res_false. simpl in S, R. apply int_check_exact; auto.
  - destruct v; simpl; try apply res_false. simpl in S. apply size_check_exact; auto. apply zlength_nonneg.
  - destruct v; simpl; try apply res_false. simpl in S, R.
    apply members_exact; auto.
  - destruct v; simpl; try apply res_false. simpl in S, R.
    apply andb_true_iff in S. destruct S as [S Se]. apply andb_true_iff in S. destruct S as [Ssz Sslot].
    pose proof (elems_exact w t IHt Se vs R) as EL.
    pose proof (size_check_exact sz (zlength vs) Ssz (zlength_nonneg _ vs)) as SZ.
    destruct slot.
    + destruct (size_check sz (zlength vs)) eqn:Ec.
      * destruct SZ as [Z1 _]. rewrite (Z1 eq_refl). simpl. exact EL.
      * destruct (sat_size sz (zlength vs)) eqn:Es; [destruct SZ as [_ Z2]; specialize (Z2 eq_refl); discriminate|].
        simpl. apply res_false.
    + simpl in Sslot. apply negb_true_iff in Sslot. destruct sz; [|discriminate]. simpl. exact EL.
  - destruct v; simpl; try apply res_false. simpl in S, R. apply alt_exact; auto.
  - simpl in S, R. apply andb_true_iff in S. destruct S as [_ S].
    replace (chk w (CRef g t) slot v) with (chk w t g v) by (destruct v; reflexivity).
    replace (satisfies (CRef g t) v) with (satisfies t v) by (destruct v; reflexivity).
    replace (repr w (CRef g t) v) with (repr w t v) in R by (destruct v; reflexivity).
    apply IHt; auto.
  - destruct v; simpl; try apply res_false; try tauto. simpl in S, R. apply IHt; auto.
Qed.

(* asn_check_constraints on a definition accepts exactly the satisfying values, inside the safe region *)
Theorem check_exact_partial : forall w t v, safe w t false = true -> repr w t v = true ->
  (check w t v = ROk <-> satisfies t v = true).
Proof. intros. unfold check. apply chk_exact; auto. Qed.

Corollary check_ok_exact_partial : forall w t v, safe w t false = true -> repr w t v = true ->
  check_ok w t v = satisfies t v.
Proof.
  intros w t v S R. pose proof (check_exact_partial w t v S R) as H. unfold check_ok.
  destruct (check w t v); destruct (satisfies t v); try reflexivity.
  - destruct H as [H _]. specialize (H eq_refl). discriminate.
  - destruct H as [_ H]. specialize (H eq_refl). discriminate.
Qed.

(* the walker is a structural fixpoint on the type: every call descends into a strict
   sub-term of the type and consumes one node of the value, so there is no fuel and an
   outcome exists for every type and every value *)
Theorem check_total : forall w t v, exists r, check w t v = r.
Proof. intros. eexists. reflexivity. Qed.

(* ------------------------------------------------------------------ Rt.Types: single ranges *)
Lemma icon_parts_sat : forall c z, icon_ext c = false -> sat_int (icon_parts c) [] z = in_icon c z.
Proof.
  intros [[l|] [h|] e] z E; simpl in E; subst e; simpl; unfold sat_int, in_parts, in_pair; simpl;
    rewrite ?orb_false_r, ?andb_true_r; reflexivity.
Qed.
Lemma scon_parts_sat : forall s n, scon_ext s = false -> 0 <= n -> sat_size (scon_parts s) n = in_scon s n.
Proof.
  intros [lo [h|] e] n E Hn; simpl in E; subst e; unfold scon_parts.
  - destruct lo; simpl; unfold sat_size, in_parts, in_pair; simpl; rewrite ?orb_false_r; reflexivity.
  - destruct lo; simpl; unfold sat_size, in_parts, in_pair; simpl; rewrite ?orb_false_r, ?andb_true_r; try reflexivity.
    symmetry. apply Z.leb_le. exact Hn.
Qed.

Corollary check_exact_of_ty_partial : forall w (t : ty) v, safe w (of_ty t) false = true -> repr w (of_ty t) v = true ->
  (check w (of_ty t) v = ROk <-> satisfies (of_ty t) v = true).
Proof. intros. apply check_exact_partial; auto. Qed.

(* ------------------------------------------------------------------ outside the safe region: witnesses *)
Definition iv (a b : Z) : ipair := (EV a, EV b).

(* T ::= SEQUENCE (SIZE(2..3)) OF BOOLEAN, { TRUE } *)
Lemma refuted_of_size_unchecked : exists t v,
  repr false t v = true /\ check false t v = ROk /\ satisfies t v = false.
Proof. exists (CSeqOf [iv 2 3] CBool), (VList [VBool true]). vm_compute. auto. Qed.

(* INTEGER (1..10 EXCEPT 5), 5 *)
Lemma refuted_except_ignored : exists t v,
  repr false t v = true /\ check false t v = ROk /\ satisfies t v = false.
Proof. exists (CInt [iv 1 10] [iv 5 5]), (VInt 5). vm_compute. auto. Qed.

(* INTEGER (MIN..1099511627776), -2^70: rejected although it satisfies *)
Lemma refuted_wide_open_range : exists t v,
  repr false t v = true /\ check false t v = RFail WTooLarge /\ satisfies t v = true.
Proof. exists (CInt [(EMin, EV 1099511627776)] []), (VInt (-1180591620717411303424)). vm_compute. auto. Qed.

(* the full statement is false of the code *)
Theorem check_exact_refuted : exists t v, repr false t v = true /\ check_ok false t v <> satisfies t v.
Proof. exists (CSeqOf [iv 2 3] CBool), (VList [VBool true]). vm_compute. split; [reflexivity | discriminate]. Qed.

(* ------------------------------------------------------------------ non-vacuity *)
Definition ex_ty : cty :=
  CSeq [CInt [iv 1 10; iv 20 30] []; COct [iv 1 2; iv 5 6];
        CSeqOf [iv 2 3] (CInt [(EV 0, EMax)] []); COpt (CInt [iv 0 4294967294] []);
        CChoice [CInt [(EMin, EV 10)] []; CRef true (CSeqOf [iv 1 1] CBool); CRef false (CSeq [CBool])]].
Example ex_safe : safe false ex_ty false = true /\ safe true ex_ty false = false.
Proof. vm_compute. auto. Qed.
Example ex_accept :
  let v := VSeq [VInt 25; VOct [1; 2; 3; 4; 5]; VList [VInt 0; VInt 7]; VNone; VChoice 1 (VList [VBool true])] in
  repr false ex_ty v = true /\ check false ex_ty v = ROk /\ satisfies ex_ty v = true.
Proof. vm_compute. auto. Qed.
Example ex_reject :
  let v := VSeq [VInt 25; VOct [1; 2; 3; 4; 5]; VList [VInt 0; VInt 7]; VSome (VInt 4294967295); VChoice 2 (VSeq [VBool false])] in
  repr false ex_ty v = true /\ check false ex_ty v = RFail WConstraint /\ satisfies ex_ty v = false.
Proof. vm_compute. auto. Qed.
(* the shapes of three repaired defects are inside [safe] and decided as the Spec says:
   a later SEQUENCE member behind one without a checker of its own; a value in the hole of a union whose
   hull is MIN..MAX (value and SIZE); INTEGER (0..4294967295) above 2^32-1 *)
Example ex_repaired :
  safe false (CSeq [CBool; CInt [iv 1 10] []]) false = true /\
  check false (CSeq [CBool; CInt [iv 1 10] []]) (VSeq [VBool true; VInt 99]) = RFail WConstraint /\
  safe false (CInt [(EMin, EV 5); (EV 10, EMax)] []) false = true /\
  check false (CInt [(EMin, EV 5); (EV 10, EMax)] []) (VInt 7) = RFail WConstraint /\
  check false (CInt [(EMin, EV 5); (EV 10, EMax)] []) (VInt 10) = ROk /\
  safe false (COct [iv 0 0; (EV 4, EMax)]) false = true /\
  check false (COct [iv 0 0; (EV 4, EMax)]) (VOct [1; 2]) = RFail WConstraint /\
  safe false (CInt [iv 0 4294967295] []) false = true /\
  check false (CInt [iv 0 4294967295] []) (VInt 4294967296) = RFail WConstraint /\
  check false (CInt [iv 0 4294967295] []) (VInt 4294967295) = ROk.
Proof. vm_compute. auto 12. Qed.

(* the finite bound 0 next to a MIN / MAX edge (whose .value is 0 as well): still an inequality *)
Example ex_half_open_zero :
  emit1 None None (EMin, EV 0) = Some (CLe 0) /\ emit1 None None (EV 0, EMax) = Some (CGe 0) /\
  emit1 (Some 0) None (EV 0, EMax) = None /\ emit1 None None (EV 0, EV 0) = Some (CEq 0) /\
  int_check false [(EMin, EV 0)] (-1) = ROk /\ int_check true [(EV 0, EMax)] 5 = ROk /\
  int_check true [(EV 0, EMax)] (-5) = RFail WConstraint /\ int_check false [(EMin, EV 0)] 1 = RFail WConstraint.
Proof. vm_compute. auto 10. Qed.
Example ex_clamp : ctfail_clamp 8 40 = Some (7, 7) /\ ctfail_clamp 64 40 = Some (40, 40) /\ ctfail_clamp 8 (-1) = Some (7, 7) /\
                   ctfail_clamp 64 (-1) = Some (18, 18) /\ ctfail_clamp 1 40 = Some (0, 0) /\ ctfail_clamp 0 40 = None.
Proof. vm_compute. auto 10. Qed.
