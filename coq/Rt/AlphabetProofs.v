(* Rt/AlphabetProofs.v — C08: proofs about the permitted-alphabet table and checker (Rt/Alphabet.v).
   Everything is by induction over the alphabet (a list of intervals of any length) and over
   the cells; nothing is computed over samples except the refuted witnesses. *)
From Coq Require Import ZArith List Bool Lia ZifyBool.
From A1 Require Import Fix.Crange Rt.Constraints Rt.Alphabet.
Import ListNotations.
Local Open Scope Z_scope.

(* ------------------------------------------------------------------ zseq, lookup *)
Lemma zseq_length : forall k from, length (zseq from k) = k.
Proof. induction k; intros; cbn; [reflexivity | rewrite IHk; reflexivity]. Qed.

Lemma zseq_nth : forall k from i d, (i < k)%nat -> nth i (zseq from k) d = from + Z.of_nat i.
Proof.
  induction k; intros from i d H; [lia |].
  destruct i; cbn [zseq nth]; [lia |].
  rewrite IHk by lia. lia.
Qed.

Lemma zseq_snoc : forall k from, zseq from (S k) = zseq from k ++ [from + Z.of_nat k].
Proof.
  induction k; intros from.
  - cbn. f_equal. lia.
  - change (zseq from (S (S k))) with (from :: zseq (from + 1) (S k)).
    rewrite IHk. cbn [zseq app]. do 3 f_equal. lia.
Qed.

Lemma zseq_In : forall k from x, In x (zseq from k) <-> from <= x < from + Z.of_nat k.
Proof.
  induction k; intros from x; cbn [zseq In].
  - lia.
  - rewrite IHk. lia.
Qed.

Lemma lookup_cells : forall (f : Z -> Z) n c, 0 <= c ->
  lookup (map f (zseq 0 n)) c = if c <? Z.of_nat n then f c else 0.
Proof.
  intros f n c Hc. unfold lookup.
  destruct (c <? Z.of_nat n) eqn:E.
  - assert (Hlt : (Z.to_nat c < n)%nat) by lia.
    rewrite nth_indep with (d' := f 0) by (rewrite map_length, zseq_length; exact Hlt).
    rewrite map_nth, zseq_nth by exact Hlt. f_equal. lia.
  - apply nth_overflow. rewrite map_length, zseq_length. lia.
Qed.

(* ------------------------------------------------------------------ the fill loops *)
Lemma fill_run_spec : forall k v n t,
  snd (fill_run k v n t) = n + Z.of_nat k /\
  forall j, fst (fill_run k v n t) j =
            if (v <=? j) && (j <? v + Z.of_nat k) then n + (j - v) + 1 else t j.
Proof.
  induction k; intros v n t.
  - cbn [fill_run fst snd]. split; [lia |]. intros j.
    destruct ((v <=? j) && (j <? v + Z.of_nat 0)) eqn:E; [lia | reflexivity].
  - cbn [fill_run]. destruct (IHk (v + 1) (n + 1) (upd t v (n + 1))) as [Hn Ht].
    split; [rewrite Hn; lia |]. intros j. rewrite Ht. unfold upd.
    destruct ((v + 1 <=? j) && (j <? v + 1 + Z.of_nat k)) eqn:E1;
      destruct ((v <=? j) && (j <? v + Z.of_nat (S k))) eqn:E2;
      destruct (j =? v) eqn:E3; try lia; reflexivity.
Qed.

(* number of members of a (sorted) alphabet that are <= j, by recursion over the intervals *)
Fixpoint rank_rec (a : alphabet) (j : Z) : Z :=
  match a with
  | [] => 0
  | r :: tl =>
      if j <? fst r then 0
      else if j <=? snd r then j - fst r + 1
      else (snd r - fst r + 1) + rank_rec tl j
  end.

Lemma in_alpha_cons : forall r tl c, in_alpha (r :: tl) c = in_run c r || in_alpha tl c.
Proof. reflexivity. Qed.

Lemma wf_from_weaken : forall a lo lo', lo' <= lo -> wf_from lo a -> wf_from lo' a.
Proof. destruct a; cbn; intros; [exact I | intuition lia]. Qed.

Lemma in_alpha_lb : forall a lo c, wf_from lo a -> in_alpha a c = true -> lo <= c.
Proof.
  induction a as [| r tl IH]; intros lo c Hwf Hin; cbn in *; [discriminate |].
  destruct Hwf as (H1 & H2 & H3).
  apply orb_true_iff in Hin. destruct Hin as [Hin | Hin].
  - unfold in_run in Hin. lia.
  - specialize (IH _ _ H3 Hin). lia.
Qed.

Lemma rank_rec_nonneg : forall a lo j, wf_from lo a -> 0 <= rank_rec a j.
Proof.
  induction a as [| r tl IH]; intros lo j Hwf; cbn in *; [lia |].
  destruct Hwf as (H1 & H2 & H3). specialize (IH _ j H3).
  destruct (j <? fst r) eqn:E1; [lia |]. destruct (j <=? snd r) eqn:E2; lia.
Qed.

Lemma rank_rec_pos : forall a lo j, wf_from lo a -> in_alpha a j = true -> 1 <= rank_rec a j.
Proof.
  induction a as [| r tl IH]; intros lo j Hwf Hin; cbn in *; [discriminate |].
  destruct Hwf as (H1 & H2 & H3).
  apply orb_true_iff in Hin. destruct Hin as [Hin | Hin].
  - unfold in_run in Hin. destruct (j <? fst r) eqn:E1; [lia |]. destruct (j <=? snd r) eqn:E2; lia.
  - pose proof (in_alpha_lb _ _ _ H3 Hin). specialize (IH _ _ H3 Hin).
    destruct (j <? fst r) eqn:E1; [lia |]. destruct (j <=? snd r) eqn:E2; lia.
Qed.

(* the table after the loops, cell by cell *)
Lemma fill_spec : forall a lo n t, wf_from lo a ->
  forall j, fst (fill a n t) j = if in_alpha a j then n + rank_rec a j else t j.
Proof.
  induction a as [| r tl IH]; intros lo n t Hwf j; cbn [fill in_alpha existsb rank_rec fst].
  - reflexivity.
  - destruct Hwf as (H1 & H2 & H3).
    destruct (fill_run (Z.to_nat (snd r - fst r + 1)) (fst r) n t) as [t' n'] eqn:EF.
    pose proof (fill_run_spec (Z.to_nat (snd r - fst r + 1)) (fst r) n t) as [Hn Ht].
    rewrite EF in Hn, Ht. cbn [fst snd] in Hn, Ht.
    rewrite (IH _ n' t' H3 j). rewrite Ht.
    fold (in_alpha tl j).
    destruct (in_alpha tl j) eqn:Etl.
    + pose proof (in_alpha_lb _ _ _ H3 Etl).
      replace (in_run j r) with false by (unfold in_run; lia). cbn [orb].
      destruct (j <? fst r) eqn:E1; [lia |]. destruct (j <=? snd r) eqn:E2; lia.
    + rewrite orb_false_r. unfold in_run.
      destruct ((fst r <=? j) && (j <=? snd r)) eqn:E.
      * replace ((fst r <=? j) && (j <? fst r + Z.of_nat (Z.to_nat (snd r - fst r + 1)))) with true by lia.
        destruct (j <? fst r) eqn:E1; [lia |]. destruct (j <=? snd r) eqn:E2; lia.
      * replace ((fst r <=? j) && (j <? fst r + Z.of_nat (Z.to_nat (snd r - fst r + 1)))) with false by lia.
        reflexivity.
Qed.

Lemma table_fn_spec : forall a j, wf_from 0 a ->
  table_fn a j = if in_alpha a j then rank_rec a j else 0.
Proof. intros a j H. unfold table_fn. rewrite (fill_spec a 0 0 _ H j). destruct (in_alpha a j); lia. Qed.

Lemma table_fn_nonzero : forall a j, wf_from 0 a -> nonzero (table_fn a j) = in_alpha a j.
Proof.
  intros a j H. rewrite table_fn_spec by exact H. unfold nonzero.
  destruct (in_alpha a j) eqn:E; [| reflexivity].
  pose proof (rank_rec_pos _ _ _ H E). lia.
Qed.

(* ------------------------------------------------------------------ range_stop and the rounding *)
Lemma in_alpha_ub : forall a lo c, wf_from lo a -> in_alpha a c = true -> c <= alpha_stop a.
Proof.
  induction a as [| r tl IH]; intros lo c Hwf Hin; cbn in Hin; [discriminate |].
  destruct Hwf as (H1 & H2 & H3).
  unfold alpha_stop. destruct tl as [| r2 tl2].
  - cbn in *. unfold in_run in Hin. lia.
  - change (last (r :: r2 :: tl2) (0, 0)) with (last (r2 :: tl2) (0, 0)).
    fold (alpha_stop (r2 :: tl2)).
    apply orb_true_iff in Hin. destruct Hin as [Hin | Hin].
    + assert (Hs : in_alpha (r2 :: tl2) (fst r2) = true).
      { destruct H3 as (A & B & C). cbn. unfold in_run. apply orb_true_iff. left. lia. }
      specialize (IH _ _ H3 Hs). destruct H3 as (A & B & C). unfold in_run in Hin. lia.
    + exact (IH _ _ H3 Hin).
Qed.

Lemma alpha_stop_member : forall a lo, a <> [] -> wf_from lo a -> in_alpha a (alpha_stop a) = true.
Proof.
  induction a as [| r tl IH]; intros lo Hne Hwf; [congruence |].
  destruct Hwf as (H1 & H2 & H3). unfold alpha_stop. destruct tl as [| r2 tl2].
  - cbn. unfold in_run. lia.
  - change (last (r :: r2 :: tl2) (0, 0)) with (last (r2 :: tl2) (0, 0)).
    fold (alpha_stop (r2 :: tl2)). rewrite in_alpha_cons.
    rewrite (IH _ ltac:(discriminate) H3). apply orb_true_r.
Qed.

Lemma alpha_stop_nonneg : forall a, wf_alpha a -> 0 <= alpha_stop a.
Proof.
  intros a [Hne Hwf]. pose proof (alpha_stop_member a 0 Hne Hwf) as H.
  exact (in_alpha_lb _ _ _ Hwf H).
Qed.

Lemma round16_count_spec : forall stop, 0 <= stop ->
  stop + 1 <= round16_count stop < stop + 17 /\ round16_count stop mod 16 = 0.
Proof.
  intros stop H. unfold round16_count. cbv zeta.
  pose proof (Z.mod_pos_bound (stop + 1) 16 ltac:(lia)) as Hb.
  pose proof (Z.div_mod (stop + 1) 16 ltac:(lia)) as Hd.
  destruct ((stop + 1) mod 16 =? 0) eqn:E.
  - split; [lia |]. replace (stop + 1 + 0) with (stop + 1) by lia. lia.
  - split; [lia |].
    replace (stop + 1 + (16 - (stop + 1) mod 16)) with (((stop + 1) / 16 + 1) * 16) by lia.
    apply Z.mod_mul. lia.
Qed.

(* the wrong rounding agrees with the right one unless range_stop is a multiple of 16; then it
   stops exactly AT range_stop: the cell of the highest permitted character is not printed *)
Lemma round16_distance_spec : forall stop, 0 <= stop ->
  (stop mod 16 <> 0 -> round16_distance stop = round16_count stop) /\
  (stop mod 16 = 0 -> round16_distance stop = stop).
Proof.
  intros stop H. unfold round16_distance, round16_count. cbv zeta.
  pose proof (Z.mod_pos_bound stop 16 ltac:(lia)) as Hb.
  pose proof (Z.div_mod stop 16 ltac:(lia)) as Hd.
  set (q := stop / 16) in *. set (m := stop mod 16) in *.
  split; intros Hm.
  - assert (E1 : (stop + 15) / 16 = q + 1).
    { symmetry. apply (Z.div_unique (stop + 15) 16 (q + 1) (m - 1)); lia. }
    rewrite E1.
    destruct (Z.eq_dec m 15) as [E15 | N15].
    + assert (E2 : (stop + 1) mod 16 = 0).
      { symmetry. apply (Z.mod_unique (stop + 1) 16 (q + 1) 0); lia. }
      rewrite E2. cbn. lia.
    + assert (E2 : (stop + 1) mod 16 = m + 1).
      { symmetry. apply (Z.mod_unique (stop + 1) 16 q (m + 1)); lia. }
      rewrite E2. replace (m + 1 =? 0) with false by lia. lia.
  - assert (E1 : (stop + 15) / 16 = q).
    { symmetry. apply (Z.div_unique (stop + 15) 16 q 15); lia. }
    rewrite E1. lia.
Qed.

(* ------------------------------------------------------------------ the emitted table *)
Lemma lookup_cells_upto : forall a untl c, 0 <= c -> 0 <= untl -> wf_from 0 a ->
  lookup (cells_upto untl a) c = if (c <? untl) && in_alpha a c then rank_rec a c else 0.
Proof.
  intros a untl c Hc Hu Hwf. unfold cells_upto. rewrite lookup_cells by exact Hc.
  rewrite Z2Nat.id by exact Hu. destruct (c <? untl); cbn [andb]; [| reflexivity].
  apply table_fn_spec. exact Hwf.
Qed.

(* lookup in the emitted table = membership in the alphabet, for every code (also beyond the
   printed cells and beyond 255) and every canonical alphabet *)
Theorem table_lookup_exact : forall a c, wf_alpha a -> 0 <= c ->
  (lookup (table_of_alphabet a) c <> 0 <-> in_alpha a c = true).
Proof.
  intros a c Hwf Hc. pose proof (alpha_stop_nonneg a Hwf) as Hs. destruct Hwf as [Hne Hwf].
  pose proof (round16_count_spec _ Hs) as [Hr _].
  unfold table_of_alphabet. rewrite lookup_cells_upto by (try exact Hwf; lia).
  destruct (in_alpha a c) eqn:E.
  - pose proof (in_alpha_ub _ _ _ Hwf E). pose proof (rank_rec_pos _ _ _ Hwf E).
    replace (c <? round16_count (alpha_stop a)) with true by lia. cbn [andb]. split; [reflexivity | lia].
  - rewrite andb_false_r. split; [congruence | discriminate].
Qed.

Corollary table_lookup_exact_b : forall a c, wf_alpha a -> 0 <= c ->
  nonzero (lookup (table_of_alphabet a) c) = in_alpha a c.
Proof.
  intros a c Hwf Hc. pose proof (table_lookup_exact a c Hwf Hc) as H. unfold nonzero.
  destruct (in_alpha a c); destruct (lookup (table_of_alphabet a) c =? 0) eqn:E; cbn; try reflexivity.
  - exfalso. apply (proj2 H eq_refl). lia.
  - assert (lookup (table_of_alphabet a) c <> 0) by lia. apply (proj1 H) in H0. discriminate.
Qed.

(* the initialiser has whole rows of 16 cells, reaches beyond range_stop by fewer than 16 cells and
   fits the declared array whenever range_stop < max_table_size (a multiple of 16) *)
Theorem table_rows : forall a, wf_alpha a ->
  zlength (table_of_alphabet a) mod 16 = 0 /\
  alpha_stop a < zlength (table_of_alphabet a) <= alpha_stop a + 16 /\
  forall size, size mod 16 = 0 -> alpha_stop a < size -> zlength (table_of_alphabet a) <= size.
Proof.
  intros a Hwf. pose proof (alpha_stop_nonneg a Hwf) as Hs.
  pose proof (round16_count_spec _ Hs) as [Hr Hm].
  assert (HL : zlength (table_of_alphabet a) = round16_count (alpha_stop a)).
  { unfold table_of_alphabet, cells_upto, zlength. rewrite map_length, zseq_length. lia. }
  rewrite HL. split; [exact Hm |]. split; [lia |].
  intros size Hsz Hlt.
  pose proof (Z.div_mod size 16 ltac:(lia)) as D1.
  pose proof (Z.div_mod (round16_count (alpha_stop a)) 16 ltac:(lia)) as D2.
  rewrite Hsz in D1. rewrite Hm in D2. lia.
Qed.

(* ------------------------------------------------------------------ cell = rank *)
Lemma rank_rec_below : forall a lo c, wf_from lo a -> c < lo -> rank_rec a c = 0.
Proof.
  destruct a as [| r tl]; intros lo c Hwf Hc; cbn [rank_rec]; [reflexivity |].
  destruct Hwf as (H1 & _). replace (c <? fst r) with true by lia. reflexivity.
Qed.

Lemma rank_rec_step : forall a lo c, wf_from lo a ->
  rank_rec a c = rank_rec a (c - 1) + (if in_alpha a c then 1 else 0).
Proof.
  induction a as [| r tl IH]; intros lo c Hwf; [reflexivity |].
  rewrite in_alpha_cons. cbn [rank_rec].
  destruct Hwf as (H1 & H2 & H3). rewrite (IH _ c H3).
  destruct (in_alpha tl c) eqn:Etl.
  - pose proof (in_alpha_lb _ _ _ H3 Etl). rewrite orb_true_r.
    destruct (c <? fst r) eqn:E1; [lia |]. destruct (c <=? snd r) eqn:E2; [lia |].
    destruct (c - 1 <? fst r) eqn:E3; [lia |]. destruct (c - 1 <=? snd r) eqn:E4; [| lia].
    rewrite (rank_rec_below tl (snd r + 1) (c - 1) H3) by lia. lia.
  - rewrite orb_false_r. destruct (in_run c r) eqn:E5; unfold in_run in E5;
      destruct (c <? fst r) eqn:E1; destruct (c <=? snd r) eqn:E2;
      destruct (c - 1 <? fst r) eqn:E3; destruct (c - 1 <=? snd r) eqn:E4; try lia.
    all: rewrite (rank_rec_below tl (snd r + 1) (c - 1) H3) by lia; lia.
Qed.

Lemma count_rank_rec : forall a n, wf_from 0 a ->
  zlength (filter (in_alpha a) (zseq 0 n)) = rank_rec a (Z.of_nat n - 1).
Proof.
  intros a n Hwf. induction n.
  - cbn. symmetry. apply (rank_rec_below a 0); [exact Hwf | lia].
  - rewrite zseq_snoc, filter_app. unfold zlength in *. rewrite app_length, Nat2Z.inj_add, IHn.
    replace (Z.of_nat (S n) - 1) with (Z.of_nat n) by lia.
    rewrite (rank_rec_step a 0 (Z.of_nat n) Hwf). cbn [filter]. replace (0 + Z.of_nat n) with (Z.of_nat n) by lia.
    destruct (in_alpha a (Z.of_nat n)); cbn [length]; lia.
Qed.

Lemma rank_is_rank_rec : forall a c, wf_from 0 a -> 0 <= c + 1 -> rank a c = rank_rec a c.
Proof.
  intros a c Hwf Hc. unfold rank. rewrite count_rank_rec by exact Hwf. f_equal. lia.
Qed.

(* the cell of a permitted character holds its rank: the number of permitted characters up to
   and including it (1 for the lowest one) *)
Theorem table_cell_is_rank : forall a c, wf_alpha a -> in_alpha a c = true ->
  lookup (table_of_alphabet a) c = rank a c.
Proof.
  intros a c Hwf Hin. pose proof (alpha_stop_nonneg a Hwf) as Hs. destruct Hwf as [Hne Hwf].
  pose proof (in_alpha_lb _ _ _ Hwf Hin) as Hc. pose proof (in_alpha_ub _ _ _ Hwf Hin) as Hu.
  pose proof (round16_count_spec _ Hs) as [Hr _].
  unfold table_of_alphabet. rewrite lookup_cells_upto by (try exact Hwf; lia).
  rewrite Hin. replace (c <? round16_count (alpha_stop a)) with true by lia. cbn [andb].
  symmetry. apply rank_is_rank_rec; [exact Hwf | lia].
Qed.

(* ------------------------------------------------------------------ code2value and its declared length *)
Lemma filter_ext_in' : forall {A} (f g : A -> bool) l, (forall x, In x l -> f x = g x) -> filter f l = filter g l.
Proof.
  induction l as [| x l IH]; intros H; cbn; [reflexivity |].
  rewrite (H x (or_introl eq_refl)). rewrite IH by (intros; apply H; right; assumption). reflexivity.
Qed.

Lemma rank_rec_above : forall a lo c, wf_from lo a -> alpha_stop a <= c -> a <> [] ->
  rank_rec a c = rank_rec a (alpha_stop a).
Proof.
  intros a lo c Hwf Hc Hne.
  assert (Hge : 0 <= c - alpha_stop a) by lia.
  remember (Z.to_nat (c - alpha_stop a)) as k eqn:Ek.
  revert c Hc Hge Ek. induction k; intros c Hc Hge Ek.
  - f_equal. lia.
  - rewrite (rank_rec_step a lo c Hwf).
    destruct (in_alpha a c) eqn:E.
    + pose proof (in_alpha_ub _ _ _ Hwf E). lia.
    + rewrite Z.add_0_r. apply IHk; lia.
Qed.

Theorem code2value_exact : forall a size c, wf_alpha a ->
  (In c (code2value a size) <-> 0 <= c < size /\ in_alpha a c = true).
Proof.
  intros a size c [Hne Hwf]. unfold code2value. rewrite filter_In, zseq_In, table_fn_nonzero by exact Hwf.
  intuition lia.
Qed.

(* the declared length of code2value[] (counted over the printed cells) is the number of its
   initialisers (found by scanning all max_table_size cells) *)
Theorem code2value_cardinal : forall a size, wf_alpha a -> alpha_stop a < size ->
  cardinal (table_of_alphabet a) = zlength (code2value a size).
Proof.
  intros a size Hwf Hlt. pose proof (alpha_stop_nonneg a Hwf) as Hs. destruct Hwf as [Hne Hwf].
  pose proof (round16_count_spec _ Hs) as [Hr _].
  unfold cardinal, code2value, table_of_alphabet, cells_upto.
  assert (E1 : forall n, filter nonzero (map (table_fn a) (zseq 0 n)) = map (table_fn a) (filter (in_alpha a) (zseq 0 n))).
  { intros n. induction (zseq 0 n) as [| x l IH]; cbn; [reflexivity |].
    rewrite table_fn_nonzero by exact Hwf. destruct (in_alpha a x); cbn; rewrite IH; reflexivity. }
  rewrite E1. unfold zlength at 1. rewrite map_length. fold (zlength (filter (in_alpha a) (zseq 0 (Z.to_nat (round16_count (alpha_stop a)))))).
  rewrite (filter_ext_in' (fun c => nonzero (table_fn a c)) (in_alpha a)) by (intros; apply table_fn_nonzero; exact Hwf).
  rewrite !count_rank_rec by exact Hwf.
  rewrite (rank_rec_above a 0 (Z.of_nat (Z.to_nat (round16_count (alpha_stop a))) - 1)) by (try exact Hwf; try exact Hne; lia).
  rewrite (rank_rec_above a 0 (Z.of_nat (Z.to_nat size) - 1)) by (try exact Hwf; try exact Hne; lia).
  reflexivity.
Qed.

(* ------------------------------------------------------------------ the checker *)
Lemma wf_from_Forall : forall a lo, wf_from lo a -> Forall (fun r => lo <= fst r /\ fst r <= snd r) a.
Proof.
  induction a as [| r tl IH]; intros lo Hwf; [constructor |].
  destruct Hwf as (H1 & H2 & H3). constructor; [lia |].
  specialize (IH _ H3). eapply Forall_impl; [| exact IH]. cbn. intros x Hx. lia.
Qed.

Lemma in_alpha_In : forall a r c, In r a -> in_run c r = true -> in_alpha a c = true.
Proof. intros a r c Hin Hr. unfold in_alpha. apply existsb_exists. exists r. auto. Qed.

Definition etxt (ns : Z) (r : arange) : option cmp := emit1 (Some 0) (Some ns) (EV (fst r), EV (snd r)).

Lemma etxt_eval : forall ns r cv c, 0 <= cv <= ns -> etxt ns r = Some c -> eval_cmp cv c = in_run cv r.
Proof.
  intros ns r cv c Hcv. unfold etxt, emit1, in_run. cbn [fst snd is_min is_max edge_val orb].
  destruct (fst r <=? 0) eqn:E1; destruct (ns <=? snd r) eqn:E2; cbn [andb].
  - discriminate.
  - intros H; injection H as <-. cbn. lia.
  - intros H; injection H as <-. cbn. lia.
  - destruct (fst r =? snd r) eqn:E3; intros H; injection H as <-; cbn; lia.
Qed.

Lemma etxt_some : forall ns r, 1 <= fst r \/ snd r < ns -> exists c, etxt ns r = Some c.
Proof.
  intros ns r H. unfold etxt, emit1. cbn [fst snd is_min is_max edge_val orb].
  destruct (fst r <=? 0) eqn:E1; destruct (ns <=? snd r) eqn:E2; cbn [andb]; try (eexists; reflexivity); try lia.
  destruct (fst r =? snd r); eexists; reflexivity.
Qed.

Lemma flat_text_eval : forall ns cv l, 0 <= cv <= ns ->
  Forall (fun r => 1 <= fst r \/ snd r < ns) l ->
  let txt := flat_map (fun p => opt_list (emit1 (Some 0) (Some ns) p)) (map (fun r => (EV (fst r), EV (snd r))) l) in
  eval cv txt = in_alpha l cv /\ (l <> [] -> txt <> []).
Proof.
  intros ns cv l Hcv H. induction H as [| r tl Hr Htl IH]; cbn zeta in *.
  - split; [reflexivity | congruence].
  - destruct IH as [IH1 IH2]. cbn [map flat_map]. rewrite in_alpha_cons.
    destruct (etxt_some ns r Hr) as [c Hc]. unfold etxt in Hc. rewrite Hc. cbn [opt_list app].
    split; [| discriminate]. unfold eval in *. cbn [existsb]. rewrite IH1.
    f_equal. apply (etxt_eval ns r cv c Hcv). exact Hc.
Qed.

Lemma unit_ok_exact : forall k gs a cv, wf_alpha a -> k <> KU -> alpha_stop a <= natural_stop k ->
  0 <= cv <= natural_stop k ->
  unit_ok k (alpha_mode k gs a) cv = in_alpha a cv.
Proof.
  intros k gs a cv Hwf Hk Hstop Hcv. unfold alpha_mode.
  destruct (use_table k a) eqn:EU.
  - (* the table *)
    cbn [unit_ok]. rewrite table_lookup_exact_b by (try exact Hwf; lia).
    unfold use_table in EU. destruct Hwf as [Hne Hwf].
    assert (Hguard : in_alpha a cv = true -> cv <= 255).
    { intros Hin. pose proof (in_alpha_ub _ _ _ Hwf Hin). lia. }
    destruct (in_alpha a cv) eqn:E; [specialize (Hguard eq_refl) | rewrite andb_false_r; reflexivity].
    rewrite andb_true_r. destruct k; try reflexivity; try lia. congruence.
  - (* range comparisons *)
    destruct Hwf as [Hne Hwf].
    assert (HR : unit_ok k (ARange (emit (Some 0) (Some (natural_stop k)) (crange_of_alpha a))) cv = in_alpha a cv).
    { destruct a as [| r0 [| r1 tl]]; [congruence | |].
      - (* a single interval: el_count = 0 *)
        cbn [crange_of_alpha emit]. rewrite in_alpha_cons. cbn [in_alpha existsb]. rewrite orb_false_r.
        destruct Hwf as (W1 & W2 & _). unfold alpha_stop in Hstop. cbn [last snd] in Hstop.
        fold (etxt (natural_stop k) r0).
        destruct (etxt (natural_stop k) r0) as [c |] eqn:Et; cbn [opt_list unit_ok].
        + unfold eval. cbn [existsb]. rewrite orb_false_r. apply (etxt_eval _ _ _ _ Hcv Et).
        + unfold etxt, emit1 in Et. cbn [fst snd is_min is_max edge_val orb] in Et. unfold in_run.
          destruct (fst r0 <=? 0) eqn:E1; destruct (natural_stop k <=? snd r0) eqn:E2; cbn [andb] in Et;
            try discriminate; try lia.
          destruct (fst r0 =? snd r0); discriminate.
      - (* several intervals *)
        set (a := r0 :: r1 :: tl) in *.
        assert (HF : Forall (fun r => 1 <= fst r \/ snd r < natural_stop k) a).
        { subst a. pose proof Hwf as Hwf0. destruct Hwf as (W1 & W2 & W3). constructor.
          - right. pose proof W3 as (V1 & V2 & _).
            assert (Hm : in_alpha (r0 :: r1 :: tl) (snd r1) = true).
            { apply (in_alpha_In _ r1); [right; left; reflexivity | unfold in_run; lia]. }
            pose proof (in_alpha_ub (r0 :: r1 :: tl) 0 (snd r1) Hwf0 Hm).
            lia.
          - pose proof (wf_from_Forall _ _ W3) as F. eapply Forall_impl; [| exact F]. cbn. intros x Hx. lia. }
        pose proof (flat_text_eval (natural_stop k) cv a Hcv HF) as [T1 T2]. cbn zeta in T1, T2.
        change (crange_of_alpha a) with
          (EV (alpha_start a), EV (alpha_stop a), map (fun r => (EV (fst r), EV (snd r))) a).
        unfold emit. subst a. cbn [map]. cbn [map] in T1, T2.
        match goal with |- unit_ok k (ARange ?t) cv = _ => destruct t eqn:ET end.
        + exfalso. apply T2; [discriminate | reflexivity].
        + cbn [unit_ok]. exact T1. }
    destruct k; try exact HR. congruence.
Qed.

(* the generated permitted-alphabet loop accepts exactly the strings all of whose characters are
   in the alphabet: for every canonical alphabet, every string type but UTF8String, table or range
   comparisons, with or without SIZE *)
Theorem alpha_check_exact : forall k gs a units, wf_alpha a -> k <> KU -> alpha_stop a <= natural_stop k ->
  Forall (fun cv => 0 <= cv <= natural_stop k) units ->
  alpha_check k gs a units = alpha_sat a units.
Proof.
  intros k gs a units Hwf Hk Hs HF. unfold alpha_check, alpha_sat.
  induction HF as [| cv tl Hcv Htl IH]; [reflexivity |]. cbn [forallb].
  rewrite IH. f_equal. apply unit_ok_exact; assumption.
Qed.

(* UTF8String with a table (holed alphabet below 0x80): the loop runs over octets; an octet passes
   iff it is below 0x80 and a member *)
Theorem alpha_check_utf8_table : forall gs a octets, wf_alpha a -> use_table KU a = true ->
  Forall (fun b => 0 <= b) octets ->
  alpha_check KU gs a octets = forallb (fun b => (b <? 128) && in_alpha a b) octets.
Proof.
  intros gs a octets Hwf HU HF. unfold alpha_check, alpha_mode. rewrite HU.
  induction HF as [| b tl Hb Htl IH]; [reflexivity |]. cbn [forallb unit_ok].
  rewrite IH. rewrite table_lookup_exact_b by assumption. reflexivity.
Qed.

(* ... and every other UTF8String alphabet is not checked at all (finding C08-utf8-from-unchecked) *)
Theorem alpha_check_utf8_no_table : forall gs a units, use_table KU a = false -> alpha_check KU gs a units = true.
Proof.
  intros gs a units HU. unfold alpha_check, alpha_mode. rewrite HU.
  destruct gs; induction units; cbn; auto.
Qed.

Theorem alpha_check_utf8_refuted : exists gs a units,
  wf_alpha a /\ alpha_check KU gs a units = true /\ alpha_sat a units = false.
Proof.
  exists false, [(97, 122)], [65]. split; [| split]; [| vm_compute; reflexivity | vm_compute; reflexivity].
  split; [discriminate | cbn; lia].
Qed.

(* ------------------------------------------------------------------ rounding the distance instead of the count *)
(* with the distance rounded, the cell of the highest permitted character is missing exactly when
   that character's code is a multiple of 16 *)
Theorem distance_rounding_loses_top : forall a, wf_alpha a -> alpha_stop a mod 16 = 0 ->
  in_alpha a (alpha_stop a) = true /\
  lookup (cells_upto (round16_distance (alpha_stop a)) a) (alpha_stop a) = 0.
Proof.
  intros a Hwf Hm. pose proof (alpha_stop_nonneg a Hwf) as Hs. destruct Hwf as [Hne Hwf].
  split; [exact (alpha_stop_member a 0 Hne Hwf) |].
  pose proof (round16_distance_spec _ Hs) as [_ H]. rewrite (H Hm).
  rewrite lookup_cells_upto by (try exact Hwf; lia).
  replace (alpha_stop a <? alpha_stop a) with false by lia. reflexivity.
Qed.

Theorem distance_rounding_same_otherwise : forall a, wf_alpha a -> alpha_stop a mod 16 <> 0 ->
  cells_upto (round16_distance (alpha_stop a)) a = table_of_alphabet a.
Proof.
  intros a Hwf Hm. pose proof (alpha_stop_nonneg a Hwf) as Hs.
  pose proof (round16_distance_spec _ Hs) as [H _]. unfold table_of_alphabet. rewrite (H Hm). reflexivity.
Qed.

(* FROM("a".."f" | "p"): 'p' = 112 = 7 * 16 *)
Theorem distance_rounding_refuted : exists a c, wf_alpha a /\ in_alpha a c = true /\
  lookup (cells_upto (round16_distance (alpha_stop a)) a) c = 0 /\
  lookup (table_of_alphabet a) c <> 0.
Proof.
  exists [(97, 102); (112, 112)], 112. split; [| split; [| split]].
  - split; [discriminate | cbn; lia].
  - vm_compute; reflexivity.
  - vm_compute; reflexivity.
  - vm_compute; discriminate.
Qed.

(* ------------------------------------------------------------------ non-vacuity *)
Example ex_table : table_of_alphabet [(1, 2); (4, 4)] = [0; 1; 2; 0; 3; 0; 0; 0; 0; 0; 0; 0; 0; 0; 0; 0].
Proof. vm_compute; reflexivity. Qed.
Example ex_table_row_boundary :
  zlength (table_of_alphabet [(3, 3); (15, 15)]) = 16 /\ zlength (table_of_alphabet [(3, 3); (16, 16)]) = 32 /\
  zlength (table_of_alphabet [(3, 3); (17, 17)]) = 32.
Proof. vm_compute; auto. Qed.
Example ex_mode : use_table K1 [(97, 102); (112, 112)] = true /\ use_table K1 [(97, 112)] = false /\
  use_table KU [(97, 97); (128, 128)] = false /\ use_table K2 [(97, 97); (256, 256)] = false /\
  alpha_mode K2 false [(97, 98)] = ARange [CBetween 97 98] /\ alpha_mode K1 false [(0, 255)] = ARange [] /\
  alpha_mode K1 false [(16, 255)] = ARange [CGe 16] /\ alpha_mode K2 false [(0, 255)] = ARange [CLe 255].
Proof. vm_compute; auto 10. Qed.
Example ex_code2value : code2value [(97, 98); (112, 112)] 256 = [97; 98; 112] /\ cardinal (table_of_alphabet [(97, 98); (112, 112)]) = 3.
Proof. vm_compute; auto. Qed.
Example ex_wfb : wf_alphab [(97, 102); (112, 112)] = true /\ wf_alphab [(112, 112); (97, 102)] = false.
Proof. vm_compute; auto. Qed.

Lemma wf_fromb_spec : forall a lo, wf_fromb lo a = true <-> wf_from lo a.
Proof.
  induction a as [| r tl IH]; intros lo; cbn; [intuition |].
  rewrite !andb_true_iff, IH. intuition lia.
Qed.
Lemma wf_alphab_spec : forall a, wf_alphab a = true <-> wf_alpha a.
Proof.
  intros a. unfold wf_alphab, wf_alpha. rewrite andb_true_iff, wf_fromb_spec.
  destruct a; cbn; intuition congruence.
Qed.
