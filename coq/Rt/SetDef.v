(* Rt/SetDef.v — the SET type and DEFAULT components, on top of the base codec model.

   What the C does (skeletons/constr_SET.c, constr_SEQUENCE.c, constr_SEQUENCE_oer.c and the
   tables libasn1compiler/asn1c_C.c emits):

   SET.  DER (SET_encode_der): the members are written in the order of their tags
   (class first, then number: _t2e_cmp).  When no member is an untagged CHOICE with several
   alternatives (specs->tag2el_count == td->elements_count) the order is the order of the
   table tag2el the compiler emitted (sorted by the compiler); otherwise a table
   (outmost tag of the stored value, member) is built for the value — an absent member, or one
   equal to its DEFAULT, gets the tag 0 — and qsort()ed.  BER (SET_decode_ber): members in
   any order, each found through tag2el (all the tags of an untagged CHOICE member are in
   it), a second occurrence fails (_presence_map), an unknown tag fails (no extensible SET
   in this layer), at the end every mandatory member must have been seen
   (_mandatory_elements).  asn_OP_SET has NO uper/oer codec (four 0 entries): a SET at top
   level or as a member that has to be encoded makes uper_encode / oer_encode fail cleanly,
   the decoders fail; an ABSENT optional SET member does not disturb the SEQUENCE around it.

   DEFAULT.  asn1c stores a component with a DEFAULT like an OPTIONAL one (pointer, NULL =
   absent; stored in line when the default is 0 / FALSE) with elm->optional set, and gives
   the member a generated default_value_cmp / default_value_set (INTEGER, ENUMERATED,
   BOOLEAN only).  Every encoder (SEQUENCE_encode_der, SET_encode_der, SEQUENCE_encode_uper,
   SEQUENCE_encode_oer) treats a stored value for which default_value_cmp says "equal" as
   absent, at every place it looks at the member.  SEQUENCE_decode_uper / _oer call
   default_value_set when the presence bit is 0 (the value comes back FILLED IN);
   SEQUENCE_decode_ber / SET_decode_ber leave the member absent (NULL).
   The generated comparison for BOOLEAN DEFAULT TRUE is `*st != 1`, and BOOLEAN_decode_ber /
   _oer store the contents octet (0xff): [raw] = true says that the BOOLEANs of the value were
   stored by those decoders (known findings C01-boolean-default-true / C06-default-boolean-true-octet).

   Embedding: [cty] over the base algebra Types.ty; COpt / CDef mark an OPTIONAL / DEFAULT
   component and occur only as direct members of CSeq / CSet (like TOpt in the base).  Values
   are the base's [val]: VSeq for SEQUENCE and SET (one entry per member in DEFINITION order),
   VNone / VSome for OPTIONAL and DEFAULT members (VNone = NULL pointer, VSome v = stored value,
   possibly equal to the default).  No proofs here (SetDefProofs.v). *)
From Coq Require Import ZArith List Bool.
From A1 Require Import Base.Bytes Leaf.IntegerConv Leaf.BerTL Rt.Types Rt.Comb Rt.Der Rt.Uper Rt.Oer.
Import ListNotations.
Local Open Scope Z_scope.

Inductive cty :=
| CBase (t : ty)
| CSeq (tg : Z) (ms : list cty)
| CSet (tg : Z) (ms : list cty)
| CTag (tg : Z) (t : cty)          (* EXPLICIT tag around a SEQUENCE / SET of this layer *)
| COpt (t : cty)
| CDef (d : val) (t : cty).

Definition is_marker (t : cty) : bool :=
  match t with COpt _ | CDef _ _ => true | _ => false end.

(* the outermost tags an encoding of the type can start with *)
Fixpoint cfirst_tags (t : cty) : list Z :=
  match t with
  | CBase b => first_tags b
  | CSeq tg _ | CSet tg _ | CTag tg _ => [tg]
  | COpt t' | CDef _ t' => cfirst_tags t'
  end.

(* ---------------- DEFAULT ---------------- *)

(* the generated default_value_cmp(stored value) == 0.  INTEGER: *st != d; BOOLEAN: *st != 0 /
   *st != 1 — a TRUE stored as 0xff ([raw]) is not 1. *)
Definition dflt_eqb (raw : bool) (v d : val) : bool :=
  match v, d with
  | VInt x, VInt y => x =? y
  | VBool x, VBool y => if x && y && raw then false else Bool.eqb x y
  | _, _ => false
  end.

(* the member is treated as absent by every encoder *)
Definition absent (raw : bool) (m : cty) (v : val) : bool :=
  match m, v with
  | COpt _, VNone => true
  | CDef _ _, VNone => true
  | CDef d _, VSome v' => dflt_eqb raw v' d
  | _, _ => false
  end.

(* one presence bit per OPTIONAL / DEFAULT member (PER and OER preambles) *)
Fixpoint cpresence (raw : bool) (ms : list cty) (vs : list val) : list bool :=
  match ms, vs with
  | m :: ms', v :: vs' => (if is_marker m then [negb (absent raw m v)] else []) ++ cpresence raw ms' vs'
  | _, _ => []
  end.

(* ---------------- member loops ---------------- *)

(* the encodings of the members, one entry per member in definition order *)
Definition enc_cms {B} (enc : cty -> val -> option (list B))
  : list cty -> list val -> option (list (list B)) :=
  fix go ms vs :=
    match ms, vs with
    | [], [] => Some []
    | m :: ms', v :: vs' =>
        match enc m v, go ms' vs' with
        | Some a, Some b => Some (a :: b)
        | _, _ => None
        end
    | _, _ => None
    end.

Definition dec_cms {St} (dec : cty -> St -> option (val * St))
  : list cty -> St -> option (list val * St) :=
  fix go ms s :=
    match ms with
    | [] => Some ([], s)
    | m :: ms' =>
        match dec m s with
        | Some (v, r) =>
            match go ms' r with
            | Some (vs, r') => Some (v :: vs, r')
            | None => None
            end
        | None => None
        end
    end.

(* members behind a presence bitmap: bit 0 of a DEFAULT member = default_value_set *)
Definition dec_cms_pres {St} (dec : cty -> St -> option (val * St))
  : list cty -> list bool -> St -> option (list val * St) :=
  fix go ms pres s :=
    match ms with
    | [] => Some ([], s)
    | m :: ms' =>
        match m with
        | COpt t' =>
            match pres with
            | true :: pres' =>
                match dec t' s with
                | Some (v, r) =>
                    match go ms' pres' r with
                    | Some (vs, r') => Some (VSome v :: vs, r')
                    | None => None
                    end
                | None => None
                end
            | false :: pres' =>
                match go ms' pres' s with
                | Some (vs, r') => Some (VNone :: vs, r')
                | None => None
                end
            | [] => None
            end
        | CDef d t' =>
            match pres with
            | true :: pres' =>
                match dec t' s with
                | Some (v, r) =>
                    match go ms' pres' r with
                    | Some (vs, r') => Some (VSome v :: vs, r')
                    | None => None
                    end
                | None => None
                end
            | false :: pres' =>
                match go ms' pres' s with
                | Some (vs, r') => Some (VSome d :: vs, r')
                | None => None
                end
            | [] => None
            end
        | _ =>
            match dec m s with
            | Some (v, r) =>
                match go ms' pres r with
                | Some (vs, r') => Some (v :: vs, r')
                | None => None
                end
            | None => None
            end
        end
    end.

(* ---------------- SET: order of the members in DER ---------------- *)

(* the outmost tag of the stored value (asn_TYPE_outmost_tag with the member's tag_mode / tag) *)
Fixpoint coutmost_tag (t : cty) (v : val) {struct t} : Z :=
  match t with
  | CBase b => outmost_tag b v
  | CSeq tg _ | CSet tg _ | CTag tg _ => tg
  | COpt t' | CDef _ t' => match v with VSome v' => coutmost_tag t' v' | _ => 0 end
  end.

(* the table tag2el the compiler emits: every first tag of every member with the member's
   index, sorted by (class, number) *)
Fixpoint tag2el_raw (ms : list cty) (i : nat) : list (Z * nat) :=
  match ms with
  | [] => []
  | m :: r => map (fun tg => (tg, i)) (cfirst_tags m) ++ tag2el_raw r (S i)
  end.

Section Keyed.
  Context {A : Type}.
  Fixpoint insert_keyed (x : Z * A) (l : list (Z * A)) : list (Z * A) :=
    match l with
    | [] => [x]
    | y :: tl => if tag_key (fst x) <=? tag_key (fst y) then x :: l else y :: insert_keyed x tl
    end.
  Definition sort_keyed (l : list (Z * A)) : list (Z * A) := fold_right insert_keyed [] l.
End Keyed.

Definition tag2el (ms : list cty) : list (Z * nat) := sort_keyed (tag2el_raw ms 0).

(* the el_tag SET_encode_der notes for a member when it builds its own table *)
Definition dyn_tag (raw : bool) (m : cty) (v : val) : Z :=
  if absent raw m v then 0 else coutmost_tag m v.

Fixpoint dyn_tags (raw : bool) (ms : list cty) (vs : list val) : list Z :=
  match ms, vs with
  | m :: ms', v :: vs' => dyn_tag raw m v :: dyn_tags raw ms' vs'
  | _, _ => []
  end.

(* es: the members' encodings in definition order ([] for an absent one) *)
Definition set_order {B} (raw : bool) (ms : list cty) (vs : list val) (es : list (list B)) : list (list B) :=
  if Nat.eqb (length (tag2el_raw ms 0)) (length ms)
  then map (fun e => nth (snd e) es []) (tag2el ms)                  (* the compiler's table *)
  else map snd (sort_keyed (combine (dyn_tags raw ms vs) es)).       (* t2m_build + qsort *)

(* ---------------- DER ---------------- *)

Section Raw.
  Variable raw : bool.

  Fixpoint cder (t : cty) (v : val) {struct t} : option (list Z) :=
    match t, v with
    | CBase b, _ => der b v
    | CSeq tg ms, VSeq vs =>
        match enc_cms cder ms vs with
        | Some es => Some (tlv tg true (concat es))
        | None => None
        end
    | CSet tg ms, VSeq vs =>
        match enc_cms cder ms vs with
        | Some es => Some (tlv tg true (concat (set_order raw ms vs es)))
        | None => None
        end
    | CTag tg t', _ =>
        match cder t' v with
        | Some c => Some (tlv tg true c)
        | None => None
        end
    | COpt _, VNone => Some []
    | COpt t', VSome v' => cder t' v'
    | CDef _ _, VNone => Some []
    | CDef d t', VSome v' => if dflt_eqb raw v' d then Some [] else cder t' v'
    | _, _ => None
    end.
End Raw.

(* ---------------- BER reader ---------------- *)

Fixpoint set_nth {A} (i : nat) (x : A) (l : list A) : list A :=
  match l, i with
  | [], _ => []
  | _ :: tl, O => x :: tl
  | y :: tl, S j => y :: set_nth j x tl
  end.

(* bsearch in tag2el + the member's decoder: (member index, its result) *)
Definition dec_by_tag {St} (dec : cty -> St -> option (val * St)) (tg : Z) (s : St)
  : list cty -> nat -> option (nat * option (val * St)) :=
  fix find ms i :=
    match ms with
    | [] => None
    | m :: r => if tag_in tg (cfirst_tags m) then Some (i, dec m s) else find r (S i)
    end.

(* phase 1 of SET_decode_ber: TLVs until the end of the contents; slots = _presence_map +
   the members decoded so far *)
Definition set_loop (dec : cty -> list Z -> option (val * list Z)) (ms : list cty)
  : nat -> list (option val) -> list Z -> option (list (option val) * list Z) :=
  fix loop fuel slots bs :=
    match fuel with
    | O => None
    | S f =>
        if at_end bs then Some (slots, bs)
        else
          match peek_tag bs with
          | None => None
          | Some tg =>
              match dec_by_tag dec tg bs ms O with
              | None => None                                   (* unknown tag, not extensible *)
              | Some (i, res) =>
                  match nth i slots None with
                  | Some _ => None                             (* duplicate element *)
                  | None =>
                      match res with
                      | Some (v, r) => loop f (set_nth i (Some v) slots) r
                      | None => None
                      end
                  end
              end
          end
    end.

(* phase 5: _SET_is_populated, and the value *)
Fixpoint set_finish (ms : list cty) (slots : list (option val)) : option (list val) :=
  match ms, slots with
  | [], [] => Some []
  | m :: ms', s :: slots' =>
      match (match s with
             | Some v => Some v
             | None => if is_marker m then Some VNone else None
             end), set_finish ms' slots' with
      | Some v, Some vs => Some (v :: vs)
      | _, _ => None
      end
  | _, _ => None
  end.

Fixpoint cber_dec (t : cty) (bs : list Z) {struct t} : option (val * list Z) :=
  match t with
  | CBase b => ber_dec b bs
  | CSeq tg ms =>
      match in_cons tg bs (dec_cms cber_dec ms) with
      | Some (vs, r) => Some (VSeq vs, r)
      | None => None
      end
  | CSet tg ms =>
      match in_cons tg bs (fun c =>
              match set_loop cber_dec ms (S (length c)) (map (fun _ => None) ms) c with
              | Some (slots, r) =>
                  match set_finish ms slots with
                  | Some vs => Some (vs, r)
                  | None => None
                  end
              | None => None
              end) with
      | Some (vs, r) => Some (VSeq vs, r)
      | None => None
      end
  | CTag tg t' => in_cons tg bs (cber_dec t')
  | COpt t' | CDef _ t' =>
      match peek_tag bs with
      | Some tg =>
          if tag_in tg (cfirst_tags t') then
            match cber_dec t' bs with
            | Some (v, r) => Some (VSome v, r)
            | None => None
            end
          else Some (VNone, bs)
      | None => Some (VNone, bs)
      end
  end.

Definition cber_decode (t : cty) (bs : list Z) : option (val * Z) :=
  match cber_dec t bs with
  | Some (v, rest) => Some (v, zlen bs - zlen rest)
  | None => None
  end.

(* ---------------- unaligned PER ---------------- *)

Section RawStd.
  Variable raw : bool.
  Variable std : bool.

  Fixpoint cuper (t : cty) (v : val) {struct t} : option (list bool) :=
    match t, v with
    | CBase b, _ => uper std b v
    | CSeq _ ms, VSeq vs =>
        match enc_cms cuper ms vs with
        | Some es => Some (cpresence raw ms vs ++ concat es)
        | None => None
        end
    | CSet _ _, _ => None                       (* asn_OP_SET: no uper_encoder *)
    | CTag _ t', _ => cuper t' v
    | COpt _, VNone => Some []
    | COpt t', VSome v' => cuper t' v'
    | CDef _ _, VNone => Some []
    | CDef d t', VSome v' => if dflt_eqb raw v' d then Some [] else cuper t' v'
    | _, _ => None
    end.
End RawStd.

Definition cuper_encode (raw std : bool) (t : cty) (v : val) : option (list Z) :=
  match cuper raw std t v with
  | Some [] => Some [0]
  | Some bits => Some (bits_to_bytes bits)
  | None => None
  end.

Section StdDec.
  Variable std : bool.

  Fixpoint cuper_dec (t : cty) (bs : list bool) {struct t} : option (val * list bool) :=
    match t with
    | CBase b => uper_dec std b bs
    | CSeq _ ms =>
        match take_bits (length (filter is_marker ms)) bs with
        | Some (pres, r0) =>
            match dec_cms_pres cuper_dec ms pres r0 with
            | Some (vs, r) => Some (VSeq vs, r)
            | None => None
            end
        | None => None
        end
    | CSet _ _ => None                          (* no uper_decoder *)
    | CTag _ t' => cuper_dec t' bs
    | COpt t' | CDef _ t' =>
        match cuper_dec t' bs with
        | Some (v, r) => Some (VSome v, r)
        | None => None
        end
    end.
End StdDec.

Definition cuper_decode (std : bool) (t : cty) (bytes : list Z) : option (val * Z) :=
  match cuper_dec std t (bytes_bits bytes) with
  | Some (v, rest) =>
      let used := zlen (bytes_bits bytes) - zlen rest in
      Some (v, Z.max 1 ((used + 7) / 8))
  | None => None
  end.

(* ---------------- OER ---------------- *)

Section RawOer.
  Variable raw : bool.

  Fixpoint coer (t : cty) (v : val) {struct t} : option (list Z) :=
    match t, v with
    | CBase b, _ => oer b v
    | CSeq _ ms, VSeq vs =>
        match enc_cms coer ms vs with
        | Some es => Some (bits_to_bytes (cpresence raw ms vs) ++ concat es)
        | None => None
        end
    | CSet _ _, _ => None                       (* no oer_encoder *)
    | CTag _ t', _ => coer t' v
    | COpt _, VNone => Some []
    | COpt t', VSome v' => coer t' v'
    | CDef _ _, VNone => Some []
    | CDef d t', VSome v' => if dflt_eqb raw v' d then Some [] else coer t' v'
    | _, _ => None
    end.
End RawOer.

Fixpoint coer_dec (t : cty) (bs : list Z) {struct t} : option (val * list Z) :=
  match t with
  | CBase b => oer_dec b bs
  | CSeq _ ms =>
      let nopt := length (filter is_marker ms) in
      match take (Z.of_nat ((nopt + 7) / 8)) bs with
      | Some (pb, r0) =>
          match take_bits nopt (bytes_bits pb) with
          | Some (pres, _) =>
              match dec_cms_pres coer_dec ms pres r0 with
              | Some (vs, r) => Some (VSeq vs, r)
              | None => None
              end
          | None => None
          end
      | None => None
      end
  | CSet _ _ => None
  | CTag _ t' => coer_dec t' bs
  | COpt t' | CDef _ t' =>
      match coer_dec t' bs with
      | Some (v, r) => Some (VSome v, r)
      | None => None
      end
  end.

Definition coer_decode (t : cty) (bs : list Z) : option (val * Z) :=
  match coer_dec t bs with
  | Some (v, rest) => Some (v, zlen bs - zlen rest)
  | None => None
  end.

(* ---------------- the two representations of a default value ---------------- *)

Definition map2_members (f : cty -> val -> val) : list cty -> list val -> list val :=
  fix go ms vs :=
    match ms, vs with
    | m :: ms', v :: vs' => f m v :: go ms' vs'
    | _, _ => vs
    end.

(* every DEFAULT member equal to its default becomes absent (what a BER reader gives back
   for the DER encoding) *)
Fixpoint strip_dflt (t : cty) (v : val) {struct t} : val :=
  match t, v with
  | CSeq _ ms, VSeq vs | CSet _ ms, VSeq vs => VSeq (map2_members strip_dflt ms vs)
  | CTag _ t', _ => strip_dflt t' v
  | COpt t', VSome v' => VSome (strip_dflt t' v')
  | CDef d t', VSome v' => if dflt_eqb false v' d then VNone else VSome (strip_dflt t' v')
  | _, _ => v
  end.

(* every absent DEFAULT member holds its default (what the PER / OER readers give back) *)
Fixpoint fill_dflt (t : cty) (v : val) {struct t} : val :=
  match t, v with
  | CSeq _ ms, VSeq vs | CSet _ ms, VSeq vs => VSeq (map2_members fill_dflt ms vs)
  | CTag _ t', _ => fill_dflt t' v
  | COpt t', VSome v' => VSome (fill_dflt t' v')
  | CDef d t', VSome v' => VSome (fill_dflt t' v')
  | CDef d _, VNone => VSome d
  | _, _ => v
  end.

(* ---------------- the standards, read directly ---------------- *)

(* X.690 8.10/8.12 + 11.5 + 10.3.  A SEQUENCE / SET value is the concatenation of the
   encodings of its component values; the encoding of a component equal to its DEFAULT is
   not included (11.5), nor one of an absent OPTIONAL; in a SET the component encodings
   appear in the order of their tags (10.3; for an untagged CHOICE the tag of the chosen
   alternative: the tag the component's encoding starts with).  The order is computed from
   the identifier octets of the encodings themselves. *)
Definition leading_key (e : list Z) : Z :=
  match peek_tag e with Some tg => tag_key tg | None => 0 end.

Fixpoint insert_enc (x : list Z) (l : list (list Z)) : list (list Z) :=
  match l with
  | [] => [x]
  | y :: tl => if leading_key x <=? leading_key y then x :: l else y :: insert_enc x tl
  end.
Definition sort_by_leading_tag (l : list (list Z)) : list (list Z) := fold_right insert_enc [] l.

Definition is_default_value (v d : val) : bool :=
  match v, d with
  | VInt x, VInt y => x =? y
  | VBool x, VBool y => Bool.eqb x y
  | _, _ => false
  end.

(* the encodings of the components that ARE encoded, in definition order *)
Definition spec_components {B} (enc : cty -> val -> option (list B))
  : list cty -> list val -> option (list (list B)) :=
  fix go ms vs :=
    match ms, vs with
    | [], [] => Some []
    | m :: ms', v :: vs' =>
        match go ms' vs' with
        | None => None
        | Some r =>
            match m, v with
            | COpt _, VNone | CDef _ _, VNone => Some r
            | COpt t', VSome v' =>
                match enc t' v' with Some e => Some (e :: r) | None => None end
            | CDef d t', VSome v' =>
                if is_default_value v' d then Some r
                else match enc t' v' with Some e => Some (e :: r) | None => None end
            | _, _ =>
                match enc m v with Some e => Some (e :: r) | None => None end
            end
        end
    | _, _ => None
    end.

Fixpoint spec_der (t : cty) (v : val) {struct t} : option (list Z) :=
  match t, v with
  | CBase b, _ => der b v
  | CSeq tg ms, VSeq vs =>
      match spec_components spec_der ms vs with
      | Some es => Some (tlv tg true (concat es))
      | None => None
      end
  | CSet tg ms, VSeq vs =>
      match spec_components spec_der ms vs with
      | Some es => Some (tlv tg true (concat (sort_by_leading_tag es)))
      | None => None
      end
  | CTag tg t', _ =>
      match spec_der t' v with
      | Some c => Some (tlv tg true c)
      | None => None
      end
  | _, _ => None
  end.

(* X.691 19.2-19.5 (canonical: a component equal to its DEFAULT is always absent): one
   preamble bit per OPTIONAL / DEFAULT component, 1 = its encoding is there; then the
   encodings of the components that are there.  SET (X.691 21): as SEQUENCE, components in
   canonical tag order — asn1c has no PER codec for SET, so no reading is given here. *)
Fixpoint spec_preamble (ms : list cty) (vs : list val) : list bool :=
  match ms, vs with
  | m :: ms', v :: vs' =>
      (match m, v with
       | COpt _, VNone | CDef _ _, VNone => [false]
       | COpt _, _ => [true]
       | CDef d _, VSome v' => [negb (is_default_value v' d)]
       | CDef _ _, _ => [true]
       | _, _ => []
       end) ++ spec_preamble ms' vs'
  | _, _ => []
  end.

Section SpecStd.
  Variable std : bool.
  Fixpoint spec_uper (t : cty) (v : val) {struct t} : option (list bool) :=
    match t, v with
    | CBase b, _ => uper std b v
    | CSeq _ ms, VSeq vs =>
        match spec_components spec_uper ms vs with
        | Some es => Some (spec_preamble ms vs ++ concat es)
        | None => None
        end
    | CTag _ t', _ => spec_uper t' v
    | _, _ => None
    end.
End SpecStd.

(* X.696 16: preamble = the presence bits padded to whole octets, then the components *)
Fixpoint spec_oer (t : cty) (v : val) {struct t} : option (list Z) :=
  match t, v with
  | CBase b, _ => oer b v
  | CSeq _ ms, VSeq vs =>
      match spec_components spec_oer ms vs with
      | Some es => Some (bits_to_bytes (spec_preamble ms vs) ++ concat es)
      | None => None
      end
  | CTag _ t', _ => spec_oer t' v
  | _, _ => None
  end.
