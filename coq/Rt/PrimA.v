(* Rt/PrimA.v — ENUMERATED and BIT STRING inside the codec model.  Executable model
   only; theorems in PrimAProofs.v.

   What is modelled is what the C does: skeletons/NativeEnumerated.c,
   NativeEnumerated_oer.c, NativeInteger.c (DER/BER of ENUMERATED = INTEGER contents),
   BIT_STRING.c (UPER; BIT_STRING__compactify), BIT_STRING_oer.c, OCTET_STRING.c
   (DER/BER of BIT STRING: unused-bits octet + octets), per_support.c, oer_support.c,
   and the tables asn1c emits (libasn1compiler/asn1c_C.c):
     - asn_INTEGER_specifics_t.value2enum = ALL enumeration items (root and additional)
       sorted by value, .extension = number of root items + 1, PER constraint
       (0..#root-1[,...]);
     - BIT STRING: PER size constraint (lb..ub[,...]) with effective bits >= 0 iff
       ub < 65536; OER size = n for a single-value non-extensible SIZE(n), else -1;
       a NamedBitList leaves NO trace in the emitted tables.
   The functions named spec_* are written from X.690 / X.691 / X.696 directly.

   The leaves are embedded in a small algebra so that the base model (Rt/Types, Der,
   Uper, Oer) is reused for everything else:
     pelem := leaf | EXPLICIT tag around a pelem | type of the base algebra
     pty   := pelem | SEQUENCE of (optional?, pelem) members (not extensible)
              | SEQUENCE OF pelem
   IMPLICIT tags are the leaf's own tag [tg] (a ber_tlv_tag_t: number*4 + class).
   DER/BER go through a translation into the base algebra (ENUMERATED = INTEGER
   contents, BIT STRING = OCTET STRING contents with the unused-bits octet in front):
   the C does exactly that (NativeInteger_encode_der, OCTET_STRING_encode_der /
   OCTET_STRING_decode_ber with the ASN_OSUBV_BIT post-processing).  The BER reader
   takes primitive BIT STRINGs only (constructed segments are out of scope). *)
From Coq Require Import ZArith List Bool.
From A1 Require Import Base.Bytes Leaf.IntegerConv Leaf.BerTL Rt.Types Rt.Comb Rt.Der Rt.Uper Rt.Oer Rt.Ext.
Import ListNotations.
Local Open Scope Z_scope.

(* ---------------- the algebra ---------------- *)

Inductive leaf :=
| LEnum (tg : Z) (root : list Z) (ext : bool) (adds : list Z)   (* values in the order written *)
| LBits (tg : Z) (s : scon) (named : bool).

Inductive pelem :=
| ELeaf (l : leaf)
| ETag (tg : Z) (e : pelem)
| EBase (t : ty).

Inductive pty :=
| PElem (e : pelem)
| PSeq (tg : Z) (ms : list (bool * pelem))      (* true = OPTIONAL *)
| PSeqOf (tg : Z) (s : scon) (e : pelem).

(* XEnum z: the enumeration item with value z (the C's long); XBits: the bits *)
Inductive pev :=
| XEnum (z : Z)
| XBits (bs : list bool)
| XBase (v : val).

Inductive pval :=
| PVElem (x : pev)
| PVSeq (xs : list (option pev))                 (* None only for an absent OPTIONAL member *)
| PVList (xs : list pev).

(* ================= ENUMERATED ================= *)

Fixpoint insert_z (x : Z) (l : list Z) : list Z :=
  match l with
  | [] => [x]
  | y :: tl => if x <=? y then x :: l else y :: insert_z x tl
  end.
Definition sort_z (l : list Z) : list Z := fold_right insert_z [] l.

(* the emitted value2enum table: every item, sorted by value (asn1c_C.c, qsort over
   all members with compar_enumMap_byValue) *)
Definition enum_table (root adds : list Z) : list Z := sort_z (root ++ adds).

(* position in a table (the C: bsearch in value2enum, kf - specs->value2enum) *)
Fixpoint index_of (z : Z) (l : list Z) : option Z :=
  match l with
  | [] => None
  | y :: tl => if y =? z then Some 0
               else match index_of z tl with Some i => Some (i + 1) | None => None end
  end.

Definition nth_z (l : list Z) (i : Z) : option Z := nth_error l (Z.to_nat i).

(* NativeEnumerated_encode_uper *)
Definition enum_uper (root : list Z) (ext : bool) (adds : list Z) (z : Z) : option (list bool) :=
  let tbl := enum_table root adds in
  match index_of z tbl with
  | None => None
  | Some i =>
      (* cmpWith = specs->extension ? specs->extension - 1 : specs->map_count *)
      let cmp := if ext then zlen root else zlen tbl in
      let inext := cmp <=? i in
      if ext then
        if inext then match nsnnwn (i - zlen root) with Some b => Some (true :: b) | None => None end
        else Some (false :: nbits (range_bits (zlen root)) i)
      else if inext then None
      else Some (nbits (range_bits (zlen root)) i)
  end.

(* NativeEnumerated_decode_uper *)
Definition enum_uper_dec (root : list Z) (ext : bool) (adds : list Z) (bs : list bool)
  : option (Z * list bool) :=
  let tbl := enum_table root adds in
  let cmp := if ext then zlen root else zlen tbl in
  let rootpart (bs : list bool) :=
    match get_bits (range_bits (zlen root)) bs with
    | Some (i, r) => if cmp <=? i then None
                     else match nth_z tbl i with Some z => Some (z, r) | None => None end
    | None => None
    end in
  if ext then
    match bs with
    | false :: r => rootpart r
    | true :: r =>
        match get_nsnnwn r with
        | Some (k, r') =>
            let i := k + zlen root in
            if zlen tbl <=? i then None
            else match nth_z tbl i with Some z => Some (z, r') | None => None end
        | None => None
        end
    | [] => None
    end
  else rootpart bs.

(* X.691 (08/2015) clause 14: the root items sorted by value get the indices 0.., the
   additional items the indices 0.. in the order written (X.680 makes that ascending);
   14.2: no extension marker: the index as a constrained whole number; 14.3: extension
   bit, then the root index as in 14.2 or the additional index as a normally small
   non-negative whole number *)
Definition spec_enum_uper (root : list Z) (ext : bool) (adds : list Z) (z : Z) : option (list bool) :=
  match index_of z (sort_z root) with
  | Some i => Some ((if ext then [false] else []) ++ nbits (range_bits (zlen root)) i)
  | None =>
      if ext then
        match index_of z adds with
        | Some j => match nsnnwn j with Some b => Some (true :: b) | None => None end
        | None => None
        end
      else None
  end.

(* NativeEnumerated_encode_oer: short form 0..127, else length octet | 0x80 and the
   minimal two's complement octets (the loop stops at the first octet from which the
   sign can be read) *)
Definition enum_oer (z : Z) : list Z :=
  if (0 <=? z) && (z <=? 127) then [z]
  else let b := imax2INTEGER z in (128 + zlen b) :: b.

(* NativeEnumerated_decode_oer: no look-up in the enumeration, no minimality check *)
Definition enum_oer_dec (bs : list Z) : option (Z * list Z) :=
  match bs with
  | [] => None
  | b :: r =>
      if b <? 128 then Some (b, r)
      else
        let n := b - 128 in
        if (n <? 1) || (8 <? n) then None
        else match take n r with
             | Some (os, r') => Some (twos_value os, r')
             | None => None
             end
  end.

(* X.696 (08/2015) clause 11: values 0..127 in one octet with bit 8 zero (11.2); any
   other value: bit 8 one, bits 7..1 the number n of subsequent octets, then the value
   as a two's complement integer in the smallest n that holds it (11.4) *)
Fixpoint twos_width (fuel : nat) (k : Z) (z : Z) : Z :=
  match fuel with
  | O => k
  | S f => if (- (128 * 256 ^ (k - 1)) <=? z) && (z <? 128 * 256 ^ (k - 1)) then k
           else twos_width f (k + 1) z
  end.
Definition spec_enum_oer (z : Z) : list Z :=
  if (0 <=? z) && (z <=? 127) then [z]
  else let k := twos_width 8 1 z in (128 + k) :: be_bytes (Z.to_nat k) (z mod 256 ^ k).

(* ================= BIT STRING ================= *)

(* without the trailing 0 bits (BIT_STRING__compactify) *)
Fixpoint strip_tz (bs : list bool) : list bool :=
  match bs with
  | [] => []
  | b :: tl => match strip_tz tl with
               | [] => if b then [true] else []
               | r => b :: r
               end
  end.

(* contents octets: the unused-bits octet, then the bits zero-padded to octets
   (OCTET_STRING_encode_der, ASN_OSUBV_BIT) *)
Definition bits_contents (bs : list bool) : list Z :=
  unused_bits (zlen bs) :: bits_to_bytes bs.

(* OCTET_STRING_decode_ber, primitive form + the BIT STRING post-processing: no contents
   octets at all are taken as the empty string (a leniency of the C); with contents the
   first octet must be 0..7, and 0 if nothing follows; unused bits are masked *)
Definition bits_of_contents (c : list Z) : option (list bool) :=
  match c with
  | [] => Some []
  | u :: body =>
      match body with
      | [] => if u =? 0 then Some [] else None
      | _ => if (u <? 0) || (7 <? u) then None
             else Some (firstn (Z.to_nat (8 * zlen body - u)) (bytes_bits body))
      end
  end.

(* X.690 8.6 + 11.2: DER contents; 11.2.2: with a NamedBitList all trailing 0 bits are
   removed before encoding *)
Definition spec_bits_contents (named : bool) (bs : list bool) : list Z :=
  bits_contents (if named then strip_tz bs else bs).

Definition bit_items (bs : list bool) : list (list bool) := map (fun b => [b]) bs.
Definition get_bit (bs : list bool) : option (bool * list bool) :=
  match bs with b :: r => Some (b, r) | [] => None end.

Definition size_constrained (hi : option Z) : bool :=
  match hi with Some h => h <? 65536 | None => false end.

(* BIT_STRING_encode_uper: the string is compactified whatever the type; a constrained
   size (effective bits >= 0): above ub -> extension (or failure); else the length
   max(n, lb) - lb in range_bits(ub-lb+1) bits, the bits, zero bits up to lb.
   Otherwise (no ub below 64K): extension bit 0 and the general length determinant
   with 16K-bit fragments, NO padding up to lb. *)
Definition bits_uper (s : scon) (bs0 : list bool) : option (list bool) :=
  match s with
  | SCon lo hi ext =>
      let bs := strip_tz bs0 in
      let n := zlen bs in
      let general := counted (bit_items bs) in
      if size_constrained hi then
        match hi with
        | Some h =>
            if h <? n then (if ext then Some (true :: general) else None)
            else
              let len := if n <? lo then 0 else n - lo in
              Some ((if ext then [false] else []) ++ nbits (range_bits (h - lo + 1)) len
                    ++ bs ++ repeat false (Z.to_nat (lo - n)))
        | None => None
        end
      else Some ((if ext then [false] else []) ++ general)
  end.

(* BIT_STRING_decode_uper: a constrained length is not compared with ub *)
Definition bits_uper_dec (s : scon) (bs : list bool) : option (list bool * list bool) :=
  match s with
  | SCon lo hi ext =>
      let general (bs : list bool) := get_counted get_bit (S (length bs)) bs in
      let root (bs : list bool) :=
        if size_constrained hi then
          match hi with
          | Some h =>
              match get_bits (range_bits (h - lo + 1)) bs with
              | Some (k, r) => get_items get_bit (Z.to_nat (k + lo)) r
              | None => None
              end
          | None => None
          end
        else general bs in
      if ext then
        match bs with
        | false :: r => root r
        | true :: r => general r
        | [] => None
        end
      else root bs
  end.

(* X.691 (08/2015) clause 16.  16.2/16.3: with a NamedBitList trailing 0 bits are
   removed, then added again as needed to satisfy the effective size constraint, so
   that the transmitted value is the smallest one; without one the bits are sent as
   they are.  16.6: extensible constraint: a bit saying whether the length is outside
   the root.  16.8-16.11 / 11.9: fixed size below 64K: no length; ub below 64K: length
   - lb as a constrained whole number; else the general length determinant (fragments
   of 16K bits).  Outside the root: the general length determinant. *)
Definition spec_bits_uper (s : scon) (named : bool) (bs0 : list bool) : option (list bool) :=
  match s with
  | SCon lo hi ext =>
      let bs := if named then
                  let c := strip_tz bs0 in
                  if zlen c <? lo then c ++ repeat false (Z.to_nat (lo - zlen c)) else c
                else bs0 in
      let n := zlen bs in
      let inroot := in_scon s n in
      let general := counted (bit_items bs) in
      if inroot then
        Some ((if ext then [false] else []) ++
              (if size_constrained hi then
                 match hi with
                 | Some h => nbits (range_bits (h - lo + 1)) (n - lo) ++ bs
                 | None => general
                 end
               else general))
      else if ext then Some (true :: general)
      else None
  end.

(* BIT_STRING_encode_oer: fixed size: the octets, zero octets up to ceil(n/8) (a longer
   value fails; the number of BITS is not compared); else length (1 + octets), the
   unused-bits octet, the octets *)
Definition bits_oer (s : scon) (bs : list bool) : option (list Z) :=
  let os := bits_to_bytes bs in
  match oer_fixed_size s with
  | Some n =>
      let ctb := (n + 7) / 8 in
      if ctb <? zlen os then None
      else Some (os ++ repeat 0 (Z.to_nat (ctb - zlen os)))
  | None => Some (oer_length (1 + zlen os) ++ [unused_bits (zlen bs)] ++ os)
  end.

(* BIT_STRING_decode_oer *)
Definition bits_oer_dec (s : scon) (bs : list Z) : option (list bool * list Z) :=
  match oer_fixed_size s with
  | Some n =>
      match take ((n + 7) / 8) bs with
      | Some (os, r) => Some (firstn (Z.to_nat n) (bytes_bits os), r)
      | None => None
      end
  | None =>
      match oer_fetch_length bs with
      | Some (len, r) =>
          if len <? 1 then None
          else match take len r with
               | Some (u :: body, r') =>
                   if (u <? 0) || (7 <? u) then None
                   else Some (firstn (Z.to_nat (8 * zlen body - u)) (bytes_bits body), r')
               | _ => None
               end
      | None => None
      end
  end.

(* X.696 (08/2015) clause 13: fixed size (single value, not extensible): the bits in
   ceil(n/8) octets, the unused bits of the last one zero, no length, no initial octet
   (13.1); otherwise a length determinant counting the initial octet and the octets,
   the initial octet = number of unused bits, the octets (13.2) *)
Definition spec_bits_oer (s : scon) (bs : list bool) : option (list Z) :=
  match oer_fixed_size s with
  | Some n => if zlen bs =? n then Some (bits_to_bytes bs) else None
  | None => Some (oer_length (1 + (zlen bs + 7) / 8) ++ [unused_bits (zlen bs)] ++ bits_to_bytes bs)
  end.

(* ================= translation into the base algebra (DER / BER) ================= *)

Definition any_int : icon := ICon None None false.
Definition any_size : scon := SCon 0 None false.

Definition leaf_tag (l : leaf) : Z :=
  match l with LEnum tg _ _ _ => tg | LBits tg _ _ => tg end.

Fixpoint elem_base (e : pelem) : ty :=
  match e with
  | ELeaf (LEnum tg _ _ _) => TInt tg any_int
  | ELeaf (LBits tg _ _) => TOct tg any_size
  | ETag tg e' => TTag tg (elem_base e')
  | EBase t => t
  end.

Definition member_base (m : bool * pelem) : ty :=
  if fst m then TOpt (elem_base (snd m)) else elem_base (snd m).

Definition to_base (t : pty) : ty :=
  match t with
  | PElem e => elem_base e
  | PSeq tg ms => TSeq tg (map member_base ms)
  | PSeqOf tg s e => TSeqOf tg s (elem_base e)
  end.

(* [named] = use the X.690 11.2.2 contents (spec) instead of the C's *)
Definition pev_base (std : bool) (e : pelem) (x : pev) : val :=
  match x with
  | XEnum z => VInt z
  | XBits bs =>
      let named := (fix nm (e : pelem) : bool :=
                      match e with
                      | ELeaf (LBits _ _ nb) => nb
                      | ETag _ e' => nm e'
                      | _ => false
                      end) e in
      VOct (if std then spec_bits_contents named bs else bits_contents bs)
  | XBase v => v
  end.

Fixpoint members_base (std : bool) (ms : list (bool * pelem)) (xs : list (option pev)) : list val :=
  match ms, xs with
  | m :: ms', x :: xs' =>
      (match x with
       | None => VNone
       | Some x' => if fst m then VSome (pev_base std (snd m) x') else pev_base std (snd m) x'
       end) :: members_base std ms' xs'
  | _, _ => []
  end.

Definition val_base (std : bool) (t : pty) (v : pval) : option val :=
  match t, v with
  | PElem e, PVElem x => Some (pev_base std e x)
  | PSeq _ ms, PVSeq xs =>
      if (length ms =? length xs)%nat then Some (VSeq (members_base std ms xs)) else None
  | PSeqOf _ _ e, PVList xs => Some (VList (map (pev_base std e) xs))
  | _, _ => None
  end.

(* back from what the base BER reader returns *)
Fixpoint pev_back (e : pelem) (v : val) : option pev :=
  match e with
  | ELeaf (LEnum _ _ _ _) => match v with VInt z => Some (XEnum z) | _ => None end
  | ELeaf (LBits _ _ _) =>
      match v with
      | VOct c => match bits_of_contents c with Some bs => Some (XBits bs) | None => None end
      | _ => None
      end
  | ETag _ e' => pev_back e' v
  | EBase _ => Some (XBase v)
  end.

Fixpoint members_back (ms : list (bool * pelem)) (vs : list val) : option (list (option pev)) :=
  match ms, vs with
  | [], [] => Some []
  | m :: ms', v :: vs' =>
      let head :=
        if fst m then
          match v with
          | VNone => Some None
          | VSome v' => match pev_back (snd m) v' with Some x => Some (Some x) | None => None end
          | _ => None
          end
        else match pev_back (snd m) v with Some x => Some (Some x) | None => None end in
      match head, members_back ms' vs' with
      | Some h, Some r => Some (h :: r)
      | _, _ => None
      end
  | _, _ => None
  end.

Definition val_back (t : pty) (v : val) : option pval :=
  match t, v with
  | PElem e, _ => match pev_back e v with Some x => Some (PVElem x) | None => None end
  | PSeq _ ms, VSeq vs => match members_back ms vs with Some xs => Some (PVSeq xs) | None => None end
  | PSeqOf _ _ e, VList vs =>
      match option_all (map (pev_back e) vs) with Some xs => Some (PVList xs) | None => None end
  | _, _ => None
  end.

(* DER as the C writes it; [p_der true] = X.690 (differs only for NamedBitList types) *)
Definition p_der (std : bool) (t : pty) (v : pval) : option (list Z) :=
  match val_base std t v with
  | Some bv => der (to_base t) bv
  | None => None
  end.

Definition p_ber_dec (t : pty) (bs : list Z) : option (pval * list Z) :=
  match ber_dec (to_base t) bs with
  | Some (bv, rest) => match val_back t bv with Some v => Some (v, rest) | None => None end
  | None => None
  end.

Definition p_ber_decode (t : pty) (bs : list Z) : option (pval * Z) :=
  match p_ber_dec t bs with
  | Some (v, rest) => Some (v, zlen bs - zlen rest)
  | None => None
  end.

(* ================= unaligned PER ================= *)

Section Std.
  (* std = false: the C; std = true: X.691 (the leaves by spec_*, base members by the
     base model's std = true) *)
  Variable std : bool.

  Definition leaf_uper (l : leaf) (x : pev) : option (list bool) :=
    match l, x with
    | LEnum _ root ext adds, XEnum z =>
        if std then spec_enum_uper root ext adds z else enum_uper root ext adds z
    | LBits _ s named, XBits bs =>
        if std then spec_bits_uper s named bs else bits_uper s bs
    | _, _ => None
    end.

  Fixpoint e_uper (e : pelem) (x : pev) : option (list bool) :=
    match e with
    | ELeaf l => leaf_uper l x
    | ETag _ e' => e_uper e' x
    | EBase t => match x with XBase v => uper std t v | _ => None end
    end.

  Definition m_uper (m : bool * pelem) (x : option pev) : option (list bool) :=
    match x with
    | None => if fst m then Some [] else None
    | Some x' => e_uper (snd m) x'
    end.

  Fixpoint ms_uper (ms : list (bool * pelem)) (xs : list (option pev)) : option (list bool) :=
    match ms, xs with
    | [], [] => Some []
    | m :: ms', x :: xs' =>
        match m_uper m x, ms_uper ms' xs' with
        | Some a, Some b => Some (a ++ b)
        | _, _ => None
        end
    | _, _ => None
    end.

  Fixpoint p_presence (ms : list (bool * pelem)) (xs : list (option pev)) : list bool :=
    match ms, xs with
    | m :: ms', x :: xs' =>
        (if fst m then [match x with None => false | Some _ => true end] else []) ++ p_presence ms' xs'
    | _, _ => []
    end.

  Definition p_uper (t : pty) (v : pval) : option (list bool) :=
    match t, v with
    | PElem e, PVElem x => e_uper e x
    | PSeq _ ms, PVSeq xs =>
        match ms_uper ms xs with
        | Some body => Some (p_presence ms xs ++ body)
        | None => None
        end
    | PSeqOf _ s e, PVList xs =>
        match option_all (map (e_uper e) xs) with
        | Some es => sized s es
        | None => None
        end
    | _, _ => None
    end.

  Definition leaf_uper_dec (l : leaf) (bs : list bool) : option (pev * list bool) :=
    match l with
    | LEnum _ root ext adds =>
        match enum_uper_dec root ext adds bs with Some (z, r) => Some (XEnum z, r) | None => None end
    | LBits _ s _ =>
        match bits_uper_dec s bs with Some (b, r) => Some (XBits b, r) | None => None end
    end.

  Fixpoint e_uper_dec (e : pelem) (bs : list bool) : option (pev * list bool) :=
    match e with
    | ELeaf l => leaf_uper_dec l bs
    | ETag _ e' => e_uper_dec e' bs
    | EBase t => match uper_dec std t bs with Some (v, r) => Some (XBase v, r) | None => None end
    end.

  Fixpoint ms_uper_dec (ms : list (bool * pelem)) (pres : list bool) (bs : list bool)
    : option (list (option pev) * list bool) :=
    match ms with
    | [] => Some ([], bs)
    | m :: ms' =>
        if fst m then
          match pres with
          | true :: pres' =>
              match e_uper_dec (snd m) bs with
              | Some (x, r) =>
                  match ms_uper_dec ms' pres' r with
                  | Some (xs, r') => Some (Some x :: xs, r')
                  | None => None
                  end
              | None => None
              end
          | false :: pres' =>
              match ms_uper_dec ms' pres' bs with
              | Some (xs, r') => Some (None :: xs, r')
              | None => None
              end
          | [] => None
          end
        else
          match e_uper_dec (snd m) bs with
          | Some (x, r) =>
              match ms_uper_dec ms' pres r with
              | Some (xs, r') => Some (Some x :: xs, r')
              | None => None
              end
          | None => None
          end
    end.

  Definition p_uper_dec (t : pty) (bs : list bool) : option (pval * list bool) :=
    match t with
    | PElem e => match e_uper_dec e bs with Some (x, r) => Some (PVElem x, r) | None => None end
    | PSeq _ ms =>
        match take_bits (length (filter (fun m : bool * pelem => fst m) ms)) bs with
        | Some (pres, r0) =>
            match ms_uper_dec ms pres r0 with
            | Some (xs, r) => Some (PVSeq xs, r)
            | None => None
            end
        | None => None
        end
    | PSeqOf _ s e =>
        match get_sized (e_uper_dec e) s bs with
        | Some (xs, r) => Some (PVList xs, r)
        | None => None
        end
    end.
End Std.

Definition p_uper_encode (std : bool) (t : pty) (v : pval) : option (list Z) :=
  match p_uper std t v with
  | Some [] => Some [0]
  | Some bits => Some (bits_to_bytes bits)
  | None => None
  end.

Definition p_uper_decode (std : bool) (t : pty) (bytes : list Z) : option (pval * Z) :=
  match p_uper_dec std t (bytes_bits bytes) with
  | Some (v, rest) =>
      let used := zlen (bytes_bits bytes) - zlen rest in
      Some (v, Z.max 1 ((used + 7) / 8))
  | None => None
  end.

(* ================= OER ================= *)

Section OerStd.
  (* std = true: the leaves by spec_* *)
  Variable std : bool.

  Definition leaf_oer (l : leaf) (x : pev) : option (list Z) :=
    match l, x with
    | LEnum _ _ _ _, XEnum z => Some (if std then spec_enum_oer z else enum_oer z)
    | LBits _ s _, XBits bs => if std then spec_bits_oer s bs else bits_oer s bs
    | _, _ => None
    end.

  Fixpoint e_oer (e : pelem) (x : pev) : option (list Z) :=
    match e with
    | ELeaf l => leaf_oer l x
    | ETag _ e' => e_oer e' x
    | EBase t => match x with XBase v => oer t v | _ => None end
    end.

  Definition m_oer (m : bool * pelem) (x : option pev) : option (list Z) :=
    match x with
    | None => if fst m then Some [] else None
    | Some x' => e_oer (snd m) x'
    end.

  Fixpoint ms_oer (ms : list (bool * pelem)) (xs : list (option pev)) : option (list Z) :=
    match ms, xs with
    | [], [] => Some []
    | m :: ms', x :: xs' =>
        match m_oer m x, ms_oer ms' xs' with
        | Some a, Some b => Some (a ++ b)
        | _, _ => None
        end
    | _, _ => None
    end.

  Definition p_oer (t : pty) (v : pval) : option (list Z) :=
    match t, v with
    | PElem e, PVElem x => e_oer e x
    | PSeq _ ms, PVSeq xs =>
        match ms_oer ms xs with
        | Some body => Some (bits_to_bytes (p_presence ms xs) ++ body)
        | None => None
        end
    | PSeqOf _ _ e, PVList xs =>
        match option_all (map (e_oer e) xs) with
        | Some es => Some (oer_quantity (zlen xs) ++ concat es)
        | None => None
        end
    | _, _ => None
    end.
End OerStd.

Definition leaf_oer_dec (l : leaf) (bs : list Z) : option (pev * list Z) :=
  match l with
  | LEnum _ _ _ _ =>
      match enum_oer_dec bs with Some (z, r) => Some (XEnum z, r) | None => None end
  | LBits _ s _ =>
      match bits_oer_dec s bs with Some (b, r) => Some (XBits b, r) | None => None end
  end.

Fixpoint e_oer_dec (e : pelem) (bs : list Z) : option (pev * list Z) :=
  match e with
  | ELeaf l => leaf_oer_dec l bs
  | ETag _ e' => e_oer_dec e' bs
  | EBase t => match oer_dec t bs with Some (v, r) => Some (XBase v, r) | None => None end
  end.

Fixpoint ms_oer_dec (ms : list (bool * pelem)) (pres : list bool) (bs : list Z)
  : option (list (option pev) * list Z) :=
  match ms with
  | [] => Some ([], bs)
  | m :: ms' =>
      if fst m then
        match pres with
        | true :: pres' =>
            match e_oer_dec (snd m) bs with
            | Some (x, r) =>
                match ms_oer_dec ms' pres' r with
                | Some (xs, r') => Some (Some x :: xs, r')
                | None => None
                end
            | None => None
            end
        | false :: pres' =>
            match ms_oer_dec ms' pres' bs with
            | Some (xs, r') => Some (None :: xs, r')
            | None => None
            end
        | [] => None
        end
      else
        match e_oer_dec (snd m) bs with
        | Some (x, r) =>
            match ms_oer_dec ms' pres r with
            | Some (xs, r') => Some (Some x :: xs, r')
            | None => None
            end
        | None => None
        end
  end.

Definition p_oer_dec (t : pty) (bs : list Z) : option (pval * list Z) :=
  match t with
  | PElem e => match e_oer_dec e bs with Some (x, r) => Some (PVElem x, r) | None => None end
  | PSeq _ ms =>
      let nopt := length (filter (fun m : bool * pelem => fst m) ms) in
      match take (Z.of_nat ((nopt + 7) / 8)) bs with
      | Some (pb, r0) =>
          match take_bits nopt (bytes_bits pb) with
          | Some (pres, _) =>
              match ms_oer_dec ms pres r0 with
              | Some (xs, r) => Some (PVSeq xs, r)
              | None => None
              end
          | None => None
          end
      | None => None
      end
  | PSeqOf _ _ e =>
      match oer_get_quantity bs with
      | Some (n, r) =>
          match dec_items (e_oer_dec e) (Z.to_nat n) r with
          | Some (xs, r') => Some (PVList xs, r')
          | None => None
          end
      | None => None
      end
  end.

Definition p_oer_decode (t : pty) (bs : list Z) : option (pval * Z) :=
  match p_oer_dec t bs with
  | Some (v, rest) => Some (v, zlen bs - zlen rest)
  | None => None
  end.
