(* Rt/OpenTypeContainer.v — the container of an open type and what must be left of it (C18, round 4).
   Executable model, no proofs (they are in OpenTypeContainerProofs.v).

   skeletons/per_opentype.c:uper_open_type_get_simple() collects the octets of the container, runs the decoder of the
   selected type on them and then looks at what is left:
       padding = spd.nbits - spd.nboff;
       if((padding < 8 || (spd.nboff == 0 && spd.nbits == 8 && spd.buffer == buf)) && per_get_few_bits(&spd, padding) == 0) OK
   = the inner decoder consumed everything up to at most 7 padding bits, or (X.691 10.1.3) the type took NO bits and
   the container is exactly ONE octet; what is left is zero.  [container_ok] is that test on (container bits, bits
   left); OpenType.uper_dec_open is written with the same expression (proved equal in the proofs file).
   [container_relaxed] is the test of the seeded change C18-9 ("nothing was read, the octets are a filler":
   spd.nboff == 0 alone).

   skeletons/oer_decoder.c:oer_open_type_get() cuts the container out by its length determinant and runs the inner
   decoder on exactly those octets; it returns len_len + container_len when the decoder says RC_OK AND consumed the
   whole container (`dr.code == RC_OK && dr.consumed == container_len`, since C18-fix-9; before that repair `consumed`
   was not looked at: finding C18-oer-open-type-leftover, fixed); anything else frees the value and fails.
   [oer_dec_open] is that reader: what X.696 means. *)
From Coq Require Import ZArith List Bool.
From A1 Require Import Base.Bytes Rt.Types Rt.Uper Rt.Oer.
Import ListNotations.
Local Open Scope Z_scope.

Definition container_ok (ib pad : list bool) : bool :=
  ((length pad <? 8)%nat || ((length pad =? length ib)%nat && (length ib =? 8)%nat)) && forallb negb pad.

Definition container_relaxed (ib pad : list bool) : bool :=
  ((length pad <? 8)%nat || (length pad =? length ib)%nat) && forallb negb pad.

(* the reader of OpenType.uper_dec_open with the test as a parameter *)
Definition uper_dec_open_with (test : list bool -> list bool -> bool) (t : ty) (bs : list bool) : option (val * list bool) :=
  match get_counted get_octet (S (length bs)) bs with
  | Some (bytes, r) =>
      let ib := bytes_bits bytes in
      match uper_dec false t ib with
      | Some (v, pad) => if test ib pad then Some (v, r) else None
      | None => None
      end
  | None => None
  end.

(* ---- OER ---- *)

Definition oer_dec_open (t : ty) (bs : list Z) : option (val * list Z) :=
  match oer_get_length bs with
  | Some (n, r) =>
      match take n r with
      | Some (c, r') =>
          match oer_dec t c with
          | Some (v, []) => Some (v, r')
          | _ => None
          end
      | None => None
      end
  | None => None
  end.

Definition oer_decode_open (t : ty) (bs : list Z) : option (val * Z) :=
  match oer_dec_open t bs with
  | Some (v, rest) => Some (v, zlen bs - zlen rest)
  | None => None
  end.
