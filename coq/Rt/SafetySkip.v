(* Rt/SafetySkip.v -- the four "skip what I do not know" leaf functions of the
   decoders of extensible types, with the reads they make written out:

     ber_skip_length      skeletons/ber_tlv_length.c   (BER: unknown TLV, definite or
                                                        indefinite, nested)
     uper_open_type_skip  skeletons/per_opentype.c     (UPER: unknown addition = open type)
     oer_open_type_skip   skeletons/oer_decoder.c      (OER: unknown addition = open type)
     xer_skip_unknown     skeletons/xer_decoder.c      (XER: unknown element, depth counter)

   A buffer is a list, "size" its length.  The octets ber_skip_length inspects
   DIRECTLY (the end-of-contents test ptr[0], ptr[1]) are read through [nth_error]:
   a read at an index >= size gives the result [SOob] instead of a value.  The
   theorems say that [SOob] is never the result (the two octets are known to exist
   when they are looked at: the tag fetch and the recursive call have counted them),
   that a positive answer never exceeds the size, that the fuel of the model (the C
   recursion has none of its own when no codec context limits the stack) is never
   the reason of an answer, and that a positive answer depends on the counted octets
   only (anything may follow them).

   Model of the code that exists: the UPER skipper is the closed form of
   uper_sot_suck under uper_open_type_get_simple ([Ext.uper_open_skip]: the whole
   contents, whatever its size), the OER skipper advances over the length determinant
   and that many octets ([Ext.oer_open_skip], [oer_open_type_skip_m]).  (Both used to
   stop short — contents of 3n octets only / the determinant only, findings of C01/C03 —
   and were repaired in the fixer round, notes/fixes/D/03 and 04; the model followed.)
   What is stated here is that they stay inside the buffer. *)
From Coq Require Import ZArith List Lia Bool ZifyBool.
From A1 Require Import Base.Bytes Leaf.BerTL Leaf.BerTLProofs
  Rt.Types Rt.Comb Rt.Der Rt.Uper Rt.Oer Rt.Ext Rt.Safety.
Import ListNotations.
Local Open Scope Z_scope.

(* ------------------------------------------------------------------ BER *)

Inductive sres := SOk (n : nat) | SMore | SErr | SFuel | SOob.

(* BER_TLV_CONSTRUCTED(ptr): bit 6 of the first tag octet *)
Definition cons_bit (p : list Z) : bool :=
  match p with
  | b :: _ => (b / 32) mod 2 =? 1
  | [] => false
  end.

(* if(ptr[0] == 0 && ptr[1] == 0): None = one of the two reads is outside [0, size) *)
Definition eoc_test (p : list Z) : option bool :=
  match nth_error p 0, nth_error p 1 with
  | Some a, Some b => Some ((a =? 0) && (b =? 0))
  | _, _ => None
  end.

(* the for(;;) loop over the TLVs inside an indefinite-length TLV; [rec] is
   ber_skip_length itself (one stack frame deeper) *)
Fixpoint skip_loop (rec : bool -> list Z -> sres) (g : nat) (skip : nat) (p : list Z) : sres :=
  match g with
  | O => SFuel
  | S g' =>
      match fetch_tag p with
      | FMore => SMore
      | FErr => SErr
      | FOk _ tl =>
          match rec (cons_bit p) (skipn tl p) with
          | SOk l2 =>
              match eoc_test p with
              | None => SOob
              | Some true => SOk (skip + tl + l2)
              | Some false => skip_loop rec g' (skip + tl + l2) (skipn (tl + l2) p)
              end
          | r => r
          end
      end
  end.

Fixpoint skip_length (fuel : nat) (c : bool) (buf : list Z) : sres :=
  match fuel with
  | O => SFuel
  | S f =>
      match fetch_length c buf with
      | FMore => SMore
      | FErr => SErr
      | FOk vlen ll =>
          if 0 <=? vlen then
            (* skip = ll + vlen; if(skip > size) return 0; *)
            if Z.of_nat ll + vlen <=? zlen buf then SOk (ll + Z.to_nat vlen) else SMore
          else skip_loop (skip_length f) f ll (skipn ll buf)
      end
  end.

(* what the C computes when no codec context bounds the stack *)
Definition ber_skip_length (c : bool) (buf : list Z) : sres := skip_length (S (length buf)) c buf.

(* --- never outside the buffer, never more than the buffer --- *)

Definition rec_bounded (rec : bool -> list Z -> sres) : Prop :=
  forall c b n, rec c b = SOk n -> (1 <= n <= length b)%nat.

Lemma eoc_test_some p : (2 <= length p)%nat -> exists b, eoc_test p = Some b.
Proof.
  destruct p as [|a [|b tl]]; cbn [length]; try lia. intros _. eexists. reflexivity.
Qed.

Lemma skip_loop_bounds rec : rec_bounded rec ->
  forall g skip p n, skip_loop rec g skip p = SOk n -> (skip + 2 <= n <= skip + length p)%nat.
Proof.
  intros Hr. induction g as [|g IH]; intros skip p n H; cbn [skip_loop] in H; [discriminate|].
  destruct (fetch_tag p) as [tv tl| |] eqn:Et; try discriminate.
  apply ber_fetch_tag_in_bounds in Et.
  destruct (rec (cons_bit p) (skipn tl p)) as [l2| | | |] eqn:Er; try discriminate.
  apply Hr in Er. rewrite skipn_length in Er.
  destruct (eoc_test p) as [[]|]; try discriminate.
  - injection H as <-. lia.
  - apply IH in H. rewrite skipn_length in H. lia.
Qed.

Theorem skip_length_bounds : forall f, rec_bounded (skip_length f).
Proof.
  induction f as [|f IH]; intros c buf n H; cbn [skip_length] in H; [discriminate|].
  destruct (fetch_length c buf) as [vlen ll| |] eqn:El; try discriminate.
  apply fetch_length_count in El.
  destruct (0 <=? vlen) eqn:Ev.
  - destruct (Z.of_nat ll + vlen <=? zlen buf) eqn:Es; [|discriminate].
    injection H as <-. unfold zlen in Es. lia.
  - apply (skip_loop_bounds _ IH) in H. rewrite skipn_length in H. lia.
Qed.

Definition rec_no_oob (rec : bool -> list Z -> sres) : Prop := forall c b, rec c b <> SOob.

Lemma skip_loop_no_oob rec : rec_bounded rec -> rec_no_oob rec ->
  forall g skip p, skip_loop rec g skip p <> SOob.
Proof.
  intros Hb Ho. induction g as [|g IH]; intros skip p; cbn [skip_loop]; [discriminate|].
  destruct (fetch_tag p) as [tv tl| |] eqn:Et; try discriminate.
  apply ber_fetch_tag_in_bounds in Et.
  destruct (rec (cons_bit p) (skipn tl p)) as [l2| | | |] eqn:Er; try discriminate.
  - pose proof (Hb _ _ _ Er) as Hl. rewrite skipn_length in Hl.
    assert (H2 : (2 <= length p)%nat) by lia.
    destruct (eoc_test_some p H2) as [b ->].
    destruct b; [discriminate|apply IH].
  - exfalso. exact (Ho _ _ Er).
Qed.

Theorem skip_length_no_oob : forall f, rec_no_oob (skip_length f).
Proof.
  induction f as [|f IH]; intros c buf; cbn [skip_length]; [discriminate|].
  destruct (fetch_length c buf) as [vlen ll| |]; try discriminate.
  destruct (0 <=? vlen).
  - destruct (Z.of_nat ll + vlen <=? zlen buf); discriminate.
  - apply skip_loop_no_oob; [apply skip_length_bounds|exact IH].
Qed.

(* --- the fuel is never the reason --- *)

Lemma skip_loop_fuel rec : rec_bounded rec ->
  forall f : nat, (forall c b, (length b < f)%nat -> rec c b <> SFuel) ->
  forall g skip p, (length p < g)%nat -> (length p < f)%nat -> skip_loop rec g skip p <> SFuel.
Proof.
  intros Hb f Hf. induction g as [|g IH]; intros skip p Hg Hpf; [lia|]. cbn [skip_loop].
  destruct (fetch_tag p) as [tv tl| |] eqn:Et; try discriminate.
  apply ber_fetch_tag_in_bounds in Et.
  destruct (rec (cons_bit p) (skipn tl p)) as [l2| | | |] eqn:Er; try discriminate.
  - pose proof (Hb _ _ _ Er) as Hl. rewrite skipn_length in Hl.
    destruct (eoc_test p) as [[]|]; try discriminate.
    apply IH; rewrite skipn_length; lia.
  - exfalso. apply (Hf (cons_bit p) (skipn tl p)); [rewrite skipn_length; lia|exact Er].
Qed.

Theorem skip_length_fuel : forall f c buf, (length buf < f)%nat -> skip_length f c buf <> SFuel.
Proof.
  induction f as [|f IH]; intros c buf Hf; [lia|]. cbn [skip_length].
  destruct (fetch_length c buf) as [vlen ll| |] eqn:El; try discriminate.
  apply fetch_length_count in El.
  destruct (0 <=? vlen).
  - destruct (Z.of_nat ll + vlen <=? zlen buf); discriminate.
  - apply (skip_loop_fuel _ (skip_length_bounds f) f); [exact IH| |]; rewrite skipn_length; lia.
Qed.

Lemma skip_loop_more_fuel rec rec' :
  (forall c b, rec c b <> SFuel -> rec' c b = rec c b) ->
  forall g skip p, skip_loop rec g skip p <> SFuel ->
  skip_loop rec' (S g) skip p = skip_loop rec g skip p.
Proof.
  intros Hr. induction g as [|g IH]; intros skip p H; [exfalso; apply H; reflexivity|].
  remember (S g) as g1. cbn [skip_loop]. subst g1. cbn [skip_loop] in H.
  cbn [skip_loop].
  destruct (fetch_tag p) as [tv tl| |]; try reflexivity.
  destruct (rec (cons_bit p) (skipn tl p)) as [l2| | | |] eqn:Er.
  - rewrite (Hr _ _ ltac:(rewrite Er; discriminate)), Er.
    destruct (eoc_test p) as [[]|]; try reflexivity.
    apply IH. exact H.
  - rewrite (Hr _ _ ltac:(rewrite Er; discriminate)), Er. reflexivity.
  - rewrite (Hr _ _ ltac:(rewrite Er; discriminate)), Er. reflexivity.
  - exfalso. apply H. reflexivity.
  - rewrite (Hr _ _ ltac:(rewrite Er; discriminate)), Er. reflexivity.
Qed.

Lemma skip_length_more_fuel : forall f c buf, skip_length f c buf <> SFuel ->
  skip_length (S f) c buf = skip_length f c buf.
Proof.
  induction f as [|f IH]; intros c buf H; [exfalso; apply H; reflexivity|].
  remember (S f) as f1. cbn [skip_length]. subst f1. cbn [skip_length] in H.
  cbn [skip_length].
  destruct (fetch_length c buf) as [vlen ll| |]; try reflexivity.
  destruct (0 <=? vlen); [reflexivity|].
  apply skip_loop_more_fuel; [exact (fun c b => IH c b)|exact H].
Qed.

Lemma skip_length_add_fuel : forall (k : nat) f c buf, skip_length f c buf <> SFuel ->
  skip_length (k + f) c buf = skip_length f c buf.
Proof.
  induction k as [|k IH]; intros f c buf H; [reflexivity|].
  change (S k + f)%nat with (S (k + f)).
  rewrite skip_length_more_fuel; [apply IH; exact H|]. rewrite IH by exact H. exact H.
Qed.

Theorem skip_length_fuel_suffices : forall (k : nat) c buf f, (length buf < f)%nat ->
  skip_length (k + f) c buf = skip_length f c buf.
Proof.
  induction k as [|k IH]; intros c buf f Hf; [reflexivity|].
  change (S k + f)%nat with (S (k + f)).
  rewrite skip_length_more_fuel; [apply IH; exact Hf|].
  rewrite IH by exact Hf. apply skip_length_fuel. exact Hf.
Qed.

Theorem ber_skip_length_any_fuel c buf f : (length buf < f)%nat ->
  skip_length f c buf = ber_skip_length c buf.
Proof.
  intros Hf. unfold ber_skip_length.
  replace f with ((f - S (length buf)) + S (length buf))%nat by lia.
  apply skip_length_fuel_suffices. lia.
Qed.

Theorem ber_skip_length_in_bounds c buf n :
  ber_skip_length c buf = SOk n -> (1 <= n <= length buf)%nat.
Proof. apply skip_length_bounds. Qed.

Theorem ber_skip_length_reads_in_bounds c buf : ber_skip_length c buf <> SOob.
Proof. apply skip_length_no_oob. Qed.

Theorem ber_skip_length_total c buf : ber_skip_length c buf <> SFuel.
Proof. apply skip_length_fuel. lia. Qed.

(* the change of seeded/C04-2 on this model: the end-of-contents test moved in front
   of the recursive call.  One octet 00 inside an indefinite-length TLV is then an
   out-of-bounds read; the unchanged function wants more. *)
Fixpoint skip_loop_early (rec : bool -> list Z -> sres) (g : nat) (skip : nat) (p : list Z) : sres :=
  match g with
  | O => SFuel
  | S g' =>
      match fetch_tag p with
      | FMore => SMore
      | FErr => SErr
      | FOk _ tl =>
          match eoc_test p with
          | None => SOob
          | Some true => SOk (skip + 2)
          | Some false =>
              match rec (cons_bit p) (skipn tl p) with
              | SOk l2 => skip_loop_early rec g' (skip + tl + l2) (skipn (tl + l2) p)
              | r => r
              end
          end
      end
  end.

Example early_eoc_test_reads_outside :
  skip_loop_early (skip_length 3) 3 1 [0] = SOob /\ ber_skip_length true [128; 0] = SMore.
Proof. split; vm_compute; reflexivity. Qed.

(* --- a positive answer depends on the counted octets only --- *)

Lemma fetch_tag_loop_app buf ext : forall val sk v n,
  fetch_tag_loop buf val sk = FOk v n -> fetch_tag_loop (buf ++ ext) val sk = FOk v n.
Proof.
  induction buf as [|b tl IH]; intros val sk v n H; cbn [fetch_tag_loop] in H; [discriminate|].
  cbn [app fetch_tag_loop].
  destruct (128 <=? b); [|exact H].
  destruct (two23 <=? val * 128 + (b - 128)); [discriminate|]. apply IH. exact H.
Qed.

Lemma fetch_tag_app buf ext v n :
  fetch_tag buf = FOk v n -> fetch_tag (buf ++ ext) = FOk v n.
Proof.
  destruct buf as [|b tl]; cbn [fetch_tag]; [discriminate|]. cbn [app fetch_tag].
  destruct (b mod 32 =? 31); [|exact (fun H => H)].
  destruct (fetch_tag_loop tl 0 2) as [n0 k| |] eqn:E; try discriminate.
  rewrite (fetch_tag_loop_app _ ext _ _ _ _ E). exact (fun H => H).
Qed.

Lemma fetch_len_loop_app ext : forall oct buf len sk v n,
  fetch_len_loop oct buf len sk = FOk v n -> fetch_len_loop oct (buf ++ ext) len sk = FOk v n.
Proof.
  induction oct as [|o IH]; intros buf len sk v n H; cbn [fetch_len_loop] in *; [exact H|].
  destruct buf as [|b tl]; [discriminate|]. cbn [app].
  destruct (len <? two55); [|discriminate]. apply IH. exact H.
Qed.

Lemma fetch_length_app c buf ext v n :
  fetch_length c buf = FOk v n -> fetch_length c (buf ++ ext) = FOk v n.
Proof.
  destruct buf as [|b tl]; cbn [fetch_length]; [discriminate|]. cbn [app fetch_length].
  destruct (b <? 128); [exact (fun H => H)|].
  destruct (c && (b =? 128)); [exact (fun H => H)|].
  destruct (b =? 255); [discriminate|].
  apply fetch_len_loop_app.
Qed.

Lemma skipn_app_le {A} n (a b : list A) : (n <= length a)%nat -> skipn n (a ++ b) = skipn n a ++ b.
Proof.
  intros H. rewrite skipn_app. replace (n - length a)%nat with O by lia. reflexivity.
Qed.

Lemma eoc_test_app p ext b : eoc_test p = Some b -> eoc_test (p ++ ext) = Some b.
Proof.
  destruct p as [|a [|a2 tl]]; cbn; try discriminate. exact (fun H => H).
Qed.

Lemma cons_bit_app p ext : p <> [] -> cons_bit (p ++ ext) = cons_bit p.
Proof. destruct p; [congruence|reflexivity]. Qed.

Definition rec_stable (rec : bool -> list Z -> sres) : Prop :=
  forall c b n ext, rec c b = SOk n -> rec c (b ++ ext) = SOk n.

Lemma skip_loop_app rec ext : rec_bounded rec -> rec_stable rec ->
  forall g skip p n, skip_loop rec g skip p = SOk n -> skip_loop rec g skip (p ++ ext) = SOk n.
Proof.
  intros Hb Hs. induction g as [|g IH]; intros skip p n H; cbn [skip_loop] in *; [discriminate|].
  destruct (fetch_tag p) as [tv tl| |] eqn:Et; try discriminate.
  rewrite (fetch_tag_app _ ext _ _ Et).
  apply ber_fetch_tag_in_bounds in Et.
  assert (Hp : p <> []) by (destruct p; [cbn in Et; lia|discriminate]).
  rewrite (cons_bit_app _ ext Hp), (skipn_app_le tl p ext) by lia.
  destruct (rec (cons_bit p) (skipn tl p)) as [l2| | | |] eqn:Er; try discriminate.
  rewrite (Hs _ _ _ ext Er).
  pose proof (Hb _ _ _ Er) as Hl. rewrite skipn_length in Hl.
  destruct (eoc_test p) as [e|] eqn:Ee; [|discriminate].
  rewrite (eoc_test_app _ ext _ Ee).
  destruct e; [exact H|].
  rewrite (skipn_app_le (tl + l2) p ext) by lia. apply IH. exact H.
Qed.

Theorem skip_length_app : forall f, rec_stable (skip_length f).
Proof.
  induction f as [|f IH]; intros c buf n ext H; cbn [skip_length] in *; [discriminate|].
  destruct (fetch_length c buf) as [vlen ll| |] eqn:El; try discriminate.
  rewrite (fetch_length_app _ _ ext _ _ El).
  apply fetch_length_count in El.
  destruct (0 <=? vlen) eqn:Ev.
  - destruct (Z.of_nat ll + vlen <=? zlen buf) eqn:Es; [|discriminate].
    assert (Hz : Z.of_nat ll + vlen <=? zlen (buf ++ ext) = true).
    { unfold zlen in *. rewrite app_length. lia. }
    rewrite Hz. exact H.
  - rewrite (skipn_app_le ll buf ext) by lia.
    apply skip_loop_app; [apply skip_length_bounds|exact IH|exact H].
Qed.

(* the answer for a buffer is the answer for any longer buffer with the same beginning:
   no octet behind the counted ones has been looked at *)
Theorem ber_skip_length_prefix_determined c buf n ext :
  ber_skip_length c buf = SOk n -> ber_skip_length c (buf ++ ext) = SOk n.
Proof.
  intros H. unfold ber_skip_length in *.
  apply (skip_length_app _ _ _ _ ext) in H.
  rewrite app_length.
  replace (S (length buf + length ext)) with (length ext + S (length buf))%nat by lia.
  rewrite skip_length_add_fuel; [exact H|]. rewrite H. discriminate.
Qed.

(* ------------------------------------------------------------------ UPER *)

Lemma get_open_bytes_spec bs buf r :
  get_open_bytes bs = Some (buf, r) -> exists a, bs = a ++ r /\ (8 <= length a)%nat.
Proof.
  unfold get_open_bytes. intros H.
  assert (Hs : suffix r bs) by (eapply (get_counted_suffix get_octet get_octet_suffix); exact H).
  destruct Hs as [a ->]. exists a. split; [reflexivity|].
  cbn [get_counted] in H.
  destruct (get_length (a ++ r)) as [[[n more] r0]|] eqn:El; [|discriminate].
  apply get_length_progress in El.
  unfold get_items in H.
  destruct (dec_items get_octet (Z.to_nat n) r0) as [[x r1]|] eqn:Ei; [|discriminate].
  apply (dec_items_suffix get_octet get_octet_suffix) in Ei. apply suffix_length in Ei.
  assert (Hr : (length r <= length r1)%nat).
  { destruct more.
    - destruct (get_counted get_octet (length (a ++ r)) r1) as [[y r2]|] eqn:Ec; [|discriminate].
      injection H as _ <-.
      apply (get_counted_suffix get_octet get_octet_suffix) in Ec. apply suffix_length in Ec. exact Ec.
    - injection H as _ <-. lia. }
  rewrite app_length in El. lia.
Qed.

Theorem uper_open_skip_in_bounds bs r :
  uper_open_skip bs = Some r -> exists a, bs = a ++ r /\ (8 <= length a)%nat.
Proof.
  unfold uper_open_skip.
  destruct (get_open_bytes bs) as [[buf r0]|] eqn:E; [|discriminate].
  intros H. injection H as <-. eapply get_open_bytes_spec. exact E.
Qed.

(* ------------------------------------------------------------------ OER *)

(* oer_fetch_length with its three answers kept apart *)
Definition oer_skip (bs : list Z) : fres :=
  match bs with
  | [] => FMore
  | b :: r =>
      if b <? 128 then FOk b 1
      else match take (b - 128) r with
           | None => FMore
           | Some (os, _) =>
               if 8 <? zlen (drop_zeros os) then FErr
               else if rsize_max <? be_val os then FErr
               else FOk (be_val os) (S (Z.to_nat (b - 128)))
           end
  end.

Theorem oer_skip_in_bounds bs v n : oer_skip bs = FOk v n -> (1 <= n <= length bs)%nat.
Proof.
  destruct bs as [|b r]; cbn [oer_skip]; [discriminate|].
  destruct (b <? 128) eqn:Eb.
  { intros H. injection H as _ <-. cbn [length]. lia. }
  destruct (take (b - 128) r) as [[os r']|] eqn:Et; [|discriminate].
  destruct (8 <? zlen (drop_zeros os)); [discriminate|].
  destruct (rsize_max <? be_val os); [discriminate|].
  intros H. injection H as _ <-.
  apply take_spec in Et. destruct Et as [-> Hl]. unfold zlen in Hl.
  cbn [length]. rewrite app_length. lia.
Qed.

(* it is the fetcher of the extensibility layer's model *)
Theorem oer_skip_is_fetch_length bs v r :
  oer_fetch_length bs = Some (v, r) ->
  exists n, oer_skip bs = FOk v n /\ r = skipn n bs.
Proof.
  destruct bs as [|b tl]; cbn [oer_fetch_length oer_skip]; [discriminate|].
  destruct (b <? 128) eqn:Eb.
  { intros H. injection H as <- <-. exists 1%nat. split; reflexivity. }
  destruct (take (b - 128) tl) as [[os r']|] eqn:Et; [|discriminate].
  destruct (8 <? zlen (drop_zeros os)); [discriminate|].
  destruct (rsize_max <? be_val os); [discriminate|].
  intros H. injection H as <- <-.
  exists (S (Z.to_nat (b - 128))). split; [reflexivity|].
  apply take_spec in Et. destruct Et as [-> Hl]. unfold zlen in Hl.
  cbn [skipn]. replace (Z.to_nat (b - 128)) with (length os) by lia.
  rewrite skipn_app, skipn_all, Nat.sub_diag. reflexivity.
Qed.

(* oer_open_type_skip: the size of the length determinant plus the length; "more" when the buffer does not hold
   that many octets (what the leaf driver's oskip command reports) *)
Definition oer_open_type_skip_m (bs : list Z) : fres :=
  match oer_skip bs with
  | FOk v n => if v <=? zlen (skipn n bs) then FOk v (n + Z.to_nat v) else FMore
  | x => x
  end.

Theorem oer_open_type_skip_in_bounds bs v n : oer_open_type_skip_m bs = FOk v n -> (1 <= n <= length bs)%nat.
Proof.
  unfold oer_open_type_skip_m. destruct (oer_skip bs) as [v0 n0| |] eqn:E; try discriminate.
  apply oer_skip_in_bounds in E.
  destruct (v0 <=? zlen (skipn n0 bs)) eqn:Ev; [|discriminate].
  intros H. injection H as _ <-. unfold zlen in Ev. rewrite skipn_length in Ev. lia.
Qed.

Theorem oer_open_skip_in_bounds bs r :
  oer_open_skip bs = Some r -> exists a, bs = a ++ r /\ (1 <= length a)%nat.
Proof.
  unfold oer_open_skip.
  destruct (oer_fetch_length bs) as [[n r0]|] eqn:E; [|discriminate].
  destruct (oer_skip_is_fetch_length _ _ _ E) as (k & Hk & ->).
  apply oer_skip_in_bounds in Hk.
  assert (H0 : exists a, bs = a ++ skipn k bs /\ (1 <= length a)%nat).
  { exists (firstn k bs). rewrite firstn_skipn, firstn_length. split; [reflexivity|lia]. }
  destruct (take n (skipn k bs)) as [[x r']|] eqn:Et; [|discriminate].
  intros H. injection H as <-. apply take_spec in Et. destruct Et as [Hx _].
  destruct H0 as (a & Ha & Hl). exists (a ++ x). rewrite <- app_assoc, <- Hx.
  split; [exact Ha|]. rewrite app_length. lia.
Qed.

(* ------------------------------------------------------------------ XER *)

(* xer_check_tag_e as xer_skip_unknown sees it *)
Inductive xct := XBoth | XUnkBoth | XOpening | XUnkOpening | XClosing | XUnkClosing | XOther.

(* returns (value, new depth); the C asserts depth > 0 on entry.  The closing tag that brings the counter to 0
   is the closing tag of the element the skip started with, whatever it is called: answer 1 for both classes
   (the answer 2 of the older code - "the enclosing element was closed" - is gone, fix 01 of notes/fixes/I) *)
Definition xer_skip (t : xct) (depth : Z) : Z * Z :=
  match t with
  | XBoth | XUnkBoth => (0, depth)
  | XOpening | XUnkOpening => (0, depth + 1)
  | XClosing | XUnkClosing => if depth - 1 =? 0 then (1, 0) else (0, depth - 1)
  | XOther => (-1, depth)
  end.

(* phase 3 of the constructed XER decoders: feed tags until the answer is not 0 *)
Fixpoint xer_skip_run (evs : list xct) (depth : Z) (k : nat) : Z * Z * nat :=
  match evs with
  | [] => (0, depth, k)
  | e :: tl =>
      let '(r, d) := xer_skip e depth in
      if r =? 0 then xer_skip_run tl d (S k) else (r, d, S k)
  end.

Theorem xer_skip_depth t depth r d : 0 < depth -> xer_skip t depth = (r, d) ->
  (r = 0 -> 0 < d) /\ (r = 1 -> d = 0) /\ (r = -1 -> d = depth) /\
  (r = 0 \/ r = 1 \/ r = -1).
Proof.
  intros Hd. destruct t; cbn [xer_skip]; try (intros H; injection H as <- <-; lia).
  - destruct (depth - 1 =? 0) eqn:E; intros H; injection H as <- <-; lia.
  - destruct (depth - 1 =? 0) eqn:E; intros H; injection H as <- <-; lia.
Qed.

(* the precondition of the C's assert holds at every call of a run, the run looks at
   no more tags than there are, and it ends with depth 0 exactly when it reports the end *)
Theorem xer_skip_run_safe : forall evs depth k r d n, 0 < depth ->
  xer_skip_run evs depth k = (r, d, n) ->
  (k <= n <= k + length evs)%nat /\ (r = 0 -> 0 < d) /\ (r = 1 -> d = 0) /\ (r = 0 \/ r = 1 \/ r = -1).
Proof.
  induction evs as [|e tl IH]; intros depth k r d n Hd H; cbn [xer_skip_run] in H.
  - injection H as <- <- <-. cbn [length]. lia.
  - destruct (xer_skip e depth) as [r0 d0] eqn:E.
    pose proof (xer_skip_depth _ _ _ _ Hd E) as (H0 & H12 & _ & Hr).
    destruct (r0 =? 0) eqn:Er.
    + apply Z.eqb_eq in Er. apply IH in H; [|lia]. cbn [length]. lia.
    + injection H as <- <- <-. cbn [length]. lia.
Qed.
