(* Rt/ExtFormat.v — format facts about the building blocks of the extensibility
   layer (Rt/Ext.v), stated against the text of the standards:
     (A) X.696 16.4: the OER presence bitmap of the extension additions is a BIT STRING
         (length octet, unused-bits octet, the bits padded with zeros); X.696 16.2-16.3: the
         preamble starts with the extension bit, however many octets it has;
     (B) X.691 11.9.3.4 / 11.6: normally small length and normally small non-negative
         whole number: the bits written, clause by clause, and the C's readers read
         them back (since the repair of uper_put_nslength / uper_put_nsnnwn: also above
         64 / 63, where the leading 1 bit used to be missing);
     (C) X.691 11.2 / 11.9.3.5-8: the open type is the contents cut into fragments of
         m * 16K octets (1 <= m <= 4) followed by one fragment below 16K (possibly
         empty), each behind its length octet(s); it is a whole number of octets.
   Every theorem is unbounded. *)
From Coq Require Import ZArith List Lia Bool ZifyBool.
From A1 Require Import Base.Bytes Rt.Types Rt.Comb Rt.Der Rt.Uper Rt.UperBits Rt.UperCounted
  Rt.Oer Rt.Ext.
Import ListNotations.
Local Open Scope Z_scope.

Local Ltac Zify.zify_post_hook ::= Z.to_euclidean_division_equations.

Lemma some_inj {A} (a b : A) : Some a = Some b -> a = b.
Proof. intros H. injection H as H. exact H. Qed.

(* ================= (A) OER presence bitmap (X.696 16.4) ================= *)

Lemma unused_bits_range n : 0 <= unused_bits n <= 7.
Proof. unfold unused_bits. lia. Qed.

Lemma unused_bits_fill n : 0 <= n -> (n + unused_bits n) mod 8 = 0.
Proof. intros _. unfold unused_bits. lia. Qed.

Lemma unused_bits_pad_len (k : nat) : unused_bits (Z.of_nat k) = Z.of_nat (pad_len k).
Proof.
  unfold unused_bits, pad_len.
  pose proof (Nat.mod_upper_bound k 8 ltac:(lia)) as Hb.
  rewrite Nat2Z.inj_mod, Nat2Z.inj_sub by lia. rewrite Nat2Z.inj_mod. reflexivity.
Qed.

Theorem oer_ext_bitmap_format pres bm : oer_ext_bitmap pres = Some bm ->
  exists body,
    bm = (1 + (zlen pres + 7) / 8) :: unused_bits (zlen pres) :: body /\
    zlen body = (zlen pres + 7) / 8 /\
    bytes_bits body = pres ++ repeat false (Z.to_nat (unused_bits (zlen pres))).
Proof.
  unfold oer_ext_bitmap. cbv zeta.
  destruct (1 + (zlen pres + 7) / 8 <=? 127) eqn:E; [|discriminate].
  intros H. apply some_inj in H. subst bm. exists (bits_to_bytes pres).
  destruct (bits_to_bytes_spec pres) as [H1 H2].
  split; [reflexivity|]. split; [exact H2|].
  rewrite H1. unfold zlen. rewrite unused_bits_pad_len, Nat2Z.id. reflexivity.
Qed.

(* X.696 16.2-16.3: the preamble of an extensible SEQUENCE is the extension bit FOLLOWED by one presence bit per
   OPTIONAL/DEFAULT root component, padded with zero bits to a whole number of octets: whatever the number of such
   components (1, 2, 3, ... octets), the extension bit is the first bit of the first octet of the encoding *)
Theorem ext_oer_preamble_format tg root adds rvs avs bs :
  ext_oer (ESeq tg root adds) (EVSeq rvs avs) = Some bs ->
  exists tail,
    bytes_bits bs = (existsb is_present avs :: presence_bits root rvs)
                    ++ repeat false (pad_len (S (length (presence_bits root rvs)))) ++ bytes_bits tail.
Proof.
  cbn [ext_oer].
  destruct (enc_members oer root rvs) as [body|]; [|discriminate].
  destruct (enc_additions oer oer_open adds avs) as [ots|]; [|discriminate].
  cbv zeta.
  assert (Hpre : forall any tail,
    bytes_bits (bits_to_bytes (any :: presence_bits root rvs) ++ tail) =
    (any :: presence_bits root rvs) ++ repeat false (pad_len (S (length (presence_bits root rvs)))) ++ bytes_bits tail).
  { intros any tail. unfold bytes_bits. rewrite flat_map_app. fold (bytes_bits (bits_to_bytes (any :: presence_bits root rvs))).
    destruct (bits_to_bytes_spec (any :: presence_bits root rvs)) as [Hb _]. rewrite Hb.
    cbn [length]. rewrite <- app_assoc. reflexivity. }
  destruct (existsb is_present avs) eqn:Eany.
  - destruct (oer_ext_bitmap (map is_present avs)) as [bm|]; [|discriminate].
    intros H. apply some_inj in H. subst bs. exists (body ++ bm ++ ots). apply Hpre.
  - intros H. apply some_inj in H. subst bs. exists body. apply Hpre.
Qed.

(* ================= (B) normally small length / number ================= *)

(* X.691 11.9.3.4: up to 64 a single bit 0 and n - 1 in six bits; above, a single bit 1 and the
   general length determinant of 11.9.3.6 / 11.9.3.7 (the one that precedes a fragment: [frag_header]) *)
Theorem nslength_format n b : nslength n = Some b ->
  (1 <= n <= 64 /\ b = false :: nbits 6 (n - 1)) \/
  (64 < n < 16384 /\ b = true :: frag_header n).
Proof.
  unfold nslength, frag_header.
  destruct (n <=? 0) eqn:E0; [discriminate|].
  destruct (n <=? 64) eqn:E1.
  - intros H. apply some_inj in H. subst b. left. split; [lia|].
    rewrite (nbits_S 6). change (2 ^ Z.of_nat 6) with 64.
    replace ((n - 1) / 64) with 0 by lia. reflexivity.
  - destruct (n <=? 127) eqn:E2.
    + intros H. apply some_inj in H. subst b. right. split; [lia|reflexivity].
    + destruct (n <? 16384) eqn:E3; [|discriminate].
      intros H. apply some_inj in H. subst b. right. split; [lia|reflexivity].
Qed.

(* uper_get_nslength reads back what uper_put_nslength wrote, for every count it writes *)
Lemma nslength_rt n b r : nslength n = Some b -> get_nslength (b ++ r) = Some (n, r).
Proof.
  unfold nslength.
  destruct (n <=? 0) eqn:E0; [discriminate|].
  destruct (n <=? 64) eqn:E1.
  - intros H. apply some_inj in H. subst b. rewrite (nbits_S 6). change (2 ^ Z.of_nat 6) with 64.
    replace ((n - 1) / 64) with 0 by lia. cbn [Z.odd app get_nslength].
    rewrite get_bits_nbits by (change (2 ^ Z.of_nat 6) with 64; lia).
    replace (n - 1 + 1) with n by lia. reflexivity.
  - destruct (n <=? 127) eqn:E2.
    + intros H. apply some_inj in H. subst b. cbn [app get_nslength].
      rewrite get_length_short by lia. reflexivity.
    + destruct (n <? 16384) eqn:E3; [|discriminate].
      intros H. apply some_inj in H. subst b. cbn [app get_nslength].
      rewrite get_length_long by lia. reflexivity.
Qed.

(* X.691 11.6: up to 63 a single bit 0 and n in six bits; above, a single bit 1, the number k of
   octets n needs (as an 8-bit length determinant, 11.9.3.6) and n in k octets *)
Theorem nsnnwn_format n b : nsnnwn n = Some b ->
  (0 <= n <= 63 /\ b = false :: nbits 6 n) \/
  (exists k, 63 < n /\ 1 <= k <= 3 /\ 256 ^ (k - 1) <= n < 256 ^ k /\
             b = true :: nbits 8 k ++ nbits (Z.to_nat (8 * k)) n).
Proof.
  unfold nsnnwn.
  destruct (n <? 0) eqn:E0; [discriminate|].
  destruct (n <=? 63) eqn:E1.
  - intros H. apply some_inj in H. subst b. left. split; [lia|].
    rewrite (nbits_S 6). change (2 ^ Z.of_nat 6) with 64.
    replace (n / 64) with 0 by lia. reflexivity.
  - cbv zeta. intros H. right.
    destruct (n <? 256) eqn:E2.
    + change (1 =? 0) with false in H. cbv iota in H. apply some_inj in H. subst b.
      exists 1. change (256 ^ (1 - 1)) with 1. change (256 ^ 1) with 256.
      repeat split; try lia.
    + destruct (n <? 65536) eqn:E3.
      * change (2 =? 0) with false in H. cbv iota in H. apply some_inj in H. subst b.
        exists 2. change (256 ^ (2 - 1)) with 256. change (256 ^ 2) with 65536.
        repeat split; try lia.
      * destruct (n <? 16777216) eqn:E4.
        -- change (3 =? 0) with false in H. cbv iota in H. apply some_inj in H. subst b.
           exists 3. change (256 ^ (3 - 1)) with 65536. change (256 ^ 3) with 16777216.
           repeat split; try lia.
        -- change (0 =? 0) with true in H. discriminate H.
Qed.

(* uper_get_nsnnwn reads back what uper_put_nsnnwn wrote, up to two octets (it refuses three) *)
Lemma nsnnwn_rt n b r : n < 65536 ->
  nsnnwn n = Some b -> get_nsnnwn (b ++ r) = Some (n, r).
Proof.
  intros Hn. unfold nsnnwn.
  destruct (n <? 0) eqn:E0; [discriminate|].
  destruct (n <=? 63) eqn:E1.
  - intros H. apply some_inj in H. subst b. rewrite (nbits_S 6). change (2 ^ Z.of_nat 6) with 64.
    replace (n / 64) with 0 by lia. cbn [Z.odd app get_nsnnwn].
    apply get_bits_nbits. change (2 ^ Z.of_nat 6) with 64. lia.
  - cbv zeta.
    destruct (n <? 256) eqn:E2.
    + change (1 =? 0) with false. cbv iota.
      intros H. apply some_inj in H. subst b.
      change (Z.to_nat (8 * 1)) with 8%nat. cbn [app get_nsnnwn]. rewrite <- app_assoc.
      rewrite get_bits_nbits by (change (2 ^ Z.of_nat 8) with 256; lia).
      change (1 =? 0) with false. change (1 <? 3) with true. cbv iota.
      change (Z.to_nat (8 * 1)) with 8%nat.
      apply get_bits_nbits. change (2 ^ Z.of_nat 8) with 256. lia.
    + destruct (n <? 65536) eqn:E3; [|lia].
      change (2 =? 0) with false. cbv iota.
      intros H. apply some_inj in H. subst b.
      change (Z.to_nat (8 * 2)) with 16%nat. cbn [app get_nsnnwn]. rewrite <- app_assoc.
      rewrite get_bits_nbits by (change (2 ^ Z.of_nat 8) with 256; lia).
      change (2 =? 0) with false. change (2 <? 3) with true. cbv iota.
      change (Z.to_nat (8 * 2)) with 16%nat.
      apply get_bits_nbits. change (2 ^ Z.of_nat 16) with 65536. lia.
Qed.

(* ================= (C) open type / fragmentation ================= *)

Lemma get_open_bytes_open_type c r : bytes_ok c ->
  get_open_bytes (open_type c ++ r) = Some (c, r).
Proof.
  intros H. unfold get_open_bytes, open_type. apply counted_rt. apply octets_inv. exact H.
Qed.

Lemma bytes_bits_concat l : concat (map byte_bits l) = bytes_bits l.
Proof. unfold bytes_bits. symmetry. apply flat_map_concat_map. Qed.

(* the C's loop (put_counted) writes the fragments of X.691 11.9.3.5-8 *)
Lemma put_counted_emit_frags : forall fuel c, (length c < fuel)%nat ->
  put_counted fuel (map byte_bits c) = emit_frags (fragments fuel (zlen c)) c.
Proof.
  induction fuel as [|f IH]; intros c Hf; [lia|].
  rewrite put_counted_S. cbv zeta.
  assert (Hz : zlen (map byte_bits c) = zlen c) by (unfold zlen; rewrite map_length; reflexivity).
  rewrite Hz. cbn [fragments].
  assert (Hall : Z.to_nat (zlen c) = length c) by (unfold zlen; lia).
  destruct (zlen c <=? 127) eqn:E1.
  { destruct (zlen c <? 16384) eqn:E2; [|lia]. cbn [emit_frags]. unfold frag_header.
    rewrite E1, Hall, firstn_all, bytes_bits_concat, app_nil_r. reflexivity. }
  destruct (zlen c <? 16384) eqn:E2.
  { cbn [emit_frags]. unfold frag_header.
    rewrite E1, E2, Hall, firstn_all, bytes_bits_concat, app_nil_r. reflexivity. }
  set (m := Z.min (zlen c / 16384) 4).
  set (k := Z.to_nat (m * 16384)).
  assert (Hm : 1 <= m <= 4 /\ m * 16384 <= zlen c) by (subst m; lia).
  cbn [emit_frags]. fold k.
  assert (Hh : frag_header (m * 16384) = nbits 8 (192 + m)).
  { unfold frag_header. destruct (m * 16384 <=? 127) eqn:F1; [lia|].
    destruct (m * 16384 <? 16384) eqn:F2; [lia|]. rewrite Z.div_mul by lia. reflexivity. }
  rewrite Hh, firstn_map, skipn_map, bytes_bits_concat.
  f_equal. f_equal.
  assert (Hk : (k <= length c)%nat) by (subst k; unfold zlen in *; lia).
  assert (Hf' : (0 < f)%nat) by (unfold zlen in *; lia).
  destruct (skipn k c) as [|y ys] eqn:Es.
  - assert (Hl : length (skipn k c) = 0%nat) by (rewrite Es; reflexivity).
    rewrite skipn_length in Hl.
    assert (H0 : zlen c - m * 16384 = 0) by (subst k; unfold zlen in *; lia).
    rewrite H0. destruct f as [|f']; [lia|]. reflexivity.
  - cbn [map]. change (byte_bits y :: map byte_bits ys) with (map byte_bits (y :: ys)).
    rewrite <- Es. rewrite IH by (rewrite skipn_length; unfold zlen in *; lia).
    f_equal. f_equal. unfold zlen. rewrite skipn_length. subst k. unfold zlen in *. lia.
Qed.

Theorem open_type_is_spec c : open_type c = open_type_spec c.
Proof.
  unfold open_type, open_type_spec, counted. rewrite map_length.
  apply put_counted_emit_frags. lia.
Qed.

Theorem fragments_shape fuel n : 0 <= n -> (Z.to_nat (n / 16384) < fuel)%nat ->
  exists init last,
    fragments fuel n = init ++ [last] /\ 0 <= last < 16384 /\
    Forall (fun k => exists m, 1 <= m <= 4 /\ k = m * 16384) init /\
    fold_right Z.add 0 (fragments fuel n) = n.
Proof.
  revert n. induction fuel as [|f IH]; intros n Hn Hf; [lia|].
  cbn [fragments]. destruct (n <? 16384) eqn:E.
  - exists [], n. split; [reflexivity|]. split; [lia|]. split; [constructor|].
    cbn [fold_right]. lia.
  - cbv zeta. set (m := Z.min (n / 16384) 4).
    assert (Hm : 1 <= m <= 4 /\ m * 16384 <= n /\ (n - m * 16384) / 16384 = n / 16384 - m)
      by (subst m; lia).
    destruct (IH (n - m * 16384)) as (init & last & H1 & H2 & H3 & H4); [lia|lia|].
    exists (m * 16384 :: init), last.
    split; [cbn [app]; rewrite H1; reflexivity|].
    split; [exact H2|].
    split; [constructor; [exists m; lia|exact H3]|].
    cbn [fold_right]. rewrite H4. lia.
Qed.

Lemma fold_right_add_app a b :
  fold_right Z.add 0 (a ++ b) = fold_right Z.add 0 a + fold_right Z.add 0 b.
Proof. induction a as [|x a IH]; cbn [app fold_right]; [lia|rewrite IH; lia]. Qed.

Lemma sum_multiples init :
  Forall (fun k => exists m, 1 <= m <= 4 /\ k = m * 16384) init ->
  exists q, fold_right Z.add 0 init = q * 16384.
Proof.
  induction 1 as [|k tl Hk Htl IH]; [exists 0; reflexivity|].
  destruct Hk as (m & _ & ->). destruct IH as (q & Hq).
  exists (m + q). cbn [fold_right]. rewrite Hq. ring.
Qed.

Corollary fragments_exact_multiple fuel n m : 1 <= m -> n = m * 16384 ->
  (Z.to_nat (n / 16384) < fuel)%nat -> exists init, fragments fuel n = init ++ [0].
Proof.
  intros Hm Hn Hf.
  destruct (fragments_shape fuel n) as (init & last & H1 & H2 & H3 & H4); [lia|exact Hf|].
  exists init. rewrite H1 in H4. rewrite fold_right_add_app in H4.
  destruct (sum_multiples _ H3) as (q & Hq). rewrite Hq in H4. cbn [fold_right] in H4.
  assert (last = 0) by lia. subst last. exact H1.
Qed.

(* the contents of the fragments, in order *)
Fixpoint frag_payloads (sizes : list Z) (content : list Z) : list (list Z) :=
  match sizes with
  | [] => []
  | k :: tl => firstn (Z.to_nat k) content :: frag_payloads tl (skipn (Z.to_nat k) content)
  end.

Lemma sum_nonneg sizes : Forall (fun k => 0 <= k) sizes -> 0 <= fold_right Z.add 0 sizes.
Proof. induction 1 as [|k tl Hk Htl IH]; cbn [fold_right]; lia. Qed.

Lemma frag_payloads_concat sizes c : Forall (fun k => 0 <= k) sizes ->
  fold_right Z.add 0 sizes = zlen c -> concat (frag_payloads sizes c) = c.
Proof.
  intros HF. revert c. induction HF as [|k tl Hk Htl IH]; intros c Hs.
  - cbn [fold_right] in Hs. destruct c as [|x c]; [reflexivity|].
    rewrite zlen_cons in Hs. pose proof (zlen_nonneg c). lia.
  - cbn [frag_payloads concat]. cbn [fold_right] in Hs. pose proof (sum_nonneg _ Htl) as Hp.
    rewrite IH; [apply firstn_skipn|]. unfold zlen in *. rewrite skipn_length. lia.
Qed.

Lemma fragments_nonneg fuel n : 0 <= n -> (Z.to_nat (n / 16384) < fuel)%nat ->
  Forall (fun k => 0 <= k) (fragments fuel n).
Proof.
  intros Hn Hf. destruct (fragments_shape fuel n Hn Hf) as (init & last & H1 & H2 & H3 & _).
  rewrite H1. apply Forall_app. split.
  - eapply Forall_impl; [|exact H3]. intros k (m & Hm & ->). lia.
  - constructor; [lia|constructor].
Qed.

(* the fragments of an open type carry the contents, nothing more, nothing less *)
Corollary open_type_payloads c :
  concat (frag_payloads (fragments (S (length c)) (zlen c)) c) = c.
Proof.
  assert (Hn : 0 <= zlen c) by apply zlen_nonneg.
  assert (Hf : (Z.to_nat (zlen c / 16384) < S (length c))%nat) by (unfold zlen in *; lia).
  apply frag_payloads_concat; [apply fragments_nonneg; assumption|].
  destruct (fragments_shape _ _ Hn Hf) as (_ & _ & _ & _ & _ & H). exact H.
Qed.

(* emit_frags = headers interleaved with the payloads *)
Lemma emit_frags_payloads sizes : forall c,
  emit_frags sizes c =
  concat (map (fun kp => frag_header (fst kp) ++ bytes_bits (snd kp))
              (combine sizes (frag_payloads sizes c))).
Proof.
  induction sizes as [|k tl IH]; intros c; [reflexivity|].
  cbn [emit_frags frag_payloads combine map concat fst snd]. rewrite IH, app_assoc. reflexivity.
Qed.

Lemma bytes_bits_length l : length (bytes_bits l) = (8 * length l)%nat.
Proof.
  unfold bytes_bits. induction l as [|b tl IH]; [reflexivity|].
  cbn [flat_map length]. rewrite app_length, IH. unfold byte_bits. rewrite nbits_length. lia.
Qed.

Lemma frag_header_length k : exists q, length (frag_header k) = (8 * q)%nat.
Proof.
  unfold frag_header. destruct (k <=? 127); [exists 1%nat; apply nbits_length|].
  destruct (k <? 16384); [exists 2%nat|exists 1%nat]; apply nbits_length.
Qed.

Lemma emit_frags_aligned sizes : forall c, exists q, length (emit_frags sizes c) = (8 * q)%nat.
Proof.
  induction sizes as [|k tl IH]; intros c; [exists 0%nat; reflexivity|].
  cbn [emit_frags]. rewrite !app_length, bytes_bits_length.
  destruct (frag_header_length k) as (q1 & ->).
  destruct (IH (skipn (Z.to_nat k) c)) as (q2 & ->).
  exists (q1 + length (firstn (Z.to_nat k) c) + q2)%nat. lia.
Qed.

Lemma open_type_octet_aligned c : (length (open_type c) mod 8 = 0)%nat.
Proof.
  rewrite open_type_is_spec. unfold open_type_spec.
  destruct (emit_frags_aligned (fragments (S (length c)) (zlen c)) c) as (q & ->).
  rewrite Nat.mul_comm. apply Nat.mod_mul. lia.
Qed.

Lemma pack_bits_ok : forall fuel bs, bytes_ok (pack_bits fuel bs).
Proof.
  induction fuel as [|f IH]; intros bs; cbn [pack_bits]; [constructor|].
  destruct bs as [|b tl]; [constructor|].
  constructor; [|apply IH].
  set (h := firstn 8 (b :: tl)).
  pose proof (bits_val_bound h) as Hb.
  assert (Hl : (length h <= 8)%nat) by (subst h; apply firstn_le_length).
  assert (Hp : 2 ^ zlen h * 2 ^ (8 - zlen h) = 256).
  { rewrite <- Z.pow_add_r by (unfold zlen; lia).
    replace (zlen h + (8 - zlen h)) with 8 by lia. reflexivity. }
  assert (Hq : 0 < 2 ^ (8 - zlen h)) by (apply Z.pow_pos_nonneg; unfold zlen; lia).
  unfold byte_ok. set (P := 2 ^ zlen h) in *. set (Q := 2 ^ (8 - zlen h)) in *. nia.
Qed.

Lemma bits_to_bytes_ok bits : bytes_ok (bits_to_bytes bits).
Proof. unfold bits_to_bytes. apply pack_bits_ok. Qed.
