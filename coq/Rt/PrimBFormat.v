(* Rt/PrimBFormat.v — C02 for the restricted character strings of Rt/PrimB.v:
   "the encoders emit exactly the standard's bytes".

   The spec_* functions of PrimB.v are the standards' wording on the list [us] of
   character VALUES; the encoders work on the octets [octets_of k us] the C holds.
     1. octets <-> characters: chunks_octets_of, be_val_be_bytes_small, zlen_octets_of
     2. DER  = X.690 8.23:   pb_der_leaf_is_spec, pb_der_explicit_tag
     3. OER  = X.696 27:     pb_oer_leaf_is_spec, pb_oer_fixed_size_refuses
     4. UPER, standard reading = X.691 30:  uper_std_is_spec         (under [chars_ok])
     5. UPER, the C = the standard reading: uper_c_is_std            (under [c_std_safe])
                                            uper_leaf_other_is_octets
     6. the two deviations of the C: uper_size_ext_refuted, uper_numeric_plain_refuted
     7. totality: uper_leaf_total, uper_leaf_total_c
     8. decisions in the code: spec_bits_minimal, idx_of_mono (+ idx_of_range)
   Booleans defined here (all documented at their definition):
     oer_fixed, oer_size_ok, code_side, size_enc_ok, chars_ok, pc_agree, c_std_safe. *)
From Coq Require Import ZArith List Lia Bool ZifyBool.
From A1 Require Import Base.Bytes Leaf.IntegerConv Leaf.BerTL Rt.Types Rt.Comb Rt.Der Rt.Uper Rt.Oer
  Rt.Alphabet Rt.AlphabetProofs Rt.UperBits Rt.PrimB.
Import ListNotations.
Local Open Scope Z_scope.

(* ================================================================== 1. octets <-> characters *)

Lemma bpc_pos : forall k, (0 < bpc k)%nat.
Proof. destruct k; cbn; lia. Qed.

Lemma be_bytes_1 : forall u, be_bytes 1 u = [(u / 256 ^ Z.of_nat 0) mod 256].
Proof. reflexivity. Qed.

Lemma chunk1_flat : forall us,
  map (fun b : Z => [b]) (flat_map (be_bytes 1) us) = map (be_bytes 1) us.
Proof.
  induction us as [| u tl IH]; [reflexivity |].
  cbn [flat_map map]. rewrite be_bytes_1. cbn [app map]. rewrite IH. reflexivity.
Qed.

Lemma be_bytes_2 : forall u, exists a b, be_bytes 2 u = [a; b].
Proof. intros u. cbn [be_bytes]. eauto. Qed.

Lemma be_bytes_4 : forall u, exists a b c d, be_bytes 4 u = [a; b; c; d].
Proof. intros u. cbn [be_bytes]. eauto 6. Qed.

Lemma chunk2_flat : forall us, chunk2 (flat_map (be_bytes 2) us) = Some (map (be_bytes 2) us).
Proof.
  induction us as [| u tl IH]; [reflexivity |].
  cbn [flat_map map]. destruct (be_bytes_2 u) as (a & b & E). rewrite E.
  cbn [app chunk2]. rewrite IH. reflexivity.
Qed.

Lemma chunk4_flat : forall us, chunk4 (flat_map (be_bytes 4) us) = Some (map (be_bytes 4) us).
Proof.
  induction us as [| u tl IH]; [reflexivity |].
  cbn [flat_map map]. destruct (be_bytes_4 u) as (a & b & c & d & E). rewrite E.
  cbn [app chunk4]. rewrite IH. reflexivity.
Qed.

(* the characters of the octets of a list of character values are these values, each as
   bpc octets (no bound is needed for this half) *)
Lemma chunks_octets_of_gen : forall k us,
  known_mult k = true -> chunks k (octets_of k us) = Some (map (be_bytes (bpc k)) us).
Proof.
  intros k us Hk. unfold octets_of.
  destruct k; try discriminate Hk; cbn [chunks bpc];
    try (rewrite chunk1_flat; reflexivity).
  - apply chunk2_flat.
  - apply chunk4_flat.
Qed.

Lemma chunks_octets_of : forall k us,
  Forall (fun u => 0 <= u < 256 ^ Z.of_nat (bpc k)) us -> known_mult k = true ->
  chunks k (octets_of k us) = Some (map (be_bytes (bpc k)) us).
Proof. intros k us _ Hk. apply chunks_octets_of_gen. exact Hk. Qed.

Lemma be_val_be_bytes_small : forall k u, 0 <= u < 256 ^ Z.of_nat (bpc k) ->
  be_val (be_bytes (bpc k) u) = u.
Proof. intros k u H. rewrite be_val_be_bytes. apply Z.mod_small. exact H. Qed.

Lemma zlen_map : forall {A B} (f : A -> B) l, zlen (map f l) = zlen l.
Proof. intros. unfold zlen. rewrite map_length. reflexivity. Qed.

Lemma zlen_octets_of : forall k us, zlen (octets_of k us) = zlen us * Z.of_nat (bpc k).
Proof.
  intros k us. unfold octets_of. induction us as [| u tl IH].
  - reflexivity.
  - cbn [flat_map]. rewrite zlen_app, IH, zlen_cons. unfold zlen at 1.
    rewrite be_bytes_length. lia.
Qed.

(* for the one-octet kinds the octets are the character values *)
Lemma octets_of_1 : forall k us, bpc k = 1%nat -> Forall (fun u => 0 <= u < 256) us ->
  octets_of k us = us.
Proof.
  intros k us Hk H. unfold octets_of. rewrite Hk.
  induction H as [| u tl Hu Htl IH]; [reflexivity |].
  cbn [flat_map]. rewrite be_bytes_1, IH. cbn [app Z.of_nat Z.pow].
  rewrite Z.div_1_r, Z.mod_small by exact Hu. reflexivity.
Qed.

(* ================================================================== 2. DER = X.690 8.23 *)

(* the encoder writes identifier octets (primitive), the definite length, and the characters
   as bpc octets each, most significant first *)
Theorem pb_der_leaf_is_spec : forall tg k sz fr us,
  pb_der (SStr [] (Str tg k sz fr)) (VOct (octets_of k us)) = Some (spec_der_str tg k us).
Proof. reflexivity. Qed.

(* an EXPLICIT tag is a constructed TLV around the encoding of the type below it *)
Theorem pb_der_explicit_tag : forall e etags l v,
  pb_der (SStr (e :: etags) l) v = option_map (tlv e true) (pb_der (SStr etags l) v).
Proof.
  intros e etags l v. unfold pb_der, der_ty, tr_ty, tagged. cbn [fold_right].
  set (t := fold_right TTag (der_leaf l) etags).
  destruct v; cbn [der]; destruct (der t _); reflexivity.
Qed.

Corollary pb_der_explicit_leaf : forall e tg k sz fr us,
  pb_der (SStr [e] (Str tg k sz fr)) (VOct (octets_of k us)) = Some (tlv e true (spec_der_str tg k us)).
Proof. intros. rewrite pb_der_explicit_tag, pb_der_leaf_is_spec. reflexivity. Qed.

(* ================================================================== 3. OER = X.696 27 *)

(* the fixed size (in characters) OER sees: a known-multiplier type with a non-extensible SIZE(n) *)
Definition oer_fixed (l : strty) : option Z :=
  if known_mult (s_k l) then
    match s_sz l with
    | Some (SCon lo (Some hi) false) => if lo =? hi then Some lo else None
    | _ => None
    end
  else None.

(* the value has the fixed number of characters, when there is one *)
Definition oer_size_ok (l : strty) (us : list Z) : bool :=
  match oer_fixed l with Some n => zlen us =? n | None => true end.

Lemma pb_oer_tags : forall etags l v, pb_oer (SStr etags l) v = oer (oer_leaf l) v.
Proof.
  intros etags l v. unfold pb_oer, oer_ty, tr_ty, tagged.
  induction etags as [| e tl IH]; [reflexivity |].
  cbn [fold_right]. destruct v; cbn [oer]; exact IH.
Qed.

Lemma oer_leaf_fixed : forall l n, oer_fixed l = Some n ->
  oer_leaf l = TOct (s_tg l) (SCon (n * Z.of_nat (bpc (s_k l))) (Some (n * Z.of_nat (bpc (s_k l)))) false)
  /\ forall us, spec_oer_str l us = octets_of (s_k l) us.
Proof.
  intros l n H. unfold oer_fixed in H. unfold oer_leaf, spec_oer_str, octets_of.
  destruct (known_mult (s_k l)); [| discriminate].
  destruct (s_sz l) as [[lo [hi |] [|]] |]; try discriminate.
  destruct (lo =? hi) eqn:E; [| discriminate]. inversion H; subst n. cbn [andb]. auto.
Qed.

Lemma oer_leaf_free : forall l, oer_fixed l = None ->
  oer_leaf l = TOct (s_tg l) no_size
  /\ forall us, spec_oer_str l us = oer_length (zlen (octets_of (s_k l) us)) ++ octets_of (s_k l) us.
Proof.
  intros l H. unfold oer_fixed in H. unfold oer_leaf, spec_oer_str, octets_of.
  destruct (known_mult (s_k l)); [| auto].
  destruct (s_sz l) as [[lo [hi |] [|]] |]; cbn [andb]; auto.
  destruct (lo =? hi) eqn:E; [discriminate | auto].
Qed.

Theorem pb_oer_leaf_is_spec : forall etags l us, oer_size_ok l us = true ->
  pb_oer (SStr etags l) (VOct (octets_of (s_k l) us)) = Some (spec_oer_str l us).
Proof.
  intros etags l us H. rewrite pb_oer_tags. unfold oer_size_ok in H.
  destruct (oer_fixed l) as [n |] eqn:E.
  - destruct (oer_leaf_fixed l n E) as [-> ->]. cbn [oer oer_fixed_size].
    rewrite Z.eqb_refl, zlen_octets_of.
    replace (zlen us) with n by lia. rewrite Z.eqb_refl. reflexivity.
  - destruct (oer_leaf_free l E) as [-> ->]. reflexivity.
Qed.

Theorem pb_oer_fixed_size_refuses : forall etags l us n, oer_fixed l = Some n -> zlen us <> n ->
  pb_oer (SStr etags l) (VOct (octets_of (s_k l) us)) = None.
Proof.
  intros etags l us n E Hne. rewrite pb_oer_tags.
  destruct (oer_leaf_fixed l n E) as [-> _]. cbn [oer oer_fixed_size].
  rewrite Z.eqb_refl, zlen_octets_of.
  pose proof (bpc_pos (s_k l)) as Hp.
  destruct (zlen us * Z.of_nat (bpc (s_k l)) =? n * Z.of_nat (bpc (s_k l))) eqn:E2; [| reflexivity].
  exfalso. apply Hne. nia.
Qed.

(* ================================================================== 8. decisions in the code *)

Lemma spec_bits_range_bits : forall a, spec_bits a = range_bits (card a).
Proof. reflexivity. Qed.

(* X.691 30.5.2: b is the smallest number of bits that holds N values *)
Theorem spec_bits_minimal : forall a, 1 <= card a ->
  card a <= 2 ^ Z.of_nat (spec_bits a) /\
  (spec_bits a <> 0%nat -> 2 ^ (Z.of_nat (spec_bits a) - 1) < card a).
Proof.
  intros a H. split.
  - rewrite spec_bits_range_bits. apply range_bits_spec. exact H.
  - unfold spec_bits. intros Hnz.
    assert (Hlog : 0 < Z.log2_up (card a)).
    { pose proof (Z.log2_up_nonneg (card a)). lia. }
    rewrite Z2Nat.id by lia.
    assert (Hc : 1 < card a).
    { destruct (Z.eq_dec (card a) 1) as [E | E]; [rewrite E in Hlog; cbn in Hlog; lia | lia]. }
    pose proof (Z.log2_up_spec (card a) Hc) as [Hs _].
    replace (Z.log2_up (card a) - 1) with (Z.pred (Z.log2_up (card a))) by lia. exact Hs.
Qed.

Lemma idx_of_in_alpha : forall a v, in_alpha a v = true <-> exists i, idx_of a v = Some i.
Proof.
  induction a as [| r tl IH]; intros v.
  - cbn. split; [discriminate | intros [i H]; discriminate].
  - rewrite in_alpha_cons. cbn [idx_of]. unfold in_run.
    destruct ((fst r <=? v) && (v <=? snd r)) eqn:E; cbn [orb].
    + split; eauto.
    + rewrite IH. split; intros [i H].
      * rewrite H. eauto.
      * destruct (idx_of tl v); [eauto | discriminate].
Qed.

Lemma card_nonneg : forall a lo, wf_from lo a -> 0 <= card a.
Proof.
  induction a as [| r tl IH]; intros lo H; cbn [card]; [lia |].
  destruct H as (H1 & H2 & H3). specialize (IH _ H3). lia.
Qed.

Lemma card_pos : forall a, wf_alpha a -> 1 <= card a.
Proof.
  intros [| r tl] [Hne H]; [congruence |]. cbn [card]. destruct H as (H1 & H2 & H3).
  pose proof (card_nonneg _ _ H3). lia.
Qed.

(* the code of a member is a number below the cardinal *)
Lemma idx_of_range : forall a lo v i, wf_from lo a -> idx_of a v = Some i -> 0 <= i < card a.
Proof.
  induction a as [| r tl IH]; intros lo v i Hwf H; cbn [idx_of card] in *; [discriminate |].
  destruct Hwf as (H1 & H2 & H3). pose proof (card_nonneg _ _ H3) as Hc.
  destruct ((fst r <=? v) && (v <=? snd r)) eqn:E.
  - inversion H; subst i. lia.
  - destruct (idx_of tl v) as [j |] eqn:Ej; [| discriminate]. inversion H; subst i.
    specialize (IH _ _ _ H3 Ej). lia.
Qed.

(* X.691 30.5.4 b: the codes follow the canonical order of the characters *)
Theorem idx_of_mono : forall a lo u v i j, wf_from lo a ->
  idx_of a u = Some i -> idx_of a v = Some j -> u < v -> i < j.
Proof.
  induction a as [| r tl IH]; intros lo u v i j Hwf Hu Hv Huv; cbn [idx_of] in *; [discriminate |].
  destruct Hwf as (H1 & H2 & H3).
  destruct ((fst r <=? u) && (u <=? snd r)) eqn:Eu.
  - inversion Hu; subst i.
    destruct ((fst r <=? v) && (v <=? snd r)) eqn:Ev.
    + inversion Hv; subst j. lia.
    + destruct (idx_of tl v) as [j' |] eqn:Ej; [| discriminate]. inversion Hv; subst j.
      pose proof (idx_of_range _ _ _ _ H3 Ej). lia.
  - destruct (idx_of tl u) as [i' |] eqn:Ei; [| discriminate]. inversion Hu; subst i.
    assert (Hlu : snd r + 1 <= u).
    { apply (in_alpha_lb tl _ _ H3). apply idx_of_in_alpha. eauto. }
    destruct ((fst r <=? v) && (v <=? snd r)) eqn:Ev; [lia |].
    destruct (idx_of tl v) as [j' |] eqn:Ej; [| discriminate]. inversion Hv; subst j.
    specialize (IH _ _ _ _ _ H3 Ei Ej Huv). lia.
Qed.

(* ================================================================== 6. the deviations of the C *)

(* a size outside the root of an extensible SIZE: "ABC" in IA5String (SIZE(1..2, ...)):
   the C writes 1 + 8 + 3 * 8 bits, X.691 30.4 asks for 1 + 8 + 3 * 7 *)
Theorem uper_size_ext_refuted : exists l us,
  uper_leaf false l (octets_of (s_k l) us) <> spec_uper_km l us /\
  uper_leaf true l (octets_of (s_k l) us) = spec_uper_km l us.
Proof.
  exists (Str 88 KIA5 (Some (SCon 1 (Some 2) true)) None), [65; 66; 67].
  split; [intros H; vm_compute in H; discriminate H | vm_compute; reflexivity].
Qed.

(* NumericString without constraints, the digit '5': the C writes 53 - 32 = 21 cut to 4 bits
   (0101), X.691 30.5.4 the index 6 in " 0123456789" (0110) *)
Theorem uper_numeric_plain_refuted : exists l us,
  uper_leaf false l (octets_of (s_k l) us) <> spec_uper_km l us /\
  uper_leaf true l (octets_of (s_k l) us) = spec_uper_km l us.
Proof.
  exists (Str 72 KNumeric None None), [53].
  split; [intros H; vm_compute in H; discriminate H | vm_compute; reflexivity].
Qed.

Example ex_numeric_plain :
  uper_leaf false (Str 72 KNumeric None None) [53] = Some (nbits 8 1 ++ [false; true; false; true]) /\
  uper_leaf true (Str 72 KNumeric None None) [53] = Some (nbits 8 1 ++ [false; true; true; false]).
Proof. vm_compute. auto. Qed.

(* ================================================================== 4. UPER, standard reading = X.691 30 *)

Lemma default_alpha_wf : forall k, wf_alphab (default_alpha k) = true.
Proof. destruct k; reflexivity. Qed.

(* What put_char needs of an alphabet [a] to write the number X.691 30.5.4 asks for:
   either the character value itself fits in the b bits ("as is"), or the code is the index
   and the largest character is below 256 — put_char (like the C's value2code tables, which
   exist only up to 255) refuses larger values in the index branch, std = true included. *)
Definition code_side (a : alphabet) : bool :=
  as_is (range_bits (card a)) (alpha_stop a) || (alpha_stop a <? 256).

Lemma default_alpha_side : forall k, code_side (default_alpha k) = true.
Proof. destruct k; reflexivity. Qed.

(* the length n is encodable at all: in the root, or the SIZE is extensible, or the root has a
   constrained length field (then both sides refuse).  Outside: uper_km, std = true included,
   writes an unconstrained length where X.691 has no encoding (same leniency as Uper.sized). *)
Definition size_enc_ok (l : strty) (n : Z) : bool :=
  match size_con l with
  | SCon lo hi ext =>
      in_scon (SCon lo hi ext) n || ext || match hi with Some h => h <? 65536 | None => false end
  end.

(* [us] is a string the encoder is asked to write for type [l]:
   - the effective alphabet is canonical and satisfies [code_side];
   - the length is encodable ([size_enc_ok]);
   - every character belongs to the effective alphabet when the length is in the root of the
     SIZE constraint, and to the alphabet of the unconstrained type (X.691 30.4: the extension
     is encoded as the unconstrained type) when it is not.
   The encoders do not test the alphabet themselves; outside it put_char writes bits where
   the standard has no encoding. *)
Definition chars_ok (l : strty) (us : list Z) : bool :=
  wf_alphab (eff_alpha l) && code_side (eff_alpha l) && size_enc_ok l (zlen us) &&
  (if in_scon (size_con l) (zlen us) then forallb (in_alpha (eff_alpha l)) us
   else forallb (in_alpha (default_alpha (s_k l))) us).

(* one character: every branch of put_char against spec_code *)
Lemma put_char_std_spec : forall cub a x u,
  wf_alpha a -> code_side a = true -> in_alpha a u = true ->
  put_char cub (range_bits (card a)) (Pcv x (alpha_start a) (alpha_stop a) (Some a)) u =
  match spec_code a u with Some c => Some (nbits (spec_bits a) c) | None => None end.
Proof.
  intros cub a x u [Hne Hwf] Hside Hin.
  pose proof (in_alpha_lb _ _ _ Hwf Hin) as Hlb.
  pose proof (in_alpha_ub _ _ _ Hwf Hin) as Hub.
  destruct (proj1 (idx_of_in_alpha a u) Hin) as [i Hi].
  unfold put_char, spec_code, code_side in *. rewrite spec_bits_range_bits.
  set (w := range_bits (card a)) in *.
  destruct (as_is w (alpha_stop a)) eqn:Eas.
  - (* the value as it is *)
    assert (Hlt : (alpha_stop a <? 2 ^ Z.of_nat w) = true).
    { unfold as_is in Eas. apply andb_true_iff in Eas. tauto. }
    rewrite Hlt, Hin.
    destruct (w =? cub)%nat; [reflexivity |].
    replace ((0 <=? u) && (u <=? alpha_stop a)) with true by lia. reflexivity.
  - (* the index *)
    cbn [orb] in Hside.
    replace (u <? 256) with true by lia. rewrite Hi.
    destruct (alpha_stop a <? 2 ^ Z.of_nat w) eqn:Elt.
    + (* only with w = 0: no bits either way *)
      assert (Hw : w = 0%nat).
      { unfold as_is in Eas. rewrite Elt, andb_true_r in Eas. lia. }
      rewrite Hin, Hw. reflexivity.
    + reflexivity.
Qed.

Lemma option_all_map_ext : forall {A B} (f g : A -> option B) l,
  Forall (fun x => f x = g x) l -> option_all (map f l) = option_all (map g l).
Proof.
  intros A B f g l H. induction H as [| x tl Hx Htl IH]; [reflexivity |].
  cbn [map option_all]. rewrite Hx, IH. reflexivity.
Qed.

Lemma put_chars_map : forall std l ext us,
  put_chars std l ext (map (be_bytes (bpc (s_k l))) us) =
  option_all (map (fun u => put_char (cub_of (s_k l)) (if ext then w_ext std l else w_root std l)
                                     (if ext then pc_ext std l else pc_root std l)
                                     (be_val (be_bytes (bpc (s_k l)) u))) us).
Proof. intros. unfold put_chars. rewrite map_map. reflexivity. Qed.

Definition char_range (k : strk) (u : Z) : Prop := 0 <= u < 256 ^ Z.of_nat (bpc k).

Lemma put_chars_std_root : forall l us,
  Forall (char_range (s_k l)) us ->
  wf_alphab (eff_alpha l) = true -> code_side (eff_alpha l) = true ->
  forallb (in_alpha (eff_alpha l)) us = true ->
  put_chars true l false (map (be_bytes (bpc (s_k l))) us) = spec_chars (eff_alpha l) us.
Proof.
  intros l us Hr Hwf Hside Hin. rewrite put_chars_map. unfold spec_chars.
  apply option_all_map_ext. rewrite forallb_forall in Hin. rewrite Forall_forall in *.
  intros u Hu. rewrite be_val_be_bytes_small by exact (Hr u Hu).
  apply wf_alphab_spec in Hwf.
  exact (put_char_std_spec _ _ _ _ Hwf Hside (Hin u Hu)).
Qed.

Lemma put_chars_std_ext : forall l us,
  Forall (char_range (s_k l)) us ->
  forallb (in_alpha (default_alpha (s_k l))) us = true ->
  put_chars true l true (map (be_bytes (bpc (s_k l))) us) = spec_chars (default_alpha (s_k l)) us.
Proof.
  intros l us Hr Hin. rewrite put_chars_map. unfold spec_chars.
  apply option_all_map_ext. rewrite forallb_forall in Hin. rewrite Forall_forall in *.
  intros u Hu. rewrite be_val_be_bytes_small by exact (Hr u Hu).
  pose proof (default_alpha_wf (s_k l)) as Hwf. apply wf_alphab_spec in Hwf.
  exact (put_char_std_spec _ _ _ _ Hwf (default_alpha_side (s_k l)) (Hin u Hu)).
Qed.

Theorem uper_std_is_spec : forall l us,
  known_mult (s_k l) = true ->
  Forall (fun u => 0 <= u < 256 ^ Z.of_nat (bpc (s_k l))) us ->
  chars_ok l us = true ->
  uper_leaf true l (octets_of (s_k l) us) = spec_uper_km l us.
Proof.
  intros l us Hk Hr Hok. unfold uper_leaf. rewrite Hk, chunks_octets_of_gen by exact Hk.
  unfold chars_ok in Hok. apply andb_true_iff in Hok. destruct Hok as [Hok Hin].
  apply andb_true_iff in Hok. destruct Hok as [Hok Hsz].
  apply andb_true_iff in Hok. destruct Hok as [Hwf Hside].
  unfold uper_km, spec_uper_km, size_enc_ok in *. rewrite zlen_map.
  destruct (size_con l) as [lo hi ext]. cbv zeta.
  destruct (in_scon (SCon lo hi ext) (zlen us)) eqn:Ein.
  - (* the size is in the root *)
    rewrite (put_chars_std_root l us Hr Hwf Hside Hin).
    destruct hi as [h |].
    + destruct (h <? 65536) eqn:Eh.
      * destruct (spec_chars (eff_alpha l) us); reflexivity.
      * cbn [andb negb]. rewrite andb_false_r.
        destruct (spec_chars (eff_alpha l) us); reflexivity.
    + cbn [andb negb]. rewrite andb_false_r.
      destruct (spec_chars (eff_alpha l) us); reflexivity.
  - (* outside the root *)
    cbn [orb] in Hsz.
    destruct ext.
    + rewrite (put_chars_std_ext l us Hr Hin).
      destruct (match hi with Some h => h <? 65536 | None => false end);
        cbn [andb negb]; destruct (spec_chars (default_alpha (s_k l)) us); reflexivity.
    + cbn [orb] in Hsz. rewrite Hsz. reflexivity.
Qed.

(* the same with the bound on the characters taken from the alphabets *)
Corollary uper_std_is_spec_alpha : forall l us,
  known_mult (s_k l) = true ->
  alpha_stop (eff_alpha l) < 256 ^ Z.of_nat (bpc (s_k l)) ->
  in_scon (size_con l) (zlen us) = true ->
  chars_ok l us = true ->
  uper_leaf true l (octets_of (s_k l) us) = spec_uper_km l us.
Proof.
  intros l us Hk Hstop Hroot Hok. apply uper_std_is_spec; [exact Hk | | exact Hok].
  unfold chars_ok in Hok. rewrite Hroot in Hok.
  apply andb_true_iff in Hok. destruct Hok as [Hok Hin].
  apply andb_true_iff in Hok. destruct Hok as [Hok _].
  apply andb_true_iff in Hok. destruct Hok as [Hwf _].
  apply wf_alphab_spec in Hwf. destruct Hwf as [_ Hwf].
  rewrite forallb_forall in Hin. apply Forall_forall. intros u Hu.
  pose proof (in_alpha_lb _ _ _ Hwf (Hin u Hu)). pose proof (in_alpha_ub _ _ _ Hwf (Hin u Hu)). lia.
Qed.

(* ================================================================== 5. UPER, the C = the standard reading *)

(* the per-character constraint asn1c emits (pc_c) makes put_char write what the standard
   constraint (pc_std: always a map) writes:
   - BMP/UniversalString special case of asn1c_C.c (no FROM): 32 bits, the value;
   - the value as it is (no map consulted), or
   - the C has the character map, or
   - the alphabet is one interval lo..hi with hi < 256: "value - lo" is the index. *)
Definition pc_agree (l : strty) : bool :=
  match s_k l, s_fr l with
  | KUniversal, None => true
  | _, _ =>
      let a := eff_alpha l in
      as_is (range_bits (card a)) (alpha_stop a)
      || (has_ct l && use_table (tablek (s_k l)) a)
      || (match a with [_] => true | _ => false end && (alpha_stop a <? 256))
  end.

(* n characters: the size is in the root of the SIZE constraint or the constraint is not
   extensible (first deviation excluded), and [pc_agree] (second deviation excluded) *)
Definition c_std_safe (l : strty) (n : Z) : bool :=
  (in_scon (size_con l) n || negb (scon_ext (size_con l))) && pc_agree l.

Lemma pc_c_cases : forall l,
  (s_k l = KUniversal /\ s_fr l = None /\ pc_c l = Pcv 32 0 2147483647 None) \/
  (pc_agree l =
     (as_is (range_bits (card (eff_alpha l))) (alpha_stop (eff_alpha l))
      || (has_ct l && use_table (tablek (s_k l)) (eff_alpha l))
      || (match eff_alpha l with [_] => true | _ => false end && (alpha_stop (eff_alpha l) <? 256))) /\
   pc_c l = Pcv (range_bits (card (eff_alpha l))) (alpha_start (eff_alpha l)) (alpha_stop (eff_alpha l))
                (if has_ct l && use_table (tablek (s_k l)) (eff_alpha l) then Some (eff_alpha l) else None)).
Proof.
  intros [tg k sz fr]. unfold pc_agree, pc_c. cbn [s_k s_fr].
  destruct k; try (right; split; reflexivity).
  destruct fr; [right; split; reflexivity | left; auto].
Qed.

Lemma put_char_c_std : forall l v,
  wf_alphab (eff_alpha l) = true -> pc_agree l = true ->
  put_char (cub_of (s_k l)) (w_root false l) (pc_root false l) v =
  put_char (cub_of (s_k l)) (w_root true l) (pc_root true l) v.
Proof.
  intros l v Hwf Hag. unfold w_root, pc_root.
  destruct (pc_c_cases l) as [(Hk & Hfr & Hc) | (Hag' & Hc)]; rewrite Hc.
  - (* UniversalString without FROM: 32 bits, the value, on both sides *)
    unfold pc_std, eff_alpha. rewrite Hfr, Hk. reflexivity.
  - rewrite Hag' in Hag. clear Hag' Hc. unfold pc_std.
    set (a := eff_alpha l) in *. set (w := range_bits (card a)) in *.
    unfold put_char.
    destruct (as_is w (alpha_stop a)) eqn:Eas; [reflexivity |].
    destruct (has_ct l && use_table (tablek (s_k l)) a); [reflexivity |].
    cbn [orb] in Hag.
    (* one interval *)
    destruct a as [| r [| r2 tl]] eqn:Ea; try discriminate Hag. cbn [andb] in Hag.
    apply wf_alphab_spec in Hwf. destruct Hwf as [_ (H1 & H2 & _)].
    unfold alpha_start, alpha_stop in *. cbn [last] in *. cbn [idx_of].
    assert (Hcard : card [r] = snd r - fst r + 1) by (cbn [card]; lia).
    pose proof (range_bits_spec (card [r]) ltac:(lia)) as Hrb. fold w in Hrb.
    assert (Hcub : (0 < cub_of (s_k l))%nat).
    { unfold cub_of. pose proof (bpc_pos (s_k l)). lia. }
    destruct ((fst r =? 0) && (w =? cub_of (s_k l))%nat) eqn:E0.
    + (* impossible: lo = 0 and cub bits hold the whole interval, so "as is" would apply *)
      exfalso. unfold as_is in Eas.
      apply andb_true_iff in E0. destruct E0 as [E0 E1].
      apply Nat.eqb_eq in E1.
      assert (Hw : (0 <? Z.of_nat w) = true) by lia.
      rewrite Hw in Eas. cbn [andb] in Eas. lia.
    + destruct ((fst r <=? v) && (v <=? snd r)) eqn:Ein.
      * replace ((0 <=? v - fst r) && (v - fst r <=? snd r - fst r)) with true by lia.
        replace (v <? 256) with true by lia. reflexivity.
      * replace ((0 <=? v - fst r) && (v - fst r <=? snd r - fst r)) with false by lia.
        destruct (v <? 256); reflexivity.
Qed.

Lemma w_root_c_std : forall l, w_root false l = w_root true l.
Proof.
  intros l. unfold w_root, pc_root.
  destruct (pc_c_cases l) as [(Hk & Hfr & Hc) | (_ & Hc)]; rewrite Hc.
  - unfold pc_std, eff_alpha. rewrite Hfr, Hk. reflexivity.
  - reflexivity.
Qed.

Lemma put_chars_c_std : forall l cs,
  wf_alphab (eff_alpha l) = true -> pc_agree l = true ->
  put_chars false l false cs = put_chars true l false cs.
Proof.
  intros l cs Hwf Hag. unfold put_chars. f_equal. apply map_ext.
  intros c. apply put_char_c_std; assumption.
Qed.

Theorem uper_c_is_std : forall l bs cs,
  known_mult (s_k l) = true -> chunks (s_k l) bs = Some cs ->
  wf_alphab (eff_alpha l) = true ->
  c_std_safe l (zlen cs) = true ->
  uper_leaf false l bs = uper_leaf true l bs.
Proof.
  intros l bs cs Hk Hch Hwf Hsafe. unfold uper_leaf. rewrite Hk, Hch.
  unfold c_std_safe in Hsafe. apply andb_true_iff in Hsafe. destruct Hsafe as [Hsz Hag].
  unfold uper_km. rewrite (put_chars_c_std l cs Hwf Hag).
  destruct (size_con l) as [lo hi ext]. cbn [scon_ext] in Hsz. cbv zeta.
  destruct (in_scon (SCon lo hi ext) (zlen cs)) eqn:Ein.
  - cbn [andb negb]. rewrite ?andb_false_r. reflexivity.
  - cbn [orb] in Hsz. destruct ext; [discriminate Hsz |]. reflexivity.
Qed.

(* UTF8String and the other string types: an OCTET STRING without PER-visible constraints *)
Theorem uper_leaf_other_is_octets : forall std l bs, known_mult (s_k l) = false ->
  uper_leaf std l bs = uper std (TOct (s_tg l) no_size) (VOct bs).
Proof. intros std l bs Hk. unfold uper_leaf. rewrite Hk. reflexivity. Qed.

(* ================================================================== 7. totality *)

Lemma spec_chars_total : forall a us, forallb (in_alpha a) us = true ->
  exists items, spec_chars a us = Some items.
Proof.
  intros a us H. unfold spec_chars. induction us as [| u tl IH]; [cbn; eauto |].
  cbn [forallb] in H. apply andb_true_iff in H. destruct H as [Hu Htl].
  destruct (IH Htl) as [items Hit]. cbn [map option_all]. rewrite Hit.
  destruct (proj1 (idx_of_in_alpha a u) Hu) as [i Hi].
  unfold spec_code. rewrite Hu, Hi.
  destruct (alpha_stop a <? 2 ^ Z.of_nat (spec_bits a)); eauto.
Qed.

(* every string over the alphabet with a size in the root has an encoding *)
Theorem uper_leaf_total : forall l us,
  known_mult (s_k l) = true ->
  Forall (fun u => 0 <= u < 256 ^ Z.of_nat (bpc (s_k l))) us ->
  chars_ok l us = true ->
  in_scon (size_con l) (zlen us) = true ->
  exists bits, uper_leaf true l (octets_of (s_k l) us) = Some bits.
Proof.
  intros l us Hk Hr Hok Hroot. rewrite (uper_std_is_spec l us Hk Hr Hok).
  unfold chars_ok in Hok. rewrite Hroot in Hok.
  apply andb_true_iff in Hok. destruct Hok as [_ Hin].
  unfold spec_uper_km. destruct (size_con l) as [lo hi ext]. cbv zeta. rewrite Hroot.
  destruct (spec_chars_total _ _ Hin) as [items ->]. eauto.
Qed.

(* ... and the C writes it where it follows the standard *)
Theorem uper_leaf_total_c : forall l us,
  known_mult (s_k l) = true ->
  Forall (fun u => 0 <= u < 256 ^ Z.of_nat (bpc (s_k l))) us ->
  chars_ok l us = true ->
  in_scon (size_con l) (zlen us) = true ->
  c_std_safe l (zlen us) = true ->
  exists bits, uper_leaf false l (octets_of (s_k l) us) = Some bits /\
               spec_uper_km l us = Some bits.
Proof.
  intros l us Hk Hr Hok Hroot Hsafe.
  destruct (uper_leaf_total l us Hk Hr Hok Hroot) as [bits Hb]. exists bits.
  assert (Hwf : wf_alphab (eff_alpha l) = true).
  { unfold chars_ok in Hok. apply andb_true_iff in Hok. destruct Hok as [Hok _].
    apply andb_true_iff in Hok. destruct Hok as [Hok _].
    apply andb_true_iff in Hok. tauto. }
  split.
  - rewrite (uper_c_is_std l _ (map (be_bytes (bpc (s_k l))) us) Hk
               (chunks_octets_of_gen _ us Hk) Hwf); [exact Hb |].
    rewrite zlen_map. exact Hsafe.
  - rewrite <- (uper_std_is_spec l us Hk Hr Hok). exact Hb.
Qed.

(* ================================================================== who satisfies chars_ok *)

(* a canonical alphabet that is the default one of the kind, or whose characters are below 256
   (every FROM within 32..126, any kind), a size in the root, characters of the alphabet *)
Lemma chars_ok_root : forall l us,
  wf_alphab (eff_alpha l) = true ->
  s_fr l = None \/ alpha_stop (eff_alpha l) < 256 ->
  in_scon (size_con l) (zlen us) = true ->
  forallb (in_alpha (eff_alpha l)) us = true ->
  chars_ok l us = true.
Proof.
  intros l us Hwf Hs Hroot Hin. unfold chars_ok. rewrite Hwf, Hroot, Hin.
  assert (Hside : code_side (eff_alpha l) = true).
  { destruct Hs as [Hn | Hlt].
    - unfold eff_alpha. rewrite Hn. apply default_alpha_side.
    - unfold code_side. replace (alpha_stop (eff_alpha l) <? 256) with true by lia. apply orb_true_r. }
  rewrite Hside. unfold size_enc_ok. destruct (size_con l) as [lo hi ext]. rewrite Hroot. reflexivity.
Qed.

(* outside the root of an extensible SIZE: additionally the characters are characters of the
   unconstrained type *)
Lemma chars_ok_ext : forall l us,
  wf_alphab (eff_alpha l) = true ->
  s_fr l = None \/ alpha_stop (eff_alpha l) < 256 ->
  in_scon (size_con l) (zlen us) = false -> scon_ext (size_con l) = true ->
  forallb (in_alpha (default_alpha (s_k l))) us = true ->
  chars_ok l us = true.
Proof.
  intros l us Hwf Hs Hroot Hext Hin. unfold chars_ok. rewrite Hwf, Hroot, Hin.
  assert (Hside : code_side (eff_alpha l) = true).
  { destruct Hs as [Hn | Hlt].
    - unfold eff_alpha. rewrite Hn. apply default_alpha_side.
    - unfold code_side. replace (alpha_stop (eff_alpha l) <? 256) with true by lia. apply orb_true_r. }
  rewrite Hside. unfold size_enc_ok. destruct (size_con l) as [lo hi ext]. cbn [scon_ext] in Hext.
  rewrite Hext, orb_true_r. reflexivity.
Qed.

Example ex_chars_ok :
  chars_ok (Str 88 KIA5 (Some (SCon 1 (Some 2) true)) None) [65; 66; 67] = true /\
  chars_ok (Str 72 KNumeric None None) [53] = true /\
  chars_ok (Str 120 KBMP None (Some [(65, 90); (97, 122)])) [65; 122] = true /\
  c_std_safe (Str 88 KIA5 (Some (SCon 1 (Some 2) true)) None) 3 = false /\
  c_std_safe (Str 88 KIA5 (Some (SCon 1 (Some 2) true)) None) 2 = true /\
  c_std_safe (Str 72 KNumeric None None) 1 = false /\
  c_std_safe (Str 72 KNumeric (Some (SCon 0 (Some 8) false)) None) 1 = true /\
  c_std_safe (Str 112 KUniversal None None) 1 = true.
Proof. vm_compute. auto 10. Qed.

(* ---------------- third deviation of the C: several intervals reaching above U+00FF ----------------
   BMPString (FROM({0,0,1,0}..{0,0,1,3} | {0,0,2,0}..{0,0,2,3})): 8 characters, 3 bits; asn1c emits no
   character map (the 256-cell table does not hold the alphabet), the runtime writes value - 256 truncated to
   3 bits: U+0200 is written as 000 (the code of U+0100) instead of the index 100; the two characters collide. *)
Definition holes_l : strty := Str 120 KBMP None (Some [(256, 259); (512, 515)]).
Theorem uper_holes_above_255_refuted :
  uper_leaf false holes_l (octets_of KBMP [256; 512]) <> spec_uper_km holes_l [256; 512] /\
  uper_leaf false holes_l (octets_of KBMP [256; 512]) = uper_leaf false holes_l (octets_of KBMP [256; 256]) /\
  spec_uper_km holes_l [256; 512] = Some (nbits 8 2 ++ nbits 3 0 ++ nbits 3 4).
Proof. vm_compute. repeat split; try reflexivity. discriminate. Qed.
