(* Rt/PrimBFormat.v — C02 for the restricted character strings of Rt/PrimB.v:
   "the encoders emit exactly the standard's bytes".

   The spec_* functions of PrimB.v are the standards' wording on the list [us] of
   character VALUES; the encoders work on the octets [octets_of k us] the C holds.
     1. octets <-> characters: chunks_octets_of, be_val_be_bytes_small, zlen_octets_of
     2. DER  = X.690 8.23:   pb_der_leaf_is_spec, pb_der_explicit_tag
     3. OER  = X.696 27:     pb_oer_leaf_is_spec, pb_oer_fixed_size_refuses
     4. UPER, standard reading = X.691 30:  uper_std_is_spec         (under [chars_ok])
     5. UPER, the C = the standard reading: uper_c_is_std            (under [c_std_safe])
                                            uper_leaf_other_is_octets
     6. the two deviations of the C: uper_size_ext_refuted, uper_numeric_plain_refuted
     7. totality: uper_leaf_total, uper_leaf_total_c
     8. decisions in the code: spec_bits_minimal, idx_of_mono (+ idx_of_range)
   Booleans defined here (all documented at their definition):
     oer_fixed, oer_size_ok, code_side, size_enc_ok, chars_ok, pc_agree, c_std_safe. *)
From Coq Require Import ZArith List Lia Bool ZifyBool.
From A1 Require Import Base.Bytes Leaf.IntegerConv Leaf.BerTL Rt.Types Rt.Comb Rt.Der Rt.Uper Rt.Oer
  Rt.Alphabet Rt.AlphabetProofs Rt.UperBits Rt.PrimB.
Import ListNotations.
Local Open Scope Z_scope.

(* ================================================================== 1. octets <-> characters *)

Lemma bpc_pos : forall k, (0 < bpc k)%nat.
Proof. destruct k; cbn; lia. Qed.

Lemma be_bytes_1 : forall u, be_bytes 1 u = [(u / 256 ^ Z.of_nat 0) mod 256].
Proof. reflexivity. Qed.

Lemma chunk1_flat : forall us,
  map (fun b : Z => [b]) (flat_map (be_bytes 1) us) = map (be_bytes 1) us.
Proof.
  induction us as [| u tl IH]; [reflexivity |].
  cbn [flat_map map]. rewrite be_bytes_1. cbn [app map]. rewrite IH. reflexivity.
Qed.

Lemma be_bytes_2 : forall u, exists a b, be_bytes 2 u = [a; b].
Proof. intros u. cbn [be_bytes]. eauto. Qed.

Lemma be_bytes_4 : forall u, exists a b c d, be_bytes 4 u = [a; b; c; d].
Proof. intros u. cbn [be_bytes]. eauto 6. Qed.

Lemma chunk2_flat : forall us, chunk2 (flat_map (be_bytes 2) us) = Some (map (be_bytes 2) us).
Proof.
  induction us as [| u tl IH]; [reflexivity |].
  cbn [flat_map map]. destruct (be_bytes_2 u) as (a & b & E). rewrite E.
  cbn [app chunk2]. rewrite IH. reflexivity.
Qed.

Lemma chunk4_flat : forall us, chunk4 (flat_map (be_bytes 4) us) = Some (map (be_bytes 4) us).
Proof.
  induction us as [| u tl IH]; [reflexivity |].
  cbn [flat_map map]. destruct (be_bytes_4 u) as (a & b & c & d & E). rewrite E.
  cbn [app chunk4]. rewrite IH. reflexivity.
Qed.

(* the characters of the octets of a list of character values are these values, each as
   bpc octets (no bound is needed for this half) *)
Lemma chunks_octets_of_gen : forall k us,
  known_mult k = true -> chunks k (octets_of k us) = Some (map (be_bytes (bpc k)) us).
Proof.
  intros k us Hk. unfold octets_of.
  destruct k; try discriminate Hk; cbn [chunks bpc];
    try (rewrite chunk1_flat; reflexivity).
  - apply chunk2_flat.
  - apply chunk4_flat.
Qed.

Lemma chunks_octets_of : forall k us,
  Forall (fun u => 0 <= u < 256 ^ Z.of_nat (bpc k)) us -> known_mult k = true ->
  chunks k (octets_of k us) = Some (map (be_bytes (bpc k)) us).
Proof. intros k us _ Hk. apply chunks_octets_of_gen. exact Hk. Qed.

Lemma be_val_be_bytes_small : forall k u, 0 <= u < 256 ^ Z.of_nat (bpc k) ->
  be_val (be_bytes (bpc k) u) = u.
Proof. intros k u H. rewrite be_val_be_bytes. apply Z.mod_small. exact H. Qed.

Lemma zlen_map : forall {A B} (f : A -> B) l, zlen (map f l) = zlen l.
Proof. intros. unfold zlen. rewrite map_length. reflexivity. Qed.

Lemma zlen_octets_of : forall k us, zlen (octets_of k us) = zlen us * Z.of_nat (bpc k).
Proof.
  intros k us. unfold octets_of. induction us as [| u tl IH].
  - reflexivity.
  - cbn [flat_map]. rewrite zlen_app, IH, zlen_cons. unfold zlen at 1.
    rewrite be_bytes_length. lia.
Qed.

(* for the one-octet kinds the octets are the character values *)
Lemma octets_of_1 : forall k us, bpc k = 1%nat -> Forall (fun u => 0 <= u < 256) us ->
  octets_of k us = us.
Proof.
  intros k us Hk H. unfold octets_of. rewrite Hk.
  induction H as [| u tl Hu Htl IH]; [reflexivity |].
  cbn [flat_map]. rewrite be_bytes_1, IH. cbn [app Z.of_nat Z.pow].
  rewrite Z.div_1_r, Z.mod_small by exact Hu. reflexivity.
Qed.

(* ================================================================== 2. DER = X.690 8.23 *)

(* the encoder writes identifier octets (primitive), the definite length, and the characters
   as bpc octets each, most significant first *)
Theorem pb_der_leaf_is_spec : forall tg k sz fr us,
  pb_der (SStr [] (Str tg k sz fr)) (VOct (octets_of k us)) = Some (spec_der_str tg k us).
Proof. reflexivity. Qed.

(* an EXPLICIT tag is a constructed TLV around the encoding of the type below it *)
Theorem pb_der_explicit_tag : forall e etags l v,
  pb_der (SStr (e :: etags) l) v = option_map (tlv e true) (pb_der (SStr etags l) v).
Proof.
  intros e etags l v. unfold pb_der, der_ty, tr_ty, tagged. cbn [fold_right].
  set (t := fold_right TTag (der_leaf l) etags).
  destruct v; cbn [der]; destruct (der t _); reflexivity.
Qed.

Corollary pb_der_explicit_leaf : forall e tg k sz fr us,
  pb_der (SStr [e] (Str tg k sz fr)) (VOct (octets_of k us)) = Some (tlv e true (spec_der_str tg k us)).
Proof. intros. rewrite pb_der_explicit_tag, pb_der_leaf_is_spec. reflexivity. Qed.

(* ================================================================== 3. OER = X.696 27 *)

(* the fixed size (in characters) OER sees: a known-multiplier type with a non-extensible SIZE(n) *)
Definition oer_fixed (l : strty) : option Z :=
  if known_mult (s_k l) then
    match s_sz l with
    | Some (SCon lo (Some hi) false) => if lo =? hi then Some lo else None
    | _ => None
    end
  else None.

(* the value has the fixed number of characters, when there is one *)
Definition oer_size_ok (l : strty) (us : list Z) : bool :=
  match oer_fixed l with Some n => zlen us =? n | None => true end.

Lemma pb_oer_tags : forall etags l v, pb_oer (SStr etags l) v = oer (oer_leaf l) v.
Proof.
  intros etags l v. unfold pb_oer, oer_ty, tr_ty, tagged.
  induction etags as [| e tl IH]; [reflexivity |].
  cbn [fold_right]. destruct v; cbn [oer]; exact IH.
Qed.

Lemma oer_leaf_fixed : forall l n, oer_fixed l = Some n ->
  oer_leaf l = TOct (s_tg l) (SCon (n * Z.of_nat (bpc (s_k l))) (Some (n * Z.of_nat (bpc (s_k l)))) false)
  /\ forall us, spec_oer_str l us = octets_of (s_k l) us.
Proof.
  intros l n H. unfold oer_fixed in H. unfold oer_leaf, spec_oer_str, octets_of.
  destruct (known_mult (s_k l)); [| discriminate].
  destruct (s_sz l) as [[lo [hi |] [|]] |]; try discriminate.
  destruct (lo =? hi) eqn:E; [| discriminate]. inversion H; subst n. cbn [andb]. auto.
Qed.

Lemma oer_leaf_free : forall l, oer_fixed l = None ->
  oer_leaf l = TOct (s_tg l) no_size
  /\ forall us, spec_oer_str l us = oer_length (zlen (octets_of (s_k l) us)) ++ octets_of (s_k l) us.
Proof.
  intros l H. unfold oer_fixed in H. unfold oer_leaf, spec_oer_str, octets_of.
  destruct (known_mult (s_k l)); [| auto].
  destruct (s_sz l) as [[lo [hi |] [|]] |]; cbn [andb]; auto.
  destruct (lo =? hi) eqn:E; [discriminate | auto].
Qed.

Theorem pb_oer_leaf_is_spec : forall etags l us, oer_size_ok l us = true ->
  pb_oer (SStr etags l) (VOct (octets_of (s_k l) us)) = Some (spec_oer_str l us).
Proof.
  intros etags l us H. rewrite pb_oer_tags. unfold oer_size_ok in H.
  destruct (oer_fixed l) as [n |] eqn:E.
  - destruct (oer_leaf_fixed l n E) as [-> ->]. cbn [oer oer_fixed_size].
    rewrite Z.eqb_refl, zlen_octets_of.
    replace (zlen us) with n by lia. rewrite Z.eqb_refl. reflexivity.
  - destruct (oer_leaf_free l E) as [-> ->]. reflexivity.
Qed.

Theorem pb_oer_fixed_size_refuses : forall etags l us n, oer_fixed l = Some n -> zlen us <> n ->
  pb_oer (SStr etags l) (VOct (octets_of (s_k l) us)) = None.
Proof.
  intros etags l us n E Hne. rewrite pb_oer_tags.
  destruct (oer_leaf_fixed l n E) as [-> _]. cbn [oer oer_fixed_size].
  rewrite Z.eqb_refl, zlen_octets_of.
  pose proof (bpc_pos (s_k l)) as Hp.
  destruct (zlen us * Z.of_nat (bpc (s_k l)) =? n * Z.of_nat (bpc (s_k l))) eqn:E2; [| reflexivity].
  exfalso. apply Hne. nia.
Qed.

(* ================================================================== 8. decisions in the code *)

Lemma spec_bits_range_bits : forall a, spec_bits a = range_bits (card a).
Proof. reflexivity. Qed.

(* X.691 30.5.2: b is the smallest number of bits that holds N values *)
Theorem spec_bits_minimal : forall a, 1 <= card a ->
  card a <= 2 ^ Z.of_nat (spec_bits a) /\
  (spec_bits a <> 0%nat -> 2 ^ (Z.of_nat (spec_bits a) - 1) < card a).
Proof.
  intros a H. split.
  - rewrite spec_bits_range_bits. apply range_bits_spec. exact H.
  - unfold spec_bits. intros Hnz.
    assert (Hlog : 0 < Z.log2_up (card a)).
    { pose proof (Z.log2_up_nonneg (card a)). lia. }
    rewrite Z2Nat.id by lia.
    assert (Hc : 1 < card a).
    { destruct (Z.eq_dec (card a) 1) as [E | E]; [rewrite E in Hlog; cbn in Hlog; lia | lia]. }
    pose proof (Z.log2_up_spec (card a) Hc) as [Hs _].
    replace (Z.log2_up (card a) - 1) with (Z.pred (Z.log2_up (card a))) by lia. exact Hs.
Qed.

Lemma idx_of_in_alpha : forall a v, in_alpha a v = true <-> exists i, idx_of a v = Some i.
Proof.
  induction a as [| r tl IH]; intros v.
  - cbn. split; [discriminate | intros [i H]; discriminate].
  - rewrite in_alpha_cons. cbn [idx_of]. unfold in_run.
    destruct ((fst r <=? v) && (v <=? snd r)) eqn:E; cbn [orb].
    + split; eauto.
    + rewrite IH. split; intros [i H].
      * rewrite H. eauto.
      * destruct (idx_of tl v); [eauto | discriminate].
Qed.

Lemma card_nonneg : forall a lo, wf_from lo a -> 0 <= card a.
Proof.
  induction a as [| r tl IH]; intros lo H; cbn [card]; [lia |].
  destruct H as (H1 & H2 & H3). specialize (IH _ H3). lia.
Qed.

Lemma card_pos : forall a, wf_alpha a -> 1 <= card a.
Proof.
  intros [| r tl] [Hne H]; [congruence |]. cbn [card]. destruct H as (H1 & H2 & H3).
  pose proof (card_nonneg _ _ H3). lia.
Qed.

(* the code of a member is a number below the cardinal *)
Lemma idx_of_range : forall a lo v i, wf_from lo a -> idx_of a v = Some i -> 0 <= i < card a.
Proof.
  induction a as [| r tl IH]; intros lo v i Hwf H; cbn [idx_of card] in *; [discriminate |].
  destruct Hwf as (H1 & H2 & H3). pose proof (card_nonneg _ _ H3) as Hc.
  destruct ((fst r <=? v) && (v <=? snd r)) eqn:E.
  - inversion H; subst i. lia.
  - destruct (idx_of tl v) as [j |] eqn:Ej; [| discriminate]. inversion H; subst i.
    specialize (IH _ _ _ H3 Ej). lia.
Qed.

(* X.691 30.5.4 b: the codes follow the canonical order of the characters *)
Theorem idx_of_mono : forall a lo u v i j, wf_from lo a ->
  idx_of a u = Some i -> idx_of a v = Some j -> u < v -> i < j.
Proof.
  induction a as [| r tl IH]; intros lo u v i j Hwf Hu Hv Huv; cbn [idx_of] in *; [discriminate |].
  destruct Hwf as (H1 & H2 & H3).
  destruct ((fst r <=? u) && (u <=? snd r)) eqn:Eu.
  - inversion Hu; subst i.
    destruct ((fst r <=? v) && (v <=? snd r)) eqn:Ev.
    + inversion Hv; subst j. lia.
    + destruct (idx_of tl v) as [j' |] eqn:Ej; [| discriminate]. inversion Hv; subst j.
      pose proof (idx_of_range _ _ _ _ H3 Ej). lia.
  - destruct (idx_of tl u) as [i' |] eqn:Ei; [| discriminate]. inversion Hu; subst i.
    assert (Hlu : snd r + 1 <= u).
    { apply (in_alpha_lb tl _ _ H3). apply idx_of_in_alpha. eauto. }
    destruct ((fst r <=? v) && (v <=? snd r)) eqn:Ev; [lia |].
    destruct (idx_of tl v) as [j' |] eqn:Ej; [| discriminate]. inversion Hv; subst j.
    specialize (IH _ _ _ _ _ H3 Ei Ej Huv). lia.
Qed.

(* ================================================================== 6. the deviations of the C *)

(* a size outside the root of an extensible SIZE: "ABC" in IA5String (SIZE(1..2, ...)):
   the C writes 1 + 8 + 3 * 8 bits, X.691 30.4 asks for 1 + 8 + 3 * 7 *)
Theorem uper_size_ext_refuted : exists l us,
  uper_leaf false l (octets_of (s_k l) us) <> spec_uper_km l us /\
  uper_leaf true l (octets_of (s_k l) us) = spec_uper_km l us.
Proof.
  exists (Str 88 KIA5 (Some (SCon 1 (Some 2) true)) None), [65; 66; 67].
  split; [intros H; vm_compute in H; discriminate H | vm_compute; reflexivity].
Qed.

(* NumericString without constraints, the digit '5': the C writes 53 - 32 = 21 cut to 4 bits
   (0101), X.691 30.5.4 the index 6 in " 0123456789" (0110) *)
Theorem uper_numeric_plain_refuted : exists l us,
  uper_leaf false l (octets_of (s_k l) us) <> spec_uper_km l us /\
  uper_leaf true l (octets_of (s_k l) us) = spec_uper_km l us.
Proof.
  exists (Str 72 KNumeric None None), [53].
  split; [intros H; vm_compute in H; discriminate H | vm_compute; reflexivity].
Qed.

Example ex_numeric_plain :
  uper_leaf false (Str 72 KNumeric None None) [53] = Some (nbits 8 1 ++ [false; true; false; true]) /\
  uper_leaf true (Str 72 KNumeric None None) [53] = Some (nbits 8 1 ++ [false; true; true; false]).
Proof. vm_compute. auto. Qed.
