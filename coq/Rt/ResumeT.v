(* Rt/ResumeT.v — ber_check_tags with its tag_mode and last_tag_form parameters (C05,
   third layer), executable definitions only.

   Rt/Resume.v [chain_step] is the call the constructed decoders make for a type
   decoded under its own tags: tag_mode = 0, last_tag_form = 1.  A member, alternative
   or element that tags a REFERENCE to another type in place is decoded by the
   referenced type's decoder with tag_mode = +1 (EXPLICIT in place) or -1 (IMPLICIT
   in place), and ber_check_tags then walks

     tag_mode  0:  td->tags[0..n)                          tagno = step
     tag_mode -1:  one TL whose tag is not compared ("we don't expect tag to match
                   here": the caller has matched the member tag), then td->tags[1..n)
                                                           tagno = step
     tag_mode +1:  one TL more than td->tags (the wrapper, not compared), then
                   td->tags[0..n)                          tagno = step - 1

   Every TL but the last must be constructed; the last one must have the form
   last_tag_form (1 constructed, 0 primitive, -1 any).  [entries] is that walk as a
   list indexed by step: (tag to compare with | None, demanded form).

   The restart test.  The code restores the saved locals (limit_len,
   expect_00_terminators) when a call is entered with ctx->step > 0: [KStep].
   [KTagno] is the same function with the test written on tagno (= step - 1 for
   tag_mode +1, = step otherwise): it differs for tag_mode +1 at step = 1 only, i.e.
   after the wrapper's TL has been consumed.  It is kept as the refuted variant
   (ResumeTProofs.chainm_tagno_refuted) and lets the check name the mistake when
   the C behaves like it. *)
From Coq Require Import ZArith List Bool.
From A1 Require Import Base.Bytes Leaf.BerTL Rt.Resume.
Import ListNotations.
Local Open Scope Z_scope.

(* (tag to compare with, demanded form: 1 constructed / 0 primitive / -1 any) *)
Definition entry := (option Z * Z)%type.

Fixpoint entries_tags (ltf : Z) (tags : list Z) : list entry :=
  match tags with
  | [] => []
  | t :: rest =>
      match rest with
      | [] => [(Some t, ltf)]
      | _ :: _ => (Some t, 1) :: entries_tags ltf rest
      end
  end.

Definition entries (mode ltf : Z) (tags : list Z) : list entry :=
  if mode =? 1 then
    match tags with
    | [] => [(None, ltf)]                       (* a CHOICE tagged in place: the wrapper is the whole chain *)
    | _ :: _ => (None, 1) :: entries_tags ltf tags
    end
  else if mode =? 0 then entries_tags ltf tags
  else
    match entries_tags ltf tags with
    | [] => []
    | (_, f) :: r => (None, f) :: r
    end.

(* one iteration of the for loop *)
Definition entry_iter (e : entry) (w : list Z) (limit exp00 : Z) : iter_res :=
  match w with
  | [] => IMore
  | b0 :: _ =>
      let cons := (b0 / 32) mod 2 =? 1 in
      match fetch_tag w with
      | FMore => IMore
      | FErr => IFail
      | FOk tg n1 =>
          if negb (match fst e with Some t => tg =? t | None => true end) then IFail
          else if negb ((snd e =? -1) || (snd e =? (if cons then 1 else 0))) then IFail
          else
            match fetch_length cons (skipn n1 w) with
            | FMore => IMore
            | FErr => IFail
            | FOk len n2 =>
                if len =? -1 then
                  if limit =? -1 then INext limit (exp00 + 1) len (n1 + n2)
                  else IFail                     (* indefinite inside a definite chain *)
                else if negb (exp00 =? 0) then IFail   (* definite inside an indefinite chain *)
                else
                  let whole := len + Z.of_nat (n1 + n2) in
                  if limit =? -1 then INext (whole - Z.of_nat (n1 + n2)) exp00 len (n1 + n2)
                  else if limit =? whole then INext (limit - Z.of_nat (n1 + n2)) exp00 len (n1 + n2)
                  else IFail
            end
      end
  end.

Section Loop.
  Variable E : Type.
  Variable iter : E -> list Z -> Z -> Z -> iter_res.

  (* the loop over the remaining entries; [w] is the rest of the window, already cut
     to limit_len when that is known (as Resume.chain_loop) *)
  Fixpoint gen_loop (es : list E) (w : list Z) (limit exp00 lastlen : Z) (step consumed : nat)
    : code * nat * chain_ctx :=
    match es with
    | [] => (OK, consumed, {| cstep := step; cleft := (if exp00 =? 0 then lastlen else - exp00); cctx := 0 |})
    | e :: es' =>
        match iter e w limit exp00 with
        | IMore => (MORE, consumed, {| cstep := step; cleft := limit; cctx := exp00 |})
        | IFail => (FAIL, consumed, {| cstep := step; cleft := limit; cctx := exp00 |})
        | INext limit' exp00' len adv =>
            gen_loop es' (trunc limit' (skipn adv w)) limit' exp00' len (S step) (consumed + adv)%nat
        end
    end.

  (* [restored step]: does a call entered with ctx->step = step restore the saved locals? *)
  Definition gen_step (restored : nat -> bool) (es : list E) (c : chain_ctx) (w : list Z)
    : code * nat * chain_ctx :=
    if restored (cstep c)
    then gen_loop (skipn (cstep c) es) (trunc (cleft c) w) (cleft c) (cctx c) 0 (cstep c) O
    else gen_loop (skipn (cstep c) es) w (-1) 0 0 (cstep c) O.
End Loop.

Arguments gen_loop {E}.
Arguments gen_step {E}.

Inductive rkey := KStep | KTagno.

Definition restored (k : rkey) (mode : Z) (step : nat) : bool :=
  match k with
  | KStep => 0 <? Z.of_nat step
  | KTagno => 0 <? Z.of_nat step + (if mode =? 1 then -1 else 0)
  end.

Definition chainm_step (k : rkey) (mode ltf : Z) (tags : list Z) : chain_ctx -> list Z -> code * nat * chain_ctx :=
  gen_step entry_iter (restored k mode) (entries mode ltf tags).

(* ber_decode_primitive (asn_codecs_prim.c) for a member that tags a reference to a primitive type in place:
   ber_check_tags WITHOUT a restart context (every call starts afresh; consumed = 0 unless RC_OK) with the member's
   tag_mode and last_tag_form = 0, then the whole contents must be in the window.  tag_mode 0 with one tag is
   Resume.prim_step. *)
Definition primm_step (mode : Z) (tags : list Z) (c : prim_ctx) (w : list Z) : code * nat * prim_ctx :=
  match gen_loop entry_iter (entries mode 0 tags) w (-1) 0 0 O O with
  | (OK, k, cx) =>
      let len := cleft cx in
      let rest := skipn k w in
      if len <=? zlen rest then (OK, (k + Z.to_nat len)%nat, Some (firstn (Z.to_nat len) rest))
      else (MORE, O, c)
  | (MORE, _, _) => (MORE, O, c)
  | (FAIL, _, _) => (FAIL, O, c)
  end.
