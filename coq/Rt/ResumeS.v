(* Rt/ResumeS.v -- the "skip a TLV I do not know" branch of the restartable BER decoders of
   extensible constructed types (SET_decode_ber microphase 1, CHOICE_decode_ber phase 1,
   SEQUENCE_decode_ber): the tag is fetched, ber_skip_length is asked for the L and V BEHIND
   the tag, and only when the whole TLV is there the window is advanced over tag + skip in
   ONE step; RC_WMORE reports NOTHING consumed, because the decoder context has no place
   that would record "the tag has been taken" (ctx->step stays what it was).

   [skip_unknown false] is that code.  [skip_unknown true] is the variant that advances
   over the tag first (seeded change C05-10): RC_WMORE then reports the tag octets as
   consumed.  Theorems: the first is coherent (RC_WMORE resumable, RC_OK / RC_FAIL final ->
   every chunking gives the one-shot answer, by Resume.coherent_implies_chunk_independent);
   the second is not resumable (witness 81 01 | 05).

   ber_skip_length is the model of Rt/SafetySkip.v (C04); what is added here is that ALL
   its final answers (a count, and the error) are stable under more input, not the count
   only. *)
From Coq Require Import ZArith List Lia Bool.
From A1 Require Import Base.Bytes Leaf.BerTL Leaf.BerTLProofs Rt.Safety Rt.Resume Rt.ResumeProofs Rt.SafetySkip.
Import ListNotations.
Local Open Scope Z_scope.

Definition skip_unknown (tag_first : bool) (w : list Z) : code * nat :=
  match fetch_tag w with
  | FMore => (MORE, O)
  | FErr => (FAIL, O)
  | FOk _ tl =>
      match ber_skip_length (cons_bit w) (skipn tl w) with
      | SOk sk => (OK, (tl + sk)%nat)
      | SMore => (MORE, if tag_first then tl else O)
      | _ => (FAIL, if tag_first then tl else O)
      end
  end.

(* as a machine of Resume.v: no context at all *)
Definition skipu_step (tag_first : bool) (c : unit) (w : list Z) : code * nat * unit :=
  (skip_unknown tag_first w, tt).

(* ---- final answers of ber_skip_length are stable under more input ---- *)

Definition sfin (r : sres) : Prop := match r with SOk _ | SErr => True | _ => False end.

Definition rec_fin (rec : bool -> list Z -> sres) : Prop :=
  forall c b r ext, rec c b = r -> sfin r -> rec c (b ++ ext) = r.

Lemma fetch_tag_err_app p ext : fetch_tag p = FErr -> fetch_tag (p ++ ext) = FErr.
Proof. intros H. pose proof (fetch_tag_ext p ext) as E. rewrite H in E. exact E. Qed.

Lemma fetch_length_err_app c p ext : fetch_length c p = FErr -> fetch_length c (p ++ ext) = FErr.
Proof. intros H. pose proof (fetch_length_ext c p ext) as E. rewrite H in E. exact E. Qed.

Lemma skip_loop_fin rec ext : rec_bounded rec -> rec_fin rec ->
  forall g skip p r, skip_loop rec g skip p = r -> sfin r -> skip_loop rec g skip (p ++ ext) = r.
Proof.
  intros Hb Hs. induction g as [|g IH]; intros skip p r H Hf; cbn [skip_loop] in *;
    [subst r; destruct Hf|].
  destruct (fetch_tag p) as [tv tl| |] eqn:Et.
  - rewrite (fetch_tag_app _ ext _ _ Et).
    apply ber_fetch_tag_in_bounds in Et.
    assert (Hp : p <> []) by (destruct p; [cbn in Et; lia|discriminate]).
    rewrite (cons_bit_app _ ext Hp), (SafetySkip.skipn_app_le tl p ext) by lia.
    destruct (rec (cons_bit p) (skipn tl p)) as [l2| | | |] eqn:Er;
      try (subst r; destruct Hf; fail).
    + rewrite (Hs _ _ _ ext Er I).
      pose proof (Hb _ _ _ Er) as Hl. rewrite skipn_length in Hl.
      destruct (eoc_test p) as [e|] eqn:Ee; [|subst r; destruct Hf].
      rewrite (eoc_test_app _ ext _ Ee).
      destruct e; [exact H|].
      rewrite (SafetySkip.skipn_app_le (tl + l2) p ext) by lia. apply IH; assumption.
    + rewrite (Hs _ _ _ ext Er I). exact H.
  - subst r; destruct Hf.
  - rewrite (fetch_tag_err_app _ ext Et). exact H.
Qed.

Theorem skip_length_fin : forall f, rec_fin (skip_length f).
Proof.
  induction f as [|f IH]; intros c buf r ext H Hf; cbn [skip_length] in *; [subst r; destruct Hf|].
  destruct (fetch_length c buf) as [vlen ll| |] eqn:El.
  - rewrite (fetch_length_app _ _ ext _ _ El).
    apply fetch_length_count in El.
    destruct (0 <=? vlen) eqn:Ev.
    + destruct (Z.of_nat ll + vlen <=? zlen buf) eqn:Es; [|subst r; destruct Hf].
      assert (Hz : Z.of_nat ll + vlen <=? zlen (buf ++ ext) = true).
      { unfold zlen in *. rewrite app_length. lia. }
      rewrite Hz. exact H.
    + rewrite (SafetySkip.skipn_app_le ll buf ext) by lia.
      apply skip_loop_fin; [apply skip_length_bounds|exact IH|exact H|exact Hf].
  - subst r; destruct Hf.
  - rewrite (fetch_length_err_app _ _ ext El). exact H.
Qed.

Theorem ber_skip_length_final c buf r ext :
  ber_skip_length c buf = r -> sfin r -> ber_skip_length c (buf ++ ext) = r.
Proof.
  intros H Hf. unfold ber_skip_length in *.
  apply (skip_length_fin _ _ _ _ ext) in H; [|exact Hf].
  rewrite app_length.
  replace (S (length buf + length ext)) with (length ext + S (length buf))%nat by lia.
  rewrite skip_length_add_fuel; [exact H|]. rewrite H. intros E. rewrite E in Hf. destruct Hf.
Qed.

(* ---- the skipping branch as it is: coherent ---- *)

Lemma skip_unknown_more w k : skip_unknown false w = (MORE, k) -> k = O.
Proof.
  unfold skip_unknown. destruct (fetch_tag w) as [tv tl| |]; try (intros H; injection H as <-; reflexivity); try discriminate.
  destruct (ber_skip_length (cons_bit w) (skipn tl w)); intros H; try discriminate; injection H as <-; reflexivity.
Qed.

Lemma skip_unknown_final tf w r k more : skip_unknown tf w = (r, k) -> r <> MORE ->
  skip_unknown tf (w ++ more) = (r, k).
Proof.
  unfold skip_unknown. intros H Hr.
  destruct (fetch_tag w) as [tv tl| |] eqn:Et.
  - rewrite (fetch_tag_app _ more _ _ Et).
    apply ber_fetch_tag_in_bounds in Et.
    assert (Hp : w <> []) by (destruct w; [cbn in Et; lia|discriminate]).
    rewrite (cons_bit_app _ more Hp), (SafetySkip.skipn_app_le tl w more) by lia.
    destruct (ber_skip_length (cons_bit w) (skipn tl w)) as [sk| | | |] eqn:Es.
    + rewrite (ber_skip_length_final _ _ _ more Es I). exact H.
    + injection H as <- _. congruence.
    + rewrite (ber_skip_length_final _ _ _ more Es I). exact H.
    + exfalso. exact (ber_skip_length_total _ _ Es).
    + exfalso. exact (ber_skip_length_reads_in_bounds _ _ Es).
  - injection H as <- _. congruence.
  - rewrite (fetch_tag_err_app _ more Et). exact H.
Qed.

Theorem skipu_coherent : coherent (skipu_step false).
Proof.
  split.
  - intros c p k c' H. unfold skipu_step in H.
    destruct (skip_unknown false p) as [r k0] eqn:E. injection H as -> -> <-.
    apply skip_unknown_more in E. subst k. split; [lia|].
    intros more. cbn [skipn]. destruct c.
    destruct (skipu_step false tt (p ++ more)) as [[r n] x]. reflexivity.
  - intros c p r k c' H Hr more. unfold skipu_step in *.
    destruct (skip_unknown false p) as [r0 k0] eqn:E. injection H as -> -> <-.
    rewrite (skip_unknown_final _ _ _ _ more E Hr). reflexivity.
Qed.

Theorem skipu_chunk_independent : forall input chunks,
  chunking_of input chunks -> feed0 (skipu_step false) tt chunks = skipu_step false tt input.
Proof. apply coherent_implies_chunk_independent. apply skipu_coherent. Qed.

(* RC_OK / RC_FAIL of the variant are final too (one-shot behaviour is the same) ... *)
Theorem skipu_oneshot_same : forall w, fst (skip_unknown true w) = fst (skip_unknown false w) /\
  (fst (skip_unknown false w) = OK -> skip_unknown true w = skip_unknown false w).
Proof.
  intros w. unfold skip_unknown. destruct (fetch_tag w) as [tv tl| |]; try (split; reflexivity).
  destruct (ber_skip_length (cons_bit w) (skipn tl w)); split; try reflexivity; cbn [fst]; discriminate.
Qed.

(* ... but its RC_WMORE is not resumable: 81 01 | 05 (context tag 1, one octet of contents):
   the first call answers (RC_WMORE, 1 consumed); resumed on 01 05 the length octet is read as a tag *)
Theorem skipu_tag_first_refuted : ~ resumable (skipu_step true).
Proof.
  intros H.
  destruct (H tt [129; 1] 1%nat tt eq_refl) as [_ H1].
  specialize (H1 [5]). vm_compute in H1. discriminate.
Qed.
