(* Rt/HeapXProofs.v — proofs about Rt/HeapX.v (C14, round c14x). *)
From Coq Require Import ZArith List Bool Lia Permutation.
From A1 Require Import Rt.Types Rt.Heap Rt.HeapProofs Rt.DerProofs Rt.HeapX.
Import ListNotations.
Local Open Scope Z_scope.

(* ------------------------------------------------------------------ lists of bytes *)
Lemma memset_zero_all : forall n (bs : list Z), length bs = n -> memset_zero n bs = repeat 0 n.
Proof.
  intros n bs H. unfold memset_zero. subst n. rewrite Nat.min_id.
  rewrite skipn_all. apply app_nil_r.
Qed.

Lemma memset_zero_length : forall n (bs : list Z), length (memset_zero n bs) = length bs.
Proof.
  intros n bs. unfold memset_zero. rewrite app_length, repeat_length, skipn_length. lia.
Qed.

Lemma clear_range_length : forall o l (bs : list Z), length (clear_range o l bs) = length bs.
Proof.
  intros o l bs. unfold clear_range.
  rewrite app_length, memset_zero_length, firstn_length, skipn_length. lia.
Qed.

Lemma clear_field_length : forall k f (bs : list Z), length (clear_field k f bs) = length bs.
Proof.
  intros k f bs. unfold clear_field. destruct (field_at k f) as [[o l]|]; [apply clear_range_length | reflexivity].
Qed.

Lemma skipn_repeat : forall (o n : nat) (z : Z), skipn o (repeat z n) = repeat z (n - o).
Proof.
  induction o as [|o IH]; intros n z; cbn.
  - rewrite Nat.sub_0_r. reflexivity.
  - destruct n as [|n]; cbn; [reflexivity | apply IH].
Qed.

Lemma firstn_repeat : forall (l n : nat) (z : Z), (l <= n)%nat -> firstn l (repeat z n) = repeat z l.
Proof.
  induction l as [|l IH]; intros n z H; cbn; [reflexivity|].
  destruct n as [|n]; [lia|]. cbn. f_equal. apply IH. lia.
Qed.

Lemma slice_repeat : forall (o l n : nat), (o + l <= n)%nat -> slice o l (repeat 0 n) = repeat 0 l.
Proof.
  intros o l n H. unfold slice. rewrite skipn_repeat. apply firstn_repeat. lia.
Qed.

Lemma nonzero_repeat : forall n, nonzero (repeat 0 n) = false.
Proof. induction n as [|n IH]; cbn; [reflexivity | exact IH]. Qed.

Lemma le_val_repeat : forall n, le_val (repeat 0 n) = 0.
Proof. induction n as [|n IH]; cbn [repeat le_val]; [reflexivity | rewrite IH; reflexivity]. Qed.

(* ------------------------------------------------------------------ Part 1: leaf structures *)
(* the span every free function wipes is the whole C type: no field of any leaf kind lies outside it *)
Theorem wiped_is_sizeof : forall k, wiped k = sizeof k.
Proof. destruct k; reflexivity. Qed.

Lemma field_in_range : forall k f o l, field_at k f = Some (o, l) -> (o + l <= sizeof k)%nat.
Proof.
  intros k f o l H. destruct k, f; cbn in H; try discriminate;
    injection H as Ho Hl; subst; cbn; lia.
Qed.

Lemma leaf_free_length : forall k m bs, length (snd (leaf_free k m bs)) = length bs.
Proof.
  intros k m bs. unfold leaf_free. cbn [snd].
  assert (H1 : length (if clears_buf k && field_nonzero k FBuf bs then clear_field k FBuf bs else bs) = length bs)
    by (destruct (clears_buf k && field_nonzero k FBuf bs); [apply clear_field_length | reflexivity]).
  destruct m; try exact H1. rewrite memset_zero_length. exact H1.
Qed.

(* ASN_STRUCT_RESET of a leaf structure leaves EVERY byte of the C type zero: it is the structure CALLOC gives *)
Theorem leaf_reset_is_calloc : forall k bs, length bs = sizeof k ->
  snd (leaf_free k FreeUnderlyingAndReset bs) = calloc k.
Proof.
  intros k bs H. unfold leaf_free, calloc. cbn [snd].
  rewrite wiped_is_sizeof. apply memset_zero_all.
  destruct (clears_buf k && field_nonzero k FBuf bs); [rewrite clear_field_length|]; exact H.
Qed.

(* ... in particular every field, the ones beyond {buf, size} included (bits_unused, the decoder context) *)
Theorem leaf_reset_clears_every_field : forall k f o l bs, length bs = sizeof k ->
  field_at k f = Some (o, l) ->
  slice o l (snd (leaf_free k FreeUnderlyingAndReset bs)) = repeat 0 l.
Proof.
  intros k f o l bs H Hf. rewrite (leaf_reset_is_calloc k bs H). unfold calloc.
  apply slice_repeat. eapply field_in_range; exact Hf.
Qed.

(* the CALLOC structure owns nothing: a further RESET / FREE_CONTENTS_ONLY releases nothing, FREE only the block *)
Theorem leaf_calloc_owns_nothing : forall k m,
  fst (leaf_free k m (calloc k)) = if is_everything m then [KStruct] else [].
Proof.
  intros k m. unfold leaf_free, calloc. cbn [fst].
  assert (Hz : forall f, field_nonzero k f (repeat 0 (sizeof k)) = false).
  { intros f. unfold field_nonzero. destruct (field_at k f) as [[o l]|] eqn:E; [|reflexivity].
    rewrite slice_repeat by (eapply field_in_range; exact E). apply nonzero_repeat. }
  rewrite !Hz. reflexivity.
Qed.

(* RESET is idempotent and FREE after RESET releases exactly the block *)
Corollary leaf_reset_then_free : forall k bs, length bs = sizeof k ->
  fst (leaf_free k FreeEverything (snd (leaf_free k FreeUnderlyingAndReset bs))) = [KStruct] /\
  leaf_free k FreeUnderlyingAndReset (snd (leaf_free k FreeUnderlyingAndReset bs)) = ([], calloc k).
Proof.
  intros k bs H. rewrite (leaf_reset_is_calloc k bs H). split.
  - apply (leaf_calloc_owns_nothing k FreeEverything).
  - rewrite (surjective_pairing (leaf_free k FreeUnderlyingAndReset (calloc k))).
    rewrite (leaf_calloc_owns_nothing k FreeUnderlyingAndReset).
    rewrite (leaf_reset_is_calloc k (calloc k)); [reflexivity|]. unfold calloc. apply repeat_length.
Qed.

(* every block a free method releases is released at most once (the three events are distinct) *)
Theorem leaf_free_events_nodup : forall k m bs, NoDup (fst (leaf_free k m bs)).
Proof.
  intros k m bs. unfold leaf_free. cbn [fst].
  destruct (field_nonzero k FBuf bs), (field_nonzero k FCtxPtr bs), (is_everything m); cbn;
    repeat constructor; cbn; intuition discriminate.
Qed.

(* ------------------------------------------------------------------ Part 2: decode after RESET = decode into a fresh structure *)
Lemma bits_unused_of_calloc : bits_unused_of (calloc LBits) = 0.
Proof. reflexivity. Qed.

(* a decoder is a function of (structure, input); after RESET the structure is the CALLOC one, so every
   decoder - whatever it reads of the old state - behaves as on a fresh structure *)
Theorem decode_after_reset_is_fresh : forall (A : Type) k (dec : list Z -> A) bs, length bs = sizeof k ->
  dec (snd (leaf_free k FreeUnderlyingAndReset bs)) = dec (calloc k).
Proof. intros A k dec bs H. rewrite (leaf_reset_is_calloc k bs H). reflexivity. Qed.

(* the instance that matters: BIT_STRING_decode_uper after RESET yields the unused-bit count the length dictates *)
Theorem uper_bits_unused_after_reset : forall bs n, length bs = sizeof LBits ->
  uper_bits_unused (snd (leaf_free LBits FreeUnderlyingAndReset bs)) n = spec_bits_unused n.
Proof.
  intros bs n H. rewrite (leaf_reset_is_calloc LBits bs H).
  unfold uper_bits_unused, spec_bits_unused. rewrite bits_unused_of_calloc.
  destruct (n mod 8 =? 0) eqn:E.
  - apply Z.eqb_eq in E. rewrite E. reflexivity.
  - apply Z.eqb_neq in E. pose proof (Z.mod_pos_bound n 8 ltac:(lia)) as B.
    symmetry. apply Z.mod_small. lia.
Qed.

(* ... and on a structure that was NOT reset it does not: the field must really be cleared *)
Example uper_bits_unused_stale_refuted : exists prior n, length prior = sizeof LBits /\
  uper_bits_unused prior n <> spec_bits_unused n.
Proof.
  exists (repeat 0 16 ++ [3; 0; 0; 0] ++ repeat 0 28), 8. split; [reflexivity|]. vm_compute. discriminate.
Qed.

(* the same witness: a RESET that spares bits_unused (clears buf, size and the context only) is caught *)
Example partial_reset_refuted : exists bs, length bs = sizeof LBits /\
  clear_field LBits FCtxLeft (clear_field LBits FCtxPtr (clear_field LBits FCtxContext (clear_field LBits FCtxPhaseStep
    (clear_field LBits FSize (clear_field LBits FBuf bs))))) <> calloc LBits.
Proof.
  exists (repeat 1 16 ++ [3; 0; 0; 0] ++ repeat 0 28). split; [reflexivity|]. vm_compute. discriminate.
Qed.

(* ------------------------------------------------------------------ Part 3: open type reader clean-up *)
Lemma dispose_is_everything : forall slot, is_everything (dispose_method slot) = slot_is_null slot.
Proof. destruct slot; reflexivity. Qed.

(* A failure inside the container leaves the ledger exactly as it was before the call: whatever the inner
   decoder allocated (the structure itself only if the slot was NULL) is released, each block once, nothing else *)
Theorem open_get_fail_balanced : forall t p slot s live,
  NoDup (live ++ inner_owned t p slot s) ->
  exists live', run_frees (live ++ inner_owned t p slot s) (fst (fst (open_get t p slot (InnerFail s)))) = Some live'
                /\ Permutation live live'.
Proof.
  intros t p slot s live Hnd. cbn [open_get fst].
  apply run_frees_part; [exact Hnd|].
  eapply perm_trans; [apply Permutation_app_comm|]. apply Permutation_app_head.
  unfold inner_owned. rewrite <- dispose_is_everything. apply free_exact.
Qed.

(* the slot afterwards: NULL again for a pointer member, the CALLOC structure for provided storage *)
Theorem open_get_fail_slot : forall t p slot s, shape t s = true ->
  snd (fst (open_get t p slot (InnerFail s))) = match slot with None => None | Some _ => Some (zero t) end.
Proof.
  intros t p slot s Hs. cbn. destruct slot; [|reflexivity]. rewrite (memset0_is_zero t s Hs). reflexivity.
Qed.

Theorem open_get_ok_keeps : forall t p slot s, open_get t p slot (InnerOk s) = ([], Some s, true).
Proof. reflexivity. Qed.

(* the seeded mistake, on the model: with the method chosen after the inner decoder ran, a failure in a NULL slot
   (every extension addition) leaves the structure's own block live - and the slot is NULL: a leak *)
Theorem open_get_late_dispose_leaks : forall t p s live,
  is_slot t = false -> shape t s = true ->
  NoDup (live ++ inner_owned t p None s) ->
  exists live', run_frees (live ++ inner_owned t p None s) (open_get_late t p (InnerFail s)) = Some live'
                /\ Permutation ((p, KStruct) :: live) live'.
Proof.
  intros t p s live Hsl Hsh Hnd. cbn [open_get_late].
  apply run_frees_part; [exact Hnd|].
  unfold inner_owned. cbn [slot_is_null]. rewrite (owned_boxed t p s Hsl Hsh).
  eapply perm_trans; [apply Permutation_sym, Permutation_middle|].
  eapply perm_trans; [|apply Permutation_middle].
  apply perm_skip.
  eapply perm_trans; [apply Permutation_app_comm|]. apply Permutation_app_head.
  apply (free_exact t FreeUnderlyingAndReset).
Qed.

(* ------------------------------------------------------------------ Part 4: extension holders *)
Definition wtm : list ty -> list val -> bool :=
  fix go (ms : list ty) (vs : list val) : bool :=
    match ms, vs with
    | [], [] => true
    | m :: ms', v :: vs' => wt m v && go ms' vs'
    | _, _ => false
    end.

Lemma wt_seq_wtm : forall tg ms vs, wt (TSeq tg ms) (VSeq vs) = wtm ms vs.
Proof. reflexivity. Qed.

Lemma wtm_opt_absent : forall adds vs j, wtm (map TOpt adds) vs = true ->
  wtm (map TOpt adds) (absent_from j vs) = true.
Proof.
  induction adds as [|a adds IH]; intros vs j H; destruct vs as [|v vs]; cbn [map wtm] in H; try discriminate.
  - destruct j; reflexivity.
  - apply andb_true_iff in H. destruct H as [Hv Hr].
    destruct j as [|j].
    + unfold absent_from. cbn [firstn skipn app map]. cbn [wtm].
      change (map (fun _ : val => VNone) vs) with (absent_from 0 vs). rewrite (IH vs O Hr). reflexivity.
    + unfold absent_from. cbn [firstn skipn app map]. cbn [wtm].
      change (firstn j vs ++ map (fun _ : val => VNone) (skipn j vs)) with (absent_from j vs).
      rewrite Hv, (IH vs j Hr). reflexivity.
Qed.

Lemma wtm_absent : forall root adds vs j, wtm (root ++ map TOpt adds) vs = true ->
  wtm (root ++ map TOpt adds) (absent_from (length root + j) vs) = true.
Proof.
  induction root as [|r root IH]; intros adds vs j H.
  - apply wtm_opt_absent. exact H.
  - destruct vs as [|v vs]; cbn in H; [discriminate|].
    apply andb_true_iff in H. destruct H as [Hv Hr].
    unfold absent_from. cbn [length Nat.add firstn skipn app]. cbn [wtm].
    change (firstn (length root + j) vs ++ map (fun _ : val => VNone) (skipn (length root + j) vs))
      with (absent_from (length root + j) vs).
    rewrite Hv. cbn. apply IH. exact Hr.
Qed.

(* the value "additions from j on absent" is a value of the extensible type again ... *)
Theorem absent_from_wt : forall tg root adds vs j,
  wt (ext_holder tg root adds) (VSeq vs) = true ->
  wt (ext_holder tg root adds) (VSeq (absent_from (length root + j) vs)) = true.
Proof. intros tg root adds vs j H. unfold ext_holder in *. rewrite wt_seq_wtm in *. apply wtm_absent. exact H. Qed.

(* ... the member slots of the structure left by the failure: the first nroot+j as the complete decode builds them,
   every later one a NULL pointer *)
Lemma of_members_absent : forall o adds vs j, length vs = length adds ->
  of_members (of_val o) (map TOpt adds) (absent_from j vs) =
  firstn j (of_members (of_val o) (map TOpt adds) vs) ++ repeat (SPtr None) (length vs - j).
Proof.
  induction adds as [|a adds IH]; intros vs j H; destruct vs as [|v vs]; cbn in H; try discriminate.
  - destruct j; reflexivity.
  - injection H as H. destruct j as [|j].
    + unfold absent_from. cbn [firstn skipn app map]. cbn [of_members map]. cbn [of_val].
      change (map (fun _ : val => VNone) vs) with (absent_from 0 vs).
      rewrite (IH vs O H). cbn [firstn app]. rewrite Nat.sub_0_r. reflexivity.
    + unfold absent_from. cbn [firstn skipn app]. cbn [of_members map].
      change (firstn j vs ++ map (fun _ : val => VNone) (skipn j vs)) with (absent_from j vs).
      rewrite (IH vs j H). reflexivity.
Qed.

Theorem fail_in_addition_slots : forall o root adds vs j, length vs = length (root ++ map TOpt adds) ->
  of_members (of_val o) (root ++ map TOpt adds) (absent_from (length root + j) vs) =
  firstn (length root + j) (of_members (of_val o) (root ++ map TOpt adds) vs)
    ++ repeat (SPtr None) (length vs - (length root + j)).
Proof.
  induction root as [|r root IH]; intros adds vs j H.
  - cbn [app length Nat.add]. apply of_members_absent. cbn in H. rewrite map_length in H. exact H.
  - destruct vs as [|v vs]; cbn in H; [discriminate|]. injection H as H.
    unfold absent_from. cbn [length Nat.add firstn skipn app]. cbn [of_members app].
    change (firstn (length root + j) vs ++ map (fun _ : val => VNone) (skipn (length root + j) vs))
      with (absent_from (length root + j) vs).
    rewrite (IH adds vs j H). reflexivity.
Qed.

(* the structure left by a failure inside the container of addition j goes through the whole lifecycle cleanly:
   it is laid out for the type, ASN_STRUCT_FREE releases every block once and leaves nothing, ASN_STRUCT_RESET
   leaves the CALLOC structure and its block *)
Theorem fail_in_addition_lifecycle : forall oerd tg root adds vs j,
  wt (ext_holder tg root adds) (VSeq vs) = true ->
  let t := ext_holder tg root adds in
  let s := fail_in_addition oerd (length root) j t (VSeq vs) in
  shape t s = true /\
  apply_free t FreeEverything (owned t true [] s) s = (Some [], None) /\
  apply_free t FreeUnderlyingAndReset (owned t true [] s) s = (Some [([], KStruct)], Some (zero t)).
Proof.
  intros oerd tg root adds vs j H t s.
  pose proof (absent_from_wt tg root adds vs j H) as H'.
  assert (Hsl : is_slot t = false) by reflexivity.
  destruct (decoded_lifecycle oerd t (VSeq (absent_from (length root + j) vs)) Hsl H') as [A [B _]].
  split; [|split].
  - apply shape_of_val. exact H'.
  - exact A.
  - exact B.
Qed.

(* an open type holder (inline alternatives) whose selected member was wiped by the reader's clean-up owns nothing *)
Theorem open_holder_after_fail : forall rows p i,
  owned (open_holder rows) false p (SChoice O (SScalar 0)) = [] /\
  free_model (open_holder rows) FreeUnderlying (i :: p) (SChoice O (SScalar 0)) = [].
Proof. intros. split; reflexivity. Qed.
