(* Rt/EntrefCompleteProofs.v — C03, value-level completeness of the XER text
   reader: every legal spelling of every character is read as that character.

   entref_complete          a numeric reference with ANY digits (leading zeros,
                            hex digits of either case, digit by digit) denoting a
                            code point 1..0x10ffff is read by ResumeX.ref_at as the
                            UTF-8 octets of that code point, all of it consumed,
                            whatever follows;
   spelling_exists          every code point 1..0x10ffff has such spellings (the
                            theorem is about all of them, none is missing);
   entref_text_complete     a text whose characters are each written in any of
                            their spellings (raw UTF-8, &amp; &lt; &gt;, numeric)
                            followed by a tag is read by ResumeX.entref_step as the
                            string spelled, and consumed in full;
   ref_at_g_digit_of        the parametrised reader with the C's digit table is the
                            reader of ResumeX;
   entref_complete_lower_refuted
                            with the lower-case-only table (seeded/C03-6) the
                            completeness statement is false: &#xE9; is not read as
                            U+00E9. *)
From Coq Require Import ZArith List Lia Bool ZifyBool.
From A1 Require Import Base.Bytes Base.Digits Rt.Resume Rt.ResumeX Rt.ResumeXProofs Rt.EntrefComplete.
Import ListNotations.
Local Open Scope Z_scope.

Definition digit_ok (base : Z) (d : Z * bool) : Prop := 0 <= fst d < base.

(* ---- digits ---- *)
Lemma digit_char_range base d : base <= 16 -> digit_ok base d ->
  digit_char d <> 59 /\ digit_of (digit_char d) = Some (fst d) /\ (base <= 10 -> 48 <= digit_char d <= 57).
Proof.
  unfold digit_ok, digit_char, digit_of. intros Hb [H0 H1].
  destruct (fst d <? 10) eqn:E.
  - repeat split; try lia.
    replace ((48 <=? 48 + fst d) && (48 + fst d <=? 57)) with true by lia. f_equal. lia.
  - destruct (snd d).
    + repeat split; try lia.
      replace ((48 <=? 55 + fst d) && (55 + fst d <=? 57)) with false by lia.
      replace ((65 <=? 55 + fst d) && (55 + fst d <=? 70)) with true by lia. f_equal. lia.
    + repeat split; try lia.
      replace ((48 <=? 87 + fst d) && (87 + fst d <=? 57)) with false by lia.
      replace ((65 <=? 87 + fst d) && (87 + fst d <=? 70)) with false by lia.
      replace ((97 <=? 87 + fst d) && (87 + fst d <=? 102)) with true by lia. f_equal. lia.
Qed.

Definition acc_val (base : Z) (ds : list (Z * bool)) (v : Z) : Z :=
  fold_left (fun a d => a * base + d) (map fst ds) v.

Lemma acc_val_cons base d tl v : acc_val base (d :: tl) v = acc_val base tl (v * base + fst d).
Proof. reflexivity. Qed.

Lemma acc_val_mono base : 1 <= base -> forall ds v, 0 <= v -> Forall (digit_ok base) ds ->
  v <= acc_val base ds v.
Proof.
  intros Hb. induction ds as [|d tl IH]; intros v Hv Hds.
  - unfold acc_val; simpl. lia.
  - inversion Hds as [|? ? Hd Htl]; subst. rewrite acc_val_cons.
    unfold digit_ok in Hd.
    assert (Hv' : 0 <= v * base + fst d) by nia.
    specialize (IH (v * base + fst d) Hv' Htl). nia.
Qed.

(* ---- the number parser on any digit string ---- *)
Lemma strtoent_digits base rest : 1 <= base <= 16 -> forall ds v n,
  0 <= v -> Forall (digit_ok base) ds -> acc_val base ds v <= last_unicode ->
  strtoent base (map digit_char ds ++ 59 :: rest) v n = NVal (acc_val base ds v) (S (n + length ds)).
Proof.
  intros Hb. induction ds as [|d tl IH]; intros v n Hv Hds Hmax.
  - cbn [map app strtoent length]. change (59 =? 59) with true. cbv iota.
    unfold acc_val; simpl. rewrite Nat.add_0_r. reflexivity.
  - inversion Hds as [|? ? Hd Htl]; subst.
    destruct (digit_char_range base d ltac:(lia) Hd) as (H59 & Hdig & _).
    cbn [map app strtoent length].
    replace (digit_char d =? 59) with false by lia. rewrite Hdig. cbv zeta.
    rewrite acc_val_cons in Hmax.
    assert (Hv' : 0 <= v * base + fst d) by (unfold digit_ok in Hd; nia).
    pose proof (acc_val_mono base ltac:(lia) tl _ Hv' Htl) as Hm.
    replace (last_unicode <? v * base + fst d) with false by lia.
    rewrite IH by assumption. rewrite acc_val_cons. f_equal. lia.
Qed.

Lemma ref_val_acc base ds : ref_val base ds = acc_val base ds 0.
Proof. reflexivity. Qed.

Definition spelling_ok (hexa : bool) (ds : list (Z * bool)) : Prop :=
  Forall (digit_ok (base_of hexa)) ds /\ 0 < ref_val (base_of hexa) ds <= last_unicode.

(* ---- one reference ---- *)
Theorem entref_complete hexa ds rest : spelling_ok hexa ds ->
  ref_at (ref_chars hexa ds ++ rest)
  = XChars (utf8_of (ref_val (base_of hexa) ds)) (length (ref_chars hexa ds)).
Proof.
  intros [Hds [Hpos Hmax]]. unfold ref_chars.
  destruct hexa; cbn [base_of] in *.
  - cbn [app]. rewrite <- app_assoc. cbn [app]. unfold ref_at.
    change (35 =? 35) with true. cbv iota. change (120 =? 120) with true. cbv zeta iota.
    rewrite (strtoent_digits 16 rest ltac:(lia) ds 0 O ltac:(lia) Hds) by (rewrite <- ref_val_acc; lia).
    rewrite <- ref_val_acc.
    replace (ref_val 16 ds =? 0) with false by lia.
    f_equal. cbn [length]. rewrite app_length, map_length. cbn [length]. lia.
  - destruct ds as [|d tl].
    + unfold ref_val in Hpos; simpl in Hpos. lia.
    + cbn [app map]. rewrite <- app_assoc. cbn [app]. unfold ref_at.
      change (35 =? 35) with true. cbv iota.
      inversion Hds as [|? ? Hd Htl]; subst.
      destruct (digit_char_range 10 d ltac:(lia) Hd) as (_ & _ & Hr).
      replace (digit_char d =? 120) with false by lia. cbv zeta iota.
      change (digit_char d :: map digit_char tl ++ 59 :: rest) with (map digit_char (d :: tl) ++ 59 :: rest).
      rewrite (strtoent_digits 10 rest ltac:(lia) (d :: tl) 0 O ltac:(lia) Hds) by (rewrite <- ref_val_acc; lia).
      rewrite <- ref_val_acc.
      replace (ref_val 10 (d :: tl) =? 0) with false by lia.
      f_equal. cbn [length]. rewrite app_length, map_length. cbn [length]. lia.
Qed.

(* ---- every code point has spellings: the canonical digits, in either case,
        behind any number of zeros ---- *)
Lemma ref_val_dval base ds : 1 < base -> ref_val base ds = dval base (map fst ds).
Proof.
  intros Hb. unfold ref_val. rewrite (fold_dval base). lia.
Qed.

Lemma map_fst_pair (up : bool) (l : list Z) : map fst (map (fun d => (d, up)) l) = l.
Proof. induction l as [|x tl IH]; [reflexivity|]. cbn [map fst]. now rewrite IH. Qed.

Theorem spelling_exists hexa (up : bool) (zeros : nat) cp : 0 < cp <= last_unicode ->
  exists ds, spelling_ok hexa ds /\ ref_val (base_of hexa) ds = cp /\ (length ds = zeros + 7)%nat.
Proof.
  intros Hcp. set (B := base_of hexa).
  assert (HB : 1 < B) by (unfold B; destruct hexa; cbn; lia).
  assert (HB7 : last_unicode < B ^ Z.of_nat (zeros + 7)).
  { assert (10 ^ 7 <= B ^ Z.of_nat (zeros + 7)).
    { transitivity (B ^ 7).
      - apply Z.pow_le_mono_l. unfold B; destruct hexa; cbn; lia.
      - apply Z.pow_le_mono_r; lia. }
    unfold last_unicode. change (10 ^ 7) with 10000000 in H. lia. }
  exists (map (fun d => (d, up)) (digits B (zeros + 7) cp)).
  assert (Hv : ref_val B (map (fun d => (d, up)) (digits B (zeros + 7) cp)) = cp).
  { rewrite ref_val_dval by exact HB. rewrite map_fst_pair, (dval_digits B HB).
    apply Z.mod_small. lia. }
  split; [split|split].
  - pose proof (digits_ok_digits B HB (zeros + 7) cp) as Hok. unfold digits_ok in Hok.
    apply Forall_forall. intros [d u] Hin. apply in_map_iff in Hin. destruct Hin as (x & Hx & Hin).
    inversion Hx; subst. unfold digit_ok; cbn [fst].
    rewrite Forall_forall in Hok. apply Hok. exact Hin.
  - fold B. rewrite Hv. exact Hcp.
  - exact Hv.
  - rewrite map_length. apply (digits_length B).
Qed.

(* ---- whole texts ---- *)
Definition item_ok (it : item) : Prop :=
  match it with
  | IRaw c => 0 < c <= last_unicode /\ c <> 38 /\ c <> 60
  | INamed c => c = 38 \/ c = 60 \/ c = 62
  | IRef h ds => spelling_ok h ds
  end.

Lemma utf8_plain c : 0 < c <= last_unicode -> c <> 38 -> c <> 60 ->
  Forall (fun ch => ch <> 38 /\ ch <> 60) (utf8_of c).
Proof.
  intros Hc H38 H60. unfold utf8_of, last_unicode in *.
  destruct (c <? 128) eqn:E1; [repeat constructor; lia|].
  destruct (c <? 2048) eqn:E2.
  { pose proof (Z.mod_pos_bound c 64 ltac:(lia)). pose proof (Z.div_pos c 64 ltac:(lia) ltac:(lia)).
    repeat constructor; lia. }
  destruct (c <? 65536) eqn:E3.
  { pose proof (Z.mod_pos_bound c 64 ltac:(lia)). pose proof (Z.mod_pos_bound (c / 64) 64 ltac:(lia)).
    pose proof (Z.div_pos c 4096 ltac:(lia) ltac:(lia)).
    repeat constructor; lia. }
  pose proof (Z.mod_pos_bound c 64 ltac:(lia)). pose proof (Z.mod_pos_bound (c / 64) 64 ltac:(lia)).
  pose proof (Z.mod_pos_bound (c / 4096) 64 ltac:(lia)).
  pose proof (Z.div_pos c 262144 ltac:(lia) ltac:(lia)).
  repeat constructor; lia.
Qed.

Lemma conv_plain f : forall a w, Forall (fun ch => ch <> 38 /\ ch <> 60) a ->
  conv f (a ++ w) O = match conv f w O with (o, k) => (a ++ o, (length a + k)%nat) end.
Proof.
  induction a as [|x a IH]; intros w Ha; cbn [app length].
  - destruct (conv f w O) as [o k]. reflexivity.
  - inversion Ha as [|? ? Hx Hta]; subst. cbn [conv].
    replace (x =? 38) with false by lia. rewrite IH by exact Hta.
    destruct (conv f w O) as [o k]. reflexivity.
Qed.

Lemma conv_ref f out tail w : ref_at (38 :: tail ++ w) = XChars out (S (length tail)) ->
  conv f (38 :: tail ++ w) O = match conv f w O with (o, k) => (out ++ o, (S (length tail) + k)%nat) end.
Proof.
  intros H. cbn [conv]. change (38 =? 38) with true. cbv iota. rewrite H.
  replace (S (length tail) - 1)%nat with (length tail) by lia.
  rewrite conv_skip. destruct (conv f w O) as [o k]. reflexivity.
Qed.

Lemma digit_char_not60 base d : base <= 16 -> digit_ok base d -> digit_char d <> 60 /\ digit_char d <> 38.
Proof.
  unfold digit_ok, digit_char. intros Hb [H0 H1].
  destruct (fst d <? 10) eqn:E; [lia|]. destruct (snd d); lia.
Qed.

Lemma ref_chars_no60 hexa ds : Forall (digit_ok (base_of hexa)) ds -> Forall (fun ch => ch <> 60) (ref_chars hexa ds).
Proof.
  intros Hds. unfold ref_chars.
  assert (Hm : Forall (fun ch => ch <> 60) (map digit_char ds ++ [59])).
  { apply Forall_app. split; [|repeat constructor; lia].
    apply Forall_forall. intros ch Hin. apply in_map_iff in Hin. destruct Hin as (d & Hdd & Hin). subst ch.
    rewrite Forall_forall in Hds.
    apply (digit_char_not60 (base_of hexa) d); [destruct hexa; cbn; lia|auto]. }
  constructor; [lia|]. constructor; [lia|].
  destruct hexa; cbn [app]; [constructor; [lia|exact Hm]|exact Hm].
Qed.

Lemma item_step f it w : item_ok it ->
  conv f (item_chars it ++ w) O
  = match conv f w O with (o, k) => (utf8_of (item_cp it) ++ o, (length (item_chars it) + k)%nat) end.
Proof.
  destruct it as [c|c|h ds]; cbn [item_ok item_chars item_cp].
  - intros (Hc & H38 & H60). apply conv_plain. apply utf8_plain; assumption.
  - intros [ -> | [ -> | -> ] ]; cbn [Z.eqb Pos.eqb].
    + apply (conv_ref f [38] [97; 109; 112; 59] w). reflexivity.
    + apply (conv_ref f [60] [108; 116; 59] w). reflexivity.
    + apply (conv_ref f [62] [103; 116; 59] w). reflexivity.
  - intros Hok. pose proof (entref_complete h ds w Hok) as H.
    unfold ref_chars in *. cbn [app] in *.
    set (tail := 35 :: (if h then [120] else []) ++ map digit_char ds ++ [59]) in *.
    change (38 :: tail) with ([38] ++ tail) in H. cbn [app] in H.
    apply (conv_ref f _ tail w). exact H.
Qed.

Lemma item_no60 it : item_ok it -> Forall (fun ch => ch <> 60) (item_chars it).
Proof.
  destruct it as [c|c|h ds]; cbn [item_ok item_chars].
  - intros (Hc & H38 & H60). eapply Forall_impl; [|apply utf8_plain; eassumption]. cbv beta. intros; lia.
  - intros [ -> | [ -> | -> ] ]; cbn [Z.eqb Pos.eqb]; repeat constructor; lia.
  - intros [Hds _]. apply ref_chars_no60. exact Hds.
Qed.

Lemma text_conv f : forall its w, Forall item_ok its ->
  conv f (text_chars its ++ w) O
  = match conv f w O with (o, k) => (text_val its ++ o, (length (text_chars its) + k)%nat) end.
Proof.
  induction its as [|it tl IH]; intros w Hok; cbn [text_chars text_val flat_map app length].
  - destruct (conv f w O) as [o k]. reflexivity.
  - inversion Hok as [|? ? Hit Htl]; subst.
    rewrite <- app_assoc. rewrite (item_step f it _ Hit).
    fold (text_chars tl). rewrite (IH w Htl). fold (text_val tl).
    destruct (conv f w O) as [o k]. rewrite <- app_assoc, app_length. f_equal. lia.
Qed.

Lemma text_no60 : forall its, Forall item_ok its -> Forall (fun ch => ch <> 60) (text_chars its).
Proof.
  induction its as [|it tl IH]; intros Hok; cbn [text_chars flat_map]; [constructor|].
  inversion Hok; subst. apply Forall_app. split; [apply item_no60; assumption|apply IH; assumption].
Qed.

Lemma find_lt_first : forall a rest, Forall (fun ch => ch <> 60) a ->
  find_lt (a ++ 60 :: rest) O = Some (length a).
Proof.
  induction a as [|x a IH]; intros rest Ha; cbn [app find_lt length].
  - reflexivity.
  - inversion Ha as [|? ? Hx Hta]; subst. replace (x =? 60) with false by lia.
    rewrite find_lt_shift, IH by exact Hta. reflexivity.
Qed.

Theorem entref_text_complete its acc rest : Forall item_ok its ->
  entref_step acc (text_chars its ++ 60 :: rest) = (OK, length (text_chars its), acc ++ text_val its).
Proof.
  intros Hok. unfold entref_step. rewrite find_lt_first by (apply text_no60; exact Hok).
  rewrite firstn_app, Nat.sub_diag, firstn_O, app_nil_r, firstn_all.
  pose proof (text_conv true its [] Hok) as H. rewrite app_nil_r in H. rewrite H.
  cbn [conv]. rewrite app_nil_r, Nat.add_0_r. reflexivity.
Qed.

(* ---- the parametrised reader ---- *)
Lemma strtoent_g_digit_of base : forall w v n, strtoent_g digit_c base w v n = strtoent base w v n.
Proof.
  induction w as [|ch tl IH]; intros v n; cbn [strtoent_g strtoent]; [reflexivity|].
  unfold digit_c at 1. destruct (ch =? 59); [reflexivity|].
  destruct (digit_of ch); [|reflexivity]. cbv zeta.
  destruct (last_unicode <? v * base + z); [reflexivity|apply IH].
Qed.

Theorem ref_at_g_digit_of w : ref_at_g digit_c w = ref_at w.
Proof.
  unfold ref_at_g. destruct w as [|c0 [|c1 rest]]; try reflexivity.
  destruct (c1 =? 35) eqn:E; [|reflexivity].
  unfold ref_at. rewrite E. destruct rest as [|c2 rest2]; [reflexivity|].
  cbv zeta. rewrite strtoent_g_digit_of. reflexivity.
Qed.

(* ---- the lower-case-only table: completeness is false ---- *)
Theorem entref_complete_lower_refuted : exists hexa ds rest,
  spelling_ok hexa ds /\
  ref_at_g digit_lower (ref_chars hexa ds ++ rest)
  <> XChars (utf8_of (ref_val (base_of hexa) ds)) (length (ref_chars hexa ds)).
Proof.
  exists true, [(14, true); (9, false)], [60].       (* "&#xE9;<" *)
  split.
  - split; [repeat constructor; cbn; lia|vm_compute; split; [reflexivity|discriminate]].
  - vm_compute. discriminate.
Qed.

(* the same digits in lower case are read, so the table is wrong on the case alone *)
Example lower_table_reads_lower :
  ref_at_g digit_lower (ref_chars true [(14, false); (9, false)] ++ [60]) = XChars [195; 169] 6.
Proof. vm_compute. reflexivity. Qed.

Example entref_text_instance :
  (* "caf&#xE9; &lt; &#0000233;" ++ "</s>" *)
  let its := [IRaw 99; IRaw 97; IRaw 102; IRef true [(14, true); (9, false)]; IRaw 32; INamed 60; IRaw 32;
              IRef false [(0, false); (0, false); (0, false); (0, false); (2, false); (3, false); (3, false)]] in
  entref_step [] (text_chars its ++ [60; 47; 115; 62]) = (OK, 25%nat, [99; 97; 102; 195; 169; 32; 60; 32; 195; 169]).
Proof. vm_compute. reflexivity. Qed.
