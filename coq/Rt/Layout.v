(* Rt/Layout.v — property C13, pointer vs inline member representation.
   The codec model of Rt/Der.v and Rt/Oer.v works on abstract values ([val]): it
   has no representation parameter at all.  The C works on structures whose members
   lie either INLINE in the parent or behind a POINTER (ATF_POINTER: OPTIONAL
   members, recursive members, with -findirect-choice every constructed CHOICE
   alternative, with -fwide-types DEFAULT members of INTEGER_t type), and every
   codec fetches a member through the flag of the member table:
       with ATF_POINTER the slot at sptr + elm->memb_offset is read as a pointer and followed,
       without it the address of the slot itself is the member.
   This file models that level: a LAYOUT (one pointer flag per member / alternative /
   element, the part of the descriptor tables -findirect-choice changes), the
   structure image [sval] with slots that hold either the member or a pointer,
   the member fetch, and the OER and DER encoders and asn_TYPE_outmost_tag walking
   the structure the way constr_SEQUENCE*.c, constr_CHOICE*.c and constr_SET_OF*.c
   do (fetch first, then look at the member).  No proofs here (LayoutProofs.v). *)
From Coq Require Import ZArith List Bool.
From A1 Require Import Base.Bytes Leaf.IntegerConv Rt.Types Rt.Comb Rt.Der Rt.Uper Rt.Oer.
Import ListNotations.
Local Open Scope Z_scope.

(* layout of a type: how a value of it is stored in its parent (ATF_POINTER of the member
   entry that leads to it) and the layouts of its own members / alternatives / element *)
Inductive lay := L (ptr : bool) (subs : list lay).
Definition lay_ptr (l : lay) : bool := match l with L p _ => p end.
Definition lay_subs (l : lay) : list lay := match l with L _ s => s end.

(* the structure as the C sees it *)
Inductive sval :=
| SBool (b : bool)
| SNull
| SInt (z : Z)
| SOct (bs : list Z)
| SStruct (cells : list cell)            (* SEQUENCE: one slot per member *)
| SList (els : list sval)                (* A_SEQUENCE_OF / A_SET_OF: array of non-NULL pointers *)
| SUnion (present : nat) (c : cell)      (* CHOICE: selector (0 = nothing, k+1 = alternative k) and the union slot *)
with cell :=
| CInline (s : sval)                     (* the member itself lies in the slot *)
| CPtr (p : option sval).                (* the slot holds a pointer; None = NULL *)

(* what the member fetch yields *)
Inductive fetched := FNull | FWild | FOk (s : sval).

(* FWild: the flag and the slot disagree — the slot's bytes are read as something they
   are not (a structure's first bytes taken for a pointer, or a pointer taken for the
   structure): undefined behaviour in C, "stuck" here.  Code that fetches through the
   flag of the table the structure was built for never gets there (LayoutProofs.repr_abs). *)
Definition fetch (ptr : bool) (c : cell) : fetched :=
  match ptr, c with
  | true, CPtr None => FNull
  | true, CPtr (Some s) => FOk s
  | false, CInline s => FOk s
  | true, CInline _ => FWild
  | false, CPtr _ => FWild
  end.

(* alternative i of a CHOICE with its layout *)
Definition pick_alt {B} (f : ty -> lay -> B) (dflt : B) : list ty -> list lay -> nat -> B :=
  fix pick alts ls i :=
    match alts, ls, i with
    | a :: _, l :: _, O => f a l
    | _ :: r, _ :: lr, S j => pick r lr j
    | _, _, _ => dflt
    end.

(* the member loop of SEQUENCE_encode_*: fetch; NULL is fine for an OPTIONAL member only *)
Definition on_cell {B} (enc : ty -> lay -> sval -> option B) (absent : option B) (m : ty) (l : lay) (c : cell) : option B :=
  match fetch (lay_ptr l) c with
  | FOk s => enc m l s
  | FNull => if is_opt m then absent else None
  | FWild => None
  end.

Definition enc_cells (enc : ty -> lay -> sval -> option (list Z)) : list ty -> list lay -> list cell -> option (list Z) :=
  fix go ms ls cs :=
    match ms, ls, cs with
    | [], [], [] => Some []
    | m :: ms', l :: ls', c :: cs' =>
        match on_cell enc (Some []) m l c, go ms' ls' cs' with
        | Some a, Some b => Some (a ++ b)
        | _, _ => None
        end
    | _, _, _ => None
    end.

(* presence bits of the OER / PER preamble, read off the slots *)
Fixpoint presence_cells (ms : list ty) (ls : list lay) (cs : list cell) : list bool :=
  match ms, ls, cs with
  | m :: ms', l :: ls', c :: cs' =>
      (if is_opt m then [match fetch (lay_ptr l) c with FNull => false | _ => true end] else [])
      ++ presence_cells ms' ls' cs'
  | _, _, _ => []
  end.

Definition elem_lay (l : lay) : lay := match lay_subs l with le :: _ => le | [] => L true [] end.

(* ---------------- the value a structure denotes ---------------- *)

Definition abs_cells (absf : ty -> lay -> sval -> option val) : list ty -> list lay -> list cell -> option (list val) :=
  fix go ms ls cs :=
    match ms, ls, cs with
    | [], [], [] => Some []
    | m :: ms', l :: ls', c :: cs' =>
        match on_cell absf (Some VNone) m l c, go ms' ls' cs' with
        | Some a, Some b => Some (a :: b)
        | _, _ => None
        end
    | _, _, _ => None
    end.

Fixpoint abs (t : ty) (l : lay) (s : sval) {struct t} : option val :=
  match t, s with
  | TBool _, SBool b => Some (VBool b)
  | TNull _, SNull => Some VNull
  | TInt _ _, SInt z => Some (VInt z)
  | TOct _ _, SOct bs => Some (VOct bs)
  | TSeq _ ms, SStruct cs =>
      match abs_cells abs ms (lay_subs l) cs with Some vs => Some (VSeq vs) | None => None end
  | TSeqOf _ _ e, SList els | TSetOf _ _ e, SList els =>
      match option_all (map (abs e (elem_lay l)) els) with Some vs => Some (VList vs) | None => None end
  | TChoice alts, SUnion (S i) c =>
      pick_alt (fun a la =>
                  match fetch (lay_ptr la) c with
                  | FOk s' => match abs a la s' with Some v => Some (VChoice i v) | None => None end
                  | _ => None
                  end) None alts (lay_subs l) i
  | TTag _ t', _ => abs t' l s
  | TOpt t', _ => match abs t' l s with Some v => Some (VSome v) | None => None end
  | _, _ => None
  end.

(* ---------------- asn_TYPE_outmost_tag / CHOICE_outmost_tag on the structure ---------------- *)

Fixpoint outmost_tag_c (t : ty) (l : lay) (s : sval) {struct t} : Z :=
  match t with
  | TBool tg | TNull tg | TInt tg _ | TOct tg _ | TSeq tg _ | TSeqOf tg _ _ | TSetOf tg _ _ => tg
  | TTag tg _ => tg
  | TOpt t' => outmost_tag_c t' l s
  | TChoice alts =>
      match s with
      | SUnion (S i) c =>
          pick_alt (fun a la => match fetch (lay_ptr la) c with FOk s' => outmost_tag_c a la s' | _ => 0 end)
                   0 alts (lay_subs l) i
      | _ => 0
      end
  end.

(* ---------------- OER on the structure (constr_*_oer.c) ---------------- *)

Fixpoint oer_c (t : ty) (l : lay) (s : sval) {struct t} : option (list Z) :=
  match t, s with
  | TBool _, SBool b => Some [if b then 255 else 0]
  | TNull _, SNull => Some []
  | TInt _ c, SInt z => oer_int c z
  | TOct _ sc, SOct bs =>
      match oer_fixed_size sc with
      | Some n => if zlen bs =? n then Some bs else None
      | None => Some (oer_length (zlen bs) ++ bs)
      end
  | TSeq _ ms, SStruct cs =>
      match enc_cells oer_c ms (lay_subs l) cs with
      | Some body => Some (bits_to_bytes (presence_cells ms (lay_subs l) cs) ++ body)
      | None => None
      end
  | TSeqOf _ _ e, SList els | TSetOf _ _ e, SList els =>
      match option_all (map (oer_c e (elem_lay l)) els) with
      | Some es => Some (oer_quantity (zlen els) ++ concat es)
      | None => None
      end
  | TChoice alts, SUnion (S i) c =>
      (* CHOICE_encode_oer: resolve the member pointer through the flag, THEN ask the member for its tag *)
      pick_alt (fun a la =>
                  match fetch (lay_ptr la) c with
                  | FOk s' =>
                      match oer_c a la s' with
                      | Some body => Some (oer_tag (outmost_tag_c a la s') ++ body)
                      | None => None
                      end
                  | _ => None
                  end) None alts (lay_subs l) i
  | TTag _ t', _ => oer_c t' l s
  | TOpt t', _ => oer_c t' l s
  | _, _ => None
  end.

(* ---------------- DER on the structure (constr_*.c encode_der) ---------------- *)

Fixpoint der_c (t : ty) (l : lay) (s : sval) {struct t} : option (list Z) :=
  match t, s with
  | TBool tg, SBool b => Some (tlv tg false [if b then 255 else 0])
  | TNull tg, SNull => Some (tlv tg false [])
  | TInt tg _, SInt z => Some (tlv tg false (imax2INTEGER z))
  | TOct tg _, SOct bs => Some (tlv tg false bs)
  | TSeq tg ms, SStruct cs =>
      match enc_cells der_c ms (lay_subs l) cs with
      | Some c => Some (tlv tg true c)
      | None => None
      end
  | TSeqOf tg _ e, SList els =>
      match option_all (map (der_c e (elem_lay l)) els) with
      | Some cs => Some (tlv tg true (concat cs))
      | None => None
      end
  | TSetOf tg _ e, SList els =>
      match option_all (map (der_c e (elem_lay l)) els) with
      | Some cs => Some (tlv tg true (concat (sort_encodings cs)))
      | None => None
      end
  | TChoice alts, SUnion (S i) c =>
      pick_alt (fun a la => match fetch (lay_ptr la) c with FOk s' => der_c a la s' | _ => None end)
               None alts (lay_subs l) i
  | TTag tg t', _ =>
      match der_c t' l s with
      | Some c => Some (tlv tg true c)
      | None => None
      end
  | TOpt t', _ => der_c t' l s
  | _, _ => None
  end.

(* ---------------- building the structure for a layout ---------------- *)

Definition wrap (ptr : bool) (s : sval) : cell := if ptr then CPtr (Some s) else CInline s.

Definition repr_cells (rep : ty -> lay -> val -> option sval) : list ty -> list lay -> list val -> option (list cell) :=
  fix go ms ls vs :=
    match ms, ls, vs with
    | [], [], [] => Some []
    | m :: ms', l :: ls', v :: vs' =>
        let c := match v with
                 | VNone => if is_opt m && lay_ptr l then Some (CPtr None) else None   (* absence needs a pointer slot *)
                 | _ => match rep m l v with Some s => Some (wrap (lay_ptr l) s) | None => None end
                 end in
        match c, go ms' ls' vs' with
        | Some a, Some b => Some (a :: b)
        | _, _ => None
        end
    | _, _, _ => None
    end.

Fixpoint repr (t : ty) (l : lay) (v : val) {struct t} : option sval :=
  match t, v with
  | TBool _, VBool b => Some (SBool b)
  | TNull _, VNull => Some SNull
  | TInt _ _, VInt z => Some (SInt z)
  | TOct _ _, VOct bs => Some (SOct bs)
  | TSeq _ ms, VSeq vs =>
      match repr_cells repr ms (lay_subs l) vs with Some cs => Some (SStruct cs) | None => None end
  | TSeqOf _ _ e, VList vs | TSetOf _ _ e, VList vs =>
      match option_all (map (repr e (elem_lay l)) vs) with Some els => Some (SList els) | None => None end
  | TChoice alts, VChoice i v' =>
      pick_alt (fun a la => match repr a la v' with Some s' => Some (SUnion (S i) (wrap (lay_ptr la) s')) | None => None end)
               None alts (lay_subs l) i
  | TTag _ t', _ => repr t' l v
  | TOpt t', VSome v' => repr t' l v'
  | _, _ => None
  end.

(* ---------------- the seeded mistake, for the record ----------------
   CHOICE_encode_oer asking the alternative for its tag at the SLOT address (as if the
   alternative were inline) before resolving the pointer: *)
Definition oer_c_tag_at_slot (t : ty) (l : lay) (s : sval) : option (list Z) :=
  match t, s with
  | TChoice alts, SUnion (S i) c =>
      pick_alt (fun a la =>
                  match fetch (lay_ptr la) c with
                  | FOk s' =>
                      match oer_c a la s', fetch false c with
                      | Some body, FOk s0 => Some (oer_tag (outmost_tag_c a la s0) ++ body)
                      | _, _ => None       (* FWild: the low bytes of a heap pointer read as a selector *)
                      end
                  | _ => None
                  end) None alts (lay_subs l) i
  | _, _ => oer_c t l s
  end.
