(* Rt/SafetyTagMap.v -- C04, the SAFETY side of the tag-to-member lookups of the BER decoders
   of SEQUENCE, SET and CHOICE (skeletons/constr_SEQUENCE.c, constr_SET.c, constr_CHOICE.c).

   (The FUNCTIONAL side -- the lookup returns the member X.680 prescribes -- is C03's and lives
   in files of its own; this file is self-contained on purpose and states what C04 needs.)

   SEQUENCE_decode_ber walks the members with a position [edx].  For every TLV it looks for
   "the next available type with this tag": a short linear scan over the members that may come
   next, and -- when one of them is an untagged CHOICE (tag -1) or when more than 8 OPTIONAL
   members may be skipped -- a bsearch() in the table asn_TYPE_tag2member_t[] (sorted by tag,
   then member index; every entry knows the offsets to the first / last entry with its tag),
   followed by a scan of the entries bearing that tag:

       for(t2m = t2m_f; t2m <= t2m_l; t2m++) {
           if(t2m->el_no > edx_max) break;
           if(t2m->el_no < edx) continue;          <- the lower bound
           best = t2m;
       }

   The member loop then continues BEHIND the member found: [edx = best->el_no], decode, [edx++].
   Its termination and the fact that no member is decoded twice (a second decode overwrites
   the first value: its buffer is lost; a member with a decoder context of its own answers
   "RC_OK, 0 octets": the loop never ends) rest on ONE fact: the lookup never returns a member
   below the current position.  That is proved here for EVERY table (sorted or not, offsets
   right or wrong) and EVERY entry bsearch() may have returned; the backwards walk without the
   lower bound (seeded/C04-5) is refuted with the table the compiler emits for a legal type.

   SET_decode_ber and CHOICE_decode_ber take the member of the entry bsearch() found; SET
   guards against a second decode with its presence bit-map (the test precedes the decode). *)
From Coq Require Import ZArith List Bool Arith Lia Sorted.
Import ListNotations.

(* asn_TYPE_tag2member_t; a tag is a ber_tlv_tag_t: number * 4 + class *)
Record entry := Entry { el_tag : Z; el_no : nat; toff_first : Z; toff_last : Z }.

(* the order of the tables: class first (tag & 3), then number (tag >> 2) *)
Definition tag_cmp (a b : Z) : comparison :=
  match (a mod 4 ?= b mod 4)%Z with
  | Eq => (a / 4 ?= b / 4)%Z
  | c => c
  end.

(* _t2e_cmp of constr_SEQUENCE.c with key (tag, edx): "we do not check for a->el_no <= b->el_no" *)
Definition seq_cmp (tag : Z) (edx : nat) (e : entry) : comparison :=
  match tag_cmp tag (el_tag e) with
  | Eq => if el_no e <? edx then Gt else Eq
  | c => c
  end.

(* _t2e_cmp of constr_SET.c, _search4tag of constr_CHOICE.c *)
Definition tag_only_cmp (tag : Z) (e : entry) : comparison := tag_cmp tag (el_tag e).

(* bsearch() of the C library (glibc: l = 0, u = n; idx = (l + u) / 2) *)
Fixpoint bsearch_loop (fuel : nat) (cmp : entry -> comparison) (m : list entry) (lo hi : nat) : option nat :=
  match fuel with
  | O => None
  | S f =>
      if lo <? hi then
        let mid := (lo + hi) / 2 in
        match nth_error m mid with
        | None => None
        | Some e =>
            match cmp e with
            | Lt => bsearch_loop f cmp m lo mid
            | Gt => bsearch_loop f cmp m (S mid) hi
            | Eq => Some mid
            end
        end
      else None
  end.

Definition bsearch (cmp : entry -> comparison) (m : list entry) : option nat :=
  bsearch_loop (S (length m)) cmp m 0 (length m).

(* the scan of SEQUENCE_decode_ber, forwards, with both bounds *)
Fixpoint scan (es : list entry) (edx edx_max : nat) (best : option nat) : option nat :=
  match es with
  | [] => best
  | e :: tl =>
      if edx_max <? el_no e then best
      else if el_no e <? edx then scan tl edx edx_max best
      else scan tl edx edx_max (Some (el_no e))
  end.

(* the walk of seeded/C04-5: backwards (the argument is the REVERSED segment), first entry
   that is not beyond the window, no lower bound:
       for(t2m = t2m_l; t2m >= t2m_f; t2m--) { if(t2m->el_no > edx_max) continue; best = t2m; break; } *)
Fixpoint scan_back (res : list entry) (edx_max : nat) : option nat :=
  match res with
  | [] => None
  | e :: tl => if edx_max <? el_no e then scan_back tl edx_max else Some (el_no e)
  end.

(* the entries first .. last of the table; None: one of the two pointers leaves the table *)
Definition segment (m : list entry) (first last : Z) : option (list entry) :=
  let len := Z.of_nat (length m) in
  if ((0 <=? first) && (first <? len) && (0 <=? last) && (last <? len))%Z then
    Some (firstn (Z.to_nat (last + 1 - first)) (skipn (Z.to_nat first) m))
  else None.

Inductive pick := POutside | PNone | PSome (el : nat).

(* what the decoder makes of the entry at index [probe] that bsearch() returned *)
Definition pick_with (sc : list entry -> option nat) (m : list entry) (probe : nat) : pick :=
  match nth_error m probe with
  | None => POutside
  | Some e =>
      match segment m (Z.of_nat probe + toff_first e) (Z.of_nat probe + toff_last e) with
      | None => POutside
      | Some es => match sc es with Some k => PSome k | None => PNone end
      end
  end.

Definition seq_pick (m : list entry) (probe edx edx_max : nat) : pick :=
  pick_with (fun es => scan es edx edx_max None) m probe.

Definition seq_pick_back (m : list entry) (probe edx edx_max : nat) : pick :=
  pick_with (fun es => scan_back (rev es) edx_max) m probe.

(* the member table as far as the search looks at it: the tag of the member (-1: untagged
   CHOICE) and asn_TYPE_member_t.optional (how many OPTIONAL members may be skipped from here).
   ANY and open types are outside the modelled algebra. *)
Definition elem := (Z * nat)%type.

Inductive lin := LFound (n : nat) | LBsearch | LEnd.

(* for(n = edx; n < opt_edx_end; n++) *)
Fixpoint linear (els : list elem) (n count : nat) (tag : Z) : lin :=
  match count with
  | O => LEnd
  | S c =>
      match nth_error els n with
      | None => LEnd
      | Some (t, _) =>
          if (t =? tag)%Z then LFound n
          else if (t =? -1)%Z then LBsearch
          else linear els (S n) c tag
      end
  end.

(* "Find the next available type with this tag" at position [edx]; [pk] is the treatment of
   the entry found by bsearch() (seq_pick: the code; seq_pick_back: the seeded change) *)
Definition find_with (pk : list entry -> nat -> nat -> nat -> pick)
                     (els : list elem) (m : list entry) (edx : nat) (tag : Z) : option nat :=
  match nth_error els edx with
  | None => None
  | Some (_, opt) =>
      let count := length els in
      let e0 := edx + opt + 1 in
      let '(opt_edx_end, long) :=
        if count <? e0 then (count, false)
        else if 8 <? e0 - edx then (edx + 8, true)
        else (e0, false) in
      let by_map :=
        match bsearch (seq_cmp tag edx) m with
        | Some p => match pk m p edx (edx + opt) with PSome k => Some k | _ => None end
        | None => None
        end in
      match linear els edx (opt_edx_end - edx) tag with
      | LFound n => Some n
      | LBsearch => by_map
      | LEnd => if long then by_map else None
      end
  end.

Definition seq_find := find_with seq_pick.
Definition seq_find_back := find_with seq_pick_back.

(* SET_decode_ber / CHOICE_decode_ber: the member of the entry found *)
Definition tag_find (m : list entry) (tag : Z) : option nat :=
  match bsearch (tag_only_cmp tag) m with
  | Some p => match nth_error m p with Some e => Some (el_no e) | None => None end
  | None => None
  end.

(* ---------------- the member loop of SEQUENCE_decode_ber ----------------

   A TLV is abstracted to its tag.  [done] is the list of the members decoded so far, in the
   order of decoding.  Decoding member n consumes its TLV -- unless the member has a decoder
   context of its own (OCTET STRING and the restricted strings, SEQUENCE, SET, CHOICE, X OF:
   [reentrant n]) and was decoded before: its context says "finished" and it returns RC_OK
   with 0 octets consumed.
     LOk    RC_OK; the members decoded, in order
     LFail  unexpected tag (RC_FAIL)
     LShort the frame ends where a mandatory member is due (RC_FAIL / RC_WMORE)
     LFuel  the model's fuel ran out: the C loop would still be running *)
Inductive lres := LOk (trace : list nat) | LFail | LShort | LFuel.

Section MemberLoop.
  Variable find : nat -> Z -> option nat.      (* the lookup at position edx *)
  Variable count : nat.                        (* td->elements_count *)
  Variable optional : nat -> nat.              (* elements[i].optional *)
  Variable in_ext : nat -> bool.               (* IN_EXTENSION_GROUP(specs, i) *)
  Variable reentrant : nat -> bool.

  Fixpoint member_loop (fuel edx : nat) (tlvs : list Z) (done : list nat) : lres :=
    match fuel with
    | O => LFuel
    | S f =>
        if count <=? edx then
          (* phase 3: only end-of-contents, or unknown additions of an extensible type *)
          match tlvs with
          | [] => LOk done
          | _ :: _ => if in_ext count then LOk done else LFail
          end
        else
          match tlvs with
          | [] => if (edx + optional edx =? count) || in_ext edx then LOk done else LShort
          | tag :: rest =>
              match find edx tag with
              | Some n =>
                  let rest' := if reentrant n && existsb (Nat.eqb n) done then tlvs else rest in
                  member_loop f (S n) rest' (done ++ [n])
              | None =>
                  (* unknown tag: an extension addition is skipped (ber_skip_length), edx += optional *)
                  if in_ext (edx + optional edx) then member_loop f (edx + optional edx) rest done
                  else LFail
              end
          end
    end.
End MemberLoop.

Definition opt_of (els : list elem) (i : nat) : nat :=
  match nth_error els i with Some (_, o) => o | None => 0 end.

Definition ext_from (first_ext : option nat) (i : nat) : bool :=
  match first_ext with Some x => x <=? i | None => false end.

(* the whole phase 1 for a descriptor (member table, tag table, first_extension) and the tags
   of the TLVs in the frame *)
Definition seq_members_with (pk : list entry -> nat -> nat -> nat -> pick)
    (els : list elem) (m : list entry) (first_ext : option nat) (reent : list bool) (tlvs : list Z) : lres :=
  member_loop (find_with pk els m) (length els) (opt_of els) (ext_from first_ext)
              (fun i => nth i reent false) (S (length els + length tlvs)) 0 tlvs [].

Definition seq_members := seq_members_with seq_pick.
Definition seq_members_back := seq_members_with seq_pick_back.

(* ---------------- the member loop of SET_decode_ber ----------------
   "Check for duplications: must not overwrite already decoded elements": the presence test
   comes before the member's decoder is called.  None = RC_FAIL. *)
Fixpoint set_loop (findt : Z -> option nat) (extensible : bool) (tlvs : list Z) (present : list nat)
  : option (list nat) :=
  match tlvs with
  | [] => Some present
  | tag :: rest =>
      match findt tag with
      | Some n => if existsb (Nat.eqb n) present then None else set_loop findt extensible rest (present ++ [n])
      | None => if extensible then set_loop findt extensible rest present else None
      end
  end.

Definition set_members (m : list entry) (extensible : bool) (tlvs : list Z) : option (list nat) :=
  set_loop (tag_find m) extensible tlvs [].

(* ---------------- what is checked on every emitted table ---------------- *)

(* every entry names a member that exists: elements[el_no] is inside the member table *)
Definition names_members (count : nat) (m : list entry) : bool :=
  forallb (fun e => el_no e <? count) m.

Fixpoint offsets_inside_from (len : Z) (p : nat) (rest : list entry) : bool :=
  match rest with
  | [] => true
  | e :: tl =>
      ((0 <=? Z.of_nat p + toff_first e) && (Z.of_nat p + toff_first e <? len) &&
       (0 <=? Z.of_nat p + toff_last e) && (Z.of_nat p + toff_last e <? len))%Z
      && offsets_inside_from len (S p) tl
  end.

(* t2m + toff_first and t2m + toff_last stay inside the table, for every entry *)
Definition offsets_inside (m : list entry) : bool := offsets_inside_from (Z.of_nat (length m)) 0 m.

(* ====================================================================== proofs *)

(* ---- bsearch stays inside the table and answers an entry the comparison accepts ---- *)

Lemma bsearch_loop_S f cmp m lo hi :
  bsearch_loop (S f) cmp m lo hi =
  if lo <? hi then
    match nth_error m ((lo + hi) / 2) with
    | None => None
    | Some e =>
        match cmp e with
        | Lt => bsearch_loop f cmp m lo ((lo + hi) / 2)
        | Gt => bsearch_loop f cmp m (S ((lo + hi) / 2)) hi
        | Eq => Some ((lo + hi) / 2)
        end
    end
  else None.
Proof. reflexivity. Qed.

Lemma bsearch_loop_sound cmp m : forall fuel lo hi p,
  bsearch_loop fuel cmp m lo hi = Some p ->
  lo <= p < hi /\ exists e, nth_error m p = Some e /\ cmp e = Eq.
Proof.
  induction fuel as [|f IH]; intros lo hi p H; [discriminate|].
  rewrite bsearch_loop_S in H.
  destruct (lo <? hi) eqn:Elh; [|discriminate].
  apply Nat.ltb_lt in Elh.
  assert (Hmid : lo <= (lo + hi) / 2 < hi).
  { split.
    - apply Nat.div_le_lower_bound; lia.
    - apply Nat.div_lt_upper_bound; lia. }
  destruct (nth_error m ((lo + hi) / 2)) as [e|] eqn:En; [|discriminate].
  destruct (cmp e) eqn:Ec.
  - inversion H; subst p. split; [exact Hmid|]. exists e. split; assumption.
  - apply IH in H. destruct H as [Hr He]. split; [lia|exact He].
  - apply IH in H. destruct H as [Hr He]. split; [lia|exact He].
Qed.

Theorem bsearch_in_table cmp m p :
  bsearch cmp m = Some p -> p < length m /\ exists e, nth_error m p = Some e /\ cmp e = Eq.
Proof.
  intro H. apply bsearch_loop_sound in H. destruct H as [Hr He]. split; [lia|exact He].
Qed.

(* the fuel is never the reason of an answer: any fuel above the width of the interval gives
   the same result (the loop halves the interval) *)
Lemma bsearch_loop_any_fuel cmp m : forall f1 f2 lo hi,
  hi - lo < f1 -> hi - lo < f2 -> bsearch_loop f1 cmp m lo hi = bsearch_loop f2 cmp m lo hi.
Proof.
  induction f1 as [|f1 IH]; intros f2 lo hi H1 H2; [lia|].
  destruct f2 as [|f2]; [lia|]. rewrite !bsearch_loop_S.
  destruct (lo <? hi) eqn:Elh; [|reflexivity].
  apply Nat.ltb_lt in Elh.
  assert (Hmid : lo <= (lo + hi) / 2 < hi).
  { split.
    - apply Nat.div_le_lower_bound; lia.
    - apply Nat.div_lt_upper_bound; lia. }
  destruct (nth_error m ((lo + hi) / 2)) as [e|]; [|reflexivity].
  destruct (cmp e); [reflexivity| |]; apply IH; lia.
Qed.

Theorem bsearch_any_fuel cmp m fuel :
  length m < fuel -> bsearch_loop fuel cmp m 0 (length m) = bsearch cmp m.
Proof.
  intro H. unfold bsearch. apply bsearch_loop_any_fuel; lia.
Qed.

(* ---- the scan: inside the window, for every list of entries ---- *)

Lemma scan_window : forall es edx edx_max best k,
  scan es edx edx_max best = Some k ->
  best = Some k \/ (edx <= k <= edx_max /\ exists e, In e es /\ el_no e = k).
Proof.
  induction es as [|e tl IH]; intros edx edx_max best k H; simpl in H.
  - left. exact H.
  - destruct (edx_max <? el_no e) eqn:E1.
    + left. exact H.
    + destruct (el_no e <? edx) eqn:E2.
      * apply IH in H. destruct H as [H|[Hr [e' [Hin He']]]]; [left; exact H|].
        right. split; [exact Hr|]. exists e'. split; [right; exact Hin|exact He'].
      * apply IH in H. destruct H as [H|[Hr [e' [Hin He']]]].
        -- inversion H; subst k. right.
           apply Nat.ltb_ge in E1. apply Nat.ltb_ge in E2.
           split; [lia|]. exists e. split; [left; reflexivity|reflexivity].
        -- right. split; [exact Hr|]. exists e'. split; [right; exact Hin|exact He'].
Qed.

Lemma In_firstn {A} : forall n (l : list A) x, In x (firstn n l) -> In x l.
Proof.
  induction n as [|n IH]; intros l x H; [destruct H|].
  destruct l as [|a l]; [destruct H|]. simpl in H. destruct H as [H|H]; [left; exact H|right; apply IH; exact H].
Qed.

Lemma In_skipn {A} : forall n (l : list A) x, In x (skipn n l) -> In x l.
Proof.
  induction n as [|n IH]; intros l x H; [exact H|].
  destruct l as [|a l]; [destruct H|]. simpl in H. right. apply IH. exact H.
Qed.

Lemma segment_incl m first last es : segment m first last = Some es -> forall e, In e es -> In e m.
Proof.
  unfold segment. intro H.
  destruct ((0 <=? first) && (first <? Z.of_nat (length m)) && (0 <=? last) && (last <? Z.of_nat (length m)))%Z;
    [|discriminate].
  inversion H; subst es. intros e Hin.
  apply In_firstn in Hin.
  eapply In_skipn. exact Hin.
Qed.

(* EVERY table, EVERY probe: the member found is inside [edx, edx_max] and is named by an
   entry of the table *)
Theorem seq_pick_window m probe edx edx_max k :
  seq_pick m probe edx edx_max = PSome k ->
  edx <= k <= edx_max /\ exists e, In e m /\ el_no e = k.
Proof.
  unfold seq_pick, pick_with. intro H.
  destruct (nth_error m probe) as [e0|]; [|discriminate].
  destruct (segment m (Z.of_nat probe + toff_first e0) (Z.of_nat probe + toff_last e0)) as [es|] eqn:Es;
    [|discriminate].
  destruct (scan es edx edx_max None) as [k'|] eqn:Esc; [|discriminate].
  inversion H; subst k'.
  apply scan_window in Esc. destruct Esc as [Hb|[Hr [e [Hin He]]]]; [discriminate|].
  split; [exact Hr|]. exists e. split; [|exact He].
  eapply segment_incl; eassumption.
Qed.

Lemma linear_found els tag : forall c n j, linear els n c tag = LFound j ->
  n <= j < n + c /\ j < length els.
Proof.
  induction c as [|c IH]; intros n j H; simpl in H; [discriminate|].
  destruct (nth_error els n) as [[t o]|] eqn:En; [|discriminate].
  destruct (t =? tag)%Z.
  - inversion H; subst j. split; [lia|]. apply nth_error_Some. rewrite En. discriminate.
  - destruct (t =? -1)%Z; [discriminate|].
    apply IH in H. lia.
Qed.

(* the lookup never returns a member below the current position, nor one beyond the run of
   OPTIONAL members that may be skipped: every member table, every tag table, every tag *)
Theorem seq_find_not_below els m edx tag n :
  seq_find els m edx tag = Some n -> edx <= n <= edx + opt_of els edx.
Proof.
  unfold seq_find, find_with, opt_of. intro H.
  destruct (nth_error els edx) as [[t0 opt]|] eqn:E0; [|discriminate].
  set (count := length els) in *.
  assert (Hmap : forall k,
             match bsearch (seq_cmp tag edx) m with
             | Some p => match seq_pick m p edx (edx + opt) with PSome k => Some k | _ => None end
             | None => None
             end = Some k -> edx <= k <= edx + opt).
  { intros k Hk. destruct (bsearch (seq_cmp tag edx) m) as [p|]; [|discriminate].
    destruct (seq_pick m p edx (edx + opt)) as [| |k'] eqn:Ep; try discriminate.
    inversion Hk; subst k'. apply seq_pick_window in Ep. tauto. }
  destruct (count <? edx + opt + 1) eqn:Ec.
  - destruct (linear els edx (count - edx) tag) as [j| |] eqn:El.
    + inversion H; subst j. apply linear_found in El. apply Nat.ltb_lt in Ec. lia.
    + apply Hmap. exact H.
    + discriminate.
  - destruct (8 <? edx + opt + 1 - edx) eqn:E8.
    + destruct (linear els edx (edx + 8 - edx) tag) as [j| |] eqn:El.
      * inversion H; subst j. apply linear_found in El. apply Nat.ltb_lt in E8. lia.
      * apply Hmap. exact H.
      * apply Hmap. exact H.
    + destruct (linear els edx (edx + opt + 1 - edx) tag) as [j| |] eqn:El.
      * inversion H; subst j. apply linear_found in El. lia.
      * apply Hmap. exact H.
      * discriminate.
Qed.

Lemma names_members_In count m e : names_members count m = true -> In e m -> el_no e < count.
Proof.
  unfold names_members. intros H Hin.
  rewrite forallb_forall in H. apply H in Hin. apply Nat.ltb_lt. exact Hin.
Qed.

(* with a table that names existing members only, elements[edx] stays inside the member table *)
Theorem seq_find_in_table els m edx tag n :
  names_members (length els) m = true -> seq_find els m edx tag = Some n -> n < length els.
Proof.
  unfold seq_find, find_with. intros Hn H.
  destruct (nth_error els edx) as [[t0 opt]|] eqn:E0; [|discriminate].
  assert (Hmap : forall k,
             match bsearch (seq_cmp tag edx) m with
             | Some p => match seq_pick m p edx (edx + opt) with PSome k => Some k | _ => None end
             | None => None
             end = Some k -> k < length els).
  { intros k Hk. destruct (bsearch (seq_cmp tag edx) m) as [p|]; [|discriminate].
    destruct (seq_pick m p edx (edx + opt)) as [| |k'] eqn:Ep; try discriminate.
    inversion Hk; subst k'. apply seq_pick_window in Ep. destruct Ep as [_ [e [Hin He]]].
    subst k. eapply names_members_In; eassumption. }
  destruct (length els <? edx + opt + 1).
  - destruct (linear els edx (length els - edx) tag) as [j| |] eqn:El.
    + inversion H; subst j. apply linear_found in El. tauto.
    + apply Hmap. exact H.
    + discriminate.
  - destruct (8 <? edx + opt + 1 - edx).
    + destruct (linear els edx (edx + 8 - edx) tag) as [j| |] eqn:El.
      * inversion H; subst j. apply linear_found in El. tauto.
      * apply Hmap. exact H.
      * apply Hmap. exact H.
    + destruct (linear els edx (edx + opt + 1 - edx) tag) as [j| |] eqn:El.
      * inversion H; subst j. apply linear_found in El. tauto.
      * apply Hmap. exact H.
      * discriminate.
Qed.

(* the pointers t2m + toff_first / t2m + toff_last never leave a table whose offsets are inside *)
Lemma offsets_inside_from_nth len : forall rest p0 i e,
  offsets_inside_from len p0 rest = true -> nth_error rest i = Some e ->
  (0 <= Z.of_nat (p0 + i) + toff_first e < len /\ 0 <= Z.of_nat (p0 + i) + toff_last e < len)%Z.
Proof.
  induction rest as [|a tl IH]; intros p0 i e H Hn.
  - destruct i; discriminate.
  - simpl in H. apply andb_true_iff in H. destruct H as [Ha Htl].
    destruct i as [|i].
    + simpl in Hn. inversion Hn; subst a. rewrite Nat.add_0_r.
      repeat (apply andb_true_iff in Ha; destruct Ha as [Ha ?]).
      repeat match goal with
             | H : (_ <=? _)%Z = true |- _ => apply Z.leb_le in H
             | H : (_ <? _)%Z = true |- _ => apply Z.ltb_lt in H
             end.
      lia.
    + simpl in Hn. specialize (IH (S p0) i e Htl Hn).
      replace (p0 + S i) with (S p0 + i) by lia. exact IH.
Qed.

Theorem seq_pick_inside m probe edx edx_max :
  offsets_inside m = true -> probe < length m -> seq_pick m probe edx edx_max <> POutside.
Proof.
  unfold seq_pick, pick_with, offsets_inside. intros Ho Hp.
  destruct (nth_error m probe) as [e|] eqn:En.
  - pose proof (offsets_inside_from_nth _ _ 0 probe e Ho En) as [Hf Hl]. simpl in Hf, Hl.
    unfold segment.
    assert (Hc : ((0 <=? Z.of_nat probe + toff_first e) && (Z.of_nat probe + toff_first e <? Z.of_nat (length m))
                  && (0 <=? Z.of_nat probe + toff_last e) && (Z.of_nat probe + toff_last e <? Z.of_nat (length m)))%Z = true).
    { repeat (apply andb_true_iff; split);
        try (apply Z.leb_le; lia); try (apply Z.ltb_lt; lia). }
    rewrite Hc.
    destruct (scan _ edx edx_max None); discriminate.
  - apply nth_error_None in En. lia.
Qed.

(* ---- the member loop under a lookup that never goes back ---- *)

Section MemberLoopProofs.
  Variable find : nat -> Z -> option nat.
  Variable count : nat.
  Variable optional : nat -> nat.
  Variable in_ext : nat -> bool.
  Variable reentrant : nat -> bool.
  Hypothesis find_ge : forall edx tag n, find edx tag = Some n -> edx <= n.

  Let loop := member_loop find count optional in_ext reentrant.

  Lemma not_done done edx n :
    Forall (fun d => d < edx) done -> edx <= n -> existsb (Nat.eqb n) done = false.
  Proof.
    intros Hd Hn. induction Hd as [|d tl Hdl _ IH]; [reflexivity|].
    simpl. rewrite IH, orb_false_r. apply Nat.eqb_neq. lia.
  Qed.

  Lemma below_snoc done edx n :
    Forall (fun d => d < edx) done -> edx <= n -> Forall (fun d => d < S n) (done ++ [n]).
  Proof.
    intros Hd Hn. apply Forall_app. split.
    - eapply Forall_impl; [|exact Hd]. simpl. intros; lia.
    - constructor; [lia|constructor].
  Qed.

  Lemma below_mono done edx edx' :
    Forall (fun d => d < edx) done -> edx <= edx' -> Forall (fun d => d < edx') done.
  Proof.
    intros Hd Hn. eapply Forall_impl; [|exact Hd]. simpl. intros; lia.
  Qed.

  (* the measure (members left) + (TLVs left) strictly decreases: the loop ends *)
  Lemma member_loop_total_gen : forall fuel edx tlvs done,
    Forall (fun d => d < edx) done ->
    (count - edx) + length tlvs < fuel ->
    loop fuel edx tlvs done <> LFuel.
  Proof.
    unfold loop.
    induction fuel as [|f IH]; intros edx tlvs done Hd Hm; [lia|].
    simpl.
    destruct (count <=? edx) eqn:Ece.
    - destruct tlvs; [discriminate|]. destruct (in_ext count); discriminate.
    - apply Nat.leb_gt in Ece.
      destruct tlvs as [|tag rest].
      + destruct ((edx + optional edx =? count) || in_ext edx); discriminate.
      + simpl in Hm.
        destruct (find edx tag) as [n|] eqn:Ef.
        * apply find_ge in Ef.
          rewrite (not_done done edx n Hd Ef), andb_false_r.
          apply IH; [apply below_snoc with (edx := edx); assumption|lia].
        * destruct (in_ext (edx + optional edx)); [|discriminate].
          apply IH; [apply below_mono with (edx := edx); [assumption|lia]|lia].
  Qed.

  Lemma member_loop_any_fuel_gen : forall f1 f2 edx tlvs done,
    Forall (fun d => d < edx) done ->
    (count - edx) + length tlvs < f1 -> (count - edx) + length tlvs < f2 ->
    loop f1 edx tlvs done = loop f2 edx tlvs done.
  Proof.
    unfold loop.
    induction f1 as [|f1 IH]; intros f2 edx tlvs done Hd H1 H2; [lia|].
    destruct f2 as [|f2]; [lia|]. simpl.
    destruct (count <=? edx) eqn:Ece; [reflexivity|].
    apply Nat.leb_gt in Ece.
    destruct tlvs as [|tag rest]; [reflexivity|]. simpl in H1, H2.
    destruct (find edx tag) as [n|] eqn:Ef.
    - apply find_ge in Ef.
      rewrite (not_done done edx n Hd Ef), andb_false_r.
      apply IH; [apply below_snoc with (edx := edx); assumption|lia|lia].
    - destruct (in_ext (edx + optional edx)); [|reflexivity].
      apply IH; [apply below_mono with (edx := edx); [assumption|lia]|lia|lia].
  Qed.

  Lemma sorted_snoc done edx n :
    StronglySorted lt done -> Forall (fun d => d < edx) done -> edx <= n -> StronglySorted lt (done ++ [n]).
  Proof.
    intros Hs Hd Hn. induction Hs as [|a l Hs IH Ha].
    - simpl. constructor; constructor.
    - simpl. inversion Hd; subst. constructor; [apply IH; assumption|].
      apply Forall_app. split; [exact Ha|]. constructor; [lia|constructor].
  Qed.

  (* no member is decoded twice: the members decoded are strictly increasing (for ANY fuel) *)
  Lemma member_loop_increasing_gen : forall fuel edx tlvs done tr,
    StronglySorted lt done -> Forall (fun d => d < edx) done ->
    loop fuel edx tlvs done = LOk tr -> StronglySorted lt tr.
  Proof.
    unfold loop.
    induction fuel as [|f IH]; intros edx tlvs done tr Hs Hd H; simpl in H; [discriminate|].
    destruct (count <=? edx) eqn:Ece.
    - destruct tlvs.
      + inversion H; subst tr. exact Hs.
      + destruct (in_ext count); [|discriminate]. inversion H; subst tr. exact Hs.
    - destruct tlvs as [|tag rest].
      + destruct ((edx + optional edx =? count) || in_ext edx); [|discriminate].
        inversion H; subst tr. exact Hs.
      + destruct (find edx tag) as [n|] eqn:Ef.
        * apply find_ge in Ef.
          eapply IH; [| |exact H].
          -- apply sorted_snoc with (edx := edx); assumption.
          -- apply below_snoc with (edx := edx); assumption.
        * destruct (in_ext (edx + optional edx)); [|discriminate].
          eapply IH; [exact Hs| |exact H].
          apply below_mono with (edx := edx); [assumption|lia].
  Qed.

  (* every TLV is consumed by exactly one member decode or one skip: the number of members
     decoded never exceeds the number of TLVs *)
  Lemma member_loop_trace_length_gen : forall fuel edx tlvs done tr,
    Forall (fun d => d < edx) done ->
    loop fuel edx tlvs done = LOk tr -> length tr <= length done + length tlvs.
  Proof.
    unfold loop.
    induction fuel as [|f IH]; intros edx tlvs done tr Hd H; simpl in H; [discriminate|].
    destruct (count <=? edx) eqn:Ece.
    - destruct tlvs.
      + inversion H; subst tr. lia.
      + destruct (in_ext count); [|discriminate]. inversion H; subst tr. lia.
    - destruct tlvs as [|tag rest].
      + destruct ((edx + optional edx =? count) || in_ext edx); [|discriminate].
        inversion H; subst tr. lia.
      + destruct (find edx tag) as [n|] eqn:Ef.
        * apply find_ge in Ef.
          rewrite (not_done done edx n Hd Ef), andb_false_r in H.
          apply IH in H; [|apply below_snoc with (edx := edx); assumption].
          rewrite app_length in H. simpl in *. lia.
        * destruct (in_ext (edx + optional edx)); [|discriminate].
          apply IH in H; [|apply below_mono with (edx := edx); [assumption|lia]].
          simpl. lia.
  Qed.
End MemberLoopProofs.

Lemma sorted_lt_nodup l : StronglySorted lt l -> NoDup l.
Proof.
  induction 1 as [|a l Hs IH Ha]; constructor; [|exact IH].
  intro Hin. rewrite Forall_forall in Ha. apply Ha in Hin. lia.
Qed.

Lemma seq_find_ge els m : forall edx tag n, seq_find els m edx tag = Some n -> edx <= n.
Proof. intros edx tag n H. apply seq_find_not_below in H. tauto. Qed.

(* the member loop of the code as it is: terminates whatever the descriptor and the input ... *)
Theorem seq_members_terminates els m first_ext reent tlvs :
  seq_members els m first_ext reent tlvs <> LFuel.
Proof.
  unfold seq_members, seq_members_with.
  apply member_loop_total_gen; [apply seq_find_ge|constructor|lia].
Qed.

Theorem seq_members_any_fuel els m first_ext reent tlvs fuel :
  length els + length tlvs < fuel ->
  member_loop (seq_find els m) (length els) (opt_of els) (ext_from first_ext) (fun i => nth i reent false)
              fuel 0 tlvs [] = seq_members els m first_ext reent tlvs.
Proof.
  intro H. unfold seq_members, seq_members_with.
  apply member_loop_any_fuel_gen; [apply seq_find_ge|constructor|lia|lia].
Qed.

(* ... and decodes no member twice *)
Theorem seq_members_no_member_twice els m first_ext reent tlvs tr :
  seq_members els m first_ext reent tlvs = LOk tr ->
  StronglySorted lt tr /\ NoDup tr /\ length tr <= length tlvs.
Proof.
  unfold seq_members, seq_members_with. intro H.
  assert (Hs : StronglySorted lt tr).
  { eapply member_loop_increasing_gen; [apply seq_find_ge|constructor|constructor|exact H]. }
  split; [exact Hs|]. split; [apply sorted_lt_nodup; exact Hs|].
  eapply member_loop_trace_length_gen in H; [|apply seq_find_ge|constructor].
  simpl in H. exact H.
Qed.

(* ---- the seeded walk: refuted on the table asn1c emits for
        T ::= SEQUENCE { id OBJECT IDENTIFIER OPTIONAL,
                         name CHOICE { printable PrintableString, utf8 UTF8String } OPTIONAL,
                         flag BOOLEAN, alt OBJECT IDENTIFIER OPTIONAL }        (IMPLICIT TAGS)
        tags: BOOLEAN 1*4, OBJECT IDENTIFIER 6*4, UTF8String 12*4, PrintableString 19*4 ---- *)

Definition wit_els : list elem := [(24%Z, 2); ((-1)%Z, 1); (4%Z, 0); (24%Z, 1)].
Definition wit_map : list entry :=
  [Entry 4 2 0 0; Entry 24 0 0 1; Entry 24 3 (-1) 0; Entry 48 1 0 0; Entry 76 1 0 0].
(* id, id again, flag *)
Definition wit_tlvs : list Z := [24%Z; 24%Z; 4%Z].

Theorem scan_back_below_refuted :
  bsearch (seq_cmp 24 1) wit_map = Some 2 /\
  seq_pick_back wit_map 2 1 2 = PSome 0 /\          (* member 0 although the position is 1 *)
  seq_pick wit_map 2 1 2 = PNone /\
  seq_find_back wit_els wit_map 1 24 = Some 0 /\
  seq_find wit_els wit_map 1 24 = None.
Proof. vm_compute. repeat split. Qed.

(* members with a buffer but no context (OBJECT IDENTIFIER): RC_OK, member 0 decoded twice,
   the first value is overwritten (its buffer is never freed); the code as it is: RC_FAIL *)
Theorem seq_members_back_twice_refuted :
  seq_members_back wit_els wit_map None [false; false; false; false] wit_tlvs = LOk [0; 0; 2] /\
  seq_members wit_els wit_map None [false; false; false; false] wit_tlvs = LFail.
Proof. vm_compute. split; reflexivity. Qed.

(* members with a context of their own (id OCTET STRING instead; universal tag 4*4): the loop never
   ends, whatever the fuel *)
Definition wit_els_os : list elem := [(16%Z, 2); ((-1)%Z, 1); (4%Z, 0); (16%Z, 1)].
Definition wit_map_os : list entry :=
  [Entry 4 2 0 0; Entry 16 0 0 1; Entry 16 3 (-1) 0; Entry 48 1 0 0; Entry 76 1 0 0].

Lemma back_hang_step : forall fuel done,
  In 0 done ->
  member_loop (seq_find_back wit_els_os wit_map_os) 4 (opt_of wit_els_os) (ext_from None)
              (fun i => nth i [true; false; false; true] false) fuel 1 [16%Z; 4%Z] done = LFuel.
Proof.
  induction fuel as [|f IH]; intros done Hin; [reflexivity|].
  cbn [member_loop].
  change (4 <=? 1) with false. cbv iota.
  replace (seq_find_back wit_els_os wit_map_os 1 16) with (Some 0) by (vm_compute; reflexivity).
  cbv iota beta.
  change (nth 0 [true; false; false; true] false) with true.
  assert (He : existsb (Nat.eqb 0) done = true).
  { apply existsb_exists. exists 0. split; [exact Hin|reflexivity]. }
  rewrite He. cbn [andb].
  apply IH. apply in_or_app. right. left. reflexivity.
Qed.

Theorem seq_members_back_hangs_refuted : forall fuel,
  member_loop (seq_find_back wit_els_os wit_map_os) 4 (opt_of wit_els_os) (ext_from None)
              (fun i => nth i [true; false; false; true] false) fuel 0 [16%Z; 16%Z; 4%Z] [] = LFuel.
Proof.
  intros [|f]; [reflexivity|].
  cbn [member_loop].
  change (4 <=? 0) with false. cbv iota.
  replace (seq_find_back wit_els_os wit_map_os 0 16) with (Some 0) by (vm_compute; reflexivity).
  cbv iota beta. cbn [existsb andb app].
  rewrite andb_false_r.
  apply back_hang_step. left. reflexivity.
Qed.

(* ---- SET: the presence test in front of the member's decoder ---- *)

Lemma NoDup_app_snoc_helper (present : list nat) n :
  NoDup present -> existsb (Nat.eqb n) present = false -> NoDup (present ++ [n]).
Proof.
  intros Hn He.
  assert (Hni : ~ In n present).
  { intro Hin. assert (existsb (Nat.eqb n) present = true).
    { apply existsb_exists. exists n. split; [exact Hin|apply Nat.eqb_refl]. }
    congruence. }
  clear He. induction Hn as [|a l Ha Hn IH]; simpl.
  - constructor; [intros []|constructor].
  - constructor.
    + intro Hin. apply in_app_or in Hin. destruct Hin as [Hin|[Hin|[]]]; [contradiction|].
      subst a. apply Hni. left. reflexivity.
    + apply IH. intro Hin. apply Hni. right. exact Hin.
Qed.

Lemma set_loop_nodup findt ext : forall tlvs present tr,
  NoDup present -> set_loop findt ext tlvs present = Some tr -> NoDup tr /\ length tr <= length present + length tlvs.
Proof.
  induction tlvs as [|tag rest IH]; intros present tr Hn H; simpl in H.
  - inversion H; subst tr. split; [exact Hn|lia].
  - destruct (findt tag) as [n|].
    + destruct (existsb (Nat.eqb n) present) eqn:Ee; [discriminate|].
      apply IH in H.
      * rewrite app_length in H. simpl in *. split; [tauto|lia].
      * apply NoDup_app_snoc_helper; assumption.
    + destruct ext; [|discriminate]. apply IH in H; [|exact Hn]. simpl. split; [tauto|lia].
Qed.

Theorem set_members_no_member_twice m ext tlvs tr :
  set_members m ext tlvs = Some tr -> NoDup tr /\ length tr <= length tlvs.
Proof.
  unfold set_members. intro H. apply set_loop_nodup in H; [|constructor]. simpl in H. exact H.
Qed.

(* SET / CHOICE: the member taken is the member of an entry of the table that carries the tag *)
Theorem tag_find_names_entry m tag n :
  tag_find m tag = Some n -> exists e, In e m /\ el_no e = n /\ tag_cmp tag (el_tag e) = Eq.
Proof.
  unfold tag_find. intro H.
  destruct (bsearch (tag_only_cmp tag) m) as [p|] eqn:Eb; [|discriminate].
  apply bsearch_in_table in Eb. destruct Eb as [_ [e [En Ec]]].
  rewrite En in H. inversion H; subst n.
  exists e. split; [eapply nth_error_In; exact En|]. split; [reflexivity|exact Ec].
Qed.

Theorem tag_find_in_table count m tag n :
  names_members count m = true -> tag_find m tag = Some n -> n < count.
Proof.
  intros Hn H. apply tag_find_names_entry in H. destruct H as [e [Hin [He _]]].
  subst n. eapply names_members_In; eassumption.
Qed.
