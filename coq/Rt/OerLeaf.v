(* Rt/OerLeaf.v — the leaf inverses of the OER model (Rt/Oer.v): take, minimal
   unsigned octets, length determinant, quantity, tag octets, INTEGER bodies
   and the SEQUENCE preamble bits.  Every lemma is stated over an arbitrary
   trailing input [r].  The main induction is in Rt/OerProofs.v. *)
From Coq Require Import ZArith List Lia Bool ZifyBool.
From A1 Require Import Base.Bytes Base.Digits Leaf.IntegerConv Leaf.IntegerConvProofs
  Leaf.BerTL Leaf.BerTLProofs Rt.Types Rt.Comb Rt.Der Rt.Uper Rt.Oer.
Import ListNotations.
Local Open Scope Z_scope.

(* ---------------- take ---------------- *)

Lemma oer_firstn_app_length {A} (l1 l2 : list A) : firstn (length l1) (l1 ++ l2) = l1.
Proof. induction l1; cbn; congruence. Qed.

Lemma oer_skipn_app_length {A} (l1 l2 : list A) : skipn (length l1) (l1 ++ l2) = l2.
Proof. induction l1; cbn; auto. Qed.

Lemma oer_take_app {A} (a r : list A) : take (zlen a) (a ++ r) = Some (a, r).
Proof.
  unfold take. rewrite zlen_app.
  pose proof (zlen_nonneg a). pose proof (zlen_nonneg r).
  destruct ((0 <=? zlen a) && (zlen a <=? zlen a + zlen r)) eqn:E; [|lia].
  unfold zlen. rewrite Nat2Z.id, oer_firstn_app_length, oer_skipn_app_length. reflexivity.
Qed.

Lemma oer_take_app_eq {A} n (a r : list A) : n = zlen a -> take n (a ++ r) = Some (a, r).
Proof. intros ->. apply oer_take_app. Qed.

(* ---------------- minimal unsigned octets ---------------- *)

Lemma oer_min_unsigned_spec fuel : forall n acc,
  0 <= n < 256 ^ Z.of_nat (S fuel) ->
  exists os, min_unsigned (S fuel) n acc = os ++ acc /\ os <> [] /\ be_val os = n /\ bytes_ok os.
Proof.
  induction fuel as [|f IH]; intros n acc Hn.
  - change (256 ^ Z.of_nat 1) with 256 in Hn. cbn [min_unsigned].
    destruct (n <? 256) eqn:E; [|lia].
    exists [n]. split; [reflexivity|]. split; [congruence|]. split.
    + cbn [be_val]. unfold zlen. cbn [length Z.of_nat]. rewrite Z.pow_0_r. lia.
    + constructor; [unfold byte_ok; lia|constructor].
  - remember (S f) as sf eqn:Esf. cbn [min_unsigned].
    destruct (n <? 256) eqn:E.
    + exists [n]. split; [reflexivity|]. split; [congruence|]. split.
      * cbn [be_val]. unfold zlen. cbn [length Z.of_nat]. rewrite Z.pow_0_r. lia.
      * constructor; [unfold byte_ok; lia|constructor].
    + rewrite pow256_S in Hn.
      pose proof (pow256_pos sf) as HP.
      pose proof (Z.div_mod n 256 ltac:(lia)) as Hdm.
      pose proof (Z.mod_pos_bound n 256 ltac:(lia)) as Hm.
      assert (Hq : 0 <= n / 256 < 256 ^ Z.of_nat sf).
      { split; [apply Z.div_pos; lia|]. apply Z.div_lt_upper_bound; lia. }
      subst sf. destruct (IH (n / 256) (n mod 256 :: acc) Hq) as (os & Eo & Hne & Hv & Hok).
      exists (os ++ [n mod 256]). split; [rewrite Eo, <- app_assoc; reflexivity|].
      split; [destruct os; cbn; congruence|]. split.
      * rewrite be_val_app, Hv. cbn [be_val]. unfold zlen. cbn [length Z.of_nat].
        rewrite Z.pow_0_r, Z.pow_1_r. lia.
      * apply Forall_app. split; [exact Hok|]. constructor; [exact Hm|constructor].
Qed.

(* the lengths and quantities the model can write without truncation: the
   octet loop of [unsigned_octets] has 64 rounds *)
Definition oer_count_max : Z := 256 ^ 64 - 1.

Lemma oer_min_octets_spec n : 0 <= n <= oer_count_max ->
  min_octets n <> [] /\ be_val (min_octets n) = n /\ bytes_ok (min_octets n).
Proof.
  intros Hn. unfold min_octets, unsigned_octets.
  destruct (oer_min_unsigned_spec 63 n []) as (os & Eo & Hne & Hv & Hok).
  - change (Z.of_nat 64) with 64. unfold oer_count_max in Hn. lia.
  - rewrite Eo, app_nil_r. auto.
Qed.

Lemma rssize_max_count : rssize_max <= oer_count_max.
Proof. vm_compute. discriminate. Qed.

Lemma oer_small_count n : 0 <= n <= rssize_max -> 0 <= n <= oer_count_max.
Proof. pose proof rssize_max_count. lia. Qed.

(* ---------------- length determinant, quantity ---------------- *)

Lemma oer_length_inverse n r : 0 <= n <= oer_count_max ->
  oer_get_length (oer_length n ++ r) = Some (n, r).
Proof.
  intros Hn. unfold oer_length.
  destruct (n <=? 127) eqn:E.
  - cbn [app oer_get_length]. destruct (n <? 128) eqn:E2; [reflexivity|lia].
  - destruct (oer_min_octets_spec n Hn) as (Hne & Hv & _).
    cbn zeta. cbn [app oer_get_length].
    pose proof (zlen_nonneg (min_octets n)).
    destruct (128 + zlen (min_octets n) <? 128) eqn:E2; [lia|].
    replace (128 + zlen (min_octets n) - 128) with (zlen (min_octets n)) by lia.
    rewrite oer_take_app. destruct (min_octets n) eqn:Eo; [congruence|].
    rewrite Hv. reflexivity.
Qed.

Lemma oer_quantity_inverse n r : 0 <= n <= oer_count_max ->
  oer_get_quantity (oer_quantity n ++ r) = Some (n, r).
Proof.
  intros Hn. unfold oer_quantity. cbn zeta. cbn [app oer_get_quantity].
  destruct (oer_min_octets_spec n Hn) as (Hne & Hv & _).
  rewrite oer_take_app. destruct (min_octets n) eqn:Eo; [congruence|].
  rewrite Hv. reflexivity.
Qed.

(* ---------------- tag octets ---------------- *)

Lemma oer_tag_loop_digits ds : forall rest acc,
  ds <> [] -> digits_ok 128 ds ->
  oer_tag_loop (mark_cont ds ++ rest) acc = Some (acc * 128 ^ zlen ds + dval 128 ds, rest).
Proof.
  induction ds as [|d tl IH]; intros rest acc Hne Hok; [congruence|].
  inversion Hok as [|? ? Hd Htl]; subst.
  destruct tl as [|d' tl'].
  - cbn [mark_cont app oer_tag_loop dval]. unfold zlen; cbn [length Z.of_nat].
    destruct (128 <=? d) eqn:E; [lia|].
    rewrite Z.pow_0_r, Z.pow_1_r. f_equal. f_equal. lia.
  - rewrite mark_cont_cons2. cbn [app oer_tag_loop].
    destruct (128 <=? 128 + d) eqn:E; [|lia].
    replace (128 + d - 128) with d by lia.
    rewrite IH; [|congruence|exact Htl].
    f_equal. f_equal.
    change (dval 128 (d :: d' :: tl')) with (d * 128 ^ zlen (d' :: tl') + dval 128 (d' :: tl')).
    rewrite (powB_zlen_cons 128 d (d' :: tl')). ring.
Qed.

Definition oer_tag_ok (tg : Z) : Prop := 0 <= tg /\ tg / 4 < two30.

Lemma oer_tag_inverse tg r : oer_tag_ok tg ->
  oer_get_tag (oer_tag tg ++ r) = Some (tg, r).
Proof.
  intros [H0 H1]. unfold oer_tag.
  pose proof (Z.div_mod tg 4 ltac:(lia)) as Hdm.
  pose proof (Z.mod_pos_bound tg 4 ltac:(lia)) as Hm.
  assert (Hq : 0 <= tg / 4) by (apply Z.div_pos; lia).
  set (c := tg mod 4) in *. set (t := tg / 4) in *. cbn zeta.
  destruct (t <? 63) eqn:E.
  - cbn [app oer_get_tag].
    assert (Hc : (c * 64 + t) / 64 = c).
    { rewrite Z.div_add_l by lia. rewrite Z.div_small by lia. lia. }
    assert (Hv : (c * 64 + t) mod 64 = t).
    { rewrite Z.add_comm, Z.mod_add by lia. apply Z.mod_small. lia. }
    rewrite Hc, Hv. destruct (t =? 63) eqn:E2; [lia|]. f_equal. f_equal. lia.
  - cbn [app oer_get_tag].
    assert (Hc : (c * 64 + 63) / 64 = c).
    { rewrite Z.div_add_l by lia. rewrite Z.div_small by lia. lia. }
    assert (Hv : (c * 64 + 63) mod 64 = 63).
    { rewrite Z.add_comm, Z.mod_add by lia. apply Z.mod_small. lia. }
    rewrite Hc, Hv. cbn [Z.eqb Pos.eqb].
    destruct (tag_required_size_spec t ltac:(lia)) as ((Hlo & Hhi) & Hr).
    set (k := tag_required_size t) in *.
    assert (Hdv : dval 128 (digits 128 k t) = t).
    { rewrite dval_digits by lia. apply Z.mod_small. lia. }
    assert (Hne : digits 128 k t <> []).
    { intro Hnil. apply (f_equal (@length Z)) in Hnil. rewrite digits_length in Hnil. cbn in Hnil. lia. }
    rewrite oer_tag_loop_digits; [|exact Hne|apply digits_ok_digits; lia].
    rewrite Z.mul_0_l, Z.add_0_l, Hdv. f_equal. f_equal. lia.
Qed.

(* ---------------- INTEGER ---------------- *)

Lemma oer_strip_zeros_cons2 b b1 tl :
  strip_zeros (b :: b1 :: tl) = if b =? 0 then strip_zeros (b1 :: tl) else b :: b1 :: tl.
Proof. reflexivity. Qed.

Lemma oer_strip_zeros_spec bs : bs <> [] ->
  be_val (strip_zeros bs) = be_val bs /\ strip_zeros bs <> [] /\
  (length (strip_zeros bs) <= length bs)%nat.
Proof.
  induction bs as [|b tl IH]; intros Hne; [congruence|].
  destruct tl as [|b1 tl'].
  - cbn [strip_zeros]. auto.
  - rewrite oer_strip_zeros_cons2. destruct (b =? 0) eqn:E.
    + destruct IH as (H1 & H2 & H3); [congruence|].
      split; [|split; [exact H2|cbn [length] in *; lia]].
      rewrite H1. replace b with 0 by lia.
      change (be_val (0 :: b1 :: tl')) with (0 * 256 ^ zlen (b1 :: tl') + be_val (b1 :: tl')). lia.
    + split; [reflexivity|]. split; [congruence|lia].
Qed.

Lemma oer_be_val_zero_pad k bs : be_val (repeat 0 k ++ bs) = be_val bs.
Proof.
  induction k as [|k IH]; [reflexivity|].
  cbn [repeat app be_val]. rewrite IH. lia.
Qed.

Lemma oer_be_val_ff k : be_val (repeat 255 k) = 256 ^ Z.of_nat k - 1.
Proof.
  induction k as [|k IH]; [reflexivity|].
  cbn [repeat be_val]. unfold zlen. rewrite repeat_length, IH, pow256_S. lia.
Qed.

Lemma oer_twos_value_ff_pad k b tl : 128 <= b ->
  twos_value (repeat 255 k ++ b :: tl) = twos_value (b :: tl).
Proof.
  intros Hb. destruct k as [|k]; [reflexivity|].
  cbn [repeat app]. unfold twos_value at 1.
  change (255 :: repeat 255 k ++ b :: tl) with (repeat 255 (S k) ++ b :: tl).
  rewrite be_val_app, oer_be_val_ff, zlen_app.
  unfold twos_value. destruct (128 <=? b) eqn:E; [|lia].
  rewrite Z.pow_add_r by apply zlen_nonneg.
  unfold zlen at 2. rewrite repeat_length.
  replace (128 <=? 255) with true by reflexivity. ring.
Qed.

(* what the encoder needs of asn_imax2INTEGER *)
Lemma oer_int_body z : fits_long z = true ->
  let body := imax2INTEGER z in
  body <> [] /\ bytes_ok body /\ twos_value body = z /\ zlen body <= 8.
Proof.
  intros Hz. unfold fits_long in Hz. cbn zeta.
  destruct (imax2INTEGER_canonical z ltac:(lia)) as (Hv & _ & Hok & Hne).
  repeat split; auto.
  unfold imax2INTEGER.
  assert (Hne' : be_bytes 8 (to_unsigned64 z) <> []) by (cbn [be_bytes]; congruence).
  destruct (strip_spec _ (be_bytes_ok 8 (to_unsigned64 z)) Hne') as (_ & _ & _ & Hl & _).
  rewrite be_bytes_length in Hl. unfold zlen. lia.
Qed.

Lemma oer_int_inverse c z body r : fits_long z = true ->
  oer_int c z = Some body -> oer_dec_int c (body ++ r) = Some (z, r).
Proof.
  intros Hz. destruct (oer_int_body z Hz) as (Hne & Hok & Hv & Hl8). cbn zeta in *.
  unfold oer_int, oer_dec_int.
  destruct (oer_int_ct c) as [width positive].
  set (b0 := imax2INTEGER z) in *.
  destruct b0 as [|hd tl] eqn:Eb; [congruence|].
  set (negative := 128 <=? hd).
  destruct (positive && negative) eqn:Epn; [discriminate|].
  destruct positive.
  - (* unsigned: the value is non-negative, leading zero octets dropped *)
    cbn [andb] in Epn.
    assert (Hnn : 0 <= twos_value (hd :: tl)).
    { unfold twos_value. subst negative. rewrite Epn.
      pose proof (be_val_bound _ Hok). lia. }
    pose proof (nonneg_be_val _ Hok Hnn Hne) as Hbe.
    destruct (oer_strip_zeros_spec (hd :: tl) Hne) as (Hs1 & Hs2 & Hs3).
    set (useful := strip_zeros (hd :: tl)) in *.
    assert (Hlu : 0 <= zlen useful <= 8) by (unfold zlen in *; cbn [length] in *; lia).
    destruct (width =? 0) eqn:Ew.
    + intros H. injection H as <-. rewrite <- app_assoc.
      rewrite oer_length_inverse by (apply oer_small_count; unfold rssize_max; lia).
      rewrite oer_take_app. destruct useful eqn:Eu; [congruence|].
      rewrite Hs1, Hbe, Hv. reflexivity.
    + destruct (width <? zlen useful) eqn:Ewl; [discriminate|].
      intros H. injection H as <-. rewrite Epn.
      rewrite (oer_take_app_eq width).
      * rewrite oer_be_val_zero_pad, Hs1, Hbe, Hv. reflexivity.
      * rewrite zlen_app. unfold zlen at 1. rewrite repeat_length. lia.
  - (* signed: two's complement contents, sign-extended to a fixed width *)
    pose proof (zlen_nonneg (hd :: tl)) as Hl0.
    destruct (width =? 0) eqn:Ew.
    + intros H. injection H as <-. rewrite <- app_assoc.
      rewrite oer_length_inverse by (apply oer_small_count; unfold rssize_max; lia).
      rewrite oer_take_app. rewrite Hv. reflexivity.
    + destruct (width <? zlen (hd :: tl)) eqn:Ewl; [discriminate|].
      intros H. injection H as <-.
      rewrite (oer_take_app_eq width).
      * f_equal. f_equal. rewrite <- Hv. subst negative.
        destruct (128 <=? hd) eqn:En.
        -- apply oer_twos_value_ff_pad. lia.
        -- set (k := Z.to_nat (width - zlen (hd :: tl))).
           destruct k as [|k]; [reflexivity|].
           cbn [repeat app]. unfold twos_value at 1.
           replace (128 <=? 0) with false by reflexivity.
           change (0 :: repeat 0 k ++ hd :: tl) with (repeat 0 (S k) ++ hd :: tl).
           rewrite oer_be_val_zero_pad. unfold twos_value. rewrite En. reflexivity.
      * rewrite zlen_app. unfold zlen at 1. rewrite repeat_length. lia.
Qed.

(* ---------------- presence bitmap of a SEQUENCE ---------------- *)

(* one octet: the bits written are the bits read back, zero-padded on the right
   (finite: every bit string of at most 8 bits) *)
Lemma oer_byte_bits_pack h : (length h <= 8)%nat ->
  byte_bits (bits_val h * 2 ^ (8 - zlen h)) = h ++ repeat false (8 - length h).
Proof.
  intros H.
  do 9 (destruct h as [|? h];
        [repeat match goal with b : bool |- _ => destruct b end; reflexivity|]).
  cbn [length] in H. lia.
Qed.

Lemma oer_take_bits_app a : forall n l,
  take_bits (length a + n) (a ++ l) =
  match take_bits n l with Some (x, r) => Some (a ++ x, r) | None => None end.
Proof.
  induction a as [|b a IH]; intros n l.
  - cbn [length Nat.add app]. destruct (take_bits n l) as [[x r]|]; reflexivity.
  - cbn [length Nat.add app take_bits]. rewrite IH.
    destruct (take_bits n l) as [[x r]|]; reflexivity.
Qed.

Lemma oer_take_bits_all a l : take_bits (length a) (a ++ l) = Some (a, l).
Proof.
  pose proof (oer_take_bits_app a 0 l) as H. rewrite Nat.add_0_r in H.
  rewrite H. cbn [take_bits]. rewrite app_nil_r. reflexivity.
Qed.

Lemma oer_bytes_bits_cons b tl : bytes_bits (b :: tl) = byte_bits b ++ bytes_bits tl.
Proof. reflexivity. Qed.

Lemma oer_pack_bits_inverse fuel : forall bs, (length bs < fuel)%nat ->
  (exists r, take_bits (length bs) (bytes_bits (pack_bits fuel bs)) = Some (bs, r)) /\
  length (pack_bits fuel bs) = ((length bs + 7) / 8)%nat.
Proof.
  induction fuel as [|f IH]; intros bs Hf; [lia|].
  cbn [pack_bits]. destruct bs as [|b0 bs0] eqn:Ebs.
  - split; [exists []; reflexivity|reflexivity].
  - assert (Hpos : (0 < length bs)%nat) by (rewrite Ebs; cbn; lia).
    rewrite <- Ebs in *. clear b0 bs0 Ebs.
    cbn zeta. rewrite oer_bytes_bits_cons.
    pose proof (firstn_skipn 8 bs) as Hsplit.
    assert (Hlh : (length (firstn 8 bs) <= 8)%nat) by (rewrite firstn_length; lia).
    rewrite oer_byte_bits_pack by exact Hlh.
    destruct (le_lt_dec (length bs) 8) as [Hle|Hgt].
    + (* last octet *)
      rewrite firstn_all2 by lia. rewrite skipn_all2 by lia.
      assert (Hnil : pack_bits f [] = []) by (destruct f; reflexivity).
      rewrite Hnil. cbn [bytes_bits flat_map]. rewrite app_nil_r. split.
      * eexists. apply oer_take_bits_all.
      * cbn [length].
        assert (E : ((length bs + 7) / 8 = 1)%nat).
        { symmetry. apply Nat.div_unique with (r := (length bs - 1)%nat); lia. }
        rewrite E. reflexivity.
    + assert (Hl8 : length (firstn 8 bs) = 8%nat) by (rewrite firstn_length; lia).
      rewrite Hl8. cbn [Nat.sub repeat]. rewrite app_nil_r.
      assert (Hls : length (skipn 8 bs) = (length bs - 8)%nat) by apply skipn_length.
      destruct (IH (skipn 8 bs) ltac:(lia)) as ((r & Hr) & Hlen). split.
      * exists r.
        replace (length bs) with (length (firstn 8 bs) + length (skipn 8 bs))%nat by lia.
        rewrite oer_take_bits_app, Hr, Hsplit. reflexivity.
      * cbn [length]. rewrite Hlen, Hls.
        replace (length bs + 7)%nat with (length bs - 8 + 7 + 1 * 8)%nat by lia.
        rewrite Nat.div_add by lia. lia.
Qed.

Lemma oer_preamble_inverse pres r :
  take (Z.of_nat ((length pres + 7) / 8)) (bits_to_bytes pres ++ r) = Some (bits_to_bytes pres, r) /\
  exists x, take_bits (length pres) (bytes_bits (bits_to_bytes pres)) = Some (pres, x).
Proof.
  unfold bits_to_bytes.
  destruct (oer_pack_bits_inverse (S (length pres)) pres ltac:(lia)) as (Hx & Hlen).
  split; [|exact Hx].
  apply oer_take_app_eq. unfold zlen. rewrite Hlen. reflexivity.
Qed.
