(* Rt/CanonicalDefaultProofs.v — C06: the encoders that ask `default_value_cmp` at every
   place give the same octets for a DEFAULT component left absent and stored explicitly,
   in the root and among the extension additions (DER, UPER, OER); the encoders that ask
   at some places only do not (witnesses = the seeded changes C06-3 / C06-5, the
   hand-made change of the c06x round, the repaired finding C06-uper-extension-default). *)
From Coq Require Import ZArith List Bool Lia.
From A1 Require Import Base.Bytes Rt.Types Rt.Comb Rt.Der Rt.Uper Rt.Oer Rt.Ext Rt.Canonical Rt.CanonicalDefault.
Import ListNotations.
Local Open Scope Z_scope.

Lemma elide1_at_dflt dv v : at_dflt dv v -> elide1 (Some dv) v = VNone.
Proof. intros [->|(x & -> & E)]; cbn; [reflexivity|rewrite E; reflexivity]. Qed.

Lemma elide1_rel d v1 v2 : dflt_rel d v1 v2 -> elide1 d v1 = elide1 d v2.
Proof.
  intros [->|(dv & -> & H1 & H2)]; [reflexivity|].
  rewrite (elide1_at_dflt dv v1 H1), (elide1_at_dflt dv v2 H2). reflexivity.
Qed.

Lemma elide_rel ds vs1 vs2 : Forall3 dflt_rel ds vs1 vs2 -> elide ds vs1 = elide ds vs2.
Proof.
  induction 1 as [|d v1 v2 ds vs1 vs2 H _ IH]; [reflexivity|].
  cbn [elide]. rewrite (elide1_rel d v1 v2 H), IH. reflexivity.
Qed.

Lemma elide1_idem d v : elide1 d (elide1 d v) = elide1 d v.
Proof.
  destruct d as [dv|]; [|reflexivity]. destruct v; try reflexivity.
  cbn [elide1]. destruct (leaf_eqb v dv) eqn:E; [reflexivity|]. cbn [elide1]. rewrite E. reflexivity.
Qed.

Lemma elide_idem ds : forall vs, elide ds (elide ds vs) = elide ds vs.
Proof.
  induction ds as [|d ds IH]; intros [|v vs]; try reflexivity.
  cbn [elide]. rewrite elide1_idem, IH. reflexivity.
Qed.

(* the structure that is encoded never holds a component equal to its DEFAULT (X.690 11.5) *)
Lemma elide1_not_default dv v x : elide1 (Some dv) v = VSome x -> leaf_eqb x dv = false.
Proof.
  destruct v; cbn [elide1]; try discriminate.
  destruct (leaf_eqb v dv) eqn:E; [discriminate|]. intros H. injection H as <-. exact E.
Qed.

Section Indep.
  Variables (dr da : list (option val)) (t : ety).
  Variables (rvs1 rvs2 avs1 avs2 : list val).
  Hypothesis Hr : Forall3 dflt_rel dr rvs1 rvs2.
  Hypothesis Ha : Forall3 dflt_rel da avs1 avs2.

  Lemma elide_v_rel : elide_v dr da (EVSeq rvs1 avs1) = elide_v dr da (EVSeq rvs2 avs2).
  Proof. cbn [elide_v]. rewrite (elide_rel _ _ _ Hr), (elide_rel _ _ _ Ha). reflexivity. Qed.

  Theorem dfl_der_indep : dfl_der dr da t (EVSeq rvs1 avs1) = dfl_der dr da t (EVSeq rvs2 avs2).
  Proof. unfold dfl_der. rewrite elide_v_rel. reflexivity. Qed.

  Theorem dfl_uper_indep std : dfl_uper std dr da t (EVSeq rvs1 avs1) = dfl_uper std dr da t (EVSeq rvs2 avs2).
  Proof. unfold dfl_uper. rewrite elide_v_rel. reflexivity. Qed.

  Theorem dfl_oer_indep : dfl_oer dr da t (EVSeq rvs1 avs1) = dfl_oer dr da t (EVSeq rvs2 avs2).
  Proof. unfold dfl_oer. rewrite elide_v_rel. reflexivity. Qed.
End Indep.

(* where the variants cannot be told from the canonical encoders: no addition stored
   with a value equal to its DEFAULT *)
Theorem dfl_oer_stored_bit_agrees dr da t rvs avs :
  elide da avs = avs ->
  dfl_oer_stored_bit dr da t (EVSeq rvs avs) = dfl_oer dr da t (EVSeq rvs avs).
Proof.
  intros H. destruct t as [tg root adds|root exts]; [|reflexivity].
  unfold dfl_oer_stored_bit, dfl_oer, elide_v, ext_oer. rewrite H. reflexivity.
Qed.

Theorem dfl_uper_count_only_agrees std dr da t rvs avs :
  elide da avs = avs ->
  dfl_uper_count_only std dr da t (EVSeq rvs avs) = dfl_uper std dr da t (EVSeq rvs avs).
Proof.
  intros H. unfold dfl_uper_count_only, dfl_uper, elide_v. rewrite H.
  destruct (existsb is_present avs); reflexivity.
Qed.

(* ---------------- witnesses ---------------- *)

Definition byte_ty (tg : Z) : ty := TInt tg (ICon (Some 0) (Some 255) false).
(* T ::= SEQUENCE { a [0] INTEGER (0..255), ..., j [1] INTEGER (0..255) DEFAULT 7 }  (seeded/C06-5/m.asn1) *)
Definition wit_t1 : ety := ESeq 64 [byte_ty 2] [byte_ty 6].
(* ... and a second addition, m [2] BOOLEAN OPTIONAL *)
Definition wit_t2 : ety := ESeq 64 [byte_ty 2] [byte_ty 6; TBool 10].

Lemma wit_rel1 : Forall3 dflt_rel [Some (VInt 7)] [VNone] [VSome (VInt 7)].
Proof.
  constructor; [|constructor]. right. exists (VInt 7). split; [reflexivity|]. split; [left; reflexivity|].
  right. exists (VInt 7). split; reflexivity.
Qed.

Lemma wit_rel2 : Forall3 dflt_rel [Some (VInt 7); None] [VNone; VSome (VBool true)] [VSome (VInt 7); VSome (VBool true)].
Proof.
  constructor; [|constructor; [left; reflexivity|constructor]].
  right. exists (VInt 7). split; [reflexivity|]. split; [left; reflexivity|].
  right. exists (VInt 7). split; reflexivity.
Qed.

Theorem dfl_oer_stored_bit_refuted :
  exists dr da t rvs avs1 avs2, Forall3 dflt_rel da avs1 avs2
    /\ dfl_oer dr da t (EVSeq rvs avs1) = dfl_oer dr da t (EVSeq rvs avs2)
    /\ dfl_oer_stored_bit dr da t (EVSeq rvs avs1) = Some [0; 1]
    /\ dfl_oer_stored_bit dr da t (EVSeq rvs avs2) = Some [128; 1; 2; 7; 0].
Proof.
  exists [None], [Some (VInt 7)], wit_t1, [VInt 1], [VNone], [VSome (VInt 7)].
  split; [exact wit_rel1|]. repeat split; vm_compute; reflexivity.
Qed.

Theorem dfl_uper_count_only_refuted :
  exists dr da t rvs avs1 avs2, Forall3 dflt_rel da avs1 avs2
    /\ dfl_uper false dr da t (EVSeq rvs avs1) = dfl_uper false dr da t (EVSeq rvs avs2)
    /\ dfl_uper_count_only false dr da t (EVSeq rvs avs1) <> dfl_uper_count_only false dr da t (EVSeq rvs avs2).
Proof.
  exists [None], [Some (VInt 7); None], wit_t2, [VInt 1], [VNone; VSome (VBool true)], [VSome (VInt 7); VSome (VBool true)].
  split; [exact wit_rel2|]. split; [vm_compute; reflexivity|]. intros H. vm_compute in H. discriminate.
Qed.

Theorem dfl_uper_root_only_refuted :
  exists dr da t rvs avs1 avs2, Forall3 dflt_rel da avs1 avs2
    /\ dfl_uper false dr da t (EVSeq rvs avs1) = dfl_uper false dr da t (EVSeq rvs avs2)
    /\ dfl_uper_root_only false dr da t (EVSeq rvs avs1) <> dfl_uper_root_only false dr da t (EVSeq rvs avs2).
Proof.
  exists [None], [Some (VInt 7)], wit_t1, [VInt 1], [VNone], [VSome (VInt 7)].
  split; [exact wit_rel1|]. split; [vm_compute; reflexivity|]. intros H. vm_compute in H. discriminate.
Qed.
