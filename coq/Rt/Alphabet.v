(* Rt/Alphabet.v — C08: the permitted-alphabet half of the generated checkers
   (libasn1compiler/asn1c_constraint.c: asn1c_emit_constraint_tables, emit_alphabet_check_loop).

   An alphabet reaches the emitter as the canonical range record of libasn1fix
   (_range_canonicalize): elements sorted, disjoint, not adjacent; a single interval has
   no elements (el_count = 0).  Here: the list of its intervals lo..hi, in order
   ([alphabet]); one interval = el_count 0.

   Spec   [in_alpha a c]                 — c lies in one of the intervals.
   Model  [table_of_alphabet a]          — the initialiser of `permitted_alphabet_table_N[]`:
            memset(table, 0); n = 0; for each element, for v = left..right: table[v] = ++n;
            range_start is forced to 0; the cells 0 .. untl-1 are printed, where
            untl = (range_stop - range_start) + 1 rounded up to a multiple of 16 — the COUNT
            of cells ([round16_count]); the array is declared with max_table_size cells, the
            rest is zero-initialised ([lookup] beyond the printed cells = 0).
          [round16_distance]             — the wrong rounding (of the distance range_stop -
            range_start instead of the count): NOT what the code does; kept for the refuted
            witness only.
          [code2value], [cardinal]       — `permitted_alphabet_code2value_N[cardinal]`.
          [use_table], [alpha_mode]      — table / range comparisons / UTF8String special cases.
          [unit_ok], [alpha_check]       — check_permitted_alphabet_N over the code units of the
            string (uint8_t, 16-bit BMPString, 32-bit UniversalString units; UTF8String: octets).
   The range-comparison text is Rt.Constraints.emit (emit_range_comparison_code) with
   natural_start 0 and the natural_stop of the unit type.
   No proofs in this file. *)
From Coq Require Import ZArith List Bool.
From A1 Require Import Fix.Crange Rt.Constraints.
Import ListNotations.
Local Open Scope Z_scope.

Definition arange := (Z * Z)%type.
Definition alphabet := list arange.

(* ------------------------------------------------------------------ Spec *)
Definition in_run (c : Z) (r : arange) : bool := (fst r <=? c) && (c <=? snd r).
Definition in_alpha (a : alphabet) (c : Z) : bool := existsb (in_run c) a.

(* ------------------------------------------------------------------ Model: the table *)
Definition table := Z -> Z.
Definition upd (t : table) (i v : Z) : table := fun j => if j =? i then v else t j.

(* for(v = left; v <= right; v++) table[v] = ++n;   k = number of iterations left *)
Fixpoint fill_run (k : nat) (v n : Z) (t : table) : table * Z :=
  match k with
  | O => (t, n)
  | S k' => fill_run k' (v + 1) (n + 1) (upd t v (n + 1))
  end.

Fixpoint fill (a : alphabet) (n : Z) (t : table) : table * Z :=
  match a with
  | [] => (t, n)
  | r :: tl =>
      let '(t', n') := fill_run (Z.to_nat (snd r - fst r + 1)) (fst r) n t in
      fill tl n' t'
  end.

Definition table_fn (a : alphabet) : table := fst (fill a 0 (fun _ => 0)).

(* range->right.value after _range_canonicalize: the right edge of the last element *)
Definition alpha_stop (a : alphabet) : Z := snd (last a (0, 0)).
Definition alpha_start (a : alphabet) : Z := match a with r :: _ => fst r | [] => 0 end.

(* untl = (range_stop - range_start) + 1;  untl += (untl % 16) ? 16 - (untl % 16) : 0;   range_start = 0 *)
Definition round16_count (stop : Z) : Z :=
  let u := stop + 1 in u + (if u mod 16 =? 0 then 0 else 16 - u mod 16).
(* (range_stop - range_start + 15) & ~15 : rounds the distance, not the count *)
Definition round16_distance (stop : Z) : Z := (stop + 15) / 16 * 16.

Fixpoint zseq (from : Z) (k : nat) : list Z :=
  match k with O => [] | S k' => from :: zseq (from + 1) k' end.

Definition cells_upto (untl : Z) (a : alphabet) : list Z := map (table_fn a) (zseq 0 (Z.to_nat untl)).
Definition table_of_alphabet (a : alphabet) : list Z := cells_upto (round16_count (alpha_stop a)) a.

(* table[cv] for 0 <= cv < max_table_size: the cells not printed are zero *)
Definition lookup (cells : list Z) (c : Z) : Z := nth (Z.to_nat c) cells 0.

(* cardinal += table[n] ? 1 : 0 over the printed cells: the declared length of code2value[] *)
Definition nonzero (x : Z) : bool := negb (x =? 0).
Definition cardinal (cells : list Z) : Z := zlength (filter nonzero cells).
(* for(c = 0; c < max_table_size; c++) if(table[c]) OUT("%d,", c); *)
Definition code2value (a : alphabet) (size : Z) : list Z :=
  filter (fun c => nonzero (table_fn a c)) (zseq 0 (Z.to_nat size)).

(* number of members of the alphabet that are <= c: what the cell of a member must hold *)
Definition rank (a : alphabet) (c : Z) : Z := zlength (filter (in_alpha a) (zseq 0 (Z.to_nat (c + 1)))).

(* ------------------------------------------------------------------ Model: the checker *)
(* the code unit the loop reads: uint8_t (IA5String, PrintableString, ... and every other one-octet
   string type), BMPString, UniversalString, UTF8String (octets) *)
Inductive skind := K1 | K2 | K4 | KU.

Definition max_table_size (k : skind) : Z := match k with KU => 128 | _ => 256 end.
Definition natural_stop (k : skind) : Z :=
  match k with K1 => 255 | K2 => 65535 | K4 | KU => 4294967295 end.

Definition use_table (k : skind) (a : alphabet) : bool :=
  (1 <? zlength a) &&                               (* range->el_count != 0 *)
  (alpha_stop a <=? 255) &&                         (* (range_stop - range_start) > 255 => no table *)
  match k with KU => alpha_stop a <? 128 | _ => true end.

(* the range record of a canonical alphabet *)
Definition crange_of_alpha (a : alphabet) : crange :=
  match a with
  | [] => (EMin, EMax, [])
  | [r] => (EV (fst r), EV (snd r), [])
  | _ => (EV (alpha_start a), EV (alpha_stop a), map (fun r => (EV (fst r), EV (snd r))) a)
  end.

Inductive amode :=
| ATable (cells : list Z)          (* if(!table[cv]) return -1; *)
| ARange (txt : list cmp)          (* if(!(text)) return -1;  empty text: (void)cv *)
| AUtf8Len                         (* UTF8String_length() < 0 => -1: well-formedness only *)
| ANone.                           (* UTF8String with SIZE: no alphabet function at all *)

Definition alpha_mode (k : skind) (got_size : bool) (a : alphabet) : amode :=
  if use_table k a then ATable (table_of_alphabet a)
  else match k with
       | KU => if got_size then ANone else AUtf8Len
       | _ => ARange (emit (Some 0) (Some (natural_stop k)) (crange_of_alpha a))
       end.

Definition unit_ok (k : skind) (m : amode) (cv : Z) : bool :=
  match m with
  | ATable cells =>
      match k with
      | K1 => true
      | K2 | K4 => cv <=? 255            (* if(cv > 255) return -1; *)
      | KU => cv <? 128                  (* if(cv >= 0x80) return -1; *)
      end && nonzero (lookup cells cv)
  | ARange [] => true
  | ARange txt => eval cv txt
  | AUtf8Len | ANone => true
  end.

(* check_permitted_alphabet_N(st) == 0, for a string whose code units are [units]
   (a BMPString / UniversalString of a size not divisible by 2 / 4 is refused before the loop;
   a UTF8String is taken to be well-formed) *)
Definition alpha_check (k : skind) (got_size : bool) (a : alphabet) (units : list Z) : bool :=
  forallb (unit_ok k (alpha_mode k got_size a)) units.

(* the Spec of the loop *)
Definition alpha_sat (a : alphabet) (units : list Z) : bool := forallb (in_alpha a) units.

(* ------------------------------------------------------------------ well-formed (canonical) alphabets *)
(* sorted, disjoint, every interval non-empty, all codes >= lo *)
Fixpoint wf_from (lo : Z) (a : alphabet) : Prop :=
  match a with
  | [] => True
  | r :: tl => lo <= fst r /\ fst r <= snd r /\ wf_from (snd r + 1) tl
  end.
Definition wf_alpha (a : alphabet) : Prop := a <> [] /\ wf_from 0 a.

Fixpoint wf_fromb (lo : Z) (a : alphabet) : bool :=
  match a with
  | [] => true
  | r :: tl => (lo <=? fst r) && (fst r <=? snd r) && wf_fromb (snd r + 1) tl
  end.
Definition wf_alphab (a : alphabet) : bool := nonnil a && wf_fromb 0 a.
