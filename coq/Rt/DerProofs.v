(* Rt/DerProofs.v — the DER encoder produces a valid BER encoding of the value:
   the reference decoder returns the value and exactly the bytes that followed. *)
From Coq Require Import ZArith List Lia Bool ZifyBool.
From A1 Require Import Base.Bytes Base.Digits Leaf.IntegerConv Leaf.IntegerConvProofs
  Leaf.BerTL Leaf.BerTLProofs Rt.Types Rt.TypesInd Rt.Comb Rt.Der.
Import ListNotations.
Local Open Scope Z_scope.

(* ---------------- well-formedness ---------------- *)

Definition tag_good (tg : Z) : Prop := 0 < tg /\ tg / 4 < two30.

Definition disjointb (a b : list Z) : bool := forallb (fun x => negb (tag_in x b)) a.

(* the tags a member list can start with: the leading run of OPTIONAL members
   and the member that follows it *)
Fixpoint run_tags (ms : list ty) : list Z :=
  match ms with
  | [] => []
  | x :: r => first_tags x ++ (if is_opt x then run_tags r else [])
  end.

(* X.680 distinctness (what C11 states) for a member list: the first tags of an
   OPTIONAL member are disjoint from those of the rest of its run and of the
   member that follows the run *)
Fixpoint run_distinct (ms : list ty) : bool :=
  match ms with
  | [] => true
  | m :: ms' => (if is_opt m then disjointb (first_tags m) (run_tags ms') else true) && run_distinct ms'
  end.

Fixpoint alts_distinct (alts : list ty) : bool :=
  match alts with
  | [] => true
  | a :: r => forallb (fun b => disjointb (first_tags a) (first_tags b)) r && alts_distinct r
  end.

Definition not_opt (t : ty) : bool := negb (is_opt t).

Fixpoint wf_ty (t : ty) : bool :=
  match t with
  | TBool tg | TNull tg | TInt tg _ | TOct tg _ => (0 <? tg) && (tg / 4 <? two30)
  | TSeq tg ms => (0 <? tg) && (tg / 4 <? two30) && forallb wf_ty ms && run_distinct ms
  | TSeqOf tg _ e | TSetOf tg _ e => (0 <? tg) && (tg / 4 <? two30) && wf_ty e && not_opt e
  | TChoice alts => forallb wf_ty alts && forallb not_opt alts && alts_distinct alts
                    && negb (match alts with [] => true | _ => false end)
  | TTag tg t' => (0 <? tg) && (tg / 4 <? two30) && wf_ty t' && not_opt t'
  | TOpt t' => wf_ty t' && not_opt t'
  end.

(* well-typed values that the C can hold: native long integers, octets, SET OF
   stored in the order of their encodings (as after any decode) *)
Fixpoint wt (t : ty) (v : val) {struct t} : bool :=
  match t, v with
  | TBool _, VBool _ => true
  | TNull _, VNull => true
  | TInt _ _, VInt z => fits_long z
  | TOct _ _, VOct bs => bytes_okb bs
  | TSeq _ ms, VSeq vs =>
      (fix go (ms : list ty) (vs : list val) : bool :=
         match ms, vs with
         | [], [] => true
         | m :: ms', v :: vs' => wt m v && go ms' vs'
         | _, _ => false
         end) ms vs
  | TSeqOf _ _ e, VList vs => forallb (wt e) vs
  | TSetOf _ _ e, VList vs =>
      forallb (wt e) vs &&
      match option_all (map (der e) vs) with
      | Some cs => if list_eq_dec (list_eq_dec Z.eq_dec) (sort_encodings cs) cs then true else false
      | None => false
      end
  | TChoice alts, VChoice i v' =>
      (fix pick (alts : list ty) (i : nat) : bool :=
         match alts, i with
         | a :: _, O => wt a v'
         | _ :: r, S j => pick r j
         | [], _ => false
         end) alts i
  | TTag _ t', _ => wt t' v
  | TOpt _, VNone => true
  | TOpt t', VSome v' => wt t' v'
  | _, _ => false
  end.

(* ---------------- header lemmas ---------------- *)

Lemma tag_good_ok tg : tag_good tg -> tag_ok tg.
Proof. unfold tag_good, tag_ok. lia. Qed.

Lemma tag_serialize_head tg : tag_good tg ->
  exists b tl, tag_serialize tg = b :: tl /\ 0 < b < 256 /\ (b / 32) mod 2 = 0.
Proof.
  intros [H0 H1]. unfold tag_serialize.
  pose proof (Z.mod_pos_bound tg 4 ltac:(lia)) as Hm.
  assert (Hq : 0 <= tg / 4) by (apply Z.div_pos; lia).
  pose proof (Z.div_mod tg 4 ltac:(lia)) as Hdm.
  set (c := tg mod 4) in *. set (t := tg / 4) in *.
  destruct (t <=? 30) eqn:E.
  - exists (c * 64 + t), []. split; [reflexivity|]. split; [lia|].
    replace (c * 64 + t) with (t + (c * 2) * 32) by ring.
    rewrite Z.div_add by lia. rewrite Z.div_small by lia.
    replace (0 + c * 2) with (c * 2) by lia. apply Z.mod_mul. lia.
  - eexists; eexists; split; [reflexivity|]. split; [lia|].
    replace (c * 64 + 31) with (31 + (c * 2) * 32) by ring.
    rewrite Z.div_add by lia. rewrite Z.div_small by lia.
    replace (0 + c * 2) with (c * 2) by lia. apply Z.mod_mul. lia.
Qed.

Lemma fetch_tag_cbit b tl : 0 <= b < 256 -> (b / 32) mod 2 = 0 ->
  fetch_tag ((b + 32) :: tl) = fetch_tag (b :: tl).
Proof.
  intros Hb Hc. cbn [fetch_tag].
  pose proof (Z.div_mod b 32 ltac:(lia)) as Hd1. pose proof (Z.mod_pos_bound b 32 ltac:(lia)) as Hr1.
  pose proof (Z.div_mod (b / 32) 2 ltac:(lia)) as Hd2. rewrite Hc in Hd2.
  set (k := b / 32 / 2) in *. set (r := b mod 32) in *.
  assert (Hk1 : b / 64 = k) by (symmetry; apply Z.div_unique with (r := r); lia).
  assert (H1 : (b + 32) / 64 = b / 64).
  { rewrite Hk1. symmetry. apply Z.div_unique with (r := r + 32); lia. }
  assert (H2 : (b + 32) mod 32 = b mod 32).
  { replace (b + 32) with (b + 1 * 32) by ring. apply Z.mod_add. lia. }
  rewrite H1, H2. reflexivity.
Qed.

Lemma tag_bytes_fetch tg c rest : tag_good tg ->
  fetch_tag (tag_bytes tg c ++ rest) = FOk tg (length (tag_bytes tg c)) /\
  exists b tl, tag_bytes tg c ++ rest = b :: tl /\ ((b / 32) mod 2 =? 1) = c /\ 0 < b.
Proof.
  intros Hg. destruct (tag_serialize_head tg Hg) as (b & tl & Hs & Hb & Hc).
  pose proof (tag_roundtrip tg rest (tag_good_ok tg Hg)) as Hr.
  unfold tag_bytes. rewrite Hs in *. destruct c.
  - split.
    + cbn [app] in *. rewrite fetch_tag_cbit by lia. exact Hr.
    + exists (b + 32), (tl ++ rest). split; [reflexivity|]. split; [|lia].
      replace (b + 32) with (b + 1 * 32) by ring. rewrite Z.div_add by lia.
      rewrite Z.add_mod by lia. rewrite Hc. reflexivity.
  - split; [exact Hr|]. exists b, (tl ++ rest). split; [reflexivity|]. split; [|lia].
    rewrite Hc. reflexivity.
Qed.

Lemma skipn_app_length {A} (l1 l2 : list A) : skipn (length l1) (l1 ++ l2) = l2.
Proof. induction l1; cbn; auto. Qed.

Lemma firstn_app_length {A} (l1 l2 : list A) : firstn (length l1) (l1 ++ l2) = l1.
Proof. induction l1; cbn; congruence. Qed.

Lemma tlv_open_tlv tg c content rest : tag_good tg -> zlen content <= rssize_max ->
  tlv_open (tlv tg c content ++ rest) = Some (tg, c, zlen content, content ++ rest).
Proof.
  intros Hg Hl. unfold tlv. rewrite <- !app_assoc.
  destruct (tag_bytes_fetch tg c (len_serialize (zlen content) ++ content ++ rest) Hg)
    as (Hf & b & tl & Hb & Hc & Hpos).
  unfold tlv_open. rewrite Hb. rewrite <- Hb. rewrite Hf. rewrite Hc.
  rewrite skipn_app_length.
  rewrite (length_roundtrip (zlen content) (content ++ rest) c) by (pose proof (zlen_nonneg content); lia).
  rewrite skipn_app_length. reflexivity.
Qed.

Lemma in_prim_tlv {A} tg content rest (k : list Z -> option A) :
  tag_good tg -> zlen content <= rssize_max ->
  in_prim tg (tlv tg false content ++ rest) k =
  match k content with Some a => Some (a, rest) | None => None end.
Proof.
  intros Hg Hl. unfold in_prim. rewrite tlv_open_tlv by assumption.
  rewrite Z.eqb_refl. pose proof (zlen_nonneg content).
  destruct (0 <=? zlen content) eqn:E1; [|lia].
  rewrite zlen_app. destruct (zlen content <=? zlen content + zlen rest) eqn:E2;
    [|pose proof (zlen_nonneg rest); lia].
  cbn [andb]. unfold zlen. rewrite Nat2Z.id. rewrite firstn_app_length, skipn_app_length. reflexivity.
Qed.

Lemma in_cons_tlv {A} tg content rest (k : list Z -> option (A * list Z)) :
  tag_good tg -> zlen content <= rssize_max ->
  in_cons tg (tlv tg true content ++ rest) k =
  match k content with Some (a, []) => Some (a, rest) | _ => None end.
Proof.
  intros Hg Hl. unfold in_cons. rewrite tlv_open_tlv by assumption.
  rewrite Z.eqb_refl. pose proof (zlen_nonneg content).
  destruct (zlen content =? -1) eqn:E0; [lia|].
  rewrite zlen_app. destruct (zlen content <=? zlen content + zlen rest) eqn:E2;
    [|pose proof (zlen_nonneg rest); lia].
  unfold zlen. rewrite Nat2Z.id. rewrite firstn_app_length, skipn_app_length. reflexivity.
Qed.

Lemma tlv_length tg c content : zlen content <= zlen (tlv tg c content).
Proof. unfold tlv. rewrite !zlen_app. pose proof (zlen_nonneg (tag_bytes tg c)).
  pose proof (zlen_nonneg (len_serialize (zlen content))). lia. Qed.

Lemma peek_tag_tlv tg c content rest : tag_good tg ->
  peek_tag (tlv tg c content ++ rest) = Some tg.
Proof.
  intros Hg. unfold peek_tag, tlv. rewrite <- !app_assoc.
  destruct (tag_bytes_fetch tg c (len_serialize (zlen content) ++ content ++ rest) Hg) as (Hf & _).
  rewrite Hf. reflexivity.
Qed.

Lemma tlv_not_at_end tg c content rest : tag_good tg -> at_end (tlv tg c content ++ rest) = false.
Proof.
  intros Hg. unfold tlv. rewrite <- !app_assoc.
  destruct (tag_bytes_fetch tg c (len_serialize (zlen content) ++ content ++ rest) Hg)
    as (_ & b & tl & Hb & _ & Hpos).
  rewrite Hb. unfold at_end. destruct tl; [reflexivity|].
  destruct (b =? 0) eqn:E; [lia|reflexivity].
Qed.

(* ---------------- the main induction ---------------- *)

Lemma tag_in_In tg l : tag_in tg l = true <-> In tg l.
Proof.
  unfold tag_in. rewrite existsb_exists. split.
  - intros (x & Hx & E). apply Z.eqb_eq in E. subst. exact Hx.
  - intros H. exists tg. split; [exact H|apply Z.eqb_refl].
Qed.

Lemma disjointb_spec a b x : disjointb a b = true -> In x a -> In x b -> False.
Proof.
  unfold disjointb. rewrite forallb_forall. intros H Ha Hb.
  specialize (H x Ha). apply negb_true_iff in H.
  apply tag_in_In in Hb. congruence.
Qed.

Lemma wf_tag_good tg : (0 <? tg) && (tg / 4 <? two30) = true -> tag_good tg.
Proof. unfold tag_good. lia. Qed.

(* a non-optional type's encoding is a TLV whose tag is one of its first tags *)
Lemma der_head t : forall v bs, wf_ty t = true -> not_opt t = true -> der t v = Some bs ->
  exists tg c content, bs = tlv tg c content /\ tag_good tg /\ In tg (first_tags t).
Proof.
  induction t using ty_ind'; intros v bs Hwf Hno Hd; cbn [wf_ty] in Hwf; cbn [first_tags].
  - destruct v; try discriminate. injection Hd as <-. eauto 7 using wf_tag_good, in_eq.
  - destruct v; try discriminate. injection Hd as <-. eauto 7 using wf_tag_good, in_eq.
  - destruct v; try discriminate. injection Hd as <-. eauto 7 using wf_tag_good, in_eq.
  - destruct v; try discriminate. injection Hd as <-. eauto 7 using wf_tag_good, in_eq.
  - destruct v; try discriminate. cbn [der] in Hd.
    destruct (enc_members der ms vs); [|discriminate]. injection Hd as <-.
    apply andb_true_iff in Hwf. destruct Hwf as [Hwf _].
    apply andb_true_iff in Hwf. destruct Hwf as [Hwf _].
    eauto 7 using wf_tag_good, in_eq.
  - destruct v; try discriminate. cbn [der] in Hd.
    destruct (option_all (map (der t) vs)); [|discriminate]. injection Hd as <-.
    apply andb_true_iff in Hwf. destruct Hwf as [Hwf _].
    apply andb_true_iff in Hwf. destruct Hwf as [Hwf _].
    eauto 7 using wf_tag_good, in_eq.
  - destruct v; try discriminate. cbn [der] in Hd.
    destruct (option_all (map (der t) vs)); [|discriminate]. injection Hd as <-.
    apply andb_true_iff in Hwf. destruct Hwf as [Hwf _].
    apply andb_true_iff in Hwf. destruct Hwf as [Hwf _].
    eauto 7 using wf_tag_good, in_eq.
  - destruct v; try discriminate. cbn [der] in Hd.
    apply andb_true_iff in Hwf. destruct Hwf as [Hwf _].
    apply andb_true_iff in Hwf. destruct Hwf as [Hwf _].
    apply andb_true_iff in Hwf. destruct Hwf as [Hwf1 Hwf2].
    clear Hno. revert i Hd. induction H as [|a r Ha Hr IHr]; intros i Hd; [destruct i; discriminate|].
    cbn [forallb] in Hwf1, Hwf2.
    apply andb_true_iff in Hwf1. destruct Hwf1 as [Hw1 Hw1r].
    apply andb_true_iff in Hwf2. destruct Hwf2 as [Hw2 Hw2r].
    destruct i; cbn [enc_alt] in Hd.
    + destruct (Ha v bs Hw1 Hw2 Hd) as (tg & c & content & E & Hg & Hin).
      exists tg, c, content. split; [exact E|]. split; [exact Hg|].
      cbn [flat_map]. apply in_or_app. left. exact Hin.
    + destruct (IHr Hw1r Hw2r i Hd) as (tg & c & content & E & Hg & Hin).
      exists tg, c, content. split; [exact E|]. split; [exact Hg|].
      cbn [flat_map]. apply in_or_app. right. exact Hin.
  - cbn [der] in Hd. destruct (der t v); [|discriminate]. injection Hd as <-.
    apply andb_true_iff in Hwf. destruct Hwf as [Hwf _].
    apply andb_true_iff in Hwf. destruct Hwf as [Hwf _].
    eauto 7 using wf_tag_good, in_eq.
  - discriminate.
Qed.

Definition opt_ok (t : ty) (v : val) (rest : list Z) : Prop :=
  match t, v with
  | TOpt t', VNone =>
      match peek_tag rest with
      | Some tg => tag_in tg (first_tags t') = false
      | None => True
      end
  | _, _ => True
  end.

Definition RT (t : ty) : Prop := forall v bs rest,
  wf_ty t = true -> wt t v = true -> der t v = Some bs -> zlen bs <= rssize_max ->
  opt_ok t v rest -> ber_dec t (bs ++ rest) = Some (v, rest).

(* what a member list's encoding starts with *)
Lemma members_head ms : forall vs c rest,
  forallb wf_ty ms = true -> enc_members der ms vs = Some c ->
  match peek_tag (c ++ rest) with
  | Some tg => c = [] \/ In tg (run_tags ms)
  | None => True
  end.
Proof.
  induction ms as [|m ms' IH]; intros vs c rest Hwf He; destruct vs as [|v vs']; cbn [enc_members] in He; try discriminate.
  - injection He as <-. cbn [app]. destruct (peek_tag rest); auto.
  - cbn [forallb] in Hwf. apply andb_true_iff in Hwf. destruct Hwf as [Hw Hwr].
    destruct (der m v) as [a|] eqn:Ea; [|discriminate].
    destruct (enc_members der ms' vs') as [b|] eqn:Eb; [|discriminate]. injection He as <-.
    cbn [run_tags].
    destruct (is_opt m) eqn:Eo.
    + (* optional member: absent gives [], present gives its TLV *)
      destruct m; try discriminate. cbn [der] in Ea. destruct v; try discriminate.
      * injection Ea as <-. cbn [app]. specialize (IH vs' b rest Hwr Eb).
        destruct (peek_tag (b ++ rest)); auto. destruct IH as [->|Hin]; [left; reflexivity|].
        right. apply in_or_app. right. exact Hin.
      * cbn [wf_ty] in Hw. apply andb_true_iff in Hw. destruct Hw as [Hw1 Hw2].
        destruct (der_head m v a Hw1 Hw2 Ea) as (tg & cc & content & -> & Hg & Hin).
        rewrite <- app_assoc. rewrite peek_tag_tlv by exact Hg.
        right. cbn [first_tags]. apply in_or_app. left. exact Hin.
    + assert (Hno : not_opt m = true) by (unfold not_opt; rewrite Eo; reflexivity).
      destruct (der_head m v a Hw Hno Ea) as (tg & cc & content & -> & Hg & Hin).
      rewrite <- app_assoc. rewrite peek_tag_tlv by exact Hg.
      right. rewrite app_nil_r. exact Hin.
Qed.

Lemma peek_tag_nil : peek_tag [] = None.
Proof. reflexivity. Qed.

Lemma members_rt ms : Forall RT ms -> forall vs c,
  forallb wf_ty ms = true -> run_distinct ms = true ->
  wt (TSeq 0 ms) (VSeq vs) = true -> enc_members der ms vs = Some c -> zlen c <= rssize_max ->
  dec_members ber_dec ms c = Some (vs, []).
Proof.
  induction 1 as [|m ms' Hm Hms IH]; intros vs c Hwf Hrd Hwt He Hl;
    destruct vs as [|v vs']; cbn [enc_members] in He; try discriminate.
  - injection He as <-. reflexivity.
  - cbn [forallb] in Hwf. apply andb_true_iff in Hwf. destruct Hwf as [Hw Hwr].
    cbn [run_distinct] in Hrd. apply andb_true_iff in Hrd. destruct Hrd as [Hd1 Hdr].
    cbn [wt] in Hwt. apply andb_true_iff in Hwt. destruct Hwt as [Hwt1 Hwtr].
    destruct (der m v) as [a|] eqn:Ea; [|discriminate].
    destruct (enc_members der ms' vs') as [b|] eqn:Eb; [|discriminate]. injection He as <-.
    rewrite zlen_app in Hl. pose proof (zlen_nonneg a). pose proof (zlen_nonneg b).
    cbn [dec_members].
    rewrite (Hm v a b Hw Hwt1 Ea ltac:(lia)).
    + rewrite (IH vs' b Hwr Hdr Hwtr Eb ltac:(lia)). reflexivity.
    + (* an absent OPTIONAL member: what follows does not start with one of its tags *)
      unfold opt_ok. destruct m; auto. destruct v; auto.
      pose proof (members_head ms' vs' b [] Hwr Eb) as Hh. rewrite app_nil_r in Hh.
      destruct (peek_tag b) as [tg|] eqn:Ep; [|exact I].
      destruct Hh as [->|Hin]; [rewrite peek_tag_nil in Ep; discriminate|].
      cbn [is_opt] in Hd1. cbn [first_tags] in Hd1.
      destruct (tag_in tg (first_tags m)) eqn:Et; [|reflexivity].
      apply tag_in_In in Et. exfalso. eapply disjointb_spec; eauto.
Qed.

Lemma option_all_map_cons {A B} (f : A -> option B) x xs r :
  option_all (map f (x :: xs)) = Some r ->
  exists a r', f x = Some a /\ option_all (map f xs) = Some r' /\ r = a :: r'.
Proof.
  cbn [map option_all]. destruct (f x); [|discriminate].
  destruct (option_all (map f xs)); [|discriminate]. intros H. injection H as <-. eauto.
Qed.

Lemma elems_rt e : RT e -> wf_ty e = true -> not_opt e = true -> forall vs cs fuel,
  forallb (wt e) vs = true -> option_all (map (der e) vs) = Some cs ->
  zlen (concat cs) <= rssize_max -> (length vs < fuel)%nat ->
  dec_until (ber_dec e) at_end fuel (concat cs) = Some (vs, []).
Proof.
  intros He Hw Hno. induction vs as [|v vs' IH]; intros cs fuel Hwt Ho Hl Hf.
  - cbn in Ho. injection Ho as <-. destruct fuel; [lia|]. reflexivity.
  - apply option_all_map_cons in Ho. destruct Ho as (a & cs' & Ea & Eo & ->).
    cbn [forallb] in Hwt. apply andb_true_iff in Hwt. destruct Hwt as [Hwt1 Hwtr].
    cbn [concat] in *. rewrite zlen_app in Hl.
    pose proof (zlen_nonneg a). pose proof (zlen_nonneg (concat cs')).
    destruct fuel as [|f]; [lia|]. cbn [dec_until].
    destruct (der_head e v a Hw Hno Ea) as (tg & cc & content & Etlv & Hg & _).
    rewrite Etlv at 1. rewrite tlv_not_at_end by exact Hg. try rewrite <- Etlv.
    rewrite (He v a (concat cs') Hw Hwt1 Ea ltac:(lia)).
    + rewrite (IH cs' f Hwtr Eo ltac:(lia) ltac:(cbn [length] in Hf; lia)). reflexivity.
    + unfold opt_ok. destruct e; auto. discriminate.
Qed.

Lemma alts_rt alts : Forall RT alts -> forall i k v bs rest tg,
  forallb wf_ty alts = true -> forallb not_opt alts = true -> alts_distinct alts = true ->
  wt (TChoice alts) (VChoice i v) = true -> enc_alt der v alts i = Some bs ->
  zlen bs <= rssize_max ->
  peek_tag (bs ++ rest) = Some tg ->
  dec_alt ber_dec (fun _ a => tag_in tg (first_tags a)) (bs ++ rest) alts k
  = Some (VChoice (k + i) v, rest).
Proof.
  induction 1 as [|a r Ha Hr IH]; intros i k v bs rest tg Hwf Hno Hdis Hwt He Hl Hp;
    [destruct i; discriminate|].
  cbn [forallb] in Hwf, Hno. apply andb_true_iff in Hwf. destruct Hwf as [Hw Hwr].
  apply andb_true_iff in Hno. destruct Hno as [Hn Hnr].
  cbn [alts_distinct] in Hdis. apply andb_true_iff in Hdis. destruct Hdis as [Hd Hdr].
  cbn [dec_alt]. destruct i as [|j]; cbn [enc_alt] in He; cbn [wt] in Hwt.
  - destruct (der_head a v bs Hw Hn He) as (tg' & cc & content & Etlv & Hg & Hin).
    assert (tg' = tg).
    { rewrite Etlv in Hp. rewrite peek_tag_tlv in Hp by exact Hg. congruence. }
    subst tg'. apply tag_in_In in Hin. rewrite Hin.
    rewrite (Ha v bs rest Hw Hwt He Hl).
    + replace (k + 0)%nat with k by lia. reflexivity.
    + unfold opt_ok. destruct a; auto. discriminate.
  - (* the tag belongs to a later alternative: not to this one *)
    assert (Hnot : tag_in tg (first_tags a) = false).
    { destruct (tag_in tg (first_tags a)) eqn:Et; [|reflexivity]. exfalso.
      apply tag_in_In in Et.
      (* find the alternative j in r and its head tag *)
      clear IH Ha. revert j He Hwt. clear Hr.
      induction r as [|b r' IHr]; intros j He Hwt; [destruct j; discriminate|].
      cbn [forallb] in Hwr, Hnr, Hd. apply andb_true_iff in Hwr. destruct Hwr as [Hwb Hwr'].
      apply andb_true_iff in Hnr. destruct Hnr as [Hnb Hnr'].
      apply andb_true_iff in Hd. destruct Hd as [Hdb Hd'].
      cbn [alts_distinct] in Hdr. apply andb_true_iff in Hdr. destruct Hdr as [_ Hdr'].
      destruct j; cbn [enc_alt] in He.
      - destruct (der_head b v bs Hwb Hnb He) as (tg' & cc & content & Etlv & Hg & Hin).
        rewrite Etlv in Hp. rewrite peek_tag_tlv in Hp by exact Hg. injection Hp as ->.
        eapply disjointb_spec; eauto.
      - eapply IHr; eauto. }
    rewrite Hnot.
    rewrite (IH j (S k) v bs rest tg Hwr Hnr Hdr Hwt He Hl Hp).
    replace (S k + j)%nat with (k + S j)%nat by lia. reflexivity.
Qed.

Lemma sorted_flag cs : (if list_eq_dec (list_eq_dec Z.eq_dec) (sort_encodings cs) cs then true else false) = true ->
  sort_encodings cs = cs.
Proof. destruct (list_eq_dec _ _ _); [auto|discriminate]. Qed.

Theorem der_decodes_all t : RT t.
Proof.
  induction t using ty_ind'; intros v bs rest Hwf Hwt Hd Hl Hok; cbn [wf_ty] in Hwf.
  - (* BOOLEAN *)
    destruct v; try discriminate. injection Hd as <-. cbn [ber_dec].
    pose proof (tlv_length tg false [if b then 255 else 0]).
    rewrite in_prim_tlv by (try apply wf_tag_good; auto; lia).
    destruct b; reflexivity.
  - destruct v; try discriminate. injection Hd as <-. cbn [ber_dec].
    pose proof (tlv_length tg false []).
    rewrite in_prim_tlv by (try apply wf_tag_good; auto; lia). reflexivity.
  - (* INTEGER *)
    destruct v; try discriminate. injection Hd as <-. cbn [ber_dec].
    cbn [wt] in Hwt. unfold fits_long in Hwt.
    destruct (imax2INTEGER_canonical z ltac:(lia)) as (Hv & _ & _ & Hne).
    pose proof (tlv_length tg false (imax2INTEGER z)).
    rewrite in_prim_tlv by (try apply wf_tag_good; auto; lia).
    destruct (imax2INTEGER z) eqn:E; [congruence|]. rewrite Hv.
    unfold fits_long. destruct ((- two63 <=? z) && (z <? two63)) eqn:E2; [reflexivity|lia].
  - destruct v; try discriminate. injection Hd as <-. cbn [ber_dec].
    pose proof (tlv_length tg false bs0).
    rewrite in_prim_tlv by (try apply wf_tag_good; auto; lia). reflexivity.
  - (* SEQUENCE *)
    destruct v; try discriminate. cbn [der] in Hd.
    destruct (enc_members der ms vs) as [c|] eqn:Ec; [|discriminate]. injection Hd as <-.
    apply andb_true_iff in Hwf. destruct Hwf as [Hwf Hrd].
    apply andb_true_iff in Hwf. destruct Hwf as [Htg Hwm].
    cbn [ber_dec]. pose proof (tlv_length tg true c).
    rewrite in_cons_tlv by (try apply wf_tag_good; auto; lia).
    rewrite (members_rt ms H vs c Hwm Hrd Hwt Ec ltac:(lia)). reflexivity.
  - (* SEQUENCE OF *)
    destruct v; try discriminate. cbn [der] in Hd.
    destruct (option_all (map (der t) vs)) as [cs|] eqn:Ec; [|discriminate]. injection Hd as <-.
    apply andb_true_iff in Hwf. destruct Hwf as [Hwf Hno].
    apply andb_true_iff in Hwf. destruct Hwf as [Htg Hwe].
    cbn [ber_dec]. pose proof (tlv_length tg true (concat cs)).
    rewrite in_cons_tlv by (try apply wf_tag_good; auto; lia).
    cbn [wt] in Hwt.
    assert (Hlen : (length vs <= length (concat cs))%nat).
    { clear - Ec Hwe Hno. revert cs Ec. induction vs as [|v vs' IH]; intros cs Ec; [cbn; lia|].
      apply option_all_map_cons in Ec. destruct Ec as (a & cs' & Ea & Eo & ->).
      destruct (der_head t v a Hwe Hno Ea) as (tg & cc & content & -> & Hg & _).
      cbn [concat length]. rewrite app_length. specialize (IH cs' Eo).
      unfold tlv. rewrite !app_length.
      destruct (tag_serialize_head tg Hg) as (b & tl & Hs & _).
      unfold tag_bytes. rewrite Hs. destruct cc; cbn [length]; lia. }
    rewrite (elems_rt t IHt Hwe Hno vs cs (S (length (concat cs))) Hwt Ec ltac:(lia) ltac:(lia)).
    reflexivity.
  - (* SET OF: stored in encoding order *)
    destruct v; try discriminate. cbn [der] in Hd. cbn [wt] in Hwt.
    apply andb_true_iff in Hwt. destruct Hwt as [Hwt Hsorted].
    destruct (option_all (map (der t) vs)) as [cs|] eqn:Ec; [|discriminate]. injection Hd as <-.
    apply sorted_flag in Hsorted. rewrite Hsorted in *.
    apply andb_true_iff in Hwf. destruct Hwf as [Hwf Hno].
    apply andb_true_iff in Hwf. destruct Hwf as [Htg Hwe].
    cbn [ber_dec]. pose proof (tlv_length tg true (concat cs)).
    rewrite in_cons_tlv by (try apply wf_tag_good; auto; lia).
    assert (Hlen : (length vs <= length (concat cs))%nat).
    { clear - Ec Hwe Hno. revert cs Ec. induction vs as [|v vs' IH]; intros cs Ec; [cbn; lia|].
      apply option_all_map_cons in Ec. destruct Ec as (a & cs' & Ea & Eo & ->).
      destruct (der_head t v a Hwe Hno Ea) as (tg & cc & content & -> & Hg & _).
      cbn [concat length]. rewrite app_length. specialize (IH cs' Eo).
      unfold tlv. rewrite !app_length.
      destruct (tag_serialize_head tg Hg) as (b & tl & Hs & _).
      unfold tag_bytes. rewrite Hs. destruct cc; cbn [length]; lia. }
    rewrite (elems_rt t IHt Hwe Hno vs cs (S (length (concat cs))) Hwt Ec ltac:(lia) ltac:(lia)).
    reflexivity.
  - (* CHOICE *)
    destruct v; try discriminate. cbn [der] in Hd.
    apply andb_true_iff in Hwf. destruct Hwf as [Hwf _].
    apply andb_true_iff in Hwf. destruct Hwf as [Hwf Hdis].
    apply andb_true_iff in Hwf. destruct Hwf as [Hwa Hno].
    cbn [ber_dec].
    assert (Hhead : exists tg, peek_tag (bs ++ rest) = Some tg).
    { assert (Hn : not_opt (TChoice alts) = true) by reflexivity.
      assert (Hw : wf_ty (TChoice alts) = true).
      { cbn [wf_ty]. rewrite Hwa, Hno, Hdis. cbn [andb].
        destruct alts; [destruct i; discriminate|reflexivity]. }
      destruct (der_head (TChoice alts) (VChoice i v) bs Hw Hn Hd) as (tg & cc & content & -> & Hg & _).
      exists tg. apply peek_tag_tlv. exact Hg. }
    destruct Hhead as [tg Hp]. rewrite Hp.
    rewrite (alts_rt alts H i O v bs rest tg Hwa Hno Hdis Hwt Hd Hl Hp). reflexivity.
  - (* EXPLICIT tag *)
    cbn [der] in Hd. destruct (der t v) as [c|] eqn:Ec; [|discriminate]. injection Hd as <-.
    apply andb_true_iff in Hwf. destruct Hwf as [Hwf Hno].
    apply andb_true_iff in Hwf. destruct Hwf as [Htg Hwt'].
    cbn [ber_dec]. pose proof (tlv_length tg true c).
    rewrite in_cons_tlv by (try apply wf_tag_good; auto; lia).
    cbn [wt] in Hwt.
    pose proof (IHt v c [] Hwt' Hwt Ec ltac:(lia)) as Hr. rewrite app_nil_r in Hr.
    rewrite Hr; [reflexivity|]. unfold opt_ok. destruct t; auto. discriminate.
  - (* OPTIONAL *)
    apply andb_true_iff in Hwf. destruct Hwf as [Hw Hno].
    destruct v; try discriminate; cbn [der] in Hd; cbn [ber_dec].
    + injection Hd as <-. cbn [app]. unfold opt_ok in Hok.
      destruct (peek_tag rest); [rewrite Hok|]; reflexivity.
    + cbn [wt] in Hwt.
      destruct (der_head t v bs Hw Hno Hd) as (tg & cc & content & Etlv & Hg & Hin).
      rewrite Etlv at 1. rewrite peek_tag_tlv by exact Hg. try rewrite <- Etlv.
      apply tag_in_In in Hin. rewrite Hin.
      rewrite (IHt v bs rest Hw Hwt Hd Hl); [reflexivity|].
      unfold opt_ok. destruct t; auto. discriminate.
Qed.

(* C01 for DER/BER on the model: decoding what the encoder produced returns
   RC_OK, the same value, and consumes exactly the bytes produced *)
Theorem der_roundtrip t v bs :
  wf_ty t = true -> not_opt t = true -> wt t v = true -> der t v = Some bs ->
  zlen bs <= rssize_max -> ber_decode t bs = Some (v, zlen bs).
Proof.
  intros Hwf Hno Hwt Hd Hl. unfold ber_decode.
  pose proof (der_decodes_all t v bs [] Hwf Hwt Hd Hl) as H. rewrite app_nil_r in H.
  rewrite H; [|unfold opt_ok; destruct t; auto; discriminate].
  f_equal. f_equal. unfold zlen. cbn [length]. lia.
Qed.
