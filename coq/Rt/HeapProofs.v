(* Rt/HeapProofs.v — C14: theorems about the ownership model of Rt/Heap.v.
   free_exact      the FREEMEM events of a free_struct method are a permutation of what the
                   structure owns (with the struct block itself iff the method is FREE_EVERYTHING);
   owned_nodup     no block is owned twice (so "permutation" means: each exactly once);
   free_balanced   run on the ledger: ASN_STRUCT_FREE of a structure whose blocks are live
                   never frees a dead or foreign block and leaves nothing of it live;
   reset_balanced  ASN_STRUCT_RESET leaves exactly the top block live;
   reset_is_fresh  the zeroed structure is the one CALLOC gives, and it owns nothing;
   shape_of_val    the structure a decode of a well-typed value builds is laid out for its type. *)
From Coq Require Import ZArith List Bool Lia Permutation.
From A1 Require Import Rt.Types Rt.TypesInd Rt.Heap.
Import ListNotations.

(* ------------------------------------------------------------------ free_exact *)

Lemma walk_members_perm : forall A B (f : ty -> A -> path -> sv -> list block)
    (g : ty -> B -> path -> sv -> list block) (a : A) (a' : B) ms,
  Forall (fun t => forall p s, Permutation (f t a p s) (g t a' p s)) ms ->
  forall p i ss, Permutation (walk_members f a p ms i ss) (walk_members g a' p ms i ss).
Proof.
  intros A B f g a a' ms H; induction H as [|m ms' Hm _ IH]; intros p i ss.
  - destruct ss; apply perm_nil.
  - destruct ss as [|s ss']; [apply perm_nil|]. cbn.
    apply Permutation_app; [apply Hm | apply IH].
Qed.

Lemma walk_elems_perm : forall (g1 g2 : path -> sv -> list block),
  (forall p s, Permutation (g1 p s) (g2 p s)) ->
  forall els p i, Permutation (walk_elems g1 p i els) (walk_elems g2 p i els).
Proof.
  intros g1 g2 H; induction els as [|s r IH]; intros p i; cbn.
  - apply perm_nil.
  - apply Permutation_app; [apply H | apply IH].
Qed.

Lemma walk_alt_perm : forall A B (f : ty -> A -> path -> sv -> list block)
    (g : ty -> B -> path -> sv -> list block) (a : A) (a' : B) alts,
  Forall (fun t => forall p s, Permutation (f t a p s) (g t a' p s)) alts ->
  forall i q m, Permutation (walk_alt f a q m alts i) (walk_alt g a' q m alts i).
Proof.
  intros A B f g a a' alts H; induction H as [|t r Ht _ IH]; intros i q m.
  - destruct i; apply perm_nil.
  - destruct i; cbn; [apply Ht | apply IH].
Qed.

Theorem free_exact : forall t m p s,
  Permutation (free_model t m p s) (owned t (is_everything m) p s).
Proof.
  induction t using ty_ind'; intros m p s0.
  - destruct s0; cbn; apply Permutation_refl.
  - destruct s0; cbn; apply Permutation_refl.
  - destruct s0; cbn; try apply Permutation_refl. unfold fin. apply Permutation_app_comm.
  - destruct s0; cbn; try apply Permutation_refl. unfold fin. apply Permutation_app_comm.
  - destruct s0; cbn; try apply Permutation_refl. unfold fin.
    eapply perm_trans; [apply Permutation_app_comm|].
    rewrite (app_assoc (box _ _)).
    apply Permutation_app; [apply Permutation_app_comm|].
    apply (walk_members_perm _ _ free_model owned FreeUnderlying false).
    eapply Forall_impl; [|exact H]. intros t Ht q s'. apply (Ht FreeUnderlying).
  - destruct s0; cbn; try apply Permutation_refl. unfold fin.
    eapply perm_trans; [apply Permutation_app_comm|].
    rewrite (app_assoc (box _ _)).
    apply Permutation_app; [apply Permutation_app_comm|].
    apply walk_elems_perm. intros q s'. apply (IHt FreeEverything).
  - destruct s0; cbn; try apply Permutation_refl. unfold fin.
    eapply perm_trans; [apply Permutation_app_comm|].
    rewrite (app_assoc (box _ _)).
    apply Permutation_app; [apply Permutation_app_comm|].
    apply walk_elems_perm. intros q s'. apply (IHt FreeEverything).
  - destruct s0; cbn; try apply Permutation_refl. unfold fin.
    eapply perm_trans; [apply Permutation_app_comm|].
    apply Permutation_app_head.
    destruct present as [|i]; [apply perm_nil|].
    apply (walk_alt_perm _ _ free_model owned FreeUnderlying false).
    eapply Forall_impl; [|exact H]. intros t Ht q s'. apply (Ht FreeUnderlying).
  - cbn. destruct s0; apply IHt.
  - destruct s0; cbn; try apply Permutation_refl.
    destruct p0 as [s'|]; [apply (IHt FreeEverything) | apply perm_nil].
Qed.

(* ------------------------------------------------------------------ positions *)

Definition under (p : path) (b : block) : Prop := exists q, fst b = q ++ p.

Lemma under_self : forall p k, under p (p, k).
Proof. intros p k; exists []; reflexivity. Qed.

Lemma under_child : forall i p b, under (i :: p) b -> under p b.
Proof.
  intros i p b [q Hq]. exists (q ++ [i]). rewrite Hq, <- app_assoc. reflexivity.
Qed.

Lemma under_child_neq : forall i p b, under (i :: p) b -> fst b <> p.
Proof.
  intros i p b [q Hq] E. rewrite E in Hq.
  apply (f_equal (@length nat)) in Hq. rewrite app_length in Hq. cbn in Hq. lia.
Qed.

Lemma under_sibling : forall i j p b, under (i :: p) b -> under (j :: p) b -> i = j.
Proof.
  intros i j p b [q1 H1] [q2 H2]. rewrite H1 in H2.
  apply (f_equal (@rev nat)) in H2. rewrite !rev_app_distr in H2. cbn in H2.
  rewrite <- !app_assoc in H2. apply app_inv_head in H2. cbn in H2. congruence.
Qed.

Lemma walk_members_under : forall A (f : ty -> A -> path -> sv -> list block) (a : A) ms,
  Forall (fun t => forall p s blk, In blk (f t a p s) -> under p blk) ms ->
  forall p i ss blk, In blk (walk_members f a p ms i ss) -> exists k, (i <= k)%nat /\ under (k :: p) blk.
Proof.
  intros A f a ms H; induction H as [|m ms' Hm _ IH]; intros p i ss blk Hin.
  - destruct ss; contradiction.
  - destruct ss as [|s ss']; [contradiction|]. cbn in Hin. apply in_app_or in Hin as [Hin|Hin].
    + exists i. split; [lia | eapply Hm; exact Hin].
    + apply IH in Hin as [k [Hk Hu]]. exists k. split; [lia | exact Hu].
Qed.

Lemma walk_elems_under : forall (g : path -> sv -> list block),
  (forall p s blk, In blk (g p s) -> under p blk) ->
  forall els p i blk, In blk (walk_elems g p i els) -> exists k, (i <= k)%nat /\ under (k :: p) blk.
Proof.
  intros g H; induction els as [|s r IH]; intros p i blk Hin; [contradiction|].
  cbn in Hin. apply in_app_or in Hin as [Hin|Hin].
  - exists i. split; [lia | eapply H; exact Hin].
  - apply IH in Hin as [k [Hk Hu]]. exists k. split; [lia | exact Hu].
Qed.

Lemma walk_alt_under : forall A (f : ty -> A -> path -> sv -> list block) (a : A) alts,
  Forall (fun t => forall p s blk, In blk (f t a p s) -> under p blk) alts ->
  forall i q m blk, In blk (walk_alt f a q m alts i) -> under q blk.
Proof.
  intros A f a alts H; induction H as [|t r Ht _ IH]; intros i q m blk Hin.
  - destruct i; contradiction.
  - destruct i; cbn in Hin; [eapply Ht; exact Hin | eapply IH; exact Hin].
Qed.

Lemma in_box : forall b p blk, In blk (box b p) -> blk = (p, KStruct).
Proof. intros [|] p blk H; cbn in H; [destruct H as [H|[]]; auto | contradiction]. Qed.
Lemma in_buf_block : forall buf p blk, In blk (buf_block buf p) -> blk = (p, KBuf).
Proof. intros [x|] p blk H; cbn in H; [destruct H as [H|[]]; auto | contradiction]. Qed.
Lemma in_arr_block : forall a p blk, In blk (arr_block a p) -> blk = (p, KArr).
Proof. intros [|] p blk H; cbn in H; [destruct H as [H|[]]; auto | contradiction]. Qed.
Lemma in_scr_block : forall a p blk, In blk (scr_block a p) -> blk = (p, KScratch).
Proof. intros [|] p blk H; cbn in H; [destruct H as [H|[]]; auto | contradiction]. Qed.

(* every block a structure at position p owns sits at p or below *)
Lemma owned_under : forall t b p s blk, In blk (owned t b p s) -> under p blk.
Proof.
  induction t using ty_ind'; intros b p s0 blk Hin.
  - destruct s0; cbn in Hin; try contradiction. apply in_box in Hin; subst; apply under_self.
  - destruct s0; cbn in Hin; try contradiction. apply in_box in Hin; subst; apply under_self.
  - destruct s0; cbn in Hin; try contradiction.
    + apply in_box in Hin; subst; apply under_self.
    + apply in_app_or in Hin as [Hin|Hin];
        [apply in_box in Hin | apply in_buf_block in Hin]; subst; apply under_self.
  - destruct s0; cbn in Hin; try contradiction. apply in_app_or in Hin as [Hin|Hin].
    + apply in_box in Hin; subst; apply under_self.
    + apply in_buf_block in Hin; subst; apply under_self.
  - destruct s0; cbn in Hin; try contradiction. apply in_app_or in Hin as [Hin|Hin];
      [apply in_box in Hin; subst; apply under_self|].
    apply in_app_or in Hin as [Hin|Hin]; [apply in_scr_block in Hin; subst; apply under_self|].
    apply (walk_members_under _ owned false ms) in Hin as [k [_ Hu]].
    + eapply under_child; exact Hu.
    + eapply Forall_impl; [|exact H]. intros t Ht q s' blk'. apply Ht.
  - destruct s0; cbn in Hin; try contradiction. apply in_app_or in Hin as [Hin|Hin];
      [apply in_box in Hin; subst; apply under_self|].
    apply in_app_or in Hin as [Hin|Hin]; [apply in_arr_block in Hin; subst; apply under_self|].
    apply walk_elems_under in Hin as [k [_ Hu]]; [eapply under_child; exact Hu|].
    intros q s' blk'. apply IHt.
  - destruct s0; cbn in Hin; try contradiction. apply in_app_or in Hin as [Hin|Hin];
      [apply in_box in Hin; subst; apply under_self|].
    apply in_app_or in Hin as [Hin|Hin]; [apply in_arr_block in Hin; subst; apply under_self|].
    apply walk_elems_under in Hin as [k [_ Hu]]; [eapply under_child; exact Hu|].
    intros q s' blk'. apply IHt.
  - destruct s0; cbn in Hin; try contradiction. apply in_app_or in Hin as [Hin|Hin];
      [apply in_box in Hin; subst; apply under_self|].
    destruct present as [|i]; [contradiction|].
    apply (walk_alt_under _ owned false alts) in Hin.
    + eapply under_child; exact Hin.
    + eapply Forall_impl; [|exact H]. intros t Ht q s' blk'. apply Ht.
  - cbn in Hin. destruct s0; eapply IHt; exact Hin.
  - destruct s0; cbn in Hin; try contradiction. destruct p0 as [s'|]; [|contradiction].
    eapply IHt; exact Hin.
Qed.

(* ------------------------------------------------------------------ owned_nodup *)

Lemma nodup_app : forall (l1 l2 : list block),
  NoDup l1 -> NoDup l2 -> (forall x, In x l1 -> In x l2 -> False) -> NoDup (l1 ++ l2).
Proof.
  induction l1 as [|a l1 IH]; intros l2 H1 H2 Hd; cbn; [exact H2|].
  inversion H1; subst. constructor.
  - intro Hin. apply in_app_or in Hin as [Hin|Hin]; [contradiction|].
    apply (Hd a); [left; reflexivity | exact Hin].
  - apply IH; auto. intros x Hx1 Hx2. apply (Hd x); [right; exact Hx1 | exact Hx2].
Qed.

(* blocks at the position itself, then blocks strictly below *)
Lemma nodup_top : forall (top rest : list block) p,
  NoDup top -> (forall x, In x top -> fst x = p) ->
  NoDup rest -> (forall x, In x rest -> exists k, under (k :: p) x) ->
  NoDup (top ++ rest).
Proof.
  intros top rest p Ht Htp Hr Hrp. apply nodup_app; auto.
  intros x Hx1 Hx2. apply Hrp in Hx2 as [k Hu]. apply under_child_neq in Hu.
  apply Hu. apply Htp. exact Hx1.
Qed.

Lemma nodup_box : forall b p, NoDup (box b p).
Proof. intros [|] p; cbn; [constructor; [intros [] | constructor] | constructor]. Qed.
Lemma box_at : forall b p x, In x (box b p) -> fst x = p.
Proof. intros b p x H; apply in_box in H; subst; reflexivity. Qed.

Lemma walk_members_nodup : forall ms,
  Forall (fun t => forall b p s, NoDup (owned t b p s)) ms ->
  forall p i ss, NoDup (walk_members owned false p ms i ss).
Proof.
  intros ms H; induction H as [|m ms' Hm Hms IH]; intros p i ss.
  - destruct ss; constructor.
  - destruct ss as [|s ss']; [constructor|]. cbn. apply nodup_app; [apply Hm | apply IH |].
    intros x Hx1 Hx2. apply owned_under in Hx1.
    apply (walk_members_under _ owned false ms') in Hx2 as [k [Hk Hu]].
    + assert (i = k) by (eapply under_sibling; eauto). lia.
    + apply Forall_forall. intros t _ q s' blk. apply owned_under.
Qed.

Lemma walk_elems_nodup : forall e,
  (forall b p s, NoDup (owned e b p s)) ->
  forall els p i, NoDup (walk_elems (owned e true) p i els).
Proof.
  intros e He; induction els as [|s r IH]; intros p i; cbn; [constructor|].
  apply nodup_app; [apply He | apply IH |].
  intros x Hx1 Hx2. apply owned_under in Hx1.
  apply walk_elems_under in Hx2 as [k [Hk Hu]].
  - assert (i = k) by (eapply under_sibling; eauto). lia.
  - intros q s' blk. apply owned_under.
Qed.

Lemma walk_alt_nodup : forall alts,
  Forall (fun t => forall b p s, NoDup (owned t b p s)) alts ->
  forall i q m, NoDup (walk_alt owned false q m alts i).
Proof.
  intros alts H; induction H as [|t r Ht _ IH]; intros i q m.
  - destruct i; constructor.
  - destruct i; cbn; [apply Ht | apply IH].
Qed.

Lemma nodup1 : forall (a : block), NoDup [a].
Proof. intros a. constructor; [intros [] | constructor]. Qed.
Lemma nodup2 : forall (a b : block), a <> b -> NoDup [a; b].
Proof.
  intros a b H. constructor; [|apply nodup1].
  intros [E|[]]. apply H. symmetry. exact E.
Qed.

Lemma nodup_list_top : forall b arr p, NoDup (box b p ++ arr_block arr p).
Proof.
  intros [|] [|] p; cbn; [apply nodup2; discriminate | apply nodup1 | apply nodup1 | constructor].
Qed.

Lemma nodup_seq_top : forall b scr p, NoDup (box b p ++ scr_block scr p).
Proof.
  intros [|] [|] p; cbn; [apply nodup2; discriminate | apply nodup1 | apply nodup1 | constructor].
Qed.

Lemma nodup_prim_top : forall b buf p, NoDup (box b p ++ buf_block buf p).
Proof.
  intros [|] [x|] p; cbn; [apply nodup2; discriminate | apply nodup1 | apply nodup1 | constructor].
Qed.

Theorem owned_nodup : forall t b p s, NoDup (owned t b p s).
Proof.
  induction t using ty_ind'; intros b p s0.
  - destruct s0; cbn; try constructor; apply nodup_box.
  - destruct s0; cbn; try constructor; apply nodup_box.
  - destruct s0; cbn; try constructor; [apply nodup_box | apply nodup_prim_top].
  - destruct s0; cbn; try constructor. apply nodup_prim_top.
  - destruct s0; cbn; try constructor. rewrite app_assoc.
    apply (nodup_top _ _ p); [apply nodup_seq_top | | apply walk_members_nodup; exact H |].
    { intros x Hx. apply in_app_or in Hx as [Hx|Hx];
        [apply in_box in Hx | apply in_scr_block in Hx]; subst; reflexivity. }
    intros x Hx. apply (walk_members_under _ owned false ms) in Hx as [k [_ Hu]]; [eauto|].
    apply Forall_forall. intros t _ q s' blk. apply owned_under.
  - destruct s0; cbn; try constructor. rewrite app_assoc.
    apply (nodup_top _ _ p); [apply nodup_list_top | | apply walk_elems_nodup; exact IHt |].
    + intros x Hx. apply in_app_or in Hx as [Hx|Hx];
        [apply in_box in Hx | apply in_arr_block in Hx]; subst; reflexivity.
    + intros x Hx. apply walk_elems_under in Hx as [k [_ Hu]]; [eauto|].
      intros q s' blk. apply owned_under.
  - destruct s0; cbn; try constructor. rewrite app_assoc.
    apply (nodup_top _ _ p); [apply nodup_list_top | | apply walk_elems_nodup; exact IHt |].
    + intros x Hx. apply in_app_or in Hx as [Hx|Hx];
        [apply in_box in Hx | apply in_arr_block in Hx]; subst; reflexivity.
    + intros x Hx. apply walk_elems_under in Hx as [k [_ Hu]]; [eauto|].
      intros q s' blk. apply owned_under.
  - destruct s0; cbn; try constructor.
    apply (nodup_top _ _ p); [apply nodup_box | apply box_at | |].
    + destruct present as [|i]; [constructor | apply walk_alt_nodup; exact H].
    + intros x Hx. destruct present as [|i]; [contradiction|].
      apply (walk_alt_under _ owned false alts) in Hx; [eauto|].
      apply Forall_forall. intros t _ q s' blk. apply owned_under.
  - cbn. destruct s0; apply IHt.
  - destruct s0; cbn; try constructor. destruct p0 as [s'|]; [apply IHt | constructor].
Qed.

Corollary free_each_once : forall t m p s, NoDup (free_model t m p s).
Proof.
  intros. eapply Permutation_NoDup; [apply Permutation_sym, free_exact | apply owned_nodup].
Qed.

(* ------------------------------------------------------------------ the ledger *)

Lemma remove_perm : forall e (l l' : list block),
  Permutation l l' -> Permutation (remove block_eq_dec e l) (remove block_eq_dec e l').
Proof.
  intros e l l' H; induction H; cbn.
  - apply perm_nil.
  - destruct (block_eq_dec e x); [exact IHPermutation | apply perm_skip; exact IHPermutation].
  - destruct (block_eq_dec e y), (block_eq_dec e x); try apply Permutation_refl. apply perm_swap.
  - eapply perm_trans; eauto.
Qed.

Lemma remove_notin : forall e (l : list block), ~ In e l -> remove block_eq_dec e l = l.
Proof.
  intros e l; induction l as [|a l IH]; intros Hn; cbn; [reflexivity|].
  destruct (block_eq_dec e a) as [E|E].
  - exfalso. apply Hn. left. symmetry. exact E.
  - f_equal. apply IH. intro Hin. apply Hn. right. exact Hin.
Qed.

Lemma remove_in : forall e x (l : list block), In x (remove block_eq_dec e l) -> In x l.
Proof.
  intros e x l; induction l as [|a l IH]; cbn; [auto|].
  destruct (block_eq_dec e a); cbn; intros H; [right; auto | destruct H; [left | right]; auto].
Qed.

Lemma remove_nodup : forall e (l : list block), NoDup l -> NoDup (remove block_eq_dec e l).
Proof.
  intros e l H; induction H as [|a l Hn Hd IH]; cbn; [constructor|].
  destruct (block_eq_dec e a); [exact IH|]. constructor; [|exact IH].
  intro Hin. apply Hn. eapply remove_in; exact Hin.
Qed.

(* freeing a sub-collection of the live blocks, each once: no violation, and the rest stays *)
Lemma run_frees_part : forall evs live rest,
  NoDup live -> Permutation (evs ++ rest) live ->
  exists l', run_frees live evs = Some l' /\ Permutation rest l'.
Proof.
  induction evs as [|e r IH]; intros live rest Hnd Hp; cbn.
  - exists live. split; [reflexivity | exact Hp].
  - assert (Hin : In e live) by (eapply Permutation_in; [exact Hp | left; reflexivity]).
    unfold ledger_free. destruct (in_dec block_eq_dec e live) as [_|Hn]; [|contradiction].
    assert (Hnd' : NoDup ((e :: r) ++ rest))
      by (eapply Permutation_NoDup; [apply Permutation_sym; exact Hp | exact Hnd]).
    cbn in Hnd'. inversion Hnd' as [|x l Hnotin Hrest]; subst.
    apply IH; [apply remove_nodup; exact Hnd|].
    apply (remove_perm e) in Hp. cbn in Hp.
    destruct (block_eq_dec e e) as [_|Ne]; [|contradiction].
    rewrite (remove_notin e (r ++ rest) Hnotin) in Hp. exact Hp.
Qed.

Theorem free_balanced : forall t p s,
  run_frees (owned t true p s) (free_model t FreeEverything p s) = Some [].
Proof.
  intros t p s.
  destruct (run_frees_part (free_model t FreeEverything p s) (owned t true p s) [])
    as [l' [Hr Hp]].
  - apply owned_nodup.
  - rewrite app_nil_r. apply (free_exact t FreeEverything).
  - apply Permutation_nil in Hp. subst. exact Hr.
Qed.

(* a structure that is a member pointer slot rather than a structure of its own *)
Fixpoint is_slot (t : ty) : bool :=
  match t with TOpt _ => true | TTag _ t' => is_slot t' | _ => false end.

Lemma owned_boxed : forall t p s, is_slot t = false -> shape t s = true ->
  owned t true p s = (p, KStruct) :: owned t false p s.
Proof.
  induction t; intros p s0 Hs Hsh; cbn in Hs; try discriminate;
    try (destruct s0; cbn in Hsh; try discriminate; reflexivity).
  cbn. apply IHt; [exact Hs|]. cbn in Hsh. destruct s0; exact Hsh.
Qed.

Theorem reset_balanced : forall t p s, is_slot t = false -> shape t s = true ->
  run_frees (owned t true p s) (free_model t FreeUnderlyingAndReset p s) = Some [(p, KStruct)] /\
  run_frees (owned t true p s) (free_model t FreeUnderlying p s) = Some [(p, KStruct)].
Proof.
  intros t p s Hs Hsh.
  assert (G : forall m, is_everything m = false ->
              run_frees (owned t true p s) (free_model t m p s) = Some [(p, KStruct)]).
  { intros m Hm.
    destruct (run_frees_part (free_model t m p s) (owned t true p s) [(p, KStruct)]) as [l' [Hr Hp]].
    - apply owned_nodup.
    - rewrite (owned_boxed t p s Hs Hsh).
      eapply perm_trans; [apply Permutation_app_comm|]. cbn. apply perm_skip.
      pose proof (free_exact t m p s) as F. rewrite Hm in F. exact F.
    - apply Permutation_length_1_inv in Hp. subst. exact Hr. }
  split; apply G; reflexivity.
Qed.

(* ------------------------------------------------------------------ reset_is_fresh *)

Lemma memset0_members : forall ms,
  Forall (fun t => forall s, shape t s = true -> memset0 s = zero t) ms ->
  forall ss, shape_members shape ms ss = true -> map memset0 ss = map zero ms.
Proof.
  intros ms H; induction H as [|m ms' Hm _ IH]; intros ss Hsh.
  - destruct ss; [reflexivity | discriminate].
  - destruct ss as [|s ss']; [discriminate|]. cbn in Hsh. apply andb_true_iff in Hsh as [H1 H2].
    cbn. f_equal; [apply Hm; exact H1 | apply IH; exact H2].
Qed.

Lemma memset0_is_zero : forall t s, shape t s = true -> memset0 s = zero t.
Proof.
  induction t using ty_ind'; intros s0 Hsh;
    try (destruct s0; cbn in Hsh; try discriminate; reflexivity).
  - destruct s0; cbn in Hsh; try discriminate; cbn.
    + rewrite Hsh. reflexivity.
    + apply negb_true_iff in Hsh. rewrite Hsh. reflexivity.
  - destruct s0; cbn in Hsh; try discriminate. cbn. f_equal. apply memset0_members; assumption.
  - cbn. apply IHt. cbn in Hsh. destruct s0; exact Hsh.
Qed.

Lemma zero_members_own_nothing : forall ms,
  Forall (fun t => forall p, owned t false p (zero t) = []) ms ->
  forall p i, walk_members owned false p ms i (map zero ms) = [].
Proof.
  intros ms H; induction H as [|m ms' Hm _ IH]; intros p i; cbn; [reflexivity|].
  rewrite Hm, IH. reflexivity.
Qed.

Lemma zero_owns_nothing : forall t p, owned t false p (zero t) = [].
Proof.
  induction t using ty_ind'; intros p; cbn; try reflexivity.
  - destruct (int_native c); reflexivity.
  - apply zero_members_own_nothing; assumption.
  - apply IHt.
Qed.

Lemma zero_members_shape : forall ms,
  Forall (fun t => shape t (zero t) = true) ms -> shape_members shape ms (map zero ms) = true.
Proof.
  intros ms H; induction H as [|m ms' Hm _ IH]; cbn; [reflexivity|]. rewrite Hm, IH. reflexivity.
Qed.

Lemma zero_shape : forall t, shape t (zero t) = true.
Proof.
  induction t using ty_ind'; cbn; try reflexivity.
  - destruct (int_native c); reflexivity.
  - apply zero_members_shape; assumption.
  - exact IHt.
Qed.

(* ASN_STRUCT_RESET: whatever the structure held, what is left is the very structure
   CALLOC(1, struct_size) gives a decoder that is handed a NULL pointer; it is laid out
   for the type, owns nothing below the top block, and the top block is the only thing
   the ledger still holds (reset_balanced).  A decoder being a function of the structure
   it is given and of the input, a decode after RESET cannot differ from a decode into a
   fresh structure except by the one allocation it saves (checked on the C by checks/c14.py). *)
Theorem reset_is_fresh : forall t s, shape t s = true ->
  after FreeUnderlyingAndReset s = Some (zero t) /\
  shape t (zero t) = true /\
  (forall p, owned t false p (zero t) = []) /\
  (forall p, free_model t FreeUnderlyingAndReset p (zero t) = []).
Proof.
  intros t s Hsh. split; [|split; [|split]].
  - cbn. f_equal. apply memset0_is_zero. exact Hsh.
  - apply zero_shape.
  - apply zero_owns_nothing.
  - intros p. pose proof (free_exact t FreeUnderlyingAndReset p (zero t)) as F.
    cbn [is_everything] in F. rewrite zero_owns_nothing in F.
    apply Permutation_sym, Permutation_nil in F. exact F.
Qed.

(* ------------------------------------------------------------------ decoded structures are shaped *)
From A1 Require Import Rt.Comb Rt.Der Rt.DerProofs.

Lemma shape_of_members : forall o ms,
  Forall (fun t => forall v, wt t v = true -> shape t (of_val o t v) = true) ms ->
  forall vs, wt (TSeq 0 ms) (VSeq vs) = true -> shape_members shape ms (of_members (of_val o) ms vs) = true.
Proof.
  intros o ms H; induction H as [|m ms' Hm _ IH]; intros vs Hwt.
  - destruct vs; [reflexivity | discriminate].
  - destruct vs as [|v vs']; [discriminate|]. cbn in Hwt. apply andb_true_iff in Hwt as [H1 H2].
    cbn. rewrite (Hm v H1). cbn. apply IH. exact H2.
Qed.

Lemma shape_of_alt : forall o alts,
  Forall (fun t => forall v, wt t v = true -> shape t (of_val o t v) = true) alts ->
  forall i v, wt (TChoice alts) (VChoice i v) = true -> shape_alt shape (of_alt (of_val o) v alts i) alts i = true.
Proof.
  intros o alts H; induction H as [|t r Ht _ IH]; intros i v Hwt.
  - destruct i; discriminate.
  - destruct i; cbn in Hwt; cbn; [apply Ht; exact Hwt | apply IH; exact Hwt].
Qed.

Lemma shape_of_elems : forall o e vs,
  (forall v, wt e v = true -> shape e (of_val o e v) = true) ->
  forallb (wt e) vs = true ->
  forallb (shape e) (map (of_val o e) vs) && ((match vs with [] => false | _ => true end)
     || match map (of_val o e) vs with [] => true | _ => false end) = true.
Proof.
  intros o e vs He Hall. apply andb_true_iff. split.
  - induction vs as [|v r IH]; [reflexivity|]. cbn in Hall. apply andb_true_iff in Hall as [H1 H2].
    cbn. rewrite (He v H1). cbn. apply IH. exact H2.
  - destruct vs; reflexivity.
Qed.

Theorem shape_of_val : forall o t v, wt t v = true -> shape t (of_val o t v) = true.
Proof.
  intros o; induction t using ty_ind'; intros v Hwt;
    try (destruct v; cbn in Hwt; try discriminate; reflexivity).
  - destruct v; cbn in Hwt; try discriminate. cbn. destruct (int_native c); reflexivity.
  - destruct v; cbn in Hwt; try discriminate. cbn. apply shape_of_members; assumption.
  - destruct v; try discriminate. cbn. apply shape_of_elems; [exact IHt | exact Hwt].
  - destruct v; try discriminate. cbn. cbn in Hwt. apply andb_true_iff in Hwt as [Hwt _].
    apply shape_of_elems; [exact IHt | exact Hwt].
  - destruct v; try discriminate. cbn. apply shape_of_alt; assumption.
  - cbn. apply IHt. cbn in Hwt. destruct v; exact Hwt.
  - destruct v; cbn in Hwt; try discriminate; cbn; [reflexivity | apply IHt; exact Hwt].
Qed.

(* the lifecycle of a decoded value, end to end on the model: what a successful decode built is
   released by ASN_STRUCT_FREE with no violation and nothing left; ASN_STRUCT_RESET leaves the
   top block and the CALLOC structure *)
Theorem decoded_lifecycle : forall o t v, is_slot t = false -> wt t v = true ->
  let s := of_val o t v in
  apply_free t FreeEverything (owned t true [] s) s = (Some [], None) /\
  apply_free t FreeUnderlyingAndReset (owned t true [] s) s = (Some [([], KStruct)], Some (zero t)) /\
  owned t true [] (zero t) = [([], KStruct)].
Proof.
  intros o t v Hs Hwt s. pose proof (shape_of_val o t v Hwt) as Hsh. fold s in Hsh.
  unfold apply_free. split; [|split].
  - rewrite free_balanced. reflexivity.
  - destruct (reset_balanced t [] s Hs Hsh) as [R _]. rewrite R.
    destruct (reset_is_fresh t s Hsh) as [A _]. rewrite A. reflexivity.
  - rewrite (owned_boxed t [] (zero t) Hs (zero_shape t)), zero_owns_nothing. reflexivity.
Qed.

(* non-vacuity: a SEQUENCE { OCTET STRING, SET OF INTEGER, OPTIONAL BOOLEAN (present), CHOICE,
   INTEGER (0..2^63-1) (an INTEGER_t) } decoded by the BER decoder / by the OER decoder *)
Definition ex_ty : ty :=
  TSeq 64%Z [TOct 16%Z (SCon 0%Z None false); TSetOf 68%Z (SCon 0%Z None false) (TInt 8%Z (ICon None None false));
           TOpt (TBool 4%Z); TChoice [TNull 20%Z; TOct 16%Z (SCon 0%Z None false)];
           TInt 8%Z (ICon (Some 0%Z) (Some 9223372036854775807%Z) false)].
Definition ex_val : val :=
  VSeq [VOct [1%Z; 2%Z]; VList [VInt 5%Z; VInt 7%Z]; VSome (VBool true); VChoice 1 (VOct []); VInt 3%Z].

Example ex_owned :
  owned ex_ty true [] (of_val false ex_ty ex_val) =
  [([], KStruct); ([0%nat], KBuf); ([1%nat], KArr); ([0%nat; 1%nat], KStruct); ([1%nat; 1%nat], KStruct);
   ([2%nat], KStruct); ([1%nat; 3%nat], KBuf); ([4%nat], KBuf)].
Proof. vm_compute. reflexivity. Qed.

Example ex_free :
  free_model ex_ty FreeEverything [] (of_val false ex_ty ex_val) =
  [([0%nat], KBuf); ([0%nat; 1%nat], KStruct); ([1%nat; 1%nat], KStruct); ([1%nat], KArr);
   ([2%nat], KStruct); ([1%nat; 3%nat], KBuf); ([4%nat], KBuf); ([], KStruct)].
Proof. vm_compute. reflexivity. Qed.

Example ex_owned_oer :
  owned ex_ty true [] (of_val true ex_ty ex_val) =
  [([], KStruct); ([], KScratch); ([0%nat], KBuf); ([1%nat], KArr); ([0%nat; 1%nat], KStruct); ([1%nat; 1%nat], KStruct);
   ([2%nat], KStruct); ([1%nat; 3%nat], KBuf); ([4%nat], KBuf)].
Proof. vm_compute. reflexivity. Qed.

Example ex_wt : wt ex_ty ex_val = true /\ is_slot ex_ty = false.
Proof. vm_compute. split; reflexivity. Qed.

(* a double free and a foreign free are violations of the ledger ("reports instead of crashing") *)
Example ex_double_free :
  run_frees [([], KStruct)] [([], KStruct); ([], KStruct)] = None.
Proof. vm_compute. reflexivity. Qed.
Example ex_foreign_free :
  run_frees [([], KStruct)] [([0%nat], KBuf)] = None.
Proof. vm_compute. reflexivity. Qed.
