(* Rt/UperProofs.v — the UPER round trip of the model (Rt/Uper.v), for both
   readings: std = true (X.691) and std = false (what the C writes).
   The reference decoder returns the value and exactly the bits that followed
   the encoding.  Bit and length-determinant lemmas: UperBits.v, UperCounted.v. *)
From Coq Require Import ZArith List Lia Bool ZifyBool Permutation.
From A1 Require Import Base.Bytes Leaf.IntegerConv Leaf.IntegerConvProofs
  Rt.Types Rt.TypesInd Rt.Comb Rt.Der Rt.Uper Rt.UperBits Rt.UperCounted.
Import ListNotations.
Local Open Scope Z_scope.

Local Ltac Zify.zify_post_hook ::= Z.to_euclidean_division_equations.

(* ---------------- CHOICE index ---------------- *)

(* the smallest-tag keys of the alternatives are pairwise distinct (follows from
   X.680 tag distinctness of the alternatives) *)
Fixpoint nodupb (ks : list Z) : bool :=
  match ks with
  | [] => true
  | k :: r => negb (existsb (Z.eqb k) r) && nodupb r
  end.

Definition keys_distinct (alts : list ty) : bool := nodupb (map min_key alts).

Lemma nodupb_NoDup ks : nodupb ks = true -> NoDup ks.
Proof.
  induction ks as [|k r IH]; cbn [nodupb]; intros H; [constructor|].
  apply andb_true_iff in H. destruct H as [H1 H2]. constructor; [|auto].
  intros Hin. apply negb_true_iff in H1.
  assert (existsb (Z.eqb k) r = true); [|congruence].
  apply existsb_exists. exists k. split; [exact Hin|apply Z.eqb_refl].
Qed.

(* the C's table: the sorted list of definition indices is a permutation *)
Lemma insert_idx_perm keys x l : Permutation (x :: l) (insert_idx keys x l).
Proof.
  induction l as [|y tl IH]; cbn [insert_idx]; [apply Permutation_refl|].
  destruct (nth x keys 0 <=? nth y keys 0); [apply Permutation_refl|].
  eapply perm_trans; [apply perm_swap|]. apply perm_skip. exact IH.
Qed.

Lemma sorted_indices_perm alts : Permutation (seq 0 (length alts)) (sorted_indices alts).
Proof.
  unfold sorted_indices. generalize (map min_key alts). intros keys.
  generalize (seq 0 (length alts)). intros l.
  induction l as [|x l IH]; cbn [fold_right]; [constructor|].
  eapply perm_trans; [apply perm_skip; exact IH|apply insert_idx_perm].
Qed.

Lemma c_index_bound alts i : (i < length alts)%nat -> 0 <= c_index alts i < zlen alts.
Proof.
  intros Hi. unfold c_index, zlen.
  pose proof (sorted_indices_perm alts) as Hp.
  pose proof (Permutation_length Hp) as Hl. rewrite seq_length in Hl.
  assert (Hin : In (nth i (sorted_indices alts) O) (sorted_indices alts)) by (apply nth_In; lia).
  apply (Permutation_in _ (Permutation_sym Hp)) in Hin. apply in_seq in Hin. lia.
Qed.

Lemma c_index_inj alts i j : (i < length alts)%nat -> (j < length alts)%nat ->
  c_index alts i = c_index alts j -> i = j.
Proof.
  intros Hi Hj E. unfold c_index in E. apply Nat2Z.inj in E.
  pose proof (sorted_indices_perm alts) as Hp.
  pose proof (Permutation_length Hp) as Hl. rewrite seq_length in Hl.
  assert (Hnd : NoDup (sorted_indices alts)) by (eapply Permutation_NoDup; [exact Hp|apply seq_NoDup]).
  rewrite NoDup_nth in Hnd. apply (Hnd i j); [lia|lia|exact E].
Qed.

(* the canonical index: a rank *)
Lemma filter_le {A} (p q : A -> bool) l : (forall y, p y = true -> q y = true) ->
  (length (filter p l) <= length (filter q l))%nat.
Proof.
  intros H. induction l as [|a l IH]; cbn [filter]; [lia|].
  destruct (p a) eqn:Ep.
  - rewrite (H a Ep). cbn [length]. lia.
  - destruct (q a); cbn [length]; lia.
Qed.

Lemma filter_lt {A} (p q : A -> bool) l x : (forall y, p y = true -> q y = true) ->
  In x l -> p x = false -> q x = true ->
  (length (filter p l) < length (filter q l))%nat.
Proof.
  intros H. induction l as [|a l IH]; intros Hin Hp Hq; [destruct Hin|].
  cbn [filter]. destruct Hin as [->|Hin].
  - rewrite Hp, Hq. pose proof (filter_le p q l H). cbn [length]. lia.
  - specialize (IH Hin Hp Hq). destruct (p a) eqn:Ep.
    + rewrite (H a Ep). cbn [length]. lia.
    + destruct (q a); cbn [length]; lia.
Qed.

Lemma filter_all {A} (l : list A) : filter (fun _ => true) l = l.
Proof. induction l; cbn [filter]; congruence. Qed.

Lemma canonical_index_bound alts i : (i < length alts)%nat ->
  0 <= canonical_index alts i < zlen alts.
Proof.
  intros Hi. unfold canonical_index.
  destruct (nth_error alts i) as [a|] eqn:E; [|apply nth_error_None in E; lia].
  unfold zlen. split; [lia|].
  pose proof (filter_lt (fun b => min_key b <? min_key a) (fun _ => true) alts a
                ltac:(auto) (nth_error_In _ _ E) ltac:(lia) eq_refl) as H.
  rewrite filter_all in H. lia.
Qed.

Lemma canonical_index_inj alts i j : keys_distinct alts = true ->
  (i < length alts)%nat -> (j < length alts)%nat ->
  canonical_index alts i = canonical_index alts j -> i = j.
Proof.
  intros Hk Hi Hj E. unfold canonical_index in E.
  destruct (nth_error alts i) as [a|] eqn:Ea; [|apply nth_error_None in Ea; lia].
  destruct (nth_error alts j) as [b|] eqn:Eb; [|apply nth_error_None in Eb; lia].
  apply nodupb_NoDup in Hk. rewrite NoDup_nth_error in Hk.
  destruct (Z.eq_dec (min_key a) (min_key b)) as [Ek|Nk].
  - apply Hk; [rewrite map_length; exact Hi|].
    rewrite (map_nth_error min_key _ _ Ea), (map_nth_error min_key _ _ Eb). congruence.
  - exfalso. unfold zlen in E. apply Nat2Z.inj in E.
    destruct (Z.lt_ge_cases (min_key a) (min_key b)) as [Hlt|Hge].
    + pose proof (filter_lt (fun x => min_key x <? min_key a) (fun x => min_key x <? min_key b) alts a
                    ltac:(intros y; lia) (nth_error_In _ _ Ea) ltac:(lia) ltac:(lia)). lia.
    + pose proof (filter_lt (fun x => min_key x <? min_key b) (fun x => min_key x <? min_key a) alts b
                    ltac:(intros y; lia) (nth_error_In _ _ Eb) ltac:(lia) ltac:(lia)). lia.
Qed.

Lemma choice_index_bound std alts i : (i < length alts)%nat ->
  0 <= choice_index std alts i < zlen alts.
Proof. destruct std; [apply canonical_index_bound|apply c_index_bound]. Qed.

Lemma choice_index_inj std alts i j : keys_distinct alts = true ->
  (i < length alts)%nat -> (j < length alts)%nat ->
  choice_index std alts i = choice_index std alts j -> i = j.
Proof. destruct std; [apply canonical_index_inj|intros _; apply c_index_inj]. Qed.

(* ---------------- well-formedness ---------------- *)

(* types: INTEGER bounds are C longs; OPTIONAL only as a SEQUENCE member; the
   alternatives of a CHOICE have pairwise distinct smallest tags *)
Fixpoint wf_u (t : ty) : bool :=
  match t with
  | TBool _ | TNull _ | TOct _ _ => true
  | TInt _ c => icon_ok c
  | TSeq _ ms => forallb wf_u ms
  | TSeqOf _ _ e | TSetOf _ _ e => wf_u e && negb (is_opt e)
  | TChoice alts => forallb wf_u alts && forallb (fun a => negb (is_opt a)) alts && keys_distinct alts
  | TTag _ t' => wf_u t' && negb (is_opt t')
  | TOpt t' => wf_u t' && negb (is_opt t')
  end.

Definition wf_ty_uper (t : ty) : bool := negb (is_opt t) && wf_u t.

Definition bits_eqb (a b : list (list bool)) : bool :=
  if list_eq_dec (list_eq_dec bool_dec) a b then true else false.

Lemma bits_eqb_eq a b : bits_eqb a b = true -> a = b.
Proof. unfold bits_eqb. destruct (list_eq_dec _ a b); [auto|discriminate]. Qed.

Section Std.
  Variable std : bool.

  (* values the C can hold: native long integers, octets, SET OF stored in the
     order of the elements' encodings (as after any decode) *)
  Fixpoint wt_uper (t : ty) (v : val) {struct t} : bool :=
    match t, v with
    | TBool _, VBool _ => true
    | TNull _, VNull => true
    | TInt _ _, VInt z => fits_long z
    | TOct _ _, VOct bs => bytes_okb bs
    | TSeq _ ms, VSeq vs =>
        (fix go (ms : list ty) (vs : list val) : bool :=
           match ms, vs with
           | [], [] => true
           | m :: ms', v :: vs' => wt_uper m v && go ms' vs'
           | _, _ => false
           end) ms vs
    | TSeqOf _ _ e, VList vs => forallb (wt_uper e) vs
    | TSetOf _ _ e, VList vs =>
        forallb (wt_uper e) vs &&
        match option_all (map (uper std e) vs) with
        | Some es => bits_eqb (sort_bit_encodings es) es
        | None => false
        end
    | TChoice alts, VChoice i v' =>
        (fix pick (alts : list ty) (i : nat) : bool :=
           match alts, i with
           | a :: _, O => wt_uper a v'
           | _ :: r, S j => pick r j
           | [], _ => false
           end) alts i
    | TTag _ t', _ => wt_uper t' v
    | TOpt _, VNone => true
    | TOpt t', VSome v' => wt_uper t' v'
    | _, _ => false
    end.

  (* ---------------- the induction predicate ---------------- *)

  Definition RT (t : ty) : Prop := forall v bits rest,
    wf_u t = true -> is_opt t = false -> wt_uper t v = true -> uper std t v = Some bits ->
    uper_dec std t (bits ++ rest) = Some (v, rest).

  (* an OPTIONAL member is decoded through its base type *)
  Definition RTm (t : ty) : Prop :=
    RT t /\ match t with TOpt t' => RT t' | _ => True end.

  (* ---------------- SEQUENCE members ---------------- *)

  Lemma dec_members_pres_nonopt {St} (dec : ty -> St -> option (val * St)) m ms pres s :
    is_opt m = false ->
    dec_members_pres dec (m :: ms) pres s =
    match dec m s with
    | Some (v, r) =>
        match dec_members_pres dec ms pres r with
        | Some (vs, r') => Some (v :: vs, r')
        | None => None
        end
    | None => None
    end.
  Proof. intros H. destruct m; try reflexivity. discriminate. Qed.

  Lemma members_pres_rt ms : Forall RTm ms -> forall vs body rest,
    forallb wf_u ms = true -> wt_uper (TSeq 0 ms) (VSeq vs) = true ->
    enc_members (uper std) ms vs = Some body ->
    dec_members_pres (uper_dec std) ms (presence_bits ms vs) (body ++ rest) = Some (vs, rest) /\
    length (presence_bits ms vs) = length (filter is_opt ms).
  Proof.
    induction 1 as [|m ms' Hm Hms IH]; intros vs body rest Hwf Hwt He;
      destruct vs as [|v vs']; cbn [enc_members] in He; try discriminate.
    - injection He as <-. split; reflexivity.
    - cbn [forallb] in Hwf. apply andb_true_iff in Hwf. destruct Hwf as [Hw Hwr].
      cbn [wt_uper] in Hwt. apply andb_true_iff in Hwt. destruct Hwt as [Hwt1 Hwtr].
      destruct (uper std m v) as [a|] eqn:Ea; [|discriminate].
      destruct (enc_members (uper std) ms' vs') as [b|] eqn:Eb; [|discriminate]. injection He as <-.
      destruct (IH vs' b rest Hwr Hwtr Eb) as [IH1 IH2].
      rewrite <- app_assoc. cbn [presence_bits filter].
      destruct (is_opt m) eqn:Eo.
      + destruct m; try discriminate. destruct Hm as [_ Hm'].
        cbn [wf_u] in Hw. apply andb_true_iff in Hw. destruct Hw as [Hw1 Hw2].
        apply negb_true_iff in Hw2.
        destruct v; cbn [uper] in Ea; try discriminate.
        * injection Ea as <-. cbn [app dec_members_pres]. rewrite IH1.
          split; [reflexivity|cbn [length]; lia].
        * cbn [wt_uper] in Hwt1. cbn [app dec_members_pres].
          rewrite (Hm' v a (b ++ rest) Hw1 Hw2 Hwt1 Ea). rewrite IH1.
          split; [reflexivity|cbn [length]; lia].
      + cbn [app]. rewrite dec_members_pres_nonopt by exact Eo.
        destruct Hm as [Hm _].
        rewrite (Hm v a (b ++ rest) Hw Eo Hwt1 Ea). rewrite IH1.
        split; [reflexivity|exact IH2].
  Qed.

  (* ---------------- CHOICE alternatives ---------------- *)

  Lemma alts_rt alts : Forall RTm alts -> forall (sel : nat -> ty -> bool) i k v bits rest,
    forallb wf_u alts = true -> forallb (fun a => negb (is_opt a)) alts = true ->
    wt_uper (TChoice alts) (VChoice i v) = true -> enc_alt (uper std) v alts i = Some bits ->
    (forall j a, (j < i)%nat -> sel (k + j)%nat a = false) ->
    (forall a, sel (k + i)%nat a = true) ->
    dec_alt (uper_dec std) sel (bits ++ rest) alts k = Some (VChoice (k + i) v, rest).
  Proof.
    induction 1 as [|a r Ha Hr IH]; intros sel i k v bits rest Hwf Hno Hwt He Hlt Heq;
      [destruct i; discriminate|].
    cbn [forallb] in Hwf, Hno. apply andb_true_iff in Hwf. destruct Hwf as [Hw Hwr].
    apply andb_true_iff in Hno. destruct Hno as [Hn Hnr]. apply negb_true_iff in Hn.
    cbn [dec_alt]. destruct i as [|j]; cbn [enc_alt] in He; cbn [wt_uper] in Hwt.
    - replace (k + 0)%nat with k in * by lia. rewrite Heq.
      destruct Ha as [Ha _]. rewrite (Ha v bits rest Hw Hn Hwt He). reflexivity.
    - pose proof (Hlt O a ltac:(lia)) as H0. replace (k + 0)%nat with k in H0 by lia. rewrite H0.
      rewrite (IH sel j (S k) v bits rest Hwr Hnr Hwt He).
      + replace (S k + j)%nat with (k + S j)%nat by lia. reflexivity.
      + intros j' a' Hj'. replace (S k + j')%nat with (k + S j')%nat by lia. apply Hlt. lia.
      + intros a'. replace (S k + j)%nat with (k + S j)%nat by lia. apply Heq.
  Qed.

  Lemma enc_alt_lt {B} (f : ty -> val -> option B) v alts : forall i b,
    enc_alt f v alts i = Some b -> (i < length alts)%nat.
  Proof.
    induction alts as [|a r IH]; intros i b H; destruct i; cbn [enc_alt length] in *;
      try discriminate; try lia.
    apply IH in H. lia.
  Qed.

  (* ---------------- SEQUENCE OF / SET OF elements ---------------- *)

  Lemma elems_inv e : RT e -> wf_u e = true -> is_opt e = false -> forall vs es,
    forallb (wt_uper e) vs = true -> option_all (map (uper std e) vs) = Some es ->
    Forall2 (inv (uper_dec std e)) vs es.
  Proof.
    intros He Hw Hno. induction vs as [|v vs' IH]; intros es Hwt Ho.
    - cbn in Ho. injection Ho as <-. constructor.
    - cbn [map option_all] in Ho.
      destruct (uper std e v) as [a|] eqn:Ea; [|discriminate].
      destruct (option_all (map (uper std e) vs')) as [es'|] eqn:Eo; [|discriminate].
      injection Ho as <-.
      cbn [forallb] in Hwt. apply andb_true_iff in Hwt. destruct Hwt as [Hwt1 Hwtr].
      constructor; [|apply IH; auto].
      intros r. apply He; assumption.
  Qed.

  (* ---------------- the main induction ---------------- *)

  Theorem uper_decodes_all t : RTm t.
  Proof.
    induction t using ty_ind'.
    - (* BOOLEAN *)
      split; [|exact I]. intros v bits rest Hwf Hno Hwt Hd.
      destruct v; try discriminate. injection Hd as <-. reflexivity.
    - (* NULL *)
      split; [|exact I]. intros v bits rest Hwf Hno Hwt Hd.
      destruct v; try discriminate. injection Hd as <-. reflexivity.
    - (* INTEGER *)
      split; [|exact I]. intros v bits rest Hwf Hno Hwt Hd.
      destruct v; try discriminate. cbn [uper] in Hd. cbn [wf_u] in Hwf. cbn [wt_uper] in Hwt.
      cbn [uper_dec]. rewrite (uper_int_rt std c z bits rest Hwf Hwt Hd). rewrite Hwt. reflexivity.
    - (* OCTET STRING *)
      split; [|exact I]. intros v bits rest Hwf Hno Hwt Hd.
      destruct v; try discriminate. cbn [uper] in Hd. cbn [wt_uper] in Hwt.
      apply bytes_okb_spec in Hwt.
      cbn [uper_dec]. rewrite (sized_rt get_octet s bs _ bits rest (octets_inv bs Hwt) Hd). reflexivity.
    - (* SEQUENCE *)
      split; [|exact I]. intros v bits rest Hwf Hno Hwt Hd.
      destruct v; try discriminate. cbn [uper] in Hd. cbn [wf_u] in Hwf.
      destruct (enc_members (uper std) ms vs) as [body|] eqn:Eb; [|discriminate]. injection Hd as <-.
      destruct (members_pres_rt ms H vs body rest Hwf Hwt Eb) as [H1 H2].
      cbn [uper_dec]. rewrite <- app_assoc. rewrite <- H2. rewrite take_bits_app.
      rewrite H1. reflexivity.
    - (* SEQUENCE OF *)
      split; [|exact I]. intros v bits rest Hwf Hno Hwt Hd.
      destruct v; try discriminate. cbn [uper] in Hd. cbn [wf_u] in Hwf. cbn [wt_uper] in Hwt.
      apply andb_true_iff in Hwf. destruct Hwf as [Hwe Hne]. apply negb_true_iff in Hne.
      destruct (option_all (map (uper std t) vs)) as [es|] eqn:Eo; [|discriminate].
      destruct IHt as [IHt _].
      pose proof (elems_inv t IHt Hwe Hne vs es Hwt Eo) as HF.
      cbn [uper_dec]. rewrite (sized_rt (uper_dec std t) s vs es bits rest HF Hd). reflexivity.
    - (* SET OF: stored in the order of the encodings *)
      split; [|exact I]. intros v bits rest Hwf Hno Hwt Hd.
      destruct v; try discriminate. cbn [uper] in Hd. cbn [wf_u] in Hwf. cbn [wt_uper] in Hwt.
      apply andb_true_iff in Hwf. destruct Hwf as [Hwe Hne]. apply negb_true_iff in Hne.
      apply andb_true_iff in Hwt. destruct Hwt as [Hwt Hsorted].
      destruct (option_all (map (uper std t) vs)) as [es|] eqn:Eo; [|discriminate].
      apply bits_eqb_eq in Hsorted. rewrite Hsorted in Hd.
      destruct IHt as [IHt _].
      pose proof (elems_inv t IHt Hwe Hne vs es Hwt Eo) as HF.
      cbn [uper_dec]. rewrite (sized_rt (uper_dec std t) s vs es bits rest HF Hd). reflexivity.
    - (* CHOICE *)
      split; [|exact I]. intros v bits rest Hwf Hno Hwt Hd.
      destruct v; try discriminate. cbn [uper] in Hd. cbn [wf_u] in Hwf.
      apply andb_true_iff in Hwf. destruct Hwf as [Hwf Hkeys].
      apply andb_true_iff in Hwf. destruct Hwf as [Hwa Hnoa].
      destruct (enc_alt (uper std) v alts i) as [body|] eqn:Eb; [|discriminate]. injection Hd as <-.
      pose proof (enc_alt_lt _ _ _ _ _ Eb) as Hi.
      pose proof (choice_index_bound std alts i Hi) as Hcb.
      cbn [uper_dec]. rewrite <- app_assoc.
      rewrite get_bits_range by exact Hcb.
      apply (alts_rt alts H (fun j _ => choice_index std alts j =? choice_index std alts i)
               i O v body rest Hwa Hnoa Hwt Eb).
      + intros j _ Hj. cbn [Nat.add].
        destruct (choice_index std alts j =? choice_index std alts i) eqn:E; [|reflexivity].
        apply Z.eqb_eq in E. apply choice_index_inj in E; [lia|exact Hkeys|lia|exact Hi].
      + intros _. cbn [Nat.add]. apply Z.eqb_refl.
    - (* EXPLICIT tag: transparent *)
      split; [|exact I]. intros v bits rest Hwf Hno Hwt Hd.
      cbn [uper] in Hd. cbn [wf_u] in Hwf. cbn [wt_uper] in Hwt.
      apply andb_true_iff in Hwf. destruct Hwf as [Hw Hn]. apply negb_true_iff in Hn.
      destruct IHt as [IHt _]. cbn [uper_dec]. apply IHt; assumption.
    - (* OPTIONAL: only as a SEQUENCE member *)
      split; [intros v bits rest Hwf Hno; discriminate|exact (proj1 IHt)].
  Qed.
End Std.

(* ---------------- the theorems ---------------- *)

(* C01 for UPER on the model, in a stream: the decoder returns the value and
   leaves exactly what followed the encoding *)
Theorem uper_roundtrip_in_stream : forall std t v bits rest,
  wf_ty_uper t = true -> wt_uper std t v = true -> uper std t v = Some bits ->
  uper_dec std t (bits ++ rest) = Some (v, rest).
Proof.
  intros std t v bits rest Hwf Hwt Hu. unfold wf_ty_uper in Hwf.
  apply andb_true_iff in Hwf. destruct Hwf as [Hno Hwf]. apply negb_true_iff in Hno.
  apply (proj1 (uper_decodes_all std t)); assumption.
Qed.

Lemma zlen_repeat {A} (x : A) n : zlen (repeat x n) = Z.of_nat n.
Proof. unfold zlen. rewrite repeat_length. reflexivity. Qed.

(* complete encodings: asn_decode returns the value and consumes exactly the
   octets produced (at least one) *)
Theorem uper_decode_roundtrip : forall std t v bytes,
  wf_ty_uper t = true -> wt_uper std t v = true -> uper_encode std t v = Some bytes ->
  uper_decode std t bytes = Some (v, zlen bytes) /\ 1 <= zlen bytes.
Proof.
  intros std t v bytes Hwf Hwt He. unfold uper_encode in He.
  destruct (uper std t v) as [bits|] eqn:Eu; [|discriminate].
  unfold uper_decode.
  destruct bits as [|b0 tl] eqn:Ebits.
  - injection He as <-.
    pose proof (uper_roundtrip_in_stream std t v [] (bytes_bits [0]) Hwf Hwt Eu) as Hr.
    cbn [app] in Hr. rewrite Hr. rewrite Z.sub_diag. split; reflexivity.
  - rewrite <- Ebits in *. injection He as <-.
    destruct (bits_to_bytes_spec bits) as [Hb Hl]. rewrite Hb, Hl.
    rewrite (uper_roundtrip_in_stream std t v bits _ Hwf Hwt Eu).
    rewrite zlen_app. assert (Hpos : 1 <= zlen bits) by (rewrite Ebits, zlen_cons; pose proof (zlen_nonneg tl); lia).
    split; [|lia]. f_equal. f_equal. lia.
Qed.

(* ---------------- a concrete (type, value) meeting the hypotheses ---------------- *)

Definition ex_ty (lb : Z) : ty :=
  TSeq 64
    [ TInt 8 (ICon (Some 0) (Some 255) false);
      TOpt (TBool 4);
      TOpt (TInt 8 (ICon (Some lb) None true));
      TChoice [TNull 22; TInt 10 (ICon None None false); TTag 6 (TOct 16 (SCon 0 (Some 4) true))];
      TSeqOf 64 (SCon 1 (Some 3) false) (TInt 8 (ICon (Some 10) (Some 20) true));
      TSetOf 68 (SCon 0 None false) (TOct 16 (SCon 0 None false));
      TTag 14 (TInt 8 (ICon (Some 0) None false)) ].

Definition ex_val : val :=
  VSeq [ VInt 200; VNone; VSome (VInt 70000);
         VChoice 2 (VOct [1; 2; 3; 4; 5; 6]);
         VList [VInt 12; VInt 99];
         VList [VOct [1]; VOct [2]; VOct [1; 2]];
         VInt 128 ].

(* both readings; the C refuses a non-zero lower bound of a semi-constrained
   INTEGER, so the common example uses 0 and the X.691 one also -5 *)
Example ex_meets_hypotheses :
  wf_ty_uper (ex_ty 0) = true /\ wf_ty_uper (ex_ty (-5)) = true /\
  wt_uper true (ex_ty 0) ex_val = true /\ wt_uper false (ex_ty 0) ex_val = true /\
  wt_uper true (ex_ty (-5)) ex_val = true /\
  uper true (ex_ty 0) ex_val <> None /\ uper false (ex_ty 0) ex_val <> None /\
  uper true (ex_ty (-5)) ex_val <> None.
Proof. vm_compute. repeat split; discriminate. Qed.

Example ex_decodes :
  (exists bytes, uper_encode false (ex_ty 0) ex_val = Some bytes /\
                 uper_decode false (ex_ty 0) bytes = Some (ex_val, zlen bytes)) /\
  (exists bytes, uper_encode true (ex_ty (-5)) ex_val = Some bytes /\
                 uper_decode true (ex_ty (-5)) bytes = Some (ex_val, zlen bytes)).
Proof.
  split.
  - eexists. split; [vm_compute; reflexivity|]. vm_compute. reflexivity.
  - eexists. split; [vm_compute; reflexivity|]. vm_compute. reflexivity.
Qed.

(* ---------------- the hypotheses are needed ---------------- *)

Theorem uper_roundtrip_unsorted_setof_refuted :
  exists std t v bits, wf_ty_uper t = true /\ wt_uper std t v = false /\
    uper std t v = Some bits /\ uper_dec std t bits <> Some (v, []).
Proof.
  exists false, (TSetOf 68 (SCon 0 None false) (TOct 16 (SCon 0 None false))),
    (VList [VOct [2]; VOct [1]]). eexists.
  split; [reflexivity|]. split; [vm_compute; reflexivity|].
  split; [vm_compute; reflexivity|]. vm_compute. discriminate.
Qed.

Theorem uper_roundtrip_equal_keys_refuted :
  exists t v bits, wf_ty_uper t = false /\ wt_uper true t v = true /\
    uper true t v = Some bits /\ uper_dec true t bits <> Some (v, []).
Proof.
  exists (TChoice [TNull 20; TBool 20]), (VChoice 1 (VBool true)). eexists.
  split; [vm_compute; reflexivity|]. split; [vm_compute; reflexivity|].
  split; [vm_compute; reflexivity|]. vm_compute. discriminate.
Qed.

Theorem uper_roundtrip_toplevel_optional_refuted :
  exists std t v bits, wf_ty_uper t = false /\ wt_uper std t v = true /\
    uper std t v = Some bits /\ uper_dec std t bits <> Some (v, []).
Proof.
  exists false, (TOpt (TBool 4)), VNone. eexists.
  split; [vm_compute; reflexivity|]. split; [vm_compute; reflexivity|].
  split; [vm_compute; reflexivity|]. vm_compute. discriminate.
Qed.

Theorem uper_roundtrip_huge_lower_bound_refuted :
  exists t v bits, wf_ty_uper t = false /\ wt_uper true t v = true /\
    uper true t v = Some bits /\ uper_dec true t bits <> Some (v, []).
Proof.
  exists (TInt 8 (ICon (Some (- 2 ^ 520)) None false)), (VInt 0). eexists.
  split; [vm_compute; reflexivity|]. split; [vm_compute; reflexivity|].
  split; [vm_compute; reflexivity|]. vm_compute. discriminate.
Qed.

Print Assumptions uper_roundtrip_in_stream.
Print Assumptions uper_decode_roundtrip.
