(* OpenTypeFragProofs.v — the loop of uper_open_type_put with its need_eom decision writes exactly the fragments
   of X.691 11.9.3.5-8 (= Uper.counted = Ext.open_type_spec), for contents of ANY length; a loop that writes the
   empty last fragment only after a full 64K fragment differs on every contents of 16K, 32K or 48K octets. *)
From Coq Require Import ZArith List Lia Bool ZifyBool.
From A1 Require Import Base.Bytes Rt.Types Rt.Uper Rt.UperBits Rt.UperCounted Rt.Ext Rt.ExtFormat Rt.OpenType Rt.OpenTypeFrag.
Import ListNotations.
Open Scope Z_scope.

Lemma open_put_S eom f c :
  open_put eom (S f) c =
  let '(h, save, need) := put_length (zlen c) in
  let k := Z.to_nat save in
  let rest := skipn k c in
  h ++ bytes_bits (firstn k c) ++
  (if eom (zlen rest) save need then nbits 8 0 else []) ++
  (match rest with [] => [] | _ :: _ => open_put eom f rest end).
Proof. reflexivity. Qed.

Lemma zlen_to_nat {A} (c : list A) : Z.to_nat (zlen c) = length c.
Proof. unfold zlen. lia. Qed.

Lemma skipn_all_nil {A} (c : list A) : skipn (length c) c = [].
Proof. apply skipn_all. Qed.

(* the loop = the model's counted, whatever the length *)
Theorem open_put_c_counted : forall fuel c, (length c < fuel)%nat ->
  open_put eom_c fuel c = put_counted fuel (map byte_bits c).
Proof.
  induction fuel as [|f IH]; intros c Hf; [lia|].
  rewrite open_put_S, put_counted_S. cbv zeta.
  assert (Hz : zlen (map byte_bits c) = zlen c) by (unfold zlen; rewrite map_length; reflexivity).
  rewrite Hz. unfold put_length.
  destruct (zlen c <=? 127) eqn:E1.
  { rewrite zlen_to_nat, firstn_all, skipn_all_nil. unfold eom_c. cbn [app].
    rewrite app_nil_r, bytes_bits_concat. reflexivity. }
  destruct (zlen c <? 16384) eqn:E2.
  { rewrite zlen_to_nat, firstn_all, skipn_all_nil. unfold eom_c. cbn [app].
    rewrite app_nil_r, bytes_bits_concat. reflexivity. }
  set (m := Z.min (zlen c / 16384) 4).
  set (k := Z.to_nat (m * 16384)).
  assert (Hm : 1 <= m <= 4 /\ m * 16384 <= zlen c) by (subst m; lia).
  rewrite firstn_map, skipn_map, bytes_bits_concat. unfold eom_c.
  f_equal. f_equal.
  assert (Hk : (k <= length c)%nat) by (subst k; unfold zlen in *; lia).
  destruct (skipn k c) as [|y ys] eqn:Es.
  - assert (Hl : length (skipn k c) = 0%nat) by (rewrite Es; reflexivity).
    rewrite skipn_length in Hl.
    assert (H0 : m * 16384 = zlen c) by (subst k; unfold zlen in *; lia).
    destruct (m * 16384 =? zlen c) eqn:E3; [|lia]. cbn [map]. rewrite app_nil_r. reflexivity.
  - assert (Hl : length (skipn k c) = S (length ys)) by (rewrite Es; reflexivity).
    rewrite skipn_length in Hl.
    destruct (m * 16384 =? zlen c) eqn:E3; [subst k; unfold zlen in *; lia|].
    cbn [app]. cbn [map]. change (byte_bits y :: map byte_bits ys) with (map byte_bits (y :: ys)).
    apply IH. cbn [length]. lia.
Qed.

Theorem open_put_c_is_counted c : open_put_c c = counted (map byte_bits c).
Proof.
  unfold open_put_c, counted. rewrite map_length. apply open_put_c_counted. lia.
Qed.

(* ... hence the fragments of X.691 11.9.3.5-8 *)
Theorem open_put_c_is_spec c : open_put_c c = open_type_spec c.
Proof. rewrite open_put_c_is_counted. exact (open_type_is_spec c). Qed.

(* ... and what OpenType.uper_open writes *)
Theorem uper_open_is_open_put t v : uper_open t v =
  match uper_encode false t v with Some bytes => Some (open_put_c bytes) | None => None end.
Proof.
  unfold uper_open. destruct (uper_encode false t v) as [bytes|]; [|reflexivity].
  rewrite open_put_c_is_counted. reflexivity.
Qed.

(* one turn of the loop on contents of exactly m * 16K octets, m <= 4: header, everything, then the decision *)
Lemma open_put_exact eom c m : 1 <= m <= 4 -> zlen c = m * 16384 ->
  open_put eom (S (length c)) c =
  nbits 8 (192 + m) ++ bytes_bits c ++ (if eom 0 (m * 16384) true then nbits 8 0 else []).
Proof.
  intros Hm Hz. rewrite open_put_S. unfold put_length.
  destruct (zlen c <=? 127) eqn:E1; [lia|].
  destruct (zlen c <? 16384) eqn:E2; [lia|].
  cbv zeta.
  assert (Hmin : Z.min (zlen c / 16384) 4 = m) by (rewrite Hz, Z.div_mul by lia; lia).
  rewrite Hmin.
  assert (Hk : Z.to_nat (m * 16384) = length c) by (unfold zlen in *; lia).
  rewrite Hk, firstn_all, skipn_all_nil.
  replace (m * 16384 =? zlen c) with true by lia.
  change (zlen (@nil Z)) with 0. rewrite app_nil_r. reflexivity.
Qed.

(* the seeded rule loses the last fragment on 16K, 32K and 48K: the stream is one octet short *)
Theorem open_put_64k_short c m : 1 <= m <= 3 -> zlen c = m * 16384 ->
  open_put_c c = open_put_64k c ++ nbits 8 0.
Proof.
  intros Hm Hz. unfold open_put_c, open_put_64k.
  rewrite !(open_put_exact _ c m) by lia.
  unfold eom_c, eom_64k.
  replace (m * 16384 =? 65536) with false by lia.
  rewrite andb_false_r, app_nil_r, <- app_assoc. reflexivity.
Qed.

Corollary open_put_64k_differs c m : 1 <= m <= 3 -> zlen c = m * 16384 ->
  open_put_64k c <> open_type_spec c.
Proof.
  intros Hm Hz H. rewrite <- open_put_c_is_spec in H.
  rewrite (open_put_64k_short c m Hm Hz) in H.
  apply (f_equal (@length bool)) in H. rewrite app_length in H. cbn in H. lia.
Qed.

(* on every other length the two rules agree: the change is invisible away from the three boundaries *)
Theorem open_put_64k_same_at_64k c : zlen c = 65536 -> open_put_64k c = open_put_c c.
Proof.
  intros Hz. unfold open_put_c, open_put_64k.
  rewrite !(open_put_exact _ c 4) by lia. reflexivity.
Qed.

(* ---------------- the reader's side (uper_open_type_get_simple collects the fragments: Ext.get_open_bytes) ---------------- *)

(* what the loop writes is reassembled to the contents, whatever follows in the stream *)
Theorem open_put_c_reassembles c r : bytes_ok c ->
  get_open_bytes (open_put_c c ++ r) = Some (c, r).
Proof.
  intros H. rewrite open_put_c_is_counted. exact (get_open_bytes_open_type c r H).
Qed.

(* the seeded rule at the end of a stream: after the 16K / 32K / 48K fragment the reader wants another length and starves *)
Theorem open_put_64k_starves c m : 1 <= m <= 3 -> zlen c = m * 16384 -> bytes_ok c ->
  get_open_bytes (open_put_64k c) = None.
Proof.
  intros Hm Hz Hok. unfold open_put_64k. rewrite (open_put_exact _ c m) by lia.
  unfold eom_64k. replace (m * 16384 =? 65536) with false by lia.
  rewrite andb_false_r, app_nil_r.
  unfold get_open_bytes. rewrite get_counted_S.
  rewrite get_length_frag by lia.
  assert (Hk : Z.to_nat (m * 16384) = length c) by (unfold zlen in *; lia).
  rewrite Hk. rewrite <- (bytes_bits_concat c).
  rewrite <- (app_nil_r (concat (map byte_bits c))).
  rewrite (get_items_rt get_octet c (map byte_bits c) (octets_inv c Hok) []).
  rewrite app_nil_r.
  destruct (length (nbits 8 (192 + m) ++ concat (map byte_bits c))) as [|f]; reflexivity.
Qed.
