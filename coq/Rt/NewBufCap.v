(* Rt/NewBufCap.v — the growth rule of dynamic_encoder_cb (asn_application.c) stated exactly:
   after ANY list of chunks the allocation is the LEAST 16 * 2^j that is STRICTLY greater than the
   number of octets collected (so the terminator asn_encode_to_new_buffer stores at
   buffer[computed_size] is inside it for totals 2^k - 1, 2^k, 2^k + 1 alike, and no more than the
   double of what is needed is ever held).  The two comparisons of the C that decide this are
       if(key->computed_size + size >= key->buffer_size)        [d_cap <=? d_comp + size]
       do { new_size *= 2; } while(new_size <= key->computed_size + size);
   Both keep one spare octet; with > and < instead the allocation would be the least 16 * 2^j
   greater than OR EQUAL to the total. *)
From Coq Require Import ZArith List Bool Lia ZifyBool.
From A1 Require Import Base.Bytes Rt.AppApi Rt.AppApiProofs.
Import ListNotations.
Local Open Scope Z_scope.

(* cap is the least 16 * 2^j strictly above comp *)
Definition cap_ok (cap comp : Z) : Prop :=
  (exists j : nat, cap = 16 * 2 ^ Z.of_nat j) /\ comp < cap /\ (cap = 16 \/ cap <= 2 * comp).

Lemma pow2_S (m : nat) : 2 ^ Z.of_nat (S m) = 2 * 2 ^ Z.of_nat m.
Proof. rewrite Nat2Z.inj_succ, Z.pow_succ_r by lia. reflexivity. Qed.

Lemma pow2_pos (m : nat) : 0 < 2 ^ Z.of_nat m.
Proof. apply Z.pow_pos_nonneg; lia. Qed.

Lemma pow2_add (a b : nat) : 2 ^ Z.of_nat (a + b) = 2 ^ Z.of_nat a * 2 ^ Z.of_nat b.
Proof. rewrite Nat2Z.inj_add, Z.pow_add_r by lia. reflexivity. Qed.

(* the do-while loop: the first doubling above need, hence at most twice need *)
Lemma grow_spec : forall fuel ns need,
  1 <= ns -> ns <= need -> need - ns < Z.of_nat fuel ->
  exists m : nat, grow fuel ns need = Some (ns * 2 ^ Z.of_nat (S m)) /\
                  need < ns * 2 ^ Z.of_nat (S m) /\ ns * 2 ^ Z.of_nat (S m) <= 2 * need.
Proof.
  induction fuel as [|f IH]; intros ns need H1 H2 H3; [lia|].
  cbn [grow]. destruct (ns * 2 <=? need) eqn:E.
  - destruct (IH (ns * 2) need) as (m & Hg & Ha & Hb); [lia | lia | lia |].
    exists (S m). rewrite (pow2_S (S m)).
    replace (ns * (2 * 2 ^ Z.of_nat (S m))) with (ns * 2 * 2 ^ Z.of_nat (S m)) by ring.
    repeat split; assumption.
  - exists O. change (2 ^ Z.of_nat 1) with 2. repeat split; lia.
Qed.

Definition no_fail : nat -> bool := fun _ => false.

Lemma dynamic_step_cap st c bs :
  d_buf st = Some bs -> cap_ok (d_cap st) (d_comp st) -> 0 <= d_comp st ->
  exists st' bs', dynamic_cb no_fail st c = (st', true) /\ d_buf st' = Some bs' /\
                  d_comp st' = d_comp st + zlen c /\ cap_ok (d_cap st') (d_comp st').
Proof.
  intros Hb [[j Hj] [Hlt Hmin]] H0. pose proof (zlen_nonneg c) as Hc.
  unfold dynamic_cb. rewrite Hb.
  destruct (d_cap st <=? d_comp st + zlen c) eqn:E.
  - assert (Hcap1 : 1 <= d_cap st) by (rewrite Hj; pose proof (pow2_pos j); lia).
    destruct (grow_spec (S (Z.to_nat (d_comp st + zlen c))) (d_cap st) (d_comp st + zlen c)) as (m & Hg & Ha & Hbnd);
      [lia | lia | lia |].
    rewrite Hg. unfold no_fail at 1. cbn iota.
    eexists. eexists. split; [reflexivity|]. cbn [d_buf d_comp d_cap].
    split; [reflexivity|]. split; [reflexivity|].
    split; [|split; [exact Ha | right; exact Hbnd]].
    exists (j + S m)%nat. rewrite Hj, pow2_add. ring.
  - eexists. eexists. split; [reflexivity|]. cbn [d_buf d_comp d_cap].
    split; [reflexivity|]. split; [reflexivity|].
    split; [exists j; exact Hj|]. split; [lia|]. destruct Hmin as [H|H]; [left; exact H | right; lia].
Qed.

Lemma emit_dynamic_cap : forall cs st bs,
  d_buf st = Some bs -> cap_ok (d_cap st) (d_comp st) -> 0 <= d_comp st ->
  exists st' bs', emit (dynamic_cb no_fail) st cs = (st', true) /\ d_buf st' = Some bs' /\
                  d_comp st' = d_comp st + total cs /\ cap_ok (d_cap st') (d_comp st').
Proof.
  induction cs as [|c cs IH]; intros st bs Hb Hc H0; cbn [emit].
  - exists st, bs. rewrite total_nil. split; [reflexivity|]. split; [exact Hb|]. split; [lia | exact Hc].
  - destruct (dynamic_step_cap st c bs Hb Hc H0) as (st1 & bs1 & E1 & Hb1 & Hc1 & Hk1). rewrite E1.
    pose proof (zlen_nonneg c).
    destruct (IH st1 bs1 Hb1 Hk1) as (st2 & bs2 & E2 & Hb2 & Hc2 & Hk2); [lia|].
    exists st2, bs2. split; [exact E2|]. split; [exact Hb2|]. split; [|exact Hk2].
    rewrite Hc2, Hc1, total_cons. ring.
Qed.

(* the allocation asn_encode_to_new_buffer starts with: MALLOC(16) *)
Definition dyn_start : dstate := {| d_buf := Some []; d_cap := 16; d_comp := 0; d_allocs := 0; d_bad := false |}.

(* every chunk list: the final allocation is the least 16 * 2^j strictly above the total *)
Theorem new_buffer_capacity : forall cs,
  exists st, emit (dynamic_cb no_fail) dyn_start cs = (st, true) /\
             d_comp st = total cs /\ cap_ok (d_cap st) (total cs).
Proof.
  intros cs.
  destruct (emit_dynamic_cap cs dyn_start [] eq_refl) as (st & bs & E & _ & Hc & Hk).
  - unfold dyn_start, cap_ok. cbn [d_cap d_comp]. split; [exists O; reflexivity|]. split; [lia | left; reflexivity].
  - cbn. lia.
  - exists st. change (d_comp dyn_start) with 0 in Hc. rewrite Z.add_0_l in Hc. rewrite Hc in Hk.
    split; [exact E|]. split; [exact Hc | exact Hk].
Qed.

(* cap_ok determines the capacity: it IS "the least 16 * 2^j above the total" *)
Lemma pow2_lt_double (a b : nat) : (a < b)%nat -> 2 * 2 ^ Z.of_nat a <= 2 ^ Z.of_nat b.
Proof.
  intros H. replace b with (S a + (b - S a))%nat by lia. rewrite pow2_add, pow2_S.
  pose proof (pow2_pos a). pose proof (pow2_pos (b - S a)). nia.
Qed.

Theorem cap_ok_unique : forall c1 c2 n, 0 <= n -> cap_ok c1 n -> cap_ok c2 n -> c1 = c2.
Proof.
  intros c1 c2 n Hn [[j1 H1] [L1 M1]] [[j2 H2] [L2 M2]].
  destruct (Nat.lt_trichotomy j1 j2) as [H|[H|H]].
  - pose proof (pow2_lt_double j1 j2 H). pose proof (pow2_pos j1).
    destruct M2 as [E|E]; lia.
  - subst j2. lia.
  - pose proof (pow2_lt_double j2 j1 H). pose proof (pow2_pos j2).
    destruct M1 as [E|E]; lia.
Qed.

(* the totals the growth rule is most easily got wrong at: 2^k - 1, 2^k, 2^k + 1 (k >= 4).
   2^k - 1 still fits the allocation of 2^k with its terminator; 2^k and 2^k + 1 need 2^(k+1) *)
Theorem capacity_at_powers : forall k : nat, (4 <= k)%nat ->
  cap_ok (2 ^ Z.of_nat k) (2 ^ Z.of_nat k - 1) /\
  cap_ok (2 ^ Z.of_nat (S k)) (2 ^ Z.of_nat k) /\
  cap_ok (2 ^ Z.of_nat (S k)) (2 ^ Z.of_nat k + 1).
Proof.
  intros k Hk.
  assert (E : 2 ^ Z.of_nat k = 16 * 2 ^ Z.of_nat (k - 4)).
  { replace k with (4 + (k - 4))%nat at 1 by lia. rewrite pow2_add. reflexivity. }
  pose proof (pow2_pos (k - 4)) as Hp.
  assert (E' : 2 ^ Z.of_nat (S k) = 16 * 2 ^ Z.of_nat (S (k - 4))).
  { rewrite pow2_S, E, pow2_S. ring. }
  split; [|split].
  - split; [exists (k - 4)%nat; exact E|]. split; [lia|].
    destruct (Nat.eq_dec k 4) as [->|Hne]; [left; reflexivity | right].
    assert (2 <= 2 ^ Z.of_nat (k - 4)).
    { replace (k - 4)%nat with (S (k - 5)) by lia. rewrite pow2_S. pose proof (pow2_pos (k - 5)). lia. }
    lia.
  - split; [exists (S (k - 4)); exact E'|]. rewrite pow2_S. split; [lia | right; lia].
  - split; [exists (S (k - 4)); exact E'|]. rewrite pow2_S. split; [lia | right; lia].
Qed.
