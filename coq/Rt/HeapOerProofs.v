(* Rt/HeapOerProofs.v — C15: the heap of the OER decoder of nested lists (model: HeapOer.v).

   oll_heap_linear       per-element guard: for EVERY nesting depth, every leaf, every input
                         2 * peak <= 3 * (ca t * octets + cb t)         (constants of the type only)
   upfront_quadratic     up-front test instead: Rows ::= SEQUENCE OF Row, Row ::= SEQUENCE OF NULL,
                         K rows each announcing the octets behind it: RC_OK, 9K + 9 octets of input,
                         live heap >= 18 * K * (K - 1)
   upfront_refuted       hence no c, K bound the up-front variant *)
From Coq Require Import ZArith List Bool Arith Lia ZifyBool.
From A1 Require Import Base.Bytes Rt.HeapBound Rt.HeapOer.
Import ListNotations.
Local Open Scope Z_scope.

Ltac simp := cbn [m_live m_peak m_maxreq m_allocs l_cap l_count r_rc r_rest r_used r_m fst snd].

(* ------------------------------------------------------------------ input primitives *)
Lemma take_le_spec : forall bs n a r, take_le n bs = Some (a, r) -> bs = a ++ r.
Proof.
  induction bs as [|b bs IH]; intros n a r H; cbn [take_le] in H.
  - destruct (n <=? 0); inversion H; reflexivity.
  - destruct (n <=? 0).
    + inversion H; reflexivity.
    + destruct (take_le (n - 1) bs) as [[a' r']|] eqn:E; [|discriminate].
      inversion H; subst. cbn [app]. f_equal. eapply IH; eassumption.
Qed.

Lemma take_le_len bs n a r : take_le n bs = Some (a, r) -> zlen r + zlen a = zlen bs.
Proof. intros H. apply take_le_spec in H. subst. rewrite zlen_app. lia. Qed.

Lemma take_le_app : forall a r, take_le (zlen a) (a ++ r) = Some (a, r).
Proof.
  induction a as [|x a IH]; intros r.
  - cbn [app]. change (zlen (@nil Z)) with 0. destruct r; reflexivity.
  - cbn [app take_le]. rewrite zlen_cons.
    pose proof (zlen_nonneg a) as Hn.
    destruct (zlen a + 1 <=? 0) eqn:E; [lia|].
    replace (zlen a + 1 - 1) with (zlen a) by lia. rewrite IH. reflexivity.
Qed.

Lemma qnum_spec os r u q r' u' : qnum os r u = QOk q r' u' -> r' = r /\ u' = u /\ q = be_val os.
Proof.
  unfold qnum. destruct (8 <? zlen (strip0 os)); [discriminate|].
  destruct (rsize_max <? be_val os); [discriminate|].
  intros H; inversion H; auto.
Qed.

Lemma fetch_len_spec bs q r u : fetch_len bs = QOk q r u -> zlen r + u = zlen bs /\ 1 <= u.
Proof.
  unfold fetch_len. destruct bs as [|b r0]; [discriminate|].
  destruct (b <? 128).
  - intros H; inversion H; subst. rewrite zlen_cons. lia.
  - destruct (take_le (b - 128) r0) as [[os r']|] eqn:E; [|discriminate].
    intros H. apply qnum_spec in H. destruct H as (-> & -> & _).
    apply take_le_len in E. rewrite zlen_cons. pose proof (zlen_nonneg os). lia.
Qed.

Lemma fetch_qty_spec bs q r u : fetch_qty bs = QOk q r u -> zlen r + u = zlen bs /\ 1 <= u.
Proof.
  unfold fetch_qty. destruct (fetch_len bs) as [| |len r1 u1] eqn:E; try discriminate.
  apply fetch_len_spec in E. destruct E as [E1 E2].
  destruct (take_le len r1) as [[os r']|] eqn:T; [|discriminate].
  intros H. apply qnum_spec in H. destruct H as (-> & -> & _).
  apply take_le_len in T. pose proof (zlen_nonneg os). lia.
Qed.

Lemma has_skipn : forall w bs, has w bs = true -> zlen (skipn w bs) + Z.of_nat w = zlen bs.
Proof.
  induction w as [|w IH]; intros bs H.
  - cbn [skipn]. lia.
  - destruct bs as [|b bs]; [discriminate|]. cbn [has] in H. cbn [skipn].
    rewrite zlen_cons. specialize (IH bs H). lia.
Qed.

(* ------------------------------------------------------------------ the meter *)
(* upper invariant: the peak is at most 3/2 of what is live (a doubling array: old + new block) *)
Definition mok (m : meter) : Prop := 0 <= m_live m /\ 2 * m_peak m <= 3 * m_live m.

(* the list under construction: its array is part of the live heap, capacity at most 2 * count + 2 *)
Definition lok (m : meter) (l : lst) : Prop :=
  0 <= l_cap l /\ 8 * l_cap l <= m_live m /\ 0 <= l_count l /\ l_cap l <= 2 * l_count l + 2.

Lemma mok_m0 : mok m0.
Proof. unfold mok, m0; simp. lia. Qed.

Lemma mok_malloc m n : mok m -> 0 <= n -> mok (m_malloc m n) /\ m_live (m_malloc m n) = m_live m + n.
Proof. unfold mok, m_malloc; simp. lia. Qed.

Lemma set_add_ok' m l : mok m -> lok m l ->
  let '(m2, l2) := set_add m l in
  mok m2 /\ lok m2 l2 /\ m_live m2 - 8 * l_cap l2 = m_live m - 8 * l_cap l /\
  l_count l2 = l_count l + 1 /\ m_live m <= m_live m2.
Proof.
  unfold set_add, mok, lok. intros [M1 M2] (L1 & L2 & L3 & L4).
  destruct (l_count l =? l_cap l) eqn:E1.
  - destruct (l_cap l =? 0) eqn:E2; cbn [m_realloc m_live m_peak l_count l_cap]; lia.
  - cbn [m_live m_peak l_count l_cap]. lia.
Qed.

Lemma set_add_ok m l m2 l2 : set_add m l = (m2, l2) -> mok m -> lok m l ->
  mok m2 /\ lok m2 l2 /\ m_live m2 - 8 * l_cap l2 = m_live m - 8 * l_cap l /\
  l_count l2 = l_count l + 1 /\ m_live m <= m_live m2.
Proof. intros H Hm Hl. pose proof (set_add_ok' m l Hm Hl) as X. rewrite H in X. exact X. Qed.

(* ------------------------------------------------------------------ element decoders *)
(* what the element loop needs to know about the decoder of its elements:
   A, B = the constants of its own bound, z = its width class *)
Definition dec_ok (A B : Z) (z : bool) (dec : list Z -> meter -> res) : Prop :=
  forall bs m, mok m ->
    mok (r_m (dec bs m)) /\ m_live m <= m_live (r_m (dec bs m)) /\
    m_live (r_m (dec bs m)) <= m_live m + A * r_used (dec bs m) + B /\
    0 <= r_used (dec bs m) /\ zlen (r_rest (dec bs m)) + r_used (dec bs m) = zlen bs /\
    (r_rc (dec bs m) = ROk -> if z then r_used (dec bs m) = 0 else 1 <= r_used (dec bs m)).

Ltac inv H := apply pair_equal_spec in H; destruct H as [<- <-].
Ltac fin := simp; unfold mok, lok in *; repeat split; try lia.

Section Loop.
  Variable g : gpol.
  Variable dec : list Z -> meter -> res.
  Variables A B : Z.
  Hypothesis HA : 0 <= A.
  Hypothesis HB : 0 <= B.

  (* elements that cost at least one octet each: as many as octets consumed, whatever the guard *)
  Lemma items_pos : dec_ok A B false dec ->
    forall fuel left done fresh u bs m l r l',
    mok m -> lok m l ->
    oll_items g dec fuel left done fresh u bs m l = (r, l') ->
    mok (r_m r) /\ lok (r_m r) l' /\ u <= r_used r /\ zlen (r_rest r) + (r_used r - u) = zlen bs /\
    (m_live (r_m r) - 8 * l_cap l') <= (m_live m - 8 * l_cap l) + (A + B) * (r_used r - u) + B /\
    l_count l' <= l_count l + (r_used r - u) /\ m_live m <= m_live (r_m r).
  Proof.
    intros Hd. induction fuel as [|f IH]; intros left done fresh u bs m l r l' Hm Hl H; cbn [oll_items] in H.
    - destruct (left <=? 0); inv H; fin.
    - destruct (left <=? 0); [inv H; fin|].
      destruct (Hd bs m Hm) as (D1 & D2 & D3 & D4 & D5 & D6).
      set (r0 := dec bs m) in *.
      assert (Hl0 : lok (r_m r0) l) by (unfold lok in *; lia).
      assert (Hmul0 : 0 <= B * r_used r0) by nia.
      destruct (r_rc r0) eqn:Erc.
      + specialize (D6 eq_refl). cbn beta iota in D6.
        destruct (set_add (r_m r0) l) as [m2 l2] eqn:Es.
        destruct (set_add_ok _ _ _ _ Es D1 Hl0) as (S1 & S2 & S3 & S4 & S5).
        assert (Hmul : B <= B * r_used r0) by nia.
        destruct (is_per g && (fresh && (r_used r0 =? 0)) && (200 <? done)).
        * inv H; fin.
        * apply IH in H; [|assumption|assumption].
          destruct H as (R1 & R2 & R3 & R4 & R5 & R6 & R7). fin.
      + inv H; fin.
      + inv H; fin.
      + inv H; fin.
  Qed.
End Loop.

Section LoopZero.
  Variable dec : list Z -> meter -> res.
  Variables A B : Z.
  Hypothesis HA : 0 <= A.
  Hypothesis HB : 0 <= B.

  (* zero-width elements under the per-element guard: the 202nd one is the last *)
  Lemma items_zero : dec_ok A B true dec ->
    forall fuel left done u bs m l r l',
    mok m -> lok m l -> 0 <= done <= 201 ->
    oll_items PerElement dec fuel left done true u bs m l = (r, l') ->
    mok (r_m r) /\ lok (r_m r) l' /\ u <= r_used r /\ zlen (r_rest r) + (r_used r - u) = zlen bs /\
    (m_live (r_m r) - 8 * l_cap l') <= (m_live m - 8 * l_cap l) + A * (r_used r - u) + B * (202 - done) /\
    l_count l' <= l_count l + (202 - done) /\ m_live m <= m_live (r_m r).
  Proof.
    intros Hd. induction fuel as [|f IH]; intros left done u bs m l r l' Hm Hl Hdn H; cbn [oll_items] in H.
    - assert (Hmul : B * done <= 201 * B) by nia.
      destruct (left <=? 0); inv H; fin.
    - assert (Hmul : B * done <= 201 * B) by nia.
      destruct (left <=? 0); [inv H; fin|].
      destruct (Hd bs m Hm) as (D1 & D2 & D3 & D4 & D5 & D6).
      set (r0 := dec bs m) in *.
      assert (Hl0 : lok (r_m r0) l) by (unfold lok in *; lia).
      destruct (r_rc r0) eqn:Erc.
      + specialize (D6 eq_refl). cbn beta iota in D6.
        destruct (set_add (r_m r0) l) as [m2 l2] eqn:Es.
        destruct (set_add_ok _ _ _ _ Es D1 Hl0) as (S1 & S2 & S3 & S4 & S5).
        rewrite D6 in H. cbn [is_per andb Z.eqb] in H.
        rewrite D6 in D3. rewrite Z.mul_0_r in D3.
        destruct (200 <? done) eqn:E200.
        * inv H; fin.
        * apply IH in H; [|assumption|assumption|lia].
          destruct H as (R1 & R2 & R3 & R4 & R5 & R6 & R7). fin.
      + inv H; fin.
      + inv H; fin.
      + inv H; fin.
  Qed.
End LoopZero.

(* ------------------------------------------------------------------ every type *)
Lemma zw_ca e : zw e = true -> ca e = 0.
Proof. destruct e as [[|w] esz|e]; simp; intros; try discriminate; reflexivity. Qed.

Lemma ca_cb_nonneg : forall t, wf t -> 0 <= ca t /\ 0 <= cb t.
Proof.
  induction t as [w esz|e IH]; cbn [wf ca cb]; intros H.
  - lia.
  - destruct (IH H). unfold lhd. destruct (zw e); lia.
Qed.

Lemma lok_l0 m : mok m -> lok m l0.
Proof. unfold mok, lok, l0; simp. lia. Qed.

Theorem oll_dec_ok : forall t, wf t -> forall F, dec_ok (ca t) (cb t) (zw t) (oll_dec PerElement F t).
Proof.
  induction t as [w esz|e IH]; intros Hwf F bs m Hm.
  - cbn [wf] in Hwf. cbn [oll_dec ca cb]. destruct (has w bs) eqn:Eh; cbn [r_m r_used r_rest r_rc].
    + destruct (mok_malloc m esz Hm Hwf) as [M1 M2]. apply has_skipn in Eh.
      unfold mok in *; repeat split; try lia.
      intros _. destruct w; cbn [zw]; lia.
    + unfold mok in *; repeat split; try lia. discriminate.
  - cbn [wf] in Hwf. specialize (IH Hwf F).
    destruct (ca_cb_nonneg e Hwf) as [HA HB].
    destruct (mok_malloc m lhd Hm ltac:(unfold lhd; lia)) as [M1 M2].
    cbn [oll_dec]. set (m1 := m_malloc m lhd) in *.
    assert (Hcb : lhd <= cb (LList e)) by (cbn [cb]; unfold lhd; destruct (zw e); lia).
    destruct (ca_cb_nonneg (LList e) Hwf) as [HA' HB'].
    pose proof lhd as Hhd_dummy; clear Hhd_dummy.
    assert (Hhd : lhd = 48) by reflexivity.
    destruct (fetch_qty bs) as [| |q r u] eqn:Eq; cbn [is_upfront andb].
    + cbn [r_m r_used r_rest r_rc]. unfold mok in *; repeat split; try lia. discriminate.
    + cbn [r_m r_used r_rest r_rc]. unfold mok in *; repeat split; try lia. discriminate.
    + apply fetch_qty_spec in Eq. destruct Eq as [Q1 Q2].
      destruct (oll_items PerElement (oll_dec PerElement F e) F q 0 true u r m1 l0) as [r1 l1] eqn:Ei.
      cbn [fst]. cbn [zw].
      destruct (zw e) eqn:Ez.
      * pose proof (zw_ca e Ez) as Hca0.
        assert (Hd0 : 0 <= 0 <= 201) by lia.
        destruct (items_zero _ (ca e) (cb e) HB IH _ _ _ _ _ _ _ _ _ M1 (lok_l0 _ M1) Hd0 Ei)
          as (R1 & R2 & R3 & R4 & R5 & R6 & R7).
        rewrite Hca0 in R5. cbn [l0 l_cap l_count] in R5, R6.
        unfold lok in R2. cbn [ca cb]. rewrite Ez.
        unfold mok in *; repeat split; try lia.
      * destruct (items_pos PerElement _ (ca e) (cb e) HB IH _ _ _ _ _ _ _ _ _ _ M1 (lok_l0 _ M1) Ei)
          as (R1 & R2 & R3 & R4 & R5 & R6 & R7).
        cbn [l0 l_cap l_count] in R5, R6.
        unfold lok in R2. cbn [ca cb]. rewrite Ez.
        assert (Hmul : 0 <= (ca e + cb e) * u) by nia.
        unfold mok in *; repeat split; try lia.
Qed.

(* the per-element guard: heap linear in the input for every nesting depth and every leaf *)
Theorem oll_heap_linear : forall t bs, wf t ->
  2 * m_peak (r_m (oll_run PerElement t bs)) <= 3 * (ca t * zlen bs + cb t).
Proof.
  intros t bs Hwf. unfold oll_run.
  destruct (oll_dec_ok t Hwf (length bs + 202)%nat bs m0 mok_m0) as (D1 & D2 & D3 & D4 & D5 & _).
  destruct (ca_cb_nonneg t Hwf) as [HA HB].
  set (r := oll_dec PerElement (length bs + 202) t bs m0) in *.
  pose proof (zlen_nonneg (r_rest r)).
  assert (ca t * r_used r <= ca t * zlen bs) by (apply Z.mul_le_mono_nonneg_l; lia).
  unfold mok in D1. unfold m0 in D3. cbn [m_live] in D3. lia.
Qed.

(* Rows ::= SEQUENCE OF Row, Row ::= SEQUENCE OF NULL: peak <= 6180 * octets + 6252 *)
Theorem null_rows_heap_linear : forall bs,
  m_peak (r_m (oll_run PerElement null_rows bs)) <= 6180 * zlen bs + 6252.
Proof.
  intros bs. pose proof (oll_heap_linear null_rows bs) as H.
  assert (W : wf null_rows) by (cbn; lia). specialize (H W).
  change (ca null_rows) with 4120 in H. change (cb null_rows) with 4168 in H. lia.
Qed.

(* ------------------------------------------------------------------ the up-front test is quadratic *)
Definition lo (m : meter) (l : lst) : Prop := 0 <= l_cap l /\ m_live m <= m_peak m.

Lemma lo_malloc m l n : lo m l -> lo (m_malloc m n) l /\ m_live (m_malloc m n) = m_live m + n.
Proof. unfold lo, m_malloc; simp. lia. Qed.

Lemma set_add_lo' m l : lo m l -> let '(m2, l2) := set_add m l in lo m2 l2 /\ m_live m <= m_live m2.
Proof.
  unfold set_add, lo. intros [L1 L2].
  destruct (l_count l =? l_cap l).
  - destruct (l_cap l =? 0) eqn:E2; cbn [m_realloc m_live m_peak l_count l_cap]; lia.
  - cbn [m_live m_peak l_count l_cap]. lia.
Qed.

Lemma set_add_lo m l m2 l2 : set_add m l = (m2, l2) -> lo m l -> lo m2 l2 /\ m_live m <= m_live m2.
Proof. intros H Hl. pose proof (set_add_lo' m l Hl) as X. rewrite H in X. exact X. Qed.

Lemma strip0_len : forall bs, zlen (strip0 bs) <= zlen bs.
Proof.
  induction bs as [|b bs IH]; cbn [strip0]; [lia|].
  destruct (b =? 0); [rewrite zlen_cons; lia|lia].
Qed.

Lemma qhdr_fetch q r : 0 <= q <= rsize_max -> fetch_qty (qhdr q ++ r) = QOk q r 9.
Proof.
  intros Hq. unfold qhdr, fetch_qty, fetch_len. cbn [app].
  change (8 <? 128) with true. cbn beta iota.
  pose proof (take_le_app (be_bytes 8 q) r) as E.
  assert (L8 : zlen (be_bytes 8 q) = 8) by (unfold zlen; rewrite be_bytes_length; reflexivity).
  rewrite L8 in E. rewrite E. unfold qnum.
  pose proof (strip0_len (be_bytes 8 q)) as Hs. rewrite L8 in Hs.
  destruct (8 <? zlen (strip0 (be_bytes 8 q))) eqn:E8; [lia|].
  rewrite be_val_be_bytes. change (256 ^ Z.of_nat 8) with 18446744073709551616.
  unfold rsize_max in *. rewrite Z.mod_small by lia.
  destruct (9223372036854775807 <? q) eqn:E9; [lia|].
  rewrite L8. reflexivity.
Qed.

(* k zero-width NULLs, no per-element test: all of them are allocated, nothing is consumed *)
Lemma null_loop F : forall k fuel done fresh u bs m l r l',
  (k <= fuel)%nat -> lo m l ->
  oll_items UpFront (oll_dec UpFront F (LLeaf 0 4)) fuel (Z.of_nat k) done fresh u bs m l = (r, l') ->
  r_rc r = ROk /\ r_rest r = bs /\ r_used r = u /\ m_live m + 4 * Z.of_nat k <= m_live (r_m r) /\ lo (r_m r) l'.
Proof.
  induction k as [|k IH]; intros fuel done fresh u bs m l r l' Hf Hlo H.
  - destruct fuel; cbn [oll_items] in H; change (Z.of_nat 0 <=? 0) with true in H; cbn beta iota in H;
      inv H; simp; unfold lo in *; repeat split; try lia.
  - destruct fuel as [|f]; [lia|]. cbn [oll_items] in H.
    destruct (Z.of_nat (S k) <=? 0) eqn:E; [lia|].
    cbn [oll_dec has skipn r_rc r_m r_used r_rest] in H.
    destruct (lo_malloc m l 4 Hlo) as [A1 A2].
    destruct (set_add (m_malloc m 4) l) as [m2 l2] eqn:Es.
    destruct (set_add_lo _ _ _ _ Es A1) as [B1 B2].
    cbn [is_per andb] in H.
    replace (Z.of_nat (S k) - 1) with (Z.of_nat k) in H by lia.
    apply IH in H; [|lia|assumption].
    destruct H as (R1 & R2 & R3 & R4 & R5).
    change (Z.of_nat 0) with 0 in R3.
    unfold lo in *; repeat split; try assumption; try lia.
Qed.

Lemma oll_dec_list g F e bs m : oll_dec g F (LList e) bs m =
  match fetch_qty bs with
  | QMore => mkR RMore bs 0 (m_malloc m lhd)
  | QFail => mkR RFail bs 0 (m_malloc m lhd)
  | QOk q r u => if is_upfront g && (200 <? q) && (zlen r <? q) then mkR RMore bs 0 (m_malloc m lhd)
                 else fst (oll_items g (oll_dec g F e) F q 0 true u r (m_malloc m lhd) l0)
  end.
Proof. reflexivity. Qed.

(* one row that announces exactly the octets behind it *)
Lemma row_dec F r m l : zlen r <= rsize_max -> (length r <= F)%nat -> lo m l ->
  let x := oll_dec UpFront F (LList (LLeaf 0 4)) (qhdr (zlen r) ++ r) m in
  r_rc x = ROk /\ r_rest x = r /\ r_used x = 9 /\ m_live m + 4 * zlen r <= m_live (r_m x) /\ lo (r_m x) l.
Proof.
  intros Hq HF Hlo. cbn zeta. rewrite oll_dec_list.
  rewrite qhdr_fetch by (pose proof (zlen_nonneg r); lia).
  cbn [is_upfront]. rewrite Z.ltb_irrefl, andb_false_r.
  destruct (oll_items UpFront (oll_dec UpFront F (LLeaf 0 4)) F (zlen r) 0 true 9 r (m_malloc m lhd) l0) as [x l'] eqn:E.
  cbn [fst]. unfold zlen in E.
  destruct (lo_malloc m l0 lhd) as [A1 A2]; [unfold lo, l0 in *; simp; lia|].
  apply null_loop in E; [|assumption|assumption].
  destruct E as (R1 & R2 & R3 & R4 & R5).
  unfold zlen. unfold lhd in *. unfold lo in *. repeat split; try assumption; lia.
Qed.

Fixpoint tri (j : nat) : Z := match j with O => 0 | S j' => tri j' + Z.of_nat j' end.

Lemma tri_closed : forall j, 2 * tri j = Z.of_nat j * (Z.of_nat j - 1).
Proof. induction j as [|j IH]; [reflexivity|]. cbn [tri]. nia. Qed.

Lemma rows_len : forall j, zlen (rows j) = 9 * Z.of_nat j.
Proof.
  induction j as [|j IH]; [reflexivity|].
  cbn [rows]. rewrite zlen_app. unfold qhdr. rewrite zlen_cons.
  unfold zlen at 1. rewrite be_bytes_length. lia.
Qed.

Lemma rows_loop F : forall j fuel done fresh u m l r l',
  (j <= fuel)%nat -> (length (rows j) <= F)%nat -> 9 * Z.of_nat j <= rsize_max -> lo m l ->
  oll_items UpFront (oll_dec UpFront F (LList (LLeaf 0 4))) fuel (Z.of_nat j) done fresh u (rows j) m l = (r, l') ->
  r_rc r = ROk /\ r_rest r = [] /\ r_used r = u + 9 * Z.of_nat j /\ m_live m + 36 * tri j <= m_live (r_m r) /\ lo (r_m r) l'.
Proof.
  induction j as [|j IH]; intros fuel done fresh u m l r l' Hf HF Hq Hlo H.
  - destruct fuel; cbn [oll_items] in H; change (Z.of_nat 0 <=? 0) with true in H; cbn beta iota in H;
      inv H; simp; cbn [tri rows]; unfold lo in *; repeat split; try lia.
  - destruct fuel as [|f]; [lia|]. cbn [oll_items] in H.
    destruct (Z.of_nat (S j) <=? 0) eqn:E; [lia|].
    cbn [rows] in H, HF.
    assert (HF' : (length (rows j) <= F)%nat) by (rewrite app_length in HF; lia).
    pose proof (rows_len j) as HL.
    destruct (row_dec F (rows j) m l ltac:(lia) HF' Hlo) as (X1 & X2 & X3 & X4 & X5).
    set (x := oll_dec UpFront F (LList (LLeaf 0 4)) (qhdr (zlen (rows j)) ++ rows j) m) in *.
    rewrite X1 in H.
    destruct (set_add (r_m x) l) as [m2 l2] eqn:Es.
    destruct (set_add_lo _ _ _ _ Es X5) as [B1 B2].
    cbn [is_per andb] in H. rewrite X2, X3 in H.
    replace (Z.of_nat (S j) - 1) with (Z.of_nat j) in H by lia.
    apply IH in H; [|lia|assumption|lia|assumption].
    destruct H as (R1 & R2 & R3 & R4 & R5).
    cbn [tri]. unfold lo in *; repeat split; try assumption; try lia.
Qed.

(* the up-front variant on the family [bomb K]: accepted, and the heap is quadratic in the input *)
Theorem upfront_quadratic : forall K : nat, 9 * Z.of_nat K + 9 <= rsize_max ->
  let x := oll_run UpFront null_rows (bomb K) in
  r_rc x = ROk /\ zlen (bomb K) = 9 * Z.of_nat K + 9 /\
  18 * Z.of_nat K * (Z.of_nat K - 1) <= m_live (r_m x) /\ m_live (r_m x) <= m_peak (r_m x).
Proof.
  intros K HK. cbn zeta.
  assert (HLb : zlen (bomb K) = 9 * Z.of_nat K + 9).
  { unfold bomb. rewrite zlen_app, rows_len. unfold qhdr. rewrite zlen_cons.
    unfold zlen at 1. rewrite be_bytes_length. lia. }
  unfold oll_run, null_rows.
  set (F := (length (bomb K) + 202)%nat).
  rewrite oll_dec_list. unfold bomb. rewrite qhdr_fetch by lia.
  cbn [is_upfront]. rewrite rows_len.
  assert (Eu : (200 <? Z.of_nat K) && (9 * Z.of_nat K <? Z.of_nat K) = false).
  { destruct (9 * Z.of_nat K <? Z.of_nat K) eqn:E; [lia|]. apply andb_false_r. }
  cbn [andb]. rewrite Eu.
  destruct (oll_items UpFront (oll_dec UpFront F (LList (LLeaf 0 4))) F (Z.of_nat K) 0 true 9 (rows K) (m_malloc m0 lhd) l0) as [x l'] eqn:E.
  cbn [fst].
  assert (HF1 : (K <= F)%nat) by (unfold F, zlen in *; lia).
  assert (HF2 : (length (rows K) <= F)%nat) by (unfold F, bomb; rewrite app_length; lia).
  assert (Hlo : lo (m_malloc m0 lhd) l0) by (unfold lo, m_malloc, m0, l0, lhd; simp; lia).
  apply rows_loop in E; [|assumption|assumption|lia|assumption].
  destruct E as (R1 & R2 & R3 & R4 & R5).
  pose proof (tri_closed K) as HT.
  unfold m_malloc, m0, lhd in R4. cbn [m_live] in R4.
  unfold lo in R5.
  repeat split; try assumption; try lia.
Qed.

(* no linear bound for the up-front variant (within the size_t range of the quantity field) *)
Theorem upfront_refuted : forall c K0 : Z, 0 <= c -> 0 <= K0 -> c + K0 <= 1000000000000000 ->
  exists bs, r_rc (oll_run UpFront null_rows bs) = ROk /\
             c * zlen bs + K0 < m_peak (r_m (oll_run UpFront null_rows bs)).
Proof.
  intros c K0 Hc HK Hb.
  set (K := Z.to_nat (c + K0 + 3)).
  assert (EK : Z.of_nat K = c + K0 + 3) by (unfold K; rewrite Z2Nat.id; lia).
  exists (bomb K).
  destruct (upfront_quadratic K ltac:(unfold rsize_max; lia)) as (Q1 & Q2 & Q3 & Q4).
  split; [exact Q1|]. rewrite Q2. rewrite EK in *. nia.
Qed.

(* the same family under the per-element guard stays under the linear bound (instance of oll_heap_linear) *)
Corollary bomb_per_element : forall K : nat,
  m_peak (r_m (oll_run PerElement null_rows (bomb K))) <= 6180 * zlen (bomb K) + 6252.
Proof. intros K. apply null_rows_heap_linear. Qed.
