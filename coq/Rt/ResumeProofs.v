(* Rt/ResumeProofs.v — proofs about Rt/Resume.v (C05). *)
From Coq Require Import ZArith List Lia Bool ZifyBool.
From A1 Require Import Base.Bytes Leaf.IntegerConv Leaf.BerTL Leaf.BerTLProofs
  Rt.Types Rt.TypesInd Rt.Comb Rt.Der Rt.DerProofs Rt.Resume.
Import ListNotations.
Local Open Scope Z_scope.

(* ------------------------------------------------------------------ *)
(* 1. coherent machines are chunk independent                          *)

Section Generic.
  Variable ctx : Type.
  Variable step : ctx -> list Z -> code * nat * ctx.
  Hypothesis Hco : coherent step.

  Lemma shift_shift (a b : nat) (r : code * nat * ctx) : shift a (shift b r) = shift (a + b) r.
  Proof. destruct r as [[c n] x]. unfold shift. f_equal. f_equal. lia. Qed.

  Lemma shift_0 (r : code * nat * ctx) : shift 0 r = r.
  Proof. destruct r as [[c n] x]. reflexivity. Qed.

  (* the invariant of the feeding loop *)
  Lemma feed_general : forall chunks c pending total, chunks <> [] ->
    feed step c pending total chunks = shift total (step c (pending ++ concat chunks)).
  Proof.
    destruct Hco as [Hres Hfin].
    induction chunks as [|ch rest IH]; intros c pending total Hne; [congruence|].
    cbn [feed concat]. rewrite app_assoc.
    set (w := pending ++ ch).
    destruct (step c w) as [[r k] c'] eqn:Es.
    destruct r.
    - (* RC_OK is final *)
      rewrite (Hfin c w OK k c' Es ltac:(discriminate) (concat rest)). reflexivity.
    - (* RC_WMORE *)
      destruct (Hres c w k c' Es) as [Hk Hext].
      destruct rest as [|r1 rs].
      + cbn [concat]. rewrite app_nil_r. rewrite Es. reflexivity.
      + rewrite IH by discriminate. rewrite Hext. rewrite shift_shift. reflexivity.
    - rewrite (Hfin c w FAIL k c' Es ltac:(discriminate) (concat rest)). reflexivity.
  Qed.

  (* C05, first half, for every coherent machine: whatever the chunking —
     any number of chunks, of any sizes, empty chunks included — the final
     code, the total consumed count and the final context (the value) are
     those of the one-shot call. *)
  Theorem coherent_implies_chunk_independent : forall (c0 : ctx) (input : list Z) (chunks : list (list Z)),
    chunking_of input chunks -> feed0 step c0 chunks = step c0 input.
  Proof.
    intros c0 input chunks [Hne Hcat]. unfold feed0.
    rewrite feed_general by exact Hne. cbn [app]. rewrite Hcat. apply shift_0.
  Qed.

  Lemma concat_bytewise (l : list Z) : concat (bytewise l) = l.
  Proof. induction l as [|a l IH]; cbn; [reflexivity|]. f_equal. exact IH. Qed.

  (* one byte at a time *)
  Corollary coherent_bytewise : forall (c0 : ctx) (input : list Z), input <> [] ->
    feed0 step c0 (bytewise input) = step c0 input.
  Proof.
    intros c0 input Hne. apply coherent_implies_chunk_independent. split.
    - destruct input; [congruence|discriminate].
    - apply concat_bytewise.
  Qed.

  (* what coherence alone says about prefixes: if the whole input gives RC_OK
     then a prefix gives RC_WMORE, or the very same RC_OK (same consumed count,
     same value) — never RC_FAIL *)
  Theorem coherent_prefix_of_ok : forall c0 p q k c',
    step c0 (p ++ q) = (OK, k, c') ->
    forall r1 k1 c1, step c0 p = (r1, k1, c1) ->
    r1 = MORE \/ (r1 = OK /\ k1 = k /\ c1 = c').
  Proof.
    destruct Hco as [_ Hfin]. intros c0 p q k c' Hw r1 k1 c1 Hp.
    destruct r1.
    - right. rewrite (Hfin c0 p OK k1 c1 Hp ltac:(discriminate) q) in Hw.
      injection Hw as -> ->. auto.
    - left. reflexivity.
    - rewrite (Hfin c0 p FAIL k1 c1 Hp ltac:(discriminate) q) in Hw. discriminate.
  Qed.
End Generic.

(* ------------------------------------------------------------------ *)
(* 2. the toy machine is coherent: the generic theorem is not vacuous   *)

Lemma firstn_app_le {A} (n : nat) (l m : list A) : (n <= length l)%nat -> firstn n (l ++ m) = firstn n l.
Proof.
  intros H. rewrite firstn_app. replace (n - length l)%nat with O by lia. cbn. apply app_nil_r.
Qed.

Lemma toy_body_resumable need acc p k c' : toy_body need acc p = (MORE, k, c') ->
  (k <= length p)%nat /\
  forall more, toy_body need acc (p ++ more) = shift k (toy_step c' (skipn k p ++ more)).
Proof.
  unfold toy_body. destruct (need <=? length p)%nat eqn:E; [discriminate|].
  intros H. injection H as <- <-. split; [lia|]. intros more.
  rewrite skipn_all. cbn [app toy_step]. unfold toy_body.
  rewrite app_length.
  destruct (need <=? length p + length more)%nat eqn:E2.
  - destruct (need - length p <=? length more)%nat eqn:E3; [|lia].
    unfold shift. replace (length p + (need - length p))%nat with need by lia.
    rewrite firstn_app. rewrite (firstn_all2 p) by lia. rewrite <- app_assoc. reflexivity.
  - destruct (need - length p <=? length more)%nat eqn:E3; [lia|].
    unfold shift. replace (need - length p - length more)%nat with (need - (length p + length more))%nat by lia.
    rewrite <- app_assoc. reflexivity.
Qed.

Lemma toy_body_final need acc p r k c' : toy_body need acc p = (r, k, c') -> r <> MORE ->
  forall more, toy_body need acc (p ++ more) = (r, k, c').
Proof.
  unfold toy_body. destruct (need <=? length p)%nat eqn:E.
  - intros H _ more. rewrite app_length. destruct (need <=? length p + length more)%nat eqn:E2; [|lia].
    rewrite firstn_app_le by lia. exact H.
  - intros H Hr. injection H as <- _ _. congruence.
Qed.

Theorem toy_coherent : coherent toy_step.
Proof.
  split.
  - intros c p k c' H. destruct c as [[need acc]|].
    + cbn [toy_step] in *. apply toy_body_resumable. exact H.
    + cbn [toy_step] in H. destruct p as [|n tl].
      * injection H as <- <-. split; [cbn; lia|]. intros more. cbn [skipn app].
        destruct (toy_step None more) as [[a b] d]. reflexivity.
      * destruct ((n <? 0) || (255 <? n)) eqn:En; [discriminate|].
        destruct (toy_body (Z.to_nat n) [] tl) as [[r k0] c0] eqn:Eb.
        cbn [shift] in H. injection H as -> <- <-.
        destruct (toy_body_resumable _ _ _ _ _ Eb) as [Hk Hext].
        split; [cbn [length]; lia|]. intros more.
        cbn [app toy_step]. rewrite En. rewrite Hext. cbn [skipn].
        destruct (toy_step c0 (skipn k0 tl ++ more)) as [[a b] d]. reflexivity.
  - intros c p r k c' H Hr more. destruct c as [[need acc]|].
    + cbn [toy_step] in *. eapply toy_body_final; eauto.
    + cbn [toy_step] in H. destruct p as [|n tl].
      * injection H as <- _ _. congruence.
      * cbn [app toy_step]. destruct ((n <? 0) || (255 <? n)) eqn:En; [exact H|].
        destruct (toy_body (Z.to_nat n) [] tl) as [[r0 k0] c0] eqn:Eb.
        cbn [shift] in H. injection H as -> <- <-.
        rewrite (toy_body_final _ _ _ _ _ _ Eb Hr more). reflexivity.
Qed.

(* a concrete session: 03 61 62 63 in the chunks [] [03] [61] [] [62 63 7a] *)
Example toy_session :
  feed0 toy_step None [[]; [3]; [97]; []; [98; 99; 122]] = (OK, 4%nat, Some (O, [97; 98; 99]))
  /\ toy_step None [3; 97; 98; 99; 122] = (OK, 4%nat, Some (O, [97; 98; 99])).
Proof. split; vm_compute; reflexivity. Qed.

(* ------------------------------------------------------------------ *)
(* 3. the fetchers under extension of the buffer (extends BerTLProofs):
      an answer other than "want more" does not change when bytes are
      appended; hence a buffer shorter than what a successful fetch
      consumed gives "want more" *)

Lemma fetch_tag_loop_ext buf : forall val sk more,
  match fetch_tag_loop buf val sk with
  | FMore => True
  | r => fetch_tag_loop (buf ++ more) val sk = r
  end.
Proof.
  induction buf as [|b tl IH]; intros val sk more; cbn [fetch_tag_loop app]; [exact I|].
  destruct (128 <=? b).
  - destruct (two23 <=? val * 128 + (b - 128)); [reflexivity|]. apply IH.
  - reflexivity.
Qed.

Lemma fetch_tag_ext buf more :
  match fetch_tag buf with
  | FMore => True
  | r => fetch_tag (buf ++ more) = r
  end.
Proof.
  destruct buf as [|b tl]; cbn [fetch_tag app]; [exact I|].
  destruct (b mod 32 =? 31); [|reflexivity].
  pose proof (fetch_tag_loop_ext tl 0 2 more) as H.
  destruct (fetch_tag_loop tl 0 2) eqn:E; [rewrite H; reflexivity|exact I|rewrite H; reflexivity].
Qed.

Lemma fetch_len_loop_ext oct : forall buf len sk more,
  match fetch_len_loop oct buf len sk with
  | FMore => True
  | r => fetch_len_loop oct (buf ++ more) len sk = r
  end.
Proof.
  induction oct as [|o IH]; intros buf len sk more; cbn [fetch_len_loop].
  - destruct ((len <? 0) || (rssize_max <? len)); reflexivity.
  - destruct buf as [|b tl]; cbn [app]; [exact I|].
    destruct (len <? two55); [apply IH|reflexivity].
Qed.

Lemma fetch_length_ext c buf more :
  match fetch_length c buf with
  | FMore => True
  | r => fetch_length c (buf ++ more) = r
  end.
Proof.
  destruct buf as [|b tl]; cbn [fetch_length app]; [exact I|].
  destruct (b <? 128); [reflexivity|].
  destruct (c && (b =? 128)); [reflexivity|].
  destruct (b =? 255); [reflexivity|].
  apply fetch_len_loop_ext.
Qed.

Lemma fetch_length_le c buf v n : fetch_length c buf = FOk v n -> (n <= length buf)%nat.
Proof.
  destruct buf as [|b tl]; cbn [fetch_length]; [discriminate|].
  destruct (b <? 128); [intros H; injection H as _ <-; cbn; lia|].
  destruct (c && (b =? 128)); [intros H; injection H as _ <-; cbn; lia|].
  destruct (b =? 255); [discriminate|].
  intros H. apply fetch_len_loop_consumed in H. cbn [length]. lia.
Qed.

Lemma fetch_tag_short p m t n : fetch_tag (p ++ m) = FOk t n -> (length p < n)%nat -> fetch_tag p = FMore.
Proof.
  intros H Hl. pose proof (fetch_tag_ext p m) as He.
  destruct (fetch_tag p) as [v n0| |] eqn:E; [|reflexivity|congruence].
  rewrite H in He. injection He as -> ->. apply fetch_tag_consumed in E. lia.
Qed.

Lemma fetch_length_short c p m v n : fetch_length c (p ++ m) = FOk v n -> (length p < n)%nat ->
  fetch_length c p = FMore.
Proof.
  intros H Hl. pose proof (fetch_length_ext c p m) as He.
  destruct (fetch_length c p) as [v0 n0| |] eqn:E; [|reflexivity|congruence].
  rewrite H in He. injection He as -> ->. apply fetch_length_le in E. lia.
Qed.

(* ------------------------------------------------------------------ *)
(* 4. headers of a TLV and their proper prefixes                        *)

Lemma tlv_open3_hdr tg c L rest : tag_good tg -> 0 <= L <= rssize_max ->
  tlv_open3 (tag_bytes tg c ++ len_serialize L ++ rest) = HOk tg c L rest.
Proof.
  intros Hg HL.
  destruct (tag_bytes_fetch tg c (len_serialize L ++ rest) Hg) as (Hf & b & tl & Hb & Hc & Hpos).
  unfold tlv_open3. rewrite Hb. rewrite <- Hb. rewrite Hf. rewrite Hc.
  rewrite skipn_app_length.
  rewrite (length_roundtrip L rest c) by lia.
  rewrite skipn_app_length. reflexivity.
Qed.

Lemma tlv_open3_nil : tlv_open3 [] = HMore.
Proof. reflexivity. Qed.

Lemma tlv_open3_tag_more p : fetch_tag p = FMore -> tlv_open3 p = HMore.
Proof. intros H. unfold tlv_open3. destruct p; [reflexivity|]. rewrite H. reflexivity. Qed.

(* a proper prefix of the identifier and length octets *)
Lemma tlv_open3_short tg c L p q : tag_good tg -> 0 <= L <= rssize_max ->
  p ++ q = tag_bytes tg c ++ len_serialize L -> q <> [] -> tlv_open3 p = HMore.
Proof.
  intros Hg HL E Hq.
  destruct (app_eq_app _ _ _ _ E) as [l [[Hp Hl]|[Ht Hl]]].
  - (* the identifier octets are complete, the length octets are not *)
    subst p.
    destruct (tag_bytes_fetch tg c l Hg) as (Hf & b & tl & Hb & Hc & Hpos).
    unfold tlv_open3. rewrite Hb. rewrite <- Hb. rewrite Hf. rewrite Hc.
    rewrite skipn_app_length.
    pose proof (length_roundtrip L [] c HL) as Hr. rewrite app_nil_r in Hr. rewrite Hl in Hr.
    rewrite (fetch_length_short c l q L _ Hr); [reflexivity|].
    rewrite app_length. destruct q; [congruence|cbn [length]; lia].
  - destruct l as [|x l'].
    + (* exactly the identifier octets *)
      rewrite app_nil_r in Ht. subst p. cbn [app] in Hl. subst q.
      destruct (tag_bytes_fetch tg c [] Hg) as (Hf & b & tl & Hb & Hc & Hpos).
      rewrite app_nil_r in Hf, Hb.
      unfold tlv_open3. rewrite Hb. rewrite <- Hb. rewrite Hf.
      rewrite skipn_all. reflexivity.
    + (* inside the identifier octets *)
      apply tlv_open3_tag_more.
      destruct (tag_bytes_fetch tg c [] Hg) as (Hf & _). rewrite app_nil_r in Hf.
      rewrite Ht in Hf.
      apply (fetch_tag_short p (x :: l') tg _ Hf).
      rewrite app_length. cbn [length]. lia.
Qed.

(* every proper prefix of a TLV: the header is incomplete, or the header is
   read and fewer contents octets than announced follow *)
Lemma tlv_prefix tg c content p q : tag_good tg -> zlen content <= rssize_max ->
  p ++ q = tlv tg c content -> q <> [] ->
  tlv_open3 p = HMore \/
  exists content', tlv_open3 p = HOk tg c (zlen content) content' /\ zlen content' < zlen content.
Proof.
  intros Hg HL E Hq. pose proof (zlen_nonneg content) as H0.
  unfold tlv in E. rewrite app_assoc in E.
  destruct (app_eq_app _ _ _ _ E) as [l [[Hp Hl]|[Ht Hl]]].
  - right. exists l. subst p. rewrite <- app_assoc. rewrite tlv_open3_hdr by (auto; lia).
    split; [reflexivity|]. rewrite Hl. rewrite zlen_app.
    destruct q; [congruence|]. rewrite zlen_cons. pose proof (zlen_nonneg q). lia.
  - destruct l as [|x l'].
    + right. exists []. rewrite app_nil_r in Ht. cbn [app] in Hl. subst q.
      rewrite <- Ht. replace (tag_bytes tg c ++ len_serialize (zlen content))
        with (tag_bytes tg c ++ len_serialize (zlen content) ++ []) by (rewrite app_nil_r; reflexivity).
      rewrite tlv_open3_hdr by (auto; lia). split; [reflexivity|].
      destruct content; [congruence|]. rewrite zlen_cons. pose proof (zlen_nonneg content).
      change (zlen (@nil Z)) with 0. lia.
    + left. apply (tlv_open3_short tg c (zlen content) p (x :: l') Hg); [lia|symmetry; exact Ht|discriminate].
Qed.

Lemma in_prim3_prefix {A} tg content p q (k : list Z -> option A) :
  tag_good tg -> zlen content <= rssize_max ->
  p ++ q = tlv tg false content -> q <> [] -> in_prim3 tg p k = RMore.
Proof.
  intros Hg HL E Hq. unfold in_prim3.
  destruct (tlv_prefix tg false content p q Hg HL E Hq) as [H|(c' & H & Hlt)]; rewrite H; [reflexivity|].
  rewrite Z.eqb_refl. pose proof (zlen_nonneg content).
  destruct (0 <=? zlen content) eqn:E1; [|lia]. cbn [andb].
  destruct (zlen content <=? zlen c') eqn:E2; [lia|reflexivity].
Qed.

Lemma in_cons3_prefix {A} tg content p q (k3 : list Z -> dres A) k2 :
  tag_good tg -> zlen content <= rssize_max ->
  p ++ q = tlv tg true content -> q <> [] -> in_cons3 tg p k3 k2 = RMore.
Proof.
  intros Hg HL E Hq. unfold in_cons3.
  destruct (tlv_prefix tg true content p q Hg HL E Hq) as [H|(c' & H & Hlt)]; rewrite H; [reflexivity|].
  rewrite Z.eqb_refl. pose proof (zlen_nonneg content).
  destruct (zlen content =? -1) eqn:E1; [lia|].
  destruct (zlen content <=? zlen c') eqn:E2; [lia|reflexivity].
Qed.

(* the tag of a (non-empty) prefix of an encoding, when it can be read, is the tag of the encoding *)
Lemma peek_tag3_prefix p q tg : peek_tag3 p = POk tg -> peek_tag (p ++ q) = Some tg.
Proof.
  unfold peek_tag3, peek_tag. intros H. pose proof (fetch_tag_ext p q) as He.
  destruct (fetch_tag p) as [v n| |] eqn:E; try discriminate. injection H as ->.
  rewrite He. reflexivity.
Qed.

Lemma peek_tag3_not_fail p q tg : peek_tag (p ++ q) = Some tg -> peek_tag3 p <> PFail.
Proof.
  unfold peek_tag3, peek_tag. intros H. pose proof (fetch_tag_ext p q) as He.
  destruct (fetch_tag p) as [v n| |] eqn:E; try discriminate.
  rewrite He in H. discriminate.
Qed.

(* ------------------------------------------------------------------ *)
(* 5. prefix_wmore                                                      *)

Definition PW (t : ty) : Prop := forall v bs p q,
  wf_ty t = true -> wt t v = true -> der t v = Some bs -> zlen bs <= rssize_max ->
  bs = p ++ q -> q <> [] -> ber_dec3 t p = RMore.

Lemma tlv_content_le tg c content : zlen (tlv tg c content) <= rssize_max -> zlen content <= rssize_max.
Proof. pose proof (tlv_length tg c content). lia. Qed.

Lemma alts_pw alts : Forall PW alts -> forall i k v p q tg,
  forallb wf_ty alts = true -> forallb not_opt alts = true -> alts_distinct alts = true ->
  wt (TChoice alts) (VChoice i v) = true -> enc_alt der v alts i = Some (p ++ q) ->
  zlen (p ++ q) <= rssize_max -> q <> [] ->
  peek_tag (p ++ q) = Some tg ->
  dec_alt3 ber_dec3 (fun _ a => tag_in tg (first_tags a)) p alts k = RMore.
Proof.
  induction 1 as [|a r Ha Hr IH]; intros i k v p q tg Hwf Hno Hdis Hwt He Hl Hq Hp;
    [destruct i; discriminate|].
  cbn [forallb] in Hwf, Hno. apply andb_true_iff in Hwf. destruct Hwf as [Hw Hwr].
  apply andb_true_iff in Hno. destruct Hno as [Hn Hnr].
  cbn [alts_distinct] in Hdis. apply andb_true_iff in Hdis. destruct Hdis as [Hd Hdr].
  cbn [dec_alt3]. destruct i as [|j]; cbn [enc_alt] in He; cbn [wt] in Hwt.
  - destruct (der_head a v (p ++ q) Hw Hn He) as (tg' & cc & content & Etlv & Hg & Hin).
    assert (tg' = tg).
    { rewrite Etlv in Hp. rewrite <- (app_nil_r (tlv tg' cc content)) in Hp.
      rewrite peek_tag_tlv in Hp by exact Hg. congruence. }
    subst tg'. apply tag_in_In in Hin. rewrite Hin.
    rewrite (Ha v (p ++ q) p q Hw Hwt He Hl eq_refl Hq). reflexivity.
  - assert (Hnot : tag_in tg (first_tags a) = false).
    { destruct (tag_in tg (first_tags a)) eqn:Et; [|reflexivity]. exfalso.
      apply tag_in_In in Et.
      clear IH Ha. revert j He Hwt. clear Hr.
      induction r as [|b r' IHr]; intros j He Hwt; [destruct j; discriminate|].
      cbn [forallb] in Hwr, Hnr, Hd. apply andb_true_iff in Hwr. destruct Hwr as [Hwb Hwr'].
      apply andb_true_iff in Hnr. destruct Hnr as [Hnb Hnr'].
      apply andb_true_iff in Hd. destruct Hd as [Hdb Hd'].
      cbn [alts_distinct] in Hdr. apply andb_true_iff in Hdr. destruct Hdr as [_ Hdr'].
      destruct j; cbn [enc_alt] in He.
      - destruct (der_head b v (p ++ q) Hwb Hnb He) as (tg' & cc & content & Etlv & Hg & Hin).
        rewrite Etlv in Hp. rewrite <- (app_nil_r (tlv tg' cc content)) in Hp.
        rewrite peek_tag_tlv in Hp by exact Hg. injection Hp as ->.
        eapply disjointb_spec; eauto.
      - eapply IHr; eauto. }
    rewrite Hnot.
    apply (IH j (S k) v p q tg Hwr Hnr Hdr Hwt He Hl Hq Hp).
Qed.

Theorem prefix_wmore_all t : PW t.
Proof.
  induction t using ty_ind'; intros v bs p q Hwf Hwt Hd Hl E Hq; cbn [wf_ty] in Hwf; cbn [ber_dec3].
  - destruct v; try discriminate. injection Hd as <-.
    exact (in_prim3_prefix tg _ p q _ (wf_tag_good tg Hwf) (tlv_content_le _ _ _ Hl) (eq_sym E) Hq).
  - destruct v; try discriminate. injection Hd as <-.
    exact (in_prim3_prefix tg _ p q _ (wf_tag_good tg Hwf) (tlv_content_le _ _ _ Hl) (eq_sym E) Hq).
  - destruct v; try discriminate. injection Hd as <-.
    exact (in_prim3_prefix tg _ p q _ (wf_tag_good tg Hwf) (tlv_content_le _ _ _ Hl) (eq_sym E) Hq).
  - destruct v; try discriminate. injection Hd as <-.
    exact (in_prim3_prefix tg _ p q _ (wf_tag_good tg Hwf) (tlv_content_le _ _ _ Hl) (eq_sym E) Hq).
  - destruct v; try discriminate. cbn [der] in Hd.
    destruct (enc_members der ms vs); [|discriminate]. injection Hd as <-.
    apply andb_true_iff in Hwf. destruct Hwf as [Hwf _].
    apply andb_true_iff in Hwf. destruct Hwf as [Hwf _].
    exact (in_cons3_prefix tg _ p q _ _ (wf_tag_good tg Hwf) (tlv_content_le _ _ _ Hl) (eq_sym E) Hq).
  - destruct v; try discriminate. cbn [der] in Hd.
    destruct (option_all (map (der t) vs)); [|discriminate]. injection Hd as <-.
    apply andb_true_iff in Hwf. destruct Hwf as [Hwf _].
    apply andb_true_iff in Hwf. destruct Hwf as [Hwf _].
    exact (in_cons3_prefix tg _ p q _ _ (wf_tag_good tg Hwf) (tlv_content_le _ _ _ Hl) (eq_sym E) Hq).
  - destruct v; try discriminate. cbn [der] in Hd.
    destruct (option_all (map (der t) vs)); [|discriminate]. injection Hd as <-.
    apply andb_true_iff in Hwf. destruct Hwf as [Hwf _].
    apply andb_true_iff in Hwf. destruct Hwf as [Hwf _].
    exact (in_cons3_prefix tg _ p q _ _ (wf_tag_good tg Hwf) (tlv_content_le _ _ _ Hl) (eq_sym E) Hq).
  - (* CHOICE: the alternative is selected by the tag, once it can be read *)
    destruct v; try discriminate.
    pose proof Hwf as Hwf0.
    apply andb_true_iff in Hwf. destruct Hwf as [Hwf _].
    apply andb_true_iff in Hwf. destruct Hwf as [Hwf Hdis].
    apply andb_true_iff in Hwf. destruct Hwf as [Hwf1 Hwf2].
    destruct (der_head (TChoice alts) (VChoice i v) bs Hwf0 eq_refl Hd) as (tg0 & cc & content & Etlv & Hg & _).
    assert (Hpk : peek_tag (p ++ q) = Some tg0).
    { rewrite <- E, Etlv. rewrite <- (app_nil_r (tlv tg0 cc content)). apply peek_tag_tlv. exact Hg. }
    destruct (peek_tag3 p) as [tg| |] eqn:Ep.
    + pose proof (peek_tag3_prefix p q tg Ep) as Hpq.
      cbn [der] in Hd. subst bs.
      eapply alts_pw; eauto.
    + reflexivity.
    + exfalso. eapply peek_tag3_not_fail; eauto.
  - cbn [der] in Hd. destruct (der t v) as [c|] eqn:Ed; [|discriminate]. injection Hd as <-.
    apply andb_true_iff in Hwf. destruct Hwf as [Hwf _].
    apply andb_true_iff in Hwf. destruct Hwf as [Hwf _].
    exact (in_cons3_prefix tg _ p q _ _ (wf_tag_good tg Hwf) (tlv_content_le _ _ _ Hl) (eq_sym E) Hq).
  - (* OPTIONAL *)
    apply andb_true_iff in Hwf. destruct Hwf as [Hw Hn].
    destruct v; try discriminate; cbn [der wt] in Hd, Hwt.
    + injection Hd as <-. symmetry in E. apply app_eq_nil in E. destruct E. congruence.
    + destruct (der_head t v bs Hw Hn Hd) as (tg0 & cc & content & Etlv & Hg & Hin).
      assert (Hpk : peek_tag (p ++ q) = Some tg0).
      { rewrite <- E, Etlv. rewrite <- (app_nil_r (tlv tg0 cc content)). apply peek_tag_tlv. exact Hg. }
      destruct (peek_tag3 p) as [tg| |] eqn:Ep.
      * pose proof (peek_tag3_prefix p q tg Ep) as Hpq.
        assert (tg = tg0) by congruence. subst tg.
        apply tag_in_In in Hin. rewrite Hin.
        rewrite (IHt v bs p q Hw Hwt Hd Hl E Hq). reflexivity.
      * reflexivity.
      * exfalso. eapply peek_tag3_not_fail; eauto.
Qed.

(* C05, second half, on the model: for a well-formed type and a well-typed
   value, every proper prefix of the DER encoding gives More — never OK,
   never Fail — and (ber_decode3) consumed = 0 <= length of the prefix *)
Theorem prefix_wmore t v bs p q :
  wf_ty t = true -> wt t v = true -> der t v = Some bs -> zlen bs <= rssize_max ->
  bs = p ++ q -> q <> [] -> ber_dec3 t p = RMore /\ ber_decode3 t p = (MORE, 0, None).
Proof.
  intros Hwf Hwt Hd Hl E Hq.
  pose proof (prefix_wmore_all t v bs p q Hwf Hwt Hd Hl E Hq) as H.
  split; [exact H|]. unfold ber_decode3. rewrite H. reflexivity.
Qed.

(* ------------------------------------------------------------------ *)
(* 6. ber_decode_primitive is coherent                                  *)

Lemma skipn_app_le {A} (n : nat) (l m : list A) : (n <= length l)%nat -> skipn n (l ++ m) = skipn n l ++ m.
Proof.
  intros H. rewrite skipn_app. replace (n - length l)%nat with O by lia. reflexivity.
Qed.

Lemma prim_step_more tg c p k c' : prim_step tg c p = (MORE, k, c') -> k = O /\ c' = c.
Proof.
  unfold prim_step. destruct p as [|b0 tl]; [intros H; injection H as <- <-; auto|].
  destruct (fetch_tag (b0 :: tl)) as [tg' n1| |]; [|intros H; injection H as <- <-; auto|discriminate].
  destruct (negb (tg' =? tg)); [discriminate|].
  destruct ((b0 / 32) mod 2 =? 1); [discriminate|].
  destruct (fetch_length false (skipn n1 (b0 :: tl))) as [len n2| |];
    [|intros H; injection H as <- <-; auto|discriminate].
  destruct (len <=? zlen (skipn n2 (skipn n1 (b0 :: tl)))); [discriminate|].
  intros H; injection H as <- <-; auto.
Qed.

Theorem prim_coherent tg : coherent (prim_step tg).
Proof.
  split.
  - intros c p k c' H. destruct (prim_step_more _ _ _ _ _ H) as [-> ->].
    split; [lia|]. intros more. cbn [skipn].
    destruct (prim_step tg c (p ++ more)) as [[a b] d]. reflexivity.
  - intros c p r k c' H Hr more. unfold prim_step in *.
    destruct p as [|b0 tl]; [injection H as <- _ _; congruence|].
    cbn [app]. change (b0 :: tl ++ more) with ((b0 :: tl) ++ more).
    pose proof (fetch_tag_ext (b0 :: tl) more) as Ht.
    destruct (fetch_tag (b0 :: tl)) as [tg' n1| |] eqn:Eft;
      [|injection H as <- _ _; congruence|rewrite Ht; exact H].
    rewrite Ht.
    destruct (negb (tg' =? tg)); [exact H|].
    destruct ((b0 / 32) mod 2 =? 1); [exact H|].
    apply fetch_tag_consumed in Eft.
    rewrite skipn_app_le by lia.
    pose proof (fetch_length_ext false (skipn n1 (b0 :: tl)) more) as Hl.
    destruct (fetch_length false (skipn n1 (b0 :: tl))) as [len n2| |] eqn:Efl;
      [|injection H as <- _ _; congruence|rewrite Hl; exact H].
    rewrite Hl. apply fetch_length_le in Efl.
    rewrite skipn_app_le by lia.
    set (rest := skipn n2 (skipn n1 (b0 :: tl))) in *.
    destruct (len <=? zlen rest) eqn:E1; [|injection H as <- _ _; congruence].
    rewrite zlen_app. pose proof (zlen_nonneg more).
    destruct (len <=? zlen rest + zlen more) eqn:E2; [|lia].
    rewrite firstn_app_le; [exact H|]. unfold zlen in E1. lia.
Qed.

(* a DER-encoded primitive fed one byte at a time: 02 02 01 00 *)
Example prim_session :
  feed0 (prim_step 8) None (bytewise [2; 2; 1; 0; 77]) = (OK, 4%nat, Some [1; 0]) /\
  prim_step 8 None [2; 2; 1; 0; 77] = (OK, 4%nat, Some [1; 0]).
Proof. split; vm_compute; reflexivity. Qed.

(* ------------------------------------------------------------------ *)
(* 7. ber_check_tags with a restart context is coherent                 *)

(* U ::= [5] EXPLICIT SEQUENCE { ... }: tags [5] (context, 5*4+2) and UNIVERSAL 16 *)
Definition u_tags : list Z := [22; 64].

Lemma chain_iter_ext tag w limit exp00 more :
  match chain_iter tag w limit exp00 with
  | IMore => True
  | r => chain_iter tag (w ++ more) limit exp00 = r
  end.
Proof.
  unfold chain_iter. destruct w as [|b0 tl]; [exact I|].
  cbn [app]. change (b0 :: tl ++ more) with ((b0 :: tl) ++ more).
  pose proof (fetch_tag_ext (b0 :: tl) more) as Ht.
  destruct (fetch_tag (b0 :: tl)) as [tg n1| |] eqn:Eft; [|exact I|rewrite Ht; reflexivity].
  rewrite Ht.
  destruct (negb (tg =? tag)); [reflexivity|].
  destruct (negb ((b0 / 32) mod 2 =? 1)); [reflexivity|].
  apply fetch_tag_consumed in Eft. rewrite skipn_app_le by lia.
  pose proof (fetch_length_ext ((b0 / 32) mod 2 =? 1) (skipn n1 (b0 :: tl)) more) as Hl.
  destruct (fetch_length ((b0 / 32) mod 2 =? 1) (skipn n1 (b0 :: tl))) as [len n2| |];
    [|exact I|rewrite Hl; reflexivity].
  rewrite Hl.
  destruct (len =? -1).
  - destruct (limit =? -1); reflexivity.
  - destruct (negb (exp00 =? 0)); [reflexivity|].
    destruct (limit =? -1); [reflexivity|].
    destruct (limit =? len + Z.of_nat (n1 + n2)); reflexivity.
Qed.

(* what one successful iteration says about its results: the header lies inside
   the window, and a known limit shrinks by exactly the header *)
Lemma chain_iter_next tag w limit e l' e' len adv :
  chain_iter tag w limit e = INext l' e' len adv ->
  (adv <= length w)%nat /\ (limit = -1 \/ l' = limit - Z.of_nat adv).
Proof.
  unfold chain_iter. destruct w as [|b0 tl]; [discriminate|].
  destruct (fetch_tag (b0 :: tl)) as [tg n1| |] eqn:Eft; [|discriminate|discriminate].
  destruct (negb (tg =? tag)); [discriminate|].
  destruct (negb ((b0 / 32) mod 2 =? 1)); [discriminate|].
  apply fetch_tag_consumed in Eft.
  destruct (fetch_length ((b0 / 32) mod 2 =? 1) (skipn n1 (b0 :: tl))) as [ln n2| |] eqn:Efl;
    [|discriminate|discriminate].
  apply fetch_length_le in Efl. rewrite skipn_length in Efl.
  destruct (ln =? -1).
  - destruct (limit =? -1) eqn:El; [|discriminate].
    intros H. injection H as <- <- <- <-. split; [lia|]. left. lia.
  - destruct (negb (e =? 0)); [discriminate|].
    destruct (limit =? -1) eqn:El.
    + intros H. injection H as <- <- <- <-. split; [lia|]. left. lia.
    + destruct (limit =? ln + Z.of_nat (n1 + n2)); [|discriminate].
      intros H. injection H as <- <- <- <-. split; [lia|]. right. reflexivity.
Qed.

Lemma trunc_neg1 w : trunc (-1) w = w.
Proof. reflexivity. Qed.

Lemma trunc_length limit w : (length (trunc limit w) <= length w)%nat.
Proof.
  unfold trunc. destruct ((0 <=? limit) && (limit <? zlen w)); [|lia].
  rewrite firstn_length. lia.
Qed.

(* more input behind a window that is cut to the limit: more input behind the cut *)
Lemma trunc_app limit w more : exists m', trunc limit (w ++ more) = trunc limit w ++ m'.
Proof.
  unfold trunc. rewrite zlen_app. pose proof (zlen_nonneg more). unfold zlen in *.
  destruct ((0 <=? limit) && (limit <? Z.of_nat (length w))) eqn:E1.
  - assert (E2 : (0 <=? limit) && (limit <? Z.of_nat (length w) + Z.of_nat (length more)) = true) by lia.
    rewrite E2. exists []. rewrite app_nil_r. apply firstn_app_le. lia.
  - destruct ((0 <=? limit) && (limit <? Z.of_nat (length w) + Z.of_nat (length more))) eqn:E2.
    + exists (firstn (Z.to_nat limit - length w) more).
      rewrite firstn_app. f_equal. apply firstn_all2. lia.
    + exists more. reflexivity.
Qed.

(* the cut of the next iteration does not depend on the cut of this one *)
Lemma trunc_skipn_firstn (L adv : nat) (w : list Z) (l' : Z) :
  (L < length w)%nat -> (adv <= L)%nat -> l' = Z.of_nat (L - adv) ->
  trunc l' (skipn adv (firstn L w)) = trunc l' (skipn adv w).
Proof.
  intros HL Hadv ->. rewrite skipn_firstn_comm.
  unfold trunc, zlen. rewrite firstn_length, !skipn_length.
  assert (E1 : (0 <=? Z.of_nat (L - adv)) && (Z.of_nat (L - adv) <? Z.of_nat (Nat.min (L - adv) (length w - adv))) = false) by lia.
  assert (E2 : (0 <=? Z.of_nat (L - adv)) && (Z.of_nat (L - adv) <? Z.of_nat (length w - adv)) = true) by lia.
  rewrite E1, E2, Nat2Z.id. reflexivity.
Qed.

Lemma iter_trunc tag w limit e l' e' len adv :
  chain_iter tag (trunc limit w) limit e = INext l' e' len adv ->
  (adv <= length w)%nat /\ trunc l' (skipn adv (trunc limit w)) = trunc l' (skipn adv w).
Proof.
  intros H. destruct (chain_iter_next _ _ _ _ _ _ _ _ H) as [Hadv Hl].
  pose proof (trunc_length limit w) as Htl. split; [lia|].
  revert Hadv. unfold trunc at 1 3.
  destruct ((0 <=? limit) && (limit <? zlen w)) eqn:E; [|reflexivity].
  intros Hadv. destruct Hl as [Hl|Hl]; [lia|].
  unfold zlen in E. rewrite firstn_length in Hadv.
  apply trunc_skipn_firstn; lia.
Qed.

Lemma skipn_add {A} (a b : nat) : forall l : list A, skipn (a + b) l = skipn b (skipn a l).
Proof.
  induction a as [|a IH]; intros l; [reflexivity|].
  destruct l as [|x l]; [cbn; destruct b; reflexivity|]. cbn [Nat.add skipn]. apply IH.
Qed.

(* the loop as seen from outside: the rest of the window before the cut *)
Definition chain_from (tags : list Z) (w : list Z) (limit e last : Z) (step consumed : nat) :=
  chain_loop tags (trunc limit w) limit e last step consumed.

Lemma chain_from_cons tag tags w limit e last step consumed :
  chain_from (tag :: tags) w limit e last step consumed =
  match chain_iter tag (trunc limit w) limit e with
  | IMore => (MORE, consumed, {| cstep := step; cleft := limit; cctx := e |})
  | IFail => (FAIL, consumed, {| cstep := step; cleft := limit; cctx := e |})
  | INext l' e' len adv => chain_from tags (skipn adv w) l' e' len (S step) (consumed + adv)%nat
  end.
Proof.
  unfold chain_from. cbn [chain_loop].
  destruct (chain_iter tag (trunc limit w) limit e) as [l' e' len adv| |] eqn:Ei; [|reflexivity|reflexivity].
  destruct (iter_trunc _ _ _ _ _ _ _ _ Ei) as [_ ->]. reflexivity.
Qed.

(* the same iteration on a longer window *)
Lemma chain_iter_app tag w limit e more :
  match chain_iter tag (trunc limit w) limit e with
  | IMore => True
  | r => chain_iter tag (trunc limit (w ++ more)) limit e = r
  end.
Proof.
  destruct (trunc_app limit w more) as [m' ->]. apply chain_iter_ext.
Qed.

Lemma chain_from_shift : forall tags w limit e last step consumed,
  chain_from tags w limit e last step consumed = shift consumed (chain_from tags w limit e last step O).
Proof.
  induction tags as [|tag tags IH]; intros w limit e last step consumed.
  - unfold chain_from. cbn [chain_loop shift]. rewrite Nat.add_0_r. reflexivity.
  - rewrite !chain_from_cons.
    destruct (chain_iter tag (trunc limit w) limit e) as [l' e' len adv| |];
      [|cbn [shift]; rewrite Nat.add_0_r; reflexivity|cbn [shift]; rewrite Nat.add_0_r; reflexivity].
    rewrite (IH _ _ _ _ _ (consumed + adv)%nat), (IH _ _ _ _ _ (0 + adv)%nat).
    rewrite shift_shift. reflexivity.
Qed.

(* RC_OK and RC_FAIL do not change when more input arrives *)
Lemma chain_from_final : forall tags w limit e last step consumed r k c',
  chain_from tags w limit e last step consumed = (r, k, c') -> r <> MORE ->
  forall more, chain_from tags (w ++ more) limit e last step consumed = (r, k, c').
Proof.
  induction tags as [|tag tags IH]; intros w limit e last step consumed r k c' H Hr more.
  - exact H.
  - rewrite chain_from_cons in *.
    pose proof (chain_iter_app tag w limit e more) as He.
    destruct (chain_iter tag (trunc limit w) limit e) as [l' e' len adv| |] eqn:Ei.
    + rewrite He. destruct (iter_trunc _ _ _ _ _ _ _ _ Ei) as [Hadv _].
      rewrite skipn_app_le by exact Hadv. eapply IH; eassumption.
    + injection H as <- _ _. congruence.
    + rewrite He. exact H.
Qed.

(* RC_WMORE after j tags and a octets: on a longer window the loop reaches the
   same point with the locals that were saved, and goes on from there *)
Lemma chain_from_more : forall tags w limit e last step consumed k c',
  chain_from tags w limit e last step consumed = (MORE, k, c') ->
  exists j a, k = (consumed + a)%nat /\ (a <= length w)%nat /\ cstep c' = (step + j)%nat /\
    (j = O -> a = O /\ cleft c' = limit /\ cctx c' = e) /\
    forall more, chain_from tags (w ++ more) limit e last step consumed =
                 chain_from (skipn j tags) (skipn a w ++ more) (cleft c') (cctx c') 0 (step + j) k.
Proof.
  induction tags as [|tag tags IH]; intros w limit e last step consumed k c' H.
  - discriminate.
  - rewrite chain_from_cons in H.
    destruct (chain_iter tag (trunc limit w) limit e) as [l' e' len adv| |] eqn:Ei.
    + destruct (iter_trunc _ _ _ _ _ _ _ _ Ei) as [Hadv _].
      destruct (IH _ _ _ _ _ _ _ _ H) as (j & a & Hk & Ha & Hs & _ & Hext).
      rewrite skipn_length in Ha.
      exists (S j), (adv + a)%nat. repeat split; try lia.
      intros more. rewrite chain_from_cons.
      pose proof (chain_iter_app tag w limit e more) as He. rewrite Ei in He. rewrite He.
      rewrite skipn_app_le by exact Hadv. rewrite Hext.
      cbn [skipn]. replace (S step + j)%nat with (step + S j)%nat by lia.
      rewrite skipn_add. reflexivity.
    + injection H as <- <-. exists O, O. cbn [cstep cleft cctx skipn]. rewrite !Nat.add_0_r.
      repeat split; try lia.
    + discriminate.
Qed.

Lemma chain_step_from tags c w :
  chain_step tags c w =
  match cstep c with
  | O => chain_from tags w (-1) 0 0 O O
  | S _ => chain_from (skipn (cstep c) tags) w (cleft c) (cctx c) 0 (cstep c) O
  end.
Proof. unfold chain_step, chain_from. destruct (cstep c); reflexivity. Qed.

(* C05 for the chain of tags of any constructed type: whatever the number of
   EXPLICIT tags, definite or indefinite lengths *)
Theorem chain_coherent tags : coherent (chain_step tags).
Proof.
  split.
  - intros c p k c' H. rewrite chain_step_from in H.
    destruct (cstep c) as [|n] eqn:Ec.
    + destruct (chain_from_more _ _ _ _ _ _ _ _ _ H) as (j & a & Hk & Ha & Hs & H0 & Hext).
      cbn in Hk, Hs. subst k. split; [exact Ha|]. intros more.
      rewrite !chain_step_from, Ec, Hext, Hs.
      destruct j as [|j].
      * destruct (H0 eq_refl) as (-> & -> & ->). cbn [skipn shift Nat.add].
        destruct (chain_from tags (p ++ more) (-1) 0 0 0 0) as [[x y] z]. reflexivity.
      * cbn [Nat.add]. rewrite (chain_from_shift _ _ _ _ _ _ a). reflexivity.
    + destruct (chain_from_more _ _ _ _ _ _ _ _ _ H) as (j & a & Hk & Ha & Hs & _ & Hext).
      cbn in Hk. subst k. split; [exact Ha|]. intros more.
      rewrite !chain_step_from, Ec, Hext, Hs.
      cbn [Nat.add]. rewrite <- skipn_add.
      rewrite (chain_from_shift _ _ _ _ _ _ a). reflexivity.
  - intros c p r k c' H Hr more. rewrite chain_step_from in *.
    destruct (cstep c); eapply chain_from_final; eassumption.
Qed.

Corollary chain_chunk_independent tags input chunks :
  chunking_of input chunks -> feed0 (chain_step tags) chain_ctx0 chunks = chain_step tags chain_ctx0 input.
Proof. apply coherent_implies_chunk_independent. apply chain_coherent. Qed.

(* the witnesses of finding C05-ber-tagchain-restart, now answered alike:
   a5 80 | 30 80 a7 03 02 01 05 00 00 00 00 (valid BER, two end-of-contents pairs
   are left for the caller however the input is cut), and
   a5 80 | 30 05 a7 03 02 01 05 00 00 (definite inside indefinite: RC_FAIL both ways) *)
Example chain_session :
  chain_step u_tags chain_ctx0 [165; 128] = (MORE, 2%nat, {| cstep := 1; cleft := -1; cctx := 1 |}) /\
  chain_step u_tags chain_ctx0 ([165; 128] ++ [48; 128; 167; 3; 2; 1; 5; 0; 0; 0; 0])
    = (OK, 4%nat, {| cstep := 2; cleft := -2; cctx := 0 |}) /\
  feed0 (chain_step u_tags) chain_ctx0 [[165; 128]; [48; 128; 167; 3; 2; 1; 5; 0; 0; 0; 0]]
    = (OK, 4%nat, {| cstep := 2; cleft := -2; cctx := 0 |}) /\
  chain_step u_tags chain_ctx0 ([165; 128] ++ [48; 5; 167; 3; 2; 1; 5; 0; 0])
    = (FAIL, 2%nat, {| cstep := 1; cleft := -1; cctx := 1 |}) /\
  feed0 (chain_step u_tags) chain_ctx0 [[165; 128]; [48; 5; 167; 3; 2; 1; 5; 0; 0]]
    = (FAIL, 2%nat, {| cstep := 1; cleft := -1; cctx := 1 |}).
Proof. repeat split; vm_compute; reflexivity. Qed.
